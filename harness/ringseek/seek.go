// Package ringseek advances a fresh ringz.SyncRing to the state that k
// sequential push/pop pairs would produce, by writing its private counters and
// slot sequence numbers through reflection. The seek is self-validating: it is
// compared field by field with rings that really performed k pairs, and is
// declared unusable (not an alarm) when the representation is not the expected
// one.
package ringseek

import (
	"fmt"
	"reflect"
	"sync"
	"unsafe"

	"github.com/welllog/golib/ringz"
)

type layout struct {
	ok         bool
	reason     string
	head, tail uintptr
	wide       bool // head/tail are 64-bit cursors
	values     uintptr
	itemSize   uintptr
	posOff     uintptr
}

var lay = probe()

func probe() (l layout) {
	defer func() {
		if p := recover(); p != nil {
			l = layout{reason: fmt.Sprint("probe panicked: ", p)}
		}
	}()
	t := reflect.TypeOf(ringz.SyncRing[int]{})
	get := func(name string, kind reflect.Kind) (reflect.StructField, bool) {
		f, ok := t.FieldByName(name)
		if !ok || f.Type.Kind() != kind {
			return f, false
		}
		return f, true
	}
	wide := false
	h, ok1 := get("head", reflect.Uint32)
	tl, ok2 := get("tail", reflect.Uint32)
	if !ok1 || !ok2 {
		// 64-bit cursors: the state after k < 2^32 pairs has the same numbers
		h, ok1 = get("head", reflect.Uint64)
		tl, ok2 = get("tail", reflect.Uint64)
		wide = true
	}
	v, ok3 := get("values", reflect.Slice)
	if !ok1 || !ok2 || !ok3 {
		return layout{reason: "fields head/tail (uint32 or uint64) and values (slice) not found"}
	}
	it := v.Type.Elem()
	if it.Kind() != reflect.Struct {
		return layout{reason: "values is not a slice of structs"}
	}
	p, ok := it.FieldByName("pos")
	if !ok || p.Type.Kind() != reflect.Uint32 {
		return layout{reason: "slot field pos (uint32) not found"}
	}
	return layout{ok: true, head: h.Offset, tail: tl.Offset, wide: wide, values: v.Offset, itemSize: it.Size(), posOff: p.Offset}
}

type sliceHeader struct {
	data unsafe.Pointer
	len  int
	cap  int
}

// State is the private state of a ring: head, tail and the slot sequence numbers.
type State struct {
	Head, Tail     uint32
	HeadHi, TailHi uint32 // upper halves when the cursors are 64 bits wide
	Pos            []uint32
}

// Read returns the private state (only valid if Usable()).
func Read(r *ringz.SyncRing[int]) State {
	base := unsafe.Pointer(r)
	var s State
	if lay.wide {
		s = State{Head: uint32(*(*uint64)(unsafe.Add(base, lay.head))), Tail: uint32(*(*uint64)(unsafe.Add(base, lay.tail)))}
		s.HeadHi = uint32(*(*uint64)(unsafe.Add(base, lay.head)) >> 32)
		s.TailHi = uint32(*(*uint64)(unsafe.Add(base, lay.tail)) >> 32)
	} else {
		s = State{Head: *(*uint32)(unsafe.Add(base, lay.head)), Tail: *(*uint32)(unsafe.Add(base, lay.tail))}
	}
	sh := (*sliceHeader)(unsafe.Add(base, lay.values))
	for i := 0; i < sh.len; i++ {
		s.Pos = append(s.Pos, *(*uint32)(unsafe.Add(sh.data, uintptr(i)*lay.itemSize+lay.posOff)))
	}
	return s
}

// Seek puts an EMPTY ring (any history) into the state after k push/pop pairs
// counted from a fresh ring.
func Seek(r *ringz.SyncRing[int], k uint32) {
	base := unsafe.Pointer(r)
	if lay.wide {
		*(*uint64)(unsafe.Add(base, lay.head)) = uint64(k)
		*(*uint64)(unsafe.Add(base, lay.tail)) = uint64(k)
	} else {
		*(*uint32)(unsafe.Add(base, lay.head)) = k
		*(*uint32)(unsafe.Add(base, lay.tail)) = k
	}
	sh := (*sliceHeader)(unsafe.Add(base, lay.values))
	n := uint32(sh.len)
	for i := 0; i < sh.len; i++ {
		// slot i is free for the next position >= k that is mapped to it (any
		// capacity: for a power of two this is k + ((i-k) & mask))
		d := (uint32(i) + n - k%n) % n
		*(*uint32)(unsafe.Add(sh.data, uintptr(i)*lay.itemSize+lay.posOff)) = k + d
	}
}

var (
	vmu       sync.Mutex
	validated = map[int]bool{}
	whyNot    string
)

// Usable reports whether the seek reproduces honest rings for this requested
// capacity (validated once per capacity for k = 0..3*cap+1).
func Usable(reqCap int) (bool, string) {
	if !lay.ok {
		return false, lay.reason
	}
	vmu.Lock()
	defer vmu.Unlock()
	if v, ok := validated[reqCap]; ok {
		return v, whyNot
	}
	ok := func() (ok bool) {
		defer func() {
			if p := recover(); p != nil {
				whyNot = fmt.Sprint("validation panicked: ", p)
				ok = false
			}
		}()
		honest := ringz.NewSync[int](reqCap)
		c := honest.Cap()
		if c <= 0 {
			whyNot = "capacity is not positive"
			return false
		}
		for k := 0; k <= 3*c+1; k++ {
			s := ringz.NewSync[int](reqCap)
			Seek(&s, uint32(k))
			a, b := Read(&honest), Read(&s)
			if a.Head != b.Head || a.Tail != b.Tail || a.HeadHi != b.HeadHi || a.TailHi != b.TailHi || len(a.Pos) != len(b.Pos) {
				whyNot = fmt.Sprintf("seek(%d) differs from an honest ring: %v vs %v", k, b, a)
				return false
			}
			for i := range a.Pos {
				if a.Pos[i] != b.Pos[i] {
					whyNot = fmt.Sprintf("seek(%d) differs from an honest ring: %v vs %v", k, b, a)
					return false
				}
			}
			if !honest.Push(k) {
				whyNot = "honest push failed"
				return false
			}
			if _, ok := honest.Pop(); !ok {
				whyNot = "honest pop failed"
				return false
			}
		}
		return true
	}()
	validated[reqCap] = ok
	return ok, whyNot
}
