// Package hist records client-boundary call/return histories and checks them
// with porcupine against small sequential models.
package hist

import (
	"fmt"
	"sort"
	"strings"
	"time"

	"github.com/anishathalye/porcupine"
)

// Op is one client call with its invocation/response timestamps.
type Op struct {
	Client int
	Kind   string
	Arg    int64 // pushed value / key
	Arg2   int64 // value for key-value operations
	Call   int64
	Ret    int64
	Out    int64 // popped value / length / read value
	OK     bool
	Extra  string // canonical rendering of snapshot outputs
	// Overlapped: the closed interval [Call,Ret] intersects another operation's.
	Overlapped bool
}

func (o Op) String() string {
	ov := ""
	if o.Overlapped {
		ov = " ~"
	}
	ex := ""
	if o.Extra != "" {
		ex = " " + o.Extra
	}
	return fmt.Sprintf("c%d [%d,%d] %s(%d,%d) -> (%d,%v)%s%s", o.Client, o.Call, o.Ret, o.Kind, o.Arg, o.Arg2, o.Out, o.OK, ex, ov)
}

// Recorder collects per-client operation lists. In logical mode timestamps
// come from a counter (safe because the controlled scheduler runs one thread at
// a time and quiescent phases are single-threaded); otherwise from one
// monotonic clock.
type Recorder struct {
	Logical bool
	clock   int64
	t0      time.Time
	per     [][]Op
}

func NewRecorder(clients int, logical bool) *Recorder {
	return &Recorder{Logical: logical, t0: time.Now(), per: make([][]Op, clients)}
}

func (r *Recorder) Now() int64 {
	if r.Logical {
		r.clock++
		return r.clock
	}
	return int64(time.Since(r.t0))
}

// Begin stamps the call; End stamps the return and stores the op.
func (r *Recorder) Begin(client int, kind string, arg, arg2 int64) Op {
	return Op{Client: client, Kind: kind, Arg: arg, Arg2: arg2, Call: r.Now()}
}

func (r *Recorder) End(o Op, out int64, ok bool, extra string) {
	o.Out, o.OK, o.Extra = out, ok, extra
	o.Ret = r.Now()
	r.per[o.Client] = append(r.per[o.Client], o)
}

// AddClient adds one more client (for quiescent phases) and returns its id.
func (r *Recorder) AddClient() int {
	r.per = append(r.per, nil)
	return len(r.per) - 1
}

// Client returns the operations recorded so far by one client.
func (r *Recorder) Client(id int) []Op { return r.per[id] }

// Quiesce is called when no operation is in flight; it makes every later
// timestamp strictly greater than every recorded one, so the operations that
// follow are not overlapped by anything before.
func (r *Recorder) Quiesce() {
	if r.Logical {
		return
	}
	var max int64
	for _, p := range r.per {
		for _, o := range p {
			if o.Ret > max {
				max = o.Ret
			}
		}
	}
	for int64(time.Since(r.t0)) <= max {
	}
}

// Ops returns all operations sorted by call time with Overlapped computed.
func (r *Recorder) Ops() []Op {
	var all []Op
	for _, p := range r.per {
		all = append(all, p...)
	}
	sort.SliceStable(all, func(i, j int) bool { return all[i].Call < all[j].Call })
	MarkOverlaps(all)
	return all
}

// MarkOverlaps sets Overlapped for every op whose closed interval intersects
// another op's. ops must be sorted by Call.
func MarkOverlaps(ops []Op) {
	// sweep: op i overlaps a later op j iff ops[j].Call <= ops[i].Ret
	maxRet := int64(-1 << 62)
	for i := range ops {
		ops[i].Overlapped = false
	}
	for i := range ops {
		if i > 0 && ops[i].Call <= maxRet {
			ops[i].Overlapped = true
		}
		if ops[i].Ret > maxRet {
			maxRet = ops[i].Ret
		}
	}
	// and from the other side: does a later op start before i returns?
	for i := range ops {
		if i+1 < len(ops) && ops[i+1].Call <= ops[i].Ret {
			ops[i].Overlapped = true
		}
	}
}

func Render(ops []Op) []string {
	out := make([]string, len(ops))
	for i, o := range ops {
		out[i] = o.String()
	}
	return out
}

// Canon is a canonical string of the observable history: per-op content and
// the relative order of all call/return events.
func Canon(ops []Op) string {
	type evt struct {
		t   int64
		ret bool
		i   int
	}
	var evs []evt
	for i, o := range ops {
		evs = append(evs, evt{o.Call, false, i}, evt{o.Ret, true, i})
	}
	sort.SliceStable(evs, func(a, b int) bool {
		if evs[a].t != evs[b].t {
			return evs[a].t < evs[b].t
		}
		return !evs[a].ret && evs[b].ret
	})
	var b strings.Builder
	for _, e := range evs {
		o := ops[e.i]
		if e.ret {
			fmt.Fprintf(&b, "r%d:%d,%v,%s;", e.i, o.Out, o.OK, o.Extra)
		} else {
			fmt.Fprintf(&b, "c%d:%d%s(%d,%d);", e.i, o.Client, o.Kind, o.Arg, o.Arg2)
		}
	}
	return b.String()
}

type Verdict int

const (
	Linearizable Verdict = iota
	Illegal
	Unknown
)

// Check runs porcupine with a timeout.
func Check(model porcupine.Model, ops []Op, timeout time.Duration) Verdict {
	pops := make([]porcupine.Operation, len(ops))
	for i, o := range ops {
		pops[i] = porcupine.Operation{ClientId: o.Client, Input: o, Output: o, Call: o.Call, Return: o.Ret}
	}
	switch porcupine.CheckOperationsTimeout(model, pops, timeout) {
	case porcupine.Ok:
		return Linearizable
	case porcupine.Illegal:
		return Illegal
	}
	return Unknown
}

// ---- queue models ----

func qpush(q string, v int64) string {
	return q + string([]byte{byte(v), byte(v >> 8), byte(v >> 16), byte(v >> 24)})
}

func qhead(q string) int64 {
	return int64(int32(uint32(q[0]) | uint32(q[1])<<8 | uint32(q[2])<<16 | uint32(q[3])<<24))
}

func QueueState(vals []int64) string {
	q := ""
	for _, v := range vals {
		q = qpush(q, v)
	}
	return q
}

// BoundedQueueModel: FIFO of capacity cap with excusable failures: a failed
// Push/Pop is legal if the op was overlapped, or the queue was full/empty at
// the linearization point. Len/IsEmpty/IsFull are exact when not overlapped;
// when overlapped Len only has to lie in [0,cap]. (Property C01/C10.)
func BoundedQueueModel(capacity int, init []int64) porcupine.Model {
	return porcupine.Model{
		Init: func() interface{} { return QueueState(init) },
		Step: func(st, in, out interface{}) (bool, interface{}) {
			q := st.(string)
			o := out.(Op)
			n := len(q) / 4
			switch o.Kind {
			case "Push", "PushWait":
				if o.OK {
					if n >= capacity {
						return false, q
					}
					return true, qpush(q, o.Arg)
				}
				return o.Overlapped || n == capacity, q
			case "Pop", "PopWait":
				if o.OK {
					if n == 0 || qhead(q) != o.Out {
						return false, q
					}
					return true, q[4:]
				}
				return o.Overlapped || n == 0, q
			case "Len":
				if o.Overlapped {
					return o.Out >= 0 && o.Out <= int64(capacity), q
				}
				return o.Out == int64(n), q
			case "IsEmpty":
				if o.Overlapped {
					return true, q
				}
				return o.OK == (n == 0), q
			case "IsFull":
				if o.Overlapped {
					return true, q
				}
				return o.OK == (n == capacity), q
			}
			return false, q
		},
	}
}

// UnboundedQueueModel (property C11): Push always succeeds; a failed Pop is
// legal if overlapped or the queue is empty; Len -> n must equal |q| when not
// overlapped and be >= |q| at its linearization point when overlapped.
func UnboundedQueueModel(init []int64) porcupine.Model {
	return porcupine.Model{
		Init: func() interface{} { return QueueState(init) },
		Step: func(st, in, out interface{}) (bool, interface{}) {
			q := st.(string)
			o := out.(Op)
			n := len(q) / 4
			switch o.Kind {
			case "Push":
				return true, qpush(q, o.Arg)
			case "Pop", "PopWait":
				if o.OK {
					if n == 0 || qhead(q) != o.Out {
						return false, q
					}
					return true, q[4:]
				}
				return o.Overlapped || n == 0, q
			case "Len":
				if o.Overlapped {
					return o.Out >= int64(n), q
				}
				return o.Out == int64(n), q
			}
			return false, q
		},
	}
}
