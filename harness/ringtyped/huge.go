package ringtyped

import (
	"fmt"
	"math"

	"github.com/welllog/golib/ringz"

	"verif/ev"
)

// HugeCase: Ring over element types of size zero with capacities at the top of
// the int range (make([]struct{}, math.MaxInt) costs no memory). Index and
// length arithmetic that adds the capacity to a position overflows there. All
// elements are equal, so the model is the number of elements held.
func HugeCase(c *ev.Case) {
	if c.Index%2 == 0 {
		huge[struct{}](c, "struct{}")
	} else {
		huge[[0]int](c, "[0]int")
	}
}

var hugeCaps = []int{math.MaxInt, math.MaxInt - 1, math.MaxInt - 2, math.MaxInt - 5, math.MaxInt/2 + 1, math.MaxInt / 2, 1 << 40}

func huge[T comparable](c *ev.Case, tname string) {
	rng := c.Rng
	cp := hugeCaps[(c.Index/2)%len(hugeCaps)]
	var r ringz.Ring[T]
	if !c.Guard("New["+tname+"]", func() { r = ringz.New[T](cp) }) {
		return
	}
	var zero T
	held := 0
	check := func(after string) bool {
		var ln, rc int
		var e, f bool
		if !c.Guard("Ring.Len/Cap["+tname+"]", func() { ln, rc, e, f = r.Len(), r.Cap(), r.IsEmpty(), r.IsFull() }) {
			return false
		}
		if ln != held || rc != cp || e != (held == 0) || f != (held == cp) {
			c.Failf("huge-ring-observers", "Ring[%s] of capacity %d after %s: Len=%d Cap=%d IsEmpty=%v IsFull=%v, %d elements are held", tname, cp, after, ln, rc, e, f, held)
			return false
		}
		return true
	}
	if !check("New") {
		return
	}
	h := ev.Mix(ev.HashString(tname), uint64(cp))
	for step, n := 0, rng.Range(12, 40); step < n; step++ {
		op := rng.Intn(100)
		h = ev.Mix(h, uint64(op))
		switch {
		case op < 45:
			var ok bool
			if !c.Guard("Ring.Push["+tname+"]", func() { ok = r.Push(zero) }) {
				return
			}
			if ok != (held < cp) {
				c.Failf("huge-ring-push", "Ring[%s] of capacity %d holding %d: Push returned %v", tname, cp, held, ok)
				return
			}
			if ok {
				held++
			}
			if !check("Push") {
				return
			}
		case op < 70:
			var ok bool
			if !c.Guard("Ring.Pop["+tname+"]", func() { _, ok = r.Pop() }) {
				return
			}
			if ok != (held > 0) {
				c.Failf("huge-ring-pop", "Ring[%s] of capacity %d holding %d: Pop ok=%v", tname, cp, held, ok)
				return
			}
			if ok {
				held--
			}
			if !check("Pop") {
				return
			}
		case op < 80:
			var ok bool
			if !c.Guard("Ring.Peek["+tname+"]", func() { _, ok = r.Peek() }) {
				return
			}
			if ok != (held > 0) {
				c.Failf("huge-ring-peek", "Ring[%s] of capacity %d holding %d: Peek ok=%v", tname, cp, held, ok)
				return
			}
		default:
			// Recap: below the content -> refused; the same -> refused; another capacity -> accepted, content kept
			var nc int
			switch rng.Intn(4) {
			case 0:
				nc = held - 1 - rng.Intn(2)
			case 1:
				nc = cp
			case 2:
				nc = hugeCaps[rng.Intn(len(hugeCaps))]
			default:
				nc = held + rng.Intn(3)
			}
			want := nc > 0 && nc != cp && nc >= held
			var ok bool
			if !c.Guard("Ring.Recap["+tname+"]", func() { ok = r.Recap(nc) }) {
				return
			}
			if ok != want {
				c.Failf("huge-ring-recap", "Ring[%s] of capacity %d holding %d: Recap(%d) = %v", tname, cp, held, nc, ok)
				return
			}
			if ok {
				cp = nc
			}
			c.Add("huge_ring_recaps", 1)
			if !check(fmt.Sprintf("Recap(%d)", nc)) {
				return
			}
		}
	}
	c.Add("huge_ring_cases", 1)
	if held >= 2 {
		c.Add("huge_ring_cases_with_two_or_more_held", 1)
	}
	c.Distinct(h)
	if c.WantSample() {
		c.Sample(fmt.Sprintf("Ring[%s] with capacities from %v: Push/Pop/Peek/Recap, Len/Cap/IsEmpty/IsFull after every step", tname, hugeCaps))
	}
}
