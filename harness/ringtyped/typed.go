// Package ringtyped drives Ring[T] and SyncRing[T] with element types other than
// int: interface types holding nil, nil pointers, strings with "", zero-size
// structs, multi-word structs. The queue contract does not depend on T, so a
// generic helper that boxes, asserts or compares elements must keep it for all of
// them (a nil interface value is a value like any other).
package ringtyped

import (
	"errors"
	"fmt"
	"runtime"
	"sync/atomic"

	"github.com/welllog/golib/ringz"

	"verif/ev"
)

type pair struct {
	A uint64
	B string
}

type wide [5]uint64

var (
	errA = errors.New("a")
	errB = errors.New("b")
	ints = [...]int{7, 0, -1, 42}
)

// Case picks the element type from the case index and runs the sequential and the
// two-goroutine workload on it.
func Case(c *ev.Case) {
	switch c.Index % 8 {
	case 0:
		run(c, "any", func(i int) any {
			switch i % 5 {
			case 0:
				return nil
			case 1:
				return i
			case 2:
				return fmt.Sprint("s", i)
			case 3:
				return pair{uint64(i), "p"}
			}
			return &ints[i%len(ints)]
		})
	case 1:
		run(c, "error", func(i int) error {
			switch i % 3 {
			case 0:
				return nil
			case 1:
				return errA
			}
			return errB
		})
	case 2:
		run(c, "*int", func(i int) *int {
			if i%3 == 0 {
				return nil
			}
			return &ints[i%len(ints)]
		})
	case 3:
		run(c, "string", func(i int) string {
			if i%4 == 0 {
				return ""
			}
			return fmt.Sprint("v", i)
		})
	case 4:
		run(c, "struct{}", func(i int) struct{} { return struct{}{} })
	case 5:
		run(c, "pair", func(i int) pair { return pair{uint64(i), fmt.Sprint(i % 3)} })
	case 6:
		run(c, "wide", func(i int) wide { return wide{uint64(i), 1, 2, 3, uint64(i) * 7} })
	default:
		run(c, "fmt.Stringer", func(i int) fmt.Stringer {
			if i%2 == 0 {
				return nil
			}
			return stringer(i)
		})
	}
}

type stringer int

func (s stringer) String() string { return fmt.Sprint(int(s)) }

func run[T comparable](c *ev.Case, tname string, mk func(i int) T) {
	c.Add("typed_cases/"+tname, 1)
	if !seqSync(c, tname, mk) || !seqRing(c, tname, mk) {
		return
	}
	if !pipe(c, tname, mk) {
		return
	}
	c.Distinct(ev.Mix(ev.HashString(tname), c.Rng.Uint64()))
	if c.WantSample() {
		c.Sample("typed: SyncRing[" + tname + "] and Ring[" + tname + "] sequential sequences incl. zero/nil elements, then a two-goroutine transfer in FIFO order")
	}
}

func seqSync[T comparable](c *ev.Case, tname string, mk func(i int) T) bool {
	rng := c.Rng
	req := rng.Range(1, 9)
	var r ringz.SyncRing[T]
	if !c.Guard("NewSync["+tname+"]", func() { r = ringz.NewSync[T](req) }) {
		return false
	}
	cp := r.Cap() // how Cap() relates to the request is C10's clause, decided there
	if cp < 1 {
		c.Failf("typed-cap", "NewSync[%s](%d).Cap() = %d", tname, req, cp)
		return false
	}
	var m []T
	next := 0
	for step, n := 0, rng.Range(10, 60); step < n; step++ {
		kind := rng.Pick(0, 0, 1, 2)
		if rng.Bool() {
			v := mk(next)
			next++
			if kind == 2 && len(m) == cp {
				kind = 1
			}
			name := [...]string{"Push", "PushWait(0)", "PushWait(-1)"}[kind] + "[" + tname + "]"
			var ok bool
			if !c.Guard(name, func() {
				switch kind {
				case 0:
					ok = r.Push(v)
				case 1:
					ok = r.PushWait(v, 0)
				default:
					ok = r.PushWait(v, -1)
				}
			}) {
				return false
			}
			c.Logf("%s %#v -> %v", name, v, ok)
			if ok != (len(m) < cp) {
				c.Failf("typed-push", "SyncRing[%s] %s(%#v) returned %v with %d of %d held", tname, name, v, ok, len(m), cp)
				return false
			}
			if ok {
				m = append(m, v)
				if any(v) == nil {
					c.Add("typed_nil_elements_pushed", 1)
				}
			}
		} else {
			if kind == 2 && len(m) == 0 {
				kind = 1
			}
			name := [...]string{"Pop", "PopWait(0)", "PopWait(-1)"}[kind] + "[" + tname + "]"
			var v T
			var ok bool
			if !c.Guard(name, func() {
				switch kind {
				case 0:
					v, ok = r.Pop()
				case 1:
					v, ok = r.PopWait(0)
				default:
					v, ok = r.PopWait(-1)
				}
			}) {
				return false
			}
			c.Logf("%s -> (%#v,%v)", name, v, ok)
			if ok != (len(m) > 0) || (ok && v != m[0]) {
				c.Failf("typed-pop", "SyncRing[%s] %s = (%#v,%v), model content %#v", tname, name, v, ok, m)
				return false
			}
			if ok {
				if any(v) == nil {
					c.Add("typed_nil_elements_popped", 1)
				}
				m = m[1:]
			}
		}
		var ln int
		var e, f bool
		if !c.Guard("Len/IsEmpty/IsFull["+tname+"]", func() { ln, e, f = r.Len(), r.IsEmpty(), r.IsFull() }) {
			return false
		}
		if ln != len(m) || e != (len(m) == 0) || f != (len(m) == cp) {
			c.Failf("typed-observers", "SyncRing[%s]: Len=%d IsEmpty=%v IsFull=%v, model holds %d of %d", tname, ln, e, f, len(m), cp)
			return false
		}
	}
	c.Add("typed_syncring_sequences", 1)
	return true
}

func seqRing[T comparable](c *ev.Case, tname string, mk func(i int) T) bool {
	rng := c.Rng
	cp := rng.Range(1, 7)
	var r ringz.Ring[T]
	if !c.Guard("New["+tname+"]", func() { r = ringz.New[T](cp) }) {
		return false
	}
	var m []T
	next := 0
	for step, n := 0, rng.Range(10, 60); step < n; step++ {
		switch p := rng.Intn(100); {
		case p < 40:
			v := mk(next)
			next++
			var ok bool
			if !c.Guard("Ring.Push["+tname+"]", func() { ok = r.Push(v) }) {
				return false
			}
			if ok != (len(m) < cp) {
				c.Failf("typed-ring-push", "Ring[%s].Push(%#v) returned %v with %d of %d held", tname, v, ok, len(m), cp)
				return false
			}
			if ok {
				m = append(m, v)
			}
		case p < 50:
			v := mk(next)
			next++
			if !c.Guard("Ring.PushWithExpand["+tname+"]", func() { r.PushWithExpand(v) }) {
				return false
			}
			m = append(m, v)
			var nc int
			c.Guard("Ring.Cap["+tname+"]", func() { nc = r.Cap() })
			if nc < len(m) || nc < cp {
				c.Failf("typed-ring-expand", "Ring[%s].PushWithExpand: Cap()=%d with %d held (capacity was %d)", tname, nc, len(m), cp)
				return false
			}
			cp = nc
		case p < 58:
			nc := rng.Range(1, 2*cp+1)
			var ok bool
			if !c.Guard("Ring.Recap["+tname+"]", func() { ok = r.Recap(nc) }) {
				return false
			}
			if ok != (nc != cp && nc >= len(m)) {
				c.Failf("typed-ring-recap", "Ring[%s].Recap(%d) = %v with capacity %d, %d held", tname, nc, ok, cp, len(m))
				return false
			}
			if ok {
				cp = nc
			}
		case p < 68:
			var v T
			var ok bool
			if !c.Guard("Ring.Peek["+tname+"]", func() { v, ok = r.Peek() }) {
				return false
			}
			if ok != (len(m) > 0) || (ok && v != m[0]) {
				c.Failf("typed-ring-peek", "Ring[%s].Peek = (%#v,%v), model content %#v", tname, v, ok, m)
				return false
			}
		default:
			var v T
			var ok bool
			if !c.Guard("Ring.Pop["+tname+"]", func() { v, ok = r.Pop() }) {
				return false
			}
			if ok != (len(m) > 0) || (ok && v != m[0]) {
				c.Failf("typed-ring-pop", "Ring[%s].Pop = (%#v,%v), model content %#v", tname, v, ok, m)
				return false
			}
			if ok {
				m = m[1:]
			}
		}
		var ln, rc int
		var e, f bool
		if !c.Guard("Ring.Len/Cap["+tname+"]", func() { ln, rc, e, f = r.Len(), r.Cap(), r.IsEmpty(), r.IsFull() }) {
			return false
		}
		if ln != len(m) || rc != cp || e != (len(m) == 0) || f != (len(m) == cp) {
			c.Failf("typed-ring-observers", "Ring[%s]: Len=%d Cap=%d IsEmpty=%v IsFull=%v, model holds %d of %d", tname, ln, rc, e, f, len(m), cp)
			return false
		}
	}
	c.Add("typed_ring_sequences", 1)
	return true
}

// pipe: one producer, one consumer. A blocking call is only made when the other
// side's progress counter guarantees that it can complete (room / an element is
// there), so neither side can hang on a correct ring.
func pipe[T comparable](c *ev.Case, tname string, mk func(i int) T) bool {
	rng := c.Rng
	req := rng.Range(1, 5)
	var r ringz.SyncRing[T]
	if !c.Guard("NewSync["+tname+"]", func() { r = ringz.NewSync[T](req) }) {
		return false
	}
	cp := r.Cap()
	n := rng.Range(50, 400)
	pk := make([]int, n) // per element: which call the producer / consumer uses
	ck := make([]int, n)
	for i := range pk {
		pk[i], ck[i] = rng.Intn(3), rng.Intn(3)
	}
	var pushed, popped atomic.Int64
	var stop atomic.Bool
	type res struct {
		who string
		pan any
		msg string
	}
	out := make(chan res, 2)
	go func() {
		var rs res
		defer func() {
			if p := recover(); p != nil {
				rs = res{who: "producer", pan: p}
			}
			if rs.pan != nil || rs.msg != "" {
				stop.Store(true)
			}
			out <- rs
		}()
		for i := 0; i < n && !stop.Load(); i++ {
			v := mk(i)
			for !stop.Load() {
				room := int(pushed.Load()-popped.Load()) < cp
				var ok bool
				switch {
				case pk[i] == 2 && room:
					ok = r.PushWait(v, -1)
					if !ok {
						rs = res{who: "producer", msg: fmt.Sprintf("PushWait(-1) of element %d returned false", i)}
						return
					}
				case pk[i] == 1:
					ok = r.PushWait(v, 0)
				default:
					ok = r.Push(v)
				}
				if ok {
					pushed.Add(1)
					break
				}
				if room {
					// the only other goroutine is the consumer: a failed push with room is only
					// excused while a Pop may be in flight; retry
				}
				runtime.Gosched()
			}
		}
	}()
	go func() {
		var rs res
		defer func() {
			if p := recover(); p != nil {
				rs = res{who: "consumer", pan: p}
			}
			if rs.pan != nil || rs.msg != "" {
				stop.Store(true)
			}
			out <- rs
		}()
		for i := 0; i < n && !stop.Load(); i++ {
			want := mk(i)
			for !stop.Load() {
				avail := pushed.Load() > popped.Load()
				var v T
				var ok bool
				switch {
				case ck[i] == 2 && avail:
					v, ok = r.PopWait(-1)
					if !ok {
						rs = res{who: "consumer", msg: fmt.Sprintf("PopWait(-1) for element %d returned false", i)}
						return
					}
				case ck[i] == 1:
					v, ok = r.PopWait(0)
				default:
					v, ok = r.Pop()
				}
				if ok {
					if v != want {
						rs = res{who: "consumer", msg: fmt.Sprintf("element %d: got %#v, the producer's %d-th value is %#v", i, v, i, want)}
						return
					}
					popped.Add(1)
					break
				}
				runtime.Gosched()
			}
		}
	}()
	bad := ""
	for k := 0; k < 2; k++ {
		rs := <-out
		if rs.pan != nil && bad == "" {
			bad = fmt.Sprintf("%s panicked in a SyncRing[%s] call: %v", rs.who, tname, rs.pan)
		} else if rs.msg != "" && bad == "" {
			bad = rs.who + ": " + rs.msg
		}
	}
	if bad != "" {
		c.Failf("typed-pipe", "SyncRing[%s] (cap %d), one producer and one consumer, %d elements: %s", tname, cp, n, bad)
		return false
	}
	var ln int
	c.Guard("Len["+tname+"]", func() { ln = r.Len() })
	if ln != 0 || popped.Load() != int64(n) {
		c.Failf("typed-pipe", "SyncRing[%s]: after transferring %d elements Len()=%d, %d received", tname, n, ln, popped.Load())
		return false
	}
	c.Add("typed_pipe_elements", int64(n))
	return true
}
