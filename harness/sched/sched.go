// Package sched is a deterministic cooperative scheduler. While a Run is
// active exactly one workload goroutine is runnable at any instant; every
// shimmed synchronisation operation is a scheduling point at which the
// scheduler picks the next goroutine to run. An execution is a function of
// (program, configuration, sequence of choices), and the sequence of choices
// (the trace) is recorded so it can be replayed.
package sched

import (
	"fmt"
	"runtime"
	"sync/atomic"
)

type Strategy int

const (
	RandomWalk Strategy = iota
	PCT
	Replay
	Sweep // run thread order[0] for cut[0] steps, then order[1] for cut[1] steps, ... then round robin
)

type Config struct {
	Strategy Strategy
	Seed     uint64
	// PCT
	Depth    int // number of priority change points + 1
	EstSteps int // estimated run length used to place change points
	// Replay
	Trace []uint8
	// Sweep
	Order []int
	Cuts  []int
	// RandomWalk: probability (x/256) of staying on the running thread.
	Sticky int
	// MaxSteps bounds the run (default 4000).
	MaxSteps int
	// Fair is the starvation guard: a thread that took more than Fair
	// consecutive steps while another thread is enabled is demoted (default 64).
	Fair int
}

type Result struct {
	Trace      []uint8
	Steps      int
	Aborted    bool // step bound hit
	NoProgress bool // aborted while every live thread was only spinning (yielding)
	Panic      any  // panic value of a workload thread, if any
	PanicStack string
	Switches   int // context switches
}

type thread struct {
	id      int
	wake    chan struct{}
	done    bool
	yielded bool // yielded since it last ran; not chosen while others can run
	prio    int
	ops     int // completed client operations (progress marker)
	spin    int // consecutive yields without op completion
}

type run struct {
	cfg      Config
	threads  []*thread
	cur      *thread
	back     chan int // thread -> scheduler: 0 = at point, 1 = finished
	clock    int64
	aborted  bool
	rng      uint64
	res      Result
	change   map[int]bool
	lowPrio  int
	consec   int
	lastOps  int
	sweepPos int
	sweepRun int
}

var active atomic.Pointer[run]

// Active reports whether a controlled run is in progress.
func Active() bool { return active.Load() != nil }

type abortSignal struct{}

// JitterOn makes free-running scheduling points occasionally yield or spin so
// that windows between atomic steps widen. Set it before starting goroutines.
var JitterOn bool

var jstate uint64 = 88172645463325252

// jitter keeps deliberately unsynchronised state: it must not add a
// happens-before edge that could hide a race in the code under test.
//
//go:norace
func jitter() {
	x := jstate
	x ^= x << 13
	x ^= x >> 7
	x ^= x << 17
	jstate = x
	switch x & 31 {
	case 0:
		runtime.Gosched()
	case 1:
		for i := uint64(0); i < (x>>8)&255; i++ {
			jspin++
		}
	}
}

var jspin uint64

// Point is a scheduling point: the calling workload goroutine parks until the
// scheduler grants it the next step. Outside a controlled run it is a no-op.
func Point() {
	r := active.Load()
	if r == nil {
		if JitterOn {
			jitter()
		}
		return
	}
	t := r.cur
	if t == nil {
		return
	}
	r.back <- 0
	<-t.wake
	if r.aborted {
		panic(abortSignal{})
	}
}

// Yield marks the caller as spinning (it is not chosen again while another
// thread can run) and parks.
func Yield() {
	r := active.Load()
	if r == nil {
		runtime.Gosched()
		return
	}
	if t := r.cur; t != nil {
		t.yielded = true
		t.spin++
		if r.cfg.Strategy == PCT {
			// a spinning thread drops below everybody else, otherwise two
			// high-priority spinners could starve the thread they wait for
			r.lowPrio--
			t.prio = r.lowPrio
		}
	}
	Point()
}

// Tick returns a fresh logical timestamp (strictly increasing). Used by the
// history recorder; in free-running mode it returns 0 and the recorder uses a
// monotonic clock instead.
func Tick() int64 {
	r := active.Load()
	if r == nil {
		return 0
	}
	r.clock++
	return r.clock
}

// OpDone tells the scheduler that the current thread completed a client
// operation (progress, for fairness / no-progress classification).
func OpDone() {
	r := active.Load()
	if r == nil || r.cur == nil {
		return
	}
	r.cur.ops++
	r.cur.spin = 0
}

func (r *run) next() uint64 {
	r.rng += 0x9e3779b97f4a7c15
	z := r.rng
	z = (z ^ (z >> 30)) * 0xbf58476d1ce4e5b9
	z = (z ^ (z >> 27)) * 0x94d049bb133111eb
	return z ^ (z >> 31)
}

// Run executes the thread bodies under the controlled scheduler and returns
// the trace. It must not be called concurrently (process-global state).
func Run(cfg Config, bodies []func()) Result {
	if cfg.MaxSteps <= 0 {
		cfg.MaxSteps = 4000
	}
	if cfg.Fair <= 0 {
		cfg.Fair = 64
	}
	r := &run{cfg: cfg, back: make(chan int), rng: cfg.Seed ^ 0x5851f42d4c957f2d}
	n := len(bodies)
	r.threads = make([]*thread, n)
	for i := range bodies {
		r.threads[i] = &thread{id: i, wake: make(chan struct{})}
	}
	if cfg.Strategy == PCT {
		perm := make([]int, n)
		for i := range perm {
			perm[i] = i
		}
		for i := n - 1; i > 0; i-- {
			j := int(r.next() % uint64(i+1))
			perm[i], perm[j] = perm[j], perm[i]
		}
		for i, t := range r.threads {
			t.prio = perm[i] + cfg.Depth + 1
		}
		r.change = map[int]bool{}
		est := cfg.EstSteps
		if est <= 0 {
			est = 60
		}
		for i := 1; i < cfg.Depth; i++ {
			r.change[int(r.next()%uint64(est))] = true
		}
		r.lowPrio = cfg.Depth
	}
	if !active.CompareAndSwap(nil, r) {
		panic("sched.Run: a run is already active")
	}
	for i, b := range bodies {
		t := r.threads[i]
		go func(t *thread, body func()) {
			<-t.wake
			if r.aborted {
				return
			}
			defer func() {
				if p := recover(); p != nil {
					if _, ok := p.(abortSignal); ok {
						return // parked thread released after abort; nobody listens
					}
					buf := make([]byte, 8192)
					buf = buf[:runtime.Stack(buf, false)]
					r.res.Panic = p
					r.res.PanicStack = string(buf)
				}
				t.done = true
				r.back <- 1
			}()
			body()
		}(t, b)
	}
	live := n
	for live > 0 {
		if r.res.Steps >= cfg.MaxSteps {
			r.res.Aborted = true
			// no-progress: every live thread has been spinning for a long time
			np := true
			for _, t := range r.threads {
				if !t.done && t.spin < 20 {
					np = false
				}
			}
			r.res.NoProgress = np
			break
		}
		t := r.choose()
		if r.cur != t {
			r.res.Switches++
			r.consec = 0
		}
		r.consec++
		// a step by t lets everybody else be considered again
		for _, o := range r.threads {
			if o != t {
				o.yielded = false
			}
		}
		r.cur = t
		r.res.Trace = append(r.res.Trace, uint8(t.id))
		r.res.Steps++
		t.wake <- struct{}{}
		if <-r.back == 1 {
			live--
		}
	}
	if r.res.Aborted {
		r.aborted = true
		r.cur = nil
		for _, t := range r.threads {
			if !t.done {
				close(t.wake)
			}
		}
	}
	r.cur = nil
	active.Store(nil)
	return r.res
}

func (r *run) enabled() []*thread {
	var en, all []*thread
	for _, t := range r.threads {
		if t.done {
			continue
		}
		all = append(all, t)
		if !t.yielded {
			en = append(en, t)
		}
	}
	if len(en) == 0 {
		return all
	}
	return en
}

func (r *run) choose() *thread {
	en := r.enabled()
	step := r.res.Steps
	switch r.cfg.Strategy {
	case Replay:
		if step < len(r.cfg.Trace) {
			id := int(r.cfg.Trace[step])
			if id < len(r.threads) && !r.threads[id].done {
				return r.threads[id]
			}
		}
		return en[0]
	case PCT:
		if r.change[step] && r.cur != nil && !r.cur.done {
			r.lowPrio--
			r.cur.prio = r.lowPrio
		}
		// starvation guard
		if r.cur != nil && !r.cur.done && r.consec > r.cfg.Fair && len(en) > 1 {
			r.lowPrio--
			r.cur.prio = r.lowPrio
			r.consec = 0
		}
		best := en[0]
		for _, t := range en[1:] {
			if t.prio > best.prio {
				best = t
			}
		}
		return best
	case Sweep:
		for r.sweepPos < len(r.cfg.Order) {
			id := r.cfg.Order[r.sweepPos]
			lim := 1 << 30
			if r.sweepPos < len(r.cfg.Cuts) {
				lim = r.cfg.Cuts[r.sweepPos]
			}
			t := r.threads[id]
			if !t.done && !t.yielded && r.sweepRun < lim {
				r.sweepRun++
				return t
			}
			r.sweepPos++
			r.sweepRun = 0
		}
		// afterwards: stay on the current thread while it is enabled (with the
		// starvation guard), else the next enabled one in cyclic order
		if r.cur != nil && !r.cur.done && !r.cur.yielded && !(r.consec > r.cfg.Fair && len(en) > 1) {
			return r.cur
		}
		if r.cur != nil {
			for k := 1; k <= len(r.threads); k++ {
				t := r.threads[(r.cur.id+k)%len(r.threads)]
				for _, e := range en {
					if e == t && (t != r.cur || len(en) == 1) {
						return t
					}
				}
			}
		}
		return en[0]
	default: // RandomWalk
		if r.cur != nil && !r.cur.done && r.consec > r.cfg.Fair && len(en) > 1 {
			var o []*thread
			for _, t := range en {
				if t != r.cur {
					o = append(o, t)
				}
			}
			return o[int(r.next()%uint64(len(o)))]
		}
		// Sticky/256 = probability of staying on the current thread, so that
		// both fine-grained and coarse interleavings are produced
		if r.cfg.Sticky > 0 && r.cur != nil && !r.cur.done && !r.cur.yielded && int(r.next()&255) < r.cfg.Sticky {
			return r.cur
		}
		return en[int(r.next()%uint64(len(en)))]
	}
}

// TraceString renders a trace compactly ("0012201...").
func TraceString(tr []uint8) string {
	b := make([]byte, len(tr))
	for i, v := range tr {
		if v < 10 {
			b[i] = '0' + v
		} else {
			b[i] = 'a' + (v - 10)
		}
	}
	return string(b)
}

func ParseTrace(s string) ([]uint8, error) {
	out := make([]uint8, len(s))
	for i := 0; i < len(s); i++ {
		switch {
		case s[i] >= '0' && s[i] <= '9':
			out[i] = s[i] - '0'
		case s[i] >= 'a' && s[i] <= 'z':
			out[i] = s[i] - 'a' + 10
		default:
			return nil, fmt.Errorf("bad trace char %q", s[i])
		}
	}
	return out, nil
}
