package main

import (
	"unicode/utf8"

	"verif/ev"
)

const (
	hexUpper = "0123456789ABCDEF"
	hexLower = "0123456789abcdef"
)

// esc1 appends one escape unit of the codec carrying the raw value v (no range
// check: \777 and \U00110000 are built with it too).
func esc1(cd *codec, out []byte, v uint32, lower bool) []byte {
	digs := hexUpper
	if lower {
		digs = hexLower
	}
	out = append(out, '\\')
	nd := cd.width - 1
	if cd.tag != 0 {
		out = append(out, cd.tag)
		nd--
	}
	for k := nd - 1; k >= 0; k-- {
		if cd.base == 8 {
			out = append(out, '0'+byte((v>>(3*uint(k)))&7))
		} else {
			out = append(out, digs[(v>>(4*uint(k)))&15])
		}
	}
	return out
}

// escValue appends the canonical escape denoting v (a surrogate pair for Utf16
// above U+FFFF).
func escValue(cd *codec, out []byte, v uint32) []byte {
	if cd.id == cUtf16 && v > 0xFFFF {
		v -= 0x10000
		out = esc1(cd, out, 0xD800+(v>>10), false)
		return esc1(cd, out, 0xDC00+(v&0x3FF), false)
	}
	return esc1(cd, out, v, false)
}

type gen struct {
	c   *ev.Case
	rng *ev.Rand
}

var boundaryCPs = []uint32{0, 1, 0x7E, 0x7F, 0x80, 0x81, 0xFF, 0x100, 0x7FF, 0x800, 0x801, 0xD7FF, 0xE000, 0xE001,
	0xFFFC, 0xFFFD, 0xFFFE, 0xFFFF, 0x10000, 0x10001, 0x103FF, 0x10400, 0x1F604, 0xFFFFF, 0x100000,
	0x10FC00, 0x10FFFE, 0x10FFFF, '\\', 'x', 'u', 'U', '0', '7'}

// cp returns a Unicode scalar value, biased towards the encoding boundaries.
func (g *gen) cp() uint32 {
	var v uint32
	switch g.rng.Intn(9) {
	case 0, 1:
		v = boundaryCPs[g.rng.Intn(len(boundaryCPs))]
	case 2:
		v = uint32(g.rng.Intn(0x80))
	case 3:
		v = uint32(g.rng.Range(0x80, 0x7FF))
	case 4:
		v = uint32(g.rng.Range(0x800, 0xFFFF))
	case 5:
		v = uint32(g.rng.Range(0x10000, 0x10FFFF))
	case 6:
		v = boundaryCPs[g.rng.Intn(len(boundaryCPs))] + uint32(g.rng.Intn(5)) - 2
	case 7: // low ten bits all zero / all one: surrogate halves at their own boundaries
		v = 0x10000 + uint32(g.rng.Intn(0x400))<<10
		if g.rng.Bool() {
			v |= 0x3FF
		}
	default:
		v = uint32(g.rng.Pick(0x4E16, 0x54C8, 0xE9, 0x3B1, 0x1F44B, 0xFF0C))
	}
	if v > 0x10FFFF {
		v = 0x10FFFF
	}
	if isSurrogate(v) {
		v = 0xD7FF + (v&1)*0x801 // D7FF or E000
	}
	return v
}

func (g *gen) byteValue() uint32 {
	if g.rng.Chance(1, 2) {
		return uint32(g.rng.Pick(0, 1, 7, 8, 0o77, 0o100, '\\', '0', '7', 'x', 0x7F, 0x80, 0xBF, 0xC0, 0xFE, 0xFF))
	}
	return uint32(g.rng.Intn(256))
}

// value returns a value a canonical escape of the codec can denote.
func (g *gen) value(cd *codec) uint32 {
	if cd.id == cOctal || cd.id == cHex {
		return g.byteValue()
	}
	return g.cp()
}

var invalidUTF8 = []string{"\x80", "\xBF", "\xC0\x80", "\xC1\xBF", "\xC2", "\xE0\x80\x80", "\xE0\xA0", "\xED\xA0\x80",
	"\xED\xBF\xBF", "\xEF\xBF", "\xF0\x80\x80\x80", "\xF0\x90\x80", "\xF4\x90\x80\x80", "\xF5", "\xFF", "\xFE",
	"\xF8\x88\x80\x80\x80", "\xF4\x8F\xBF", "\xE2\x82"}

const soupNoBackslash = "xuUXxuU0123456789abcdefABCDEF0123456777gG zZ:/@`_-+"
const soup = soupNoBackslash + `\\\\\\\\\\\\\\\\`

func (g *gen) soupBytes(alpha string, n int) []byte {
	b := make([]byte, n)
	for i := range b {
		b[i] = alpha[g.rng.Intn(len(alpha))]
	}
	return b
}

// roundTripInput generates the string given to the four Format functions.
func (g *gen) roundTripInput() ([]byte, string) {
	rng := g.rng
	switch rng.Intn(13) {
	case 0:
		return rng.Bytes(rng.Range(0, 40)), "random-bytes"
	case 1:
		return g.soupBytes(soup, rng.Range(1, 24)), "escape-lookalike"
	case 2, 3, 4:
		var s []byte
		for n := rng.Range(1, 12); n > 0; n-- {
			s = utf8.AppendRune(s, rune(g.cp()))
		}
		return s, "valid-utf8"
	case 5:
		var s []byte
		for n := rng.Range(1, 6); n > 0; n-- {
			s = utf8.AppendRune(s, rune(boundaryCPs[rng.Intn(len(boundaryCPs))]))
		}
		return s, "boundary-runes"
	case 6, 7:
		var s []byte
		for n := rng.Range(1, 8); n > 0; n-- {
			if rng.Bool() {
				s = append(s, invalidUTF8[rng.Intn(len(invalidUTF8))]...)
			} else {
				s = utf8.AppendRune(s, rune(g.cp()))
			}
		}
		return s, "invalid-utf8"
	case 8:
		b := byte(rng.Pick(0, '\\', 0x7F, 0x80, 0xFF, rng.Intn(256)))
		s := make([]byte, rng.Range(1, 70))
		for i := range s {
			s[i] = b
		}
		return s, "byte-run"
	case 9:
		if rng.Chance(1, 6) {
			if rng.Bool() {
				return rng.Bytes(rng.Range(100, 1500)), "long"
			}
			var s []byte
			for n := rng.Range(60, 500); n > 0; n-- {
				s = utf8.AppendRune(s, rune(g.cp()))
			}
			return s, "long"
		}
		return nil, "empty"
	case 10:
		if rng.Bool() {
			return []byte{byte(g.byteValue())}, "single"
		}
		return utf8.AppendRune(nil, rune(g.cp())), "single"
	case 11: // text that is itself escape syntax of some codec
		var s []byte
		for n := rng.Range(1, 4); n > 0; n-- {
			cd := codecs[rng.Intn(4)]
			s = escValue(cd, s, g.value(cd))
		}
		return s, "escape-syntax-as-data"
	default:
		s := make([]byte, rng.Range(1, 30))
		for i := range s {
			s[i] = byte(rng.Range(0x20, 0x7E))
		}
		return s, "ascii"
	}
}

// literal returns backslash-free text of at least min bytes.
func (g *gen) literal(min int) []byte {
	rng := g.rng
	n := min
	switch rng.Intn(8) {
	case 0, 1, 2, 3:
	case 4, 5:
		n += rng.Intn(3)
	case 6:
		n += rng.Range(3, 9)
	default:
		n += rng.Range(10, 60)
	}
	if n == 0 {
		return nil
	}
	var b []byte
	switch rng.Intn(4) {
	case 0, 1:
		b = g.soupBytes(soupNoBackslash, n)
	case 2:
		b = rng.Bytes(n)
		for i := range b {
			if b[i] == '\\' {
				b[i] = '/'
			}
		}
	default:
		for len(b) < n {
			b = utf8.AppendRune(b, rune(g.cp()))
		}
		for i := range b {
			if b[i] == '\\' {
				b[i] = '|'
			}
		}
	}
	return b
}

// embedded builds L0 E1 L1 ... En Ln: canonical escapes separated by non-empty
// backslash-free literals (L0 and Ln may be empty) together with the result the
// statement demands.
func (g *gen) embedded(cd *codec) (in, want []byte, nesc int) {
	rng := g.rng
	nesc = rng.Pick(1, 1, 1, 2, 2, 3, 5, 9)
	if rng.Bool() {
		l := g.literal(1)
		in, want = append(in, l...), append(want, l...)
	}
	for k := 0; k < nesc; k++ {
		v := g.value(cd)
		in = escValue(cd, in, v)
		want = appendValue(cd, want, v)
		if k < nesc-1 {
			l := g.literal(1)
			in, want = append(in, l...), append(want, l...)
		}
	}
	if rng.Bool() {
		l := g.literal(1)
		in, want = append(in, l...), append(want, l...)
	}
	return in, want, nesc
}

var badDigits = []byte{'g', 'G', '\\', ' ', '8', '9', ':', '/', '@', '`', '_', '-', '+', 0, 0xFF, 'x', 'u', 'U', 'z', 0x80}

// token returns one hostile fragment aimed at the parser of cd.
func (g *gen) token(cd *codec) ([]byte, string) {
	rng := g.rng
	k := rng.Intn(18)
	if k >= 10 && cd.id != cUtf16 {
		k = k % 10
	}
	good := func() []byte { return escValue(cd, nil, g.value(cd)) }
	switch k {
	case 0, 1:
		return good(), "good-escape"
	case 2:
		if cd.base == 16 {
			v := g.value(cd)
			if v > 0xFFFF && cd.id == cUtf16 {
				v &= 0xFFFF
			}
			return esc1(cd, nil, v|0xA, true), "lower-case-digits"
		}
		return good(), "good-escape"
	case 3:
		e := good()
		return e[:rng.Range(1, len(e)-1)], "truncated-escape"
	case 4, 5:
		e := good()
		first := 1
		if cd.tag != 0 {
			first = 2
		}
		p := rng.Range(first, cd.width-1)
		if len(e) > cd.width && rng.Bool() {
			p += cd.width // second half of a surrogate pair
		}
		e[p] = badDigits[rng.Intn(len(badDigits))]
		if cd.base == 16 && (e[p] == '8' || e[p] == '9') {
			e[p] = 'g'
		}
		return e, "bad-digit"
	case 6:
		switch cd.id {
		case cOctal:
			return esc1(cd, nil, uint32(rng.Pick(0o400, 0o401, 0o477, 0o500, 0o777, rng.Range(0o400, 0o777))), false), "out-of-range"
		case cUnicode:
			v := []uint32{0x110000, 0x110001, 0xFFFFFFFF, 0x7FFFFFFF, 0x80000000, 0x00200000, 0x01000000, 0x10FFFF + uint32(rng.Range(1, 4000))}[rng.Intn(8)]
			return esc1(cd, nil, v, false), "out-of-range"
		case cHex:
			return []byte(`\x` + string(rune(rng.Pick('1', 'F', 'a'))) + "FF")[:rng.Range(4, 5)], "hex-extra-digit"
		}
		return esc1(cd, nil, uint32(rng.Range(0xD800, 0xDFFF)), false), "lone-surrogate"
	case 7:
		switch rng.Intn(6) {
		case 0:
			return []byte(`\`), "lone-backslash"
		case 1:
			return []byte(`\\`), "double-backslash"
		case 2:
			other := codecs[rng.Intn(4)]
			return escValue(other, nil, g.value(other)), "other-codec-escape"
		case 3:
			e := good()
			if cd.tag != 0 {
				e[1] ^= 0x20 // \X \u<->\U
			} else {
				e[0] = '/'
			}
			return e, "wrong-tag-case"
		case 4:
			e := good()
			return append([]byte(`\`), e...), "backslash-before-escape"
		default:
			e := good()
			return append(e, '\\'), "escape-then-backslash"
		}
	case 8:
		return g.literal(0), "literal"
	case 9:
		if cd.id == cUnicode {
			return esc1(cd, nil, uint32(rng.Pick(0xD800, 0xDBFF, 0xDC00, 0xDFFF, rng.Range(0xD800, 0xDFFF))), false), "unicode-surrogate-value"
		}
		return g.soupBytes(soup, rng.Range(1, 8)), "soup"
	}
	// Utf16 surrogate shapes
	hi := func() []byte {
		return esc1(cd, nil, uint32(rng.Pick(0xD800, 0xD83D, 0xDBFF, rng.Range(0xD800, 0xDBFF))), false)
	}
	lo := func() []byte {
		return esc1(cd, nil, uint32(rng.Pick(0xDC00, 0xDE04, 0xDFFF, rng.Range(0xDC00, 0xDFFF))), false)
	}
	switch k {
	case 10:
		return hi(), "lone-high-surrogate"
	case 11:
		return lo(), "lone-low-surrogate"
	case 12:
		return append(lo(), hi()...), "reversed-pair"
	case 13:
		return append(append(hi(), hi()...), lo()...), "high-high-low"
	case 14:
		l := lo()
		return append(hi(), l[:rng.Range(1, 5)]...), "high-then-truncated"
	case 15:
		l := lo()
		l[rng.Range(2, 5)] = badDigits[rng.Intn(len(badDigits))]
		return append(hi(), l...), "high-then-bad-digit"
	case 16:
		if rng.Bool() {
			return append(append(hi(), g.literal(1)...), lo()...), "high-literal-low"
		}
		return append(hi(), esc1(cd, nil, uint32(rng.Pick(0x41, 0xD7FF, 0xE000, 0xFFFF)), false)...), "high-then-non-surrogate"
	default:
		return append(hi(), lo()...), "good-pair"
	}
}

// hostile builds one hostile input aimed at the parser of cd.
func (g *gen) hostile(cd *codec) []byte {
	rng := g.rng
	var s []byte
	switch m := rng.Intn(12); {
	case m == 0:
		s = g.soupBytes(soup, rng.Range(0, 30))
		g.c.Add("hostile/soup-with-backslashes", 1)
	case m == 1:
		s = g.soupBytes(soupNoBackslash, rng.Range(0, 30))
		g.c.Add("hostile/soup-without-backslash", 1)
	default:
		for n := rng.Pick(1, 1, 2, 2, 3, 3, 4, 5, 7); n > 0; n-- {
			t, class := g.token(cd)
			g.c.Add("hostile/"+class, 1)
			s = append(s, t...)
		}
	}
	if len(s) > 0 && rng.Chance(1, 3) {
		s = s[:rng.Intn(len(s)+1)]
		g.c.Add("hostile/cut-by-end-of-input", 1)
	}
	if len(s) > 0 && rng.Chance(1, 5) {
		s[rng.Intn(len(s))] = soup[rng.Intn(len(soup))]
		g.c.Add("hostile/one-byte-overwritten", 1)
	}
	if rng.Chance(1, 10) {
		p := rng.Intn(len(s) + 1)
		s = append(s[:p:p], append([]byte{'\\'}, s[p:]...)...)
		g.c.Add("hostile/backslash-inserted", 1)
	}
	return s
}
