package main

import (
	"fmt"
	"unicode/utf8"

	"verif/ev"
)

// Backslash-free input at every size ("input containing no backslash is
// returned unchanged"). The other engines produce plain input only as a
// by-product and only short (a hostile input that happens to consist of
// literal tokens, at most a few hundred bytes; the big engine always lays
// escapes across the power-of-two offsets), so an implementation that treats
// "nothing to unescape" as a case of its own (an early return, a bulk copy, a
// view of the argument) is reached there only with short text. One case here is
// a few backslash-free inputs of every content class, given to all four
// parsers in all forms: short ones of every length 0..80 and, more rarely,
// lengths on both sides of the powers of two up to 256 KiB.

// plainInput returns n bytes (about n for the rune classes) without a backslash.
func (g *gen) plainInput(cd *codec, n int) ([]byte, string) {
	rng := g.rng
	switch rng.Intn(7) {
	case 0: // digits and tag letters: escape syntax that only lacks the backslash
		return g.soupBytes(soupNoBackslash, n), "escape-lookalike"
	case 1: // what would be hostile or well-formed input of the codec, every backslash replaced
		var b []byte
		for len(b) < n {
			if rng.Bool() {
				b = append(b, g.image(cd)...)
			} else {
				t, _ := g.token(cd) // not g.hostile: that one feeds the hostile/ counters
				b = append(b, t...)
			}
			b = append(b, g.literal(0)...)
		}
		b = b[:n]
		for i := range b {
			if b[i] == '\\' {
				b[i] = '/'
			}
		}
		return b, "escapes-with-the-backslash-replaced"
	case 2: // any bytes: NUL, 0x80.., invalid UTF-8
		b := rng.Bytes(n)
		for i := range b {
			if b[i] == '\\' {
				b[i] = byte(rng.Pick('[', ']', 0xDC, 0))
			}
		}
		return b, "random-bytes"
	case 3:
		b := make([]byte, 0, n+4)
		for len(b) < n {
			if v := g.cp(); v != '\\' {
				b = utf8.AppendRune(b, rune(v))
			}
		}
		return b, "valid-utf8"
	case 4:
		b := make([]byte, 0, n+8)
		for len(b) < n {
			if rng.Bool() {
				b = append(b, invalidUTF8[rng.Intn(len(invalidUTF8))]...)
			} else if v := g.cp(); v != '\\' {
				b = utf8.AppendRune(b, rune(v))
			}
		}
		return b, "invalid-utf8"
	case 5:
		b := make([]byte, n)
		ch := byte(rng.Pick('[', ']', 'x', 'u', 'U', '0', '7', 0, 0x7F, 0x80, 0xFF, '/'))
		for i := range b {
			b[i] = ch
		}
		return b, "byte-run"
	default:
		return g.fill(n), "text"
	}
}

func plainCase(c *ev.Case) {
	g := &gen{c: c, rng: c.Rng}
	rng := c.Rng
	var h uint64
	for b := 0; b < 4; b++ {
		cd := codecs[(c.Index+b)%4]
		n := rng.Range(0, 80)
		switch {
		case b == 0 && c.Index%8 == 0:
			n = g.bigLen(len(bigSizes) - 1) // .. 256 KiB
		case b == 0 && c.Index%8 == 4:
			n = g.bigLen(len(bigSizes) - 3) // .. 64 KiB
		case b == 1:
			n = (c.Index / 4) % 81 // every short length in turn
		}
		in, class := g.plainInput(cd, n)
		h = ev.Mix(h, ev.HashBytes(in))
		for _, p := range codecs {
			if !checkParse(c, p, in, in, true) {
				return
			}
		}
		c.Add("plain/inputs", 1)
		c.Add("plain/"+class, 1)
		if utf8.Valid(in) {
			c.Add("plain/inputs_valid_utf8", 1)
		} else {
			c.Add("plain/inputs_not_valid_utf8", 1)
		}
		switch {
		case len(in) >= 262144:
			c.Add("plain/input_ge_256KiB", 1)
			fallthrough
		case len(in) >= 65536:
			c.Add("plain/input_ge_64KiB", 1)
			fallthrough
		case len(in) >= 4096:
			c.Add("plain/input_ge_4KiB", 1)
		case len(in) < cd.width:
			c.Add("plain/input_shorter_than_one_escape", 1)
		}
		c.Max("plain/max_input_len", int64(len(in)))
		if b == 0 && c.WantSample() {
			c.Sample(fmt.Sprintf("plain: %d bytes of %s without a backslash through all four parsers in all forms: must come back unchanged", len(in), class))
		}
	}
	c.Distinct(h)
}
