// C07 — Backslash escape codecs round-trip and parse any input safely.
//
// Runtime monitor for strz.{Octal,Hex,Unicode,Utf16}{Format,Parse}[ToString].
// Every generated string is given to the real golib functions (all generic
// instantiations) and each result is judged by an oracle derived from the
// property statement only:
//
//   - Format output is scanned by an independent fixed-width upper-case grammar
//     scanner and its escape values are compared with the bytes / code points /
//     UTF-16 units of the input (U+FFFD for every invalid byte);
//   - Parse(Format(s)) must be s (Octal/Hex: any bytes; Unicode/Utf16: valid
//     UTF-8, invalid bytes arrive as U+FFFD);
//   - every Parse form on every input: no panic, returns, at most len(input)
//     bytes, nothing written beyond dst[len(input)], src untouched;
//   - input without a backslash comes back unchanged;
//   - canonical escapes separated by non-empty backslash-free text are replaced
//     by what they denote, the text is preserved.
//
// For any other input (malformed, truncated, out of range, lone surrogates,
// adjacent escapes mixed with text) only the safety clauses are asserted.
//
// Besides the enumerations and the three random engines there are workloads for
// situations a "call, then look at the result" monitor never produces: results
// kept and re-read after later calls through a reused, overwritten argument
// arena (reuse.go), inputs beside every power of two up to 256 KiB with escapes
// across the power-of-two offsets (big.go), backslash-free input of every
// content class and size (plain.go), and one fresh process per entry point
// (cold.go).
package main

import (
	"fmt"
	"unicode/utf8"

	"verif/ev"
)

const batch = 8

func roundTripCase(c *ev.Case) {
	g := &gen{c: c, rng: c.Rng}
	var h uint64
	for b := 0; b < batch; b++ {
		s, class := g.roundTripInput()
		c.Add("roundtrip/"+class, 1)
		h = ev.Mix(h, ev.HashBytes(s))
		for _, cd := range codecs {
			if !checkFormat(c, cd, s) {
				return
			}
		}
		if b == 0 && c.WantSample() {
			c.Sample(fmt.Sprintf("round trip of %q (%s) through Octal, Hex, Unicode, Utf16: Format grammar+values, then all Parse forms", s, class))
		}
	}
	c.Distinct(h)
}

func hostileCase(c *ev.Case) {
	g := &gen{c: c, rng: c.Rng}
	var h uint64
	for b := 0; b < batch; b++ {
		cd := codecs[(c.Index+b)%4]
		s := g.hostile(cd)
		h = ev.Mix(h, ev.HashBytes(s))
		for _, p := range codecs {
			if !checkParse(c, p, s, nil, false) {
				return
			}
		}
		if b == 0 && c.WantSample() {
			c.Sample(fmt.Sprintf("hostile input %q aimed at %sParse, given to all four parsers in all forms", s, cd.name))
		}
	}
	c.Distinct(h)
}

func embeddedCase(c *ev.Case) {
	g := &gen{c: c, rng: c.Rng}
	var h uint64
	for b := 0; b < batch; b++ {
		cd := codecs[b%4]
		in, want, nesc := g.embedded(cd)
		h = ev.Mix(h, ev.HashBytes(in))
		if !checkParse(c, cd, in, want, true) {
			return
		}
		c.Add("embedded_inputs_built", 1)
		// the same text is hostile input for the other three parsers
		if b < 4 {
			for _, p := range codecs {
				if p != cd && !checkParse(c, p, in, nil, false) {
					return
				}
			}
		}
		if b == 0 && c.WantSample() {
			c.Sample(fmt.Sprintf("embedded: %sParse(%q) must be %q (%d escapes)", cd.name, in, want, nesc))
		}
	}
	c.Distinct(h)
}

// ---------------------------------------------------------------------------
// Enumerations (independent of the seed).

// enumCodepoints: block k = code points [1024k, 1024k+1024); block 1088 is the
// first block beyond U+10FFFF (out-of-range \U escapes only).
func enumCodepoints(c *ev.Case, k int) {
	uni, u16 := codecs[cUnicode], codecs[cUtf16]
	var block []byte
	for v := uint32(k) * 1024; v < uint32(k+1)*1024; v++ {
		valid := v <= 0x10FFFF && !isSurrogate(v)
		if valid {
			s := utf8.AppendRune(nil, rune(v))
			block = append(block, s...)
			if !checkFormat(c, uni, s) || !checkFormat(c, u16, s) {
				return
			}
			c.Add("codepoints_round_tripped_singly", 1)
			in := escValue(u16, []byte("a"), v)
			in = append(in, 'b')
			if !checkParse(c, u16, in, nil, false) {
				return
			}
		} else {
			c.Add("unicode_escapes_of_non_scalar_values", 1)
		}
		in := esc1(uni, []byte("a"), v, false)
		in = append(in, 'b')
		if !checkParse(c, uni, in, nil, false) {
			return
		}
	}
	if len(block) > 0 {
		for _, cd := range codecs {
			if !checkFormat(c, cd, block) {
				return
			}
		}
	}
	if c.WantSample() {
		c.Sample(fmt.Sprintf("every code point U+%04X..U+%04X: Unicode and Utf16 round trip of the single rune, \\U and \\u escape embedded in a…b, and the whole block as one string", k*1024, k*1024+1023))
	}
}

func enumBytePairs(c *ev.Case, k int) {
	for b := 0; b < 256; b++ {
		s := []byte{byte(k), byte(b)}
		for _, cd := range codecs {
			if !checkFormat(c, cd, s) {
				return
			}
			if k == 0 && !checkFormat(c, cd, s[1:]) {
				return
			}
		}
		c.Add("byte_pairs_round_tripped", 1)
	}
}

// enumUEscapes: every \uXXXX value in several surroundings.
func enumUEscapes(c *ev.Case, k int) {
	cd := codecs[cUtf16]
	for v := uint32(k) * 1024; v < uint32(k+1)*1024; v++ {
		e := esc1(cd, nil, v, false)
		ins := [][]byte{
			e,
			append(append([]byte("a"), e...), 'b'),
			append(append([]byte{}, e...), `\uDC00`...),
			append([]byte(`\uD800`), e...),
			append(append(append([]byte{}, e...), 'x'), `\uDC00`...),
			append(append([]byte("ab"), e...), `A`...),
			esc1(cd, nil, v, true),
			e[:5],
		}
		for _, in := range ins {
			if !checkParse(c, cd, in, nil, false) {
				return
			}
		}
		c.Add("u_escape_values_enumerated", 1)
	}
}

func enumSmall(c *ev.Case, k int) {
	if k == 0 {
		cd := codecs[cOctal]
		for a := byte('0'); a <= '9'; a++ {
			for b := byte('0'); b <= '9'; b++ {
				for d := byte('0'); d <= '9'; d++ {
					e := []byte{'\\', a, b, d}
					for _, in := range [][]byte{e, append(append([]byte("a"), e...), 'b'), append(append([]byte{}, e...), '7'), e[:3]} {
						if !checkParse(c, cd, in, nil, false) {
							return
						}
					}
					c.Add("octal_digit_triples_enumerated", 1)
				}
			}
		}
		return
	}
	cd := codecs[cHex]
	const set = "0123456789abcdefABCDEFgG\\x /:@`"
	for i := 0; i < len(set); i++ {
		for j := 0; j < len(set); j++ {
			e := []byte{'\\', 'x', set[i], set[j]}
			for _, in := range [][]byte{e, append(append([]byte("a"), e...), 'b'), append(append([]byte{}, e...), 'F'), e[:3]} {
				if !checkParse(c, cd, in, nil, false) {
					return
				}
			}
			c.Add("hex_digit_pairs_enumerated", 1)
		}
	}
}

var tokenSets = [4][]string{
	cOctal:   {`\101`, `\000`, `\377`, `\400`, `\777`, `\108`, `\8`, `\1`, `\12`, `\`, `\\`, `a`, `7`, `\1\`, `01`, `\134`},
	cHex:     {`\x41`, `\xFF`, `\x00`, `\xff`, `\xG1`, `\x4G`, `\x4`, `\x`, `\`, `\X41`, `x41`, `a`, `\x4\`, `\\`, `\x5C`},
	cUnicode: {`\U00000041`, `\U0010FFFF`, `\U00110000`, `\UFFFFFFFF`, `\U0000D800`, `\U0000FFFD`, `\U000000e9`, `\U0000G041`, `\U0000004`, `\U`, `\`, `\u0041`, `U00000041`, `a`, `\U000\`, `\U0001F604`},
	cUtf16:   {`\u0041`, `\uFFFD`, `\uD83D`, `\uDE04`, `\uD800`, `\uDBFF`, `\uDC00`, `\uDFFF`, `\ud83d`, `\uD7FF`, `\uE000`, `\uD83`, `\u`, `\`, `\uD8G0`, `a`, `u0041`, `\U0041`, `\uD83D\`},
}

// enumTokens: all sequences of up to depth tokens starting with token t of the
// codec's set, each cut at every position inside its last token.
func enumTokens(c *ev.Case, cd *codec, t int, depth int) {
	set := tokenSets[cd.id]
	var rec func(prefix []byte, d int) bool
	rec = func(prefix []byte, d int) bool {
		for _, tok := range set {
			if d == 1 {
				tok = set[t]
			}
			for cut := 1; cut <= len(tok); cut++ {
				in := append(prefix[:len(prefix):len(prefix)], tok[:cut]...)
				if !checkParse(c, cd, in, nil, false) {
					return false
				}
				c.Add("token_sequence_inputs_enumerated", 1)
			}
			if d < depth {
				if !rec(append(prefix[:len(prefix):len(prefix)], tok...), d+1) {
					return false
				}
			}
			if d == 1 {
				break
			}
		}
		return true
	}
	rec(nil, 1)
	if c.WantSample() {
		c.Sample(fmt.Sprintf("every sequence of up to %d tokens of %q starting with %q, cut at every position of its last token, given to %sParse", depth, set, set[t], cd.name))
	}
}

type task struct {
	name string
	n    int
	fn   func(c *ev.Case, k int)
}

const cpBlocks = 1089 // 1088 blocks of 1024 code points + one block beyond U+10FFFF

// tasks lists the enumerations; the small inputs come first so that the first
// witness of a failure kind is a short one, the code point blocks last.
func tasks(depth int) []task {
	ts := []task{{"small-escapes", 2, enumSmall}}
	for _, cd := range codecs {
		cd := cd
		ts = append(ts, task{"tokens/" + cd.name, len(tokenSets[cd.id]), func(c *ev.Case, k int) { enumTokens(c, cd, k, depth) }})
	}
	return append(ts,
		task{"byte-pairs", 256, enumBytePairs},
		task{"u-escapes", 64, enumUEscapes},
		task{"codepoints", cpBlocks, enumCodepoints})
}

func runTask(c *ev.Case, ts []task, idx int) {
	for _, t := range ts {
		if idx < t.n {
			c.Add("enum/"+t.name, 1)
			t.fn(c, idx)
			if !c.Failed() {
				c.Distinct(ev.Mix(ev.HashString(t.name), uint64(idx)))
			}
			return
		}
		idx -= t.n
	}
}

func main() {
	r := ev.New("C07")
	r.Rule("random engines: one case = 8 seeded strings (round trip: bytes / UTF-8 / invalid UTF-8 / escape look-alikes given to all four Format functions and back through all Parse forms; hostile: token sequences of good, truncated, wrong-digit, out-of-range, surrogate and wrong-tag escapes, cut, overwritten, given to all four parsers; embedded: canonical escapes between non-empty backslash-free literals with the result known by construction); distinct = hash of the 8 strings; enum engine: one case = one block of an exhaustive enumeration (all code points, all byte pairs, all \\uXXXX values, all \\ddd, all token sequences up to depth 3 cut at every position), independent of the seed; kept / kept-serial: one case = 4..14 consecutive calls on one goroutine through one argument arena that is overwritten after every call and reused at the same address (next input often = previous with one byte changed, or the same content again), every returned string/slice kept and re-read after every later step (except zero-copy views of the argument buffer itself); plain: one case = 4 backslash-free inputs (escape look-alikes, escapes with the backslash replaced, any bytes, valid / invalid UTF-8, runs; every length 0..80 in turn and lengths beside the powers of two up to 256 KiB) given to all four parsers in all forms; big: one case = one input whose length sits beside a power of two from 16 to 256 KiB (Format of big data and back, or escapes laid across the power-of-two offsets of a long text, intact or damaged); cold-start: one case = one fresh process whose first golib call is one of the 28 entry points; non-trivial = every case (each makes >= 4 golib calls, usually >= 30, whose results are all judged)")
	r.Assume("a returned string or slice must read the same bytes after any number of further calls; a []byte result belongs to the caller, who may overwrite it without influencing later results (the statement's equalities are between values). Not assumed: that a result is a copy. A result that is a zero-copy view of the caller's own []byte argument is judged when it is returned and not re-read after the caller has overwritten that buffer; Parse(dst, src) may use dst[n:len(src)] as scratch space")
	r.Assume("an argument is input only: no Format / Parse form changes the bytes of its s / src argument (the statement's equalities name the same s on both sides); dst == src is the caller's explicit request for in-place operation and is held to the safety clauses only")
	r.Assume("unicode/utf8 of the Go standard library defines valid UTF-8 and the UTF-8 encoding of a code point; the escape grammar and the value of an escape are re-derived in the harness from the property statement")
	r.Assume("for inputs with a backslash that are neither exactly a Format image nor canonical escapes separated by non-empty backslash-free text, the statement promises safety only (no panic, termination, at most len(input) bytes); nothing else is asserted there")
	r.Assume("an escape at the very start or end of the input counts as embedded (the empty string is backslash-free text); escapes adjacent to each other are asserted only when the whole input is a Format image")
	opt := ev.Opt{HangViolation: true, MaxCaseSeconds: 20}

	depth := r.N(3, 4)
	ts := tasks(depth)
	total := 0
	for _, t := range ts {
		total += t.n
	}
	r.Cases("enum", total, opt, func(c *ev.Case) { runTask(c, ts, c.Index) })
	r.Cases("roundtrip", r.N(60000, 2500000), opt, roundTripCase)
	r.Cases("hostile", r.N(150000, 5000000), opt, hostileCase)
	r.Cases("embedded", r.N(150000, 5000000), opt, embeddedCase)
	// zero-copy string<->[]byte views in the ToString forms: one pass under -race (implies checkptr)
	light := tasks(2)
	mixed := func(c *ev.Case) {
		switch c.Index % 4 {
		case 0:
			roundTripCase(c)
		case 1:
			hostileCase(c)
		case 2:
			embeddedCase(c)
		default:
			k := c.Rng.Intn(total)
			if k >= total-cpBlocks && c.Rng.Chance(3, 4) {
				k = c.Rng.Intn(total - cpBlocks) // code point blocks are slow under -race: sample them less
			}
			runTask(c, light, k)
		}
	}
	r.CasesProc("checkptr", r.N(600, 30000), ev.Opt{Bin: "race", Procs: 8, HangViolation: true, MaxCaseSeconds: 60}, mixed)
	// the same mix on parallel workers of -race children: the first Format / Parse calls of
	// each process are made by eight goroutines at once (a table filled lazily without
	// proper synchronisation is reported from the happens-before relation, whether or not
	// the window is hit), and state shared between independent calls is reported likewise
	r.CasesProc("race-parallel", r.N(640, 20000), ev.Opt{Bin: "race", Procs: 8, Workers: 8, AlwaysLog: true, HangViolation: true, MaxCaseSeconds: 120}, mixed)

	// kept results, reused argument buffers (parallel, then one uninterrupted sequence at a time)
	r.Cases("kept", r.N(100000, 2500000), opt, keptCase)
	serial := opt
	serial.Serial = true
	r.Cases("kept-serial", r.N(20000, 300000), serial, keptCase)
	// lengths on both sides of the powers of two up to 256 KiB, escapes across power-of-two offsets
	r.Cases("big", r.N(3200, 60000), ev.Opt{HangViolation: true, MaxCaseSeconds: 60}, bigCase)
	// backslash-free input of every content class, short and beside the powers of two up to 256 KiB
	r.Cases("plain", r.N(2400, 60000), ev.Opt{HangViolation: true, MaxCaseSeconds: 60}, plainCase)
	// one fresh process per entry point
	r.CasesProc("cold-start", coldCases, ev.Opt{Procs: coldCases, AlwaysLog: true, HangViolation: true, MaxCaseSeconds: 60}, coldCase)

	r.Require("kept/sequences", 40000)
	r.Require("kept/results_re_read_later", 1000000)
	r.Require("kept/argument_buffer_overwritten_after_call", 100000)
	r.Require("kept/one-byte-changed_same_call_same_buffer", 20000)
	r.Require("kept/same-content-again_same_call_same_buffer", 5000)
	r.Require("kept/returned_slice_overwritten_by_caller", 10000)
	r.Require("kept/plain_input_through_ParseToString_of_bytes", 3000)
	r.Require("big/format_data_ge_16KiB", 40)
	r.Require("big/format_data_ge_64KiB", 8)
	r.Require("big/parse_input_ge_4KiB", 300)
	r.Require("big/parse_input_ge_64KiB", 60)
	r.Require("big/parse_input_ge_256KiB", 15)
	r.Require("big/escapes_straddling_a_power_of_two_offset", 2000)
	r.Require("big/escapes_straddling_an_offset_ge_4096", 400)
	r.Require("big/damaged_parse_cases", 300)
	r.Require("cold_start_cases", coldCases)
	r.Require("plain/inputs", 9000)
	r.Require("plain/inputs_not_valid_utf8", 1500)
	r.Require("plain/escapes-with-the-backslash-replaced", 600)
	r.Require("plain/input_shorter_than_one_escape", 300)
	r.Require("plain/input_ge_4KiB", 150)
	r.Require("plain/input_ge_64KiB", 30)
	r.Require("plain/input_ge_256KiB", 5)
	for _, cd := range codecs {
		r.Require(cd.name+"/round_trips", 100000)
		r.Require(cd.name+"/parse_unspecified", 50000)
		r.Require(cd.name+"/parse_plain", 5000)
		r.Require(cd.name+"/embedded_escapes_decoded", 20000)
		r.Require(cd.name+"/unspecified_left_verbatim", 1000)
		r.Require(cd.name+"/unspecified_partly_decoded", 1000)
		r.Require(cd.name+"/embedded_escape_at_start_of_input", 10000)
		r.Require(cd.name+"/embedded_escape_at_end_of_input", 10000)
		r.Require(cd.name+"/images_of_adjacent_escapes", 50000)
	}
	r.Require("Utf16/embedded_surrogate_pairs_decoded", 20000)
	r.Require("Utf16/embedded_surrogate_pair_at_end_of_input", 2000)
	r.Require("octal_digit_triples_enumerated", 1000)
	r.Require("hex_digit_pairs_enumerated", 961)
	r.Require("token_sequence_inputs_enumerated", 50000)
	r.Require("codepoints_round_tripped_singly", 0x110000-0x800)
	r.Require("byte_pairs_round_tripped", 65536)
	r.Require("u_escape_values_enumerated", 65536)
	r.Require("Utf16/surrogate_pairs_formatted", 100000)
	r.Require("Unicode/fffd_escapes_for_invalid_bytes", 10000)
	r.Require("Utf16/fffd_escapes_for_invalid_bytes", 10000)
	r.Require("hostile/truncated-escape", 1000)
	r.Require("hostile/bad-digit", 1000)
	r.Require("hostile/out-of-range", 1000)
	r.Require("hostile/lone-high-surrogate", 300)
	r.Require("hostile/reversed-pair", 300)
	r.Require("hostile/lone-low-surrogate", 300)
	r.Require("hostile/lone-surrogate", 300)
	r.Require("hostile/high-then-non-surrogate", 300)
	r.Require("hostile/high-literal-low", 300)
	r.Require("hostile/high-then-truncated", 300)
	r.Require("hostile/high-then-bad-digit", 300)
	r.Require("hostile/high-high-low", 300)
	r.Require("hostile/unicode-surrogate-value", 300)
	r.Require("hostile/lower-case-digits", 1000)
	r.Require("hostile/wrong-tag-case", 300)
	r.Require("hostile/backslash-before-escape", 300)
	r.Require("hostile/escape-then-backslash", 300)
	r.Require("hostile/cut-by-end-of-input", 1000)
	r.Require("embedded_escape_at_end_of_input", 1000)
	r.Finish()
}
