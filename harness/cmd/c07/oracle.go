package main

import (
	"bytes"
	"fmt"
	"unicode/utf8"

	"github.com/welllog/golib/strz"

	"verif/ev"
)

// codec describes one of the four backslash escape codecs and binds every
// exported golib entry point of it (both instantiations of each generic one).
type codec struct {
	id    int
	name  string
	width int  // bytes per escape unit: \ooo=4 \xXX=4 \UXXXXXXXX=10 \uXXXX=6
	tag   byte // letter after the backslash, 0 for octal
	base  int

	fmtB    func([]byte) []byte
	fmtS    func(string) []byte
	fmtBS   func([]byte) string
	fmtSS   func(string) string
	parse   func(dst, src []byte) int
	parseBS func([]byte) string
	parseSS func(string) string
}

const (
	cOctal = iota
	cHex
	cUnicode
	cUtf16
)

var codecs = [4]*codec{
	{id: cOctal, name: "Octal", width: 4, tag: 0, base: 8,
		fmtB: strz.OctalFormat[[]byte], fmtS: strz.OctalFormat[string],
		fmtBS: strz.OctalFormatToString[[]byte], fmtSS: strz.OctalFormatToString[string],
		parse: strz.OctalParse, parseBS: strz.OctalParseToString[[]byte], parseSS: strz.OctalParseToString[string]},
	{id: cHex, name: "Hex", width: 4, tag: 'x', base: 16,
		fmtB: strz.HexFormat[[]byte], fmtS: strz.HexFormat[string],
		fmtBS: strz.HexFormatToString[[]byte], fmtSS: strz.HexFormatToString[string],
		parse: strz.HexParse, parseBS: strz.HexParseToString[[]byte], parseSS: strz.HexParseToString[string]},
	{id: cUnicode, name: "Unicode", width: 10, tag: 'U', base: 16,
		fmtB: strz.UnicodeFormat[[]byte], fmtS: strz.UnicodeFormat[string],
		fmtBS: strz.UnicodeFormatToString[[]byte], fmtSS: strz.UnicodeFormatToString[string],
		parse: strz.UnicodeParse, parseBS: strz.UnicodeParseToString[[]byte], parseSS: strz.UnicodeParseToString[string]},
	{id: cUtf16, name: "Utf16", width: 6, tag: 'u', base: 16,
		fmtB: strz.Utf16Format[[]byte], fmtS: strz.Utf16Format[string],
		fmtBS: strz.Utf16FormatToString[[]byte], fmtSS: strz.Utf16FormatToString[string],
		parse: strz.Utf16Parse, parseBS: strz.Utf16ParseToString[[]byte], parseSS: strz.Utf16ParseToString[string]},
}

// exact returns a copy of b whose capacity equals its length, so that a golib
// slice expression reaching past the end of the input panics instead of
// silently reading spare capacity.
func exact(b []byte) []byte {
	o := make([]byte, len(b))
	copy(o, b)
	return o[:len(b):len(b)]
}

func isSurrogate(v uint32) bool { return v >= 0xD800 && v < 0xE000 }

// ---------------------------------------------------------------------------
// What Format must emit (independent derivation from the statement).

// unitsOf returns the sequence of escape values Format(s) has to contain:
// the bytes for Octal/Hex; the code points for Unicode, with U+FFFD for every
// invalid byte; the UTF-16 code units of those code points for Utf16.
// decoded is the byte string those escapes denote (s itself, or s with every
// invalid byte replaced by U+FFFD) and invalid the number of invalid bytes.
func unitsOf(cd *codec, s []byte) (units []uint32, decoded []byte, invalid int) {
	if cd.id == cOctal || cd.id == cHex {
		units = make([]uint32, len(s))
		for i, b := range s {
			units[i] = uint32(b)
		}
		return units, s, 0
	}
	units = make([]uint32, 0, len(s))
	clean := true
	for i := 0; i < len(s); {
		r, size := utf8.DecodeRune(s[i:])
		if r == utf8.RuneError && size <= 1 {
			invalid++
			clean = false
			size = 1
			r = 0xFFFD
		}
		i += size
		v := uint32(r)
		if cd.id == cUtf16 && v > 0xFFFF {
			v -= 0x10000
			units = append(units, 0xD800+(v>>10), 0xDC00+(v&0x3FF))
		} else {
			units = append(units, v)
		}
	}
	if clean {
		return units, s, 0
	}
	decoded = make([]byte, 0, len(s)+2*invalid)
	for i := 0; i < len(s); {
		r, size := utf8.DecodeRune(s[i:])
		if r == utf8.RuneError && size <= 1 {
			decoded = append(decoded, 0xEF, 0xBF, 0xBD)
			i++
			continue
		}
		decoded = append(decoded, s[i:i+size]...)
		i += size
	}
	return units, decoded, invalid
}

// upperDigit is the value of an upper-case digit of the base, or -1.
func upperDigit(ch byte, base int) int {
	switch {
	case ch >= '0' && ch <= '9':
		if int(ch-'0') < base {
			return int(ch - '0')
		}
	case ch >= 'A' && ch <= 'F':
		if base == 16 {
			return int(ch-'A') + 10
		}
	}
	return -1
}

// scanFormat is the independent scanner for Format output: a sequence of
// fixed-width escapes, backslash, tag letter, upper-case digits. It returns the
// escape values or a description of the first deviation from the grammar.
func scanFormat(cd *codec, out []byte) ([]uint32, string) {
	if len(out)%cd.width != 0 {
		return nil, fmt.Sprintf("length %d is not a multiple of the escape width %d", len(out), cd.width)
	}
	vals := make([]uint32, 0, len(out)/cd.width)
	for k := 0; k < len(out); k += cd.width {
		if out[k] != '\\' {
			return nil, fmt.Sprintf("byte %d is %q, a backslash must start every escape", k, out[k])
		}
		p := k + 1
		if cd.tag != 0 {
			if out[p] != cd.tag {
				return nil, fmt.Sprintf("byte %d is %q, want the tag %q", p, out[p], cd.tag)
			}
			p++
		}
		var v uint32
		for ; p < k+cd.width; p++ {
			d := upperDigit(out[p], cd.base)
			if d < 0 {
				return nil, fmt.Sprintf("byte %d is %q, not an upper-case base-%d digit", p, out[p], cd.base)
			}
			v = v*uint32(cd.base) + uint32(d)
		}
		vals = append(vals, v)
	}
	return vals, ""
}

// ---------------------------------------------------------------------------
// What Parse must return, where the statement says so.

const (
	kindNone     = iota // the statement promises only safety for this input
	kindPlain           // no backslash: returned unchanged
	kindImage           // the input is exactly XFormat(s) for some (valid UTF-8) s: result s
	kindEmbedded        // canonical escapes separated by non-empty backslash-free text
)

var kindName = [...]string{"unspecified", "plain", "format-image", "embedded"}

// canonAt recognises a canonical (Format-shaped, upper-case, in range) escape
// at in[i]; for Utf16 a high surrogate immediately followed by a low surrogate
// is one escape denoting the code point above U+FFFF.
func canonAt(cd *codec, in []byte, i int) (v uint32, w int, ok bool) {
	one := func(i int) (uint32, bool) {
		if i+cd.width > len(in) || in[i] != '\\' {
			return 0, false
		}
		p := i + 1
		if cd.tag != 0 {
			if in[p] != cd.tag {
				return 0, false
			}
			p++
		}
		var v uint32
		for ; p < i+cd.width; p++ {
			d := upperDigit(in[p], cd.base)
			if d < 0 {
				return 0, false
			}
			v = v*uint32(cd.base) + uint32(d)
		}
		return v, true
	}
	v, ok = one(i)
	if !ok {
		return 0, 0, false
	}
	switch cd.id {
	case cOctal:
		if v > 0xFF {
			return 0, 0, false
		}
	case cUnicode:
		if v > 0x10FFFF || isSurrogate(v) {
			return 0, 0, false
		}
	case cUtf16:
		if isSurrogate(v) {
			if v >= 0xDC00 {
				return 0, 0, false
			}
			v2, ok2 := one(i + cd.width)
			if !ok2 || v2 < 0xDC00 || v2 >= 0xE000 {
				return 0, 0, false
			}
			return 0x10000 + (v-0xD800)<<10 + (v2 - 0xDC00), 2 * cd.width, true
		}
	}
	return v, cd.width, true
}

// appendValue appends what a canonical escape denotes: the byte, or the UTF-8
// encoding of the code point.
func appendValue(cd *codec, out []byte, v uint32) []byte {
	if cd.id == cOctal || cd.id == cHex || v < 0x80 {
		return append(out, byte(v))
	}
	return utf8.AppendRune(out, rune(v))
}

// classify decides which clause of the statement covers the input and, if one
// does, the exact result it demands.
func classify(cd *codec, in []byte) (want []byte, kind int, nesc int) {
	if bytes.IndexByte(in, '\\') < 0 {
		return in, kindPlain, 0
	}
	out := make([]byte, 0, len(in))
	prevEsc, adjacent, literal := false, false, false
	for i := 0; i < len(in); {
		if in[i] != '\\' {
			j := i + 1
			for j < len(in) && in[j] != '\\' {
				j++
			}
			out = append(out, in[i:j]...)
			i = j
			prevEsc = false
			literal = true
			continue
		}
		v, w, ok := canonAt(cd, in, i)
		if !ok {
			return nil, kindNone, 0
		}
		if prevEsc {
			adjacent = true
		}
		out = appendValue(cd, out, v)
		i += w
		prevEsc = true
		nesc++
	}
	switch {
	case !literal:
		return out, kindImage, nesc
	case !adjacent:
		return out, kindEmbedded, nesc
	}
	return nil, kindNone, 0 // adjacent escapes mixed with literal text: not promised
}

// ---------------------------------------------------------------------------
// Monitors.

func canary(i int) byte { return byte(i*131 + 89) }

func q(b []byte) string {
	if len(b) > 400 {
		return fmt.Sprintf("%q…(%d bytes)", b[:400], len(b))
	}
	return fmt.Sprintf("%q", b)
}

// judge compares one Parse result with what the statement demands for the input.
func judge(c *ev.Case, cd *codec, fn string, in, out, want []byte, kind int) bool {
	if len(out) > len(in) {
		c.Failf("len", "%s%s(%s) produced %d bytes from %d input bytes: %s", cd.name, fn, q(in), len(out), len(in), q(out))
		return false
	}
	switch kind {
	case kindPlain:
		if !bytes.Equal(out, want) {
			c.Failf("plain-changed", "%s%s(%s) = %s: the input has no backslash and must come back unchanged", cd.name, fn, q(in), q(out))
			return false
		}
	case kindImage:
		if !bytes.Equal(out, want) {
			c.Failf("round-trip", "%s%s(%s) = %s, want %s (the input is exactly %sFormat of that string)", cd.name, fn, q(in), q(out), q(want), cd.name)
			return false
		}
	case kindEmbedded:
		if !bytes.Equal(out, want) {
			c.Failf("embedded", "%s%s(%s) = %s, want %s (well-formed escapes between backslash-free text)", cd.name, fn, q(in), q(out), q(want))
			return false
		}
	}
	return true
}

// checkParse runs every Parse form of the codec on the input and checks all
// clauses of the statement that apply to it. given (optional) is the result
// known by construction; it must agree with classify (harness self-check).
func checkParse(c *ev.Case, cd *codec, in []byte, given []byte, haveGiven bool) bool {
	want, kind, nesc := classify(cd, in)
	if haveGiven && (kind == kindNone || kind == kindPlain && len(given) != len(in) || !bytes.Equal(want, given)) {
		c.Run().HarnessFailure(fmt.Sprintf("oracle self-check: %s input %s constructed to decode to %s but classified %s -> %s",
			cd.name, q(in), q(given), kindName[kind], q(want)))
		return false
	}
	pre := cd.name + "/"
	c.Add(pre+"parse_inputs", 1)
	c.Add(pre+"parse_"+kindName[kind], 1)
	if kind == kindEmbedded {
		c.Add(pre+"embedded_escapes_decoded", int64(nesc))
		if in[0] == '\\' {
			c.Add("embedded_escape_at_start_of_input", 1)
			c.Add(pre+"embedded_escape_at_start_of_input", 1)
		}
		for _, w := range []int{cd.width, 2 * cd.width} {
			if p := len(in) - w; p >= 0 {
				if _, w2, ok := canonAt(cd, in, p); ok && w2 == w {
					c.Add("embedded_escape_at_end_of_input", 1)
					c.Add(pre+"embedded_escape_at_end_of_input", 1)
					if w2 == 2*cd.width {
						c.Add("Utf16/embedded_surrogate_pair_at_end_of_input", 1)
					}
					break
				}
			}
		}
		if cd.id == cUtf16 {
			np := 0
			for i := 0; i+2*cd.width <= len(in); i++ {
				if in[i] == '\\' {
					if _, w, ok := canonAt(cd, in, i); ok && w == 2*cd.width {
						np++
					}
				}
			}
			c.Add("Utf16/embedded_surrogate_pairs_decoded", int64(np))
		}
	}
	if kind == kindImage {
		c.Add(pre+"image_escapes_decoded", int64(nesc))
		if nesc >= 2 {
			c.Add(pre+"images_of_adjacent_escapes", 1)
		}
	}
	c.Max("max_parse_input_len", int64(len(in)))

	// 1. Parse(dst, src) with a dst longer than src, pre-filled with a canary.
	const K = 24
	dst := make([]byte, len(in)+K)
	for i := range dst {
		dst[i] = canary(i)
	}
	src := exact(in)
	n := -1
	if !c.Guard(cd.name+"Parse", func() { n = cd.parse(dst, src) }) {
		return false
	}
	if c.Logging() {
		m := n
		if m < 0 {
			m = 0
		}
		if m > len(dst) {
			m = len(dst)
		}
		c.Logf("%sParse(dst[%d], %s) -> %d %s  [%s]", cd.name, len(dst), q(in), n, q(dst[:m]), kindName[kind])
	}
	if n < 0 || n > len(in) {
		c.Failf("len", "%sParse(dst, %s) returned %d for %d input bytes", cd.name, q(in), n, len(in))
		return false
	}
	// dst[n:len(in)] may have served as scratch space: the statement bounds what
	// is produced by len(input) and says nothing about the rest of that prefix.
	for i := len(in); i < len(dst); i++ {
		if dst[i] != canary(i) {
			c.Failf("canary", "%sParse(dst, %s) returned %d but wrote dst[%d], beyond len(input) = %d", cd.name, q(in), n, i, len(in))
			return false
		}
	}
	for i := n; i < len(in); i++ {
		if dst[i] != canary(i) {
			c.Add(pre+"parse_used_dst_beyond_returned_length_as_scratch", 1)
			break
		}
	}
	if !bytes.Equal(src, in) {
		c.Failf("src-modified", "%sParse(dst, %s) modified src: now %s", cd.name, q(in), q(src))
		return false
	}
	out := dst[:n]
	if !judge(c, cd, "Parse", in, out, want, kind) {
		return false
	}
	if kind == kindNone {
		if bytes.Equal(out, in) {
			c.Add(pre+"unspecified_left_verbatim", 1)
		} else {
			c.Add(pre+"unspecified_partly_decoded", 1)
		}
	}

	// 2. ParseToString[string]
	str := string(in)
	var s1 string
	if !c.Guard(cd.name+"ParseToString[string]", func() { s1 = cd.parseSS(str) }) {
		return false
	}
	if c.Logging() {
		c.Logf("%sParseToString[string](%s) -> %q", cd.name, q(in), s1)
	}
	if str != string(in) {
		c.Failf("src-modified", "%sParseToString[string](%s) modified its argument: now %q", cd.name, q(in), str)
		return false
	}
	if !judge(c, cd, "ParseToString[string]", in, []byte(s1), want, kind) {
		return false
	}

	// 3. ParseToString[[]byte]
	src2 := exact(in)
	var s2 string
	if !c.Guard(cd.name+"ParseToString[[]byte]", func() { s2 = cd.parseBS(src2) }) {
		return false
	}
	if c.Logging() {
		c.Logf("%sParseToString[[]byte](%s) -> %q", cd.name, q(in), s2)
	}
	if !bytes.Equal(src2, in) {
		c.Failf("src-modified", "%sParseToString[[]byte](%s) modified its argument: now %s", cd.name, q(in), q(src2))
		return false
	}
	if !judge(c, cd, "ParseToString[[]byte]", in, []byte(s2), want, kind) {
		return false
	}

	// 4. dst == src (the calling convention golib's own test uses): safety only.
	buf := exact(in)
	m := -1
	if !c.Guard(cd.name+"Parse(in-place)", func() { m = cd.parse(buf, buf) }) {
		return false
	}
	if m < 0 || m > len(in) {
		c.Failf("len", "%sParse(b, b) with b = %s returned %d for %d input bytes", cd.name, q(in), m, len(in))
		return false
	}
	c.Add("parse_calls", 4)
	return true
}

// verifyFormat checks one Format result against the grammar and the values.
func verifyFormat(c *ev.Case, cd *codec, fn string, s, out []byte, units []uint32) bool {
	vals, bad := scanFormat(cd, out)
	if bad != "" {
		c.Failf("format-grammar", "%s%s(%s) = %s: %s", cd.name, fn, q(s), q(out), bad)
		return false
	}
	if len(vals) != len(units) {
		c.Failf("format-value", "%s%s(%s) = %s: %d escapes, want %d", cd.name, fn, q(s), q(out), len(vals), len(units))
		return false
	}
	for i := range vals {
		if vals[i] != units[i] {
			c.Failf("format-value", "%s%s(%s) = %s: escape %d has value %#x, want %#x", cd.name, fn, q(s), q(out), i, vals[i], units[i])
			return false
		}
	}
	return true
}

// checkFormat checks all four Format forms of the codec on s and then the
// round trip through all Parse forms.
func checkFormat(c *ev.Case, cd *codec, s []byte) bool {
	units, decoded, invalid := unitsOf(cd, s)
	pre := cd.name + "/"
	src := exact(s)
	var out []byte
	if !c.Guard(cd.name+"Format[[]byte]", func() { out = cd.fmtB(src) }) {
		return false
	}
	if c.Logging() {
		c.Logf("%sFormat[[]byte](%s) -> %s", cd.name, q(s), q(out))
	}
	if !bytes.Equal(src, s) {
		c.Failf("src-modified", "%sFormat[[]byte](%s) modified its argument: now %s", cd.name, q(s), q(src))
		return false
	}
	if !verifyFormat(c, cd, "Format[[]byte]", s, out, units) {
		return false
	}
	str := string(s)
	var o2 []byte
	var o3, o4 string
	if !c.Guard(cd.name+"Format[string]", func() { o2 = cd.fmtS(str) }) {
		return false
	}
	if !bytes.Equal(o2, out) && !verifyFormat(c, cd, "Format[string]", s, o2, units) {
		return false
	}
	src3 := exact(s)
	if !c.Guard(cd.name+"FormatToString[[]byte]", func() { o3 = cd.fmtBS(src3) }) {
		return false
	}
	if o3 != string(out) && !verifyFormat(c, cd, "FormatToString[[]byte]", s, []byte(o3), units) {
		return false
	}
	if !c.Guard(cd.name+"FormatToString[string]", func() { o4 = cd.fmtSS(str) }) {
		return false
	}
	if o4 != string(out) && !verifyFormat(c, cd, "FormatToString[string]", s, []byte(o4), units) {
		return false
	}
	if str != string(s) || !bytes.Equal(src3, s) {
		c.Failf("src-modified", "%sFormat(%s) modified its argument", cd.name, q(s))
		return false
	}
	c.Add(pre+"format_checked", 1)
	c.Add(pre+"format_escapes", int64(len(units)))
	if cd.id >= cUnicode {
		if invalid > 0 {
			c.Add(pre+"format_inputs_with_invalid_bytes", 1)
			c.Add(pre+"fffd_escapes_for_invalid_bytes", int64(invalid))
		} else {
			c.Add(pre+"format_inputs_valid_utf8", 1)
		}
		if cd.id == cUtf16 {
			np := 0
			for _, u := range units {
				if u >= 0xD800 && u < 0xDC00 {
					np++
				}
			}
			c.Add("Utf16/surrogate_pairs_formatted", int64(np))
		}
	}
	// round trip (for invalid s: Format(s) = Format(decoded) and decoded is valid UTF-8)
	if !checkParse(c, cd, out, decoded, true) {
		return false
	}
	c.Add(pre+"round_trips", 1)
	return true
}
