package main

import (
	"fmt"
	"unicode/utf8"

	"verif/ev"
)

// Size thresholds (LESSONS class 7). The random engines stay below 1500 data
// bytes and 60-byte literals; an implementation that switches strategy with
// size (block-wise scanning, bulk skipping of literal text, pre-sized or pooled
// buffers, narrower index types) is only reached by inputs whose lengths sit on
// both sides of the powers of two up to 256 KiB, with escapes placed so that
// they straddle every power-of-two offset of the input.

var bigSizes = []int{16, 32, 64, 128, 256, 512, 1024, 2048, 4096, 8192, 16384, 32768, 65536, 131072, 262144}

// bigLen returns a length on either side of a power of two (16 .. 256 KiB);
// the large ones are rarer because they cost more.
func (g *gen) bigLen(maxIdx int) int {
	rng := g.rng
	var t int
	switch rng.Intn(16) {
	case 0:
		t = bigSizes[maxIdx]
	case 1, 2:
		t = bigSizes[rng.Range(maxIdx-3, maxIdx)]
	case 3, 4, 5, 6:
		t = bigSizes[rng.Range(8, maxIdx-2)] // 4096 ..
	default:
		t = bigSizes[rng.Intn(maxIdx-3)]
	}
	switch rng.Intn(6) {
	case 0:
		return t
	case 1:
		return t - 1
	case 2:
		return t + 1
	case 3:
		return t + rng.Range(-12, 12)
	case 4:
		return t + t/2 + rng.Range(-3, 3)
	default:
		return t + rng.Range(2, 40)
	}
}

// fill returns exactly n bytes of backslash-free text.
func (g *gen) fill(n int) []byte {
	if n <= 0 {
		return nil
	}
	rng := g.rng
	switch rng.Intn(4) {
	case 0:
		b := rng.Bytes(n)
		for i := range b {
			if b[i] == '\\' {
				b[i] = '/'
			}
		}
		return b
	case 1:
		b := make([]byte, n)
		ch := soupNoBackslash[rng.Intn(len(soupNoBackslash))]
		for i := range b {
			b[i] = ch
		}
		return b
	case 2:
		b := make([]byte, 0, n+4)
		for len(b) < n {
			b = utf8.AppendRune(b, rune(g.cp()))
		}
		b = b[:n]
		for i := range b {
			if b[i] == '\\' {
				b[i] = '|'
			}
		}
		return b
	default:
		pat := g.soupBytes(soupNoBackslash, rng.Range(1, 9))
		b := make([]byte, n)
		for i := range b {
			b[i] = pat[i%len(pat)]
		}
		return b
	}
}

// bigData returns n bytes of data for the Format functions.
func (g *gen) bigData(n int) ([]byte, string) {
	rng := g.rng
	if n <= 0 {
		n = 1
	}
	switch rng.Intn(6) {
	case 0:
		return rng.Bytes(n), "random-bytes"
	case 1: // ASCII with a few other runes / invalid bytes sprinkled in
		b := make([]byte, 0, n+4)
		for len(b) < n {
			switch {
			case rng.Chance(1, 40):
				b = utf8.AppendRune(b, rune(g.cp()))
			case rng.Chance(1, 200):
				b = append(b, invalidUTF8[rng.Intn(len(invalidUTF8))]...)
			default:
				b = append(b, byte(rng.Range(0x20, 0x7E)))
			}
		}
		return b, "mostly-ascii"
	case 2: // runes above U+FFFF only: every one a surrogate pair
		b := make([]byte, 0, n+4)
		for len(b)+4 <= n || len(b) == 0 {
			b = utf8.AppendRune(b, rune(rng.Range(0x10000, 0x10FFFF)))
		}
		return b, "all-supplementary"
	case 3:
		b := make([]byte, 0, n+4)
		for len(b) < n {
			b = utf8.AppendRune(b, rune(g.cp()))
		}
		return b, "valid-utf8"
	case 4:
		b := make([]byte, 0, n+4)
		for len(b) < n {
			if rng.Chance(1, 3) {
				b = append(b, invalidUTF8[rng.Intn(len(invalidUTF8))]...)
			} else {
				b = utf8.AppendRune(b, rune(g.cp()))
			}
		}
		return b, "invalid-utf8"
	default:
		b := make([]byte, n)
		ch := byte(rng.Pick(0, '\\', 'A', 0x7F, 0x80, 0xFF))
		for i := range b {
			b[i] = ch
		}
		return b, "byte-run"
	}
}

// bigEmbedded builds L0 E1 L1 ... En Ln of total length about total in which
// the escapes are placed across the power-of-two offsets of the input (escape k
// starts 1..w-1 bytes before the offset, so its bytes lie on both sides).
func (g *gen) bigEmbedded(cd *codec, total int) (in, want []byte, straddle, straddleBig int) {
	rng := g.rng
	in = make([]byte, 0, total+32)
	want = make([]byte, 0, total+32)
	lit := func(n int) {
		l := g.fill(n)
		in, want = append(in, l...), append(want, l...)
	}
	for _, p := range bigSizes {
		if p >= total {
			break
		}
		if rng.Chance(1, 4) {
			continue
		}
		v := g.value(cd)
		w := len(escValue(cd, nil, v))
		start := p - rng.Range(1, w-1)
		if rng.Chance(1, 8) {
			start = p - rng.Pick(0, w) // ends or starts exactly at the offset
		}
		if start-len(in) < 1 {
			continue
		}
		lit(start - len(in))
		in = escValue(cd, in, v)
		want = appendValue(cd, want, v)
		if start < p && start+w > p {
			straddle++
			if p >= 4096 {
				straddleBig++
			}
		}
	}
	rest := total - len(in)
	switch {
	case rest > cd.width*2+2 && rng.Chance(1, 3):
		// the input ends with an escape
		v := g.value(cd)
		w := len(escValue(cd, nil, v))
		lit(rest - w)
		in = escValue(cd, in, v)
		want = appendValue(cd, want, v)
	case rest > 0:
		lit(rest)
	}
	return in, want, straddle, straddleBig
}

func bigCase(c *ev.Case) {
	g := &gen{c: c, rng: c.Rng}
	rng := c.Rng
	cd := codecs[c.Index%4]
	maxIdx := len(bigSizes) - 1
	shape := (c.Index / 4) % 4
	switch shape {
	case 0: // Format of big data and the whole round trip
		// the image is 4..12 times the data: keep the data at most 64 KiB + a few 256 KiB ones
		n := g.bigLen(maxIdx - 2)
		if rng.Chance(1, 24) {
			n = g.bigLen(maxIdx)
		}
		s, class := g.bigData(n)
		if !checkFormat(c, cd, s) {
			return
		}
		c.Add("big/format_"+class, 1)
		c.Add("big/format_cases", 1)
		if len(s) >= 16384 {
			c.Add("big/format_data_ge_16KiB", 1)
		}
		if len(s) >= 65536 {
			c.Add("big/format_data_ge_64KiB", 1)
		}
		c.Max("big/max_format_data_len", int64(len(s)))
		c.Distinct(ev.Mix(1, uint64(cd.id), ev.HashBytes(s)))
		if c.WantSample() {
			c.Sample(fmt.Sprintf("big: %d bytes of %s through %sFormat (all forms) and back through all Parse forms", len(s), class, cd.name))
		}
	default:
		total := g.bigLen(maxIdx)
		in, want, st, stBig := g.bigEmbedded(cd, total)
		damaged := false
		if shape == 3 && len(in) > 0 {
			// damaged copy: safety clauses only
			damaged = true
			switch rng.Intn(4) {
			case 0:
				in = in[:len(in)-rng.Range(1, min(len(in), cd.width))]
			case 1:
				in[rng.Intn(len(in))] = '\\'
			case 2:
				p := bigSizes[rng.Intn(len(bigSizes))]
				if p < len(in) {
					in = in[:p+rng.Range(-1, 1)]
				}
			default:
				for k := rng.Range(1, 6); k > 0; k-- {
					in[rng.Intn(len(in))] = badDigits[rng.Intn(len(badDigits))]
				}
			}
		}
		if damaged {
			if !checkParse(c, cd, in, nil, false) {
				return
			}
			c.Add("big/damaged_parse_cases", 1)
		} else {
			if !checkParse(c, cd, in, want, true) {
				return
			}
			c.Add("big/embedded_parse_cases", 1)
			c.Add("big/escapes_straddling_a_power_of_two_offset", int64(st))
			c.Add("big/escapes_straddling_an_offset_ge_4096", int64(stBig))
		}
		if len(in) >= 4096 {
			c.Add("big/parse_input_ge_4KiB", 1)
		}
		if len(in) >= 65536 {
			c.Add("big/parse_input_ge_64KiB", 1)
		}
		if len(in) >= 262144 {
			c.Add("big/parse_input_ge_256KiB", 1)
		}
		c.Distinct(ev.Mix(2, uint64(cd.id), ev.HashBytes(in)))
		if c.WantSample() {
			c.Sample(fmt.Sprintf("big: %sParse of %d bytes with %d escapes lying across power-of-two offsets (damaged=%v)", cd.name, len(in), st, damaged))
		}
	}
}
