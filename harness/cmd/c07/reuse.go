package main

import (
	"bytes"
	"fmt"
	"unsafe"

	"verif/ev"
)

// Kept results and reused argument buffers (LESSONS classes 2, 3, 4, 9).
//
// The four codecs are stateless functions of their input: what a call returned
// must keep reading the same bytes however many further calls (of the same or
// another codec) follow and whatever the caller does with memory the result
// does not share with it; and a call through a buffer the caller has used
// before must see the buffer's current content.
// One case is a sequence of calls on one goroutine in which
//
//   - every []byte argument lives in one arena that is overwritten right after
//     the call and reused, at the same address, for the next call;
//   - the next input is often the previous one with exactly one byte changed
//     (same address, same length), or the very same content again;
//   - every returned string / slice is kept next to an independent copy taken
//     at return time, is re-read after every later step, and is judged by the
//     ordinary oracle when it is returned; the one exception is a result that
//     is a zero-copy view of the caller's own []byte argument (the statement
//     does not promise a copy, and views are this library's style): it is
//     judged at return time only, because what it reads after the caller has
//     overwritten that buffer is the caller's doing;
//   - []byte results are sometimes overwritten by the caller (they are the
//     caller's), which must not show through in any later result;
//   - malformed input is interleaved with well-formed input.

const (
	fFmtB = iota
	fFmtS
	fFmtBS
	fFmtSS
	fParse
	fParseBS
	fParseSS
	nForms
)

var formName = [nForms]string{"Format[[]byte]", "Format[string]", "FormatToString[[]byte]", "FormatToString[string]",
	"Parse", "ParseToString[[]byte]", "ParseToString[string]"}

const arenaSize = 192

type keptResult struct {
	desc  string
	isStr bool
	s     string // the returned string itself
	b     []byte // the returned slice itself
	snap  []byte // independent copy: what it read when it was returned (or after the caller's own overwrite)
	step  int
}

// viewOf reports whether the returned string / slice lies inside buf (address
// comparison only; used to exempt a view of the argument from later re-reads).
func viewOf(k *keptResult, buf []byte) bool {
	var p unsafe.Pointer
	n := 0
	if k.isStr {
		p, n = unsafe.Pointer(unsafe.StringData(k.s)), len(k.s)
	} else {
		p, n = unsafe.Pointer(unsafe.SliceData(k.b)), cap(k.b)
	}
	if n == 0 || len(buf) == 0 {
		return false
	}
	lo := uintptr(unsafe.Pointer(unsafe.SliceData(buf)))
	a := uintptr(p)
	return a >= lo && a < lo+uintptr(cap(buf))
}

func (k *keptResult) read() []byte {
	if k.isStr {
		return []byte(k.s)
	}
	return k.b
}

// image returns a Format-shaped input: adjacent canonical escapes only.
func (g *gen) image(cd *codec) []byte {
	var in []byte
	for n := g.rng.Range(1, 6); n > 0; n-- {
		in = escValue(cd, in, g.value(cd))
	}
	return in
}

// oneByteChanged returns a copy of prev that differs from it in exactly one
// byte (a digit stays a digit of the same alphabet where possible, so that a
// well-formed escape mostly stays well-formed but denotes something else).
func (g *gen) oneByteChanged(prev []byte) []byte {
	in := append([]byte(nil), prev...)
	p := g.rng.Intn(len(in))
	old := in[p]
	var alpha string
	switch {
	case old >= '0' && old <= '7':
		alpha = "01234567"
	case old == '8' || old == '9' || old >= 'A' && old <= 'F':
		alpha = hexUpper
	case old == '\\':
		alpha = `\/`
	default:
		alpha = soupNoBackslash
	}
	for k := 0; k < 8 && in[p] == old; k++ {
		in[p] = alpha[g.rng.Intn(len(alpha))]
	}
	if in[p] == old {
		in[p] = old ^ 1
	}
	return in
}

func keptCase(c *ev.Case) {
	g := &gen{c: c, rng: c.Rng}
	rng := c.Rng
	arena := make([]byte, arenaSize)
	dstArena := make([]byte, arenaSize+16)
	var kept []*keptResult
	var prevParse, prevFmt []byte
	var h uint64
	cd := codecs[rng.Intn(4)]
	form := rng.Intn(nForms)
	steps := rng.Range(4, 14)

	recheck := func(step int, after string) bool {
		for _, k := range kept {
			if now := k.read(); !bytes.Equal(now, k.snap) {
				c.Failf("kept-result-changed", "%s returned %s at step %d; %s (step %d) the same returned value reads %s", k.desc, q(k.snap), k.step, after, step, q(now))
				return false
			}
			c.Add("kept/results_re_read_later", 1)
		}
		return true
	}

	for step := 0; step < steps; step++ {
		sameCall := step > 0 && rng.Chance(2, 3)
		if !sameCall {
			if rng.Bool() {
				cd = codecs[rng.Intn(4)]
			}
			form = rng.Intn(nForms)
		}
		isFmt := form <= fFmtSS
		prev := prevParse
		if isFmt {
			prev = prevFmt
		}
		// the input
		var in []byte
		class := ""
		switch m := rng.Intn(10); {
		case m <= 2 && len(prev) > 0 && sameCall:
			in, class = g.oneByteChanged(prev), "one-byte-changed"
		case m == 3 && len(prev) > 0 && sameCall:
			in, class = append([]byte(nil), prev...), "same-content-again"
		case isFmt:
			in, class = g.roundTripInput()
			class = "data/" + class
		case m <= 5:
			in, _, _ = g.embedded(cd)
			class = "embedded"
		case m == 6:
			in, class = g.literal(1), "plain"
		case m == 7:
			in, class = g.image(cd), "image"
		case m == 8:
			in, class = g.hostile(cd), "hostile"
		default:
			in, class = g.literal(rng.Range(1, 3)), "plain"
		}
		if len(in) > arenaSize {
			in = in[:arenaSize]
		}
		if class == "one-byte-changed" || class == "same-content-again" {
			c.Add("kept/"+class+"_same_call_same_buffer", 1)
		}
		h = ev.Mix(h, uint64(cd.id), uint64(form), ev.HashBytes(in))
		if isFmt {
			prevFmt = in
		} else {
			prevParse = in
		}

		// the argument: always the start of the one arena (same address every time)
		arg := arena[:len(in):len(in)]
		copy(arg, in)
		str := string(in)
		usesArena := form == fFmtB || form == fFmtBS || form == fParse || form == fParseBS
		name := cd.name + formName[form]
		res := &keptResult{desc: fmt.Sprintf("%s(%s)", name, q(in)), step: step}
		ok := true
		switch form {
		case fFmtB:
			ok = c.Guard(name, func() { res.b = cd.fmtB(arg) })
		case fFmtS:
			ok = c.Guard(name, func() { res.b = cd.fmtS(str) })
		case fFmtBS:
			res.isStr = true
			ok = c.Guard(name, func() { res.s = cd.fmtBS(arg) })
		case fFmtSS:
			res.isStr = true
			ok = c.Guard(name, func() { res.s = cd.fmtSS(str) })
		case fParse:
			dst := dstArena[:len(in)+16]
			for i := range dst {
				dst[i] = canary(i)
			}
			n := -1
			ok = c.Guard(name, func() { n = cd.parse(dst, arg) })
			if ok && (n < 0 || n > len(in)) {
				c.Failf("len", "%sParse(dst, %s) returned %d for %d input bytes", cd.name, q(in), n, len(in))
				return
			}
			if ok {
				for i := len(in); i < len(dst); i++ { // dst[n:len(in)] may be scratch, see checkParse
					if dst[i] != canary(i) {
						c.Failf("canary", "%sParse(dst, %s) returned %d but wrote dst[%d], beyond len(input) = %d", cd.name, q(in), n, i, len(in))
						return
					}
				}
				// dst is the caller's and is reused: keep only the copy
				res.b = append([]byte{}, dst[:n]...)
			}
		case fParseBS:
			res.isStr = true
			ok = c.Guard(name, func() { res.s = cd.parseBS(arg) })
		default:
			res.isStr = true
			ok = c.Guard(name, func() { res.s = cd.parseSS(str) })
		}
		if !ok {
			return
		}
		res.snap = append([]byte{}, res.read()...)
		if c.Logging() {
			c.Logf("step %d [%s] %s -> %s", step, class, res.desc, q(res.snap))
		}
		if usesArena && !bytes.Equal(arg, in) {
			c.Failf("src-modified", "%s modified its argument: now %s", res.desc, q(arg))
			return
		}
		// judge the value as any other result
		if isFmt {
			units, _, _ := unitsOf(cd, in)
			if !verifyFormat(c, cd, formName[form], in, res.snap, units) {
				return
			}
			c.Add("kept/format_results_judged", 1)
		} else {
			want, kind, _ := classify(cd, in)
			if !judge(c, cd, formName[form], in, res.snap, want, kind) {
				return
			}
			c.Add("kept/parse_results_judged_"+kindName[kind], 1)
			if kind == kindPlain && form == fParseBS {
				c.Add("kept/plain_input_through_ParseToString_of_bytes", 1)
			}
		}
		c.Add("kept/calls", 1)
		if usesArena && viewOf(res, arena) {
			// A zero-copy view of the caller's own []byte argument: it was judged
			// above with what it read when it was returned, which is all the
			// statement speaks of. What it reads after the caller has overwritten
			// that buffer is the caller's doing, so it is not re-read later.
			c.Add("kept/result_is_view_of_the_bytes_argument_not_re_read", 1)
		} else {
			kept = append(kept, res)
		}

		// the caller reuses its argument buffer
		if usesArena {
			junk := g.soupBytes(soup, len(in))
			copy(arena, junk)
			if len(in) < arenaSize {
				arena[len(in)] = '\\'
			}
			c.Add("kept/argument_buffer_overwritten_after_call", 1)
		}
		if !recheck(step, "after that call and the caller overwriting its own argument buffer") {
			return
		}
		// the caller may do what it likes with a []byte it was given
		if !res.isStr && form != fParse && len(res.b) > 0 && rng.Chance(1, 2) {
			for i := range res.b {
				res.b[i] = byte('a' + i%26)
			}
			res.snap = append(res.snap[:0], res.b...)
			c.Add("kept/returned_slice_overwritten_by_caller", 1)
		}
	}
	if !recheck(steps, "at the end of the sequence") {
		return
	}
	c.Add("kept/sequences", 1)
	c.Distinct(h)
	if c.WantSample() {
		c.Sample(fmt.Sprintf("%d consecutive calls through one reused argument arena, ending with %s; %d returned values kept and re-read after every later step", steps, kept[len(kept)-1].desc, len(kept)))
	}
}
