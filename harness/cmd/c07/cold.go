package main

import (
	"fmt"
	"unicode/utf8"

	"verif/ev"
)

// Cold start (LESSONS class 5): each case runs alone in a freshly started
// process and its first golib call is one particular entry point of one codec
// (28 = 4 codecs x 7 forms), so that anything filled lazily by another entry
// point (digit tables, case tables, padding, pools) is still in its zero state.
// The input is built by the harness alone (no golib call), and contains escapes
// whose digits use the whole alphabet of the base (upper-case A-F included).

const coldCases = 4 * nForms

// coldValues are values whose escapes use letters as well as digits.
var coldValues = [4][]uint32{
	cOctal:   {0o257, 0o377, 0, 0o134},
	cHex:     {0xAF, 0xCD, 0xEB, 0x5C},
	cUnicode: {0x1FABC, 0xE9, 0x10FFFF, 0xFFFD, 0x4E16},
	cUtf16:   {0x1FABC, 0xE9, 0x10FFFF, 0xFFFD, 0xABCD},
}

func coldCase(c *ev.Case) {
	g := &gen{c: c, rng: c.Rng}
	cd := codecs[c.Index%4]
	form := (c.Index / 4) % nForms
	name := cd.name + formName[form]
	c.Logf("first golib call of this process: %s", name)
	if form <= fFmtSS {
		// data whose escapes need letters: bytes for Octal/Hex, valid UTF-8 for the others
		var s []byte
		for _, v := range coldValues[cd.id] {
			if cd.id <= cHex {
				s = append(s, byte(v))
			} else {
				s = utf8.AppendRune(s, rune(v))
			}
			s = append(s, g.literal(1)...)
		}
		if cd.id >= cUnicode {
			s = append(s, 0xFF) // one invalid byte: U+FFFD
		}
		units, _, _ := unitsOf(cd, s)
		var out []byte
		str := string(s)
		arg := exact(s)
		ok := true
		switch form {
		case fFmtB:
			ok = c.Guard(name, func() { out = cd.fmtB(arg) })
		case fFmtS:
			ok = c.Guard(name, func() { out = cd.fmtS(str) })
		case fFmtBS:
			ok = c.Guard(name, func() { out = []byte(cd.fmtBS(arg)) })
		default:
			ok = c.Guard(name, func() { out = []byte(cd.fmtSS(str)) })
		}
		if !ok {
			return
		}
		c.Logf("%s(%s) -> %s", name, q(s), q(out))
		if !verifyFormat(c, cd, formName[form]+" as the first call of the process", s, out, units) {
			return
		}
		// the rest of the round trip, now warm
		if !checkFormat(c, cd, s) {
			return
		}
	} else {
		var in, want []byte
		for _, v := range coldValues[cd.id] {
			l := g.literal(1)
			in, want = append(in, l...), append(want, l...)
			in = escValue(cd, in, v)
			want = appendValue(cd, want, v)
		}
		if g.rng.Bool() {
			l := g.literal(1)
			in, want = append(in, l...), append(want, l...)
		}
		cwant, kind, _ := classify(cd, in)
		if kind != kindEmbedded || string(cwant) != string(want) {
			c.Run().HarnessFailure(fmt.Sprintf("cold start: %s input %s classified %s", cd.name, q(in), kindName[kind]))
			return
		}
		var out []byte
		ok := true
		switch form {
		case fParse:
			dst := make([]byte, len(in))
			n := -1
			src := exact(in)
			ok = c.Guard(name, func() { n = cd.parse(dst, src) })
			if ok && (n < 0 || n > len(in)) {
				c.Failf("len", "%sParse(dst, %s) as the first call of the process returned %d for %d input bytes", cd.name, q(in), n, len(in))
				return
			}
			if ok {
				out = dst[:n]
			}
		case fParseBS:
			src := exact(in)
			ok = c.Guard(name, func() { out = []byte(cd.parseBS(src)) })
		default:
			str := string(in)
			ok = c.Guard(name, func() { out = []byte(cd.parseSS(str)) })
		}
		if !ok {
			return
		}
		c.Logf("%s(%s) -> %s", name, q(in), q(out))
		if !judge(c, cd, formName[form]+" as the first call of the process", in, out, want, kind) {
			return
		}
		if !checkParse(c, cd, in, want, true) {
			return
		}
	}
	c.Add("cold_start_cases", 1)
	c.Add("cold_start/first_call_"+name, 1)
	c.Distinct(ev.Mix(uint64(c.Index), 77))
	if c.WantSample() {
		c.Sample(fmt.Sprintf("cold start: fresh process whose first golib call is %s", name))
	}
}
