package main

import (
	"fmt"

	"verif/ev"
)

// Engines added by the clause-coverage audit.
//
//	steps   Iter walked by Next alone: Value is not called at all, only at some of the
//	        steps, only at the last one, or only after at least two steps without it. The
//	        number of times Next says true must be the cardinality and every Value that is
//	        asked must be the member of that position (the other engines ask Value after
//	        every single Next, so an iterator whose advance depends on Value having been
//	        called passes them).
//	chains  Clone applied to the result of a Clone (chains root -> clone -> clone of the
//	        clone ..., and several clones of one object), every member of the chain edited
//	        by element operations, Grow and bulk operations with other members as operands;
//	        after every operation every member of the chain is compared with its own model
//	        ("Clone is independent of its source" for every source, a clone included).

// ------------------------------------------------------------------ steps ----

const (
	askNever = iota
	askSome
	askLast
	askAfterGap
	askModes
)

var askName = [...]string{"never", "at about one step in three", "only at the last member", "only after two or more steps without it"}

// stepIter walks a fresh iterator with Next and calls Value only where the mode says.
func (s *subject) stepIter(mode int, ctx string) bool {
	c := s.c
	rng := c.Rng
	want := s.list()
	limit := len(want) + 3
	trues, asked, gap, askedAfterGap := 0, 0, 0, 0
	badPos, badGot := -1, uint(0)
	afterEnd := false
	s.observed("iter")
	if !s.guard("Iter", func() {
		next, value := s.newIter()
		for next() {
			trues++
			if trues > limit {
				return
			}
			ask := false
			switch mode {
			case askSome:
				ask = rng.Chance(1, 3)
			case askLast:
				ask = trues == len(want)
			case askAfterGap:
				ask = gap >= 2 && rng.Bool()
			}
			if !ask {
				gap++
				continue
			}
			if gap >= 2 {
				askedAfterGap++
			}
			gap = 0
			asked++
			v := value()
			if rng.Chance(1, 4) {
				v = value() // asking again changes nothing
			}
			if trues <= len(want) && v != want[trues-1] && badPos < 0 {
				badPos, badGot = trues-1, v
			}
		}
		if next() || next() {
			afterEnd = true
		}
	}) {
		return false
	}
	c.Logf("  %s: Iter walked by Next, Value asked %s -> Next true %d times, Value asked %d times", s.name, askName[mode], trues, asked)
	if asked == 0 {
		c.Add("iter_walks_value_never_asked", 1)
	} else {
		c.Add("iter_walks_value_asked_at_some_steps_only", 1)
	}
	if len(want) > 0 {
		c.Add("iter_walks_by_next_of_nonempty_sets_"+kindName[s.k], 1)
	}
	c.Add("iter_steps_without_value", int64(trues-asked))
	c.Add("iter_values_asked_after_two_or_more_steps_without", int64(askedAfterGap))
	if trues != len(want) {
		n := fmt.Sprint(trues)
		if trues > limit {
			n = "more than " + fmt.Sprint(limit)
		}
		s.fail("iter-steps-without-value", ctx, "Iter(): Next() returned true %s times for a set of %d members (Value() asked %s: %d times)", n, len(want), askName[mode], asked)
		return false
	}
	if badPos >= 0 {
		s.fail("iter-value-after-steps-without-value", ctx, "Iter(): Value() after the %d. Next() returned %d, the %d. member is %d (Value() asked %s)", badPos+1, badGot, badPos+1, want[badPos], askName[mode])
		return false
	}
	if afterEnd {
		s.fail("iter-after-end", ctx, "Iter(): Next() returned true again after it had returned false (walked by Next, Value() asked %s)", askName[mode])
		return false
	}
	return true
}

func stepsCase(c *ev.Case) {
	rng := c.Rng
	L := c.Index % 7
	ws := make([]uint64, L)
	nz := false
	for i := range ws {
		ws[i] = iterPattern(rng)
		nz = nz || ws[i] != 0
	}
	w := &world{c: c}
	subs := []*subject{w.new(kBits, "Bits"), w.new(kBitmap, "Bitmap"), w.new(kDsz, "dsz")}
	c.Logf("words %016x", ws)
	mode := rng.Intn(3)
	for _, s := range subs {
		if !buildWords(s, ws, mode) {
			return
		}
	}
	if !w.verifyAll("") {
		return
	}
	for round := rng.Range(2, 4); round > 0; round-- {
		for _, s := range subs {
			m1 := rng.Intn(askModes)
			m2 := (m1 + 1 + rng.Intn(askModes-1)) % askModes
			if !s.stepIter(m1, "") || !s.stepIter(m2, "") {
				return
			}
		}
		// an element operation at a word edge, then again
		wd := rng.Intn(L + 1)
		x := uint(wd*64 + rng.Pick(0, 1, 62, 63))
		add := rng.Bool()
		if !add {
			if l := subs[0].list(); len(l) > 0 && rng.Chance(2, 3) {
				x = l[rng.Pick(0, len(l)-1, rng.Intn(len(l)))]
			}
		}
		for _, s := range subs {
			ok := false
			if add {
				ok = s.add(x)
			} else {
				ok = s.remove(x)
			}
			if !ok {
				return
			}
		}
		if !w.verifyAll("") {
			return
		}
	}
	for _, s := range subs {
		if !s.stepIter(rng.Intn(askModes), "") {
			return
		}
	}
	c.Add("steps_cases", 1)
	if nz {
		c.Distinct(hashWords('s', ws))
	}
	if c.WantSample() && L > 1 {
		c.Sample(fmt.Sprintf("steps: set with words %016x in Bits, Bitmap and dsz.Bits: Iter walked by Next with Value asked never / at some steps / at the last member only / after gaps; Add/Remove at word edges in between", ws))
	}
}

// ----------------------------------------------------------------- chains ----

func chainsCase(c *ev.Case) {
	rng := c.Rng
	w := &world{c: c}
	u := universes[rng.Intn(len(universes))]
	var root *subject
	if rng.Bool() {
		root = w.new(kBits, "root.Bits")
	} else {
		root = w.new(kBitmap, "root.Bitmap")
	}
	if !w.verifyAll("zero-value") {
		return
	}
	if rng.Chance(1, 4) && !root.grow(uint(rng.Intn(u+70))) {
		return
	}
	for k := rng.Range(0, 12); k > 0; k-- {
		x := genVal(rng, u)
		w.note('a', uint64(x))
		if !root.add(x) {
			return
		}
	}
	chain := []*subject{root}
	grand := false // the chain holds a clone of a clone
	pick := func() *subject {
		if rng.Bool() {
			return chain[len(chain)-1]
		}
		return chain[rng.Intn(len(chain))]
	}
	steps := rng.Range(8, 16)
	for st := 0; st < steps; st++ {
		p := rng.Intn(100)
		if len(chain) == 1 || (len(chain) == 2 && p < 50) {
			p = 0
		}
		ok := true
		edit := true
		switch {
		case p < 25:
			edit = false
			if len(chain) >= 6 {
				continue
			}
			parent := pick()
			cl := parent.clone(fmt.Sprintf("clone%d(%s)", len(chain), parent.name))
			if cl == nil {
				return
			}
			w.note('C', uint64(len(chain)))
			w.subs = append(w.subs, cl)
			chain = append(chain, cl)
			if parent.isClone {
				grand = true
			}
		case p < 50:
			s := pick()
			x := genVal(rng, u)
			if rng.Chance(1, 5) {
				x = uint(s.words()*64 + rng.Pick(0, 1, 63, 64))
			}
			w.note('a', uint64(x))
			ok = s.add(x)
		case p < 72:
			s := pick()
			x := genVal(rng, u)
			if l := s.list(); len(l) > 0 && rng.Chance(3, 4) {
				x = l[rng.Pick(0, len(l)-1, rng.Intn(len(l)))]
			}
			w.note('r', uint64(x))
			ok = s.remove(x)
		case p < 80:
			s := pick()
			n := genVal(rng, u+70)
			w.note('g', uint64(n))
			ok = s.grow(n)
		default:
			// a bulk operation between two members of the chain
			s, o := pick(), pick()
			if s == o {
				o = chain[rng.Intn(len(chain))]
			}
			if s.k == kBits && o.k != kBits {
				s, o = o, s // Bits takes Bits operands only; Bitmap takes both
			}
			op := rng.Intn(3)
			w.note('B', uint64(op))
			w.bulk++
			ok = s.bulk(op, o)
			if ok && s != o {
				c.Add("chain_bulk_operations_between_members", 1)
			}
		}
		if !ok || !w.verifyAll("clone-chain") {
			return
		}
		if edit {
			c.Add("chain_edits", 1)
			if grand {
				c.Add("chain_edits_with_a_clone_of_a_clone_alive", 1)
			}
		}
	}
	for _, s := range chain {
		if !s.verify("clone-chain-end") {
			return
		}
	}
	c.Max("max_clone_chain_members", int64(len(chain)))
	c.Add("chains_cases", 1)
	if grand {
		c.Add("chains_cases_with_a_clone_of_a_clone", 1)
		c.Distinct(ev.Mix('h', w.hash))
	}
	if c.WantSample() && grand {
		c.Sample(fmt.Sprintf("chains: %s with values below %d, %d objects made by Clone from it and from each other (clones of clones), %d steps of Add/Remove/Grow/bulk operations on any of them, every object compared with its own model after every step; final root=%s",
			root.name, u, len(chain)-1, steps, fmtSet(root.list())))
	}
}
