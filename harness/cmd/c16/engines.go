package main

import (
	"fmt"

	"verif/ev"
)

// ---------------------------------------------------------------- pairs ----

var pairValsQuick = []uint{0, 63, 64, 127, 128, 191}
var pairValsThorough = []uint{0, 1, 63, 64, 65, 127, 128, 129, 191}

const pairVariants = 5

var pairVariantName = [...]string{"plain", "receiver pre-grown to 4 words", "operand pre-grown to 4 words",
	"receiver had 300 added and removed", "operand had 300 added and removed"}

func pairsCount(r *ev.Run) int {
	n := len(pairValsQuick)
	if r.Thorough() {
		n = len(pairValsThorough)
	}
	return (1 << n) * (1 << n) * pairVariants
}

// buildMask fills s with the values selected by mask (same order for the objects of one side).
func buildMask(s *subject, vals []uint, mask int, desc bool, pregrow, bump bool) bool {
	if pregrow && !s.grow(255) {
		return false
	}
	for i := range vals {
		j := i
		if desc {
			j = len(vals) - 1 - i
		}
		if mask&(1<<j) != 0 {
			if !s.add(vals[j]) {
				return false
			}
		}
	}
	if bump && (!s.add(300) || !s.remove(300)) {
		return false
	}
	return true
}

func pairsCase(c *ev.Case) {
	rng := c.Rng
	vals := pairValsQuick
	if c.Thorough() {
		vals = pairValsThorough
	}
	n := len(vals)
	idx := c.Index
	variant := idx % pairVariants
	idx /= pairVariants
	ma, mb := idx&(1<<n-1), idx>>n
	descA, descB := rng.Bool(), rng.Bool()
	for op := 0; op < 3; op++ {
		w := &world{c: c}
		ab, am := w.new(kBits, "A.Bits"), w.new(kBitmap, "A.Bitmap")
		bb, bm := w.new(kBits, "B.Bits"), w.new(kBitmap, "B.Bitmap")
		c.Logf("--- %s, A mask %#x, B mask %#x over %v, variant: %s", opName[op], ma, mb, vals, pairVariantName[variant])
		for _, s := range []*subject{ab, am} {
			if !buildMask(s, vals, ma, descA, variant == 1, variant == 3) {
				return
			}
		}
		for _, s := range []*subject{bb, bm} {
			if !buildMask(s, vals, mb, descB, variant == 2, variant == 4) {
				return
			}
		}
		if !w.verifyAll("") {
			return
		}
		if !ab.bulk(op, bb) || !am.bulk(op, bm) || !w.verifyAll("") {
			return
		}
		// element operations after the bulk operation: the cached cardinality must follow
		x, y := vals[rng.Intn(n)], vals[rng.Intn(n)]
		for _, s := range []*subject{ab, am} {
			if !s.add(x) || !s.remove(y) {
				return
			}
		}
		if !w.verifyAll("") {
			return
		}
		// and the reverse direction (the former operand becomes the receiver)
		op2 := rng.Intn(3)
		if !bb.bulk(op2, ab) || !bm.bulk(op2, am) || !w.verifyAll("") {
			return
		}
		if op == 0 && rng.Chance(1, 8) {
			if !ab.deepEnumerate("") || !bm.deepEnumerate("") {
				return
			}
		}
	}
	c.Add("pair_cases", 1)
	if ma|mb != 0 {
		c.Distinct(ev.Mix('p', uint64(c.Index)))
	}
	if c.WantSample() && ma != 0 && mb != 0 {
		c.Sample(fmt.Sprintf("pairs: A=%v B=%v (%s): Diff, Intersect, Merge each on fresh copies, then Add(x)/Remove(y) on the receiver, then a reverse bulk operation", maskVals(vals, ma), maskVals(vals, mb), pairVariantName[variant]))
	}
}

func maskVals(vals []uint, mask int) []uint {
	out := []uint{}
	for i, v := range vals {
		if mask&(1<<i) != 0 {
			out = append(out, v)
		}
	}
	return out
}

// ---------------------------------------------------------------- words ----

func wordPattern(rng *ev.Rand) uint64 {
	switch rng.Intn(10) {
	case 0, 1:
		return 0
	case 2:
		return 1
	case 3:
		return 1 << 63
	case 4:
		return 1<<63 | 1
	case 5:
		return ^uint64(0)
	case 6:
		return rng.Uint64() & rng.Uint64() & rng.Uint64() & rng.Uint64() // sparse
	case 7:
		return rng.Uint64() | rng.Uint64() // dense
	case 8:
		return 1<<63 | 1<<62 | 3
	default:
		return rng.Uint64() & rng.Uint64()
	}
}

// buildWords makes s a set with exactly the given bit patterns and a capacity of len(words) words.
// mode 0: Grow first, ascending adds; 1: descending adds, Grow at the end; 2: ascending adds, Grow at the end.
func buildWords(s *subject, words []uint64, mode int) bool {
	L := len(words)
	if L == 0 {
		return true
	}
	if mode == 0 && !s.grow(uint(L*64-1)) {
		return false
	}
	for k := 0; k < L*64; k++ {
		x := k
		if mode == 1 {
			x = L*64 - 1 - k
		}
		if words[x>>6]&(1<<(uint(x)&63)) != 0 {
			if !s.add(uint(x)) {
				return false
			}
		}
	}
	if mode != 0 && !s.grow(uint(L*64-1)) {
		return false
	}
	return true
}

func genWords(rng *ev.Rand, L int) []uint64 {
	ws := make([]uint64, L)
	for i := range ws {
		ws[i] = wordPattern(rng)
	}
	return ws
}

func hashWords(tag uint64, ws []uint64) uint64 {
	h := ev.Mix(tag, uint64(len(ws)))
	for _, x := range ws {
		h = ev.Mix(h, x)
	}
	return h
}

func wordsCase(c *ev.Case) {
	rng := c.Rng
	idx := c.Index
	la, lb, op0 := idx%7, (idx/7)%7, (idx/49)%3
	wa, wb := genWords(rng, la), genWords(rng, lb)
	// correlate the operands so that intersections and differences are non-trivial
	for i := 0; i < la && i < lb; i++ {
		switch rng.Intn(5) {
		case 0:
			wb[i] = wa[i]
		case 1:
			wb[i] = ^wa[i]
		case 2:
			wb[i] = wa[i] | wordPattern(rng)
		}
	}
	w := &world{c: c}
	ab, am := w.new(kBits, "A.Bits"), w.new(kBitmap, "A.Bitmap")
	bb, bm := w.new(kBits, "B.Bits"), w.new(kBitmap, "B.Bitmap")
	c.Logf("A words %016x, B words %016x", wa, wb)
	modeA, modeB := rng.Intn(3), rng.Intn(3)
	if !buildWords(ab, wa, modeA) || !buildWords(am, wa, modeA) || !buildWords(bb, wb, modeB) || !buildWords(bm, wb, modeB) {
		return
	}
	if !w.verifyAll("") {
		return
	}
	h := ev.Mix(hashWords('A', wa), hashWords('B', wb), uint64(op0))
	if !ab.bulk(op0, bb) || !am.bulk(op0, bm) || !w.verifyAll("") {
		return
	}
	steps := rng.Range(1, 4)
	for st := 0; st < steps; st++ {
		// element operations at the capacity boundaries of both sides
		for k := rng.Range(1, 4); k > 0; k-- {
			L := la
			if rng.Bool() {
				L = lb
			}
			x := L*64 + rng.Pick(-2, -1, 0, 1, 63, 64)
			if x < 0 || rng.Chance(1, 6) {
				x = rng.Intn(7 * 64)
			}
			onA, add := rng.Bool(), rng.Chance(3, 5)
			h = ev.Mix(h, uint64(x), b2u(onA), b2u(add))
			p, q := ab, am
			if !onA {
				p, q = bb, bm
			}
			if !add && rng.Bool() {
				if l := p.list(); len(l) > 0 {
					x = int(l[rng.Intn(len(l))])
				}
			}
			ok := false
			if add {
				ok = p.add(uint(x)) && q.add(uint(x))
			} else {
				ok = p.remove(uint(x)) && q.remove(uint(x))
			}
			if !ok || !w.verifyAll("") {
				return
			}
		}
		op, rev := rng.Intn(3), rng.Bool()
		h = ev.Mix(h, uint64(op), b2u(rev))
		ok := false
		if rev {
			ok = bb.bulk(op, ab) && bm.bulk(op, am)
		} else {
			ok = ab.bulk(op, bb) && am.bulk(op, bm)
		}
		if !ok || !w.verifyAll("") {
			return
		}
	}
	if rng.Chance(1, 4) {
		if !ab.deepEnumerate("") || !am.deepEnumerate("") {
			return
		}
	}
	c.Add("words_cases", 1)
	c.Max("max_words", int64(ab.words()))
	c.Max("max_words", int64(bb.words()))
	c.Distinct(h)
	if c.WantSample() && la > 0 && lb > 0 {
		c.Sample(fmt.Sprintf("words: A=%016x (%d words) %s B=%016x (%d words), then %d rounds of boundary Add/Remove + bulk operation in a random direction", wa, la, opName[op0], wb, lb, steps))
	}
}

func b2u(b bool) uint64 {
	if b {
		return 1
	}
	return 0
}

// ----------------------------------------------------------------- iter ----

func iterPattern(rng *ev.Rand) uint64 {
	switch rng.Intn(9) {
	case 0, 1:
		return 0
	case 2:
		return 1 << 63
	case 3:
		return 1
	case 4:
		return 1<<63 | 1
	case 5:
		return ^uint64(0)
	case 6:
		return 1 << uint(rng.Intn(64))
	case 7:
		return 1<<63 | 1<<62 | 1<<61 | 7
	default:
		return rng.Uint64() & rng.Uint64()
	}
}

func iterCase(c *ev.Case) {
	rng := c.Rng
	L := c.Index % 7
	ws := make([]uint64, L)
	for i := range ws {
		ws[i] = iterPattern(rng)
	}
	w := &world{c: c}
	subs := []*subject{w.new(kBits, "Bits"), w.new(kBitmap, "Bitmap"), w.new(kDsz, "dsz")}
	c.Logf("words %016x", ws)
	mode := rng.Intn(3)
	for _, s := range subs {
		if !buildWords(s, ws, mode) {
			return
		}
	}
	if !w.verifyAll("") {
		return
	}
	for _, s := range subs {
		if !s.deepEnumerate("") || !s.deepEnumerate("") {
			return
		}
	}
	// mutate at word edges, enumerate again
	for round := rng.Range(1, 4); round > 0; round-- {
		wd := rng.Intn(L + 1)
		var x uint
		switch rng.Intn(4) {
		case 0:
			x = uint(wd*64 + 63)
		case 1:
			x = uint(wd * 64)
		case 2:
			x = uint(wd*64 + rng.Intn(64))
		default:
			x = uint(rng.Intn(L*64 + 64))
		}
		add := rng.Bool()
		if !add {
			if l := subs[0].list(); len(l) > 0 && rng.Chance(2, 3) {
				x = l[rng.Pick(0, len(l)-1, rng.Intn(len(l)))]
			}
		}
		for _, s := range subs {
			ok := false
			if add {
				ok = s.add(x)
			} else {
				ok = s.remove(x)
			}
			if !ok {
				return
			}
		}
		if !w.verifyAll("") {
			return
		}
		for _, s := range subs {
			if !s.deepEnumerate("") {
				return
			}
		}
	}
	// drain completely: iterators over a set that became empty but kept its capacity
	if rng.Chance(1, 5) {
		for _, x := range append([]uint(nil), subs[0].list()...) {
			for _, s := range subs {
				if !s.remove(x) {
					return
				}
			}
		}
		if !w.verifyAll("") {
			return
		}
		c.Add("iter_drained_sets", 1)
	}
	c.Add("iter_cases", 1)
	nz := false
	for _, x := range ws {
		nz = nz || x != 0
	}
	if nz {
		c.Distinct(hashWords('i', ws))
	}
	if c.WantSample() && L > 1 {
		c.Sample(fmt.Sprintf("iter: set with words %016x in Bits, Bitmap and dsz.Bits: Iter/Range/All, two interleaved iterators, early stops, then Add/Remove at word edges and again", ws))
	}
}
