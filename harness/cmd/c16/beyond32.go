package main

// Engine "beyond32": members at and above 2^32 (uint is 64 bits wide; the word array of such a
// set takes 512 MiB). Positions carried in 32 bits come out modulo 2^32 only here. Two cases in
// the quick tier (setz.Bits with Range, All and Iter; setz.Bitmap with Range and Iter), one
// after the other; compared with the sorted member list as everywhere.

import (
	"fmt"
	"sort"

	"github.com/welllog/golib/setz"

	"verif/ev"
)

func beyond32Case(c *ev.Case) {
	rng := c.Rng
	base := uint(1) << 32
	members := []uint{uint(rng.Intn(64)), 63 + uint(rng.Intn(200)), base - 1 - uint(rng.Intn(3)), base, base + 1 + uint(rng.Intn(62)), base + 64*uint(rng.Range(1, 70)) + uint(rng.Intn(64))}
	set := map[uint]bool{}
	for _, m := range members {
		set[m] = true
	}
	var want []uint
	for m := range set {
		want = append(want, m)
	}
	sort.Slice(want, func(i, j int) bool { return want[i] < want[j] })
	order := rng.Perm(len(members))
	same := func(how string, got []uint) bool {
		if len(got) != len(want) {
			c.Failf("beyond32-"+how, "%s over a set with members %v yielded %v", how, want, got)
			return false
		}
		for i := range got {
			if got[i] != want[i] {
				c.Failf("beyond32-"+how, "%s over a set with members %v yielded %v", how, want, got)
				return false
			}
		}
		c.Add("beyond32_enumerations", 1)
		return true
	}
	probes := append([]uint{0, 1, base - 64, base + 63, base + 64, base * 2}, members...)
	if c.Index%2 == 0 {
		var b setz.Bits
		ok := c.Guard("Bits", func() {
			for _, i := range order {
				fresh := !b.Contains(members[i])
				if b.Add(members[i]) != fresh {
					c.Failf("beyond32-add", "Bits.Add(%d) returned %v", members[i], !fresh)
					return
				}
			}
			if b.Len() != len(want) {
				c.Failf("beyond32-len", "Bits.Len() = %d, members %v", b.Len(), want)
				return
			}
			for _, p := range probes {
				if b.Contains(p) != set[p] {
					c.Failf("beyond32-contains", "Bits.Contains(%d) = %v, members %v", p, b.Contains(p), want)
					return
				}
			}
			var got []uint
			b.Range(func(x uint) bool { got = append(got, x); return true })
			if !same("Bits.Range", got) {
				return
			}
			got = nil
			for x := range b.All() {
				got = append(got, x)
			}
			if !same("Bits.All", got) {
				return
			}
			got = nil
			for it := b.Iter(); it.Next(); {
				got = append(got, it.Value())
			}
			if !same("Bits.Iter", got) {
				return
			}
			top := want[len(want)-1]
			if !b.Remove(top) || b.Contains(top) || b.Len() != len(want)-1 {
				c.Failf("beyond32-remove", "Bits.Remove(%d) on members %v: still contained or Len()=%d", top, want, b.Len())
			}
		})
		if !ok || c.Failed() {
			return
		}
		c.Add("beyond32_Bits", 1)
	} else {
		var b setz.Bitmap
		ok := c.Guard("Bitmap", func() {
			for _, i := range order {
				b.Add(members[i])
			}
			if b.Len() != len(want) {
				c.Failf("beyond32-len", "Bitmap.Len() = %d, members %v", b.Len(), want)
				return
			}
			for _, p := range probes {
				if b.Contains(p) != set[p] {
					c.Failf("beyond32-contains", "Bitmap.Contains(%d) = %v, members %v", p, b.Contains(p), want)
					return
				}
			}
			var got []uint
			b.Range(func(x uint) bool { got = append(got, x); return true })
			if !same("Bitmap.Range", got) {
				return
			}
			got = nil
			for it := b.Iter(); it.Next(); {
				got = append(got, it.Value())
			}
			same("Bitmap.Iter", got)
		})
		if !ok || c.Failed() {
			return
		}
		c.Add("beyond32_Bitmap", 1)
	}
	c.Distinct(ev.Mix(uint64(want[0]), uint64(want[len(want)-1]), uint64(c.Index)))
	if c.WantSample() {
		c.Sample(fmt.Sprintf("beyond32: members %v (512 MiB word array): Len, Contains, Range, All / Iter agree with the sorted member list", want))
	}
}
