package main

import (
	"fmt"
	"iter"
	"runtime/debug"
	"sort"
	"strings"

	"github.com/welllog/golib/dsz"
	"github.com/welllog/golib/setz"

	"verif/ev"
)

// kind of object under test.
type kind int

const (
	kBits   kind = iota // setz.Bits   (cached cardinality)
	kBitmap             // setz.Bitmap (counted cardinality)
	kDsz                // dsz.Bits    (deprecated; Add/Remove return nothing, Iter only)
)

var kindName = [...]string{"Bits", "Bitmap", "dszBits"}

const (
	opDiff = iota
	opIntersect
	opMerge
)

var opName = [...]string{"Diff", "Intersect", "Merge"}
var opCtx = [...]string{"diff", "intersect", "merge"}

// subject = one golib object + its own mathematical-set model.
type subject struct {
	c       *ev.Case
	name    string
	k       kind
	sb      *setz.Bits
	bm      *setz.Bitmap
	db      *dsz.Bits
	m       map[uint]struct{}
	sorted  []uint
	dirty   bool
	hi      uint // highest value ever added / grown to / merged in (sweep bound)
	muts    int  // mutating operations applied
	fresh   bool // mutated (or used as operand) since its last full verification
	enums   int
	q       *quietState
	keptAll iter.Seq[uint]

	// switches of the later engines (windows, big, reentrant); all off in the first four
	shuffle   bool   // the order of the observers in verify / enumerate / add / remove is drawn per call
	sparse    bool   // Contains is compared at the members, their neighbours, word and capacity edges and random values instead of at every value
	estWords  int    // word count as far as the harness can tell without asking (coverage counters only)
	firstEnum string // the enumeration that ran first in the last enumerate call
	unobs     int    // mutating operations since the last observing call on this object

	// coverage of "leave the other operand untouched" beyond the call itself: after a Merge
	// that made the receiver longer, word index+1 from which its words came from the operand
	// (tookLo, on the receiver) / went to a receiver (gaveLo, on the operand); 0 = none
	tookLo, gaveLo int
	isClone        bool // the object is the result of a Clone call
	afterBulk      bool // the last mutating operation on this object was a bulk operation (as receiver)
}

// observed is called by every observing call that is really made (not deferred).
func (s *subject) observed(by string) {
	if s.unobs >= 2 && s.shuffle {
		s.c.Add("first_observer_after_unobserved_ops_"+by, 1)
	}
	s.unobs = 0
}

// quietState: while left > 0 the harness makes no observing call (Len, Contains,
// Iter, ...) on any object; only the operations themselves run and their own
// results are compared. Observation is not free of side effects in every
// implementation (a lazily recomputed cardinality, say), so sequences in which
// several operations pass unobserved are part of the quantifier.
//
// strict: not even Cap is called inside the window (the coverage counters that
// need a word count use the harness's own estimate meanwhile).
type quietState struct {
	left   int
	strict bool
}

func (s *subject) deferred() bool {
	if s.q != nil && s.q.left > 0 {
		s.fresh = true
		s.c.Add("observations_deferred", 1)
		return true
	}
	return false
}

func newSubject(c *ev.Case, k kind, name string) *subject {
	s := &subject{c: c, name: name, k: k, m: map[uint]struct{}{}, fresh: true}
	switch k {
	case kBits:
		s.sb = &setz.Bits{}
	case kBitmap:
		s.bm = &setz.Bitmap{}
	default:
		s.db = &dsz.Bits{}
	}
	return s
}

var guardNames = func() map[string]*[3]string {
	t := map[string]*[3]string{}
	for _, m := range []string{"Add", "Remove", "Contains", "Len", "Cap", "Grow", "Iter", "Range", "All", "Clone", "Diff", "Intersect", "Merge"} {
		t[m] = &[3]string{kindName[kBits] + "." + m, kindName[kBitmap] + "." + m, kindName[kDsz] + "." + m}
	}
	return t
}()

func (s *subject) gn(method string) string { return guardNames[method][s.k] }

// callKeys: coverage counter "calls_<Kind>.<Method>" for every guarded golib call, so that
// the floors can demand that every method the statement names is really called on every
// type that has it.
var callKeys = func() map[string]*[3]string {
	t := map[string]*[3]string{}
	for m, n := range guardNames {
		t[m] = &[3]string{"calls_" + n[0], "calls_" + n[1], "calls_" + n[2]}
	}
	return t
}()

// methodsOf lists, per kind, the methods of the statement that the type has.
var methodsOf = [3][]string{
	kBits:   {"Add", "Remove", "Contains", "Len", "Cap", "Grow", "Iter", "Range", "All", "Clone", "Diff", "Intersect", "Merge"},
	kBitmap: {"Add", "Remove", "Contains", "Len", "Cap", "Grow", "Iter", "Range", "Clone", "Diff", "Intersect", "Merge"},
	kDsz:    {"Add", "Remove", "Contains", "Len", "Cap", "Grow", "Iter"},
}

var golibFiles = []string{ev.GolibPath, "/setz/bits.go", "/setz/iter.go", "/dsz/bits.go"}

// guard wraps one or more golib calls: a panic raised while a golib frame is on
// the stack is a violation "panic/<Kind>.<Method>". c.Guard recognises golib
// frames by import path; a golib closure inlined into the harness (the body of
// the iter.Seq returned by All) carries only its file name, so those are
// recognised here by file.
func (s *subject) guard(method string, fn func()) bool {
	name := s.gn(method)
	s.c.Add(callKeys[method][s.k], 1)
	own := false
	ok := s.c.Guard(name, func() {
		defer func() {
			if p := recover(); p != nil {
				st := string(debug.Stack())
				for _, f := range golibFiles {
					if strings.Contains(st, f) {
						lines := strings.Split(st, "\n")
						if len(lines) > 30 {
							lines = lines[:30]
						}
						s.c.Failf("panic/"+name, "%s: %s panicked: %v\n%s", s.name, name, p, strings.Join(lines, "\n"))
						own = true
						return
					}
				}
				panic(p)
			}
		}()
		fn()
	})
	return ok && !own
}

func (s *subject) fail(what, ctx, format string, a ...any) {
	sig := kindName[s.k] + "/" + what
	if ctx != "" {
		sig += "@" + ctx
	}
	s.c.Failf(sig, "%s: %s [model members: %s]", s.name, fmt.Sprintf(format, a...), fmtSet(s.list()))
}

func fmtSet(l []uint) string {
	if len(l) <= 40 {
		return fmt.Sprint(l)
	}
	return fmt.Sprintf("%v ... (%d members) ... %v", l[:20], len(l), l[len(l)-10:])
}

func (s *subject) has(x uint) bool { _, ok := s.m[x]; return ok }

func (s *subject) list() []uint {
	if s.dirty || s.sorted == nil {
		s.sorted = s.sorted[:0]
		for x := range s.m {
			s.sorted = append(s.sorted, x)
		}
		sort.Slice(s.sorted, func(i, j int) bool { return s.sorted[i] < s.sorted[j] })
		if s.sorted == nil {
			s.sorted = []uint{}
		}
		s.dirty = false
	}
	if len(s.sorted) != len(s.m) {
		s.c.Run().HarnessFailure(fmt.Sprintf("%s: sorted-member cache has %d entries, model map %d", s.name, len(s.sorted), len(s.m)))
	}
	return s.sorted
}

// cacheInsert / cacheDelete keep the sorted member list (a cache of the map, which
// is the model) up to date for single-element changes.
func (s *subject) cacheInsert(x uint) {
	if s.dirty || s.sorted == nil {
		s.dirty = true
		return
	}
	i := sort.Search(len(s.sorted), func(i int) bool { return s.sorted[i] >= x })
	s.sorted = append(s.sorted, 0)
	copy(s.sorted[i+1:], s.sorted[i:])
	s.sorted[i] = x
}

func (s *subject) cacheDelete(x uint) {
	if s.dirty || s.sorted == nil {
		s.dirty = true
		return
	}
	i := sort.Search(len(s.sorted), func(i int) bool { return s.sorted[i] >= x })
	if i >= len(s.sorted) || s.sorted[i] != x {
		s.dirty = true
		return
	}
	s.sorted = append(s.sorted[:i], s.sorted[i+1:]...)
}

func (s *subject) setModel(m map[uint]struct{}) {
	s.m = m
	s.dirty = true
	for x := range m {
		if x > s.hi {
			s.hi = x
		}
	}
}

func copyModel(m map[uint]struct{}) map[uint]struct{} {
	n := make(map[uint]struct{}, len(m))
	for x := range m {
		n[x] = struct{}{}
	}
	return n
}

// ---- raw golib calls (each inside Guard) ----

// capOf returns Cap(); used only for coverage counters and logs (the statement
// promises nothing about its value beyond "calling it changes nothing").
func (s *subject) capOf() (int, bool) {
	var n int
	ok := s.guard("Cap", func() {
		switch s.k {
		case kBits:
			n = s.sb.Cap()
		case kBitmap:
			n = s.bm.Cap()
		default:
			n = s.db.Cap()
		}
	})
	return n, ok
}

func (s *subject) words() int {
	if s.q != nil && s.q.left > 0 && s.q.strict {
		return s.estWords
	}
	n, ok := s.capOf()
	if !ok || n < 0 {
		return 0
	}
	s.estWords = n / 64
	return n / 64
}

func (s *subject) estAtLeast(words int) {
	if words > s.estWords {
		s.estWords = words
	}
}

func (s *subject) rawContains(x uint) bool {
	switch s.k {
	case kBits:
		return s.sb.Contains(x)
	case kBitmap:
		return s.bm.Contains(x)
	default:
		return s.db.Contains(x)
	}
}

func (s *subject) rawLen() int {
	switch s.k {
	case kBits:
		return s.sb.Len()
	case kBitmap:
		return s.bm.Len()
	default:
		return s.db.Len()
	}
}

func (s *subject) lenOK(ctx string) bool {
	if s.deferred() {
		return true
	}
	var n int
	s.observed("len")
	if !s.guard("Len", func() { n = s.rawLen() }) {
		return false
	}
	if n != len(s.m) {
		s.c.Logf("%s.Len() -> %d (model %d)", s.name, n, len(s.m))
		s.fail("len", ctx, "Len() = %d, the set has %d members", n, len(s.m))
		return false
	}
	return true
}

// ---- element operations ----

// noteAlias counts the element operations that would show storage shared between a Merge
// receiver and its (longer) operand: a change of membership in a word the receiver got from
// the operand, made on either side. Every live object is re-observed after the operation.
func (s *subject) noteAlias(x uint) {
	if s.afterBulk {
		s.afterBulk = false
		s.c.Add("membership_changed_by_element_operation_right_after_bulk_operation_"+kindName[s.k], 1)
	}
	if s.tookLo > 0 && int(x>>6) >= s.tookLo-1 {
		s.c.Add("merge_receiver_edited_in_words_taken_from_operand", 1)
		s.tookLo = 0
	}
	if s.gaveLo > 0 && int(x>>6) >= s.gaveLo-1 {
		s.c.Add("merge_operand_edited_in_words_given_to_receiver", 1)
		s.gaveLo = 0
	}
}

func (s *subject) add(x uint) bool {
	want := !s.has(x)
	words := s.words()
	if s.c.Failed() {
		return false
	}
	got := want
	if !s.guard("Add", func() {
		switch s.k {
		case kBits:
			got = s.sb.Add(x)
		case kBitmap:
			got = s.bm.Add(x)
		default:
			s.db.Add(x) // no result
		}
	}) {
		return false
	}
	s.muts++
	s.unobs++
	s.fresh = true
	s.estAtLeast(int(x>>6) + 1)
	if want {
		s.m[x] = struct{}{}
		s.cacheInsert(x)
		s.noteAlias(x)
		s.c.Add("add_new", 1)
		if int(x>>6) >= words {
			s.c.Add("add_beyond_capacity", 1)
		} else {
			s.c.Add("add_new_within_capacity", 1)
		}
		if x&63 == 63 || x&63 == 0 {
			s.c.Add("add_at_word_edge", 1)
		}
	} else {
		s.c.Add("add_duplicate", 1)
	}
	if x > s.hi {
		s.hi = x
	}
	if s.k == kDsz {
		s.c.Logf("%s.Add(%d)", s.name, x)
	} else {
		s.c.Logf("%s.Add(%d) -> %v", s.name, x, got)
	}
	if got != want {
		s.fail("add-result", "", "Add(%d) returned %v, membership changed: %v", x, got, want)
		return false
	}
	if s.shuffle && s.c.Rng.Bool() {
		return s.contains(x) && s.lenOK("add")
	}
	return s.lenOK("add") && s.contains(x)
}

// addHuge: Add of a value whose storage cannot possibly be allocated. Whether
// the call panics is not the property's business (the caller recovers); what
// matters is the state afterwards: if Add did not complete, the set is what it
// was, with Len still equal to the cardinality.
func (s *subject) addHuge(x uint) bool {
	if s.c.Failed() {
		return false
	}
	panicked := false
	func() {
		defer func() {
			if recover() != nil {
				panicked = true
			}
		}()
		switch s.k {
		case kBits:
			s.sb.Add(x)
		case kBitmap:
			s.bm.Add(x)
		default:
			s.db.Add(x)
		}
	}()
	s.c.Logf("%s.Add(%d) (unallocatable) -> panicked=%v", s.name, x, panicked)
	if !panicked {
		s.m[x] = struct{}{}
		s.cacheInsert(x)
	}
	s.c.Add("add_unallocatable_value_recovered", 1)
	s.fresh = true
	q := s.q
	s.q = nil // verify right now, whatever the quiet window says
	ok := s.lenOK("add-unallocatable") && s.enumerate("add-unallocatable")
	s.q = q
	return ok
}

func (s *subject) remove(x uint) bool {
	want := s.has(x)
	words := s.words()
	if s.c.Failed() {
		return false
	}
	got := want
	if !s.guard("Remove", func() {
		switch s.k {
		case kBits:
			got = s.sb.Remove(x)
		case kBitmap:
			got = s.bm.Remove(x)
		default:
			s.db.Remove(x)
		}
	}) {
		return false
	}
	s.muts++
	s.unobs++
	s.fresh = true
	if want {
		delete(s.m, x)
		s.cacheDelete(x)
		s.noteAlias(x)
		s.c.Add("remove_present", 1)
	} else {
		s.c.Add("remove_absent", 1)
		if int(x>>6) >= words {
			s.c.Add("remove_beyond_capacity", 1)
			if int(x>>6) == words {
				s.c.Add("remove_first_word_beyond_capacity", 1)
			}
		} else {
			s.c.Add("remove_absent_within_capacity", 1)
		}
	}
	if s.k == kDsz {
		s.c.Logf("%s.Remove(%d)", s.name, x)
	} else {
		s.c.Logf("%s.Remove(%d) -> %v", s.name, x, got)
	}
	if got != want {
		s.fail("remove-result", "", "Remove(%d) returned %v, membership changed: %v", x, got, want)
		return false
	}
	if s.shuffle && s.c.Rng.Bool() {
		return s.contains(x) && s.lenOK("remove")
	}
	return s.lenOK("remove") && s.contains(x)
}

func (s *subject) contains(x uint) bool {
	if s.deferred() {
		return true
	}
	want := s.has(x)
	var got bool
	s.observed("contains")
	if !s.guard("Contains", func() { got = s.rawContains(x) }) {
		s.c.Logf("%s.Contains(%d) panicked", s.name, x)
		return false
	}
	if got != want {
		s.c.Logf("%s.Contains(%d) -> %v", s.name, x, got)
		s.fail("contains", "", "Contains(%d) returned %v, member: %v", x, got, want)
		return false
	}
	return true
}

// probe is an explicit (logged, counted) Contains query.
func (s *subject) probe(x uint) bool {
	words := s.words()
	if s.c.Failed() {
		return false
	}
	s.c.Add("contains_probes", 1)
	if int(x>>6) >= words {
		s.c.Add("contains_beyond_capacity", 1)
		if int(x>>6) == words {
			s.c.Add("contains_first_word_beyond_capacity", 1)
		}
	}
	s.c.Logf("%s.Contains(%d) expect %v", s.name, x, s.has(x))
	return s.contains(x)
}

func (s *subject) grow(n uint) bool {
	words := s.words()
	if s.c.Failed() {
		return false
	}
	if !s.guard("Grow", func() {
		switch s.k {
		case kBits:
			s.sb.Grow(n)
		case kBitmap:
			s.bm.Grow(n)
		default:
			s.db.Grow(n)
		}
	}) {
		return false
	}
	if n > s.hi {
		s.hi = n
	}
	s.muts++
	s.unobs++
	s.fresh = true
	s.estAtLeast(int(n>>6) + 1)
	after := s.words()
	s.c.Logf("%s.Grow(%d): Cap %d -> %d", s.name, n, words*64, after*64)
	if after > words {
		s.c.Add("grow_extended", 1)
		if len(s.m) > 0 {
			s.c.Add("grow_extended_nonempty", 1)
		}
	} else {
		s.c.Add("grow_noop", 1)
	}
	return s.verify("grow")
}

func (s *subject) capCall() bool {
	n, ok := s.capOf()
	if !ok {
		return false
	}
	s.c.Logf("%s.Cap() -> %d", s.name, n)
	s.c.Add("cap_calls", 1)
	return s.verify("cap")
}

// ---- whole-set observation ----

// sweep compares Contains(x) with the model for every x in 0..hi+130.
func (s *subject) sweep(ctx string) bool {
	s.observed("contains")
	if s.sparse {
		return s.sweepSparse(ctx)
	}
	want := s.list()
	lim := s.hi + 130
	p := 0
	bad, badGot := uint(0), false
	found := false
	if !s.guard("Contains", func() {
		for x := uint(0); x <= lim; x++ {
			w := p < len(want) && want[p] == x
			if w {
				p++
			}
			if g := s.rawContains(x); g != w {
				bad, badGot, found = x, g, true
				return
			}
		}
	}) {
		return false
	}
	if found {
		s.c.Logf("%s.Contains(%d) -> %v", s.name, bad, badGot)
		s.fail("contains", ctx, "Contains(%d) returned %v, member: %v", bad, badGot, !badGot)
		return false
	}
	return true
}

// sweepSparse is the Contains comparison for sets too large to ask about every value:
// every member, both neighbours of every member, the edges of every word that holds a
// member and of its neighbour words, the capacity edge, the powers of two and their
// neighbours, and random values.
func (s *subject) sweepSparse(ctx string) bool {
	want := s.list()
	words := uint(s.words())
	if s.c.Failed() {
		return false
	}
	rng := s.c.Rng
	probes := make([]uint, 0, 7*len(want)+700)
	for _, x := range want {
		lo, hi := x&^63, x|63
		probes = append(probes, x, x+1, lo, hi, hi+1)
		if x > 0 {
			probes = append(probes, x-1)
		}
		if lo > 0 {
			probes = append(probes, lo-1)
		}
	}
	for _, d := range []uint{0, 1, 63, 64, 65, 1023, 1024} {
		probes = append(probes, words*64+d)
		if words*64 > d {
			probes = append(probes, words*64-d-1)
		}
	}
	for k := uint(6); k < 26; k++ {
		probes = append(probes, 1<<k-1, 1<<k, 1<<k+1)
	}
	for i := 0; i < 400; i++ {
		probes = append(probes, uint(rng.Intn(int(s.hi)+130)))
	}
	bad, badGot, found := uint(0), false, false
	if !s.guard("Contains", func() {
		for _, x := range probes {
			if g := s.rawContains(x); g != s.has(x) {
				bad, badGot, found = x, g, true
				return
			}
		}
	}) {
		return false
	}
	s.c.Add("sparse_contains_probes", int64(len(probes)))
	if found {
		s.c.Logf("%s.Contains(%d) -> %v", s.name, bad, badGot)
		s.fail("contains", ctx, "Contains(%d) returned %v, member: %v", bad, badGot, !badGot)
		return false
	}
	return true
}

func firstDiff(got, want []uint) string {
	n := len(got)
	if len(want) < n {
		n = len(want)
	}
	for i := 0; i < n; i++ {
		if got[i] != want[i] {
			return fmt.Sprintf("first difference at position %d: got %d, want %d", i, got[i], want[i])
		}
	}
	if len(got) < len(want) {
		return fmt.Sprintf("enumeration stopped after %d of %d members (next missing: %d)", len(got), len(want), want[len(got)])
	}
	if len(got) > len(want) {
		return fmt.Sprintf("enumeration produced more than the %d members (extra: %d)", len(want), got[len(want)])
	}
	return ""
}

// newIter returns Next/Value of a fresh iterator (calls must be Guarded by the caller).
func (s *subject) newIter() (next func() bool, value func() uint) {
	switch s.k {
	case kBits:
		it := s.sb.Iter()
		return it.Next, it.Value
	case kBitmap:
		it := s.bm.Iter()
		return it.Next, it.Value
	default:
		it := s.db.Iter()
		return it.Next, it.Value
	}
}

func (s *subject) noteShape(want []uint) {
	c := s.c
	if len(want) == 0 {
		c.Add("enum_empty_set", 1)
		if s.words() > 0 {
			c.Add("enum_empty_set_with_capacity", 1)
		}
		return
	}
	if want[0] == 0 {
		c.Add("enum_member_0", 1)
	}
	last := want[len(want)-1]
	if w := s.words(); w > int(last>>6)+1 {
		c.Add("enum_trailing_empty_words", 1)
	}
	if last>>6 >= 2 {
		c.Add("enum_three_or_more_words", 1)
	}
	if want[0]>>6 >= 1 {
		c.Add("enum_leading_empty_word", 1)
	}
	var cross, adj, skip, gap16 int64
	if want[0]>>6 >= 16 {
		gap16++
	}
	for i := 1; i < len(want); i++ {
		a, b := want[i-1], want[i]
		if a>>6 != b>>6 {
			cross++
			if b>>6 >= a>>6+16 {
				gap16++
				if b>>6 == a>>6+16 {
					c.Add("enum_members_exactly_16_words_apart", 1)
				}
			}
			if a&63 == 63 && b == a+1 {
				adj++
			}
			if b>>6 > a>>6+1 {
				skip++
			}
		}
	}
	if cross > 0 {
		c.Add("enum_word_crossings", cross)
	}
	if adj > 0 {
		c.Add("enum_63_to_64_adjacent", adj)
	}
	if skip > 0 {
		c.Add("enum_skips_empty_word", skip)
	}
	if gap16 > 0 {
		c.Add("enum_gap_of_16_or_more_empty_words", gap16)
	}
}

// enumerate compares Iter (all kinds), Range (Bits, Bitmap) and All (Bits) with the sorted members.
func (s *subject) enumerate(ctx string) bool {
	want := s.list()
	limit := len(want) + 3
	c := s.c
	s.enums++
	s.noteShape(want)
	if c.Failed() {
		return false
	}
	c.Max("max_members_enumerated", int64(len(want)))
	parts := [3]int{0, 1, 2}
	n := 3
	if s.k == kDsz {
		n = 1
	} else if s.k == kBitmap {
		n = 2
	}
	if s.shuffle {
		for i := n - 1; i > 0; i-- {
			j := c.Rng.Intn(i + 1)
			parts[i], parts[j] = parts[j], parts[i]
		}
	}
	s.firstEnum = [...]string{"iter", "range", "all"}[parts[0]]
	for _, p := range parts[:n] {
		ok := false
		switch p {
		case 0:
			ok = s.enumIter(ctx, want, limit)
		case 1:
			ok = s.enumRange(ctx, want, limit)
		default:
			ok = s.enumAll(ctx, want, limit)
		}
		if !ok {
			return false
		}
	}
	return true
}

// enumIter: full sequence, Value() asked twice, Next() after the end stays false.
func (s *subject) enumIter(ctx string, want []uint, limit int) bool {
	c := s.c
	var got []uint
	unstable := -1
	afterEnd := false
	s.observed("iter")
	if !s.guard("Iter", func() {
		next, value := s.newIter()
		for next() {
			v := value()
			if v2 := value(); v2 != v && unstable < 0 {
				unstable = len(got)
			}
			got = append(got, v)
			if len(got) > limit {
				return
			}
		}
		if next() || next() {
			afterEnd = true
		}
	}) {
		return false
	}
	c.Add("enumerations_iter", 1)
	c.Add("enumerated_values", int64(len(want)))
	if d := firstDiff(got, want); d != "" {
		c.Logf("%s.Iter() -> %s", s.name, fmtSet(got))
		s.fail("iter-sequence", ctx, "Iter(): %s", d)
		return false
	}
	if unstable >= 0 {
		s.fail("iter-value-unstable", ctx, "Iter(): Value() called twice after the same Next() gave two different values at position %d", unstable)
		return false
	}
	if afterEnd {
		s.fail("iter-after-end", ctx, "Iter(): Next() returned true again after it had returned false (all %d members already delivered)", len(want))
		return false
	}
	return true
}

func (s *subject) enumRange(ctx string, want []uint, limit int) bool {
	c := s.c
	var got []uint
	s.observed("range")
	if !s.guard("Range", func() {
		fn := func(x uint) bool {
			got = append(got, x)
			return len(got) <= limit
		}
		if s.k == kBits {
			s.sb.Range(fn)
		} else {
			s.bm.Range(fn)
		}
	}) {
		return false
	}
	c.Add("enumerations_range", 1)
	if d := firstDiff(got, want); d != "" {
		c.Logf("%s.Range() -> %s", s.name, fmtSet(got))
		s.fail("range-sequence", ctx, "Range(): %s", d)
		return false
	}
	return true
}

func (s *subject) enumAll(ctx string, want []uint, limit int) bool {
	c := s.c
	var got []uint
	s.observed("all")
	fresh := func() bool {
		got = got[:0]
		if !s.guard("All", func() {
			for x := range s.sb.All() {
				got = append(got, x)
				if len(got) > limit {
					break
				}
			}
		}) {
			return false
		}
		c.Add("enumerations_all", 1)
		if d := firstDiff(got, want); d != "" {
			c.Logf("%s.All() -> %s", s.name, fmtSet(got))
			s.fail("all-sequence", ctx, "All(): %s", d)
			return false
		}
		return true
	}
	// an All() sequence obtained at an earlier enumeration, run now, twice: it must
	// enumerate the members of now, both times
	kept := func() bool {
		if s.keptAll == nil {
			return true
		}
		for pass := 0; pass < 2; pass++ {
			got = got[:0]
			if !s.guard("All", func() {
				s.keptAll(func(x uint) bool {
					got = append(got, x)
					return len(got) <= limit
				})
			}) {
				return false
			}
			if d := firstDiff(got, want); d != "" {
				s.fail("all-kept-sequence", ctx, "an All() sequence obtained earlier and run now (pass %d): %s", pass+1, d)
				return false
			}
		}
		c.Add("kept_all_sequences_rerun", 1)
		return true
	}
	if s.shuffle && s.keptAll != nil && c.Rng.Bool() {
		c.Add("kept_all_sequence_run_before_any_fresh_one", 1)
		if !kept() || !fresh() {
			return false
		}
	} else if !fresh() || !kept() {
		return false
	}
	if s.keptAll == nil || c.Rng.Chance(1, 3) {
		s.guard("All", func() { s.keptAll = s.sb.All() })
	}
	return true
}

// deepEnumerate: two iterators over the same set advanced in an interleaved
// schedule with read-only calls in between (each must deliver every member),
// and early termination of Range / All after k elements.
func (s *subject) deepEnumerate(ctx string) bool {
	c := s.c
	rng := c.Rng
	want := s.list()
	limit := len(want) + 3
	s.observed("iter")
	var g1, g2 []uint
	if !s.guard("Iter", func() {
		n1, v1 := s.newIter()
		n2, v2 := s.newIter()
		d1, d2 := false, false
		for steps := 0; (!d1 || !d2) && steps < 2*limit+8; steps++ {
			first := rng.Bool()
			if d1 {
				first = false
			} else if d2 {
				first = true
			}
			if first {
				if n1() {
					g1 = append(g1, v1())
				} else {
					d1 = true
				}
			} else {
				if n2() {
					g2 = append(g2, v2())
				} else {
					d2 = true
				}
			}
			if rng.Chance(1, 4) { // read-only calls between two steps of a paused iterator
				_ = s.rawContains(uint(rng.Intn(200)))
				switch s.k {
				case kBits:
					_, _ = s.sb.Len(), s.sb.Cap()
				case kBitmap:
					_, _ = s.bm.Len(), s.bm.Cap()
				default:
					_, _ = s.db.Len(), s.db.Cap()
				}
			}
		}
	}) {
		return false
	}
	c.Add("interleaved_iterator_pairs", 1)
	c.Logf("  %s: two interleaved iterators -> %d and %d values", s.name, len(g1), len(g2))
	for i, g := range [][]uint{g1, g2} {
		if d := firstDiff(g, want); d != "" {
			c.Logf("%s: interleaved iterator %d -> %s", s.name, i+1, fmtSet(g))
			s.fail("iter-interleaved", ctx, "two iterators stepped alternately over the same unchanged set: iterator %d: %s", i+1, d)
			return false
		}
	}
	if s.k == kDsz || len(want) == 0 {
		return true
	}
	k := 1 + rng.Intn(len(want))
	if rng.Chance(1, 3) {
		// stop exactly at the last member of a word, if there is one
		for i, x := range want {
			if x&63 == 63 || (i+1 < len(want) && want[i+1]>>6 != x>>6) {
				k = i + 1
				c.Add("early_stop_at_word_end", 1)
				break
			}
		}
	}
	var seen []uint
	c.Logf("  %s: Range / All stopped after %d of %d members", s.name, k, len(want))
	if !s.guard("Range", func() {
		fn := func(x uint) bool {
			seen = append(seen, x)
			return len(seen) < k && len(seen) <= limit
		}
		if s.k == kBits {
			s.sb.Range(fn)
		} else {
			s.bm.Range(fn)
		}
	}) {
		return false
	}
	c.Add("early_stops", 1)
	c.Add("early_stops_Range_"+kindName[s.k], 1)
	if len(seen) != k {
		s.fail("range-stop", ctx, "Range with a callback returning false at call %d made %d calls", k, len(seen))
		return false
	}
	if d := firstDiff(seen, want[:k]); d != "" {
		s.fail("range-sequence", ctx, "Range() stopped after %d calls: %s", k, d)
		return false
	}
	if s.k != kBits {
		return true
	}
	seen = seen[:0]
	if !s.guard("All", func() {
		for x := range s.sb.All() {
			seen = append(seen, x)
			if len(seen) >= k {
				break
			}
		}
	}) {
		return false
	}
	c.Add("early_stops", 1)
	c.Add("early_stops_All_Bits", 1)
	if len(seen) != k {
		s.fail("all-stop", ctx, "All with a break at element %d yielded %d elements", k, len(seen))
		return false
	}
	if d := firstDiff(seen, want[:k]); d != "" {
		s.fail("all-sequence", ctx, "All() stopped after %d elements: %s", k, d)
		return false
	}
	return true
}

// verify = every observation the statement speaks about.
func (s *subject) verify(ctx string) bool {
	if s.c.Failed() {
		return false
	}
	if s.deferred() {
		return true
	}
	s.fresh = false
	s.c.Logf("  verify %s: Len, Iter/Range/All sequences, Contains(0..%d) against %d members", s.name, s.hi+130, len(s.m))
	if !s.shuffle {
		return s.lenOK(ctx) && s.enumerate(ctx) && s.sweep(ctx)
	}
	order := [3]int{0, 1, 2}
	for i := 2; i > 0; i-- {
		j := s.c.Rng.Intn(i + 1)
		order[i], order[j] = order[j], order[i]
	}
	for _, o := range order {
		ok := false
		switch o {
		case 0:
			ok = s.lenOK(ctx)
		case 1:
			ok = s.enumerate(ctx)
		default:
			ok = s.sweep(ctx)
		}
		if !ok {
			return false
		}
	}
	return true
}

// verifyLite is the check for objects that no operation was applied to since
// their last full verification (they must not have changed): Len and the
// complete Iter sequence.
func (s *subject) verifyLite(ctx string) bool {
	c := s.c
	if c.Failed() {
		return false
	}
	if s.deferred() {
		return true
	}
	if !s.lenOK(ctx) {
		return false
	}
	want := s.list()
	limit := len(want) + 3
	var got []uint
	if !s.guard("Iter", func() {
		next, value := s.newIter()
		for next() {
			got = append(got, value())
			if len(got) > limit {
				return
			}
		}
	}) {
		return false
	}
	c.Add("bystander_checks", 1)
	if d := firstDiff(got, want); d != "" {
		c.Logf("%s.Iter() -> %s", s.name, fmtSet(got))
		s.fail("iter-sequence", ctx, "Iter() of an object no operation was applied to: %s", d)
		return false
	}
	return true
}

// ---- bulk operations ----

// bulk applies s.Diff/Intersect/Merge(o). Allowed kinds: Bits<-Bits, Bitmap<-Bitmap,
// Bitmap<-Bits (through the exported embedded Bitmap of a Bits).
func (s *subject) bulk(op int, o *subject) bool {
	c := s.c
	sw, ow := s.words(), o.words()
	if c.Failed() {
		return false
	}
	var call func()
	switch {
	case s.k == kBits && o.k == kBits:
		call = func() {
			switch op {
			case opDiff:
				s.sb.Diff(*o.sb)
			case opIntersect:
				s.sb.Intersect(*o.sb)
			default:
				s.sb.Merge(*o.sb)
			}
		}
	case s.k == kBitmap && (o.k == kBitmap || o.k == kBits):
		var other *setz.Bitmap
		if o.k == kBitmap {
			other = o.bm
		} else {
			other = &o.sb.Bitmap
			c.Add("bulk_bitmap_with_embedded_bitmap_of_bits", 1)
		}
		call = func() {
			switch op {
			case opDiff:
				s.bm.Diff(*other)
			case opIntersect:
				s.bm.Intersect(*other)
			default:
				s.bm.Merge(*other)
			}
		}
	default:
		c.Run().HarnessFailure(fmt.Sprintf("bulk: unsupported kinds %s <- %s", kindName[s.k], kindName[o.k]))
		return false
	}
	// set algebra on the models
	before := len(s.m)
	n := map[uint]struct{}{}
	tailS, tailO := false, false // members beyond the other side's capacity
	for x := range s.m {
		if int(x>>6) >= ow {
			tailS = true
		}
		_, in := o.m[x]
		switch op {
		case opDiff:
			if !in {
				n[x] = struct{}{}
			}
		case opIntersect:
			if in {
				n[x] = struct{}{}
			}
		default:
			n[x] = struct{}{}
		}
	}
	newInCommon := false // a big, longer Merge operand brings new members into words the receiver already has
	for x := range o.m {
		if int(x>>6) >= sw {
			tailO = true
		} else if op == opMerge && ow >= 32 && !newInCommon && !s.has(x) {
			newInCommon = true
		}
		if op == opMerge {
			n[x] = struct{}{}
		}
	}
	if !s.guard(opName[op], call) {
		c.Logf("%s.%s(%s) panicked", s.name, opName[op], o.name)
		return false
	}
	s.muts++
	s.unobs++
	s.fresh = true
	if op == opMerge {
		s.estAtLeast(o.estWords)
	}
	if newInCommon && sw < ow {
		c.Add("bulk_merge_longer_operand_of_32_or_more_words_adds_to_common_words", 1)
	}
	if sw >= 16 || ow >= 16 {
		c.Add("bulk_"+opCtx[op]+"_with_16_or_more_words", 1)
	}
	self := s == o
	s.afterBulk = true
	if op == opMerge && ow > sw && !self {
		s.tookLo, o.gaveLo = sw+1, sw+1
	}
	if sw == 0 {
		c.Add("bulk_"+opCtx[op]+"_receiver_without_words", 1)
	}
	if ow == 0 {
		c.Add("bulk_"+opCtx[op]+"_operand_without_words", 1)
	}
	s.setModel(n)
	if o.hi > s.hi {
		s.hi = o.hi
	}
	c.Logf("%s.%s(%s): receiver words %d, operand words %d, |receiver| %d -> %d, |operand| %d", s.name, opName[op], o.name, sw, ow, before, len(n), len(o.m))
	rel := "equal"
	if ow < sw {
		rel = "shorter"
	} else if ow > sw {
		rel = "longer"
	}
	if self {
		rel = "self"
	}
	c.Add("bulk_ops", 1)
	c.Add("bulk_"+opCtx[op]+"_operand_"+rel, 1)
	c.Add("bulk_"+kindName[s.k], 1)
	if len(n) != before {
		c.Add("bulk_changed_cardinality", 1)
	}
	if tailS && ow < sw {
		c.Add("bulk_"+opCtx[op]+"_receiver_members_beyond_operand", 1)
	}
	if tailO && ow > sw {
		c.Add("bulk_"+opCtx[op]+"_operand_members_beyond_receiver", 1)
	}
	if s.muts > 1 && before > 0 {
		c.Add("bulk_after_element_ops", 1)
	}
	if !s.verify(opCtx[op]) {
		return false
	}
	if !self {
		return o.verify(opCtx[op] + "-operand")
	}
	return true
}

// morphTo brings a dsz.Bits (which has no bulk operations) to the target set by
// element operations, so that it stays in lock-step with the Bits next to it.
func (s *subject) morphTo(target map[uint]struct{}) bool {
	var all []uint
	for x := range target {
		if !s.has(x) {
			all = append(all, x)
		}
	}
	for x := range s.m {
		if _, in := target[x]; !in {
			all = append(all, x)
		}
	}
	sort.Slice(all, func(i, j int) bool { return all[i] < all[j] })
	for _, x := range all {
		if _, in := target[x]; in {
			if !s.add(x) {
				return false
			}
		} else if !s.remove(x) {
			return false
		}
	}
	return true
}

// clone returns a new subject holding s.Clone() (always a setz.Bitmap) with a copy of the model.
func (s *subject) clone(name string) *subject {
	if s.k == kDsz {
		return nil
	}
	var bm setz.Bitmap
	if !s.guard("Clone", func() {
		if s.k == kBits {
			bm = s.sb.Clone()
		} else {
			bm = s.bm.Clone()
		}
	}) {
		return nil
	}
	n := &subject{c: s.c, name: name, k: kBitmap, bm: &bm, m: copyModel(s.m), dirty: true, hi: s.hi, q: s.q,
		shuffle: s.shuffle, sparse: s.sparse, estWords: s.estWords}
	s.c.Logf("%s := %s.Clone() (%d members)", name, s.name, len(s.m))
	s.c.Add("clones", 1)
	s.c.Add("clones_of_"+kindName[s.k], 1)
	n.isClone = true
	if s.isClone {
		s.c.Add("clones_of_a_clone", 1)
	}
	if len(s.m) > 0 {
		s.c.Add("clones_nonempty", 1)
	}
	if !n.verify("clone") || !s.verify("clone-source") {
		return nil
	}
	return n
}
