package main

import (
	"errors"
	"fmt"
	"sort"

	"verif/ev"
)

// Engines added after the review against LESSONS.md. In all three the order of the
// observing calls (Len, Contains, Iter, Range, All, a kept All sequence) is drawn per
// verification instead of being "Len first".
//
//	windows    2-12 operations in a row without any observing call (not even Cap), also
//	           as the very first calls on a zero value, then everything is verified; which
//	           observer is the first one after the window varies.
//	big        sets of 15 ... 65537 words, word counts on both sides of every power of two,
//	           members in the last partial block of 16 words, members exactly 4/8/16/32/64
//	           words apart, long stretches of empty words, operands of very different and of
//	           nearly equal capacity.
//	reentrant  Range / All callbacks (and the code between two Next calls) that call back
//	           into the same object: read-only (Contains, Len, a complete nested
//	           enumeration), editing (Add / Remove below, at and above the cursor, growth),
//	           and panicking (recovered by the caller, object used again).

// ------------------------------------------------------------- windows ----

func windowsCase(c *ev.Case) {
	rng := c.Rng
	w := &world{c: c, shuffle: true}
	w.q.strict = true
	A := w.newGroup("A", universes[rng.Intn(len(universes))])
	B := w.newGroup("B", universes[rng.Intn(len(universes))])
	var clones []*subject
	nclone := 0
	neverObserved := rng.Bool()
	if !neverObserved {
		if !w.verifyAll("zero-value") || !A.prefill(rng) || !B.prefill(rng) || !w.verifyAll("") {
			return
		}
	}
	rounds := rng.Range(2, 6)
	for r := 0; r < rounds; r++ {
		k := rng.Range(2, 12)
		if r == 0 && neverObserved {
			c.Add("windows_opened_on_never_observed_zero_values", 1)
		}
		w.q.left = k + 1 // > 0 during the whole window
		for i := 0; i < k; i++ {
			g, o := A, B
			if rng.Chance(2, 5) {
				g, o = B, A
			}
			ok := true
			switch p := rng.Intn(100); {
			case p < 30:
				ok = g.add(genVal(rng, g.u))
			case p < 50:
				x := genVal(rng, g.u)
				if y, has := g.pickPresent(rng); has && rng.Chance(3, 4) {
					x = y
				}
				ok = g.remove(x)
			case p < 75:
				ok = g.bulkFrom(rng.Intn(3), o, rng.Chance(1, 5))
			case p < 80:
				op := rng.Intn(3)
				w.note('S', uint64(op), uint64(g.name[0]))
				w.bulk++
				ok = g.b.bulk(op, g.b) && g.m.bulk(op, g.m) && g.d.morphTo(g.b.m)
			case p < 88:
				ok = g.grow(genVal(rng, g.u+70))
			case p < 91:
				ok = g.remove(farVals[rng.Intn(len(farVals))])
			case p < 96:
				src := g.b
				if rng.Bool() {
					src = g.m
				}
				nclone++
				cl := src.clone(fmt.Sprintf("clone%d(%s)", nclone, src.name))
				if cl == nil {
					return
				}
				w.note('C', uint64(src.k), uint64(g.name[0]))
				w.subs = append(w.subs, cl)
				clones = append(clones, cl)
				if len(clones) > 2 {
					w.drop(clones[0])
					clones = clones[1:]
				}
				c.Add("clones_made_inside_a_window", 1)
			default:
				if len(clones) == 0 {
					ok = g.add(genVal(rng, g.u))
					break
				}
				// a clone made earlier takes part in the window as receiver or as operand
				cl := clones[rng.Intn(len(clones))]
				op := rng.Intn(3)
				w.note('K', uint64(op))
				w.bulk++
				switch rng.Intn(3) {
				case 0:
					ok = cl.bulk(op, g.m)
				case 1:
					x := genVal(rng, g.u)
					w.note('k', uint64(x))
					if rng.Bool() {
						ok = cl.add(x)
					} else {
						ok = cl.remove(x)
					}
				default:
					ok = g.m.bulk(op, cl)
				}
			}
			if !ok {
				return
			}
		}
		w.q.left = 0
		c.Add("windows_closed", 1)
		c.Add("window_operations", int64(k))
		if k >= 8 {
			c.Add("windows_of_8_or_more_operations", 1)
		}
		if !w.verifyAll("after-unobserved-operations") {
			return
		}
		// now and then a few observed operations between two windows
		for n := rng.Pick(0, 0, 1, 3); n > 0; n-- {
			g := A
			if rng.Bool() {
				g = B
			}
			ok := false
			if rng.Bool() {
				ok = g.add(genVal(rng, g.u))
			} else {
				o := B
				if g == B {
					o = A
				}
				ok = g.bulkFrom(rng.Intn(3), o, false)
			}
			if !ok || !w.verifyAll("") {
				return
			}
		}
	}
	c.Add("windows_cases", 1)
	if w.bulk > 0 && len(A.b.m)+len(B.b.m) > 0 {
		c.Distinct(ev.Mix('w', w.hash))
	}
	if c.WantSample() {
		c.Sample(fmt.Sprintf("windows: universes A<%d B<%d, %d windows of 2-12 operations without any observing call (%d operations, %d bulk), first observer after each window drawn at random; final A=%s B=%s",
			A.u, B.u, rounds, w.ops, w.bulk, fmtSet(A.b.list()), fmtSet(B.b.list())))
	}
}

// ----------------------------------------------------------------- big ----

var (
	bigSmall = []int{15, 16, 17, 24, 31, 32, 33, 47, 48, 49, 63, 64, 65, 96, 127, 128, 129, 255, 256, 257, 511, 512, 513, 1023, 1024, 1025}
	bigMid   = []int{2047, 2048, 2049, 4095, 4096, 4097}
	bigLarge = []int{16383, 16384, 16385, 65535, 65536, 65537}
)

// bigMembers draws the members of a set of W words (values below 64*W).
func bigMembers(rng *ev.Rand, W int, light bool) []uint {
	set := map[uint]struct{}{}
	put := func(x int) {
		if x >= 0 && x < W*64 {
			set[uint(x)] = struct{}{}
		}
	}
	for k := rng.Range(0, 30); k > 0; k-- {
		put(rng.Intn(W * 64))
	}
	// both sides of every block / power-of-two edge, in words and in values
	for t := 8; t <= W+1; t *= 2 {
		if rng.Chance(1, 3) {
			put(t*64 - 1)
		}
		if rng.Chance(1, 3) {
			put(t * 64)
		}
		if rng.Chance(1, 6) {
			put(t*64 + 64 + rng.Intn(64))
		}
	}
	for _, v := range []int{65535, 65536, 65537, 1<<20 - 1, 1 << 20, 1<<22 - 1} {
		if rng.Chance(1, 3) {
			put(v)
		}
	}
	// the last word, the last partial block of 16 (and of 8) words
	if rng.Chance(2, 3) {
		put(W*64 - 1 - rng.Pick(0, 0, 1, 63))
	}
	if rng.Chance(2, 3) {
		put((W&^15)*64 + rng.Intn(64))
		put((W&^7)*64 + rng.Intn(64))
	}
	// members exactly 4/8/16/32/64/128 words apart
	for n := rng.Range(0, 2); n > 0; n-- {
		stride := rng.Pick(4, 8, 16, 16, 16, 32, 64, 128) * 64
		x := rng.Intn(W * 64)
		for k := rng.Range(2, 5); k > 0; k-- {
			put(x)
			x += stride
		}
	}
	// a dense run, complete words
	if rng.Chance(1, 2) {
		lo := rng.Intn(W * 64)
		n := rng.Range(2, 200)
		if light {
			n = rng.Range(2, 40)
		}
		for x := lo; x < lo+n; x++ {
			put(x)
		}
	}
	if !light && rng.Chance(1, 3) {
		wd := rng.Intn(W)
		for n := rng.Range(1, 3); n > 0; n, wd = n-1, wd+rng.Pick(1, 15, 16) {
			for x := wd * 64; x < wd*64+64; x++ {
				put(x)
			}
		}
	}
	out := make([]uint, 0, len(set))
	for x := range set {
		out = append(out, x)
	}
	sort.Slice(out, func(i, j int) bool { return out[i] < out[j] })
	return out
}

func bigClass(rng *ev.Rand, idx int) (int, string) {
	switch {
	case idx%128 == 1:
		return bigLarge[(idx/128)%len(bigLarge)], "large"
	case idx%16 == 0:
		return bigMid[(idx/16)%len(bigMid)], "mid"
	}
	return bigSmall[rng.Intn(len(bigSmall))], "small"
}

// noteBig counts the situations the big engine exists for (word counts through Cap).
func noteBig(s *subject) {
	wds := s.words()
	if wds < 16 {
		return
	}
	c := s.c
	c.Add("big_verifications_of_16_or_more_words", 1)
	if wds%16 != 0 {
		l := s.list()
		if len(l) > 0 && int(l[len(l)-1]>>6) >= wds&^15 {
			c.Add("big_members_in_last_partial_block_of_16_words", 1)
		}
	}
	c.Max("big_max_words", int64(wds))
	if l := s.list(); len(l) > 0 {
		c.Max("big_max_member", int64(l[len(l)-1]))
		if l[len(l)-1] > 65535 {
			c.Add("big_verifications_with_members_above_65535", 1)
		}
	}
}

func bigCase(c *ev.Case) {
	rng := c.Rng
	WA, class := bigClass(rng, c.Index)
	all := append(append([]int{}, bigSmall...), bigMid...)
	WB := WA
	switch rng.Intn(4) {
	case 0: // equal capacities
	case 1: // one step to either side of the same edge
		WB = WA + rng.Pick(-2, -1, 1, 2)
	case 2:
		WB = bigSmall[rng.Intn(len(bigSmall))]
	default:
		WB = all[rng.Intn(len(all))]
		if rng.Chance(1, 4) {
			WB = rng.Range(1, 14) // a small operand against a big one
		}
	}
	light := class == "large"
	w := &world{c: c, shuffle: true}
	w.sparse = WA > 2100 || WB > 2100
	w.q.strict = true
	A := w.newGroup("A", WA*64)
	B := w.newGroup("B", WB*64)
	c.Add("big_cases_"+class, 1)
	build := func(g *group, W int) bool {
		ms := bigMembers(rng, W, light)
		mode := rng.Intn(4)
		quiet := rng.Bool()
		if quiet {
			w.q.left = 1 // the whole construction passes unobserved
		}
		if mode == 0 && !g.grow(uint(W*64-1)) {
			return false
		}
		order := make([]int, len(ms))
		for i := range order {
			order[i] = i
			if mode == 1 {
				order[i] = len(ms) - 1 - i
			}
		}
		if mode == 2 {
			order = rng.Perm(len(ms))
		}
		for _, i := range order {
			if !g.add(ms[i]) {
				return false
			}
		}
		if mode != 0 && rng.Bool() && !g.grow(uint(W*64-1)) {
			return false
		}
		w.q.left = 0
		return true
	}
	if !build(A, WA) || !build(B, WB) || !w.verifyAll("") {
		return
	}
	noteAll := func() {
		for _, s := range w.subs {
			noteBig(s)
		}
	}
	noteAll()
	edge := func(g *group) uint {
		wds := g.m.words()
		switch rng.Intn(5) {
		case 0:
			return uint(wds*64 + rng.Pick(0, 0, 1, 63, 64, 1023))
		case 1:
			return uint((wds&^15)*64 + rng.Pick(0, 63, 64))
		case 2:
			t := 16
			for k := rng.Intn(13); k > 0 && t <= wds; k-- {
				t *= 2
			}
			return uint(t*64 - rng.Pick(0, 1))
		case 3:
			if y, ok := g.pickPresent(rng); ok {
				return y + uint(rng.Pick(0, 1, 64, 1024))
			}
		}
		return uint(rng.Intn(g.u + 64))
	}
	steps := rng.Range(4, 9)
	if light {
		steps = rng.Range(3, 5)
	}
	for st := 0; st < steps; st++ {
		g, o := A, B
		if rng.Chance(2, 5) {
			g, o = B, A
		}
		ok := true
		switch p := rng.Intn(100); {
		case p < 40:
			ok = g.bulkFrom(rng.Intn(3), o, rng.Chance(1, 5))
			c.Add("big_bulk_operations", 1)
		case p < 55:
			x := edge(g)
			if x >= 66000*64 {
				x = uint(rng.Intn(g.u))
			}
			ok = g.add(x)
		case p < 68:
			x := edge(g)
			if y, has := g.pickPresent(rng); has && rng.Chance(2, 3) {
				x = y
			}
			ok = g.remove(x)
		case p < 76:
			t := all[rng.Intn(len(all))]
			if light && rng.Bool() {
				t = bigLarge[rng.Intn(len(bigLarge))]
			}
			ok = g.grow(uint(t*64 - rng.Pick(1, 1, 0, 65)))
		case p < 84:
			src := g.b
			if rng.Bool() {
				src = g.m
			}
			cl := src.clone(fmt.Sprintf("clone@%d(%s)", st, src.name))
			if cl == nil {
				return
			}
			w.note('C', uint64(src.k), uint64(g.name[0]))
			x := edge(g)
			if x >= 66000*64 {
				x = 7
			}
			if rng.Bool() {
				ok = cl.add(x) && cl.verify("clone-mutated") && src.verify("clone-mutated-source")
			} else {
				ok = g.add(x) && cl.verify("clone-source-mutated")
			}
			if ok && rng.Bool() {
				ok = g.m.bulk(rng.Intn(3), cl)
			}
		case p < 90:
			s := w.subs[rng.Intn(len(w.subs))]
			if !s.deepEnumerate("") {
				return
			}
			continue
		case p < 95:
			op := rng.Intn(3)
			w.note('S', uint64(op), uint64(g.name[0]))
			w.bulk++
			ok = g.b.bulk(op, g.b) && g.m.bulk(op, g.m) && g.d.morphTo(g.b.m)
		default:
			// a short window without observation
			w.q.left = 1
			for n := rng.Range(2, 4); n > 0 && ok; n-- {
				switch rng.Intn(3) {
				case 0:
					ok = g.bulkFrom(rng.Intn(3), o, false)
				case 1:
					ok = g.add(uint(rng.Intn(g.u)))
				default:
					if y, has := g.pickPresent(rng); has {
						ok = g.remove(y)
					}
				}
			}
			w.q.left = 0
			c.Add("big_windows_closed", 1)
		}
		if !ok || !w.verifyAll("") {
			return
		}
		noteAll()
	}
	if !A.b.deepEnumerate("") || !A.d.deepEnumerate("") {
		return
	}
	c.Add("big_cases", 1)
	c.Distinct(ev.Mix('G', uint64(WA), uint64(WB), w.hash))
	if c.WantSample() {
		c.Sample(fmt.Sprintf("big: A of %d words (%d members), B of %d words (%d members), %d steps of bulk operations in both directions, element operations at capacity and block edges, Grow, Clone; final words A=%d B=%d",
			WA, len(A.b.m), WB, len(B.b.m), steps, A.b.words(), B.b.words()))
	}
}

// ----------------------------------------------------------- reentrant ----

const (
	apiIter = iota
	apiRange
	apiAll
)

var apiName = [...]string{"Iter", "Range", "All"}

// drive runs one enumeration through the given API and hands every delivered value to
// visit until visit returns false. Must be called inside s.guard.
func (s *subject) drive(api int, visit func(x uint) bool) {
	switch api {
	case apiIter:
		next, value := s.newIter()
		for next() {
			if !visit(value()) {
				return
			}
		}
	case apiRange:
		if s.k == kBits {
			s.sb.Range(visit)
		} else {
			s.bm.Range(visit)
		}
	default:
		for x := range s.sb.All() {
			if !visit(x) {
				break
			}
		}
	}
}

func (s *subject) pickAPI(rng *ev.Rand) int {
	switch s.k {
	case kBits:
		return rng.Pick(apiIter, apiRange, apiAll, apiAll)
	case kBitmap:
		return rng.Pick(apiIter, apiRange, apiRange)
	}
	return apiIter
}

// enumReadOnly: the code that receives the values (the callback of Range, the body of a
// range over All, the code between two Next calls) asks the same object questions and,
// once, runs a complete second enumeration of it. Nothing is edited, so both the outer
// and the nested enumeration must deliver exactly the members.
func (s *subject) enumReadOnly(api int) bool {
	c := s.c
	rng := c.Rng
	want := s.list()
	limit := len(want) + 3
	nestAt := 1 + rng.Intn(len(want)+1)
	api2 := s.pickAPI(rng)
	var got, inner []uint
	bad := ""
	nested := false
	s.observed("reentrant")
	if !s.guard(apiName[api], func() {
		s.drive(api, func(x uint) bool {
			got = append(got, x)
			if len(got) > limit {
				return false
			}
			if rng.Chance(1, 3) {
				y := x + uint(rng.Pick(0, 1, 63, 64))
				if rng.Bool() {
					y = uint(rng.Intn(int(s.hi) + 130))
				}
				if g := s.rawContains(y); g != s.has(y) {
					bad = fmt.Sprintf("Contains(%d) asked while value %d was being delivered returned %v, member: %v", y, x, g, !g)
					return false
				}
				c.Add("callback_read_only_calls", 1)
			}
			if rng.Chance(1, 4) {
				if n := s.rawLen(); n != len(s.m) {
					bad = fmt.Sprintf("Len() asked while value %d was being delivered returned %d, the set has %d members", x, n, len(s.m))
					return false
				}
				c.Add("callback_read_only_calls", 1)
			}
			if len(got) == nestAt {
				nested = true
				s.drive(api2, func(y uint) bool {
					inner = append(inner, y)
					return len(inner) <= limit
				})
			}
			return true
		})
	}) {
		return false
	}
	c.Logf("%s: %s with read-only calls from the receiving code, nested %s at delivery %d -> %d values", s.name, apiName[api], apiName[api2], nestAt, len(got))
	if bad != "" {
		s.fail("reentrant-read", "", "%s: %s", apiName[api], bad)
		return false
	}
	if d := firstDiff(got, want); d != "" {
		s.fail("reentrant-outer-sequence", "", "%s whose receiving code only reads the same object (nested %s at delivery %d): %s", apiName[api], apiName[api2], nestAt, d)
		return false
	}
	if nested {
		c.Add("nested_enumerations", 1)
		c.Add("nested_"+apiName[api2]+"_inside_"+apiName[api], 1)
		if d := firstDiff(inner, want); d != "" {
			s.fail("reentrant-nested-sequence", "", "%s run from the receiving code of %s at delivery %d: %s", apiName[api2], apiName[api], nestAt, d)
			return false
		}
	}
	return true
}

// enumEditing: the receiving code edits the set while the enumeration is under way. What
// the enumeration itself reports from then on is not settled by the statement and is not
// looked at; every element operation still has to report and do the right thing, and when
// the enumeration is over the object has to be exactly the edited set, whichever observer
// asks first.
func (s *subject) enumEditing(api int) bool {
	c := s.c
	rng := c.Rng
	n0 := len(s.list())
	if n0 == 0 {
		return true
	}
	events := map[int]bool{}
	for k := rng.Range(1, 3); k > 0; k-- {
		events[1+rng.Intn(n0)] = true
	}
	stopAt := 0
	if rng.Chance(1, 4) {
		stopAt = 1 + rng.Intn(n0)
	}
	maxCalls := n0 + 80
	calls, edits := 0, 0
	completed, cut, failed := false, false, false
	var delivered []uint
	if !s.guard(apiName[api], func() {
		s.drive(api, func(x uint) bool {
			calls++
			if calls > maxCalls {
				cut = true
				return false
			}
			delivered = append(delivered, x)
			if events[calls] {
				for k := rng.Range(1, 2); k > 0; k-- {
					ok := true
					kind := rng.Intn(7)
					c.Logf("%s: editing from the receiving code of %s while value %d (delivery %d) is being delivered", s.name, apiName[api], x, calls)
					switch kind {
					case 0: // the value being delivered
						ok = s.remove(x)
						c.Add("callback_edit_remove_current", 1)
					case 1: // a value delivered before
						ok = s.remove(delivered[rng.Intn(len(delivered))])
						c.Add("callback_edit_remove_delivered", 1)
					case 2: // a member still to come (if any)
						if l := s.list(); len(l) > 0 && l[len(l)-1] > x {
							y := l[len(l)-1]
							if rng.Bool() {
								y = l[sort.Search(len(l), func(i int) bool { return l[i] > x })]
							}
							ok = s.remove(y)
							c.Add("callback_edit_remove_pending", 1)
						}
					case 3: // a new value below the cursor
						if x > 0 {
							ok = s.add(uint(rng.Intn(int(x))))
							c.Add("callback_edit_add_below_cursor", 1)
						}
					case 4: // a new value above the cursor
						ok = s.add(x + uint(rng.Pick(1, 2, 63, 64, 65)))
						c.Add("callback_edit_add_above_cursor", 1)
					case 5: // growth: a value beyond the capacity
						ok = s.add(uint(s.words()*64 + rng.Pick(0, 1, 63, 64, 200)))
						c.Add("callback_edit_add_beyond_capacity", 1)
					default:
						ok = s.grow(uint(s.words()*64 + rng.Pick(0, 64, 500)))
						c.Add("callback_edit_grow", 1)
					}
					edits++
					if !ok {
						failed = true
						return false
					}
				}
			}
			return calls != stopAt
		})
		completed = !cut && !failed && (stopAt == 0 || calls < stopAt)
	}) {
		return false
	}
	if failed || c.Failed() {
		return false
	}
	c.Add("enumerations_edited_by_receiving_code", 1)
	c.Add("enumerations_edited_by_receiving_code_"+apiName[api], 1)
	if cut {
		c.Add("edited_enumerations_cut_off_by_the_harness", 1)
	}
	if completed && edits > 0 {
		c.Add("edited_enumerations_run_to_the_end", 1)
		c.Add("edited_enumerations_run_to_the_end_"+apiName[api], 1)
	}
	return s.verify("after-edits-from-receiving-code")
}

// hostilePanic: a nil pointer of this type is a legal panic value whose Error method
// cannot be called.
type hostilePanic struct{ msg string }

func (h *hostilePanic) Error() string { return h.msg }

var errSentinel = errors.New("c16 harness: panic raised by the receiving code")

func oursPanic(p any) bool {
	switch v := p.(type) {
	case *hostilePanic:
		return v == nil
	case error:
		return v == errSentinel
	case string:
		return v == "c16 harness panic"
	}
	return false
}

// enumPanicking: the callback of Range / the body of a range over All panics at delivery
// k; the caller recovers. The k values delivered until then must be the k smallest
// members, and the object must be unchanged and fully usable afterwards. (That the panic
// reaches the caller is not part of the statement and is only counted.)
func (s *subject) enumPanicking(api int) bool {
	c := s.c
	rng := c.Rng
	want := s.list()
	if len(want) == 0 || api == apiIter {
		return true
	}
	k := 1 + rng.Intn(len(want))
	var val any
	switch rng.Intn(3) {
	case 0:
		val = (*hostilePanic)(nil)
	case 1:
		val = errSentinel
	default:
		val = "c16 harness panic"
	}
	var got []uint
	recovered := false
	s.observed("reentrant")
	if !s.guard(apiName[api], func() {
		defer func() {
			if p := recover(); p != nil {
				if oursPanic(p) {
					recovered = true
					return
				}
				panic(p)
			}
		}()
		s.drive(api, func(x uint) bool {
			got = append(got, x)
			if len(got) == k {
				panic(val)
			}
			return len(got) < k
		})
	}) {
		return false
	}
	c.Logf("%s: %s, receiving code panicked at delivery %d of %d (recovered: %v)", s.name, apiName[api], k, len(want), recovered)
	if len(got) > k {
		got = got[:k]
	}
	if d := firstDiff(got, want[:k]); d != "" {
		s.fail("panicking-callback-prefix", "", "%s up to the delivery at which the receiving code panicked (%d): %s", apiName[api], k, d)
		return false
	}
	if recovered {
		c.Add("callback_panics_recovered", 1)
	} else {
		// whether a panic of the receiving code travels through Range / All to the caller is
		// the language's business, not this statement's: counted, not judged
		c.Add("callback_panics_that_did_not_reach_the_caller", 1)
	}
	s.fresh = true
	return s.verify("after-panic-in-receiving-code")
}

func reentrantCase(c *ev.Case) {
	rng := c.Rng
	L := 1 + c.Index%6
	ws := make([]uint64, L)
	nz := false
	for i := range ws {
		ws[i] = iterPattern(rng)
		nz = nz || ws[i] != 0
	}
	if !nz {
		ws[rng.Intn(L)] = 1<<63 | 1<<uint(rng.Intn(63))
	}
	w := &world{c: c, shuffle: true}
	subs := []*subject{w.new(kBits, "Bits"), w.new(kBitmap, "Bitmap"), w.new(kDsz, "dsz")}
	c.Logf("words %016x", ws)
	mode := rng.Intn(3)
	for _, s := range subs {
		if !buildWords(s, ws, mode) {
			return
		}
	}
	if !w.verifyAll("") {
		return
	}
	h := hashWords('r', ws)
	for round := rng.Range(2, 5); round > 0; round-- {
		sc := rng.Pick(0, 1, 1, 2)
		h = ev.Mix(h, uint64(sc))
		for _, s := range subs {
			api := s.pickAPI(rng)
			ok := false
			switch sc {
			case 0:
				ok = s.enumReadOnly(api)
			case 1:
				ok = s.enumEditing(api)
			default:
				if api == apiIter {
					ok = s.enumReadOnly(api)
				} else {
					ok = s.enumPanicking(api)
				}
			}
			if !ok {
				return
			}
		}
		if !w.verifyAll("") {
			return
		}
		// element operations between two rounds
		for n := rng.Range(0, 2); n > 0; n-- {
			x := uint(rng.Intn(L*64 + 64))
			add := rng.Bool()
			h = ev.Mix(h, uint64(x), b2u(add))
			for _, s := range subs {
				ok := false
				if add {
					ok = s.add(x)
				} else {
					ok = s.remove(x)
				}
				if !ok {
					return
				}
			}
			if !w.verifyAll("") {
				return
			}
		}
	}
	c.Add("reentrant_cases", 1)
	c.Distinct(h)
	if c.WantSample() {
		c.Sample(fmt.Sprintf("reentrant: set with words %016x in Bits, Bitmap and dsz.Bits; enumerations whose receiving code reads the same object (with a nested enumeration), edits it, or panics; then everything is compared again", ws))
	}
}
