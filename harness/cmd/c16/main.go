// C16 — setz.Bits, setz.Bitmap and dsz.Bits behave as sets of unsigned integers,
// including the bulk operations Diff / Intersect / Merge, Clone, Grow and Cap.
//
// Reference-model monitor. Every golib object has its own mathematical-set
// model (Go map). After every mutating operation every live object is compared
// with its model through every observer the statement names: Len, Contains over
// the whole value range (plus two words beyond), and the complete sequences of
// Iter, Range and All. Bulk operations are replaced in the model by set algebra;
// the operand that must stay untouched is re-verified too.
//
// Engines:
//
//	lockstep  random operation sequences; A = {Bits, Bitmap, dsz.Bits} and
//	          B = {Bits, Bitmap, dsz.Bits} driven in lock-step, bulk operations in
//	          both directions, clones, Grow/Cap, self operands, far values.
//	pairs     every pair of subsets of a list of word-boundary values (all pairs,
//	          either side shorter) x 5 capacity variants x 3 bulk operations,
//	          followed by element operations and the reverse bulk operation.
//	words     operands built from 64-bit word patterns, every (receiver words,
//	          operand words, operation) combination 0..6 x 0..6 x 3, then a chain
//	          of bulk operations interleaved with element operations at the
//	          capacity boundary of the shorter side.
//	iter      iterator workloads over word patterns: bit 63 / bit 0 neighbours,
//	          empty words in the middle and at the end, empty sets with and
//	          without capacity, interleaved iterators, early termination.
//	windows   2-12 operations without any observing call (not even Cap), also as the
//	          first calls ever made on a zero value; the observer that is asked first
//	          afterwards (Len, Contains, Iter, Range, All, a kept All sequence) varies.
//	big       sets of 15 ... 65537 words on both sides of every power of two, members
//	          in the last partial block of 16 words, members 4/8/16/32/64 words apart,
//	          values above 65535 and 2^20, operands of very different capacities.
//	reentrant enumerations whose receiving code calls back into the same object:
//	          read-only (with a complete nested enumeration), editing (only the state
//	          afterwards is compared, not what the enumeration reported), panicking.
//
//	steps     Iter walked by Next alone, Value asked never / at some steps / at the last
//	          member only / after gaps of two or more steps.
//	chains    Clone of the result of a Clone (and several clones of one object); every
//	          member of the chain edited, all members re-observed after every step.
//
// (windows, big, reentrant: engines2.go; steps, chains: engines3.go)
package main

import (
	"fmt"

	"verif/ev"
)

// world = all live subjects of one case.
type world struct {
	c    *ev.Case
	subs []*subject
	hash uint64
	ops  int
	bulk int
	q    quietState

	shuffle, sparse bool // handed to every subject (see subject)
}

func (w *world) new(k kind, name string) *subject {
	s := newSubject(w.c, k, name)
	s.q = &w.q
	s.shuffle, s.sparse = w.shuffle, w.sparse
	w.subs = append(w.subs, s)
	return s
}

func (w *world) note(vs ...uint64) {
	w.hash = ev.Mix(append([]uint64{w.hash}, vs...)...)
	w.ops++
}

// verifyAll re-observes every live object: an operation on one object must not
// change any other (clone independence, operands left untouched).
func (w *world) verifyAll(ctx string) bool {
	for _, s := range w.subs {
		if s.fresh {
			if !s.verify(ctx) {
				return false
			}
		} else if !s.verifyLite(ctx) {
			return false
		}
	}
	return !w.c.Failed()
}

func (w *world) drop(s *subject) {
	for i, x := range w.subs {
		if x == s {
			w.subs = append(w.subs[:i:i], w.subs[i+1:]...)
			return
		}
	}
}

var boundaryVals = []uint{0, 1, 62, 63, 64, 65, 126, 127, 128, 129, 190, 191, 192, 193, 254, 255, 256, 257, 319, 320}

var farVals = []uint{1 << 20, 1<<32 - 1, 1 << 32, 1 << 40, 1 << 62, 1 << 63, ^uint(0) - 64, ^uint(0) - 63, ^uint(0)}

func genVal(rng *ev.Rand, u int) uint {
	if rng.Chance(1, 2) {
		b := boundaryVals[rng.Intn(len(boundaryVals))]
		if int(b) < u {
			return b
		}
	}
	return uint(rng.Intn(u))
}

// group = objects of the three kinds that receive the same operations.
type group struct {
	w       *world
	name    string
	b, m, d *subject
	u       int // values are drawn from 0..u-1
}

func (w *world) newGroup(name string, u int) *group {
	return &group{w: w, name: name, u: u,
		b: w.new(kBits, name+".Bits"), m: w.new(kBitmap, name+".Bitmap"), d: w.new(kDsz, name+".dsz")}
}

func (g *group) each(f func(s *subject) bool) bool {
	return f(g.b) && f(g.m) && f(g.d)
}

func (g *group) add(x uint) bool {
	g.w.note('a', uint64(g.name[0]), uint64(x))
	return g.each(func(s *subject) bool { return s.add(x) })
}

func (g *group) remove(x uint) bool {
	g.w.note('r', uint64(g.name[0]), uint64(x))
	return g.each(func(s *subject) bool { return s.remove(x) })
}

func (g *group) probe(x uint) bool {
	return g.each(func(s *subject) bool { return s.probe(x) })
}

func (g *group) grow(n uint) bool {
	g.w.note('g', uint64(g.name[0]), uint64(n))
	return g.each(func(s *subject) bool { return s.grow(n) })
}

// bulkFrom applies op with o's objects as operands: Bits<-Bits, Bitmap<-Bitmap
// (or, sometimes, Bitmap<-the embedded Bitmap of o's Bits); the dsz.Bits follows by
// element operations.
func (g *group) bulkFrom(op int, o *group, cross bool) bool {
	g.w.note('B', uint64(op), uint64(g.name[0]), uint64(o.name[0]))
	g.w.bulk++
	if !g.b.bulk(op, o.b) {
		return false
	}
	om := o.m
	if cross {
		om = o.b
	}
	if !g.m.bulk(op, om) {
		return false
	}
	return g.d.morphTo(g.b.m)
}

func (g *group) pickPresent(rng *ev.Rand) (uint, bool) {
	l := g.b.list()
	if len(l) == 0 {
		return 0, false
	}
	switch rng.Intn(4) {
	case 0:
		return l[len(l)-1], true // the top member: leaves trailing empty words behind
	case 1:
		return l[0], true
	}
	return l[rng.Intn(len(l))], true
}

func (g *group) prefill(rng *ev.Rand) bool {
	switch rng.Intn(6) {
	case 0: // nothing
	case 1: // a few
		for k := rng.Range(1, 6); k > 0; k-- {
			if !g.add(genVal(rng, g.u)) {
				return false
			}
		}
	case 2: // a dense run across a word boundary
		lo := rng.Intn(g.u)
		hi := lo + rng.Range(2, 80)
		for x := lo; x < hi && x < g.u; x++ {
			if !g.add(uint(x)) {
				return false
			}
		}
	case 3: // one complete word
		wd := rng.Intn((g.u + 63) / 64)
		for x := wd * 64; x < wd*64+64 && x < g.u; x++ {
			if !g.add(uint(x)) {
				return false
			}
		}
	case 4: // pre-sized, then a few
		if !g.grow(uint(rng.Intn(g.u + 70))) {
			return false
		}
		for k := rng.Range(0, 4); k > 0; k-- {
			if !g.add(genVal(rng, g.u)) {
				return false
			}
		}
	default: // descending inserts (one allocation), boundary values only
		for i := len(boundaryVals) - 1; i >= 0; i-- {
			if int(boundaryVals[i]) < g.u && rng.Bool() {
				if !g.add(boundaryVals[i]) {
					return false
				}
			}
		}
	}
	return true
}

var universes = []int{64, 65, 128, 129, 130, 192, 200, 257, 300, 321, 700}

func lockstepCase(c *ev.Case) {
	rng := c.Rng
	w := &world{c: c}
	A := w.newGroup("A", universes[rng.Intn(len(universes))])
	B := w.newGroup("B", universes[rng.Intn(len(universes))])
	groups := []*group{A, B}
	var clones []*subject
	nclone := 0
	if !w.verifyAll("zero-value") {
		return
	}
	if !A.prefill(rng) || !B.prefill(rng) || !w.verifyAll("") {
		return
	}
	nops := rng.Pick(8, 20, 40, 90)
	quietCase := rng.Chance(1, 3)
	for i := 0; i < nops; i++ {
		if w.q.left > 0 {
			w.q.left--
			if w.q.left == 0 {
				c.Add("quiet_windows_closed", 1)
				if !w.verifyAll("after-unobserved-operations") {
					return
				}
			}
		} else if quietCase && rng.Chance(1, 4) {
			w.q.left = rng.Range(2, 7)
		}
		g, o := A, B
		if rng.Chance(1, 3) {
			g, o = B, A
		}
		p := rng.Intn(100)
		switch {
		case p < 30:
			if rng.Chance(1, 60) {
				// fault path: a value whose word index overflows every possible allocation
				x := []uint{^uint(0), ^uint(0) - 64, 1 << 63, 1 << 60}[rng.Intn(4)]
				for _, sub := range []*subject{g.b, g.m, g.d} {
					if sub != nil && !sub.addHuge(x) {
						return
					}
				}
				continue
			}
			if !g.add(genVal(rng, g.u)) {
				return
			}
		case p < 45:
			x := genVal(rng, g.u)
			if rng.Chance(2, 3) {
				if y, ok := g.pickPresent(rng); ok {
					x = y
				}
			} else if rng.Chance(1, 3) {
				// exactly the first value beyond the current capacity, or further out
				x = uint(g.m.words()*64 + rng.Pick(0, 0, 1, 63, 64))
			}
			if !g.remove(x) {
				return
			}
		case p < 51:
			x := genVal(rng, g.u+130)
			switch rng.Intn(4) {
			case 0:
				x = farVals[rng.Intn(len(farVals))]
				c.Add("far_value_probes", 1)
			case 1:
				x = uint(g.m.words()*64 + rng.Pick(0, 0, 1, 63, 64))
			}
			if !g.probe(x) {
				return
			}
			continue // read-only
		case p < 53:
			// removing a value far beyond any capacity is a no-op
			x := farVals[rng.Intn(len(farVals))]
			c.Add("far_value_removes", 1)
			if !g.remove(x) {
				return
			}
		case p < 75:
			op := rng.Intn(3)
			if !g.bulkFrom(op, o, rng.Chance(1, 5)) {
				return
			}
		case p < 80:
			n := genVal(rng, g.u+70)
			if !g.grow(n) {
				return
			}
		case p < 83:
			w.note('c')
			if !g.each(func(s *subject) bool { return s.capCall() }) {
				return
			}
		case p < 90:
			// Clone, then mutate the source or the clone
			src := g.b
			if rng.Bool() {
				src = g.m
			}
			nclone++
			cl := src.clone(fmt.Sprintf("clone%d(%s)", nclone, src.name))
			if cl == nil {
				return
			}
			w.note('C', uint64(src.k), uint64(g.name[0]))
			w.subs = append(w.subs, cl)
			clones = append(clones, cl)
			if len(clones) > 2 {
				w.drop(clones[0])
				clones = clones[1:]
			}
			for k := rng.Range(1, 3); k > 0; k-- {
				x := genVal(rng, g.u)
				if y, ok := g.pickPresent(rng); ok && rng.Bool() {
					x = y
				}
				if rng.Bool() {
					c.Add("clone_then_source_mutated", 1)
					ok := false
					if rng.Bool() {
						ok = g.add(x)
					} else {
						ok = g.remove(x)
					}
					if !ok {
						return
					}
				} else {
					c.Add("clone_then_clone_mutated", 1)
					w.note('k', uint64(x))
					ok := false
					if rng.Bool() {
						ok = cl.add(x)
					} else {
						ok = cl.remove(x)
					}
					if !ok {
						return
					}
				}
				if !w.verifyAll("clone-independence") {
					return
				}
			}
		case p < 94:
			// a clone as operand or receiver of a bulk operation (Bitmap kinds)
			if len(clones) == 0 {
				continue
			}
			cl := clones[rng.Intn(len(clones))]
			op := rng.Intn(3)
			w.note('K', uint64(op))
			w.bulk++
			ok := false
			switch rng.Intn(3) {
			case 0:
				ok = cl.bulk(op, g.m)
			case 1:
				ok = cl.bulk(op, g.b)
			default:
				ok = g.m.bulk(op, cl)
				c.Add("lockstep_bitmap_diverged_by_clone_operand", 1)
			}
			if !ok {
				return
			}
		case p < 97:
			// the receiver itself as operand: A\A = {}, A&A = A, A|A = A
			op := rng.Intn(3)
			w.note('S', uint64(op), uint64(g.name[0]))
			w.bulk++
			if !g.b.bulk(op, g.b) || !g.m.bulk(op, g.m) || !g.d.morphTo(g.b.m) {
				return
			}
		default:
			// a burst of element operations around one word boundary
			base := uint(64 * rng.Range(1, (g.u+63)/64))
			for k := rng.Range(2, 6); k > 0; k-- {
				x := uint(int(base) + rng.Pick(-2, -1, 0, 1))
				if int(x) >= g.u+64 {
					x = uint(g.u - 1)
				}
				ok := false
				if rng.Chance(2, 3) {
					ok = g.add(x)
				} else {
					ok = g.remove(x)
				}
				if !ok {
					return
				}
			}
		}
		if !w.verifyAll("") {
			return
		}
		if w.q.left == 0 && rng.Chance(1, 6) {
			s := w.subs[rng.Intn(len(w.subs))]
			if !s.deepEnumerate("") {
				return
			}
		}
	}
	w.q.left = 0
	if !w.verifyAll("end") {
		return
	}
	for _, s := range w.subs {
		if !s.deepEnumerate("") {
			return
		}
	}
	for _, gg := range groups {
		wb, wm := gg.b.words(), gg.m.words()
		c.Max("max_words", int64(wb))
		c.Max("max_words", int64(wm))
	}
	if w.bulk > 0 && (len(A.b.m)+len(B.b.m) > 1) {
		c.Distinct(w.hash)
	}
	if c.WantSample() {
		c.Sample(fmt.Sprintf("lockstep: universes A<%d B<%d, %d operations (%d bulk, %d clones); final A=%s B=%s, words A=%d B=%d",
			A.u, B.u, w.ops, w.bulk, nclone, fmtSet(A.b.list()), fmtSet(B.b.list()), A.b.words(), B.b.words()))
	}
}

func main() {
	r := ev.New("C16")
	r.Rule("one case = a seeded sequence of Add/Remove/Contains/Grow/Cap/Clone/Diff/Intersect/Merge over setz.Bits, setz.Bitmap and dsz.Bits objects, each with its own Go-map model (lockstep: random sequences; pairs: one pair of subsets of the word-boundary values per case index, enumerated completely; words: operands of 0..6 words from bit patterns, every receiver/operand word count combination; iter: enumeration workloads; windows: 2-12 operations without any observing call, then all observers in a drawn order; big: sets of 15-65537 words around powers of two; reentrant: enumerations whose receiving code reads, edits or panics; steps: Iter walked by Next with Value asked at none / some of the steps; chains: clones of clones, every member edited). distinct = distinct hash of the operation sequence / operand contents; non-trivial = at least one bulk operation (iter engine: at least one member) with all of Len, Contains sweep, Iter, Range, All compared afterwards")
	r.Assume("the set model (Go map + sort) is the specification; values stay below ~1200 for Add/Grow except in the big engine (larger values only for Contains/Remove, which must not allocate); word counts are read through Cap() for coverage counters only; nothing is asserted about the value of Cap()")
	r.Assume("what an enumeration reports after its own receiving code has edited the set is not looked at (the statement does not settle it); the element operations made from there and the state of the object afterwards are compared as usual; big engine: values up to 2^22+2^17, Contains compared at members, neighbours, word/capacity edges, powers of two and random values when a set has more than 2100 words")
	r.Assume("Range's callback returning false stops the enumeration (the only meaning its bool result has); All obeys the iter.Seq protocol")
	r.Assume("an iterator is walked by Next; Value is a pure query of the current position and may be called any number of times, or not at all, between two Next calls; whether a panic raised by the receiving code of Range / All reaches the caller is not judged (only the values delivered before it and the state of the object afterwards)")
	r.Cases("lockstep", r.N(50000, 1500000), ev.Opt{HangViolation: true}, lockstepCase)
	// the same workload on parallel workers under the race detector: package-level state shared
	// between instances that no goroutine shares is reported from the happens-before relation,
	// whether or not the accesses collide in this run (and however loaded the machine is)
	r.CasesProc("lockstep/race-parallel", r.N(800, 20000), ev.Opt{Bin: "race", Procs: 2, Workers: 8, AlwaysLog: true, HangViolation: true, MaxCaseSeconds: 120}, lockstepCase)
	r.Cases("pairs", pairsCount(r), ev.Opt{HangViolation: true}, pairsCase)
	r.Cases("words", r.N(14700, 735000), ev.Opt{HangViolation: true}, wordsCase)
	r.Cases("iter", r.N(20000, 800000), ev.Opt{HangViolation: true}, iterCase)
	r.Cases("windows", r.N(20000, 200000), ev.Opt{HangViolation: true}, windowsCase)
	r.Cases("big", r.N(1600, 16000), ev.Opt{HangViolation: true}, bigCase)
	// members at and above 2^32: two sets of 512 MiB, one after the other (beyond32.go)
	r.Cases("beyond32", r.N(2, 8), ev.Opt{Workers: 2, MaxCaseSeconds: 600}, beyond32Case)
	r.Require("beyond32_Bits", 1)
	r.Require("beyond32_Bitmap", 1)
	r.Require("beyond32_enumerations", 5)
	r.Cases("reentrant", r.N(20000, 200000), ev.Opt{HangViolation: true}, reentrantCase)
	r.Cases("steps", r.N(7000, 140000), ev.Opt{HangViolation: true}, stepsCase)
	r.Cases("chains", r.N(8000, 160000), ev.Opt{HangViolation: true}, chainsCase)

	// observation floors (quick-tier counts are 4-10x higher at every seed tried)
	for _, op := range opCtx {
		r.Require("bulk_"+op+"_operand_shorter", 25000)
		r.Require("bulk_"+op+"_operand_equal", 40000)
		r.Require("bulk_"+op+"_operand_longer", 25000)
		r.Require("bulk_"+op+"_operand_self", 8000)
		r.Require("bulk_"+op+"_receiver_members_beyond_operand", 12000)
		r.Require("bulk_"+op+"_operand_members_beyond_receiver", 12000)
	}
	// audit floors: every method of the statement really called on every type that has it
	callFloor := map[string]int64{"Add": 1500000, "Remove": 200000, "Contains": 2500000, "Len": 3000000, "Cap": 2500000,
		"Grow": 50000, "Iter": 1200000, "Range": 900000, "All": 2500000, "Clone": 20000, "Diff": 70000, "Intersect": 70000, "Merge": 70000}
	for k := kBits; k <= kDsz; k++ {
		for _, m := range methodsOf[k] {
			r.Require(callKeys[m][k], callFloor[m])
		}
		r.Require("iter_walks_by_next_of_nonempty_sets_"+kindName[k], 10000)
	}
	for _, op := range opCtx {
		r.Require("bulk_"+op+"_receiver_without_words", 5000)
		r.Require("bulk_"+op+"_operand_without_words", 5000)
	}
	for k, v := range map[string]int64{
		"add_new_within_capacity": 3000000, "remove_absent_within_capacity": 200000,
		"clones_of_Bits": 20000, "clones_of_Bitmap": 25000, "clones_of_a_clone": 5000,
		"early_stops_All_Bits": 50000, "early_stops_Range_Bits": 50000, "early_stops_Range_Bitmap": 70000,
		"membership_changed_by_element_operation_right_after_bulk_operation_Bits":   100000,
		"membership_changed_by_element_operation_right_after_bulk_operation_Bitmap": 100000,
		"merge_receiver_edited_in_words_taken_from_operand":                         10000,
		"merge_operand_edited_in_words_given_to_receiver":                           15000,
		// steps
		"steps_cases": 6500, "iter_walks_value_never_asked": 15000, "iter_walks_value_asked_at_some_steps_only": 20000,
		"iter_steps_without_value": 900000, "iter_values_asked_after_two_or_more_steps_without": 100000,
		// chains
		"chains_cases": 7500, "chains_cases_with_a_clone_of_a_clone": 5000,
		"chain_edits_with_a_clone_of_a_clone_alive": 12000, "chain_bulk_operations_between_members": 3500,
	} {
		r.Require(k, v)
	}
	for k, v := range map[string]int64{
		"bulk_ops": 300000, "bulk_Bits": 150000, "bulk_Bitmap": 150000,
		"bulk_changed_cardinality": 200000, "bulk_after_element_ops": 250000,
		"bulk_bitmap_with_embedded_bitmap_of_bits": 20000,
		"add_new": 3000000, "add_duplicate": 100000, "add_beyond_capacity": 200000, "add_at_word_edge": 400000,
		"remove_present": 600000, "remove_absent": 200000, "remove_first_word_beyond_capacity": 30000,
		"contains_probes": 70000, "contains_first_word_beyond_capacity": 20000,
		"far_value_probes": 6000, "far_value_removes": 8000,
		"grow_extended": 40000, "grow_extended_nonempty": 10000, "grow_noop": 60000, "cap_calls": 35000,
		"clones_nonempty": 25000, "clone_then_source_mutated": 30000, "clone_then_clone_mutated": 30000,
		"bystander_checks":     2500000,
		"quiet_windows_closed": 3000,
		"enumerations_iter":    2000000, "enumerations_range": 1500000, "enumerations_all": 700000,
		"enumerated_values": 25000000,
		"enum_empty_set":    300000, "enum_empty_set_with_capacity": 250000, "enum_member_0": 300000,
		"enum_63_to_64_adjacent": 400000, "enum_skips_empty_word": 350000, "enum_trailing_empty_words": 600000,
		"enum_three_or_more_words": 900000, "enum_leading_empty_word": 400000, "enum_word_crossings": 2000000,
		"interleaved_iterator_pairs": 200000, "early_stops": 160000, "early_stop_at_word_end": 30000,
		"iter_drained_sets": 800, "pair_cases": 20000, "words_cases": 14000, "iter_cases": 19000,
		"add_unallocatable_value_recovered": 5000,
		// windows
		"windows_cases": 19000, "windows_closed": 60000, "window_operations": 400000,
		"windows_of_8_or_more_operations": 20000, "windows_opened_on_never_observed_zero_values": 7000,
		"clones_made_inside_a_window":                  12000,
		"first_observer_after_unobserved_ops_len":      60000,
		"first_observer_after_unobserved_ops_contains": 60000,
		"first_observer_after_unobserved_ops_iter":     35000,
		"first_observer_after_unobserved_ops_range":    15000,
		"first_observer_after_unobserved_ops_all":      5000,
		"kept_all_sequence_run_before_any_fresh_one":   80000,
		// big
		"big_cases": 1500, "big_cases_mid": 80, "big_cases_large": 10, "big_bulk_operations": 2000,
		"big_verifications_of_16_or_more_words":                              30000,
		"big_members_in_last_partial_block_of_16_words":                      10000,
		"big_verifications_with_members_above_65535":                         2000,
		"enum_gap_of_16_or_more_empty_words":                                 80000,
		"enum_members_exactly_16_words_apart":                                5000,
		"bulk_diff_with_16_or_more_words":                                    1500,
		"bulk_intersect_with_16_or_more_words":                               1500,
		"bulk_merge_with_16_or_more_words":                                   1500,
		"bulk_merge_longer_operand_of_32_or_more_words_adds_to_common_words": 200,
		"sparse_contains_probes":                                             500000,
		// reentrant
		"reentrant_cases": 19000, "callback_read_only_calls": 500000, "nested_enumerations": 30000,
		"nested_Range_inside_Range": 3000, "nested_All_inside_All": 1500, "nested_Iter_inside_Iter": 15000,
		"enumerations_edited_by_receiving_code":       50000,
		"enumerations_edited_by_receiving_code_All":   8000,
		"enumerations_edited_by_receiving_code_Range": 15000,
		"enumerations_edited_by_receiving_code_Iter":  25000,
		"edited_enumerations_run_to_the_end":          35000,
		"edited_enumerations_run_to_the_end_All":      6000,
		"callback_edit_remove_current":                15000, "callback_edit_remove_delivered": 15000, "callback_edit_remove_pending": 15000,
		"callback_edit_add_below_cursor": 15000, "callback_edit_add_above_cursor": 15000, "callback_edit_add_beyond_capacity": 15000,
		"callback_edit_grow": 15000, "callback_panics_recovered": 10000,
	} {
		r.Require(k, v)
	}
	r.Finish()
}
