// instrument copies a golib working tree to a scratch directory and redirects
// the import paths "sync/atomic", "sync" and "runtime" of the non-test files of
// the named packages to the same-API shims of the harness module. Only the
// import string literals change; the algorithms' source text is untouched.
package main

import (
	"flag"
	"fmt"
	"go/parser"
	"go/token"
	"io/fs"
	"os"
	"path/filepath"
	"sort"
	"strconv"
	"strings"
)

var redirect = map[string]string{
	"sync/atomic": "verif/shim/atomic",
	"sync":        "verif/shim/sync",
	"runtime":     "verif/shim/runtime",
}

func main() {
	src := flag.String("src", "/repo", "golib working tree")
	dst := flag.String("dst", "", "destination directory")
	pkgs := flag.String("pkgs", "ringz,listz,mapz", "packages (directories) to instrument")
	flag.Parse()
	if *dst == "" {
		fmt.Fprintln(os.Stderr, "instrument: -dst required")
		os.Exit(2)
	}
	want := map[string]bool{}
	for _, p := range strings.Split(*pkgs, ",") {
		want[p] = true
	}
	closure(*src, want)
	rewritten := 0
	err := filepath.WalkDir(*src, func(path string, d fs.DirEntry, err error) error {
		if err != nil {
			return err
		}
		rel, _ := filepath.Rel(*src, path)
		if d.IsDir() {
			if d.Name() == ".git" {
				return filepath.SkipDir
			}
			return os.MkdirAll(filepath.Join(*dst, rel), 0o755)
		}
		if !d.Type().IsRegular() {
			return nil
		}
		if strings.HasSuffix(rel, "_test.go") {
			return nil
		}
		b, err := os.ReadFile(path)
		if err != nil {
			return err
		}
		dir := filepath.Dir(rel)
		if want[dir] && strings.HasSuffix(rel, ".go") {
			nb, n, err := rewrite(path, b)
			if err != nil {
				return fmt.Errorf("%s: %v", rel, err)
			}
			if n > 0 {
				fmt.Printf("instrument: %s: %d import(s) redirected\n", rel, n)
				rewritten += n
			}
			b = nb
		}
		return os.WriteFile(filepath.Join(*dst, rel), b, 0o644)
	})
	if err != nil {
		fmt.Fprintln(os.Stderr, "instrument:", err)
		os.Exit(1)
	}
	if rewritten == 0 {
		fmt.Fprintln(os.Stderr, "instrument: nothing to redirect (the packages no longer import sync/atomic, sync or runtime)")
	}
}

// closure adds to want every package directory of the same module that the wanted
// packages import, directly or indirectly: if the code under test moves a spin loop
// or an atomic counter into a helper package of the library, that package needs the
// scheduling points too (an uninstrumented spin would never hand the baton on).
func closure(src string, want map[string]bool) {
	mod := ""
	if b, err := os.ReadFile(filepath.Join(src, "go.mod")); err == nil {
		for _, l := range strings.Split(string(b), "\n") {
			if f := strings.Fields(l); len(f) == 2 && f[0] == "module" {
				mod = strings.Trim(f[1], "\"")
			}
		}
	}
	if mod == "" {
		return
	}
	var todo []string
	for d := range want {
		todo = append(todo, d)
	}
	for len(todo) > 0 {
		dir := todo[0]
		todo = todo[1:]
		ents, err := os.ReadDir(filepath.Join(src, dir))
		if err != nil {
			continue
		}
		for _, e := range ents {
			n := e.Name()
			if e.IsDir() || !strings.HasSuffix(n, ".go") || strings.HasSuffix(n, "_test.go") {
				continue
			}
			f, err := parser.ParseFile(token.NewFileSet(), filepath.Join(src, dir, n), nil, parser.ImportsOnly)
			if err != nil {
				continue
			}
			for _, im := range f.Imports {
				p, err := strconv.Unquote(im.Path.Value)
				if err != nil || !strings.HasPrefix(p, mod+"/") {
					continue
				}
				if d := strings.TrimPrefix(p, mod+"/"); !want[d] {
					want[d] = true
					todo = append(todo, d)
					fmt.Printf("instrument: %s added (imported by %s)\n", d, dir)
				}
			}
		}
	}
}

func rewrite(name string, src []byte) ([]byte, int, error) {
	fset := token.NewFileSet()
	f, err := parser.ParseFile(fset, name, src, parser.ImportsOnly)
	if err != nil {
		return nil, 0, err
	}
	type edit struct {
		off, end int
		text     string
	}
	var edits []edit
	for _, im := range f.Imports {
		p, err := strconv.Unquote(im.Path.Value)
		if err != nil {
			continue
		}
		if to, ok := redirect[p]; ok {
			edits = append(edits, edit{fset.Position(im.Path.Pos()).Offset, fset.Position(im.Path.End()).Offset, strconv.Quote(to)})
		}
	}
	sort.Slice(edits, func(i, j int) bool { return edits[i].off > edits[j].off })
	out := append([]byte(nil), src...)
	for _, e := range edits {
		out = append(out[:e.off], append([]byte(e.text), out[e.end:]...)...)
	}
	return out, len(edits), nil
}
