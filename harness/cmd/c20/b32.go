package main

import (
	"errors"
	"fmt"
	"strconv"
	"strings"

	"github.com/welllog/golib/randz"

	"verif/ev"
)

// the documented alphabet (specification, not read from golib)
const alphabet = "0123456789abcdefghjkmnprstuvwxyz"

var (
	inAlpha  [256]bool
	digitVal [256]int64
)

func init() {
	for i := 0; i < len(alphabet); i++ {
		inAlpha[alphabet[i]] = true
		digitVal[alphabet[i]] = int64(i)
	}
}

// boundaryIDs is the complete boundary list of the design.
func boundaryIDs() []int64 {
	seen := map[int64]bool{}
	var out []int64
	add := func(v int64) {
		if v >= 0 && !seen[v] {
			seen[v] = true
			out = append(out, v)
		}
	}
	for v := int64(0); v <= 70; v++ {
		add(v)
	}
	for k := uint(0); k <= 62; k++ {
		p := int64(1) << k
		add(p - 2)
		add(p - 1)
		add(p)
		add(p + 1)
		add(p + 2)
	}
	for k := uint(0); k <= 62; k += 5 { // powers of 32 and their multiples
		p := int64(1) << k
		for m := int64(1); m <= 33; m++ {
			if p <= (1<<62)/m {
				add(p*m - 1)
				add(p * m)
				add(p*m + 1)
			}
		}
	}
	const max = int64(1<<63 - 1)
	for d := int64(0); d <= 40; d++ {
		add(max - d)
	}
	add(max / 32)
	add(max/32 + 1)
	add(max / 36)
	return out
}

// checkID performs every per-ID assertion of the statement. It returns false
// after a failure.
func checkID(c *ev.Case, v int64) bool {
	id := randz.ID(v)
	var s32, s2, s36, s10 string
	if !c.Guard("Base32", func() { s32 = id.Base32() }) {
		return false
	}
	var back randz.ID
	var err error
	if !c.Guard("ParseBase32", func() { back, err = randz.ParseBase32([]byte(s32)) }) {
		return false
	}
	c.Logf("ID(%d).Base32() = %q; ParseBase32 -> %d, %v", v, s32, int64(back), err)
	if err != nil {
		c.Failf("b32-roundtrip-error", "ID(%d).Base32() = %q but ParseBase32(%q) returned error %v", v, s32, s32, err)
		return false
	}
	if back != id {
		c.Failf("b32-roundtrip", "ID(%d).Base32() = %q but ParseBase32(%q) = %d", v, s32, s32, int64(back))
		return false
	}
	c.Add("roundtrip_ids", 1)
	if len(s32) == 13 {
		c.Add("roundtrip_13digit_ids", 1)
	}
	c.Max("base32_max_digits", int64(len(s32)))
	if m, ok := modelValue(s32); ok && m == v && (len(s32) == 1 || s32[0] != '0') {
		c.Add("base32_is_positional_numeral", 1) // coverage only
	}
	if !c.Guard("Base2", func() { s2 = id.Base2() }) {
		return false
	}
	if !c.Guard("Base36", func() { s36 = id.Base36() }) {
		return false
	}
	if !c.Guard("String", func() { s10 = id.String() }) {
		return false
	}
	if want := strconv.FormatInt(v, 2); s2 != want {
		c.Failf("base2", "ID(%d).Base2() = %q, strconv.FormatInt(v,2) = %q", v, s2, want)
		return false
	}
	if want := strconv.FormatInt(v, 36); s36 != want {
		c.Failf("base36", "ID(%d).Base36() = %q, strconv.FormatInt(v,36) = %q", v, s36, want)
		return false
	}
	if want := strconv.FormatInt(v, 10); s10 != want {
		c.Failf("string", "ID(%d).String() = %q, strconv.FormatInt(v,10) = %q", v, s10, want)
		return false
	}
	var i64 int64
	if !c.Guard("Int64", func() { i64 = id.Int64() }) {
		return false
	}
	if i64 != v {
		c.Failf("int64", "ID(%d).Int64() = %d", v, i64)
		return false
	}
	c.Add("numeral_comparisons", 3)
	return true
}

func roundtripCase(c *ev.Case) {
	rng := c.Rng
	var ids []int64
	if c.Index == 0 {
		ids = boundaryIDs()
		c.Add("roundtrip_boundary_ids", int64(len(ids)))
	} else {
		ids = make([]int64, 0, 2000)
		for len(ids) < 2000 {
			var v int64
			switch rng.Intn(8) {
			case 0, 1, 2, 3: // uniform 63-bit
				v = int64(rng.Uint64() >> 1)
			case 4: // uniform bit length, so every digit count appears
				v = int64(rng.Uint64() >> uint(1+rng.Intn(63)))
			case 5: // around a power of 32
				p := int64(1) << uint(5*rng.Intn(13))
				m := int64(rng.Range(1, 40))
				if p <= (1<<62)/m {
					v = p*m + int64(rng.Range(-3, 3))
				}
			case 6: // around a power of two
				v = int64(1)<<uint(rng.Intn(63)) + int64(rng.Range(-3, 3))
			default: // runs of the highest / lowest digit
				n := rng.Range(1, 12)
				for k := 0; k < n; k++ {
					v = v*32 + int64(rng.Pick(0, 31, 31, 1, 30, rng.Intn(32)))
				}
				if rng.Bool() {
					v |= int64(rng.Range(1, 7)) << 60
				}
			}
			if v < 0 {
				v = -(v + 1)
			}
			ids = append(ids, v)
		}
	}
	h := uint64(len(ids))
	nontrivial := false
	for _, v := range ids {
		h = ev.Mix(h, uint64(v))
		if v >= 32 {
			nontrivial = true
		}
		if !checkID(c, v) {
			return
		}
	}
	if nontrivial {
		c.Distinct(h)
	}
	if c.WantSample() {
		n := len(ids)
		c.Sample(fmt.Sprintf("%d IDs round-tripped through Base32/ParseBase32 and compared with strconv in bases 2, 10, 36; first %v, last %v", n, ids[:3], ids[n-3:]))
	}
}

// modelValue is the positional value of a string of alphabet digits; ok is false
// if a byte is outside the alphabet or the value does not fit in [0, 2^63).
func modelValue(s string) (int64, bool) {
	if len(s) == 0 {
		return 0, false
	}
	var v int64
	for i := 0; i < len(s); i++ {
		if !inAlpha[s[i]] {
			return 0, false
		}
		if v > (1<<63-1)>>5 {
			return 0, false
		}
		v = v<<5 | digitVal[s[i]]
	}
	return v, true
}

func firstInvalid(b []byte) int {
	for i, x := range b {
		if !inAlpha[x] {
			return i
		}
	}
	return -1
}

type b32probe struct {
	c        *ev.Case
	bad      []string // offending inputs (collected in the exhaustive cases)
	collect  bool
	nBad     int
	nInvalid int
	nValid   int
}

// offer presents one input to ParseBase32 and judges the result. It returns
// false when the case should stop.
func (p *b32probe) offer(in []byte) bool {
	c := p.c
	var got randz.ID
	var err error
	if !c.Guard("ParseBase32", func() { got, err = randz.ParseBase32(in) }) {
		c.Logf("ParseBase32(%q) panicked", in)
		return false
	}
	if pos := firstInvalid(in); pos >= 0 {
		p.nInvalid++
		x := in[pos]
		switch {
		case x >= 'A' && x <= 'Z':
			c.Add("invalid_class_uppercase", 1)
		case x == 'i' || x == 'l' || x == 'o' || x == 'q':
			c.Add("invalid_class_excluded_letter", 1)
		case x >= 0x80:
			c.Add("invalid_class_high_byte", 1)
		case x < 0x20:
			c.Add("invalid_class_control", 1)
		default:
			c.Add("invalid_class_punct", 1)
		}
		if err == nil {
			c.Logf("ParseBase32(%q) -> %d, nil (byte 0x%02x at %d is outside the alphabet)", in, int64(got), x, pos)
			msg := fmt.Sprintf("ParseBase32(%q) = %d, <nil>: byte 0x%02x (%q) at position %d is outside the alphabet, want ErrInvalidBase32", in, int64(got), x, string(rune(x)), pos)
			if p.collect {
				p.bad = append(p.bad, fmt.Sprintf("%q", in))
				p.nBad++
				return true
			}
			c.Failf("b32-invalid-accepted", "%s", msg)
			return false
		}
		if !errors.Is(err, randz.ErrInvalidBase32) {
			c.Logf("ParseBase32(%q) -> %d, %v", in, int64(got), err)
			c.Failf("b32-wrong-error", "ParseBase32(%q) returned error %q, want ErrInvalidBase32 (byte 0x%02x at position %d is outside the alphabet)", in, err.Error(), x, pos)
			return false
		}
		c.Add("invalid_byte_inputs_rejected", 1)
		return true
	}
	// every byte is an alphabet digit: the statement speaks only about strings
	// that are the Base32 form of an ID, so ask the real Base32 whether this is one
	p.nValid++
	c.Add("valid_digit_inputs", 1)
	m, ok := modelValue(string(in))
	if !ok {
		c.Add("valid_digit_inputs_beyond_63_bits", 1)
		return true
	}
	var canon string
	if !c.Guard("Base32", func() { canon = randz.ID(m).Base32() }) {
		return false
	}
	if canon != string(in) {
		c.Add("valid_digit_inputs_not_canonical", 1) // leading zeros: nothing promised
		return true
	}
	if err != nil || int64(got) != m {
		c.Logf("ParseBase32(%q) -> %d, %v", in, int64(got), err)
		c.Failf("b32-roundtrip", "ID(%d).Base32() = %q but ParseBase32(%q) = %d, %v", m, canon, in, int64(got), err)
		return false
	}
	c.Add("valid_digit_inputs_roundtripped", 1)
	return true
}

func (p *b32probe) finishCollected(what string) {
	if len(p.bad) == 0 {
		return
	}
	show := p.bad
	if len(show) > 24 {
		show = show[:24]
	}
	p.c.Failf("b32-invalid-accepted", "%s: %d inputs containing a byte outside the alphabet were accepted (error nil) instead of ErrInvalidBase32; first: ParseBase32(%s); others: %s", what, p.nBad, p.bad[0], strings.Join(show, " "))
}

// exhaust offers every input prefix+tail for all 256^tail tails. Inputs with a
// byte outside the alphabet are judged on a fast path (one Guard around the
// loop); the digit strings among them go through offer.
func (p *b32probe) exhaust(prefix []byte, tail int, counter string) bool {
	c := p.c
	n := len(prefix) + tail
	buf := make([]byte, n)
	copy(buf, prefix)
	total := 1 << uint(8*tail)
	prefixBad := firstInvalid(prefix) >= 0
	var valid [][]byte
	var rejected, wrongErr int64
	var wrongErrIn string
	var wrongErrVal error
	ok := c.Guard("ParseBase32", func() {
		for x := 0; x < total; x++ {
			for k := 0; k < tail; k++ {
				buf[n-1-k] = byte(x >> uint(8*k))
			}
			_, err := randz.ParseBase32(buf)
			if prefixBad || firstInvalid(buf[len(prefix):]) >= 0 {
				p.nInvalid++
				switch {
				case err == nil:
					if len(p.bad) < 64 {
						p.bad = append(p.bad, fmt.Sprintf("%q", buf))
					}
					p.nBad++
				case err == randz.ErrInvalidBase32 || errors.Is(err, randz.ErrInvalidBase32):
					rejected++
				default:
					if wrongErr == 0 {
						wrongErrIn, wrongErrVal = fmt.Sprintf("%q", buf), err
					}
					wrongErr++
				}
			} else {
				valid = append(valid, append([]byte(nil), buf...))
			}
		}
	})
	if !ok {
		c.Logf("ParseBase32(%q) panicked", buf)
		return false
	}
	c.Add(counter, int64(total))
	c.Add("invalid_byte_inputs_rejected", rejected)
	if wrongErr > 0 {
		c.Failf("b32-wrong-error", "ParseBase32(%s) returned error %q, want ErrInvalidBase32 (%d such inputs)", wrongErrIn, wrongErrVal.Error(), wrongErr)
		return false
	}
	for _, in := range valid {
		if !p.offer(in) {
			return false
		}
	}
	return true
}

const (
	confusable = "iloqILOQABCDEFGHJKMNPRSTUVWXYZ"
	neighbours = "/:`{@[ghijklmnopqr\x00\x1f\x20\x7f\x80\xff"
)

func randDigits(rng *ev.Rand, n int, canonical bool) []byte {
	b := make([]byte, n)
	for i := range b {
		switch rng.Intn(6) {
		case 0:
			b[i] = alphabet[31]
		case 1:
			b[i] = alphabet[0]
		default:
			b[i] = alphabet[rng.Intn(32)]
		}
	}
	if canonical && n > 1 && b[0] == '0' {
		b[0] = alphabet[rng.Range(1, 31)]
	}
	if canonical && n >= 13 && digitVal[b[0]] > 7 {
		b[0] = alphabet[rng.Range(1, 7)]
	}
	return b
}

func bytesCase(c *ev.Case) {
	rng := c.Rng
	p := &b32probe{c: c}
	switch {
	case c.Index == 0: // the complete list of one-byte inputs
		p.collect = true
		if !p.exhaust(nil, 1, "single_byte_inputs") {
			return
		}
		p.finishCollected("all 256 one-byte inputs")
		c.Distinct(ev.HashString("all-1-byte"))
		if c.WantSample() {
			c.Sample(fmt.Sprintf("all 256 one-byte inputs: %d outside the alphabet, %d digits", p.nInvalid, p.nValid))
		}
		return
	case c.Index <= 256: // all two-byte inputs with this first byte
		p.collect = true
		first := byte(c.Index - 1)
		if !p.exhaust([]byte{first}, 1, "two_byte_inputs") {
			return
		}
		p.finishCollected(fmt.Sprintf("all 256 two-byte inputs starting with 0x%02x", first))
		c.Distinct(ev.Mix(ev.HashString("all-2-byte"), uint64(first)))
		if c.WantSample() {
			c.Sample(fmt.Sprintf("all 256 two-byte inputs starting with 0x%02x: %d with a byte outside the alphabet, %d digit strings", first, p.nInvalid, p.nValid))
		}
		return
	case c.Index <= 512: // all three-byte inputs with this first byte
		p.collect = true
		first := byte(c.Index - 257)
		if !p.exhaust([]byte{first}, 2, "three_byte_inputs") {
			return
		}
		p.finishCollected(fmt.Sprintf("all 65536 three-byte inputs starting with 0x%02x", first))
		c.Distinct(ev.Mix(ev.HashString("all-3-byte"), uint64(first)))
		return
	}
	// a digit string with every position replaced by every byte value
	var n int
	switch rng.Intn(10) {
	case 0:
		n = rng.Range(5, 13)
	case 1:
		n = rng.Range(13, 20)
	default:
		n = rng.Range(1, 4)
	}
	base := randDigits(rng, n, rng.Chance(3, 4))
	c.Logf("base digit string %q", base)
	buf := make([]byte, n)
	for pos := 0; pos < n; pos++ {
		for x := 0; x < 256; x++ {
			copy(buf, base)
			buf[pos] = byte(x)
			if !p.offer(buf) {
				return
			}
		}
		c.Add("positions_swept_with_256_values", 1)
	}
	c.Max("swept_string_max_len", int64(n))
	// two invalid bytes / invalid byte after a long valid prefix / random bytes
	for k := 0; k < 24; k++ {
		var in []byte
		switch rng.Intn(4) {
		case 0:
			in = rng.Bytes(rng.Range(1, 24))
		case 1:
			in = randDigits(rng, rng.Range(1, 30), false)
			in[rng.Intn(len(in))] = byte(rng.Intn(256))
			in[rng.Intn(len(in))] = byte(rng.Intn(256))
		case 2: // confusable letters and upper case
			in = randDigits(rng, rng.Range(1, 13), true)
			in[rng.Intn(len(in))] = confusable[rng.Intn(len(confusable))]
		default: // neighbours of the alphabet runs in byte order
			in = randDigits(rng, rng.Range(1, 13), true)
			in[rng.Intn(len(in))] = neighbours[rng.Intn(len(neighbours))]
		}
		if !p.offer(in) {
			return
		}
		c.Add("random_byte_strings", 1)
	}
	if p.nInvalid > 0 && p.nValid > 0 {
		c.Distinct(ev.HashBytes(base))
	}
	if c.WantSample() {
		c.Sample(fmt.Sprintf("digit string %q: each of its %d positions replaced by each of the 256 byte values (%d inputs with a byte outside the alphabet, %d digit strings), then 24 random byte strings", base, n, p.nInvalid, p.nValid))
	}
}

// bytes4Case: all 65536 four-byte inputs with a fixed two-byte prefix. In the
// quick tier the prefixes are the 1024 pairs of alphabet digits; in the thorough
// tier all 65536 prefixes, i.e. every four-byte input.
func bytes4Case(c *ev.Case) {
	var prefix []byte
	if c.Thorough() {
		prefix = []byte{byte(c.Index >> 8), byte(c.Index)}
	} else {
		prefix = []byte{alphabet[(c.Index>>5)&31], alphabet[c.Index&31]}
	}
	p := &b32probe{c: c, collect: true}
	if !p.exhaust(prefix, 2, "four_byte_inputs") {
		return
	}
	p.finishCollected(fmt.Sprintf("all 65536 four-byte inputs starting with %q", prefix))
	c.Distinct(ev.Mix(ev.HashString("all-4-byte"), uint64(prefix[0]), uint64(prefix[1])))
	if c.WantSample() {
		c.Sample(fmt.Sprintf("all 65536 four-byte inputs starting with %q: %d with a byte outside the alphabet, %d digit strings", prefix, p.nInvalid, p.nValid))
	}
}
