package main

// strength.go — histories the first engines never produced (harness/LESSONS.md):
//
//	count/staged   AddRule windows without any observing call, a different first
//	               observer (Generate / Min / Max) after every window, and the same
//	               (id, elapsed time) asked immediately before and immediately after a
//	               window (memo / lazily sorted rule list)
//	str/kept       Generate results kept while later calls are made (on the same and
//	               on a second generator sharing the random source) and examined again;
//	               a random source that panics in the middle of Generate followed by
//	               healthy calls on the same generator
//	str/edge       character sets of boundary runes (U+0000, U+007F/80, U+07FF/800,
//	               U+FFFF/10000, U+10FFFF, combining / zero-width / wide runes) and
//	               U+FFFD as a *member* of the set, judged byte-exactly
//	str/big        n around 4096, 65536 (2^20 thorough); sets of 32767..131073 runes
//	b32/kept       Base32 / Base2 / Base36 / String results of many IDs kept and only
//	               parsed / compared afterwards, input buffer reused by the caller
//	b32/long       inputs of 31..65537 bytes with one or two bytes outside the alphabet
//	id/odd-start   start times in the future, beyond the saturation of time.Duration
//	               on both sides, and without a monotonic reading: non-negative IDs
//	id/reader      child processes: crypto/rand.Reader replaced by a failing, partly
//	               failing, one-byte-at-a-time, all-ones or all-zero reader (the
//	               fallback path of Generate), then the real reader again
//	cold-start     one fresh process per case whose first golib call is ParseBase32
//	               (invalid / valid input), String, Id, Generate, Min or Base32
//	defaults       child processes: SetStrGeneratorCharSet / SetIdGeneratorStartTime
//	               re-configure the package-level generators, String and Id judged
//	               against the new configuration

import (
	srand "crypto/rand"
	"errors"
	"fmt"
	"io"
	"math"
	"math/rand"
	"strconv"
	"time"
	"unicode/utf8"

	"github.com/welllog/golib/randz"

	"verif/ev"
)

// ---------------------------------------------------------------- count/staged

func smallRules(rng *ev.Rand, nr, scale int) []ruleP {
	rules := make([]ruleP, nr)
	for i := range rules {
		var p int
		switch {
		case i > 0 && rng.Chance(1, 8):
			p = rules[rng.Intn(i)].period
		case i > 0 && rng.Chance(1, 6):
			p = rules[rng.Intn(i)].period + rng.Pick(-1, 1)
		default:
			p = rng.Range(1, scale)
		}
		if p < 1 {
			p = 1
		}
		var iv int
		switch rng.Intn(5) {
		case 0:
			iv = 1
		case 1:
			iv = p
		case 2:
			iv = p + rng.Range(1, 5)
		default:
			iv = rng.Range(1, 1+p/3)
		}
		rules[i] = ruleP{period: p, endMax: rng.Pick(1, 1, 2, 3, 10, 100, rng.Range(1, 1000)), interval: iv, incr: rng.Pick(1, 2, 2, 3, 4, 5, 10, rng.Range(1, 50))}
	}
	return rules
}

// countSweep: every observation of one stage (the rule set does not change inside a stage).
type countSweep struct {
	lo, hi     int
	mins, maxs []int
	gens       [][]int // per id
}

var observerNames = [3]string{"generate", "min", "max"}

// judgeProbe relates single observations (pGen for ids[0], pMin, pMax, all at the
// elapsed time d) to the sweep of the same stage: the rule set is the same, so every
// Generate observation must lie between every Min and every Max observation of the
// same elapsed time, and between the Generate observations of the neighbouring times.
func (s *countSut) judgeProbe(sw *countSweep, id string, d, pMin, pMax, pGen int, when string) bool {
	c := s.c
	i := d - sw.lo
	g := sw.gens[0]
	c.Logf("%s: Generate(%q, %d) = %d, Min(%d) = %d, Max(%d) = %d; sweep of the same rule set: Generate = %d, Min = %d, Max = %d", when, id, d, pGen, d, pMin, d, pMax, g[i], sw.mins[i], sw.maxs[i])
	switch {
	case pGen < sw.mins[i] || pGen > sw.maxs[i]:
		c.Failf("count-bounds", "Generate(%q, %d) = %d (%s) is outside [Min(%d), Max(%d)] = [%d, %d]; rules: %s", id, d, pGen, when, d, d, sw.mins[i], sw.maxs[i], rulesString(s.rules))
	case pGen < pMin || pGen > pMax:
		c.Failf("count-bounds", "Generate(%q, %d) = %d is outside [Min(%d), Max(%d)] = [%d, %d] (all three %s); rules: %s", id, d, pGen, d, d, pMin, pMax, when, rulesString(s.rules))
	case g[i] < pMin || g[i] > pMax:
		c.Failf("count-bounds", "Generate(%q, %d) = %d is outside [Min(%d), Max(%d)] = [%d, %d] (Min and Max %s); rules: %s", id, d, g[i], d, d, pMin, pMax, when, rulesString(s.rules))
	case i > 0 && pGen < g[i-1]:
		c.Failf("count-decreasing", "Generate(%q, %d) = %d (%s) is below Generate(%q, %d) = %d; rules: %s", id, d, pGen, when, id, d-1, g[i-1], rulesString(s.rules))
	case i+1 < len(g) && g[i+1] < pGen:
		c.Failf("count-decreasing", "Generate(%q, %d) = %d is below Generate(%q, %d) = %d (%s); rules: %s", id, d+1, g[i+1], id, d, pGen, when, rulesString(s.rules))
	default:
		return true
	}
	return false
}

func (s *countSut) probe(order []int, id string, d int) (pGen, pMin, pMax int, ok bool) {
	for _, o := range order {
		switch o {
		case 0:
			pGen, ok = s.generate(id, d)
		case 1:
			pMin, ok = s.min(d)
		default:
			pMax, ok = s.max(d)
		}
		if !ok {
			return
		}
	}
	return pGen, pMin, pMax, true
}

func countStagedCase(c *ev.Case) {
	rng := c.Rng
	nr := rng.Range(2, 7)
	rules := smallRules(rng, nr, rng.Pick(20, 60, 200, 600))
	s := &countSut{c: c, g: &randz.CountGenerator{}, tag: "countstaged"}
	nid := rng.Range(1, 3)
	ids := make([]string, nid)
	for i := range ids {
		ids[i] = randID(rng)
	}
	haveProbe, probeD := false, 0
	split := uint64(0)
	for added := 0; added < nr; {
		// ---- a window of AddRule calls without any observing call
		k := rng.Range(1, 3)
		if k > nr-added {
			k = nr - added
		}
		outOfOrder := false
		for j := 0; j < k; j++ {
			r := rules[added+j]
			for _, q := range s.rules {
				if r.period < q.period {
					outOfOrder = true
				}
			}
			if !c.Guard("Count.AddRule", func() { s.g.AddRule(r.period, r.endMax, r.interval, r.incr) }) {
				return
			}
			s.rules = append(s.rules, r)
			c.Logf("%s", r)
		}
		added += k
		split = split<<2 | uint64(k)
		c.Add("countstaged_addrule_windows", 1)
		if outOfOrder {
			c.Add("countstaged_windows_adding_a_smaller_period", 1)
		}
		order := rng.Perm(3)
		c.Add("countstaged_first_observer_"+observerNames[order[0]], 1)
		if outOfOrder {
			c.Add("countstaged_smaller_period_then_first_observer_"+observerNames[order[0]], 1)
		}
		maxP := 0
		for _, r := range s.rules {
			if r.period > maxP {
				maxP = r.period
			}
		}
		// ---- the calls made just before the window, repeated as the first calls after it
		var pGen, pMin, pMax int
		if haveProbe {
			var ok bool
			if pGen, pMin, pMax, ok = s.probe(order, ids[0], probeD); !ok {
				return
			}
		}
		// ---- complete sweeps, first observer first
		sw := &countSweep{lo: -2, hi: maxP + 12}
		n := sw.hi - sw.lo + 1
		c.Logf("observation order after the window: %s, %s, %s", observerNames[order[0]], observerNames[order[1]], observerNames[order[2]])
		for _, o := range order {
			switch o {
			case 0:
				sw.gens = make([][]int, nid)
				for i, id := range ids {
					g := make([]int, n)
					for d := sw.lo; d <= sw.hi; d++ {
						var ok bool
						if g[d-sw.lo], ok = s.generate(id, d); !ok {
							return
						}
					}
					sw.gens[i] = g
				}
			case 1:
				sw.mins = make([]int, n)
				for d := sw.lo; d <= sw.hi; d++ {
					var ok bool
					if sw.mins[d-sw.lo], ok = s.min(d); !ok {
						return
					}
				}
			default:
				sw.maxs = make([]int, n)
				for d := sw.lo; d <= sw.hi; d++ {
					var ok bool
					if sw.maxs[d-sw.lo], ok = s.max(d); !ok {
						return
					}
				}
			}
		}
		for i, id := range ids {
			g := sw.gens[i]
			for x, v := range g {
				d := sw.lo + x
				prevV := 0
				if x > 0 {
					prevV = g[x-1]
				}
				if !s.judge(id, d, v, sw.mins[x], sw.maxs[x], x > 0, d-1, prevV) {
					lo := x - 20
					if lo < 0 {
						lo = 0
					}
					c.Logf("Generate(%q, d) for d=%d..%d: %v", id, sw.lo+lo, d, g[lo:x+1])
					return
				}
			}
			c.Add("countstaged_generate_calls", int64(n))
		}
		if haveProbe {
			if !s.judgeProbe(sw, ids[0], probeD, pMin, pMax, pGen, "asked as the first calls after the AddRule window, with the arguments of the last calls before it") {
				return
			}
			c.Add("countstaged_probes_repeated_across_addrule", 1)
		}
		// ---- the last calls before the next window
		if added < nr {
			switch rng.Intn(3) {
			case 0:
				probeD = s.rules[rng.Intn(len(s.rules))].period + rng.Range(-1, 1)
			case 1:
				probeD = rng.Range(maxP, sw.hi-1)
			default:
				probeD = rng.Range(1, sw.hi-1)
			}
			if probeD < 1 {
				probeD = 1
			}
			qGen, qMin, qMax, ok := s.probe(rng.Perm(3), ids[0], probeD)
			if !ok {
				return
			}
			if !s.judgeProbe(sw, ids[0], probeD, qMin, qMax, qGen, "asked as the last calls before the next AddRule window") {
				return
			}
			haveProbe = true
		}
	}
	c.Add("countstaged_rule_sets", 1)
	c.Distinct(ev.Mix(rulesHash(rules), split))
	if c.WantSample() {
		c.Sample(fmt.Sprintf("%s added in windows of sizes (base 4) %o with no observing call inside a window; after every window a permuted first observer, complete sweeps for %d ids, and the probe asked just before the window asked again first", rulesString(rules), split, nid))
	}
}

// ---------------------------------------------------------------- strict string check

// checkStrStrict: exactly n runes, each the UTF-8 encoding of a member of the set.
// Unlike checkStr it does not let an ill-formed byte pass as U+FFFD when U+FFFD is a
// member of the set.
func checkStrStrict(c *ev.Case, what string, out string, n int, has func(rune) bool, setDesc string) bool {
	count := 0
	for i := 0; i < len(out); {
		r, w := utf8.DecodeRuneInString(out[i:])
		if r == utf8.RuneError && w <= 1 {
			c.Failf("str-foreign-rune", "%s: byte 0x%02x at offset %d (rune %d) of the result is not part of the UTF-8 encoding of any rune, so it is not drawn from the character set %s; result %s", what, out[i], i, count, setDesc, clip(out, 80))
			return false
		}
		if !has(r) {
			c.Failf("str-foreign-rune", "%s: rune %d of the result is %q (bytes % x), which is not in the character set %s; result %s", what, count, r, out[i:i+w], setDesc, clip(out, 80))
			return false
		}
		count++
		i += w
		if count > n+1 {
			break
		}
	}
	if count != n {
		more := ""
		if count > n {
			more = " at least"
		}
		c.Failf("str-length", "%s returned%s %d runes (%d bytes), want exactly %d; result %s", what, more, count, len(out), n, clip(out, 80))
		return false
	}
	return true
}

func mapHas(set map[rune]struct{}) func(rune) bool {
	return func(r rune) bool { _, ok := set[r]; return ok }
}

// ---------------------------------------------------------------- str/kept

type srcFault struct{}

// faultSource: a full-entropy source that can be told to panic at its k-th word of
// the current Generate call; past `hard` words it panics with a message (a Generate
// that makes no progress then becomes a violation instead of a hang).
type faultSource struct {
	inner   rand.Source
	calls   int
	panicAt int
	hard    int
	total   int64
}

func (s *faultSource) Int63() int64 {
	s.calls++
	s.total++
	if s.panicAt > 0 && s.calls == s.panicAt {
		panic(srcFault{})
	}
	if s.calls > s.hard {
		panic(fmt.Sprintf("verif random source: Generate drew %d words of a full-entropy source and still has not returned", s.calls))
	}
	return s.inner.Int63()
}

func (s *faultSource) Seed(int64) {}

func (s *faultSource) arm(n, panicAt int) {
	s.calls, s.panicAt, s.hard = 0, panicAt, 64*n+4096
}

type keptResult struct {
	out  string
	n    int
	gen  int
	step int
}

type keptGen struct {
	g      randz.StrGenerator
	src    *faultSource
	setStr string
	has    func(rune) bool
	size   int
	faulty bool // the previous call on this generator ended in a panic of the source
}

func strKeptCase(c *ev.Case) {
	rng := c.Rng
	ng := rng.Pick(1, 2, 2, 3)
	shareSource := rng.Bool()
	shared := &faultSource{inner: rand.NewSource(int64(rng.Uint64()))}
	gens := make([]*keptGen, ng)
	h := uint64(ng)
	multiAny := false
	for i := range gens {
		var kg *keptGen
		if i > 0 && rng.Chance(1, 3) {
			// the same character set configured twice
			kg = &keptGen{setStr: gens[0].setStr, has: gens[0].has, size: gens[0].size}
			c.Add("strkept_generators_with_equal_sets", 1)
		} else {
			size := rng.Pick(1, 2, 3, 5, 8, 16, 31, 33, 64, 100)
			var setStr string
			var set map[rune]struct{}
			var multi bool
			for try := 0; try < 4; try++ { // prefer sets of mixed rune widths
				setStr, set, multi, _ = makeSet(rng, size)
				if multi {
					break
				}
			}
			multiAny = multiAny || multi
			kg = &keptGen{setStr: setStr, has: mapHas(set), size: size}
		}
		if shareSource {
			kg.src = shared
		} else {
			kg.src = &faultSource{inner: rand.NewSource(int64(rng.Uint64()))}
		}
		if !c.Guard("NewStrGenerator", func() { kg.g = randz.NewStrGenerator(kg.setStr, kg.src) }) {
			return
		}
		c.Logf("generator %d: NewStrGenerator(%s [%d runes], source shared=%v)", i, clip(kg.setStr, 60), kg.size, shareSource)
		h = ev.Mix(h, ev.HashString(kg.setStr))
		gens[i] = kg
	}
	if ng > 1 && shareSource {
		c.Add("strkept_cases_sharing_one_source", 1)
	}
	var kept []keptResult
	recheck := func(now int) bool {
		for _, k := range kept {
			kg := gens[k.gen]
			what := fmt.Sprintf("the result of Generate(%d) of generator %d (%d-rune set), kept by the caller and examined again after %d further Generate calls,", k.n, k.gen, kg.size, now-k.step)
			if !checkStrStrict(c, what, k.out, k.n, kg.has, clip(kg.setStr, 80)) {
				return false
			}
		}
		c.Add("strkept_results_rechecked", int64(len(kept)))
		return true
	}
	steps := rng.Range(24, 60)
	lastGen, lastN := 0, 5
	for step := 0; step < steps; step++ {
		gi := lastGen
		if ng > 1 && rng.Chance(2, 3) {
			gi = rng.Intn(ng)
		}
		if gi != lastGen {
			c.Add("strkept_generator_switches", 1)
		}
		kg := gens[gi]
		n := rng.Pick(0, 1, 2, 3, 5, 8, 13, 21, 40, lastN, lastN, rng.Range(0, 64), rng.Range(64, 300))
		panicAt := 0
		if rng.Chance(1, 6) {
			panicAt = rng.Pick(1, 1, 2, 3)
			n = 63*(panicAt-1) + rng.Range(1, 40) // needs at least panicAt words for any set
		}
		kg.src.arm(n, panicAt)
		var out string
		faulted := false
		ok := c.Guard("Generate", func() {
			defer func() {
				if p := recover(); p != nil {
					if _, mine := p.(srcFault); mine {
						faulted = true
						return
					}
					panic(p)
				}
			}()
			out = kg.g.Generate(n)
		})
		if !ok {
			c.Logf("generator %d: Generate(%d) panicked after %d source words", gi, n, kg.src.calls)
			return
		}
		lastGen = gi
		if faulted {
			c.Logf("generator %d: Generate(%d): the random source panicked at its word %d (recovered by the caller)", gi, n, panicAt)
			c.Add("strkept_source_panics_recovered", 1)
			kg.faulty = true
			if shareSource {
				for _, o := range gens {
					o.faulty = true
				}
			}
			continue
		}
		lastN = n
		c.Logf("generator %d: Generate(%d) -> %s [%d source words]", gi, n, clip(out, 70), kg.src.calls)
		what := fmt.Sprintf("generator %d (%d-rune set): Generate(%d)", gi, kg.size, n)
		if kg.faulty {
			what += " (the previous Generate on this generator was aborted by a panic of its random source)"
		}
		if !checkStrStrict(c, what, out, n, kg.has, clip(kg.setStr, 80)) {
			return
		}
		c.Add("strkept_generate_calls", 1)
		if panicAt > 0 {
			c.Add("strkept_armed_panics_not_reached", 1)
		}
		if kg.faulty {
			kg.faulty = false
			c.Add("strkept_calls_after_source_panic", 1)
		}
		kept = append(kept, keptResult{out: out, n: n, gen: gi, step: step})
		if rng.Chance(1, 5) && !recheck(step) {
			return
		}
	}
	if !recheck(steps) || !recheck(steps) {
		return
	}
	if multiAny || ng > 1 {
		c.Distinct(h)
	}
	if c.WantSample() {
		c.Sample(fmt.Sprintf("%d generators (first set %s, one shared source: %v), %d Generate calls of which some aborted by a panicking source; all %d results kept and examined again after the later calls", ng, clip(gens[0].setStr, 30), shareSource, steps, len(kept)))
	}
}

// ---------------------------------------------------------------- str/edge

var edgeRunes = []rune{0, 1, '\n', ' ', '0', 'a', 0x7F, 0x80, 0xFF, 0x100, 0x7FF, 0x800, 0xFFF, 0x1000, 0xD7FF, 0xE000,
	0xFFFC, 0xFFFD, 0xFFFE, 0xFFFF, 0x10000, 0x10FFFF, 0x0301, 0x200B, 0x200D, 0xFEFF, 0x3000, 0xFF21, 0x1F600, 0xE0001}

func strEdgeCase(c *ev.Case) {
	rng := c.Rng
	var rs []rune
	switch rng.Intn(8) {
	case 0: // U+FFFD is the whole set
		for k := rng.Pick(1, 1, 1, 2, 3); k > 0; k-- {
			rs = append(rs, utf8.RuneError)
		}
	case 1: // U+FFFD and a few others
		rs = append(rs, utf8.RuneError)
		for k := rng.Range(1, 5); k > 0; k-- {
			rs = append(rs, edgeRunes[rng.Intn(len(edgeRunes))])
		}
	case 2: // a single boundary rune
		rs = append(rs, edgeRunes[rng.Intn(len(edgeRunes))])
	default:
		for k := rng.Range(2, 12); k > 0; k-- {
			if rng.Chance(1, 6) {
				rs = append(rs, rune('b'+rng.Intn(20)))
			} else {
				rs = append(rs, edgeRunes[rng.Intn(len(edgeRunes))])
			}
		}
	}
	p := rng.Perm(len(rs))
	sh := make([]rune, len(rs))
	for i, j := range p {
		sh[i] = rs[j]
	}
	setStr := string(sh)
	set := map[rune]struct{}{}
	for _, r := range sh {
		set[r] = struct{}{}
	}
	_, hasFFFD := set[utf8.RuneError]
	src := &faultSource{inner: rand.NewSource(int64(rng.Uint64()))}
	var g randz.StrGenerator
	desc := fmt.Sprintf("%+q", setStr)
	if !c.Guard("NewStrGenerator", func() { g = randz.NewStrGenerator(setStr, src) }) {
		c.Logf("NewStrGenerator(%s) panicked", desc)
		return
	}
	c.Logf("NewStrGenerator(%s)", desc)
	c.Add("stredge_sets", 1)
	if hasFFFD {
		c.Add("stredge_sets_with_U+FFFD_member", 1)
		if len(set) == 1 {
			c.Add("stredge_sets_of_U+FFFD_only", 1)
		}
	}
	if _, ok := set[0]; ok {
		c.Add("stredge_sets_with_U+0000", 1)
	}
	if _, ok := set[utf8.MaxRune]; ok {
		c.Add("stredge_sets_with_U+10FFFF", 1)
	}
	ns := rng.Perm(34)
	ns = append(ns, rng.Pick(63, 64, 65, 127, 200))
	for _, n := range ns {
		src.arm(n, 0)
		var out string
		if !c.Guard("Generate", func() { out = g.Generate(n) }) {
			c.Logf("Generate(%d) panicked", n)
			return
		}
		c.Logf("Generate(%d) -> %+q", n, out)
		if !checkStrStrict(c, fmt.Sprintf("NewStrGenerator(%s).Generate(%d)", desc, n), out, n, mapHas(set), desc) {
			return
		}
		c.Add("stredge_generate_calls", 1)
		if hasFFFD && n > 0 {
			c.Add("stredge_results_checked_bytewise_against_U+FFFD_sets", 1)
		}
	}
	c.Distinct(ev.HashString(setStr))
	if c.WantSample() {
		c.Sample(fmt.Sprintf("set %s: Generate(n) for n in 0..33 and %d, judged byte-exactly (an ill-formed byte is not U+FFFD)", desc, ns[len(ns)-1]))
	}
}

// ---------------------------------------------------------------- str/big

// runeBits is a membership bitmap over all code points.
type runeBits []uint64

func (b runeBits) set(r rune) { b[r>>6] |= 1 << uint(r&63) }
func (b runeBits) has(r rune) bool {
	return r >= 0 && int(r>>6) < len(b) && b[r>>6]&(1<<uint(r&63)) != 0
}

func strBigCase(c *ev.Case) {
	rng := c.Rng
	src := &faultSource{inner: rand.NewSource(int64(rng.Uint64()))}
	if c.Index%3 != 0 {
		// ---- big n, ordinary set
		size := rng.Pick(1, 2, 3, 31, 32, 33, 64, 100)
		setStr, set, _, _ := makeSet(rng, size)
		var g randz.StrGenerator
		if !c.Guard("NewStrGenerator", func() { g = randz.NewStrGenerator(setStr, src) }) {
			return
		}
		ns := []int{rng.Pick(4095, 4096, 4097, 8191, 8192, 8193), rng.Pick(65535, 65536, 65537), rng.Range(4098, 70000)}
		if c.Thorough() && c.Index%4 == 1 {
			ns = append(ns, rng.Pick(1<<20-1, 1<<20, 1<<20+1))
		}
		c.Logf("NewStrGenerator(%s [%d runes]); n = %v", clip(setStr, 60), size, ns)
		for _, n := range ns {
			src.arm(n, 0)
			var out string
			if !c.Guard("Generate", func() { out = g.Generate(n) }) {
				c.Logf("Generate(%d) panicked", n)
				return
			}
			if !checkStrStrict(c, fmt.Sprintf("NewStrGenerator(%d-rune set %s).Generate(%d)", size, clip(setStr, 40), n), out, n, mapHas(set), clip(setStr, 80)) {
				return
			}
			c.Add("strbig_calls_n_ge_4095", 1)
			if n >= 65535 {
				c.Add("strbig_calls_n_ge_65535", 1)
			}
			if n >= 1<<20-1 {
				c.Add("strbig_calls_n_ge_2^20-1", 1)
			}
			c.Max("strbig_max_n", int64(n))
		}
		c.Distinct(ev.Mix(ev.HashString(setStr), uint64(ns[0]), uint64(ns[2])))
		if c.WantSample() {
			c.Sample(fmt.Sprintf("set %s (%d runes): Generate(n) for n = %v", clip(setStr, 30), size, ns))
		}
		return
	}
	// ---- big set
	size := rng.Pick(32767, 32768, 32769, 65535, 65536, 65537, 70000)
	if c.Thorough() && rng.Chance(1, 3) {
		size = rng.Pick(131071, 131072, 131073, 1<<18+1)
	}
	bits := make(runeBits, (utf8.MaxRune+64)/64)
	rs := make([]rune, 0, size)
	r3 := rune(0x800 + rng.Intn(0x3000))
	r4 := rune(0x10000 + rng.Intn(0x80000))
	for len(rs) < size {
		var r rune
		if len(rs)%3 == 0 {
			r = r4
			r4++
		} else {
			if r3 == 0xD800 {
				r3 = 0xE000
			}
			if r3 > 0xFFFF { // three-byte runes used up: go on with four-byte ones
				r = r4
				r4++
			} else {
				r = r3
				r3++
			}
		}
		rs = append(rs, r)
		bits.set(r)
	}
	if rng.Bool() { // a few one- and two-byte runes inside
		for k := 0; k < 40; k++ {
			rs[rng.Intn(len(rs))] = rune(rng.Range(0x21, 0x7FF))
		}
		// a replaced rune is a member only if it still occurs: rebuild the bitmap
		for i := range bits {
			bits[i] = 0
		}
		for _, r := range rs {
			bits.set(r)
		}
	}
	setStr := string(rs)
	var g randz.StrGenerator
	if !c.Guard("NewStrGenerator", func() { g = randz.NewStrGenerator(setStr, src) }) {
		c.Logf("NewStrGenerator(%d-rune set) panicked", size)
		return
	}
	c.Logf("NewStrGenerator(%d-rune set starting %s)", size, clip(setStr, 20))
	c.Add("strbig_sets_ge_32767", 1)
	if size >= 65535 {
		c.Add("strbig_sets_ge_65535", 1)
	}
	c.Max("strbig_max_set_size", int64(size))
	for _, n := range []int{0, 1, 2, 7, 33, 64, 500, rng.Range(65, 2000)} {
		src.arm(n, 0)
		var out string
		if !c.Guard("Generate", func() { out = g.Generate(n) }) {
			c.Logf("Generate(%d) panicked after %d source words", n, src.calls)
			return
		}
		c.Logf("Generate(%d) -> %s [%d source words]", n, clip(out, 40), src.calls)
		if !checkStrStrict(c, fmt.Sprintf("NewStrGenerator(%d-rune set).Generate(%d)", size, n), out, n, bits.has, fmt.Sprintf("of %d runes starting %s", size, clip(setStr, 20))) {
			return
		}
		c.Add("strbig_bigset_generate_calls", 1)
	}
	c.Distinct(ev.Mix(uint64(size), uint64(rs[0]), uint64(rs[1])))
	if c.WantSample() {
		c.Sample(fmt.Sprintf("set of %d three- and four-byte runes: Generate(n) for several n up to 2000", size))
	}
}

// ---------------------------------------------------------------- b32/kept

func randID63(rng *ev.Rand) int64 {
	var v int64
	switch rng.Intn(6) {
	case 0, 1:
		v = int64(rng.Uint64() >> 1)
	case 2:
		v = int64(rng.Uint64() >> uint(1+rng.Intn(63)))
	case 3:
		p := int64(1) << uint(5*rng.Intn(13))
		m := int64(rng.Range(1, 40))
		if p <= (1<<62)/m {
			v = p*m + int64(rng.Range(-3, 3))
		}
	case 4:
		v = int64(1)<<uint(rng.Intn(63)) + int64(rng.Range(-3, 3))
	default:
		v = math.MaxInt64 - int64(rng.Intn(1000))
	}
	if v < 0 {
		v = -(v + 1)
	}
	return v
}

func b32KeptCase(c *ev.Case) {
	rng := c.Rng
	m := rng.Range(8, 120)
	ids := make([]int64, m)
	for i := range ids {
		if i > 0 && rng.Chance(1, 10) {
			ids[i] = ids[rng.Intn(i)] // the same ID again
		} else {
			ids[i] = randID63(rng)
		}
	}
	s32 := make([]string, m)
	s2 := make([]string, m)
	s36 := make([]string, m)
	s10 := make([]string, m)
	// every encoding first, all results kept
	for i, v := range ids {
		id := randz.ID(v)
		if !c.Guard("Base32", func() { s32[i] = id.Base32() }) {
			return
		}
		if rng.Chance(1, 3) {
			if !c.Guard("numerals", func() { s2[i], s36[i], s10[i] = id.Base2(), id.Base36(), id.String() }) {
				return
			}
		}
		c.Logf("ID(%d).Base32() = %q (kept)", v, s32[i])
	}
	buf := make([]byte, 0, 16)
	parse := func(i int, reuse bool, when string) bool {
		var in []byte
		if reuse {
			buf = append(buf[:0], s32[i]...)
			in = buf
		} else {
			in = []byte(s32[i])
		}
		var back randz.ID
		var err error
		if !c.Guard("ParseBase32", func() { back, err = randz.ParseBase32(in) }) {
			return false
		}
		c.Logf("%s: ParseBase32(%q) [kept result of ID(%d).Base32()] -> %d, %v", when, in, ids[i], int64(back), err)
		if err != nil || int64(back) != ids[i] {
			c.Failf("b32-roundtrip", "the result of ID(%d).Base32(), kept while %d other IDs were encoded, is %q %s and ParseBase32 of it returns %d, %v", ids[i], m-1, s32[i], when, int64(back), err)
			return false
		}
		c.Add("b32kept_results_parsed_later", 1)
		if reuse {
			c.Add("b32kept_parsed_from_reused_buffer", 1)
		}
		return true
	}
	for _, i := range rng.Perm(m) {
		if !parse(i, rng.Bool(), "after all encodings") {
			return
		}
		if rng.Chance(1, 4) {
			// an input with a byte outside the alphabet through the same buffer
			buf = append(buf[:0], s32[i]...)
			buf[rng.Intn(len(buf))] = confusable[rng.Intn(len(confusable))]
			var err error
			var got randz.ID
			if !c.Guard("ParseBase32", func() { got, err = randz.ParseBase32(buf) }) {
				return
			}
			if !errors.Is(err, randz.ErrInvalidBase32) {
				c.Failf("b32-invalid-accepted", "ParseBase32(%q) = %d, %v: the input has a byte outside the alphabet, want ErrInvalidBase32 (buffer reused by the caller; it held %q before)", buf, int64(got), err, s32[i])
				return
			}
			c.Add("b32kept_invalid_through_reused_buffer", 1)
		}
	}
	for i := range ids {
		if !parse(i, false, "on the second pass") {
			return
		}
		if s10[i] != "" {
			if w2, w36, w10 := strconv.FormatInt(ids[i], 2), strconv.FormatInt(ids[i], 36), strconv.FormatInt(ids[i], 10); s2[i] != w2 || s36[i] != w36 || s10[i] != w10 {
				c.Failf("numeral-kept", "ID(%d): the kept results of Base2/Base36/String are %q / %q / %q after the later calls, the standard numerals are %q / %q / %q", ids[i], s2[i], s36[i], s10[i], w2, w36, w10)
				return
			}
			c.Add("b32kept_numerals_compared_later", 3)
		}
	}
	h := uint64(m)
	for _, v := range ids {
		h = ev.Mix(h, uint64(v))
	}
	c.Distinct(h)
	if c.WantSample() {
		c.Sample(fmt.Sprintf("%d IDs encoded first (first %v), every Base32 result kept and parsed twice afterwards, in permuted order, partly through one reused caller buffer", m, ids[:3]))
	}
}

// ---------------------------------------------------------------- b32/long

func b32LongCase(c *ev.Case) {
	rng := c.Rng
	var n int
	switch rng.Intn(20) {
	case 0:
		n = rng.Pick(65535, 65536, 65537)
	case 1, 2:
		n = rng.Pick(4095, 4096, 4097, 1000, 10000)
	case 3, 4, 5:
		n = rng.Range(31, 300)
	default:
		n = rng.Pick(31, 32, 33, 63, 64, 65, 66, 100, 127, 128, 129, 255, 256, 257)
	}
	base := randDigits(rng, n, false)
	if rng.Chance(1, 3) { // zeros everywhere: the value never overflows
		for i := range base {
			base[i] = '0'
		}
	}
	p := &b32probe{c: c}
	c.Logf("%d-byte digit string %q...", n, base[:24])
	buf := make([]byte, n)
	invalid := func() byte {
		for {
			var x byte
			switch rng.Intn(4) {
			case 0:
				x = confusable[rng.Intn(len(confusable))]
			case 1:
				x = neighbours[rng.Intn(len(neighbours))]
			case 2:
				x = byte(0x80 + rng.Intn(0x80))
			default:
				x = byte(rng.Intn(256))
			}
			if !inAlpha[x] {
				return x
			}
		}
	}
	pos := []int{0, 1, 7, 8, n - 1, n - 2, n - 12, n - 13, n - 14, n - 15, n - 26, n - 27, n / 2}
	for k := 0; k < 24; k++ {
		pos = append(pos, rng.Intn(n))
	}
	for _, at := range pos {
		if at < 0 || at >= n {
			continue
		}
		copy(buf, base)
		buf[at] = invalid()
		if !p.offer(buf) {
			c.Logf("%d-byte input, byte 0x%02x at position %d", n, buf[at], at)
			return
		}
		c.Add("b32long_inputs_one_invalid_byte", 1)
		if n-at > 13 {
			c.Add("b32long_invalid_byte_before_the_last_13", 1)
		}
		if rng.Chance(1, 5) {
			buf[rng.Intn(n)] = invalid()
			if !p.offer(buf) {
				return
			}
			c.Add("b32long_inputs_two_invalid_bytes", 1)
		}
	}
	if !p.offer(base) { // all digits: nothing is promised unless it is the Base32 form of an ID
		return
	}
	c.Max("b32long_max_len", int64(n))
	if n >= 4095 {
		c.Add("b32long_cases_len_ge_4095", 1)
	}
	c.Distinct(ev.HashBytes(base))
	if c.WantSample() {
		c.Sample(fmt.Sprintf("%d-byte digit string %q...: one byte outside the alphabet at each of %d positions (ends, around the last 13 and 26 digits, random), sometimes a second one", n, base[:16], len(pos)))
	}
}

// ---------------------------------------------------------------- id/odd-start

func pickTime(rng *ev.Rand, ts ...time.Time) time.Time { return ts[rng.Intn(len(ts))] }

func idOddStartCase(c *ev.Case) {
	rng := c.Rng
	rb := rng.Pick(2, 3, 16, 18, 21, 22, 22, 30, 0, rng.Range(2, 22))
	var start time.Time
	var desc, counter string
	key := rng.Uint64() // the start times are relative to the time of the run; the case is (kind, randBit, key)
	kind := rng.Intn(8)
	switch kind {
	case 0, 1, 2: // in the future: the elapsed time is negative
		var offMs int64
		switch rng.Intn(5) {
		case 0:
			offMs = int64(rng.Range(1, 5000))
		case 1:
			offMs = 3600*1000*24 + int64(rng.Intn(1000000))
		case 2:
			offMs = wrapMs + int64(rng.Range(-3, 3))
		case 3:
			offMs = int64(rng.Uint64()>>uint(21+rng.Intn(30))) + 1 // up to 2^43 ms
		default:
			offMs = int64(1)<<uint(rng.Intn(43)) + 1
		}
		off := time.Duration(offMs)*time.Millisecond + time.Duration(rng.Intn(1000000))
		start = time.Now().Add(off)
		desc = fmt.Sprintf("now + %v (in the future)", off)
		counter = "idodd_ids_future_start"
	case 3: // more than the largest time.Duration in the past
		start = pickTime(rng, time.Time{}, time.Date(1, 1, 1, 0, 0, 0, 1, time.UTC), time.Date(1600, 2, 29, 12, 0, 0, 0, time.UTC))
		desc = fmt.Sprintf("%v (elapsed time saturates)", start)
		counter = "idodd_ids_saturated_past_start"
	case 4: // more than the largest time.Duration in the future
		start = time.Date(rng.Pick(2400, 5000, 9999), 12, 31, 23, 59, 59, 999999999, time.UTC)
		desc = fmt.Sprintf("%v (negative elapsed time saturates)", start)
		counter = "idodd_ids_saturated_future_start"
	case 5: // no monotonic reading, in the past
		start = pickTime(rng, time.Unix(0, 0), time.Date(2023, 2, 27, 0, 30, 0, 0, time.UTC), time.Date(1950, 1, 1, 0, 0, 0, 0, time.FixedZone("x", 5*3600+1800)), time.Now().Round(0).Add(-time.Hour))
		desc = fmt.Sprintf("%v (wall clock only)", start)
		counter = "idodd_ids_wallclock_past_start"
	case 6: // no monotonic reading, in the future
		start = time.Now().Round(0).Add(time.Duration(rng.Range(1, 100000)) * time.Second)
		desc = fmt.Sprintf("%v (wall clock only, in the future)", start)
		counter = "idodd_ids_future_start"
	default: // "now": the elapsed time is 0 or a few ns
		start = time.Now()
		desc = "now"
		counter = "idodd_ids_start_now"
	}
	var g randz.IdGenerator
	if !c.Guard("NewIdGenerator", func() { g = randz.NewIdGenerator(start, rb) }) {
		return
	}
	c.Logf("NewIdGenerator(%s, randBit=%d)", desc, rb)
	calls := rng.Range(4, 16)
	elapsed := func() int64 { return time.Since(start).Milliseconds() }
	for k := 0; k < calls; k++ {
		var id randz.ID
		b, wb := elapsed(), time.Now().UnixMilli()
		if !c.Guard("Generate", func() { id = g.Generate() }) {
			return
		}
		c.Logf("Generate() = %d", int64(id))
		if id < 0 {
			c.Failf("id-negative", "NewIdGenerator(%s, randBit=%d).Generate() = %d is negative", desc, rb, int64(id))
			return
		}
		c.Add(counter, 1)
		if a := elapsed(); kind == 3 && a == b && b == math.MaxInt64/1000000 {
			// The start lies more than the largest time.Duration back, so time.Since(start)
			// is that largest Duration whenever it is read: no clock is involved and the
			// reading is known exactly. An ID that carries this reading is accepted, and so
			// is one that carries the unsaturated number of milliseconds between the start
			// and now (taken from two readings of the wall clock around the call, one
			// millisecond of slack on either side; this alternative only ever accepts).
			tb, ta := wb-start.UnixMilli()-1, time.Now().UnixMilli()-start.UnixMilli()+1
			wlo, whi := widthRange(rb)
			switch {
			case timeFieldWidth(int64(id), b, a, wlo, whi) >= 0:
				c.Add("idodd_saturated_past_time_fields_checked", 1)
			case tb <= ta && timeFieldWidth(int64(id), tb, ta, wlo, whi) >= 0:
				c.Add("idodd_saturated_past_time_fields_checked", 1)
				c.Add("idodd_saturated_past_time_fields_unsaturated", 1)
			default:
				c.Failf("id-time-field", "NewIdGenerator(%s, randBit=%d): Generate() = %d (binary %b) does not carry the elapsed milliseconds above %s: time.Since(start).Milliseconds() is %d before and after the call (mod 2^41: %d, binary %b), the unsaturated difference of the two dates is %d..%d ms (mod 2^41: %d..%d)", desc, rb, int64(id), int64(id), widthText(wlo, whi), b, b&timeMask, b&timeMask, tb, ta, tb&timeMask, ta&timeMask)
				return
			}
		}
	}
	c.Distinct(ev.Mix(uint64(kind), uint64(rb), key))
	if c.WantSample() {
		c.Sample(fmt.Sprintf("NewIdGenerator(%s, randBit=%d): %d IDs, all non-negative", desc, rb, calls))
	}
}

// ---------------------------------------------------------------- cold-start

const coldKinds = 8

// coldCase runs alone in a freshly started process: the call named by the kind is
// the first call into golib that the process makes.
func coldCase(c *ev.Case) {
	rng := c.Rng
	kind := c.Index % coldKinds
	p := &b32probe{c: c}
	c.Logf("cold start kind %d", kind)
	switch kind {
	case 0: // ParseBase32 of one byte outside the alphabet
		x := []byte{confusable[rng.Intn(len(confusable))]}
		if !p.offer(x) {
			return
		}
		c.Add("cold_start_first_call_parse_invalid", 1)
		for b := 0; b < 256; b++ {
			if !p.offer([]byte{byte(b)}) {
				return
			}
		}
	case 1: // ParseBase32 of a longer input with a high / control byte
		in := randDigits(rng, rng.Range(2, 13), true)
		in[rng.Intn(len(in))] = byte(rng.Pick(0x00, 0x1f, 0x80, 0xb1, 0xe1, 0xff, 'I', 'o', 'Z', '/'))
		if !p.offer(in) {
			return
		}
		c.Add("cold_start_first_call_parse_invalid", 1)
	case 2: // ParseBase32 of a digit string (judged if it is the Base32 form of an ID)
		in := randDigits(rng, rng.Range(1, 12), true)
		if !p.offer(in) {
			return
		}
		c.Add("cold_start_first_call_parse_digits", 1)
	case 3: // the package-level String
		n := rng.Range(1, 40)
		var out string
		if !c.Guard("String", func() { out = randz.String(n) }) {
			return
		}
		def := map[rune]struct{}{}
		for _, r := range randz.CHAR_SET {
			def[r] = struct{}{}
		}
		c.Logf("randz.String(%d) -> %q", n, out)
		if !checkStrStrict(c, fmt.Sprintf("randz.String(%d) as the first call of a process", n), out, n, mapHas(def), randz.CHAR_SET) {
			return
		}
		c.Add("cold_start_first_call_default_string", 1)
	case 4: // the package-level Id
		var id randz.ID
		if !c.Guard("Id", func() { id = randz.Id() }) {
			return
		}
		c.Logf("randz.Id() -> %d", int64(id))
		if id < 0 {
			c.Failf("id-negative", "randz.Id() = %d as the first call of a process is negative", int64(id))
			return
		}
		c.Add("cold_start_first_call_default_id", 1)
	case 5: // a private string generator
		setStr, set, _, _ := makeSet(rng, rng.Pick(1, 3, 31, 33))
		src := &faultSource{inner: rand.NewSource(int64(rng.Uint64()))}
		n := rng.Range(0, 40)
		src.arm(n, 0)
		var out string
		if !c.Guard("Generate", func() { g := randz.NewStrGenerator(setStr, src); out = g.Generate(n) }) {
			return
		}
		if !checkStrStrict(c, fmt.Sprintf("NewStrGenerator(%s).Generate(%d) as the first call of a process", clip(setStr, 40), n), out, n, mapHas(set), clip(setStr, 80)) {
			return
		}
		c.Add("cold_start_first_call_generate", 1)
	case 6: // a count generator, Min before anything else
		rules := smallRules(rng, 3, 60)
		s := &countSut{c: c, g: &randz.CountGenerator{}, rules: rules}
		for _, r := range rules {
			r := r
			if !c.Guard("Count.AddRule", func() { s.g.AddRule(r.period, r.endMax, r.interval, r.incr) }) {
				return
			}
		}
		prev := 0
		for d := 0; d < 80; d++ {
			mn, ok1 := s.min(d)
			v, ok2 := s.generate("cold", d)
			mx, ok3 := s.max(d)
			if !ok1 || !ok2 || !ok3 {
				return
			}
			if !s.judge("cold", d, v, mn, mx, d > 0, d-1, prev) {
				return
			}
			prev = v
		}
		c.Add("cold_start_first_call_count", 1)
	default: // the order every other engine has: Base32 first
		if !checkID(c, randID63(rng)) {
			return
		}
		c.Add("cold_start_first_call_base32", 1)
	}
	// afterwards: a small battery of everything
	for k := 0; k < 20; k++ {
		if !checkID(c, randID63(rng)) {
			return
		}
		in := randDigits(rng, rng.Range(1, 13), true)
		in[rng.Intn(len(in))] = neighbours[rng.Intn(len(neighbours))]
		if !p.offer(in) {
			return
		}
	}
	c.Add("cold_start_cases", 1)
	c.Distinct(ev.Mix(uint64(kind), uint64(c.Index)))
	if c.WantSample() {
		c.Sample(fmt.Sprintf("fresh process, first golib call of kind %d (0/1 ParseBase32 invalid, 2 ParseBase32 digits, 3 String, 4 Id, 5 Generate, 6 Count.Min, 7 Base32)", kind))
	}
}

// ---------------------------------------------------------------- defaults

// defaultsCase runs in a child process (cases of one child one after the other, no
// other engine in that process): the package-level generators are re-configured
// and String / Id are judged against the new configuration.
func defaultsCase(c *ev.Case) {
	rng := c.Rng
	// ---- the default string generator
	rounds := rng.Range(1, 3)
	for round := 0; round < rounds; round++ {
		var setStr string
		var set map[rune]struct{}
		if rng.Chance(1, 3) {
			k := rng.Range(1, 8)
			rs := make([]rune, k)
			for i := range rs {
				rs[i] = edgeRunes[rng.Intn(len(edgeRunes))]
			}
			setStr = string(rs)
			set = map[rune]struct{}{}
			for _, r := range rs {
				set[r] = struct{}{}
			}
		} else {
			setStr, set, _, _ = makeSet(rng, rng.Pick(1, 2, 3, 10, 31, 32, 33, 64, 100))
		}
		desc := clip(setStr, 60)
		if !c.Guard("SetStrGeneratorCharSet", func() { randz.SetStrGeneratorCharSet(setStr) }) {
			return
		}
		c.Logf("SetStrGeneratorCharSet(%s)", desc)
		c.Add("defaults_charset_reconfigurations", 1)
		for k := rng.Range(2, 8); k > 0; k-- {
			n := rng.Pick(0, 1, 2, 5, 10, 33, rng.Range(0, 80))
			var out string
			if !c.Guard("String", func() { out = randz.String(n) }) {
				return
			}
			c.Logf("randz.String(%d) -> %s", n, clip(out, 60))
			if !checkStrStrict(c, fmt.Sprintf("randz.String(%d) after SetStrGeneratorCharSet(%s)", n, desc), out, n, mapHas(set), desc) {
				return
			}
			c.Add("defaults_string_calls_after_reconfiguration", 1)
		}
	}
	// ---- the default id generator
	var offMs int64
	switch rng.Intn(5) {
	case 0:
		offMs = int64(rng.Range(1000, 100000))
	case 1:
		offMs = 3600 * 1000 * int64(rng.Range(1, 24*365))
	case 2:
		offMs = int64(1)<<uint(rng.Range(10, 39)) + int64(rng.Range(-2, 2))
	default:
		offMs = int64(rng.Uint64()>>uint(24+rng.Intn(28))) + 1000 // up to 2^40
	}
	off := time.Duration(offMs)*time.Millisecond + time.Duration(rng.Intn(1000000))
	start := time.Now().Add(-off)
	elapsed := func() int64 { return time.Since(start).Milliseconds() }
	if !c.Guard("SetIdGeneratorStartTime", func() { randz.SetIdGeneratorStartTime(start) }) {
		return
	}
	c.Logf("SetIdGeneratorStartTime(now - %v)", off)
	c.Add("defaults_start_time_reconfigurations", 1)
	calls := rng.Range(6, 16)
	obs := make([]idObs, 0, calls)
	for k := 0; k < calls; k++ {
		if k > 0 && k%2 == 0 {
			last := obs[len(obs)-1].after
			it := 0
			for ; it < spinBound && elapsed() == last; it++ {
			}
			if it < spinBound {
				c.Add("defaults_ms_spins", 1)
			}
		}
		var id randz.ID
		b := elapsed()
		ok := c.Guard("Id", func() { id = randz.Id() })
		a := elapsed()
		if !ok {
			return
		}
		v := int64(id)
		c.Logf("elapsed %d | Id() = %d (%b) | elapsed %d", b, v, v, a)
		if b < 0 || a < b {
			c.Add("id_clock_reading_unusable", 1)
			continue
		}
		if v < 0 {
			c.Failf("id-negative", "randz.Id() = %d is negative (SetIdGeneratorStartTime(now-%v))", v, off)
			return
		}
		// the number of random bits of the default generator is not part of the statement:
		// some width 2..22 must put the elapsed milliseconds above the random part
		fits := false
		for e := uint(2); e <= 22; e++ {
			upper := v >> e
			if b+((upper-b)&timeMask) <= a {
				fits = true
				break
			}
		}
		if !fits {
			c.Failf("id-time-field", "after SetIdGeneratorStartTime(now-%v): Id() = %d (binary %b) does not carry the elapsed milliseconds above a random part of any width 2..22: they were %d just before and %d just after the call (binary %b)", off, v, v, b, a, b)
			return
		}
		c.Add("defaults_id_sandwiches_checked", 1)
		obs = append(obs, idObs{b, a, v})
	}
	for i := 0; i < len(obs); i++ {
		for j := i + 1; j < len(obs); j++ {
			if obs[i].after >= obs[j].before {
				continue
			}
			if obs[i].id >= obs[j].id {
				c.Failf("id-not-increasing", "after SetIdGeneratorStartTime(now-%v): Id() = %d (elapsed ms %d..%d) is not below the later Id() = %d (elapsed ms %d..%d)", off, obs[i].id, obs[i].before, obs[i].after, obs[j].id, obs[j].before, obs[j].after)
				return
			}
			c.Add("defaults_id_ordered_pairs_checked", 1)
		}
	}
	c.Distinct(ev.Mix(uint64(offMs), uint64(rounds), uint64(c.Index)))
	if c.WantSample() {
		c.Sample(fmt.Sprintf("%d SetStrGeneratorCharSet calls each followed by String(n) calls judged against the new set; SetIdGeneratorStartTime(now-%v) followed by %d Id() calls each between two readings of the elapsed milliseconds", rounds, off, calls))
	}
}

// ---------------------------------------------------------------- id/reader

type stubReader struct {
	kind  int // 0 always fails, 1 fails after `after` bytes, 2 one byte per call, 3 all 0xFF, 4 all zero
	after int
	given int
	real  io.Reader
	fails int64
}

var errStubReader = errors.New("verif: entropy source unavailable")

func (s *stubReader) Read(p []byte) (int, error) {
	switch s.kind {
	case 0:
		s.fails++
		return 0, errStubReader
	case 1:
		if s.given >= s.after {
			s.fails++
			return 0, errStubReader
		}
		n := len(p)
		if n > s.after-s.given {
			n = s.after - s.given
		}
		s.given += n
		return s.real.Read(p[:n])
	case 2:
		if len(p) == 0 {
			return 0, nil
		}
		return s.real.Read(p[:1])
	case 3:
		for i := range p {
			p[i] = 0xFF
		}
		return len(p), nil
	default:
		for i := range p {
			p[i] = 0
		}
		return len(p), nil
	}
}

var stubNames = [...]string{"always failing", "failing after a few bytes", "one byte per Read", "all 0xFF", "all zero"}

// idReaderCase runs in a child process (cases one after the other): it replaces
// the process-wide crypto/rand.Reader, which Generate reads its random part from.
func idReaderCase(c *ev.Case) {
	rng := c.Rng
	rb := rng.Pick(2, 2, 3, 7, 8, 9, 15, 16, 17, 21, 22, 22, 30, 0, rng.Range(2, 22))
	e := effectiveRandBit(rb)
	var offMs int64
	switch rng.Intn(4) {
	case 0:
		offMs = int64(rng.Range(0, 5000))
	case 1:
		offMs = 3600 * 1000 * int64(rng.Range(1, 24*365*20))
	case 2:
		offMs = wrapMs/2 - int64(rng.Range(1, 1000000)) // the 41st bit is about to be used
	default:
		offMs = int64(rng.Uint64() >> uint(24+rng.Intn(30)))
	}
	off := time.Duration(offMs)*time.Millisecond + time.Duration(rng.Intn(1000000))
	stub := &stubReader{kind: rng.Pick(0, 0, 0, 1, 1, 2, 3, 4), after: rng.Range(1, 40), real: srand.Reader}
	start := time.Now().Add(-off)
	elapsed := func() int64 { return time.Since(start).Milliseconds() }
	var g randz.IdGenerator
	if !c.Guard("NewIdGenerator", func() { g = randz.NewIdGenerator(start, rb) }) {
		return
	}
	c.Logf("NewIdGenerator(now - %v, randBit=%d) [random part %d bits]; crypto/rand.Reader: %s", off, rb, e, stubNames[stub.kind])
	real := srand.Reader
	defer func() { srand.Reader = real }()
	var obs []idObs
	phases := []struct {
		stubbed bool
		calls   int
	}{{false, rng.Range(0, 4)}, {true, rng.Range(6, 30)}, {false, rng.Range(3, 10)}}
	for pi, ph := range phases {
		if ph.stubbed {
			srand.Reader = stub
		} else {
			srand.Reader = real
		}
		for k := 0; k < ph.calls; k++ {
			if len(obs) > 0 && rng.Chance(1, 3) {
				last := obs[len(obs)-1].after
				it := 0
				for ; it < spinBound && elapsed() == last; it++ {
				}
				if it < spinBound {
					c.Add("idreader_ms_spins", 1)
				}
			}
			var id randz.ID
			b := elapsed()
			ok := c.Guard("Generate", func() { id = g.Generate() })
			a := elapsed()
			if !ok {
				return
			}
			v := int64(id)
			what := "the real crypto/rand.Reader"
			if ph.stubbed {
				what = "crypto/rand.Reader replaced by a reader that is " + stubNames[stub.kind]
			} else if pi == 2 {
				what = "the real crypto/rand.Reader again after a reader that was " + stubNames[stub.kind]
			}
			c.Logf("[%s] elapsed %d | Generate() = %d (time field %d, random part %d) | elapsed %d", what, b, v, (v>>uint(e))&timeMask, v&(int64(1)<<uint(e)-1), a)
			if b < 0 || a < b {
				c.Add("id_clock_reading_unusable", 1)
				continue
			}
			if v < 0 {
				c.Failf("id-negative", "NewIdGenerator(now-%v, randBit=%d).Generate() = %d is negative (%s)", off, rb, v, what)
				return
			}
			if wlo, whi := widthRange(rb); timeFieldWidth(v, b, a, wlo, whi) < 0 {
				c.Failf("id-time-field", "NewIdGenerator(now-%v, randBit=%d) with %s: Generate() = %d (binary %b) does not carry the elapsed milliseconds above %s: they were %d just before and %d just after the call", off, rb, what, v, v, widthText(wlo, whi), b, a)
				return
			}
			switch {
			case ph.stubbed:
				c.Add("idreader_ids_with_replaced_reader", 1)
				c.Add(fmt.Sprintf("idreader_ids_reader_kind_%d", stub.kind), 1)
			case pi == 2:
				c.Add("idreader_ids_after_reader_restored", 1)
			}
			obs = append(obs, idObs{b, a, v})
		}
	}
	srand.Reader = real
	if stub.fails > 0 {
		c.Add("idreader_failed_reads", stub.fails)
		c.Add("idreader_cases_with_failed_reads", 1)
	}
	for i := 0; i < len(obs); i++ {
		for j := i + 1; j < len(obs); j++ {
			if obs[i].after >= obs[j].before || obs[i].before>>timeBits != obs[j].after>>timeBits {
				continue
			}
			if obs[i].id >= obs[j].id {
				c.Failf("id-not-increasing", "NewIdGenerator(now-%v, randBit=%d), crypto/rand.Reader %s for a while: ID %d (elapsed ms %d..%d) is not below the later ID %d (elapsed ms %d..%d)", off, rb, stubNames[stub.kind], obs[i].id, obs[i].before, obs[i].after, obs[j].id, obs[j].before, obs[j].after)
				return
			}
			c.Add("idreader_ordered_pairs_checked", 1)
		}
	}
	c.Distinct(ev.Mix(uint64(rb), uint64(offMs), uint64(stub.kind), uint64(stub.after)))
	if c.WantSample() {
		c.Sample(fmt.Sprintf("NewIdGenerator(now-%v, randBit=%d): %d IDs with the real reader, %d with a reader that is %s, %d with the real reader again; each between two readings of the elapsed milliseconds", off, rb, phases[0].calls, phases[1].calls, stubNames[stub.kind], phases[2].calls))
	}
}
