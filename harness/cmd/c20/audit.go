package main

// audit.go — clause-coverage additions:
//
//	count/many   rule sets of 13..40 rules (more than any other engine adds, and more
//	             than the 12 elements up to which sort.Slice is a plain insertion
//	             sort), with many equal and adjacent periods, and the rule set without
//	             any rule: every elapsed time -2..max period+12 and far ones, for
//	             several ids, non-decreasing and within [Min, Max]

import (
	"fmt"
	"math"

	"github.com/welllog/golib/randz"

	"verif/ev"
)

func countManyCase(c *ev.Case) {
	rng := c.Rng
	var nr int
	switch rng.Intn(8) {
	case 0:
		nr = 0
	case 1:
		nr = rng.Pick(12, 13, 14, 16, 17)
	default:
		nr = rng.Range(13, 40)
	}
	scale := rng.Pick(12, 40, 40, 150, 600)
	rules := smallRules(rng, nr, scale)
	s := &countSut{c: c, g: &randz.CountGenerator{}, rules: rules, tag: "countmany"}
	outOfOrder := 0
	for i, r := range rules {
		r := r
		if !c.Guard("Count.AddRule", func() { s.g.AddRule(r.period, r.endMax, r.interval, r.incr) }) {
			return
		}
		c.Logf("%s", r)
		for _, q := range rules[:i] {
			if r.period < q.period {
				outOfOrder++
				break
			}
		}
	}
	maxP := 0
	for _, r := range rules {
		if r.period > maxP {
			maxP = r.period
		}
	}
	lo, hi := -2, maxP+12
	ds := make([]int, 0, hi-lo+8)
	for d := lo; d <= hi; d++ {
		ds = append(ds, d)
	}
	ds = append(ds, hi+rng.Range(1, 100000), 1<<31+rng.Range(-1, 1), 1<<40, math.MaxInt)
	mins := make([]int, len(ds))
	maxs := make([]int, len(ds))
	// the observers in a seeded order: Min and Max of an elapsed time are asked
	// before or after Generate
	minMaxFirst := rng.Bool()
	readBounds := func() bool {
		for i, d := range ds {
			var ok bool
			if mins[i], ok = s.min(d); !ok {
				return false
			}
			if maxs[i], ok = s.max(d); !ok {
				return false
			}
		}
		return true
	}
	if minMaxFirst && !readBounds() {
		return
	}
	nid := rng.Range(2, 4)
	gens := make([][]int, nid)
	ids := make([]string, nid)
	for k := range ids {
		ids[k] = randID(rng)
		g := make([]int, len(ds))
		for i, d := range ds {
			var ok bool
			if g[i], ok = s.generate(ids[k], d); !ok {
				return
			}
		}
		gens[k] = g
	}
	if !minMaxFirst && !readBounds() {
		return
	}
	for k, id := range ids {
		g := gens[k]
		for i, d := range ds {
			prevD, prevV := 0, 0
			if i > 0 {
				prevD, prevV = ds[i-1], g[i-1]
			}
			if !s.judge(id, d, g[i], mins[i], maxs[i], i > 0, prevD, prevV) {
				from := i - 20
				if from < 0 {
					from = 0
				}
				c.Logf("Generate(%q, d) for d=%d..%d: %v; Min %v; Max %v", id, ds[from], d, g[from:i+1], mins[from:i+1], maxs[from:i+1])
				return
			}
			if i > 0 && g[i] > prevV {
				c.Add("countmany_increases_seen", 1)
			}
		}
		c.Add("countmany_generate_calls", int64(len(ds)))
	}
	switch {
	case nr == 0:
		c.Add("countmany_empty_rule_sets", 1)
		c.Add("countmany_empty_rule_set_generate_calls", int64(nid*len(ds)))
	case nr > 12:
		c.Add("countmany_rule_sets_over_12_rules", 1)
		c.Add("countmany_addrule_calls_with_a_smaller_period", int64(outOfOrder))
	}
	c.Max("countmany_max_rules", int64(nr))
	c.Distinct(ev.Mix(rulesHash(rules), uint64(nr)))
	if c.WantSample() {
		c.Sample(fmt.Sprintf("%d rules (periods up to %d, %d AddRule calls with a period below an earlier one): %d ids, every elapsed time %d..%d and %v: non-decreasing and within [Min, Max]", nr, maxP, outOfOrder, nid, lo, hi, ds[len(ds)-4:]))
	}
}
