// C20 — randz identifiers and random strings have the documented shape.
//
// Runtime monitors over the real randz code:
//
//	b32/roundtrip  ParseBase32(id.Base32()) == id and Base2/Base36/String against
//	               strconv.FormatInt for boundary and random IDs in [0, 2^63)
//	b32/bytes      every one of the 256 byte values at every position of short
//	               digit strings (all 1-, 2- and 3-byte inputs completely): an input
//	               with a byte outside the alphabet must yield ErrInvalidBase32
//	b32/bytes4     all four-byte inputs with a digit-pair prefix (thorough: all 2^32)
//	id/gen         IdGenerator for all randBit settings and start times: id >= 0,
//	               time field sandwiched between two readings of the same clock,
//	               IDs with disjoint sandwiches increasing
//	str/gen        StrGenerator.Generate(n): exactly n runes, all from the set, for
//	               many set sizes / rune widths / random sources
//	count/gen      CountGenerator: non-decreasing in the elapsed time and between
//	               Min and Max, every elapsed time 0..max period+30
//	count/wide     the same for large (up to 2^34) positive parameters at sampled
//	               elapsed times
//	count/pow32    the same with one increment parameter an exact multiple of 2^32
//
// strength.go adds the histories of harness/LESSONS.md: count/staged, str/kept,
// str/edge, str/big, b32/kept, b32/long, id/odd-start, id/reader, cold-start, defaults.
// audit.go adds count/many (13..40 rules, and the rule set without rules).
package main

import (
	"fmt"
	"os"
	"time"

	"verif/ev"
)

// cases runs one engine; with C20_TIMING set it reports the engine's wall time
// on stderr (diagnostic only, never part of a verdict).
func cases(r *ev.Run, engine string, n int, opt ev.Opt, fn func(*ev.Case)) {
	t0 := time.Now()
	r.Cases(engine, n, opt, fn)
	if os.Getenv("C20_TIMING") != "" {
		fmt.Fprintf(os.Stderr, "engine %-14s %7d cases %6.1fs\n", engine, n, time.Since(t0).Seconds())
	}
}

func main() {
	r := ev.New("C20")
	r.Rule("b32/roundtrip: one case = a batch of 2000 IDs (case 0: the complete boundary list 0,31,32,2^k-1,2^k,2^k+1,32^k-1,32^k,2^63-1), distinct = hash of the batch, non-trivial = the batch has an ID >= 32. " +
		"b32/bytes: case 0 = all 256 one-byte inputs, cases 1..256 = all 65536 two-byte inputs, cases 257..512 = all 2^24 three-byte inputs, later cases = a seeded digit string (length 1..4, sometimes up to 20) with each position replaced by each of the 256 byte values plus random byte strings; distinct = hash of the base string; non-trivial = at least one invalid and one valid byte offered. " +
		"b32/bytes4: one case = all 65536 four-byte inputs with a fixed two-byte prefix (quick: the 1024 digit-pair prefixes; thorough: all 65536 prefixes = every four-byte input). " +
		"id/gen: one case = one (randBit, start-time offset) generator and 8..40 Generate calls, each between two readings of time.Since(start).Milliseconds(), the harness spinning until that reading changes between some calls; distinct = (randBit, offset class, offset); non-trivial = at least one pair of IDs with disjoint sandwiches compared. " +
		"str/gen: one case = one character set (size, rune widths, duplicates) and one random source (PRNG, locked PRNG, constant 0, counter, periodic low-entropy, chunk-crafted boundary words), Generate(n) for every n in 0..64 and a few larger n; distinct = hash of (set, source kind, source words); non-trivial = set size >= 2 or multi-byte runes. " +
		"count/gen, count/wide and count/pow32: one case = 1..6 AddRule calls with positive parameters in random order and 3..10 ids; distinct = hash of the rule list; non-trivial = at least one rule whose period was crossed. " +
		"added histories (strength.go): count/staged = 2..7 rules added in windows of 1..3 AddRule calls with no observing call inside a window, after each window a permuted first observer (Generate, Min or Max), complete sweeps, and the (id, elapsed time) asked last before the window asked again first after it; " +
		"str/kept = 1..3 generators (sets of mixed rune widths, optionally one shared source) used alternately for 24..60 Generate calls, every result kept and examined again after later calls, one call in six aborted by a panic of the random source at its word 1..3 and followed by healthy calls; " +
		"str/edge = sets of 1..12 boundary runes with U+FFFD as a member (or the whole set), results judged byte-exactly; str/big = n in 4095..70000 (2^20 thorough) or a set of 32767..70000 (2^18 thorough) runes; " +
		"b32/kept = 8..120 IDs all encoded first, every result parsed twice later (permuted, partly through a reused buffer); b32/long = a 31..65537-byte digit string with one or two bytes outside the alphabet at ~37 positions; " +
		"id/odd-start = a start time in the future, beyond time.Duration saturation on either side, or without monotonic reading; " +
		"id/reader = child processes: one generator, a few IDs with the real crypto/rand.Reader, 6..30 with a replaced reader (failing, failing after 1..40 bytes, one byte per Read, all 0xFF, all zero), 3..10 with the real one again, each between two clock readings; " +
		"cold-start = one fresh process per case, its first golib call given by index mod 8; defaults = child processes re-configuring the package-level generators, String and Id judged against the new configuration; " +
		"count/many (audit.go) = one case = 12..40 AddRule calls with positive parameters (periods 1..12/40/150/600, so with many equal and adjacent periods, in random order), one case in eight the rule set without any rule; 2..4 ids at every elapsed time -2..max period+12 and four far ones, Min/Max read before or after the Generate sweeps; distinct = hash of the rule list.")
	r.Assume("the 32-character alphabet is the documented constant \"0123456789abcdefghjkmnprstuvwxyz\" (digits and lower-case letters without i, l, o, q)")
	r.Assume("for randBit inside 2..22 the random part is exactly randBit bits wide; for randBit outside 2..22 the statement names no width of its own, so any width 2..22 that puts the elapsed milliseconds above the random part is accepted (golib documents <=1 -> 16 bits, >22 -> 22 bits; that choice is not judged): the ID always has 2..22 random bits below a 41-bit time field")
	r.Assume("the time field is compared modulo 2^41 with the interval [elapsed ms read just before the call, elapsed ms read just after the call]; both readings and golib's own reading come from the same monotonic clock (the start time carries a monotonic reading), so this is an order relation between three readings, never a duration; increasing order is not asserted across a 2^41 ms wrap")
	r.Assume("random sources offered to StrGenerator reach an accepted index: after a generous budget of words every source returns only zero words (index 0 is accepted by any rejection sampler), so a Generate that still does not return is not making progress; a source yielding only rejected indices for ever is excluded by construction")
	r.Assume("CountGenerator oracle is only applied where the exact Max fits comfortably in an int (sum over rules of period/interval*intervalMaxIncr + periodEndMaxIncr < 2^62)")
	r.Assume("strconv.FormatInt is the specification of the standard numerals")
	r.Assume("a Go string returned by Generate / Base32 is a value: examining it again later (str/kept, b32/kept) asks for nothing beyond what the statement says about the returned value")
	r.Assume("the package-level String and Id are the Generate of the package-level StrGenerator / IdGenerator as configured by the last SetStrGeneratorCharSet / SetIdGeneratorStartTime call; the width of the random part of the default IdGenerator is not assumed (any width 2..22 that puts the elapsed milliseconds above it is accepted)")
	r.Assume("for a start time in the future, and for a past start time without a monotonic reading, only non-negativity of the IDs is judged (the latter would need an order relation between readings of the wall clock, which can step); for a start time more than the largest time.Duration in the past, time.Since(start) is that largest Duration at every reading, so no clock is involved: the ID must carry either that saturated reading or the unsaturated number of milliseconds between the two dates")
	r.Assume("a CountGenerator without any rule is a rule set with positive parameters (vacuously): Generate must be non-decreasing and between Min and Max there too")
	r.Assume("Generate draws its random part through the process-wide variable crypto/rand.Reader (id/reader replaces it in a child process); if a tree does not, the replaced reader is simply never read and the engine degenerates to id/gen (the floor idreader_cases_with_failed_reads then reports the run inconclusive)")

	cases(r, "b32/roundtrip", r.N(800, 30000), ev.Opt{HangViolation: true, MaxCaseSeconds: 60}, roundtripCase)
	cases(r, "b32/bytes", r.N(513+6000, 513+300000), ev.Opt{HangViolation: true, MaxCaseSeconds: 60}, bytesCase)
	cases(r, "b32/bytes4", r.N(1024, 65536), ev.Opt{HangViolation: true, MaxCaseSeconds: 60}, bytes4Case)
	cases(r, "id/gen", r.N(3000, 60000), ev.Opt{HangViolation: true, MaxCaseSeconds: 60, AlwaysLog: true}, idCase)
	cases(r, "str/gen", r.N(8000, 250000), ev.Opt{HangViolation: true, MaxCaseSeconds: 60}, strCase)
	// the same workload on parallel workers under the race detector: package-level state shared
	// between instances that no goroutine shares is reported from the happens-before relation,
	// whether or not the accesses collide in this run (and however loaded the machine is)
	r.CasesProc("str/gen/race-parallel", r.N(400, 10000), ev.Opt{Bin: "race", Procs: 2, Workers: 8, AlwaysLog: true, HangViolation: true, MaxCaseSeconds: 120}, strCase)
	r.CasesProc("b32/roundtrip/race-parallel", r.N(100, 3000), ev.Opt{Bin: "race", Procs: 2, Workers: 8, AlwaysLog: true, HangViolation: true, MaxCaseSeconds: 120}, roundtripCase)
	r.CasesProc("count/gen/race-parallel", r.N(300, 8000), ev.Opt{Bin: "race", Procs: 2, Workers: 8, AlwaysLog: true, HangViolation: true, MaxCaseSeconds: 120}, countCase)
	cases(r, "count/gen", r.N(5000, 200000), ev.Opt{HangViolation: true, MaxCaseSeconds: 60}, countCase)
	cases(r, "count/wide", r.N(5000, 200000), ev.Opt{HangViolation: true, MaxCaseSeconds: 60}, countWideCase)
	cases(r, "count/pow32", r.N(60, 3000), ev.Opt{HangViolation: true, MaxCaseSeconds: 60}, countPow32Case)

	cases(r, "count/staged", r.N(3000, 100000), ev.Opt{HangViolation: true, MaxCaseSeconds: 60}, countStagedCase)
	cases(r, "count/many", r.N(1200, 40000), ev.Opt{HangViolation: true, MaxCaseSeconds: 60}, countManyCase)
	cases(r, "str/kept", r.N(3000, 40000), ev.Opt{HangViolation: true, MaxCaseSeconds: 60}, strKeptCase)
	cases(r, "str/edge", r.N(3000, 100000), ev.Opt{HangViolation: true, MaxCaseSeconds: 60}, strEdgeCase)
	cases(r, "str/big", r.N(60, 1200), ev.Opt{HangViolation: true, MaxCaseSeconds: 120}, strBigCase)
	cases(r, "b32/kept", r.N(3000, 100000), ev.Opt{HangViolation: true, MaxCaseSeconds: 60}, b32KeptCase)
	cases(r, "b32/long", r.N(600, 20000), ev.Opt{HangViolation: true, MaxCaseSeconds: 60}, b32LongCase)
	cases(r, "id/odd-start", r.N(3000, 60000), ev.Opt{HangViolation: true, MaxCaseSeconds: 60, AlwaysLog: true}, idOddStartCase)
	r.CasesProc("id/reader", r.N(240, 4800), ev.Opt{Procs: 6, HangViolation: true, MaxCaseSeconds: 60, AlwaysLog: true}, idReaderCase)
	r.CasesProc("cold-start", 2*coldKinds, ev.Opt{Procs: 2 * coldKinds, HangViolation: true, MaxCaseSeconds: 60}, coldCase)
	r.CasesProc("defaults", r.N(120, 2400), ev.Opt{Procs: 6, HangViolation: true, MaxCaseSeconds: 60, AlwaysLog: true}, defaultsCase)

	// anti-vacuity floors (far below what a quick run observes)
	r.Require("roundtrip_ids", 500000)
	r.Require("roundtrip_boundary_ids", 300)
	r.Require("roundtrip_13digit_ids", 1000)
	r.Require("numeral_comparisons", 1500000)
	r.Require("single_byte_inputs", 256)
	r.Require("two_byte_inputs", 65536)
	r.Require("three_byte_inputs", 16777216)
	r.Require("four_byte_inputs", 67108864)
	r.Require("invalid_byte_inputs_rejected", 100000)
	r.Require("valid_digit_inputs_roundtripped", 10000)
	r.Require("ids_generated", 20000)
	r.Require("id_sandwiches_checked", 20000)
	r.Require("id_ordered_pairs_checked", 20000)
	r.Require("id_randbit_clamped_low", 50)
	r.Require("id_randbit_clamped_high", 50)
	r.Require("id_cases_near_time_wrap", 100)
	r.Require("id_ms_spins", 2000)
	r.Require("str_generate_calls", 100000)
	r.Require("str_runes_checked", 1000000)
	r.Require("str_multibyte_sets", 500)
	r.Require("str_sets_size_1", 50)
	r.Require("str_sets_size_pow2", 200)
	r.Require("str_lowentropy_sources", 500)
	r.Require("str_n0_calls", 1000)
	r.Require("count_generate_calls", 1000000)
	r.Require("count_monotone_steps_checked", 1000000)
	r.Require("count_bounds_checked", 1000000)
	r.Require("count_period_crossings", 5000)
	r.Require("countwide_generate_calls", 20000)
	// strength.go
	r.Require("countstaged_addrule_windows", 5000)
	r.Require("countstaged_windows_adding_a_smaller_period", 1000)
	r.Require("countstaged_smaller_period_then_first_observer_generate", 200)
	r.Require("countstaged_smaller_period_then_first_observer_min", 200)
	r.Require("countstaged_smaller_period_then_first_observer_max", 200)
	r.Require("countstaged_probes_repeated_across_addrule", 2000)
	r.Require("countstaged_generate_calls", 500000)
	r.Require("strkept_results_rechecked", 100000)
	r.Require("strkept_generator_switches", 5000)
	r.Require("strkept_cases_sharing_one_source", 300)
	r.Require("strkept_source_panics_recovered", 3000)
	r.Require("strkept_calls_after_source_panic", 2000)
	r.Require("stredge_sets_with_U+FFFD_member", 500)
	r.Require("stredge_sets_of_U+FFFD_only", 100)
	r.Require("stredge_results_checked_bytewise_against_U+FFFD_sets", 10000)
	r.Require("stredge_sets_with_U+0000", 100)
	r.Require("stredge_sets_with_U+10FFFF", 100)
	r.Require("strbig_calls_n_ge_4095", 60)
	r.Require("strbig_calls_n_ge_65535", 20)
	r.Require("strbig_sets_ge_32767", 10)
	r.Require("strbig_sets_ge_65535", 3)
	r.Require("b32kept_results_parsed_later", 100000)
	r.Require("b32kept_parsed_from_reused_buffer", 20000)
	r.Require("b32long_inputs_one_invalid_byte", 10000)
	r.Require("b32long_invalid_byte_before_the_last_13", 5000)
	r.Require("b32long_cases_len_ge_4095", 20)
	r.Require("idodd_ids_future_start", 5000)
	r.Require("idodd_ids_saturated_past_start", 1000)
	r.Require("idodd_ids_saturated_future_start", 1000)
	r.Require("idodd_ids_wallclock_past_start", 1000)
	r.Require("idreader_ids_with_replaced_reader", 2000)
	r.Require("idreader_cases_with_failed_reads", 80)
	r.Require("idreader_ids_reader_kind_3", 100)
	r.Require("idreader_ids_after_reader_restored", 800)
	r.Require("idreader_ordered_pairs_checked", 2000)
	// audit.go and floors for workloads that had none
	r.Require("countmany_rule_sets_over_12_rules", 600)
	r.Require("countmany_addrule_calls_with_a_smaller_period", 6000)
	r.Require("countmany_empty_rule_sets", 60)
	r.Require("countmany_empty_rule_set_generate_calls", 2000)
	r.Require("countmany_generate_calls", 200000)
	r.Require("countmany_increases_seen", 20000)
	r.Require("idodd_saturated_past_time_fields_checked", 1000)
	for rb := 2; rb <= 22; rb++ {
		r.Require(fmt.Sprintf("id_cases_randbit_%02d", rb), 15)
	}
	r.Require("countpow32_generate_calls", 20000)
	r.Require("countpow32_params_above_32_bits", 60)
	r.Require("countwide_params_above_32_bits", 500)
	r.Require("count_rule_sets_with_equal_periods", 300)
	r.Require("count_increases_seen", 500000)
	r.Require("invalid_class_uppercase", 50000)
	r.Require("invalid_class_excluded_letter", 10000)
	r.Require("invalid_class_high_byte", 500000)
	r.Require("invalid_class_control", 100000)
	r.Require("invalid_class_punct", 100000)
	r.Require("positions_swept_with_256_values", 5000)
	r.Require("b32kept_numerals_compared_later", 30000)
	r.Require("b32kept_invalid_through_reused_buffer", 5000)
	r.Require("b32long_inputs_two_invalid_bytes", 500)
	r.Require("str_source_kind_5", 300) // chunk-crafted boundary words
	r.Require("str_sets_size_pow2_minus_1", 300)
	r.Require("str_sets_with_duplicates", 200)
	r.Require("str_default_generator_calls", 1000)
	r.Require("default_ids_generated", 1000)
	r.Require("strbig_bigset_generate_calls", 50)
	r.Require("idreader_ids_reader_kind_0", 300)
	r.Require("idreader_ids_reader_kind_1", 200)
	r.Require("idreader_ids_reader_kind_2", 80)
	r.Require("idreader_ids_reader_kind_4", 60)
	r.Require("cold_start_first_call_generate", 2)
	r.Require("cold_start_first_call_count", 2)
	r.Require("cold_start_first_call_base32", 2)
	r.Require("cold_start_cases", 2*coldKinds)
	r.Require("cold_start_first_call_parse_invalid", 4)
	r.Require("cold_start_first_call_parse_digits", 2)
	r.Require("cold_start_first_call_default_string", 2)
	r.Require("cold_start_first_call_default_id", 2)
	r.Require("defaults_charset_reconfigurations", 120)
	r.Require("defaults_string_calls_after_reconfiguration", 300)
	r.Require("defaults_start_time_reconfigurations", 120)
	r.Require("defaults_id_sandwiches_checked", 600)
	r.Require("defaults_id_ordered_pairs_checked", 300)
	r.Finish()
}
