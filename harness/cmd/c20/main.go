// C20 — randz identifiers and random strings have the documented shape.
//
// Runtime monitors over the real randz code:
//
//	b32/roundtrip  ParseBase32(id.Base32()) == id and Base2/Base36/String against
//	               strconv.FormatInt for boundary and random IDs in [0, 2^63)
//	b32/bytes      every one of the 256 byte values at every position of short
//	               digit strings (all 1-, 2- and 3-byte inputs completely): an input
//	               with a byte outside the alphabet must yield ErrInvalidBase32
//	b32/bytes4     all four-byte inputs with a digit-pair prefix (thorough: all 2^32)
//	id/gen         IdGenerator for all randBit settings and start times: id >= 0,
//	               time field sandwiched between two readings of the same clock,
//	               IDs with disjoint sandwiches increasing
//	str/gen        StrGenerator.Generate(n): exactly n runes, all from the set, for
//	               many set sizes / rune widths / random sources
//	count/gen      CountGenerator: non-decreasing in the elapsed time and between
//	               Min and Max, every elapsed time 0..max period+30
//	count/wide     the same for large (up to 2^34) positive parameters at sampled
//	               elapsed times
//	count/pow32    the same with one increment parameter an exact multiple of 2^32
package main

import (
	"fmt"
	"os"
	"time"

	"verif/ev"
)

// cases runs one engine; with C20_TIMING set it reports the engine's wall time
// on stderr (diagnostic only, never part of a verdict).
func cases(r *ev.Run, engine string, n int, opt ev.Opt, fn func(*ev.Case)) {
	t0 := time.Now()
	r.Cases(engine, n, opt, fn)
	if os.Getenv("C20_TIMING") != "" {
		fmt.Fprintf(os.Stderr, "engine %-14s %7d cases %6.1fs\n", engine, n, time.Since(t0).Seconds())
	}
}

func main() {
	r := ev.New("C20")
	r.Rule("b32/roundtrip: one case = a batch of 2000 IDs (case 0: the complete boundary list 0,31,32,2^k-1,2^k,2^k+1,32^k-1,32^k,2^63-1), distinct = hash of the batch, non-trivial = the batch has an ID >= 32. " +
		"b32/bytes: case 0 = all 256 one-byte inputs, cases 1..256 = all 65536 two-byte inputs, cases 257..512 = all 2^24 three-byte inputs, later cases = a seeded digit string (length 1..4, sometimes up to 20) with each position replaced by each of the 256 byte values plus random byte strings; distinct = hash of the base string; non-trivial = at least one invalid and one valid byte offered. " +
		"b32/bytes4: one case = all 65536 four-byte inputs with a fixed two-byte prefix (quick: the 1024 digit-pair prefixes; thorough: all 65536 prefixes = every four-byte input). " +
		"id/gen: one case = one (randBit, start-time offset) generator and 8..40 Generate calls, each between two readings of time.Since(start).Milliseconds(), the harness spinning until that reading changes between some calls; distinct = (randBit, offset class, offset); non-trivial = at least one pair of IDs with disjoint sandwiches compared. " +
		"str/gen: one case = one character set (size, rune widths, duplicates) and one random source (PRNG, locked PRNG, constant 0, counter, periodic low-entropy, chunk-crafted boundary words), Generate(n) for every n in 0..64 and a few larger n; distinct = hash of (set, source kind, source words); non-trivial = set size >= 2 or multi-byte runes. " +
		"count/gen, count/wide and count/pow32: one case = 1..6 AddRule calls with positive parameters in random order and 3..10 ids; distinct = hash of the rule list; non-trivial = at least one rule whose period was crossed.")
	r.Assume("the 32-character alphabet is the documented constant \"0123456789abcdefghjkmnprstuvwxyz\" (digits and lower-case letters without i, l, o, q)")
	r.Assume("for randBit outside 2..22 the random part has the clamped width NewIdGenerator documents (<=1 -> 16 bits, >22 -> 22 bits): the ID always has 2..22 random bits below a 41-bit time field")
	r.Assume("the time field is compared modulo 2^41 with the interval [elapsed ms read just before the call, elapsed ms read just after the call]; both readings and golib's own reading come from the same monotonic clock (the start time carries a monotonic reading), so this is an order relation between three readings, never a duration; increasing order is not asserted across a 2^41 ms wrap")
	r.Assume("random sources offered to StrGenerator reach an accepted index: after a generous budget of words every source returns only zero words (index 0 is accepted by any rejection sampler), so a Generate that still does not return is not making progress; a source yielding only rejected indices for ever is excluded by construction")
	r.Assume("CountGenerator oracle is only applied where the exact Max fits comfortably in an int (sum over rules of period/interval*intervalMaxIncr + periodEndMaxIncr < 2^62)")
	r.Assume("strconv.FormatInt is the specification of the standard numerals")

	cases(r, "b32/roundtrip", r.N(800, 30000), ev.Opt{HangViolation: true, MaxCaseSeconds: 60}, roundtripCase)
	cases(r, "b32/bytes", r.N(513+6000, 513+300000), ev.Opt{HangViolation: true, MaxCaseSeconds: 60}, bytesCase)
	cases(r, "b32/bytes4", r.N(1024, 65536), ev.Opt{HangViolation: true, MaxCaseSeconds: 60}, bytes4Case)
	cases(r, "id/gen", r.N(3000, 60000), ev.Opt{HangViolation: true, MaxCaseSeconds: 60, AlwaysLog: true}, idCase)
	cases(r, "str/gen", r.N(8000, 250000), ev.Opt{HangViolation: true, MaxCaseSeconds: 60}, strCase)
	cases(r, "count/gen", r.N(5000, 200000), ev.Opt{HangViolation: true, MaxCaseSeconds: 60}, countCase)
	cases(r, "count/wide", r.N(5000, 200000), ev.Opt{HangViolation: true, MaxCaseSeconds: 60}, countWideCase)
	cases(r, "count/pow32", r.N(60, 3000), ev.Opt{HangViolation: true, MaxCaseSeconds: 60}, countPow32Case)

	// anti-vacuity floors (far below what a quick run observes)
	r.Require("roundtrip_ids", 500000)
	r.Require("roundtrip_boundary_ids", 300)
	r.Require("roundtrip_13digit_ids", 1000)
	r.Require("numeral_comparisons", 1500000)
	r.Require("single_byte_inputs", 256)
	r.Require("two_byte_inputs", 65536)
	r.Require("three_byte_inputs", 16777216)
	r.Require("four_byte_inputs", 67108864)
	r.Require("invalid_byte_inputs_rejected", 100000)
	r.Require("valid_digit_inputs_roundtripped", 10000)
	r.Require("ids_generated", 20000)
	r.Require("id_sandwiches_checked", 20000)
	r.Require("id_ordered_pairs_checked", 20000)
	r.Require("id_randbit_clamped_low", 50)
	r.Require("id_randbit_clamped_high", 50)
	r.Require("id_cases_near_time_wrap", 100)
	r.Require("id_ms_spins", 2000)
	r.Require("str_generate_calls", 100000)
	r.Require("str_runes_checked", 1000000)
	r.Require("str_multibyte_sets", 500)
	r.Require("str_sets_size_1", 50)
	r.Require("str_sets_size_pow2", 200)
	r.Require("str_lowentropy_sources", 500)
	r.Require("str_n0_calls", 1000)
	r.Require("count_generate_calls", 1000000)
	r.Require("count_monotone_steps_checked", 1000000)
	r.Require("count_bounds_checked", 1000000)
	r.Require("count_period_crossings", 5000)
	r.Require("countwide_generate_calls", 20000)
	r.Finish()
}
