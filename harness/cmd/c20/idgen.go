package main

import (
	"fmt"
	"math"
	"time"

	"github.com/welllog/golib/randz"

	"verif/ev"
)

const (
	timeBits  = 41
	timeMask  = int64(1)<<timeBits - 1
	wrapMs    = int64(1) << timeBits // 2^41 ms
	spinBound = 40_000_000
)

// effectiveRandBit is the documented clamping of NewIdGenerator (used for the
// witness log and the coverage counters only; the verdict uses widthRange).
func effectiveRandBit(rb int) int {
	if rb <= 1 {
		return 16
	}
	if rb > 22 {
		return 22
	}
	return rb
}

// widthRange is the set of widths of the random part the statement allows for a
// randBit setting: exactly randBit inside 2..22; outside that range the statement
// gives no width of its own (the layout has 2..22 random bits), so any width
// 2..22 is accepted.
func widthRange(rb int) (lo, hi int) {
	if rb >= 2 && rb <= 22 {
		return rb, rb
	}
	return 2, 22
}

// timeFieldWidth returns a width w in lo..hi such that what v carries above its
// low w bits is congruent mod 2^41 to a millisecond reading t with b <= t <= a,
// or -1 if there is none.
func timeFieldWidth(v, b, a int64, lo, hi int) int {
	for w := lo; w <= hi; w++ {
		upper := v >> uint(w)
		if b+((upper-b)&timeMask) <= a {
			return w
		}
	}
	return -1
}

func widthText(lo, hi int) string {
	if lo == hi {
		return fmt.Sprintf("its %d random bits", lo)
	}
	return fmt.Sprintf("a random part of any width %d..%d (randBit is outside 2..22)", lo, hi)
}

type idObs struct {
	before, after int64 // elapsed ms read just before / just after Generate
	id            int64
}

func idCase(c *ev.Case) {
	rng := c.Rng
	// ---- the case: randBit and start-time offset (pure function of the seed)
	var rb int
	switch rng.Intn(20) {
	case 0, 1, 2, 3, 4, 5, 6:
		rb = rng.Range(2, 22)
	case 7, 8, 9:
		rb = rng.Pick(2, 2, 3, 4, 16, 21, 22, 22)
	case 10, 11, 12, 13, 14:
		rb = rng.Range(-1, 30)
	case 15, 16:
		rb = rng.Pick(22, 23, 24, 30)
	case 17:
		rb = rng.Pick(-1, 0, 1)
	default:
		rb = rng.Pick(math.MinInt, -1<<31, -64, -2, 31, 32, 40, 41, 62, 63, 64, 100, math.MaxInt32, math.MaxInt)
	}
	e := effectiveRandBit(rb)
	var offMs int64
	var offNs int64 // extra nanoseconds below the millisecond
	offClass := rng.Intn(12)
	switch offClass {
	case 0:
		offMs = 0
	case 1:
		offMs = 1
	case 2:
		offMs = 3600 * 1000
	case 3, 4:
		offMs = wrapMs - int64(rng.Range(1, 3))
	case 5:
		offMs = wrapMs + int64(rng.Range(0, 3))
	case 6:
		offMs = wrapMs/2 + int64(rng.Range(-3, 3))
	case 7:
		offMs = int64(rng.Uint64() >> uint(23+rng.Intn(41))) // up to 2^41
	case 8:
		offMs = int64(rng.Range(1, 3))*wrapMs + int64(rng.Range(-3, 3))
	case 9:
		offMs = int64(1)<<uint(rng.Intn(41)) + int64(rng.Range(-2, 2))
	case 10:
		offMs = int64(rng.Range(2, 100000))
	default:
		offMs = wrapMs - int64(rng.Range(1, 3))
		if rb < 22 {
			rb = rng.Pick(22, 22, 23, 30)
			e = 22
		}
	}
	if offMs < 0 {
		offMs = 0
	}
	if rng.Bool() {
		offNs = int64(rng.Intn(1000000))
	}
	nearWrap := offMs%wrapMs >= wrapMs-4 && offMs > 0
	calls := rng.Range(8, 40)
	spinEvery := rng.Pick(2, 3, 4, 6)
	if nearWrap {
		spinEvery = 1
		c.Add("id_cases_near_time_wrap", 1)
	}
	if rb != e {
		if rb <= 1 {
			c.Add("id_randbit_clamped_low", 1)
		} else {
			c.Add("id_randbit_clamped_high", 1)
		}
	} else {
		c.Add("id_randbit_in_range", 1)
		c.Add(fmt.Sprintf("id_cases_randbit_%02d", rb), 1)
	}
	wlo, whi := widthRange(rb)

	// ---- run
	off := time.Duration(offMs)*time.Millisecond + time.Duration(offNs)
	start := time.Now().Add(-off)
	elapsed := func() int64 { return time.Since(start).Milliseconds() }
	var g randz.IdGenerator
	if !c.Guard("NewIdGenerator", func() { g = randz.NewIdGenerator(start, rb) }) {
		return
	}
	c.Logf("NewIdGenerator(now - %d ms - %d ns, randBit=%d) [random part %d bits]", offMs, offNs, rb, e)
	obs := make([]idObs, 0, calls)
	crossed := false
	for k := 0; k < calls; k++ {
		if k > 0 && k%spinEvery == 0 {
			// wait for the millisecond reading to change (no sleep, no duration assertion)
			last := obs[len(obs)-1].after
			it := 0
			for ; it < spinBound && elapsed() == last; it++ {
			}
			if it == spinBound {
				c.Add("id_spin_gave_up", 1)
			} else {
				c.Add("id_ms_spins", 1)
			}
		}
		var id randz.ID
		b := elapsed()
		ok := c.Guard("Generate", func() { id = g.Generate() })
		a := elapsed()
		if !ok {
			return
		}
		v := int64(id)
		c.Logf("elapsed %d | Generate() = %d (time field %d, random part %d) | elapsed %d", b, v, (v>>uint(e))&timeMask, v&(int64(1)<<uint(e)-1), a)
		c.Add("ids_generated", 1)
		if b < 0 || a < b {
			// cannot happen with a monotonic clock and a start in the past; no verdict from such a reading
			c.Add("id_clock_reading_unusable", 1)
			continue
		}
		if v < 0 {
			c.Failf("id-negative", "NewIdGenerator(now-%dms, randBit=%d).Generate() = %d is negative (elapsed ms before/after the call: %d/%d)", offMs, rb, v, b, a)
			return
		}
		// time field (everything above the random bits) must be congruent mod 2^41 to a
		// millisecond reading t with before <= t <= after
		if timeFieldWidth(v, b, a, wlo, whi) < 0 {
			c.Failf("id-time-field", "NewIdGenerator(now-%dms, randBit=%d): Generate() = %d (binary %b) does not carry the elapsed milliseconds above %s: they were %d just before and %d just after the call (mod 2^41: %d..%d)", offMs, rb, v, v, widthText(wlo, whi), b, a, b&timeMask, a&timeMask)
			return
		}
		c.Add("id_sandwiches_checked", 1)
		if a == b {
			c.Add("id_sandwiches_exact", 1)
		}
		if b>>timeBits != a>>timeBits || (len(obs) > 0 && obs[0].before>>timeBits != a>>timeBits) {
			crossed = true
		}
		if v&(int64(1)<<uint(e)-1) != 0 {
			c.Add("id_random_part_nonzero", 1)
		}
		obs = append(obs, idObs{b, a, v})
	}
	if crossed {
		c.Add("id_cases_crossing_time_wrap", 1)
	}
	// IDs taken at least a millisecond apart (disjoint sandwiches) are increasing
	pairs := 0
	for i := 0; i < len(obs); i++ {
		for j := i + 1; j < len(obs); j++ {
			if obs[i].after >= obs[j].before {
				continue
			}
			if obs[i].before>>timeBits != obs[j].after>>timeBits {
				c.Add("id_pairs_across_wrap_not_asserted", 1)
				continue
			}
			pairs++
			if obs[i].id >= obs[j].id {
				c.Failf("id-not-increasing", "NewIdGenerator(now-%dms, randBit=%d): ID %d (elapsed ms %d..%d) is not below the later ID %d (elapsed ms %d..%d)", offMs, rb, obs[i].id, obs[i].before, obs[i].after, obs[j].id, obs[j].before, obs[j].after)
				return
			}
		}
	}
	c.Add("id_ordered_pairs_checked", int64(pairs))
	// the package-level generator is an IdGenerator too: non-negative
	for k := 0; k < 2; k++ {
		var id randz.ID
		if !c.Guard("Id", func() { id = randz.Id() }) {
			return
		}
		c.Logf("Id() = %d", int64(id))
		if id < 0 {
			c.Failf("id-negative", "randz.Id() = %d is negative", int64(id))
			return
		}
		c.Add("default_ids_generated", 1)
	}
	if pairs > 0 {
		c.Distinct(ev.Mix(uint64(rb), uint64(offClass), uint64(offMs), uint64(offNs)))
	}
	if c.WantSample() && len(obs) > 1 {
		o := obs[len(obs)-1]
		c.Sample(fmt.Sprintf("NewIdGenerator(now-%dms, randBit=%d): %d IDs, %d ordered pairs with disjoint sandwiches; last: elapsed %d <= time field of %d <= elapsed %d", offMs, rb, len(obs), pairs, o.before, o.id, o.after))
	}
}
