package main

import (
	"fmt"
	"math"
	"math/bits"
	"sort"

	"github.com/welllog/golib/randz"

	"verif/ev"
)

type ruleP struct{ period, endMax, interval, incr int }

func (r ruleP) String() string {
	return fmt.Sprintf("AddRule(period=%d, periodEndMaxIncr=%d, interval=%d, intervalMaxIncr=%d)", r.period, r.endMax, r.interval, r.incr)
}

func rulesString(rs []ruleP) string {
	s := ""
	for i, r := range rs {
		if i > 0 {
			s += "; "
		}
		s += r.String()
	}
	return s
}

func rulesHash(rs []ruleP) uint64 {
	h := uint64(len(rs))
	for _, r := range rs {
		h = ev.Mix(h, uint64(r.period), uint64(r.endMax), uint64(r.interval), uint64(r.incr))
	}
	return h
}

var idPool = []string{"", "a", "test", "world", "0", "user:1", "用户", "\x00", "zzzzzzzzzzzzzzzzzzzzzzzzzzzzzzzz", "id-42", "A", "b"}

func randID(rng *ev.Rand) string {
	switch rng.Intn(4) {
	case 0:
		return idPool[rng.Intn(len(idPool))]
	case 1:
		return fmt.Sprint(rng.Intn(100000))
	default:
		b := rng.Bytes(rng.Range(1, 16))
		for i := range b {
			b[i] = 'a' + b[i]%26
		}
		return string(b)
	}
}

type countSut struct {
	c     *ev.Case
	g     *randz.CountGenerator
	rules []ruleP
	tag   string // counter prefix
}

func (s *countSut) generate(id string, d int) (int, bool) {
	var v int
	ok := s.c.Guard("Count.Generate", func() { v = s.g.Generate(id, d) })
	if !ok {
		s.c.Logf("Generate(%q, %d) panicked; rules: %s", id, d, rulesString(s.rules))
	}
	return v, ok
}

func (s *countSut) min(d int) (int, bool) {
	var v int
	ok := s.c.Guard("Count.Min", func() { v = s.g.Min(d) })
	return v, ok
}

func (s *countSut) max(d int) (int, bool) {
	var v int
	ok := s.c.Guard("Count.Max", func() { v = s.g.Max(d) })
	return v, ok
}

// judge checks one observation against the bounds and the previous observation
// (prevD < d) of the same id.
func (s *countSut) judge(id string, d, v, mn, mx int, havePrev bool, prevD, prevV int) bool {
	c := s.c
	if v < mn || v > mx {
		c.Failf("count-bounds", "Generate(%q, %d) = %d is outside [Min(%d), Max(%d)] = [%d, %d]; rules: %s", id, d, v, d, d, mn, mx, rulesString(s.rules))
		return false
	}
	if havePrev && v < prevV {
		c.Failf("count-decreasing", "Generate(%q, %d) = %d is below Generate(%q, %d) = %d; rules: %s", id, d, v, id, prevD, prevV, rulesString(s.rules))
		return false
	}
	return true
}

func newCountSut(c *ev.Case, rules []ruleP, tag string) *countSut {
	s := &countSut{c: c, g: &randz.CountGenerator{}, rules: rules, tag: tag}
	for _, r := range rules {
		r := r
		if !c.Guard("Count.AddRule", func() { s.g.AddRule(r.period, r.endMax, r.interval, r.incr) }) {
			return nil
		}
		c.Logf("%s", r)
		// in half of the cases the generator is already used while rules are still
		// being added (results not judged here): the final rule set is what counts
		if c.Index%2 == 1 {
			if !c.Guard("Count.Generate", func() {
				_ = s.g.Generate("early", r.period)
				_ = s.g.Min(r.period + 1)
				_ = s.g.Max(r.period - 1)
			}) {
				return nil
			}
			c.Add("count_used_between_addrule_calls", 1)
		}
	}
	return s
}

func countCase(c *ev.Case) {
	rng := c.Rng
	nr := rng.Pick(1, 2, 2, 3, 3, 4, 4, 4, 5, 6)
	scale := rng.Pick(20, 200, 200, 2500, 2500)
	rules := make([]ruleP, nr)
	maxPeriod := 0
	samePeriods := false
	for i := range rules {
		var p int
		if i > 0 && rng.Chance(1, 8) {
			p = rules[rng.Intn(i)].period // equal periods
			samePeriods = true
		} else if i > 0 && rng.Chance(1, 6) {
			p = rules[rng.Intn(i)].period + rng.Pick(-1, 1) // adjacent periods
		} else {
			p = rng.Range(1, scale)
		}
		if p < 1 {
			p = 1
		}
		var iv int
		switch rng.Intn(6) {
		case 0:
			iv = 1
		case 1:
			iv = p
		case 2:
			iv = p + rng.Range(1, 5) // longer than the period: zero steps
		case 3:
			iv = rng.Range(1, 2*p)
		default:
			iv = rng.Range(1, 1+p/3)
		}
		rules[i] = ruleP{period: p, endMax: rng.Pick(1, 1, 2, 3, 10, 100, 300, rng.Range(1, 1000)), interval: iv, incr: rng.Pick(1, 1, 2, 2, 3, 4, 5, 10, rng.Range(1, 50))}
		if p > maxPeriod {
			maxPeriod = p
		}
	}
	s := newCountSut(c, rules, "count")
	if s == nil {
		return
	}
	if samePeriods {
		c.Add("count_rule_sets_with_equal_periods", 1)
	}
	c.Add("count_rule_sets", 1)
	c.Add(fmt.Sprintf("count_rule_sets_%d_rules", nr), 1)
	lo, hi := -2, maxPeriod+30
	// Min / Max do not depend on the id
	mins := make([]int, hi-lo+1)
	maxs := make([]int, hi-lo+1)
	for d := lo; d <= hi; d++ {
		var ok bool
		if mins[d-lo], ok = s.min(d); !ok {
			return
		}
		if maxs[d-lo], ok = s.max(d); !ok {
			return
		}
	}
	far := []int{hi + 1, hi + rng.Range(2, 100000), 1 << 31, 1<<31 + 1, 1 << 40, math.MaxInt - 1, math.MaxInt}
	farMin := make([]int, len(far))
	farMax := make([]int, len(far))
	for i, d := range far {
		var ok bool
		if farMin[i], ok = s.min(d); !ok {
			return
		}
		if farMax[i], ok = s.max(d); !ok {
			return
		}
	}
	nid := rng.Range(3, 10)
	crossings := 0
	for k := 0; k < nid; k++ {
		id := randID(rng)
		havePrev := false
		prevD, prevV := 0, 0
		var trace []int
		for d := lo; d <= hi; d++ {
			v, ok := s.generate(id, d)
			if !ok {
				return
			}
			if c.Logging() && len(trace) < 40 {
				trace = append(trace, v)
			}
			if !s.judge(id, d, v, mins[d-lo], maxs[d-lo], havePrev, prevD, prevV) {
				c.Logf("Generate(%q, d) for d=%d.. : %v", id, lo, trace)
				c.Logf("Generate(%q, %d) = %d, previous Generate(%q, %d) = %d, Min = %d, Max = %d", id, d, v, id, prevD, prevV, mins[d-lo], maxs[d-lo])
				return
			}
			if havePrev && v > prevV {
				c.Add("count_increases_seen", 1)
			}
			havePrev, prevD, prevV = true, d, v
		}
		for i, d := range far {
			v, ok := s.generate(id, d)
			if !ok {
				return
			}
			if !s.judge(id, d, v, farMin[i], farMax[i], true, prevD, prevV) {
				c.Logf("Generate(%q, %d) = %d, previous Generate(%q, %d) = %d, Min = %d, Max = %d", id, d, v, id, prevD, prevV, farMin[i], farMax[i])
				return
			}
			prevD, prevV = d, v
		}
		n := int64(hi - lo + 1 + len(far))
		c.Add("count_generate_calls", n)
		c.Add("count_bounds_checked", n)
		c.Add("count_monotone_steps_checked", n-1)
		crossings += nr
		c.Logf("id %q: %d elapsed times checked, first values %v", id, n, trace)
	}
	c.Add("count_period_crossings", int64(crossings))
	c.Distinct(rulesHash(rules))
	if c.WantSample() {
		c.Sample(fmt.Sprintf("%s: %d ids, every elapsed time %d..%d and %v: non-decreasing and within [Min, Max]", rulesString(rules), nid, lo, hi, far))
	}
}

var wideValues = []int{1, 2, 3, 1000, 65535, 65536, 1<<31 - 1, 1 << 31, 1<<31 + 1, 1<<32 - 1, 1<<32 + 1, 1<<33 - 1, 1<<33 + 1, 3<<32 + 5, 1<<34 - 1}

// exactMaxFits says whether sum(period/interval*incr + endMax) < 2^62, i.e. the
// exact bounds are representable and no honest implementation needs to overflow.
func exactMaxFits(rules []ruleP) bool {
	var sum uint64
	for _, r := range rules {
		hi, lo := bits.Mul64(uint64(r.period/r.interval), uint64(r.incr))
		if hi != 0 || lo >= 1<<62 {
			return false
		}
		sum += lo
		if sum >= 1<<62 {
			return false
		}
		sum += uint64(r.endMax)
		if sum >= 1<<62 {
			return false
		}
	}
	return true
}

func wideRules(rng *ev.Rand, pow32 bool) []ruleP {
	for try := 0; ; try++ {
		nr := rng.Range(1, 4)
		rules := make([]ruleP, nr)
		for i := range rules {
			var p int
			switch rng.Intn(4) {
			case 0:
				p = rng.Range(1, 100)
			case 1:
				p = rng.Range(1, 100000)
			case 2:
				p = 1<<uint(rng.Range(10, 40)) + rng.Range(-2, 2)
			default:
				p = int(rng.Uint64() >> uint(rng.Range(24, 56)))
			}
			if p < 1 {
				p = 1
			}
			iv := 1
			switch rng.Intn(4) {
			case 0:
				iv = rng.Range(1, 10)
			case 1:
				iv = 1 + p/rng.Range(1, 1000)
			case 2:
				iv = int(rng.Uint64()>>uint(rng.Range(24, 62))) + 1
			default:
				iv = wideValues[rng.Intn(len(wideValues))]
			}
			pickV := func() int {
				switch rng.Intn(4) {
				case 0:
					return rng.Range(1, 100)
				case 1:
					return int(rng.Uint64()>>uint(rng.Range(30, 62))) + 1
				default:
					return wideValues[rng.Intn(len(wideValues))]
				}
			}
			rules[i] = ruleP{period: p, endMax: pickV(), interval: iv, incr: pickV()}
			if try > 20 {
				rules[i].incr = rng.Range(1, 4)
			}
		}
		if pow32 {
			// a parameter that is an exact multiple of 2^32 (a positive int on 64-bit platforms)
			m := rng.Pick(1, 1, 2, 3, 256) << 32
			r := &rules[rng.Intn(nr)]
			if rng.Bool() {
				r.incr = m
			} else {
				r.endMax = m
			}
		}
		if exactMaxFits(rules) {
			return rules
		}
	}
}

// sampleTimes picks the elapsed times that matter for a rule list: around every
// period, around interval multiples after every period, and random ones.
func sampleTimes(rng *ev.Rand, rules []ruleP) []int {
	set := map[int]struct{}{}
	add := func(d int) {
		if d >= -2 {
			set[d] = struct{}{}
		}
	}
	for d := -2; d <= 40; d++ {
		add(d)
	}
	periods := []int{0}
	maxP := 0
	for _, r := range rules {
		periods = append(periods, r.period)
		if r.period > maxP {
			maxP = r.period
		}
	}
	for _, r := range rules {
		for dd := -3; dd <= 3; dd++ {
			add(r.period + dd)
		}
		for _, base := range periods {
			for k := 0; k < 6; k++ {
				m := rng.Pick(1, 2, 3, rng.Range(1, 1000))
				if r.interval <= (math.MaxInt/4)/m {
					x := base + m*r.interval
					add(x - 1)
					add(x)
					add(x + 1)
				}
			}
		}
	}
	for k := 0; k < 200; k++ {
		add(rng.Intn(maxP + 40))
	}
	add(maxP + 30)
	add(1 << 40)
	add(1 << 62)
	add(math.MaxInt)
	out := make([]int, 0, len(set))
	for d := range set {
		out = append(out, d)
	}
	sort.Ints(out)
	return out
}

func wideCaseWith(c *ev.Case, pow32 bool, tag string) {
	rng := c.Rng
	rules := wideRules(rng, pow32)
	// random AddRule order is already given: periods are not sorted
	s := newCountSut(c, rules, tag)
	if s == nil {
		return
	}
	times := sampleTimes(rng, rules)
	mins := make([]int, len(times))
	maxs := make([]int, len(times))
	for i, d := range times {
		var ok bool
		if mins[i], ok = s.min(d); !ok {
			return
		}
		if maxs[i], ok = s.max(d); !ok {
			return
		}
	}
	nid := rng.Range(2, 6)
	for k := 0; k < nid; k++ {
		id := randID(rng)
		havePrev := false
		prevD, prevV := 0, 0
		for i, d := range times {
			v, ok := s.generate(id, d)
			if !ok {
				return
			}
			if !s.judge(id, d, v, mins[i], maxs[i], havePrev, prevD, prevV) {
				c.Logf("Generate(%q, %d) = %d, previous Generate(%q, %d) = %d, Min = %d, Max = %d", id, d, v, id, prevD, prevV, mins[i], maxs[i])
				return
			}
			havePrev, prevD, prevV = true, d, v
		}
		c.Add(tag+"_generate_calls", int64(len(times)))
		c.Logf("id %q: %d sampled elapsed times checked", id, len(times))
	}
	for _, r := range rules {
		if r.incr > math.MaxUint32 || r.endMax > math.MaxUint32 {
			c.Add(tag+"_params_above_32_bits", 1)
			break
		}
	}
	c.Distinct(rulesHash(rules))
	if c.WantSample() {
		c.Sample(fmt.Sprintf("%s: %d ids at %d sampled elapsed times (around periods and interval multiples): non-decreasing and within [Min, Max]", rulesString(rules), nid, len(times)))
	}
}

func countWideCase(c *ev.Case)  { wideCaseWith(c, false, "countwide") }
func countPow32Case(c *ev.Case) { wideCaseWith(c, true, "countpow32") }
