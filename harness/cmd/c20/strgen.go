package main

import (
	"fmt"
	"math/rand"
	"unicode/utf8"

	"github.com/welllog/golib/randz"

	"verif/ev"
)

// budgetSource is the rand.Source handed to StrGenerator. It forwards to an
// inner word function for `budget` words, then yields only zero words (index 0
// is accepted by any rejection sampler, so n more words finish any Generate(n)),
// and past `hard` words it panics so that a Generate that makes no progress
// becomes a violation with a witness instead of a hang.
type budgetSource struct {
	inner     func() int64
	calls     int
	budget    int
	hard      int
	exhausted bool
	total     int64
}

func (s *budgetSource) Int63() int64 {
	s.calls++
	s.total++
	if s.calls > s.hard {
		panic(fmt.Sprintf("verif random source: Generate drew %d words, the last %d of them all zero, and still has not returned: the sampling loop makes no progress", s.calls, s.calls-s.budget))
	}
	if s.calls > s.budget {
		s.exhausted = true
		return 0
	}
	return s.inner() & (1<<63 - 1)
}

func (s *budgetSource) Seed(int64) {}

func (s *budgetSource) arm(n int) {
	s.calls = 0
	s.exhausted = false
	s.budget = 64*n + 4096
	s.hard = s.budget + 2*n + 256
}

// rune pools by encoded width
type pool struct {
	lo, span rune
	width    int
}

var pools = []pool{
	{0x00, 0x80, 1},       // ASCII incl. NUL and controls
	{0x21, 0x5E, 1},       // printable ASCII
	{0x80, 0x780, 2},      // two-byte runes
	{0x391, 0x60, 2},      // Greek / Cyrillic neighbourhood
	{0x4E00, 0x5000, 3},   // CJK
	{0x800, 0x7000, 3},    // other three-byte runes (below the surrogates)
	{0xE000, 0x1000, 3},   // private use, above the surrogates
	{0x10000, 0x8000, 4},  // four-byte runes
	{0x1F300, 0x600, 4},   // emoji
	{0x10F000, 0xFFF0, 4}, // up to just below U+10FFFF
}

var setSizes = []int{1, 1, 2, 2, 3, 3, 4, 5, 7, 8, 9, 15, 16, 17, 31, 31, 32, 32, 33, 33, 63, 64, 64, 65, 127, 128, 129, 255, 256, 257}

func bitLen(n int) int {
	b := 0
	for ; n != 0; n >>= 1 {
		b++
	}
	return b
}

// makeSet builds a character set of the wanted size. Returns the string, the
// membership map, whether it has multi-byte runes, and whether it has duplicates.
func makeSet(rng *ev.Rand, size int) (string, map[rune]struct{}, bool, bool) {
	mode := rng.Intn(8)
	var ps []pool
	switch mode {
	case 0, 1:
		ps = []pool{pools[rng.Intn(2)]}
	case 2:
		ps = []pool{pools[2+rng.Intn(2)]}
	case 3:
		ps = []pool{pools[4+rng.Intn(3)]}
	case 4:
		ps = []pool{pools[7+rng.Intn(3)]}
	default: // mixed widths
		k := rng.Range(2, 4)
		for i := 0; i < k; i++ {
			ps = append(ps, pools[rng.Intn(len(pools))])
		}
	}
	dup := rng.Chance(1, 8) && size >= 2
	rs := make([]rune, 0, size)
	offs := make([]rune, len(ps))
	for i := range offs {
		offs[i] = rune(rng.Intn(int(ps[i].span)))
	}
	cnt := make([]rune, len(ps))
	for len(rs) < size {
		i := len(rs) % len(ps)
		if cnt[i] >= ps[i].span { // pool exhausted: take any other pool with room
			found := false
			for j := range ps {
				if cnt[j] < ps[j].span {
					i, found = j, true
					break
				}
			}
			if !found {
				ps = append(ps, pools[4]) // CJK has room for every size used here
				offs = append(offs, 0)
				cnt = append(cnt, 0)
				i = len(ps) - 1
			}
		}
		r := ps[i].lo + (offs[i]+cnt[i])%ps[i].span
		cnt[i]++
		if r >= 0xD800 && r <= 0xDFFF || r == utf8.RuneError || r > utf8.MaxRune {
			continue
		}
		rs = append(rs, r)
	}
	if dup {
		for k := 0; k < rng.Range(1, 3); k++ {
			rs[rng.Intn(len(rs))] = rs[rng.Intn(len(rs))]
		}
	}
	// shuffle so that widths are not ordered
	p := rng.Perm(len(rs))
	sh := make([]rune, len(rs))
	for i, j := range p {
		sh[i] = rs[j]
	}
	set := make(map[rune]struct{}, len(sh))
	multi := false
	for _, r := range sh {
		set[r] = struct{}{}
		if r >= 0x80 {
			multi = true
		}
	}
	return string(sh), set, multi, len(set) != len(sh)
}

// craftWord fills a 63-bit word with `per` chunks of `bits` bits taken from pick().
func craftWord(bits int, pick func() int64, topOnes bool) int64 {
	per := 63 / bits
	var w int64
	for k := 0; k < per; k++ {
		w |= (pick() & (int64(1)<<uint(bits) - 1)) << uint(k*bits)
	}
	if topOnes {
		used := uint(per * bits)
		if used < 63 {
			w |= (int64(1)<<(63-used) - 1) << used
		}
	}
	return w
}

const (
	srcPRNG = iota
	srcLocked
	srcZero
	srcCounter
	srcPeriodic
	srcCrafted
	srcHighBits
	nSrcKinds
)

var srcNames = [...]string{"math/rand source", "randz.LockRandSource", "constant 0", "counter", "periodic low-entropy words", "chunk-crafted boundary words", "high-bit words"}

// makeSource returns the word function, whether it is a full-entropy PRNG, and a hash of its parameters.
func makeSource(rng *ev.Rand, kind int, setLen int) (func() int64, bool, uint64) {
	switch kind {
	case srcPRNG:
		seed := int64(rng.Uint64())
		s := rand.NewSource(seed)
		return s.Int63, true, uint64(seed)
	case srcLocked:
		seed := int64(rng.Uint64())
		s := randz.NewLockRandSource(seed)
		return s.Int63, true, uint64(seed)
	case srcZero:
		return func() int64 { return 0 }, false, 0
	case srcCounter:
		var n int64 = int64(rng.Pick(0, 1, 255, 1<<20))
		step := int64(rng.Pick(1, 1, 3, 1<<7, 1<<13))
		h := ev.Mix(uint64(n), uint64(step))
		return func() int64 { v := n; n += step; return v }, false, h
	case srcPeriodic:
		p := rng.Range(1, 5)
		words := make([]int64, p)
		h := uint64(p)
		for i := range words {
			switch rng.Intn(8) {
			case 0:
				words[i] = 0
			case 1:
				words[i] = 1<<63 - 1
			case 2:
				words[i] = 0x5555555555555555
			case 3:
				words[i] = 0x2AAAAAAAAAAAAAAA
			case 4:
				words[i] = int64(rng.Intn(4 * setLen))
			case 5:
				words[i] = int64(setLen) - int64(rng.Range(0, 1))
			case 6:
				words[i] = int64(rng.Uint64()>>1) & int64(rng.Uint64()>>1) & int64(rng.Uint64()>>1) // sparse
			default:
				words[i] = int64(rng.Uint64() >> 1)
			}
			h = ev.Mix(h, uint64(words[i]))
		}
		i := 0
		return func() int64 { v := words[i%len(words)]; i++; return v }, false, h
	case srcCrafted:
		// words whose fixed-width chunks sit on the accept/reject boundary of this set size
		bits := bitLen(setLen) + rng.Pick(0, 0, 0, 0, -1, 1)
		if bits < 1 {
			bits = 1
		}
		if bits > 31 {
			bits = 31
		}
		L := int64(setLen)
		mask := int64(1)<<uint(bits) - 1
		style := rng.Intn(6)
		top := rng.Bool()
		sub := rng.Fork()
		pick := func() int64 {
			switch style {
			case 0:
				return L - 1 // largest accepted index
			case 1: // first rejected / largest accepted alternating
				if sub.Bool() {
					return L
				}
				return L - 1
			case 2: // mostly rejected values with a rare accepted one
				if sub.Chance(1, 12) {
					return int64(sub.Intn(setLen))
				}
				if sub.Bool() {
					return L
				}
				return mask
			case 3:
				return int64(sub.Pick(0, int(L-1), int(L), int(mask), int(L/2)))
			case 4: // first rejected everywhere, word of zeros every few words
				return L
			default:
				return int64(sub.Intn(int(mask) + 1))
			}
		}
		n := 0
		return func() int64 {
			n++
			if style == 4 && n%3 == 0 {
				return 0
			}
			return craftWord(bits, pick, top)
		}, false, ev.Mix(uint64(bits), uint64(style), sub.Uint64())
	default: // srcHighBits
		words := []int64{1 << 62, 1<<63 - 1, 0, 1 << 61, 3 << 61}
		o := rng.Intn(len(words))
		i := 0
		return func() int64 { v := words[(o+i)%len(words)]; i++; return v }, false, uint64(o)
	}
}

// checkStr judges one Generate result: exactly n runes, all from the set.
func checkStr(c *ev.Case, what string, out string, n int, set map[rune]struct{}, setStr string) bool {
	count := 0
	for i, r := range out {
		if _, ok := set[r]; !ok {
			_, w := utf8.DecodeRuneInString(out[i:])
			c.Failf("str-foreign-rune", "%s: rune %d of the result is %q (bytes % x), which is not in the character set %s; result %s", what, count, r, out[i:i+w], clip(setStr, 80), clip(out, 80))
			return false
		}
		count++
		if count > n+1 {
			break
		}
	}
	if count != n {
		more := ""
		if count > n {
			more = " at least"
		}
		c.Failf("str-length", "%s returned%s %d runes (%d bytes), want exactly %d; result %s", what, more, count, len(out), n, clip(out, 80))
		return false
	}
	return true
}

func clip(s string, n int) string {
	rs := []rune(s)
	if len(rs) <= n {
		return fmt.Sprintf("%q", s)
	}
	return fmt.Sprintf("%q… (%d runes)", string(rs[:n]), len(rs))
}

func strCase(c *ev.Case) {
	rng := c.Rng
	var size int
	switch rng.Intn(12) {
	case 0:
		size = rng.Range(1, 300)
	case 1:
		size = rng.Pick(511, 512, 513, 1000, 1023, 1024, 1025, 4095, 4096, 4097)
	case 2:
		if c.Thorough() && rng.Chance(1, 20) {
			size = rng.Pick(16383, 16384, 16385, 30000)
		} else {
			size = rng.Range(1, 70)
		}
	default:
		size = setSizes[rng.Intn(len(setSizes))]
	}
	setStr, set, multi, dup := makeSet(rng, size)
	kind := rng.Intn(nSrcKinds)
	inner, fullEntropy, srcHash := makeSource(rng, kind, size)
	src := &budgetSource{inner: inner}
	var g randz.StrGenerator
	if !c.Guard("NewStrGenerator", func() { g = randz.NewStrGenerator(setStr, src) }) {
		c.Logf("NewStrGenerator(%s, %s) panicked", clip(setStr, 60), srcNames[kind])
		return
	}
	c.Logf("NewStrGenerator(%s [%d runes, multi-byte=%v, duplicates=%v], %s)", clip(setStr, 60), size, multi, dup, srcNames[kind])
	c.Add("str_sets", 1)
	if size == 1 {
		c.Add("str_sets_size_1", 1)
	}
	if size&(size-1) == 0 {
		c.Add("str_sets_size_pow2", 1)
	}
	if size&(size+1) == 0 {
		c.Add("str_sets_size_pow2_minus_1", 1)
	}
	if multi {
		c.Add("str_multibyte_sets", 1)
	}
	if dup {
		c.Add("str_sets_with_duplicates", 1)
	}
	if !fullEntropy {
		c.Add("str_lowentropy_sources", 1)
	}
	c.Add("str_source_kind_"+fmt.Sprint(kind), 1)
	c.Max("str_max_set_size", int64(size))

	// every n in 0..64 (order shuffled), then a few larger lengths
	ns := rng.Perm(65)
	extra := rng.Intn(3)
	for k := 0; k < extra; k++ {
		ns = append(ns, rng.Pick(65, 100, 127, 128, 129, 255, 256, 257, 1000, rng.Range(65, 3000)))
	}
	seen := map[rune]struct{}{}
	for _, n := range ns {
		src.arm(n)
		var out string
		what := fmt.Sprintf("NewStrGenerator(%d-rune set, %s).Generate(%d)", size, srcNames[kind], n)
		if !c.Guard("Generate", func() { out = g.Generate(n) }) {
			c.Logf("Generate(%d) panicked after %d source words", n, src.calls)
			return
		}
		c.Logf("Generate(%d) -> %s [%d source words]", n, clip(out, 70), src.calls)
		c.Add("str_generate_calls", 1)
		if n == 0 {
			c.Add("str_n0_calls", 1)
		}
		if !checkStr(c, what, out, n, set, setStr) {
			return
		}
		c.Add("str_runes_checked", int64(n))
		if src.exhausted {
			if fullEntropy {
				c.Failf("str-no-progress", "%s needed more than %d words of a full-entropy source (it only returned once the source switched to zero words)", what, src.budget)
				return
			}
			c.Add("str_lowentropy_budget_exhausted", 1) // the source never offered an accepted index: excluded by the statement's reading, no verdict
		}
		if len(seen) < len(set) {
			for _, r := range out {
				seen[r] = struct{}{}
			}
		}
	}
	c.Add("str_source_words_drawn", src.total)
	if len(seen) == len(set) {
		c.Add("str_sets_fully_sampled", 1) // coverage only: every rune of the set was seen
	}
	// package-level String(n) with the default character set
	if rng.Chance(1, 4) {
		def := map[rune]struct{}{}
		for _, r := range randz.CHAR_SET {
			def[r] = struct{}{}
		}
		for k := 0; k < 4; k++ {
			n := rng.Range(0, 64)
			var out string
			if !c.Guard("String", func() { out = randz.String(n) }) {
				return
			}
			c.Logf("randz.String(%d) -> %q", n, out)
			if !checkStr(c, fmt.Sprintf("randz.String(%d)", n), out, n, def, randz.CHAR_SET) {
				return
			}
			c.Add("str_default_generator_calls", 1)
		}
	}
	if size >= 2 || multi {
		c.Distinct(ev.Mix(ev.HashString(setStr), uint64(kind), srcHash))
	}
	if c.WantSample() {
		c.Sample(fmt.Sprintf("set %s (%d runes), source %s: Generate(n) for every n in 0..64 and %v, each result exactly n runes all from the set", clip(setStr, 40), size, srcNames[kind], ns[65:]))
	}
}
