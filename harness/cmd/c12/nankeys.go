package main

import (
	"fmt"
	"math"
	"sort"

	"github.com/welllog/golib/mapz"

	"verif/ev"
)

// Engine plain-map/float-keys: a SafeKV keyed by float64 (NaN is a legal key of
// a Go map: it equals nothing, every Set of it adds an entry, no Get finds it, no
// Delete removes it, only replacing or clearing the map gets rid of it) is
// driven by one goroutine next to a plain Go map that receives the same
// operations. "Every operation is atomic on a plain map" includes that the
// result of each single operation is what the plain map gives. Entries are
// compared as multisets of (key bits, value).
func floatKeysCase(c *ev.Case) {
	rng := c.Rng
	kv := mapz.NewSafeKV[float64, int64](rng.Pick(0, 0, 4, 300))
	ref := map[float64]int64{}
	nan := math.NaN()
	keys := []float64{0, math.Copysign(0, -1), 1, 2, 3.5, math.Inf(1), nan, nan, math.Float64frombits(0x7ff8000000000123)}
	pick := func() float64 { return keys[rng.Intn(len(keys))] }
	var next int64 = 1
	canon := func(m map[float64]int64) []string {
		var out []string
		for k, v := range m {
			out = append(out, fmt.Sprintf("%016x=%d", math.Float64bits(k), v))
		}
		sort.Strings(out)
		return out
	}
	same := func(a, b []string) bool {
		if len(a) != len(b) {
			return false
		}
		for i := range a {
			if a[i] != b[i] {
				return false
			}
		}
		return true
	}
	snapshot := func(via string) bool {
		got := map[float64]int64{}
		var dupNote string
		var n int
		var ks []float64
		var vs []int64
		ok := c.Guard(via, func() {
			switch via {
			case "Range":
				kv.Range(func(k float64, v int64) bool { n++; got[k] = v; return true })
			case "All":
				for k, v := range kv.All() {
					n++
					got[k] = v
				}
			case "Map":
				kv.Map(func(m mapz.KV[float64, int64]) {
					for k, v := range m {
						n++
						got[k] = v
					}
				})
			default:
				ks, vs = kv.Keys(), kv.Values()
			}
		})
		if !ok {
			return false
		}
		want := canon(ref)
		if via == "Keys+Values" {
			var gk, wk []string
			var gv, wv []string
			for _, k := range ks {
				gk = append(gk, fmt.Sprintf("%016x", math.Float64bits(k)))
			}
			for _, v := range vs {
				gv = append(gv, fmt.Sprint(v))
			}
			for k, v := range ref {
				wk = append(wk, fmt.Sprintf("%016x", math.Float64bits(k)))
				wv = append(wv, fmt.Sprint(v))
			}
			sort.Strings(gk)
			sort.Strings(wk)
			sort.Strings(gv)
			sort.Strings(wv)
			if !same(gk, wk) || !same(gv, wv) {
				c.Failf("float-keys/snapshot", "Keys() = %v, Values() = %v; the plain map holds keys %v values %v", gk, gv, wk, wv)
				return false
			}
			c.Add("float_keys_snapshots", 1)
			return true
		}
		g := canon(got) // NaN keys of got are distinct entries too
		if n != len(ref) || !same(g, want) {
			c.Failf("float-keys/snapshot", "%s yielded %d pairs %v%s; the plain map holds %d entries %v", via, n, g, dupNote, len(ref), want)
			return false
		}
		c.Add("float_keys_snapshots", 1)
		return true
	}
	h := ev.HashString("float-keys")
	nNaN := 0
	for step, n := 0, rng.Range(20, 80); step < n; step++ {
		op := rng.Intn(100)
		k := pick()
		h = ev.Mix(h, uint64(op), math.Float64bits(k))
		isNaN := k != k
		switch {
		case op < 22:
			v := next
			next++
			if !c.Guard("Set", func() { kv.Set(k, v) }) {
				return
			}
			ref[k] = v
			c.Logf("Set(%v, %d)", k, v)
			if isNaN {
				nNaN++
			}
		case op < 32:
			v := next
			next++
			_, present := ref[k]
			var ok bool
			if !c.Guard("SetNx", func() { ok = kv.SetNx(k, v) }) {
				return
			}
			if !present {
				ref[k] = v
			}
			c.Logf("SetNx(%v, %d) -> %v", k, v, ok)
			if ok != !present {
				c.Failf("float-keys/SetNx", "SetNx(%v) = %v, the plain map has the key: %v", k, ok, present)
				return
			}
			if isNaN {
				nNaN++
			}
		case op < 40:
			v := next
			next++
			_, present := ref[k]
			var ok bool
			if !c.Guard("SetX", func() { ok = kv.SetX(k, v) }) {
				return
			}
			if present {
				ref[k] = v
			}
			c.Logf("SetX(%v, %d) -> %v", k, v, ok)
			if ok != present {
				c.Failf("float-keys/SetX", "SetX(%v) = %v, the plain map has the key: %v", k, ok, present)
				return
			}
		case op < 52:
			wv, present := ref[k]
			var v int64
			var ok, has, con bool
			if !c.Guard("Get/Has/Contains", func() { v, ok = kv.Get(k); has = kv.Has(k); con = kv.Contains(k) }) {
				return
			}
			if ok != present || has != present || con != present || (present && v != wv) || (!present && v != 0) {
				c.Failf("float-keys/Get", "Get(%v) = (%d,%v) Has=%v Contains=%v; the plain map gives (%d,%v)", k, v, ok, has, con, wv, present)
				return
			}
		case op < 64:
			ks := []float64{k}
			for rng.Chance(1, 2) && len(ks) < 4 {
				ks = append(ks, pick())
			}
			if !c.Guard("Delete", func() { kv.Delete(ks...) }) {
				return
			}
			for _, d := range ks {
				delete(ref, d)
			}
			c.Logf("Delete(%v)", ks)
		case op < 72:
			req := map[float64]int64{}
			for i := 0; i < 3; i++ {
				req[pick()] = -1
			}
			want := map[float64]int64{}
			for q := range req {
				if v, ok := ref[q]; ok {
					want[q] = v
				} else {
					want[q] = -1
				}
			}
			if !c.Guard("GetWithMap", func() { kv.GetWithMap(req) }) {
				return
			}
			if !same(canon(req), canon(want)) {
				c.Failf("float-keys/GetWithMap", "GetWithMap filled %v, the plain map gives %v", canon(req), canon(want))
				return
			}
		case op < 80:
			if !c.Guard("Clear", func() { kv.Clear() }) {
				return
			}
			if nNaN > 0 {
				c.Add("float_keys_clear_with_nan_entries", 1)
			}
			for q := range ref {
				delete(ref, q)
			}
			ref = map[float64]int64{}
			nNaN = 0
			c.Logf("Clear()")
		default:
			if !snapshot([]string{"Range", "All", "Map", "Keys+Values"}[rng.Intn(4)]) {
				return
			}
		}
		var ln int
		if !c.Guard("Len", func() { ln = kv.Len() }) {
			return
		}
		if ln != len(ref) {
			c.Failf("float-keys/Len", "Len() = %d after step %d, the plain map holds %d entries %v", ln, step, len(ref), canon(ref))
			return
		}
	}
	if !snapshot("Range") || !snapshot("Keys+Values") {
		return
	}
	c.Add("float_keys_cases", 1)
	c.Distinct(h)
	if c.WantSample() {
		c.Sample("float-keys: SafeKV[float64,int64] next to a plain Go map under the same operations (keys 0, -0, 1, 2, 3.5, +Inf, NaN, another NaN); every result and whole-map snapshot compared")
	}
}
