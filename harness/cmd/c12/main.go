// C12 — SafeKV is data-race free and every operation is atomic.
//
// Engines:
//
//	pairs/race   every pair of methods hammered concurrently under the race detector
//	ctl          controlled schedules (mutex shim) of short programs, porcupine map model
//	free/*       free-running short histories (race detector on), porcupine map model
package main

import (
	"fmt"
	"iter"
	"os"
	"sort"
	"strings"
	"sync"
	"sync/atomic"
	"time"

	"github.com/anishathalye/porcupine"
	"github.com/welllog/golib/mapz"

	"verif/ev"
	"verif/hist"
	"verif/sched"
)

// ---- the sequential specification: a plain map ----

type kvState string // canonical "k=v;" pairs sorted by key

func decode(s kvState) map[int64]int64 {
	m := map[int64]int64{}
	for _, p := range strings.Split(string(s), ";") {
		if p == "" {
			continue
		}
		var k, v int64
		fmt.Sscanf(p, "%d=%d", &k, &v)
		m[k] = v
	}
	return m
}

func encode(m map[int64]int64) kvState {
	ks := make([]int64, 0, len(m))
	for k := range m {
		ks = append(ks, k)
	}
	sort.Slice(ks, func(i, j int) bool { return ks[i] < ks[j] })
	var b strings.Builder
	for _, k := range ks {
		fmt.Fprintf(&b, "%d=%d;", k, m[k])
	}
	return kvState(b.String())
}

func sortedInts(xs []int64) string {
	s := append([]int64(nil), xs...)
	sort.Slice(s, func(i, j int) bool { return s[i] < s[j] })
	return fmt.Sprint(s)
}

func pairsString(m map[int64]int64) string { return string(encode(m)) }

// op encoding: Arg = key, Arg2 = value, Out/OK = scalar outputs, Extra =
// canonical snapshot output (and the key list of Delete / GetWithMap).

func kvModel(init map[int64]int64) porcupine.Model {
	return porcupine.Model{
		Init: func() interface{} { return encode(init) },
		Step: func(st, in, out interface{}) (bool, interface{}) {
			s := st.(kvState)
			o := out.(hist.Op)
			m := decode(s)
			v, present := m[o.Arg]
			switch o.Kind {
			case "Get":
				if present {
					return o.OK && o.Out == v, s
				}
				return !o.OK && o.Out == 0, s
			case "Has", "Contains":
				return o.OK == present, s
			case "GetWithLock":
				// OK: callback invoked; Out: the value it received
				if present {
					return o.OK && o.Out == v, s
				}
				return !o.OK, s
			case "Set":
				m[o.Arg] = o.Arg2
				return true, encode(m)
			case "SetNx":
				if present {
					return !o.OK, s
				}
				if !o.OK {
					return false, s
				}
				m[o.Arg] = o.Arg2
				return true, encode(m)
			case "SetX":
				if !present {
					return !o.OK, s
				}
				if !o.OK {
					return false, s
				}
				m[o.Arg] = o.Arg2
				return true, encode(m)
			case "Delete":
				for _, k := range parseKeys(o.Extra) {
					delete(m, k)
				}
				return true, encode(m)
			case "Len":
				return o.Out == int64(len(m)), s
			case "Keys":
				ks := make([]int64, 0, len(m))
				for k := range m {
					ks = append(ks, k)
				}
				return o.Extra == sortedInts(ks), s
			case "Values":
				vs := make([]int64, 0, len(m))
				for _, v := range m {
					vs = append(vs, v)
				}
				return o.Extra == sortedInts(vs), s
			case "Range", "All":
				return o.Extra == pairsString(m), s
			case "GetWithMap":
				// Extra = "keys|result pairs"; absent keys keep the sentinel -1
				parts := strings.SplitN(o.Extra, "|", 2)
				want := map[int64]int64{}
				for _, k := range parseKeys(parts[0]) {
					if v, ok := m[k]; ok {
						want[k] = v
					} else {
						want[k] = -1
					}
				}
				return len(parts) == 2 && parts[1] == pairsString(want), s
			case "MapSnapSet":
				// callback saw snapshot Extra, then set m[Arg] = Arg2
				if o.Extra != pairsString(m) {
					return false, s
				}
				m[o.Arg] = o.Arg2
				return true, encode(m)
			case "Clear":
				return true, kvState("")
			}
			return false, s
		},
	}
}

func parseKeys(s string) []int64 {
	var ks []int64
	for _, p := range strings.Split(strings.Trim(s, "[]"), " ") {
		if p == "" {
			continue
		}
		var k int64
		fmt.Sscanf(p, "%d", &k)
		ks = append(ks, k)
	}
	return ks
}

type opSpec struct {
	Kind string
	Key  int64
	Val  int64
	Keys []int64
	Seq  iter.Seq2[int64, int64] `json:"-"` // KeptAll only
}

func (o opSpec) String() string {
	switch o.Kind {
	case "Set", "SetNx", "SetX", "MapSnapSet":
		return fmt.Sprintf("%s(%d,%d)", o.Kind, o.Key, o.Val)
	case "Delete", "GetWithMap":
		return fmt.Sprintf("%s(%v)", o.Kind, o.Keys)
	case "Get", "Has", "Contains", "GetWithLock":
		return fmt.Sprintf("%s(%d)", o.Kind, o.Key)
	}
	return o.Kind
}

const iterBound = 64

func do(kv *mapz.SafeKV[int64, int64], rec *hist.Recorder, client int, o opSpec) {
	switch o.Kind {
	case "Get":
		op := rec.Begin(client, o.Kind, o.Key, 0)
		v, ok := kv.Get(o.Key)
		rec.End(op, v, ok, "")
	case "Has":
		op := rec.Begin(client, o.Kind, o.Key, 0)
		ok := kv.Has(o.Key)
		rec.End(op, 0, ok, "")
	case "Contains":
		op := rec.Begin(client, o.Kind, o.Key, 0)
		ok := kv.Contains(o.Key)
		rec.End(op, 0, ok, "")
	case "GetWithLock":
		op := rec.Begin(client, o.Kind, o.Key, 0)
		called, got := false, int64(0)
		kv.GetWithLock(o.Key, func(v int64) { called, got = true, v })
		rec.End(op, got, called, "")
	case "Set":
		op := rec.Begin(client, o.Kind, o.Key, o.Val)
		kv.Set(o.Key, o.Val)
		rec.End(op, 0, true, "")
	case "SetNx":
		op := rec.Begin(client, o.Kind, o.Key, o.Val)
		ok := kv.SetNx(o.Key, o.Val)
		rec.End(op, 0, ok, "")
	case "SetX":
		op := rec.Begin(client, o.Kind, o.Key, o.Val)
		ok := kv.SetX(o.Key, o.Val)
		rec.End(op, 0, ok, "")
	case "Delete":
		op := rec.Begin(client, o.Kind, 0, 0)
		arg := append([]int64(nil), o.Keys...)
		kv.Delete(arg...)
		rec.End(op, 0, true, fmt.Sprint(o.Keys))
		for i := range arg { // the argument slice is the caller's again after the call
			arg[i] = -9000 - int64(i)
		}
	case "Len":
		op := rec.Begin(client, o.Kind, 0, 0)
		n := kv.Len()
		rec.End(op, int64(n), true, "")
	case "Keys":
		op := rec.Begin(client, o.Kind, 0, 0)
		ks := kv.Keys()
		rec.End(op, int64(len(ks)), true, sortedInts(ks))
		for i := range ks { // a returned slice is the caller's: writing to it must not reach the map or a later result
			ks[i] = -7000 - int64(i)
		}
	case "Values":
		op := rec.Begin(client, o.Kind, 0, 0)
		vs := kv.Values()
		rec.End(op, int64(len(vs)), true, sortedInts(vs))
		for i := range vs {
			vs[i] = -8000 - int64(i)
		}
	case "Range":
		op := rec.Begin(client, o.Kind, 0, 0)
		m := map[int64]int64{}
		n := 0
		dup := false
		kv.Range(func(k, v int64) bool {
			if _, ok := m[k]; ok {
				dup = true
			}
			m[k] = v
			n++
			return n < iterBound
		})
		ex := pairsString(m)
		if dup {
			ex += "DUPLICATE-KEY"
		}
		rec.End(op, int64(n), true, ex)
	case "All", "KeptAll":
		// "KeptAll": the sequence was obtained from All() before the history began and is
		// run now (and again later); it must enumerate the map as it is while it runs.
		seq := o.Seq
		if seq == nil {
			seq = kv.All()
		}
		op := rec.Begin(client, "All", 0, 0)
		m := map[int64]int64{}
		n := 0
		dup := false
		for k, v := range seq {
			if _, ok := m[k]; ok {
				dup = true
			}
			m[k] = v
			n++
			if n >= iterBound {
				break
			}
		}
		ex := pairsString(m)
		if dup {
			ex += "DUPLICATE-KEY"
		}
		rec.End(op, int64(n), true, ex)
	case "GetWithMap":
		op := rec.Begin(client, o.Kind, 0, 0)
		m := map[int64]int64{}
		for _, k := range o.Keys {
			m[k] = -1
		}
		kv.GetWithMap(m)
		rec.End(op, 0, true, fmt.Sprint(o.Keys)+"|"+pairsString(m))
	case "MapSnapSet":
		op := rec.Begin(client, o.Kind, o.Key, o.Val)
		snap := ""
		kv.Map(func(m mapz.KV[int64, int64]) {
			cp := map[int64]int64{}
			for k, v := range m {
				cp[k] = v
			}
			snap = pairsString(cp)
			m[o.Key] = o.Val
		})
		rec.End(op, 0, true, snap)
	case "Clear":
		op := rec.Begin(client, o.Kind, 0, 0)
		kv.Clear()
		rec.End(op, 0, true, "")
	}
	sched.OpDone()
}

var allKinds = []string{"Get", "Has", "Contains", "GetWithLock", "Set", "SetNx", "SetX", "Delete", "Len", "Keys", "Values", "Range", "All", "GetWithMap", "MapSnapSet", "Clear"}

// weights for history programs: compound and snapshot operations favoured
var progKinds = []string{"Get", "Has", "Set", "Set", "SetNx", "SetNx", "SetNx", "SetX", "SetX", "Delete", "Delete", "Len", "Keys", "Values", "Range", "All", "GetWithMap", "GetWithLock", "MapSnapSet", "Clear", "Contains"}

const nKeys = 3

func genOp(rng *ev.Rand, kind string, t, j int) opSpec {
	o := opSpec{Kind: kind, Key: int64(rng.Intn(nKeys)), Val: int64(t*100 + j + 1)}
	if kind == "Delete" || kind == "GetWithMap" {
		n := rng.Range(1, nKeys)
		p := rng.Perm(nKeys)
		for _, k := range p[:n] {
			o.Keys = append(o.Keys, int64(k))
		}
		sort.Slice(o.Keys, func(a, b int) bool { return o.Keys[a] < o.Keys[b] })
	}
	return o
}

type config struct {
	Init     map[int64]int64
	Family   string
	Threads  [][]opSpec
	Strategy string
}

func (c config) String() string {
	var b strings.Builder
	fmt.Fprintf(&b, "init={%s} family=%s sched=%s;", pairsString(c.Init), c.Family, c.Strategy)
	for i, t := range c.Threads {
		fmt.Fprintf(&b, " T%d:", i)
		for _, o := range t {
			b.WriteString(o.String() + ",")
		}
	}
	return b.String()
}

func genConfig(rng *ev.Rand, maxThreads, maxOps, maxTotal int) config {
	c := config{Init: map[int64]int64{}}
	for k := 0; k < nKeys; k++ {
		if rng.Chance(1, 3) {
			c.Init[int64(k)] = int64(9000 + k)
		}
	}
	switch rng.Intn(10) {
	case 0: // round: k concurrent SetNx on one absent key
		c.Family = "round-setnx"
		key := int64(rng.Intn(nKeys))
		delete(c.Init, key)
		for t := 0; t < rng.Range(2, maxThreads); t++ {
			c.Threads = append(c.Threads, []opSpec{{Kind: "SetNx", Key: key, Val: int64(t*100 + 1)}})
		}
	case 1: // SetX on an absent key racing with Delete/SetNx of it
		c.Family = "round-setx"
		key := int64(rng.Intn(nKeys))
		delete(c.Init, key)
		c.Threads = append(c.Threads, []opSpec{{Kind: "SetX", Key: key, Val: 1}, {Kind: "Has", Key: key}})
		c.Threads = append(c.Threads, []opSpec{{Kind: "SetX", Key: key, Val: 101}, {Kind: "Get", Key: key}})
		if rng.Bool() {
			c.Threads = append(c.Threads, []opSpec{{Kind: "Len"}, {Kind: "Keys"}})
		}
	default:
		c.Family = "mixed"
		nt := rng.Range(2, maxThreads)
		total := 0
		for t := 0; t < nt; t++ {
			n := rng.Range(1, maxOps)
			if total+n > maxTotal {
				n = maxTotal - total
			}
			if n <= 0 {
				n = 1
			}
			total += n
			var ops []opSpec
			for j := 0; j < n; j++ {
				ops = append(ops, genOp(rng, progKinds[rng.Intn(len(progKinds))], t, j))
			}
			c.Threads = append(c.Threads, ops)
		}
	}
	return c
}

func setup(cfg config) *mapz.SafeKV[int64, int64] {
	kv := mapz.NewSafeKV[int64, int64](0)
	for k, v := range cfg.Init {
		kv.Set(k, v)
	}
	return kv
}

func tail(kv *mapz.SafeKV[int64, int64], rec *hist.Recorder, kept iter.Seq2[int64, int64]) {
	cl := rec.AddClient()
	rec.Quiesce()
	do(kv, rec, cl, opSpec{Kind: "KeptAll", Seq: kept})
	do(kv, rec, cl, opSpec{Kind: "Len"})
	do(kv, rec, cl, opSpec{Kind: "Keys"})
	do(kv, rec, cl, opSpec{Kind: "Values"})
	for k := 0; k < nKeys; k++ {
		do(kv, rec, cl, opSpec{Kind: "Get", Key: int64(k)})
	}
	do(kv, rec, cl, opSpec{Kind: "Range"})
	do(kv, rec, cl, opSpec{Kind: "KeptAll", Seq: kept})
	do(kv, rec, cl, opSpec{Kind: "Keys"}) // after the earlier results were scribbled on
	do(kv, rec, cl, opSpec{Kind: "Values"})
}

func judge(c *ev.Case, cfg config, ops []hist.Op, extra string) bool {
	var overl int64
	kinds := map[string]bool{}
	nxTrue := 0
	for _, o := range ops {
		if o.Overlapped {
			overl++
			kinds[o.Kind] = true
		}
		if o.Kind == "SetNx" && o.OK && o.Client < len(cfg.Threads) {
			nxTrue++
		}
	}
	c.Add("ops", int64(len(ops)))
	c.Add("ops_overlapped", overl)
	for k := range kinds {
		c.Add("overlapped/"+k, 1)
	}
	if cfg.Family == "round-setnx" {
		c.Add("rounds_setnx", 1)
		if nxTrue != 1 {
			c.Witness = map[string]any{"config": cfg.String(), "history": hist.Render(ops), "extra": extra}
			c.Failf("setnx-round", "%d concurrent SetNx calls on an absent key: %d returned true (exactly one must)", len(cfg.Threads), nxTrue)
			return false
		}
	}
	switch hist.Check(kvModel(cfg.Init), ops, 20*time.Second) {
	case hist.Illegal:
		c.Witness = map[string]any{"config": cfg.String(), "history": hist.Render(ops), "extra": extra}
		c.Failf("nonlinearizable", "history of %d SafeKV operations is not explained by any atomic order on a plain map (config %s)", len(ops), cfg.String())
		return false
	case hist.Unknown:
		c.Add("porcupine_timeouts", 1)
		return true
	}
	c.Add("histories_checked", 1)
	return true
}

func ctlCase(c *ev.Case) {
	rng := c.Rng
	cfg := genConfig(rng, 4, 4, 9)
	sc := sched.Config{Seed: rng.Uint64(), MaxSteps: 8000}
	switch rng.Intn(3) {
	case 0:
		sc.Strategy = sched.RandomWalk
		cfg.Strategy = "walk"
	case 1:
		sc.Strategy = sched.RandomWalk
		sc.Sticky = rng.Pick(128, 200)
		cfg.Strategy = "walk-sticky"
	default:
		sc.Strategy = sched.PCT
		sc.Depth = rng.Range(1, 4)
		n := 0
		for _, t := range cfg.Threads {
			n += len(t)
		}
		sc.EstSteps = n * 8
		cfg.Strategy = fmt.Sprintf("pct%d", sc.Depth)
	}
	kv := setup(cfg)
	kept := kv.All()
	rec := hist.NewRecorder(len(cfg.Threads), true)
	bodies := make([]func(), len(cfg.Threads))
	for t := range cfg.Threads {
		t := t
		bodies[t] = func() {
			for _, o := range cfg.Threads[t] {
				do(kv, rec, t, o)
			}
		}
	}
	c.Logf("config: %s", cfg.String())
	res := sched.Run(sc, bodies)
	tr := sched.TraceString(res.Trace)
	c.Logf("trace: %s", tr)
	c.Add("runs", 1)
	c.Add("steps", int64(res.Steps))
	c.Add("switches", int64(res.Switches))
	if res.Panic != nil {
		c.Witness = map[string]any{"config": cfg.String(), "trace": tr}
		c.Failf("panic/ctl", "panic in a SafeKV call under schedule %s: %v\n%s", tr, res.Panic, res.PanicStack)
		return
	}
	if res.Aborted {
		if res.NoProgress {
			c.Witness = map[string]any{"config": cfg.String(), "trace": tr}
			c.Failf("deadlock", "all live threads wait for the lock forever (a lock is never released) (config %s)", cfg.String())
			return
		}
		c.Add("aborted_runs", 1)
		return
	}
	tail(kv, rec, kept)
	ops := rec.Ops()
	for _, l := range hist.Render(ops) {
		c.Logf("%s", l)
	}
	if !judge(c, cfg, ops, "trace="+tr) {
		return
	}
	if res.Switches > 0 {
		c.Distinct(ev.HashString(cfg.String() + "|" + tr))
	}
	if c.WantSample() {
		c.Sample(map[string]any{"config": cfg.String(), "trace": tr, "history": hist.Render(ops)})
	}
}

func freeCase(c *ev.Case) {
	rng := c.Rng
	cfg := genConfig(rng, 8, 5, 20)
	cfg.Strategy = "go-runtime"
	kv := setup(cfg)
	kept := kv.All()
	rec := hist.NewRecorder(len(cfg.Threads), false)
	start := make(chan struct{})
	var wg sync.WaitGroup
	for t := range cfg.Threads {
		wg.Add(1)
		go func(t int) {
			defer wg.Done()
			<-start
			for _, o := range cfg.Threads[t] {
				do(kv, rec, t, o)
			}
		}(t)
	}
	close(start)
	wg.Wait()
	tail(kv, rec, kept)
	ops := rec.Ops()
	c.Logf("config: %s", cfg.String())
	for _, l := range hist.Render(ops) {
		c.Logf("%s", l)
	}
	c.Add("runs", 1)
	if !judge(c, cfg, ops, "") {
		return
	}
	for _, o := range ops {
		if o.Overlapped {
			c.Distinct(ev.HashString(cfg.String() + "|" + hist.Canon(ops)))
			if c.WantSample() {
				c.Sample(map[string]any{"config": cfg.String(), "history": hist.Render(ops)})
			}
			break
		}
	}
}

// pairsCase: methods A and B (from the case index) hammered by two groups of
// goroutines while a third group runs a random mix; the oracle here is the race
// detector (reports are collected by the parent) plus cheap sanity assertions.
func pairsCase(c *ev.Case) {
	rng := c.Rng
	n := len(allKinds)
	a := allKinds[c.Index%n]
	b := allKinds[(c.Index/n)%n]
	kv := mapz.NewSafeKV[int64, int64](rng.Pick(0, 1, 8))
	g := rng.Pick(4, 6, 8, 12, 16)
	iters := c.Run().N(400, 2500)
	var wg sync.WaitGroup
	start := make(chan struct{})
	bad := make([]string, g)
	for t := 0; t < g; t++ {
		wg.Add(1)
		seed := rng.Uint64()
		go func(t int) {
			defer wg.Done()
			lr := ev.NewRand(seed)
			rec := hist.NewRecorder(1, false)
			<-start
			for j := 0; j < iters; j++ {
				kind := a
				switch {
				case t%3 == 1:
					kind = b
				case t%3 == 2:
					kind = allKinds[lr.Intn(n)]
				}
				o := genOp(lr, kind, t, j)
				do(kv, rec, 0, o)
			}
			// sanity over what this goroutine saw: sizes within the key universe
			for _, o := range rec.Client(0) {
				switch o.Kind {
				case "Len", "Keys", "Values", "Range", "All":
					if o.Out < 0 || o.Out > nKeys {
						bad[t] = fmt.Sprintf("%s reported %d entries with a universe of %d keys (%s)", o.Kind, o.Out, nKeys, o.Extra)
					}
					if strings.Contains(o.Extra, "DUPLICATE-KEY") {
						bad[t] = fmt.Sprintf("%s yielded the same key twice (%s)", o.Kind, o.Extra)
					}
				}
			}
		}(t)
	}
	close(start)
	wg.Wait()
	c.Add("pair_runs", 1)
	c.Add("pair_ops", int64(g*iters))
	c.Logf("pair %s x %s, %d goroutines x %d ops", a, b, g, iters)
	for _, s := range bad {
		if s != "" {
			c.Failf("snapshot-size", "pair %s x %s: %s", a, b, s)
			return
		}
	}
	c.Distinct(ev.HashString(a + "x" + b))
	if c.WantSample() {
		c.Sample(fmt.Sprintf("pair %s x %s: %d goroutines x %d operations, third of them a random mix of all %d methods", a, b, g, iters, n))
	}
}

// bulkCase: operations over MANY keys. One writer thread performs a sequence of
// multi-key writes, each of which must be atomic (Delete of more than a hundred
// keys, Map(fn) rewriting every value, Clear, Delete of the rest); observer threads
// take whole-map snapshots (Len, Keys, Values, Range, All, GetWithMap over all
// keys). Every snapshot must equal the map as it was after some prefix of the
// writer's operations: a mixture is a violation.
func bulkCase(c *ev.Case, controlled bool) {
	rng := c.Rng
	K := rng.Pick(130, 200, 300, 513)
	kv := mapz.NewSafeKV[int64, int64](0)
	cur := map[int64]int64{}
	for k := 0; k < K; k++ {
		kv.Set(int64(k), 1000)
		cur[int64(k)] = 1000
	}
	canon := func(m map[int64]int64) string { return pairsString(m) }
	states := map[string]int{canon(cur): 0}
	type wop struct {
		kind string
		keys []int64
		gen  int64
	}
	var wops []wop
	nw := rng.Range(1, 3)
	for i := 0; i < nw; i++ {
		switch rng.Intn(4) {
		case 0, 1: // delete a large subset in one call
			var ks []int64
			for k := range cur {
				if rng.Chance(3, 4) {
					ks = append(ks, k)
				}
			}
			sort.Slice(ks, func(a, b int) bool { return ks[a] < ks[b] })
			wops = append(wops, wop{kind: "Delete", keys: ks})
			for _, k := range ks {
				delete(cur, k)
			}
		case 2:
			g := int64(2000 + i)
			wops = append(wops, wop{kind: "MapSetAll", gen: g})
			for k := range cur {
				cur[k] = g
			}
		default:
			wops = append(wops, wop{kind: "Clear"})
			cur = map[int64]int64{}
		}
		cp := map[int64]int64{}
		for k, v := range cur {
			cp[k] = v
		}
		states[canon(cp)] = i + 1
	}
	allKeys := make([]int64, K)
	for i := range allKeys {
		allKeys[i] = int64(i)
	}
	type obs struct{ kind, snap string }
	nobs := rng.Range(1, 3)
	results := make([][]obs, nobs)
	observer := func(t int) func() {
		return func() {
			for j := 0; j < 3; j++ {
				kind := []string{"Keys+Values", "Range", "All", "GetWithMap", "Len"}[(t+j+c.Index)%5]
				var snap string
				switch kind {
				case "Range":
					m := map[int64]int64{}
					kv.Range(func(k, v int64) bool { m[k] = v; return true })
					snap = canon(m)
				case "All":
					m := map[int64]int64{}
					for k, v := range kv.All() {
						m[k] = v
					}
					snap = canon(m)
				case "GetWithMap":
					m := map[int64]int64{}
					for _, k := range allKeys {
						m[k] = -1
					}
					kv.GetWithMap(m)
					for k, v := range m {
						if v == -1 {
							delete(m, k)
						}
					}
					snap = canon(m)
				case "Len":
					snap = fmt.Sprintf("len=%d", kv.Len())
				default:
					ks := kv.Keys()
					vs := kv.Values()
					snap = fmt.Sprintf("nkeys=%d nvalues=%d", len(ks), len(vs))
					_ = vs
				}
				results[t] = append(results[t], obs{kind, snap})
				sched.OpDone()
			}
		}
	}
	writer := func() {
		for _, w := range wops {
			switch w.kind {
			case "Delete":
				kv.Delete(w.keys...)
			case "MapSetAll":
				kv.Map(func(m mapz.KV[int64, int64]) {
					for k := range m {
						m[k] = w.gen
					}
				})
			default:
				kv.Clear()
			}
			sched.OpDone()
		}
	}
	bodies := []func(){writer}
	for t := 0; t < nobs; t++ {
		bodies = append(bodies, observer(t))
	}
	desc := fmt.Sprintf("K=%d writer=", K)
	for _, w := range wops {
		if w.kind == "Delete" {
			desc += fmt.Sprintf("Delete(%d keys),", len(w.keys))
		} else {
			desc += w.kind + ","
		}
	}
	c.Logf("bulk: %s observers=%d", desc, nobs)
	if controlled {
		sc := sched.Config{Seed: rng.Uint64(), MaxSteps: 200000, Strategy: sched.RandomWalk}
		if rng.Bool() {
			sc.Strategy = sched.PCT
			sc.Depth = rng.Range(1, 4)
			sc.EstSteps = 60
		}
		res := sched.Run(sc, bodies)
		if res.Panic != nil {
			c.Failf("panic/ctl", "panic in a SafeKV call: %v\n%s", res.Panic, res.PanicStack)
			return
		}
		if res.Aborted {
			c.Add("aborted_runs", 1)
			return
		}
		c.Add("bulk_switches", int64(res.Switches))
	} else {
		var wg sync.WaitGroup
		start := make(chan struct{})
		for _, b := range bodies {
			wg.Add(1)
			go func(b func()) { defer wg.Done(); <-start; b() }(b)
		}
		close(start)
		wg.Wait()
	}
	// sizes of the admissible states, for the Len / Keys+Values observations
	sizes := map[string]bool{}
	for st := range states {
		n := strings.Count(st, ";")
		sizes[fmt.Sprintf("len=%d", n)] = true
		sizes[fmt.Sprintf("nkeys=%d nvalues=%d", n, n)] = true
	}
	for t := range results {
		for _, o := range results[t] {
			c.Logf("observer %d: %s -> %d entries", t, o.kind, strings.Count(o.snap, ";"))
			ok := false
			if o.kind == "Len" || o.kind == "Keys+Values" {
				// Keys and Values are two calls: each must be an admissible size
				if o.kind == "Len" {
					ok = sizes[o.snap]
				} else {
					var a, b int
					fmt.Sscanf(o.snap, "nkeys=%d nvalues=%d", &a, &b)
					ok = sizes[fmt.Sprintf("len=%d", a)] && sizes[fmt.Sprintf("len=%d", b)]
				}
			} else {
				_, ok = states[o.snap]
			}
			if !ok {
				c.Witness = map[string]any{"writer": desc, "observation": o.kind, "entries_seen": strings.Count(o.snap, ";")}
				c.Failf("bulk-torn-snapshot", "%s observed a map state that exists after no prefix of the writer's atomic operations (%s): saw %d entries / %s", o.kind, desc, strings.Count(o.snap, ";"), clipStr(o.snap, 120))
				return
			}
			c.Add("bulk_snapshots_checked", 1)
		}
	}
	c.Add("bulk_cases", 1)
	c.Distinct(ev.HashString(desc + fmt.Sprint(nobs, controlled, c.Index%5)))
	if c.WantSample() {
		c.Sample("bulk: " + desc + fmt.Sprintf(" %d observers taking whole-map snapshots; every snapshot equals the map after some prefix of the writer's operations", nobs))
	}
}

func clipStr(s string, n int) string {
	if len(s) > n {
		return s[:n] + "…"
	}
	return s
}

func main() {
	r := ev.New("C12")
	r.Rule("pairs: one case = two SafeKV methods hammered concurrently (plus a random mix) under the race detector, all 16x16 ordered pairs; distinct = distinct method pairs. ctl: (initial map, per-thread operation lists, schedule trace), distinct = hash of all three with at least one context switch. free: distinct canonical histories with an overlapping pair.")
	r.Assume("user callbacks never re-enter the SafeKV")
	r.Assume("the controlled engine interleaves at lock/unlock granularity (mutex shim); unsynchronised accesses are the race detector's job")
	r.Assume("histories use 3 keys and unique written values; at most 4 (controlled) / 8 (free) threads")
	sched.JitterOn = os.Getenv("VERIF_JITTER") == "1"

	np := len(allKinds) * len(allKinds)
	r.CasesProc("pairs/race", r.N(np, 4*np), ev.Opt{Bin: "race", Procs: 8, AlwaysLog: true}, pairsCase)
	nctl := r.N(40000, 1500000)
	r.CasesProc("ctl", nctl, ev.Opt{Bin: "shim", Procs: 14}, ctlCase)
	r.CasesProc("bulk/ctl", r.N(6000, 200000), ev.Opt{Bin: "shim", Procs: 14}, func(c *ev.Case) { bulkCase(c, true) })
	r.CasesProc("big-delete", r.N(600, 12000), ev.Opt{Procs: 8, Workers: 2, AlwaysLog: true}, bigDeleteCase)
	r.CasesProc("big-delete/race", r.N(150, 3000), ev.Opt{Bin: "race", Procs: 8, Workers: 2, AlwaysLog: true}, bigDeleteCase)
	r.Require("bigdelete_cases", 500)
	r.CasesProc("bulk/race", r.N(1500, 30000), ev.Opt{Bin: "race", Procs: 6, AlwaysLog: true}, func(c *ev.Case) { bulkCase(c, false) })
	nfree := r.N(5000, 100000)
	r.CasesProc("free/race", nfree, ev.Opt{Bin: "race", Procs: 6, AlwaysLog: true}, freeCase)
	r.CasesProc("free/jitter", nfree, ev.Opt{Bin: "shimrace", Procs: 6, AlwaysLog: true, Env: []string{"VERIF_JITTER=1"}}, freeCase)
	if r.Thorough() {
		for _, p := range []string{"2", "4"} {
			r.CasesProc("pairs/race/P"+p, np, ev.Opt{Bin: "race", Procs: 8, AlwaysLog: true, Env: []string{"GOMAXPROCS=" + p}}, pairsCase)
			r.CasesProc("free/race/P"+p, nfree/2, ev.Opt{Bin: "race", Procs: 6, AlwaysLog: true, Env: []string{"GOMAXPROCS=" + p}}, freeCase)
		}
	}
	r.Require("histories_checked", int64(nctl/2))
	r.Require("ops_overlapped", 1000)
	r.Require("pair_runs", int64(np))
	r.Require("rounds_setnx", 100)
	r.Require("bulk_snapshots_checked", 10000)
	r.Finish()
}

// bigDeleteCase: a map that has held well over a thousand entries is emptied by a few
// bulk Delete calls while other goroutines keep writing keys that nobody deletes.
// Conservation oracle (no history search needed): every such key has exactly one
// writer, so after all goroutines are done it must hold that writer's last value;
// every deleted key must be gone; Len must be the number of surviving keys. A
// Delete that copies or rebuilds the map outside the write lock loses or reverts
// some of those writes.
func bigDeleteCase(c *ev.Case) {
	rng := c.Rng
	K := rng.Pick(1100, 1500, 2100, 4200)
	kv := mapz.NewSafeKV[int64, int64](0)
	for k := 0; k < K; k++ {
		kv.Set(int64(k), 1000)
	}
	// the preloaded keys are deleted in 1..4 calls, the first one large
	perm := rng.Perm(K)
	cuts := []int{K * rng.Range(70, 95) / 100}
	for cuts[len(cuts)-1] < K && len(cuts) < 4 {
		cuts = append(cuts, cuts[len(cuts)-1]+rng.Range(1, K-cuts[len(cuts)-1]))
	}
	cuts[len(cuts)-1] = K
	W := rng.Range(2, 4)
	per := rng.Range(20, 60)
	rounds := rng.Range(3, 8)
	last := make([][]int64, W)
	var wg sync.WaitGroup
	var pan atomic.Value
	guard := func(f func()) {
		defer wg.Done()
		defer func() {
			if p := recover(); p != nil {
				pan.Store(fmt.Sprint(p))
			}
		}()
		f()
	}
	start := make(chan struct{})
	for t := 0; t < W; t++ {
		t := t
		last[t] = make([]int64, per)
		wg.Add(1)
		go guard(func() {
			<-start
			for r := 1; r <= rounds; r++ {
				for j := 0; j < per; j++ {
					key := int64(1_000_000 + t*1000 + j)
					v := int64(r*100000 + t*1000 + j)
					kv.Set(key, v)
					last[t][j] = v
				}
			}
		})
	}
	wg.Add(1)
	go guard(func() {
		<-start
		from := 0
		for _, to := range cuts {
			ks := make([]int64, 0, to-from)
			for _, p := range perm[from:to] {
				ks = append(ks, int64(p))
			}
			kv.Delete(ks...)
			from = to
		}
	})
	close(start)
	wg.Wait()
	c.Add("bigdelete_cases", 1)
	c.Add("bigdelete_keys_deleted", int64(K))
	c.Add("bigdelete_private_writes", int64(W*per*rounds))
	if p := pan.Load(); p != nil {
		c.Failf("panic/big-delete", "a SafeKV call panicked while %d keys were deleted in %d calls next to %d writers: %v", K, len(cuts), W, p)
		return
	}
	var got map[int64]int64
	var ln int
	if !c.Guard("Range/Len", func() {
		got = map[int64]int64{}
		kv.Range(func(k, v int64) bool { got[k] = v; return true })
		ln = kv.Len()
	}) {
		return
	}
	for t := 0; t < W; t++ {
		for j := 0; j < per; j++ {
			key := int64(1_000_000 + t*1000 + j)
			if v, ok := got[key]; !ok || v != last[t][j] {
				c.Failf("lost-update", "key %d is written only by goroutine %d, whose last Set stored %d; after all goroutines finished the map has (%d,%v). %d preloaded keys were deleted by %d Delete calls (sizes up to %d) meanwhile", key, t, last[t][j], v, ok, K, len(cuts), cuts[0])
				return
			}
		}
	}
	for k := 0; k < K; k++ {
		if _, ok := got[int64(k)]; ok {
			c.Failf("delete-undone", "key %d was passed to a Delete call that returned, nobody wrote it afterwards, and it is still in the map", k)
			return
		}
	}
	if ln != W*per || len(got) != W*per {
		c.Failf("len", "Len()=%d, Range yields %d keys, %d keys were written and never deleted", ln, len(got), W*per)
		return
	}
	c.Distinct(ev.Mix(uint64(K), uint64(W), uint64(per), uint64(rounds), uint64(cuts[0])))
	if c.WantSample() {
		c.Sample(fmt.Sprintf("big-delete: %d preloaded keys deleted by %d Delete calls (first %d keys) next to %d writers x %d private keys x %d rounds; every private key ended with its writer's last value", K, len(cuts), cuts[0], W, per, rounds))
	}
}
