// C12 — SafeKV is data-race free and every operation is atomic.
//
// Engines:
//
//	pairs/race   every pair of methods hammered concurrently under the race detector
//	ctl          controlled schedules (mutex shim) of short programs, porcupine map model
//	free/*       free-running short histories (race detector on), porcupine map model
//	bulk/*       multi-key writes against whole-map snapshots on maps of 130..513 keys
//	big-delete   bulk Delete of >1000 keys next to writers of private keys
//
// Histories (ctl, free) cover, besides the plain calls: the zero value as a stored
// value, Delete / GetWithMap with no keys, a repeated key, a never-stored key, a map
// that also holds 33..257 entries no operation names ("ballast", see fold), rounds of
// SetNx on an absent key, of SetX on an absent key and of SetX against the one Delete
// of a present key, a kept All() sequence abandoned after one pair and then re-run,
// and (controlled schedules only) Range / All stopped early by the caller.
package main

import (
	"fmt"
	"iter"
	"os"
	"sort"
	"strings"
	"sync"
	"sync/atomic"
	"time"

	"github.com/anishathalye/porcupine"
	"github.com/welllog/golib/mapz"

	"verif/ev"
	"verif/hist"
	"verif/sched"
)

// ---- the sequential specification: a plain map ----

type kvState string // canonical "k=v;" pairs sorted by key

func decode(s kvState) map[int64]int64 {
	m := map[int64]int64{}
	for _, p := range strings.Split(string(s), ";") {
		if p == "" {
			continue
		}
		var k, v int64
		fmt.Sscanf(p, "%d=%d", &k, &v)
		m[k] = v
	}
	return m
}

func encode(m map[int64]int64) kvState {
	ks := make([]int64, 0, len(m))
	for k := range m {
		ks = append(ks, k)
	}
	sort.Slice(ks, func(i, j int) bool { return ks[i] < ks[j] })
	var b strings.Builder
	for _, k := range ks {
		fmt.Fprintf(&b, "%d=%d;", k, m[k])
	}
	return kvState(b.String())
}

func sortedInts(xs []int64) string {
	s := append([]int64(nil), xs...)
	sort.Slice(s, func(i, j int) bool { return s[i] < s[j] })
	return fmt.Sprint(s)
}

func pairsString(m map[int64]int64) string { return string(encode(m)) }

// op encoding: Arg = key, Arg2 = value, Out/OK = scalar outputs, Extra =
// canonical snapshot output (and the key list of Delete / GetWithMap).

func kvModel(init map[int64]int64) porcupine.Model {
	return porcupine.Model{
		Init: func() interface{} { return encode(init) },
		Step: func(st, in, out interface{}) (bool, interface{}) {
			s := st.(kvState)
			o := out.(hist.Op)
			m := decode(s)
			v, present := m[o.Arg]
			switch o.Kind {
			case "Get":
				if present {
					return o.OK && o.Out == v, s
				}
				return !o.OK && o.Out == 0, s
			case "Has", "Contains":
				return o.OK == present, s
			case "GetWithLock":
				// OK: callback invoked; Out: the value it received
				if present {
					return o.OK && o.Out == v, s
				}
				return !o.OK, s
			case "Set":
				m[o.Arg] = o.Arg2
				return true, encode(m)
			case "SetNx":
				if present {
					return !o.OK, s
				}
				if !o.OK {
					return false, s
				}
				m[o.Arg] = o.Arg2
				return true, encode(m)
			case "SetX":
				if !present {
					return !o.OK, s
				}
				if !o.OK {
					return false, s
				}
				m[o.Arg] = o.Arg2
				return true, encode(m)
			case "Delete":
				for _, k := range parseKeys(o.Extra) {
					delete(m, k)
				}
				return true, encode(m)
			case "Len":
				return o.Out == int64(len(m)), s
			case "Keys":
				ks := make([]int64, 0, len(m))
				for k := range m {
					ks = append(ks, k)
				}
				return o.Extra == sortedInts(ks), s
			case "Values":
				vs := make([]int64, 0, len(m))
				for _, v := range m {
					vs = append(vs, v)
				}
				return o.Extra == sortedInts(vs), s
			case "Range", "All":
				if o.Arg > 0 {
					// the caller stopped the iteration after Arg pairs: the pairs it was
					// given are distinct entries of the map at one instant, as many as
					// asked for (or the whole map when that is smaller)
					if strings.Contains(o.Extra, "DUPLICATE") {
						return false, s
					}
					want := int(o.Arg)
					if len(m) < want {
						want = len(m)
					}
					got := decode(kvState(o.Extra))
					if int(o.Out) != want || len(got) != want {
						return false, s
					}
					for k, v := range got {
						if mv, ok := m[k]; !ok || mv != v {
							return false, s
						}
					}
					return true, s
				}
				return o.Extra == pairsString(m), s
			case "GetWithMap":
				// Extra = "keys|result pairs"; absent keys keep the sentinel -1
				parts := strings.SplitN(o.Extra, "|", 2)
				want := map[int64]int64{}
				for _, k := range parseKeys(parts[0]) {
					if v, ok := m[k]; ok {
						want[k] = v
					} else {
						want[k] = -1
					}
				}
				return len(parts) == 2 && parts[1] == pairsString(want), s
			case "MapSnapSet":
				// callback saw snapshot Extra, then set m[Arg] = Arg2
				if o.Extra != pairsString(m) {
					return false, s
				}
				m[o.Arg] = o.Arg2
				return true, encode(m)
			case "Clear":
				return true, kvState("")
			}
			return false, s
		},
	}
}

func parseKeys(s string) []int64 {
	var ks []int64
	for _, p := range strings.Split(strings.Trim(s, "[]"), " ") {
		if p == "" {
			continue
		}
		var k int64
		fmt.Sscanf(p, "%d", &k)
		ks = append(ks, k)
	}
	return ks
}

type opSpec struct {
	Kind string
	Key  int64
	Val  int64
	Keys []int64
	// Limit > 0: Range / All is stopped by the caller (callback returns false, loop
	// breaks) after Limit pairs
	Limit int
	Seq   iter.Seq2[int64, int64] `json:"-"` // KeptAll only
}

func (o opSpec) String() string {
	switch o.Kind {
	case "Set", "SetNx", "SetX", "MapSnapSet":
		return fmt.Sprintf("%s(%d,%d)", o.Kind, o.Key, o.Val)
	case "Delete", "GetWithMap":
		return fmt.Sprintf("%s(%v)", o.Kind, o.Keys)
	case "Get", "Has", "Contains", "GetWithLock":
		return fmt.Sprintf("%s(%d)", o.Kind, o.Key)
	case "Range", "All", "KeptAll":
		if o.Limit > 0 {
			return fmt.Sprintf("%s[stop after %d]", o.Kind, o.Limit)
		}
	}
	return o.Kind
}

const iterBound = 64

// Ballast: a history may run on a map that also holds a block of entries that no
// operation of the history names (so that the map is well above any size at which an
// implementation might switch representation or start memoising). The only
// operations that touch the block are the whole-map ones: every snapshot must contain
// the block completely and unchanged (as long as no Clear has happened) or not at all
// (afterwards). fold() replaces a complete block by the single pseudo entry
// pseudoKey=pseudoVal, an absent block by nothing, anything else by tornKey; the
// model then treats the pseudo entry as one more entry of the initial map.
const (
	ballastKey0 = 1000
	ballastVal0 = 5_000_000
	pseudoKey   = -1
	pseudoVal   = 7_777_777
	tornKey     = -2
)

type store struct {
	*mapz.SafeKV[int64, int64]
	ballast int
}

func (s *store) foldLen(n int) int64 {
	if s.ballast > 0 && n >= s.ballast {
		return int64(n - s.ballast + 1)
	}
	return int64(n)
}

// foldBlock: xs are the members of a result that lie at or above base; they stand
// for the block iff they are exactly base..base+ballast-1, each once.
func (s *store) foldBlock(xs []int64, base int64) (complete, none bool) {
	if len(xs) == 0 {
		return false, true
	}
	if len(xs) != s.ballast {
		return false, false
	}
	seen := make(map[int64]bool, len(xs))
	for _, x := range xs {
		if x < base || x >= base+int64(s.ballast) || seen[x] {
			return false, false
		}
		seen[x] = true
	}
	return true, false
}

func (s *store) foldList(xs []int64, base, pseudo int64) []int64 {
	if s.ballast == 0 {
		return xs
	}
	var hot, blk []int64
	for _, x := range xs {
		if x >= base {
			blk = append(blk, x)
		} else {
			hot = append(hot, x)
		}
	}
	switch complete, none := s.foldBlock(blk, base); {
	case complete:
		hot = append(hot, pseudo)
	case !none:
		hot = append(hot, tornKey)
	}
	return hot
}

func (s *store) fold(m map[int64]int64) map[int64]int64 {
	if s.ballast == 0 {
		return m
	}
	out := map[int64]int64{}
	good, bad := 0, 0
	for k, v := range m {
		switch {
		case k < ballastKey0:
			out[k] = v
		case k < ballastKey0+int64(s.ballast) && v == ballastVal0+(k-ballastKey0):
			good++
		default:
			bad++
		}
	}
	switch {
	case good == s.ballast && bad == 0:
		out[pseudoKey] = pseudoVal
	case good != 0 || bad != 0:
		out[tornKey] = int64(good)
	}
	return out
}

func do(kv *store, rec *hist.Recorder, client int, o opSpec) {
	switch o.Kind {
	case "Get":
		op := rec.Begin(client, o.Kind, o.Key, 0)
		v, ok := kv.Get(o.Key)
		rec.End(op, v, ok, "")
	case "Has":
		op := rec.Begin(client, o.Kind, o.Key, 0)
		ok := kv.Has(o.Key)
		rec.End(op, 0, ok, "")
	case "Contains":
		op := rec.Begin(client, o.Kind, o.Key, 0)
		ok := kv.Contains(o.Key)
		rec.End(op, 0, ok, "")
	case "GetWithLock":
		op := rec.Begin(client, o.Kind, o.Key, 0)
		called, got := false, int64(0)
		kv.GetWithLock(o.Key, func(v int64) { called, got = true, v })
		rec.End(op, got, called, "")
	case "Set":
		op := rec.Begin(client, o.Kind, o.Key, o.Val)
		kv.Set(o.Key, o.Val)
		rec.End(op, 0, true, "")
	case "SetNx":
		op := rec.Begin(client, o.Kind, o.Key, o.Val)
		ok := kv.SetNx(o.Key, o.Val)
		rec.End(op, 0, ok, "")
	case "SetX":
		op := rec.Begin(client, o.Kind, o.Key, o.Val)
		ok := kv.SetX(o.Key, o.Val)
		rec.End(op, 0, ok, "")
	case "Delete":
		op := rec.Begin(client, o.Kind, 0, 0)
		arg := append([]int64(nil), o.Keys...)
		kv.Delete(arg...)
		rec.End(op, 0, true, fmt.Sprint(o.Keys))
		for i := range arg { // the argument slice is the caller's again after the call
			arg[i] = -9000 - int64(i)
		}
	case "Len":
		op := rec.Begin(client, o.Kind, 0, 0)
		n := kv.Len()
		rec.End(op, kv.foldLen(n), true, "")
	case "Keys":
		op := rec.Begin(client, o.Kind, 0, 0)
		ks := kv.Keys()
		fk := kv.foldList(ks, ballastKey0, pseudoKey)
		rec.End(op, int64(len(fk)), true, sortedInts(fk))
		for i := range ks { // a returned slice is the caller's: writing to it must not reach the map or a later result
			ks[i] = -7000 - int64(i)
		}
	case "Values":
		op := rec.Begin(client, o.Kind, 0, 0)
		vs := kv.Values()
		fv := kv.foldList(vs, ballastVal0, pseudoVal)
		rec.End(op, int64(len(fv)), true, sortedInts(fv))
		for i := range vs {
			vs[i] = -8000 - int64(i)
		}
	case "Range":
		op := rec.Begin(client, o.Kind, int64(o.Limit), 0)
		m := map[int64]int64{}
		n := 0
		dup := false
		bound := iterBound + kv.ballast
		if o.Limit > 0 {
			bound = o.Limit
		}
		kv.Range(func(k, v int64) bool {
			if n >= bound {
				return false // what Range does with the callback's answer is not this property's business
			}
			if _, ok := m[k]; ok {
				dup = true
			}
			m[k] = v
			n++
			return n < bound
		})
		out := int64(n)
		if o.Limit == 0 {
			m = kv.fold(m)
			out = int64(len(m))
		}
		ex := pairsString(m)
		if dup {
			ex += "DUPLICATE-KEY"
		}
		rec.End(op, out, true, ex)
	case "All", "KeptAll":
		// "KeptAll": the sequence was obtained from All() before the history began and is
		// run now (and again later); it must enumerate the map as it is while it runs.
		seq := o.Seq
		if seq == nil {
			seq = kv.All()
		}
		op := rec.Begin(client, "All", int64(o.Limit), 0)
		m := map[int64]int64{}
		n := 0
		dup := false
		bound := iterBound + kv.ballast
		if o.Limit > 0 {
			bound = o.Limit
		}
		for k, v := range seq {
			if _, ok := m[k]; ok {
				dup = true
			}
			m[k] = v
			n++
			if n >= bound {
				break
			}
		}
		out := int64(n)
		if o.Limit == 0 {
			m = kv.fold(m)
			out = int64(len(m))
		}
		ex := pairsString(m)
		if dup {
			ex += "DUPLICATE-KEY"
		}
		rec.End(op, out, true, ex)
	case "GetWithMap":
		op := rec.Begin(client, o.Kind, 0, 0)
		m := map[int64]int64{}
		for _, k := range o.Keys {
			m[k] = -1
		}
		kv.GetWithMap(m)
		rec.End(op, 0, true, fmt.Sprint(o.Keys)+"|"+pairsString(m))
	case "MapSnapSet":
		op := rec.Begin(client, o.Kind, o.Key, o.Val)
		snap := ""
		kv.Map(func(m mapz.KV[int64, int64]) {
			cp := map[int64]int64{}
			for k, v := range m {
				cp[k] = v
			}
			snap = pairsString(kv.fold(cp))
			m[o.Key] = o.Val
		})
		rec.End(op, 0, true, snap)
	case "Clear":
		op := rec.Begin(client, o.Kind, 0, 0)
		kv.Clear()
		rec.End(op, 0, true, "")
	}
	sched.OpDone()
}

var allKinds = []string{"Get", "Has", "Contains", "GetWithLock", "Set", "SetNx", "SetX", "Delete", "Len", "Keys", "Values", "Range", "All", "GetWithMap", "MapSnapSet", "Clear"}

// weights for history programs: compound and snapshot operations favoured
var progKinds = []string{"Get", "Has", "Set", "Set", "SetNx", "SetNx", "SetNx", "SetX", "SetX", "Delete", "Delete", "Len", "Keys", "Values", "Range", "All", "GetWithMap", "GetWithLock", "MapSnapSet", "Clear", "Contains"}

const nKeys = 3

// absentKey is never stored by anybody: naming it in Delete / GetWithMap is legal and
// changes nothing.
const absentKey = 77

// genOp: stop = the engine can decide a lock that is never released (controlled
// schedules), so Range / All may be stopped early by the caller.
func genOp(rng *ev.Rand, kind string, t, j int, stop bool) opSpec {
	o := opSpec{Kind: kind, Key: int64(rng.Intn(nKeys)), Val: int64(t*100 + j + 1)}
	switch kind {
	case "Set", "SetNx", "SetX", "MapSnapSet":
		if rng.Chance(1, 8) {
			o.Val = 0 // the zero value is a value like any other: the key is present afterwards
		}
	case "Delete", "GetWithMap":
		n := rng.Range(1, nKeys)
		p := rng.Perm(nKeys)
		for _, k := range p[:n] {
			o.Keys = append(o.Keys, int64(k))
		}
		sort.Slice(o.Keys, func(a, b int) bool { return o.Keys[a] < o.Keys[b] })
		switch rng.Intn(10) {
		case 0: // no keys at all
			o.Keys = nil
		case 1: // the same key twice in one call
			if kind == "Delete" {
				o.Keys = append(o.Keys, o.Keys[0])
			}
		case 2: // a key that is never in the map
			o.Keys = append(o.Keys, absentKey)
		}
	case "Range", "All":
		if stop && rng.Chance(1, 3) {
			o.Limit = rng.Range(1, 2)
		}
	}
	return o
}

type config struct {
	Init     map[int64]int64
	Ballast  int // further entries that no operation names, see fold
	Family   string
	RoundKey int64 // the key the round-* families are about
	Threads  [][]opSpec
	Strategy string
}

// modelInit: the initial map as the model sees it (the ballast as one pseudo entry)
func (c config) modelInit() map[int64]int64 {
	m := map[int64]int64{}
	for k, v := range c.Init {
		m[k] = v
	}
	if c.Ballast > 0 {
		m[pseudoKey] = pseudoVal
	}
	return m
}

func (c config) String() string {
	var b strings.Builder
	fmt.Fprintf(&b, "init={%s} ballast=%d family=%s sched=%s;", pairsString(c.Init), c.Ballast, c.Family, c.Strategy)
	for i, t := range c.Threads {
		fmt.Fprintf(&b, " T%d:", i)
		for _, o := range t {
			b.WriteString(o.String() + ",")
		}
	}
	return b.String()
}

func genConfig(rng *ev.Rand, maxThreads, maxOps, maxTotal int, controlled bool) config {
	c := config{Init: map[int64]int64{}}
	for k := 0; k < nKeys; k++ {
		if rng.Chance(1, 3) {
			c.Init[int64(k)] = int64(9000 + k)
		}
	}
	if rng.Chance(1, 8) {
		c.Ballast = rng.Pick(33, 64, 130, 257)
	}
	stop := controlled && c.Ballast == 0
	switch rng.Intn(10) {
	case 0: // round: k concurrent SetNx on one absent key
		c.Family = "round-setnx"
		key := int64(rng.Intn(nKeys))
		c.RoundKey = key
		delete(c.Init, key)
		for t := 0; t < rng.Range(2, maxThreads); t++ {
			c.Threads = append(c.Threads, []opSpec{{Kind: "SetNx", Key: key, Val: int64(t*100 + 1)}})
		}
	case 1: // SetX on an absent key racing with Delete/SetNx of it
		c.Family = "round-setx"
		key := int64(rng.Intn(nKeys))
		c.RoundKey = key
		delete(c.Init, key)
		c.Threads = append(c.Threads, []opSpec{{Kind: "SetX", Key: key, Val: 1}, {Kind: "Has", Key: key}})
		c.Threads = append(c.Threads, []opSpec{{Kind: "SetX", Key: key, Val: 101}, {Kind: "Get", Key: key}})
		if rng.Bool() {
			c.Threads = append(c.Threads, []opSpec{{Kind: "Len"}, {Kind: "Keys"}})
		}
	case 2: // a present key is deleted once while SetX calls on it are in flight; nobody else creates it
		c.Family = "round-setx-delete"
		key := int64(rng.Intn(nKeys))
		c.RoundKey = key
		c.Init[key] = 9000 + key
		nt := rng.Range(2, maxThreads)
		del := rng.Intn(nt)
		for t := 0; t < nt; t++ {
			if t == del {
				c.Threads = append(c.Threads, []opSpec{{Kind: "Delete", Keys: []int64{key}}})
				continue
			}
			ops := []opSpec{{Kind: "SetX", Key: key, Val: int64(t*100 + 1)}}
			if rng.Bool() {
				ops = append(ops, opSpec{Kind: "SetX", Key: key, Val: int64(t*100 + 2)})
			}
			c.Threads = append(c.Threads, ops)
		}
	default:
		c.Family = "mixed"
		nt := rng.Range(2, maxThreads)
		total := 0
		for t := 0; t < nt; t++ {
			n := rng.Range(1, maxOps)
			if total+n > maxTotal {
				n = maxTotal - total
			}
			if n <= 0 {
				n = 1
			}
			total += n
			var ops []opSpec
			for j := 0; j < n; j++ {
				ops = append(ops, genOp(rng, progKinds[rng.Intn(len(progKinds))], t, j, stop))
			}
			c.Threads = append(c.Threads, ops)
		}
	}
	return c
}

func setup(cfg config) *store {
	kv := &store{SafeKV: mapz.NewSafeKV[int64, int64](0), ballast: cfg.Ballast}
	for k, v := range cfg.Init {
		kv.Set(k, v)
	}
	for i := 0; i < cfg.Ballast; i++ {
		kv.Set(ballastKey0+int64(i), ballastVal0+int64(i))
	}
	return kv
}

func tail(kv *store, rec *hist.Recorder, kept iter.Seq2[int64, int64]) {
	cl := rec.AddClient()
	rec.Quiesce()
	if kv.ballast == 0 {
		// the kept sequence is abandoned after one pair, then run in full (twice)
		do(kv, rec, cl, opSpec{Kind: "KeptAll", Seq: kept, Limit: 1})
	}
	do(kv, rec, cl, opSpec{Kind: "KeptAll", Seq: kept})
	do(kv, rec, cl, opSpec{Kind: "Len"})
	do(kv, rec, cl, opSpec{Kind: "Keys"})
	do(kv, rec, cl, opSpec{Kind: "Values"})
	for k := 0; k < nKeys; k++ {
		do(kv, rec, cl, opSpec{Kind: "Get", Key: int64(k)})
	}
	do(kv, rec, cl, opSpec{Kind: "Range"})
	do(kv, rec, cl, opSpec{Kind: "KeptAll", Seq: kept})
	do(kv, rec, cl, opSpec{Kind: "Keys"}) // after the earlier results were scribbled on
	do(kv, rec, cl, opSpec{Kind: "Values"})
}

func judge(c *ev.Case, cfg config, ops []hist.Op, extra string) bool {
	var overl int64
	kinds := map[string]bool{}
	nxTrue := 0
	for _, o := range ops {
		if o.Overlapped {
			overl++
			kinds[o.Kind] = true
		}
		if o.Kind == "SetNx" && o.OK && o.Client < len(cfg.Threads) {
			nxTrue++
		}
	}
	c.Add("ops", int64(len(ops)))
	c.Add("ops_overlapped", overl)
	for k := range kinds {
		c.Add("overlapped/"+k, 1)
	}
	// what the history contained, argument class by argument class
	for _, o := range ops {
		switch o.Kind {
		case "Set", "MapSnapSet":
			if o.Arg2 == 0 {
				c.Add("zero_value_stored", 1)
			}
		case "SetNx", "SetX":
			if o.OK && o.Arg2 == 0 {
				c.Add("zero_value_stored", 1)
			}
		case "Get":
			if o.OK && o.Out == 0 {
				c.Add("zero_value_read", 1)
			}
		case "Delete":
			if o.Extra == "[]" {
				c.Add("delete_no_keys", 1)
			}
		case "GetWithMap":
			if strings.HasPrefix(o.Extra, "[]|") {
				c.Add("getwithmap_no_keys", 1)
			}
		case "Range", "All":
			if o.Arg > 0 && o.Out == o.Arg && o.Client < len(cfg.Threads) {
				c.Add("stopped_early/"+o.Kind, 1)
			}
			if cfg.Ballast > 0 && o.Overlapped {
				c.Add("ballast_snapshots_overlapped", 1)
			}
		case "Keys", "Values":
			if cfg.Ballast > 0 && o.Overlapped {
				c.Add("ballast_snapshots_overlapped", 1)
			}
		}
	}
	switch cfg.Family {
	case "round-setx":
		c.Add("rounds_setx", 1)
	case "round-setx-delete":
		// the key was there, exactly one Delete removed it, only SetX calls named it
		// besides: whatever the order, it cannot be in the map at the end
		c.Add("rounds_setx_delete", 1)
		for _, o := range ops {
			if o.Client == len(cfg.Threads) && o.Kind == "Get" && o.Arg == cfg.RoundKey && o.OK {
				c.Witness = map[string]any{"config": cfg.String(), "history": hist.Render(ops), "extra": extra}
				c.Failf("setx-created-key", "key %d was deleted by the only call that could remove it and no Set/SetNx/Map ever named it, yet after %d concurrent SetX threads it is in the map with value %d: SetX created a key", cfg.RoundKey, len(cfg.Threads)-1, o.Out)
				return false
			}
		}
	}
	if cfg.Family == "round-setnx" {
		c.Add("rounds_setnx", 1)
		if nxTrue != 1 {
			c.Witness = map[string]any{"config": cfg.String(), "history": hist.Render(ops), "extra": extra}
			c.Failf("setnx-round", "%d concurrent SetNx calls on an absent key: %d returned true (exactly one must)", len(cfg.Threads), nxTrue)
			return false
		}
	}
	switch hist.Check(kvModel(cfg.modelInit()), ops, 20*time.Second) {
	case hist.Illegal:
		c.Witness = map[string]any{"config": cfg.String(), "history": hist.Render(ops), "extra": extra}
		c.Failf("nonlinearizable", "history of %d SafeKV operations is not explained by any atomic order on a plain map (config %s)", len(ops), cfg.String())
		return false
	case hist.Unknown:
		c.Add("porcupine_timeouts", 1)
		return true
	}
	c.Add("histories_checked", 1)
	if strings.HasPrefix(c.Engine, "ctl") {
		c.Add("histories_checked/ctl", 1)
	} else {
		c.Add("histories_checked/free", 1)
	}
	if cfg.Ballast > 0 {
		c.Add("ballast_histories", 1)
	}
	return true
}

func ctlCase(c *ev.Case) {
	rng := c.Rng
	cfg := genConfig(rng, 4, 4, 9, true)
	sc := sched.Config{Seed: rng.Uint64(), MaxSteps: 8000}
	switch rng.Intn(3) {
	case 0:
		sc.Strategy = sched.RandomWalk
		cfg.Strategy = "walk"
	case 1:
		sc.Strategy = sched.RandomWalk
		sc.Sticky = rng.Pick(128, 200)
		cfg.Strategy = "walk-sticky"
	default:
		sc.Strategy = sched.PCT
		sc.Depth = rng.Range(1, 4)
		n := 0
		for _, t := range cfg.Threads {
			n += len(t)
		}
		sc.EstSteps = n * 8
		cfg.Strategy = fmt.Sprintf("pct%d", sc.Depth)
	}
	kv := setup(cfg)
	kept := kv.All()
	rec := hist.NewRecorder(len(cfg.Threads), true)
	bodies := make([]func(), len(cfg.Threads))
	for t := range cfg.Threads {
		t := t
		bodies[t] = func() {
			for _, o := range cfg.Threads[t] {
				do(kv, rec, t, o)
			}
		}
	}
	c.Logf("config: %s", cfg.String())
	res := sched.Run(sc, bodies)
	tr := sched.TraceString(res.Trace)
	c.Logf("trace: %s", tr)
	c.Add("runs", 1)
	c.Add("steps", int64(res.Steps))
	c.Add("switches", int64(res.Switches))
	if res.Panic != nil {
		c.Witness = map[string]any{"config": cfg.String(), "trace": tr}
		c.Failf("panic/ctl", "panic in a SafeKV call under schedule %s: %v\n%s", tr, res.Panic, res.PanicStack)
		return
	}
	if res.Aborted {
		if res.NoProgress {
			c.Witness = map[string]any{"config": cfg.String(), "trace": tr}
			c.Failf("deadlock", "all live threads wait for the lock forever (a lock is never released) (config %s)", cfg.String())
			return
		}
		c.Add("aborted_runs", 1)
		return
	}
	tail(kv, rec, kept)
	ops := rec.Ops()
	for _, l := range hist.Render(ops) {
		c.Logf("%s", l)
	}
	if !judge(c, cfg, ops, "trace="+tr) {
		return
	}
	if res.Switches > 0 {
		c.Distinct(ev.HashString(cfg.String() + "|" + tr))
	}
	if c.WantSample() {
		c.Sample(map[string]any{"config": cfg.String(), "trace": tr, "history": hist.Render(ops)})
	}
}

func freeCase(c *ev.Case) {
	rng := c.Rng
	cfg := genConfig(rng, 8, 5, 20, false)
	cfg.Strategy = "go-runtime"
	kv := setup(cfg)
	kept := kv.All()
	rec := hist.NewRecorder(len(cfg.Threads), false)
	start := make(chan struct{})
	var wg sync.WaitGroup
	for t := range cfg.Threads {
		wg.Add(1)
		go func(t int) {
			defer wg.Done()
			<-start
			for _, o := range cfg.Threads[t] {
				do(kv, rec, t, o)
			}
		}(t)
	}
	close(start)
	wg.Wait()
	tail(kv, rec, kept)
	ops := rec.Ops()
	c.Logf("config: %s", cfg.String())
	for _, l := range hist.Render(ops) {
		c.Logf("%s", l)
	}
	c.Add("runs", 1)
	if !judge(c, cfg, ops, "") {
		return
	}
	for _, o := range ops {
		if o.Overlapped {
			c.Distinct(ev.HashString(cfg.String() + "|" + hist.Canon(ops)))
			if c.WantSample() {
				c.Sample(map[string]any{"config": cfg.String(), "history": hist.Render(ops)})
			}
			break
		}
	}
}

// pairsCase: methods A and B (from the case index) hammered by two groups of
// goroutines while a third group runs a random mix; the oracle here is the race
// detector (reports are collected by the parent) plus cheap sanity assertions.
func pairsCase(c *ev.Case) {
	rng := c.Rng
	n := len(allKinds)
	a := allKinds[c.Index%n]
	b := allKinds[(c.Index/n)%n]
	kv := &store{SafeKV: mapz.NewSafeKV[int64, int64](rng.Pick(0, 1, 8))}
	g := rng.Pick(4, 6, 8, 12, 16)
	iters := c.Run().N(400, 2500)
	var wg sync.WaitGroup
	start := make(chan struct{})
	bad := make([]string, g)
	for t := 0; t < g; t++ {
		wg.Add(1)
		seed := rng.Uint64()
		go func(t int) {
			defer wg.Done()
			lr := ev.NewRand(seed)
			rec := hist.NewRecorder(1, false)
			<-start
			for j := 0; j < iters; j++ {
				kind := a
				switch {
				case t%3 == 1:
					kind = b
				case t%3 == 2:
					kind = allKinds[lr.Intn(n)]
				}
				o := genOp(lr, kind, t, j, false)
				do(kv, rec, 0, o)
			}
			// sanity over what this goroutine saw: sizes within the key universe
			for _, o := range rec.Client(0) {
				switch o.Kind {
				case "Len", "Keys", "Values", "Range", "All":
					if o.Out < 0 || o.Out > nKeys {
						bad[t] = fmt.Sprintf("%s reported %d entries with a universe of %d keys (%s)", o.Kind, o.Out, nKeys, o.Extra)
					}
					if strings.Contains(o.Extra, "DUPLICATE-KEY") {
						bad[t] = fmt.Sprintf("%s yielded the same key twice (%s)", o.Kind, o.Extra)
					}
				}
			}
		}(t)
	}
	close(start)
	wg.Wait()
	c.Add("pair_runs", 1)
	c.Add("pair_ops", int64(g*iters))
	c.Logf("pair %s x %s, %d goroutines x %d ops", a, b, g, iters)
	for _, s := range bad {
		if s != "" {
			c.Failf("snapshot-size", "pair %s x %s: %s", a, b, s)
			return
		}
	}
	c.Distinct(ev.HashString(a + "x" + b))
	if c.WantSample() {
		c.Sample(fmt.Sprintf("pair %s x %s: %d goroutines x %d operations, third of them a random mix of all %d methods", a, b, g, iters, n))
	}
}

// bulkCase: operations over MANY keys. One writer thread performs a sequence of
// multi-key writes, each of which must be atomic (Delete of more than a hundred
// keys, Map(fn) rewriting every value, Clear, Delete of the rest); observer threads
// take whole-map snapshots (Len, Keys, Values, Range, All, GetWithMap over all
// keys). Every snapshot must equal the map as it was after some prefix of the
// writer's operations: a mixture is a violation.
func bulkCase(c *ev.Case, controlled bool) {
	rng := c.Rng
	K := rng.Pick(130, 200, 300, 513)
	if c.Index%4 == 3 { // beyond plausible size thresholds of a "big map" path (1024, 2048, 4096)
		K = []int{1100, 2100, 1030, 4200}[(c.Index/4)%4]
		if K == 4200 && !c.Thorough() {
			K = 2060
		}
		c.Add("bulk_cases_above_1024_entries", 1)
	}
	kv := mapz.NewSafeKV[int64, int64](0)
	cur := map[int64]int64{}
	for k := 0; k < K; k++ {
		kv.Set(int64(k), 1000)
		cur[int64(k)] = 1000
	}
	canon := func(m map[int64]int64) string { return pairsString(m) }
	states := map[string]int{canon(cur): 0}
	type wop struct {
		kind string
		keys []int64
		gen  int64
	}
	var wops []wop
	nw := rng.Range(1, 3)
	for i := 0; i < nw; i++ {
		switch rng.Intn(4) {
		case 0, 1: // delete a large subset in one call
			var ks []int64
			for k := range cur {
				if rng.Chance(3, 4) {
					ks = append(ks, k)
				}
			}
			sort.Slice(ks, func(a, b int) bool { return ks[a] < ks[b] })
			wops = append(wops, wop{kind: "Delete", keys: ks})
			for _, k := range ks {
				delete(cur, k)
			}
		case 2:
			g := int64(2000 + i)
			wops = append(wops, wop{kind: "MapSetAll", gen: g})
			for k := range cur {
				cur[k] = g
			}
		default:
			wops = append(wops, wop{kind: "Clear"})
			cur = map[int64]int64{}
		}
		cp := map[int64]int64{}
		for k, v := range cur {
			cp[k] = v
		}
		states[canon(cp)] = i + 1
	}
	allKeys := make([]int64, K)
	for i := range allKeys {
		allKeys[i] = int64(i)
	}
	type obs struct{ kind, snap string }
	nobs := rng.Range(1, 3)
	results := make([][]obs, nobs)
	observer := func(t int) func() {
		return func() {
			for j := 0; j < 3; j++ {
				kind := []string{"Keys+Values", "Range", "All", "GetWithMap", "Len"}[(t+j+c.Index)%5]
				var snap string
				switch kind {
				case "Range":
					m := map[int64]int64{}
					kv.Range(func(k, v int64) bool { m[k] = v; return true })
					snap = canon(m)
				case "All":
					m := map[int64]int64{}
					for k, v := range kv.All() {
						m[k] = v
					}
					snap = canon(m)
				case "GetWithMap":
					m := map[int64]int64{}
					for _, k := range allKeys {
						m[k] = -1
					}
					kv.GetWithMap(m)
					for k, v := range m {
						if v == -1 {
							delete(m, k)
						}
					}
					snap = canon(m)
				case "Len":
					snap = fmt.Sprintf("len=%d", kv.Len())
				default:
					ks := kv.Keys()
					vs := kv.Values()
					snap = fmt.Sprintf("nkeys=%d nvalues=%d", len(ks), len(vs))
					_ = vs
				}
				results[t] = append(results[t], obs{kind, snap})
				sched.OpDone()
			}
		}
	}
	writer := func() {
		for _, w := range wops {
			switch w.kind {
			case "Delete":
				kv.Delete(w.keys...)
			case "MapSetAll":
				kv.Map(func(m mapz.KV[int64, int64]) {
					for k := range m {
						m[k] = w.gen
					}
				})
			default:
				kv.Clear()
			}
			sched.OpDone()
		}
	}
	bodies := []func(){writer}
	for t := 0; t < nobs; t++ {
		bodies = append(bodies, observer(t))
	}
	desc := fmt.Sprintf("K=%d writer=", K)
	for _, w := range wops {
		if w.kind == "Delete" {
			desc += fmt.Sprintf("Delete(%d keys),", len(w.keys))
		} else {
			desc += w.kind + ","
		}
	}
	c.Logf("bulk: %s observers=%d", desc, nobs)
	if controlled {
		sc := sched.Config{Seed: rng.Uint64(), MaxSteps: 200000 + 100*K, Strategy: sched.RandomWalk}
		if rng.Bool() {
			sc.Strategy = sched.PCT
			sc.Depth = rng.Range(1, 4)
			sc.EstSteps = 60
		}
		res := sched.Run(sc, bodies)
		if res.Panic != nil {
			c.Failf("panic/ctl", "panic in a SafeKV call: %v\n%s", res.Panic, res.PanicStack)
			return
		}
		if res.Aborted {
			c.Add("aborted_runs", 1)
			return
		}
		c.Add("bulk_switches", int64(res.Switches))
	} else {
		var wg sync.WaitGroup
		start := make(chan struct{})
		for _, b := range bodies {
			wg.Add(1)
			go func(b func()) { defer wg.Done(); <-start; b() }(b)
		}
		close(start)
		wg.Wait()
	}
	// sizes of the admissible states, for the Len / Keys+Values observations
	sizes := map[string]bool{}
	for st := range states {
		n := strings.Count(st, ";")
		sizes[fmt.Sprintf("len=%d", n)] = true
		sizes[fmt.Sprintf("nkeys=%d nvalues=%d", n, n)] = true
	}
	for t := range results {
		for _, o := range results[t] {
			c.Logf("observer %d: %s -> %d entries", t, o.kind, strings.Count(o.snap, ";"))
			ok := false
			if o.kind == "Len" || o.kind == "Keys+Values" {
				// Keys and Values are two calls: each must be an admissible size
				if o.kind == "Len" {
					ok = sizes[o.snap]
				} else {
					var a, b int
					fmt.Sscanf(o.snap, "nkeys=%d nvalues=%d", &a, &b)
					ok = sizes[fmt.Sprintf("len=%d", a)] && sizes[fmt.Sprintf("len=%d", b)]
				}
			} else {
				_, ok = states[o.snap]
			}
			if !ok {
				c.Witness = map[string]any{"writer": desc, "observation": o.kind, "entries_seen": strings.Count(o.snap, ";")}
				c.Failf("bulk-torn-snapshot", "%s observed a map state that exists after no prefix of the writer's atomic operations (%s): saw %d entries / %s", o.kind, desc, strings.Count(o.snap, ";"), clipStr(o.snap, 120))
				return
			}
			c.Add("bulk_snapshots_checked", 1)
			c.Add("bulk_snapshots/"+o.kind, 1)
		}
	}
	c.Add("bulk_cases", 1)
	c.Distinct(ev.HashString(desc + fmt.Sprint(nobs, controlled, c.Index%5)))
	if c.WantSample() {
		c.Sample("bulk: " + desc + fmt.Sprintf(" %d observers taking whole-map snapshots; every snapshot equals the map after some prefix of the writer's operations", nobs))
	}
}

func clipStr(s string, n int) string {
	if len(s) > n {
		return s[:n] + "…"
	}
	return s
}

func main() {
	r := ev.New("C12")
	r.Rule("pairs: one case = two SafeKV methods hammered concurrently (plus a random mix) under the race detector, all 16x16 ordered pairs; distinct = distinct method pairs. ctl: (initial map, per-thread operation lists, schedule trace), distinct = hash of all three with at least one context switch. free: distinct canonical histories with an overlapping pair. Argument classes inside histories (zero value, no keys, repeated / never-stored key, ballast of 33..257 untouched entries, early-stopped Range/All) are drawn per operation from the case's generator and have observation floors.")
	r.Assume("user callbacks never re-enter the SafeKV")
	r.Assume("the controlled engine interleaves at lock/unlock granularity (mutex shim); unsynchronised accesses are the race detector's job")
	r.Assume("histories name 3 keys (plus one key that is never stored) and write unique non-zero values or the zero value; one history in eight runs on a map that also holds 33..257 further entries which only whole-map operations touch; at most 4 (controlled) / 8 (free) threads")
	r.Assume("Range / All are stopped early by the caller only under controlled schedules, where a read lock that is never released is decided as a deadlock instead of hanging the run")
	sched.JitterOn = os.Getenv("VERIF_JITTER") == "1"

	np := len(allKinds) * len(allKinds)
	r.CasesProc("pairs/race", r.N(np, 4*np), ev.Opt{Bin: "race", Procs: 8, AlwaysLog: true}, pairsCase)
	nctl := r.N(40000, 1500000)
	r.CasesProc("ctl", nctl, ev.Opt{Bin: "shim", Procs: 14}, ctlCase)
	r.CasesProc("bulk/ctl", r.N(6000, 200000), ev.Opt{Bin: "shim", Procs: 14}, func(c *ev.Case) { bulkCase(c, true) })
	r.Cases("plain-map/float-keys", r.N(6000, 200000), ev.Opt{HangViolation: true}, floatKeysCase)
	r.Require("float_keys_cases", 5000)
	r.Require("float_keys_clear_with_nan_entries", 3000)
	r.Require("float_keys_snapshots", 20000)
	r.CasesProc("big-delete", r.N(600, 12000), ev.Opt{Procs: 8, Workers: 2, AlwaysLog: true}, bigDeleteCase)
	r.CasesProc("big-delete/race", r.N(150, 3000), ev.Opt{Bin: "race", Procs: 8, Workers: 2, AlwaysLog: true}, bigDeleteCase)
	r.Require("bigdelete_cases", 500)
	r.CasesProc("bulk/race", r.N(1500, 30000), ev.Opt{Bin: "race", Procs: 6, AlwaysLog: true}, func(c *ev.Case) { bulkCase(c, false) })
	nfree := r.N(5000, 100000)
	r.CasesProc("free/race", nfree, ev.Opt{Bin: "race", Procs: 6, AlwaysLog: true}, freeCase)
	r.CasesProc("free/jitter", nfree, ev.Opt{Bin: "shimrace", Procs: 6, AlwaysLog: true, Env: []string{"VERIF_JITTER=1"}}, freeCase)
	if r.Thorough() {
		for _, p := range []string{"2", "4"} {
			r.CasesProc("pairs/race/P"+p, np, ev.Opt{Bin: "race", Procs: 8, AlwaysLog: true, Env: []string{"GOMAXPROCS=" + p}}, pairsCase)
			r.CasesProc("free/race/P"+p, nfree/2, ev.Opt{Bin: "race", Procs: 6, AlwaysLog: true, Env: []string{"GOMAXPROCS=" + p}}, freeCase)
		}
	}
	r.Require("histories_checked", int64(nctl/2))
	r.Require("ops_overlapped", 1000)
	r.Require("pair_runs", int64(np))
	r.Require("rounds_setnx", 100)
	r.Require("rounds_setx", 100)
	r.Require("rounds_setx_delete", 100)
	r.Require("bulk_snapshots_checked", 10000)
	r.Require("bulk_cases_above_1024_entries", 1500)
	for _, k := range []string{"Keys+Values", "Range", "All", "GetWithMap", "Len"} {
		r.Require("bulk_snapshots/"+k, 1000)
	}
	// every method took part in overlapping operations of checked histories
	for _, k := range allKinds {
		r.Require("overlapped/"+k, 1000)
	}
	r.Require("histories_checked/ctl", int64(nctl/2))
	r.Require("histories_checked/free", int64(nfree/2))
	// argument classes
	r.Require("stopped_early/Range", 300)
	r.Require("stopped_early/All", 300)
	r.Require("zero_value_stored", 1000)
	r.Require("zero_value_read", 300)
	r.Require("delete_no_keys", 300)
	r.Require("getwithmap_no_keys", 200)
	r.Require("ballast_histories", 1000)
	r.Require("ballast_snapshots_overlapped", 500)
	r.Finish()
}

// bigDeleteCase: a map that has held well over a thousand entries is emptied by a few
// bulk Delete calls while other goroutines keep writing keys that nobody deletes.
// Conservation oracle (no history search needed): every such key has exactly one
// writer, so after all goroutines are done it must hold that writer's last value;
// every deleted key must be gone; Len must be the number of surviving keys. A
// Delete that copies or rebuilds the map outside the write lock loses or reverts
// some of those writes.
func bigDeleteCase(c *ev.Case) {
	rng := c.Rng
	K := rng.Pick(1100, 1500, 2100, 4200)
	kv := mapz.NewSafeKV[int64, int64](0)
	for k := 0; k < K; k++ {
		kv.Set(int64(k), 1000)
	}
	// the preloaded keys are deleted in 1..4 calls, the first one large
	perm := rng.Perm(K)
	cuts := []int{K * rng.Range(70, 95) / 100}
	for cuts[len(cuts)-1] < K && len(cuts) < 4 {
		cuts = append(cuts, cuts[len(cuts)-1]+rng.Range(1, K-cuts[len(cuts)-1]))
	}
	cuts[len(cuts)-1] = K
	W := rng.Range(2, 4)
	per := rng.Range(20, 60)
	rounds := rng.Range(3, 8)
	last := make([][]int64, W)
	var wg sync.WaitGroup
	var pan atomic.Value
	guard := func(f func()) {
		defer wg.Done()
		defer func() {
			if p := recover(); p != nil {
				pan.Store(fmt.Sprint(p))
			}
		}()
		f()
	}
	start := make(chan struct{})
	for t := 0; t < W; t++ {
		t := t
		last[t] = make([]int64, per)
		wg.Add(1)
		go guard(func() {
			<-start
			for r := 1; r <= rounds; r++ {
				for j := 0; j < per; j++ {
					key := int64(1_000_000 + t*1000 + j)
					v := int64(r*100000 + t*1000 + j)
					kv.Set(key, v)
					last[t][j] = v
				}
			}
		})
	}
	wg.Add(1)
	go guard(func() {
		<-start
		from := 0
		for _, to := range cuts {
			ks := make([]int64, 0, to-from)
			for _, p := range perm[from:to] {
				ks = append(ks, int64(p))
			}
			kv.Delete(ks...)
			from = to
		}
	})
	close(start)
	wg.Wait()
	c.Add("bigdelete_cases", 1)
	c.Add("bigdelete_keys_deleted", int64(K))
	c.Add("bigdelete_private_writes", int64(W*per*rounds))
	if p := pan.Load(); p != nil {
		c.Failf("panic/big-delete", "a SafeKV call panicked while %d keys were deleted in %d calls next to %d writers: %v", K, len(cuts), W, p)
		return
	}
	var got map[int64]int64
	var ln int
	if !c.Guard("Range/Len", func() {
		got = map[int64]int64{}
		kv.Range(func(k, v int64) bool { got[k] = v; return true })
		ln = kv.Len()
	}) {
		return
	}
	for t := 0; t < W; t++ {
		for j := 0; j < per; j++ {
			key := int64(1_000_000 + t*1000 + j)
			if v, ok := got[key]; !ok || v != last[t][j] {
				c.Failf("lost-update", "key %d is written only by goroutine %d, whose last Set stored %d; after all goroutines finished the map has (%d,%v). %d preloaded keys were deleted by %d Delete calls (sizes up to %d) meanwhile", key, t, last[t][j], v, ok, K, len(cuts), cuts[0])
				return
			}
		}
	}
	for k := 0; k < K; k++ {
		if _, ok := got[int64(k)]; ok {
			c.Failf("delete-undone", "key %d was passed to a Delete call that returned, nobody wrote it afterwards, and it is still in the map", k)
			return
		}
	}
	if ln != W*per || len(got) != W*per {
		c.Failf("len", "Len()=%d, Range yields %d keys, %d keys were written and never deleted", ln, len(got), W*per)
		return
	}
	c.Distinct(ev.Mix(uint64(K), uint64(W), uint64(per), uint64(rounds), uint64(cuts[0])))
	if c.WantSample() {
		c.Sample(fmt.Sprintf("big-delete: %d preloaded keys deleted by %d Delete calls (first %d keys) next to %d writers x %d private keys x %d rounds; every private key ended with its writer's last value", K, len(cuts), cuts[0], W, per, rounds))
	}
}
