// C03 — RoaringBitmap behaves as a set of uint32 with complete ascending enumeration.
//
// Reference-model monitor: every operation is applied to a RoaringBitmap and to
// a map-based model; every return value is compared, and Iter / Range / All are
// compared with the model's sorted member list as whole sequences.
package main

import (
	"fmt"
	"iter"
	"sort"

	"github.com/welllog/golib/setz"

	"verif/ev"
)

type model struct {
	m      map[uint32]struct{}
	sorted []uint32
	dirty  bool
	perHi  map[uint16]int
	// over: buckets that have held more than 4096 members since they were last
	// empty (what the coverage counters call "dense"; the real container kind is
	// never inspected), gone: buckets that have been emptied at least once
	over map[uint16]bool
	gone map[uint16]bool
}

func newModel() *model {
	return &model{m: map[uint32]struct{}{}, perHi: map[uint16]int{}, over: map[uint16]bool{}, gone: map[uint16]bool{}}
}

// state of the bucket of x: 0 absent, 1 sparse, 2 dense (see model.over)
func (m *model) state(x uint32) int {
	hi := uint16(x >> 16)
	switch {
	case m.perHi[hi] == 0:
		return 0
	case m.over[hi]:
		return 2
	}
	return 1
}

// coverage counter names: op / bucket state / result of the operation
var opCtr [3][3][2]string

func init() {
	for o, op := range []string{"add", "remove", "contains"} {
		for b, st := range []string{"absent_bucket", "sparse_bucket", "dense_bucket"} {
			for r, res := range []string{"false", "true"} {
				opCtr[o][b][r] = op + "/" + st + "/" + res
			}
		}
	}
}

func b2i(b bool) int {
	if b {
		return 1
	}
	return 0
}

func (m *model) add(x uint32) bool {
	if _, ok := m.m[x]; ok {
		return false
	}
	m.m[x] = struct{}{}
	m.perHi[uint16(x>>16)]++
	if m.perHi[uint16(x>>16)] > 4096 {
		m.over[uint16(x>>16)] = true
	}
	m.dirty = true
	return true
}

func (m *model) remove(x uint32) bool {
	if _, ok := m.m[x]; !ok {
		return false
	}
	delete(m.m, x)
	m.perHi[uint16(x>>16)]--
	if m.perHi[uint16(x>>16)] == 0 {
		delete(m.perHi, uint16(x>>16))
		delete(m.over, uint16(x>>16))
		m.gone[uint16(x>>16)] = true
	}
	m.dirty = true
	return true
}

func (m *model) list() []uint32 {
	if m.dirty || m.sorted == nil {
		m.sorted = m.sorted[:0]
		for x := range m.m {
			m.sorted = append(m.sorted, x)
		}
		sort.Slice(m.sorted, func(i, j int) bool { return m.sorted[i] < m.sorted[j] })
		m.dirty = false
	}
	return m.sorted
}

type sut struct {
	c    *ev.Case
	r    *setz.RoaringBitmap
	m    *model
	hash uint64
	enum int
	// quiet > 0: no observing call (Len, Contains, enumeration) is made for that
	// many operations; only the operations' own results are compared. Observation
	// is not side-effect free in every implementation (caches, lazy counters).
	quiet     int
	quietCase bool
	// kept: an All() sequence obtained earlier (possibly from the zero value);
	// run later, more than once, it must enumerate the members of then
	kept iter.Seq[uint32]
	// cross: the previous operation took a bucket from 4096 to 4097 members (1)
	// or from 4097 down to 4096 (2); an enumeration that follows directly is one
	// made "immediately after the bucket crossed the threshold"
	cross int
	// emptied: a bucket became empty since the previous enumeration
	emptied bool
}

func inPool(hi uint16) bool {
	for _, h := range hiPool {
		if h == hi {
			return true
		}
	}
	return false
}

func (s *sut) note(op byte, x uint32) { s.hash = ev.Mix(s.hash, uint64(op), uint64(x)) }

func (s *sut) add(x uint32) bool {
	s.note('a', x)
	st := s.m.state(x)
	want := s.m.add(x)
	s.c.Add(opCtr[0][st][b2i(want)], 1)
	s.cross = 0
	if want && s.m.perHi[uint16(x>>16)] == 4097 {
		s.c.Add("bucket_reached_4097", 1)
		s.cross = 1
	}
	if st == 0 {
		if s.m.gone[uint16(x>>16)] {
			s.c.Add("bucket_recreated_after_empty", 1)
		}
		if !inPool(uint16(x >> 16)) {
			s.c.Add("bucket_keys_outside_pool_created", 1)
		}
	}
	var got bool
	if !s.c.Guard("Add", func() { got = s.r.Add(x) }) {
		return false
	}
	s.c.Logf("Add(%d) -> %v", x, got)
	if got != want {
		s.c.Failf("add-result", "Add(%d) returned %v, set model says %v", x, got, want)
		return false
	}
	return s.lenOK()
}

func (s *sut) remove(x uint32) bool {
	s.note('r', x)
	hi := uint16(x >> 16)
	before := s.m.perHi[hi]
	st := s.m.state(x)
	want := s.m.remove(x)
	s.c.Add(opCtr[1][st][b2i(want)], 1)
	s.cross = 0
	if want && before == 4097 {
		s.cross = 2
	}
	if want && before == 1 {
		s.c.Add("bucket_became_empty", 1)
		s.emptied = true
		if st == 2 {
			s.c.Add("dense_bucket_became_empty", 1)
		}
	}
	var got bool
	if !s.c.Guard("Remove", func() { got = s.r.Remove(x) }) {
		return false
	}
	s.c.Logf("Remove(%d) -> %v", x, got)
	if got != want {
		s.c.Failf("remove-result", "Remove(%d) returned %v, set model says %v", x, got, want)
		return false
	}
	return s.lenOK()
}

func (s *sut) contains(x uint32) bool {
	if s.quiet > 0 {
		return true
	}
	_, want := s.m.m[x]
	s.c.Add(opCtr[2][s.m.state(x)][b2i(want)], 1)
	s.cross = 0
	var got bool
	if !s.c.Guard("Contains", func() { got = s.r.Contains(x) }) {
		return false
	}
	if got != want {
		s.c.Logf("Contains(%d) -> %v", x, got)
		s.c.Failf("contains", "Contains(%d) returned %v, set model says %v", x, got, want)
		return false
	}
	return true
}

func (s *sut) lenOK() bool {
	if s.quiet > 0 {
		s.quiet--
		s.c.Add("observations_deferred", 1)
		if s.quiet == 0 {
			s.c.Add("quiet_windows_closed", 1)
			return s.lenNow() && s.enumerate()
		}
		return true
	}
	if s.quietCase && s.c.Rng.Chance(1, 40) {
		s.quiet = s.c.Rng.Range(2, 8)
	}
	return s.lenNow()
}

func (s *sut) lenNow() bool {
	var n int
	if !s.c.Guard("Len", func() { n = s.r.Len() }) {
		return false
	}
	if n != len(s.m.m) {
		s.c.Failf("len", "Len() = %d, set model has %d members", n, len(s.m.m))
		return false
	}
	return true
}

func firstDiff(got, want []uint32) string {
	n := len(got)
	if len(want) < n {
		n = len(want)
	}
	for i := 0; i < n; i++ {
		if got[i] != want[i] {
			return fmt.Sprintf("first difference at position %d: got %d, want %d", i, got[i], want[i])
		}
	}
	if len(got) < len(want) {
		return fmt.Sprintf("enumeration stopped after %d of %d members (next missing: %d)", len(got), len(want), want[len(got)])
	}
	if len(got) > len(want) {
		return fmt.Sprintf("enumeration produced %d values for %d members (extra: %d)", len(got), len(want), got[len(want)])
	}
	return ""
}

// enumIter / enumRange / enumAll: one complete enumeration each, compared with the model.
func (s *sut) enumIter(want []uint32) bool {
	limit := len(want) + 3
	var got []uint32
	if !s.c.Guard("Iter", func() {
		it := s.r.Iter()
		for it.Next() {
			got = append(got, it.Value())
			if len(got) > limit {
				break
			}
		}
	}) {
		return false
	}
	if d := firstDiff(got, want); d != "" {
		s.c.Logf("Iter -> %d values; model has %d in %d buckets", len(got), len(want), len(s.m.perHi))
		s.c.Failf("iter-sequence", "Iter(): %s (members %d, buckets %d)", d, len(want), len(s.m.perHi))
		return false
	}
	return true
}

func (s *sut) enumRange(want []uint32) bool {
	limit := len(want) + 3
	var got []uint32
	if !s.c.Guard("Range", func() {
		s.r.Range(func(x uint32) bool {
			got = append(got, x)
			return len(got) <= limit
		})
	}) {
		return false
	}
	if d := firstDiff(got, want); d != "" {
		s.c.Failf("range-sequence", "Range(): %s (members %d, buckets %d)", d, len(want), len(s.m.perHi))
		return false
	}
	return true
}

func (s *sut) enumAll(want []uint32) bool {
	limit := len(want) + 3
	var got []uint32
	if !s.c.Guard("All", func() {
		for x := range s.r.All() {
			got = append(got, x)
			if len(got) > limit {
				break
			}
		}
	}) {
		return false
	}
	if d := firstDiff(got, want); d != "" {
		s.c.Failf("all-sequence", "All(): %s (members %d, buckets %d)", d, len(want), len(s.m.perHi))
		return false
	}
	return true
}

// enumCoverage records which of the situations named in the statement this
// enumeration is made in (model facts only).
func (s *sut) enumCoverage(want []uint32) {
	switch s.cross {
	case 1:
		s.c.Add("enumerated_directly_after_4097th_add", 1)
	case 2:
		s.c.Add("enumerated_directly_after_drop_to_4096", 1)
	}
	s.cross = 0
	if s.emptied {
		s.c.Add("enumerations_after_bucket_emptied", 1)
		s.emptied = false
	}
	if n := len(s.m.over); n > 0 {
		s.c.Add("enumerations_with_dense_bucket", 1)
		if len(s.m.perHi) > n {
			s.c.Add("enumerations_mixed_sparse_dense", 1)
		}
		for hi := range s.m.over {
			if _, ok := s.m.m[uint32(hi)<<16|0xFFFF]; ok {
				s.c.Add("enumerated_dense_low_65535", 1)
			}
			if _, ok := s.m.m[uint32(hi)<<16]; ok {
				s.c.Add("enumerated_dense_low_0", 1)
			}
		}
	}
	if len(s.m.perHi) >= 1000 {
		s.c.Add("enumerations_over_1000_buckets", 1)
	}
	if len(want) > 0 {
		if want[0] == 0 {
			s.c.Add("enumerated_member_0", 1)
		}
		if want[len(want)-1] == 1<<32-1 {
			s.c.Add("enumerated_member_maxuint32", 1)
		}
	}
}

// enumerate compares Iter, Range and All with the model, plus early termination.
func (s *sut) enumerate() bool {
	if s.quiet > 0 {
		return true
	}
	want := s.m.list()
	limit := len(want) + 3
	s.enum++
	s.c.Add("enumerations", 3)
	s.c.Add("enumerated_values", int64(3*len(want)))
	s.c.Max("max_buckets_in_enumeration", int64(len(s.m.perHi)))
	s.enumCoverage(want)
	if !s.enumIter(want) || !s.enumRange(want) || !s.enumAll(want) {
		return false
	}
	var got []uint32
	// two iterators alive at the same time on the same bitmap, advanced in a seeded
	// interleaving: each must still deliver every member
	if len(want) > 0 && s.c.Rng.Chance(1, 3) {
		var g1, g2 []uint32
		if !s.c.Guard("Iter(two live iterators)", func() {
			i1, i2 := s.r.Iter(), s.r.Iter()
			d1, d2 := false, false
			for steps := 0; (!d1 || !d2) && steps < 2*limit+8; steps++ {
				if !d1 && (d2 || s.c.Rng.Bool()) {
					if i1.Next() {
						g1 = append(g1, i1.Value())
					} else {
						d1 = true
					}
				} else if !d2 {
					if i2.Next() {
						g2 = append(g2, i2.Value())
					} else {
						d2 = true
					}
				}
			}
		}) {
			return false
		}
		for k, g := range [][]uint32{g1, g2} {
			if d := firstDiff(g, want); d != "" {
				s.c.Failf("iter-two-live", "two iterators advanced alternately on one bitmap, iterator %d: %s (members %d)", k+1, d, len(want))
				return false
			}
		}
		s.c.Add("two_live_iterators", 1)
	}
	if s.kept != nil {
		for pass := 0; pass < 2; pass++ {
			got = got[:0]
			if !s.c.Guard("All(kept)", func() {
				s.kept(func(x uint32) bool {
					got = append(got, x)
					return len(got) <= limit
				})
			}) {
				return false
			}
			if d := firstDiff(got, want); d != "" {
				s.c.Failf("all-kept-sequence", "an All() sequence obtained earlier and run now (pass %d): %s (members %d)", pass+1, d, len(want))
				return false
			}
		}
		s.c.Add("kept_sequences_rerun", 1)
	}
	if s.kept == nil || s.c.Rng.Chance(1, 3) {
		s.c.Guard("All", func() { s.kept = s.r.All() })
	}
	// early termination after k callbacks
	if len(want) > 0 {
		k := 1 + s.c.Rng.Intn(len(want))
		calls := 0
		if !s.c.Guard("Range-stop", func() {
			s.r.Range(func(x uint32) bool {
				calls++
				return calls < k && calls <= limit
			})
		}) {
			return false
		}
		if calls != k {
			s.c.Failf("range-stop", "Range with a callback returning false at call %d made %d calls", k, calls)
			return false
		}
		calls = 0
		if !s.c.Guard("All-stop", func() {
			for range s.r.All() {
				calls++
				if calls >= k {
					break
				}
			}
		}) {
			return false
		}
		if calls != k {
			s.c.Failf("all-stop", "All with a break at element %d yielded %d elements", k, calls)
			return false
		}
		s.c.Add("early_stops", 2)
	}
	return true
}

var hiPool = []uint16{0, 1, 2, 0x7FFF, 0x8000, 0xFFFF, 0xFFFE, 3}

func mixCase(c *ev.Case) {
	rng := c.Rng
	var rb setz.RoaringBitmap
	s := &sut{c: c, r: &rb, m: newModel(), quietCase: rng.Chance(1, 3)}
	nb := rng.Range(1, 6)
	perm := rng.Perm(len(hiPool))
	his := make([]uint16, nb)
	for i := range his {
		his[i] = hiPool[perm[i]]
	}
	type rg struct{ base, width uint32 }
	rgs := make([]rg, nb)
	for i := range rgs {
		switch rng.Intn(4) {
		case 0:
			rgs[i] = rg{uint32(rng.Pick(rng.Intn(65536-16), rng.Intn(65536-16), 65520, 0)), uint32(rng.Range(1, 16))} // 65520+16 reaches the last value of the bucket
		case 1:
			rgs[i] = rg{uint32(rng.Pick(0, 60, 4000, 65000)), uint32(rng.Range(30, 500))}
		case 2:
			rgs[i] = rg{0, 65536}
		default:
			rgs[i] = rg{uint32(rng.Pick(0, 32768, 59000)), uint32(rng.Range(4200, 6500))}
		}
	}
	gen := func() uint32 {
		b := rng.Intn(nb)
		return uint32(his[b])<<16 | (rgs[b].base+uint32(rng.Intn(int(rgs[b].width))))&0xFFFF
	}
	nops := rng.Pick(60, 300, 1500, 9000)
	if !s.enumerate() { // zero value
		return
	}
	phase := 0
	for i := 0; i < nops; i++ {
		if i%500 == 0 {
			phase = rng.Intn(3) // 0 grow, 1 balanced, 2 shrink
		}
		x := gen()
		p := rng.Intn(100)
		addP := []int{70, 45, 20}[phase]
		switch {
		case p < addP:
			if !s.add(x) {
				return
			}
		case p < 85:
			if rng.Chance(1, 2) && len(s.m.m) > 0 {
				// remove a present element
				l := s.m.list()
				x = l[rng.Intn(len(l))]
			}
			if !s.remove(x) {
				return
			}
		default:
			if !s.contains(x) {
				return
			}
		}
		if rng.Chance(1, 200) || i == nops-1 {
			if !s.enumerate() {
				return
			}
		}
	}
	s.quiet = 0
	if !s.lenNow() || !s.enumerate() {
		return
	}
	if len(s.m.m) > 1 {
		c.Distinct(s.hash)
	}
	if c.WantSample() {
		c.Sample(fmt.Sprintf("mix: %d ops over buckets %v, final members %d in %d buckets, %d enumerations compared", nops, his, len(s.m.m), len(s.m.perHi), s.enum))
	}
}

// thresholdCase drives one bucket across the 4096 array->bitmap threshold.
func thresholdCase(c *ev.Case) {
	rng := c.Rng
	var rb setz.RoaringBitmap
	s := &sut{c: c, r: &rb, m: newModel()}
	hi := uint32(hiPool[rng.Intn(len(hiPool))]) << 16
	// optional neighbour buckets so that enumeration has to move on
	for _, o := range []uint32{0x10000, 0x30000, 0xFFFD0000} {
		if rng.Bool() {
			for k := 0; k < rng.Range(1, 3); k++ {
				if !s.add((hi + o) | uint32(rng.Intn(65536))) {
					return
				}
			}
		}
	}
	target := rng.Pick(4095, 4096, 4097, 4098, 4100, 5000)
	// choose target distinct low values
	var lows []uint32
	runThenExtras := 0 // > 0: the first runThenExtras values (a run) keep their place in front of the rest
	kind := rng.Intn(4)
	forceEdge := -1
	if c.Index%8 == 3 || c.Index%8 == 7 { // by index: a full run flush with the top (3) / bottom (7) of the bucket, then the converting value
		kind, forceEdge = 3, c.Index%8
		if target <= 4096 {
			target = 4097
		}
	}
	switch kind {
	case 0: // contiguous, also flush with either end of the bucket
		b := rng.Pick(0, 65536-target, rng.Intn(65536-target+1))
		for i := 0; i < target; i++ {
			lows = append(lows, uint32(b+i))
		}
		if b == 65536-target {
			c.Add("threshold_run_ends_at_0xFFFF", 1)
		}
	case 3: // a run of exactly 4096 values arrives first (in any order), the values that convert the bucket come after it
		n := 4096
		if target < n {
			n = target
		}
		b := rng.Pick(0, 65536-n, 65536-n, rng.Intn(65536-n+1))
		if forceEdge == 3 {
			b = 65536 - n
		} else if forceEdge == 7 {
			b = 0
		}
		for i := 0; i < n; i++ {
			lows = append(lows, uint32(b+i))
		}
		for len(lows) < target {
			v := uint32(rng.Intn(65536))
			if int(v) < b || int(v) >= b+n {
				dup := false
				for _, w := range lows[n:] {
					dup = dup || w == v
				}
				if !dup {
					lows = append(lows, v)
				}
			}
		}
		runThenExtras = n
		c.Add("threshold_full_run_then_converting_value", 1)
		if b == 65536-n && target > n {
			c.Add("threshold_full_run_at_top_of_bucket_then_converting_value", 1)
		}
	case 1: // strided
		st := rng.Range(2, 13)
		for i := 0; i < target; i++ {
			lows = append(lows, uint32(i*st))
		}
	default: // random distinct
		p := rng.Perm(65536)
		for i := 0; i < target; i++ {
			lows = append(lows, uint32(p[i]))
		}
		sort.Slice(lows, func(i, j int) bool { return lows[i] < lows[j] })
	}
	order := rng.Intn(3)
	part := lows
	if runThenExtras > 0 {
		part = lows[:runThenExtras]
	}
	switch order {
	case 1:
		for i, j := 0, len(part)-1; i < j; i, j = i+1, j-1 {
			part[i], part[j] = part[j], part[i]
		}
	case 2:
		p := rng.Perm(len(part))
		n := make([]uint32, len(part))
		for i, j := range p {
			n[i] = part[j]
		}
		copy(part, n)
	}
	for i, l := range lows {
		if !s.add(hi | l) {
			return
		}
		if i >= 4093 || i == len(lows)-1 {
			if !s.enumerate() {
				return
			}
			// duplicates right at the threshold
			if !s.add(hi|l) || !s.contains(hi|l) {
				return
			}
		}
	}
	// membership of everything, and of some non-members
	for _, l := range lows {
		if !s.contains(hi | l) {
			return
		}
	}
	for k := 0; k < 200; k++ {
		if !s.contains(hi | uint32(rng.Intn(65536))) {
			return
		}
	}
	// remove back down across the threshold, then empty the bucket, then re-add
	p := rng.Perm(len(lows))
	for i, j := range p {
		if !s.remove(hi | lows[j]) {
			return
		}
		left := len(lows) - i - 1
		if (left <= 4098 && left >= 4093) || left == 1 || left == 0 || rng.Chance(1, 1500) {
			if !s.enumerate() {
				return
			}
		}
		if left == 4000 && rng.Bool() {
			// grow again from below the threshold
			for _, jj := range p[:i+1] {
				if !s.add(hi | lows[jj]) {
					return
				}
			}
			if !s.enumerate() {
				return
			}
			for _, jj := range p[:i+1] {
				if !s.remove(hi | lows[jj]) {
					return
				}
			}
		}
	}
	for k := 0; k < 5; k++ {
		if !s.add(hi | uint32(rng.Intn(65536))) {
			return
		}
	}
	if !s.enumerate() {
		return
	}
	c.Distinct(s.hash)
	if c.WantSample() {
		c.Sample(fmt.Sprintf("threshold: bucket %#x filled to %d (order %d), %d enumerations compared, removed to empty, re-added", hi>>16, target, order, s.enum))
	}
}

// denseCase: two or three buckets are each driven above 4096 members and back
// down to chosen sizes (2048, 2047, 4096, 1, ...) in an interleaved order, so that
// one bucket's conversion happens while another one sits at any fill level after
// having been dense. Many of these cases run in parallel on different bitmaps.
func denseCase(c *ev.Case) {
	rng := c.Rng
	var rb setz.RoaringBitmap
	s := &sut{c: c, r: &rb, m: newModel()}
	nb := rng.Range(2, 3)
	his := rng.Perm(len(hiPool))[:nb]
	fill := func(b int, upto int) bool {
		hi := uint32(hiPool[his[b]]) << 16
		st := uint32(rng.Pick(1, 1, 3, 7))
		for l := uint32(0); s.m.perHi[uint16(hi>>16)] < upto && l < 65536; l += st {
			if !s.add(hi | l) {
				return false
			}
		}
		return true
	}
	shrink := func(b int, downto int) bool {
		hi := uint16(hiPool[his[b]])
		var mine []uint32
		for _, x := range s.m.list() {
			if uint16(x>>16) == hi {
				mine = append(mine, x)
			}
		}
		p := rng.Perm(len(mine))
		for _, j := range p {
			if s.m.perHi[hi] <= downto {
				break
			}
			if !s.remove(mine[j]) {
				return false
			}
		}
		return true
	}
	sizes := []int{2048, 2048, 2047, 2049, 4096, 4095, 1024, 1, 0, 3000}
	for step := 0; step < rng.Range(6, 12); step++ {
		b := rng.Intn(nb)
		n := s.m.perHi[hiPool[his[b]]]
		ok := true
		switch {
		case n <= 4096 && rng.Chance(2, 3):
			ok = fill(b, rng.Pick(4097, 4098, 4200, 5000))
		case n > 0:
			ok = shrink(b, sizes[rng.Intn(len(sizes))])
		default:
			ok = fill(b, rng.Pick(1, 10, 2048, 4096))
		}
		if !ok || !s.enumerate() {
			return
		}
		for k := 0; k < 30; k++ {
			l := s.m.list()
			if len(l) > 0 && !s.contains(l[rng.Intn(len(l))]) {
				return
			}
		}
	}
	for _, x := range append([]uint32(nil), s.m.list()...) {
		if rng.Chance(1, 3) && !s.contains(x) {
			return
		}
	}
	c.Add("dense_cases", 1)
	c.Distinct(s.hash)
	if c.WantSample() {
		c.Sample(fmt.Sprintf("dense: %d buckets driven above 4096 and back down in turn, %d enumerations compared, final members %d", nb, s.enum, len(s.m.m)))
	}
}

// churnCase: buckets become empty and reappear between enumerations.
func churnCase(c *ev.Case) {
	rng := c.Rng
	var rb setz.RoaringBitmap
	s := &sut{c: c, r: &rb, m: newModel()}
	nb := rng.Range(2, 8)
	for round := 0; round < rng.Range(3, 12); round++ {
		for b := 0; b < nb; b++ {
			hi := uint32(hiPool[b]) << 16
			switch rng.Intn(3) {
			case 0: // fill a little
				for k := 0; k < rng.Range(1, 5); k++ {
					if !s.add(hi | uint32(rng.Intn(8))) {
						return
					}
				}
			case 1: // empty completely
				for _, x := range append([]uint32(nil), s.m.list()...) {
					if x>>16 == hi>>16 {
						if !s.remove(x) {
							return
						}
					}
				}
			}
		}
		if !s.enumerate() {
			return
		}
	}
	c.Distinct(s.hash)
	if c.WantSample() {
		c.Sample(fmt.Sprintf("churn: %d buckets filled/emptied over rounds, %d enumerations compared, final members %v", nb, s.enum, s.m.list()))
	}
}

// firstTouch makes the first call on the zero value through a seeded entry point
// (the scripted engines above always start with Iter or Add).
func (s *sut) firstTouch() bool {
	rng := s.c.Rng
	x := rng.Uint32()
	if rng.Bool() {
		x = uint32(rng.Pick(0, 1, 65535, 65536, 1<<32-1))
	}
	switch rng.Intn(7) {
	case 0:
		s.c.Add("zero_value_first_call/Len", 1)
		return s.lenNow()
	case 1:
		s.c.Add("zero_value_first_call/Contains", 1)
		return s.contains(x)
	case 2:
		s.c.Add("zero_value_first_call/Remove", 1)
		return s.remove(x)
	case 3:
		s.c.Add("zero_value_first_call/Iter", 1)
		return s.enumIter(nil)
	case 4:
		s.c.Add("zero_value_first_call/Range", 1)
		return s.enumRange(nil)
	case 5:
		s.c.Add("zero_value_first_call/All", 1)
		return s.enumAll(nil)
	}
	s.c.Add("zero_value_first_call/Add", 1)
	return s.add(x)
}

// low halves at the ends of the range, of a 64-bit word and of the 4096 mark
var edgeLows = []uint32{0, 1, 2, 62, 63, 64, 65, 4095, 4096, 4097, 32767, 32768, 65471, 65472, 65533, 65534, 65535}

// manyCase: "any number of 16-bit key buckets": tens to thousands of buckets
// (thorough: up to all 65536) whose keys are spread over the whole 16-bit range,
// created in ascending, descending or random key order, a third of them emptied
// and partly re-created, probes of values whose bucket does not exist, then
// (sometimes) everything drained.
func manyCase(c *ev.Case) {
	rng := c.Rng
	var rb setz.RoaringBitmap
	s := &sut{c: c, r: &rb, m: newModel()}
	nb := rng.Pick(40, 300, 300, 2500)
	if c.Thorough() && rng.Chance(1, 100) {
		nb = rng.Pick(20000, 65536)
	}
	keys := make([]uint16, nb)
	layout := rng.Intn(4)
	switch layout {
	case 0: // random distinct keys
		p := rng.Perm(65536)
		for i := range keys {
			keys[i] = uint16(p[i])
		}
	case 1: // a run of neighbouring keys
		b := rng.Intn(65536 - nb + 1)
		for i := range keys {
			keys[i] = uint16(b + i)
		}
	case 2: // a run ending at 0xFFFF
		for i := range keys {
			keys[i] = uint16(65536 - nb + i)
		}
	default: // evenly spread
		st := 65536 / nb
		off := rng.Intn(st)
		for i := range keys {
			keys[i] = uint16(off + i*st)
		}
	}
	order := rng.Intn(3)
	switch order {
	case 1:
		for i, j := 0, nb-1; i < j; i, j = i+1, j-1 {
			keys[i], keys[j] = keys[j], keys[i]
		}
	case 2:
		p := rng.Perm(nb)
		n := make([]uint16, nb)
		for i, j := range p {
			n[i] = keys[j]
		}
		keys = n
	}
	low := func() uint32 {
		if rng.Chance(1, 3) {
			return edgeLows[rng.Intn(len(edgeLows))]
		}
		return uint32(rng.Intn(65536))
	}
	if !s.firstTouch() {
		return
	}
	for _, k := range keys {
		for n := rng.Range(1, 3); n > 0; n-- {
			if !s.add(uint32(k)<<16 | low()) {
				return
			}
		}
	}
	if rng.Chance(1, 3) { // one of the many buckets is dense
		hi := uint32(keys[rng.Intn(nb)]) << 16
		st := uint32(rng.Pick(1, 3, 15))
		for l := uint32(rng.Intn(100)); s.m.perHi[uint16(hi>>16)] < 4100 && l < 65536; l += st {
			if !s.add(hi | l) {
				return
			}
		}
	}
	if !s.enumerate() {
		return
	}
	probe := func(n int) bool {
		l := append([]uint32(nil), s.m.list()...) // members at the start of the probe
		for i := 0; i < n; i++ {
			x := rng.Uint32()
			if rng.Bool() { // the bucket of a key next to an existing one
				x = uint32(keys[rng.Intn(nb)]+uint16(rng.Range(0, 4))-2)<<16 | low()
			}
			switch rng.Intn(4) {
			case 0:
				if !s.remove(x) {
					return false
				}
			case 1:
				if len(l) > 0 {
					x = l[rng.Intn(len(l))]
				}
				fallthrough
			default:
				if !s.contains(x) {
					return false
				}
			}
		}
		return true
	}
	if !probe(200) {
		return
	}
	// empty a third of the buckets completely, in random order
	byHi := map[uint16][]uint32{}
	for _, x := range s.m.list() {
		byHi[uint16(x>>16)] = append(byHi[uint16(x>>16)], x)
	}
	p := rng.Perm(nb)
	dropped := p[:(nb+2)/3]
	for _, j := range dropped {
		for _, x := range byHi[keys[j]] {
			if !s.remove(x) {
				return
			}
		}
		delete(byHi, keys[j])
	}
	if !s.enumerate() || !probe(100) {
		return
	}
	// re-create some of them, and create buckets that never existed
	for _, j := range dropped {
		if rng.Bool() {
			if !s.add(uint32(keys[j])<<16 | low()) {
				return
			}
		}
	}
	for n := rng.Range(0, 20); n > 0; n-- {
		if !s.add(rng.Uint32()) {
			return
		}
	}
	if !s.enumerate() {
		return
	}
	if rng.Bool() { // drain
		l := append([]uint32(nil), s.m.list()...)
		if rng.Bool() {
			for i, j := range rng.Perm(len(l)) {
				l[i], l[j] = l[j], l[i]
			}
		}
		for _, x := range l {
			if !s.remove(x) {
				return
			}
		}
		if !s.enumerate() {
			return
		}
		for n := rng.Range(1, 5); n > 0; n-- {
			if !s.add(uint32(keys[rng.Intn(nb)])<<16 | low()) {
				return
			}
		}
		if !s.enumerate() {
			return
		}
	}
	c.Add("many_bucket_cases", 1)
	c.Distinct(s.hash)
	if c.WantSample() {
		c.Sample(fmt.Sprintf("many-buckets: %d buckets (key layout %d, creation order %d), a third emptied and partly re-created, %d enumerations compared, final members %d in %d buckets", nb, layout, order, s.enum, len(s.m.m), len(s.m.perHi)))
	}
}

// edgeCase: the ends of the uint32 range and of a bucket (0, 0xFFFF low halves,
// word boundaries of the dense form) in sparse and in dense buckets, including
// such a value arriving as the 4097th member.
func edgeCase(c *ev.Case) {
	rng := c.Rng
	var rb setz.RoaringBitmap
	s := &sut{c: c, r: &rb, m: newModel(), quietCase: rng.Chance(1, 4)}
	nb := rng.Range(1, 3)
	his := make([]uint32, 0, nb)
	for len(his) < nb {
		h := uint32(rng.Pick(0, 0xFFFF, 0xFFFF, 0xFFFE, 1, 0x8000, rng.Intn(65536)))
		dup := false
		for _, o := range his {
			dup = dup || o == h
		}
		if !dup {
			his = append(his, h)
		}
	}
	if !s.firstTouch() {
		return
	}
	dense := rng.Chance(1, 4)
	if dense { // fill with values that are mostly not edge values
		for _, h := range his[:rng.Range(1, min(nb, 2))] {
			upto := rng.Pick(4095, 4096, 4096, 4097, 4200)
			st := uint32(rng.Range(5, 15))
			for l := uint32(rng.Range(5, 40)); s.m.perHi[uint16(h)] < upto && l < 65536; l += st {
				if !s.add(h<<16 | l) {
					return
				}
			}
		}
	}
	gen := func() uint32 {
		l := edgeLows[rng.Intn(len(edgeLows))]
		if rng.Chance(1, 4) {
			l = uint32(rng.Pick(0, 65535))
		}
		return his[rng.Intn(nb)]<<16 | l
	}
	for i, nops := 0, rng.Pick(40, 150); i < nops; i++ {
		x := gen()
		switch p := rng.Intn(100); {
		case p < 50:
			if !s.add(x) {
				return
			}
		case p < 80:
			if !s.remove(x) {
				return
			}
		default:
			if !s.contains(x) {
				return
			}
		}
		if s.cross != 0 || rng.Chance(1, 40) {
			if !s.enumerate() {
				return
			}
		}
	}
	s.quiet = 0
	if !s.lenNow() || !s.enumerate() {
		return
	}
	for _, h := range his {
		for _, l := range edgeLows {
			if !s.contains(h<<16 | l) {
				return
			}
		}
	}
	c.Add("edge_cases", 1)
	if len(s.m.m) > 1 {
		c.Distinct(s.hash)
	}
	if c.WantSample() {
		c.Sample(fmt.Sprintf("edges: buckets %#x (pre-filled near 4096: %v), values at the ends of the range and of 64-bit words, %d enumerations compared, final members %d", his, dense, s.enum, len(s.m.m)))
	}
}

func main() {
	r := ev.New("C03")
	r.Rule("one case = a seeded operation sequence (Add/Remove/Contains over chosen high-16-bit buckets, a scripted fill of one bucket across 4096 and back, tens to thousands of buckets with keys over the whole 16-bit range, or values at the ends of the uint32 range / of a bucket / of a 64-bit word) applied to RoaringBitmap and a map model; distinct = distinct hash of the Add/Remove sequence; non-trivial = at least two members and at least one full Iter/Range/All comparison")
	r.Assume("the set model (Go map + sort) is the specification; container kinds are not inspected, bucket fill levels are tracked in the model (in counter names a 'dense_bucket' is one that has held more than 4096 members since it was last empty)")
	r.Cases("mix", r.N(3000, 60000), ev.Opt{HangViolation: true}, mixCase)
	r.Cases("threshold", r.N(60, 1500), ev.Opt{HangViolation: true}, thresholdCase)
	r.Require("threshold_full_run_at_top_of_bucket_then_converting_value", 7)
	r.Require("threshold_full_run_then_converting_value", 14)
	r.Cases("churn", r.N(3000, 100000), ev.Opt{HangViolation: true}, churnCase)
	r.Cases("dense", r.N(160, 4000), ev.Opt{HangViolation: true}, denseCase)
	r.Cases("many-buckets", r.N(120, 2000), ev.Opt{HangViolation: true}, manyCase)
	r.Cases("edges", r.N(300, 6000), ev.Opt{HangViolation: true}, edgeCase)
	// cold start: one fresh process per case (first bitmap call of the process = first operation of the case)
	r.CasesProc("cold-start/mix", 16, ev.Opt{Procs: 16, HangViolation: true}, mixCase)
	r.CasesProc("cold-start/dense", 4, ev.Opt{Procs: 4, HangViolation: true}, denseCase)
	// the array->bitmap conversion uses an unsafe cast: one pass under -race (which implies checkptr)
	// several bitmaps converted up and down by parallel workers under the race detector:
	// package-level scratch shared between bitmaps is reported whether or not it collides
	r.CasesProc("dense/race", r.N(16, 200), ev.Opt{Bin: "race", Procs: 2, Workers: 8, AlwaysLog: true}, denseCase)
	r.CasesProc("threshold/checkptr", r.N(8, 100), ev.Opt{Bin: "race", Procs: 4}, thresholdCase)
	r.CasesProc("mix/race-parallel", r.N(96, 3000), ev.Opt{Bin: "race", Procs: 2, Workers: 8, AlwaysLog: true, HangViolation: true, MaxCaseSeconds: 120}, mixCase)
	r.CasesProc("churn/race-parallel", r.N(96, 3000), ev.Opt{Bin: "race", Procs: 2, Workers: 8, AlwaysLog: true, HangViolation: true, MaxCaseSeconds: 120}, churnCase)
	r.Require("enumerations", 1000)
	r.Require("bucket_reached_4097", 10)
	r.Require("bucket_became_empty", 100)
	r.Require("quiet_windows_closed", 500)
	r.Require("kept_sequences_rerun", 1000)
	r.Require("two_live_iterators", 1000)
	r.Require("dense_cases", 100)
	// every operation against every bucket state with both results
	r.Require("add/absent_bucket/true", 10000)
	r.Require("add/sparse_bucket/true", 10000)
	r.Require("add/sparse_bucket/false", 1000)
	r.Require("add/dense_bucket/true", 500)
	r.Require("add/dense_bucket/false", 200)
	r.Require("remove/absent_bucket/false", 1000)
	r.Require("remove/sparse_bucket/true", 10000)
	r.Require("remove/sparse_bucket/false", 1000)
	r.Require("remove/dense_bucket/true", 10000)
	r.Require("remove/dense_bucket/false", 100)
	r.Require("contains/absent_bucket/false", 2000)
	r.Require("contains/sparse_bucket/true", 2000)
	r.Require("contains/sparse_bucket/false", 2000)
	r.Require("contains/dense_bucket/true", 500)
	r.Require("contains/dense_bucket/false", 300)
	// the situations the statement names for enumeration
	r.Require("enumerated_directly_after_4097th_add", 20)
	r.Require("enumerated_directly_after_drop_to_4096", 10)
	r.Require("enumerations_mixed_sparse_dense", 100)
	r.Require("dense_bucket_became_empty", 5)
	r.Require("enumerations_after_bucket_emptied", 1000)
	r.Require("bucket_recreated_after_empty", 1000)
	// any number of buckets, keys and values over the whole range
	r.Require("many_bucket_cases", 100)
	r.Require("enumerations_over_1000_buckets", 20)
	r.Require("bucket_keys_outside_pool_created", 10000)
	r.Require("edge_cases", 250)
	r.Require("enumerated_member_0", 50)
	r.Require("enumerated_member_maxuint32", 50)
	r.Require("enumerated_dense_low_0", 30)
	r.Require("enumerated_dense_low_65535", 30)
	// usable from the zero value through every entry point
	for _, e := range []string{"Add", "Remove", "Contains", "Len", "Iter", "Range", "All"} {
		r.Require("zero_value_first_call/"+e, 10)
	}
	r.Finish()
}
