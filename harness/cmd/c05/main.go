// C05 — Trie multi-pattern queries are exact.
//
// Runtime monitor with brute-force oracles: every case builds a real algz.Trie
// from a generated pattern list, then compares
//   - Match(text)      with "some non-empty pattern is a byte-wise substring of text",
//   - FindAll(text)    (as a multiset) with the brute-force list of (pattern, offset) occurrences,
//   - PrefixSearch(k)  (as a multiset) with the distinct inserted patterns that start with k,
//   - FuzzySearch(k)   entry by entry with the set of inserted patterns,
//
// on valid texts, overlap constructions and arbitrary byte strings.
//
// Signature suffixes name the *input class* (decided from the input alone, before
// golib is called), so that the two defects known on the pinned tree can be told
// apart from anything else:
//
//	[fffd-alias]  some pattern contains a real U+FFFD and the text/key is not valid UTF-8
//	[multibyte]   PrefixSearch/FuzzySearch has to enumerate patterns with multi-byte runes
package main

import (
	"fmt"
	"sort"
	"strings"
	"unicode/utf8"

	"github.com/welllog/golib/algz"

	"verif/ev"
)

type sut struct {
	c       *ev.Case
	name    string // "" or "A"/"B" when a case works on two tries
	t       *algz.Trie
	pats    []string // as inserted (duplicates, maybe one "")
	dpats   []string // distinct non-empty, sorted
	isPat   map[string]bool
	dup     map[string]bool // non-empty patterns inserted more than once
	hasFFFD bool
	anyMB   bool
	emptyIn bool
	hash    uint64
	// from the model replay of the breadth-first build (coverage only)
	maxQueue, maxFanout int
}

// setPats (re)computes everything the oracle derives from the inserted pattern list.
func (s *sut) setPats(pats []string) {
	s.pats = pats
	s.dpats = distinctNonEmpty(pats)
	s.isPat = make(map[string]bool, len(s.dpats))
	s.anyMB, s.emptyIn = false, false
	for _, p := range s.dpats {
		s.isPat[p] = true
		if !isASCII(p) {
			s.anyMB = true
		}
	}
	s.hasFFFD = hasRune(pats, utf8.RuneError)
	s.dup = map[string]bool{}
	seen := make(map[string]bool, len(pats))
	for _, p := range pats {
		if p == "" {
			s.emptyIn = true
		} else if seen[p] {
			s.dup[p] = true
		}
		seen[p] = true
	}
}

func q(ss []string) string {
	var b strings.Builder
	b.WriteByte('[')
	for i, s := range ss {
		if i > 0 {
			b.WriteByte(' ')
		}
		if i >= 24 {
			fmt.Fprintf(&b, "… +%d", len(ss)-i)
			break
		}
		fmt.Fprintf(&b, "%+q", s)
	}
	b.WriteByte(']')
	return b.String()
}

// build inserts the patterns and builds the failure links; with rebuild it builds
// once after a first part, inserts the rest and builds again.
func build(c *ev.Case, pats []string, rebuild bool) *sut {
	s := &sut{c: c, t: &algz.Trie{}}
	s.setPats(pats)
	s.hash = hashStrings(uint64(len(pats)), pats)
	cut := -1
	if rebuild && len(pats) > 1 {
		cut = c.Rng.Range(1, len(pats)-1)
	}
	for i, p := range pats {
		if i == cut {
			if !c.Guard("BuildFailureLinks", func() { s.t.BuildFailureLinks() }) {
				return nil
			}
			c.Logf("BuildFailureLinks() (intermediate)")
			c.Add("rebuilds", 1)
			// queries between the two builds (judged against the patterns inserted
			// so far): whatever they cache must not survive the next Insert + build
			if c.Rng.Chance(2, 3) {
				part := &sut{c: c, t: s.t}
				part.setPats(pats[:i])
				all := distinctNonEmpty(pats)
				for k := 0; k < 3; k++ {
					// texts made of ALL patterns, so that nodes the later patterns hang off are visited
					text := strings.Join([]string{all[c.Rng.Intn(len(all))], all[c.Rng.Intn(len(all))], all[c.Rng.Intn(len(all))]}, c.Rng.PickStr("", "", "x", "a"))
					if !part.checkText(text, textOverlap) {
						return nil
					}
				}
				for _, pp := range part.dpats {
					if c.Rng.Chance(1, 3) && !part.checkKey(pp, "whole_pattern") {
						return nil
					}
				}
				c.Add("queries_between_builds", 1)
			}
		}
		if !c.Guard("Insert", func() { s.t.Insert(p) }) {
			return nil
		}
		c.Logf("Insert(%+q)", p)
	}
	if !c.Guard("BuildFailureLinks", func() { s.t.BuildFailureLinks() }) {
		return nil
	}
	c.Logf("BuildFailureLinks()")
	s.patternCoverage()
	return s
}

func (s *sut) patternCoverage() {
	c := s.c
	c.Add("tries_built", 1)
	c.Add("patterns_inserted", int64(len(s.pats)))
	if len(s.pats) != len(s.dpats) {
		if s.emptyIn {
			c.Add("sets_with_empty_pattern", 1)
		}
		if len(s.pats)-len(s.dpats) > 1 || !s.emptyIn {
			c.Add("sets_with_duplicates", 1)
		}
	}
	var pre, suf, inf bool
	for _, a := range s.dpats {
		for _, b := range s.dpats {
			if len(s.dpats) > 80 {
				break
			}
			if a == b || len(a) >= len(b) {
				continue
			}
			switch {
			case strings.HasPrefix(b, a):
				pre = true
			case strings.HasSuffix(b, a):
				suf = true
			case strings.Contains(b, a):
				inf = true
			}
		}
		for _, r := range a {
			switch utf8.RuneLen(r) {
			case 1:
				c.Add("pattern_runes_1byte", 1)
				if r == 0 {
					c.Add("pattern_runes_NUL", 1)
				}
			case 2:
				c.Add("pattern_runes_2byte", 1)
			case 3:
				c.Add("pattern_runes_3byte", 1)
			case 4:
				c.Add("pattern_runes_4byte", 1)
			}
		}
	}
	if pre {
		c.Add("sets_with_pattern_prefix_of_pattern", 1)
	}
	if suf {
		c.Add("sets_with_pattern_suffix_of_pattern", 1)
	}
	if inf {
		c.Add("sets_with_pattern_infix_of_pattern", 1)
	}
	if s.hasFFFD {
		c.Add("sets_with_real_U+FFFD", 1)
	}
	g, w, mq, nodes, fan := queueSim(s.dpats)
	s.maxQueue, s.maxFanout = mq, fan
	c.Max("max_node_fanout", int64(fan))
	if fan >= 128 {
		c.Add("tries_with_node_fanout_ge_128", 1)
	}
	if fan >= 256 {
		c.Add("tries_with_node_fanout_ge_256", 1)
	}
	if mq > 65536 {
		c.Add("tries_with_bfs_queue_over_65536", 1)
	}
	c.Add("bfs_queue_growths", int64(g))
	c.Add("bfs_queue_growths_wrapped", int64(w))
	c.Max("max_bfs_queue_length", int64(mq))
	c.Max("max_trie_nodes", int64(nodes))
}

func multisetDiff(got, want []string) (missing, extra []string) {
	g := append([]string(nil), got...)
	w := append([]string(nil), want...)
	sort.Strings(g)
	sort.Strings(w)
	i, j := 0, 0
	for i < len(g) && j < len(w) {
		switch {
		case g[i] == w[j]:
			i++
			j++
		case g[i] < w[j]:
			extra = append(extra, g[i])
			i++
		default:
			missing = append(missing, w[j])
			j++
		}
	}
	extra = append(extra, g[i:]...)
	missing = append(missing, w[j:]...)
	return
}

// checkText compares Match and FindAll with the brute force on one text.
func (s *sut) checkText(text string, kind int) bool {
	c := s.c
	s.hash = ev.Mix(s.hash, ev.HashString(text), 't')
	occs := occurrences(s.dpats, text)
	valid := utf8.ValidString(text)
	suffix := ""
	if s.hasFFFD && !valid {
		suffix = "[fffd-alias]"
		c.Add("texts_invalid_with_real_U+FFFD_pattern", 1)
	}
	c.Add("pattern_text_pairs", 1)
	switch kind {
	case textRandom:
		c.Add("texts_random", 1)
	case textOverlap:
		c.Add("texts_overlap_construction", 1)
	case textNear:
		c.Add("texts_near_valid", 1)
	case textSparse:
		c.Add("texts_sparse", 1)
	case textChain:
		c.Add("texts_chain", 1)
	default:
		c.Add("texts_byte_strings", 1)
	}
	if !valid {
		c.Add("texts_not_valid_utf8", 1)
		if len(occs) > 0 {
			c.Add("texts_not_valid_utf8_with_occurrence", 1)
		}
	}
	c.Add("occurrences_expected", int64(len(occs)))
	// the situations the statement's clauses quantify over, decided from the input alone
	if len(text) == 0 {
		c.Add("texts_empty", 1)
	}
	if len(s.dpats) == 0 {
		c.Add("texts_on_empty_pattern_set", 1)
	}
	if s.emptyIn {
		c.Add("texts_on_sets_with_empty_pattern", 1)
		if len(occs) == 0 {
			// "some NON-EMPTY pattern": the inserted "" must not make Match true
			c.Add("texts_without_occurrence_on_sets_with_empty_pattern", 1)
		}
	}
	if len(occs) == 1 {
		c.Add("texts_with_exactly_one_occurrence", 1) // Match hinges on this one occurrence
	}
	if len(s.dup) > 0 {
		n := 0
		for _, o := range occs {
			if s.dup[o.pat] {
				n++
			}
		}
		c.Add("occurrences_of_patterns_inserted_more_than_once", int64(n))
	}
	for i, run := 0, 0; i < len(occs); i++ { // occs are ordered by stop
		if i > 0 && occs[i].stop == occs[i-1].stop {
			run++
		} else {
			run = 1
		}
		c.Max("max_outputs_at_one_end", int64(run))
	}
	c.Max("max_occurrences_in_a_text", int64(len(occs)))
	var overlap, nested, sameEnd bool
	for i := range occs {
		for j := i + 1; j < len(occs) && j < i+12; j++ {
			a, b := occs[i], occs[j]
			if a.stop == b.stop {
				sameEnd = true
			}
			if b.start < a.stop && a.start < b.stop {
				overlap = true
				if (a.start <= b.start && b.stop <= a.stop) || (b.start <= a.start && a.stop <= b.stop) {
					nested = true
				}
			}
		}
	}
	if overlap {
		c.Add("texts_with_overlapping_occurrences", 1)
	}
	if nested {
		c.Add("texts_with_nested_occurrences", 1)
	}
	if sameEnd {
		c.Add("texts_with_several_outputs_at_one_end", 1)
	}

	want := len(occs) > 0
	var got bool
	if c.Logging() {
		c.Witness = map[string]string{"patterns": q(s.pats), "text": fmt.Sprintf("%+q", text)}
		c.Logf("calling Match / FindAll on text %+q", text)
	}
	if !c.Guard("Match"+suffix, func() { got = s.t.Match(text) }) {
		return false
	}
	c.Logf("Match(%+q) -> %v (brute force: %v)", text, got, want)
	if got {
		c.Add("match_true", 1)
	} else {
		c.Add("match_false", 1)
	}
	if got != want {
		if got {
			c.Failf("match-false-positive"+suffix, "patterns %s: Match(%+q) = true, but no pattern occurs byte-wise in the text", q(s.pats), text)
		} else {
			c.Failf("match-false-negative"+suffix, "patterns %s: Match(%+q) = false, but %+q occurs at byte %d", q(s.pats), text, occs[0].pat, occs[0].start)
		}
		return false
	}

	var all []string
	if !c.Guard("FindAll"+suffix, func() { all = s.t.FindAll(text) }) {
		return false
	}
	c.Logf("FindAll(%+q) -> %s", text, q(all))
	wantAll := make([]string, len(occs))
	for i, o := range occs {
		wantAll[i] = o.pat
	}
	for _, g := range all {
		if !s.isPat[g] {
			c.Failf("findall-not-a-pattern"+suffix, "patterns %s: FindAll(%+q) contains %+q, which is not an inserted pattern (result %s)", q(s.pats), text, g, q(all))
			return false
		}
	}
	missing, extra := multisetDiff(all, wantAll)
	if len(missing) > 0 {
		c.Failf("findall-missing"+suffix, "patterns %s: FindAll(%+q) = %s lacks %d of %d occurrences: %s", q(s.pats), text, q(all), len(missing), len(occs), q(missing))
		return false
	}
	if len(extra) > 0 {
		c.Failf("findall-extra"+suffix, "patterns %s: FindAll(%+q) = %s has %d entries without an occurrence: %s", q(s.pats), text, q(all), len(extra), q(extra))
		return false
	}
	c.Add("findall_entries_compared", int64(len(all)))
	return true
}

// checkKey compares PrefixSearch(key) and FuzzySearch(key) with the pattern list.
func (s *sut) checkKey(key string, class string) bool {
	c := s.c
	s.hash = ev.Mix(s.hash, ev.HashString(key), 'k')
	valid := utf8.ValidString(key)
	var want []string
	mbBelow := false
	for _, p := range s.dpats {
		if strings.HasPrefix(p, key) {
			want = append(want, p)
			if !isASCII(p[len(key):]) {
				mbBelow = true
			}
		}
	}
	suffix := ""
	switch {
	case s.hasFFFD && !valid:
		suffix = "[fffd-alias]"
		c.Add("keys_invalid_with_real_U+FFFD_pattern", 1)
	case mbBelow:
		suffix = "[multibyte]"
	}
	c.Add("prefix_keys", 1)
	c.Add("prefix_keys_"+class, 1)
	if len(s.dpats) == 0 {
		c.Add("prefix_keys_on_empty_pattern_set", 1)
	}
	if !valid {
		c.Add("prefix_keys_not_valid_utf8", 1)
	} else if !isASCII(key) {
		c.Add("prefix_keys_multibyte", 1)
	}
	if mbBelow && len(want) >= 2 {
		c.Add("prefix_enumerations_multibyte_subtree", 1)
	}
	var widths [5]bool // UTF-8 widths of the runes of a valid key
	if valid {
		for _, r := range key {
			widths[utf8.RuneLen(r)] = true
		}
		for w := 1; w <= 4; w++ {
			if widths[w] {
				c.Add(fmt.Sprintf("prefix_keys_with_%dbyte_rune", w), 1)
				if len(want) > 0 {
					c.Add(fmt.Sprintf("prefix_nonempty_expected_for_key_with_%dbyte_rune", w), 1)
				}
			}
		}
	}
	for _, p := range want {
		if s.dup[p] {
			c.Add("prefix_expected_patterns_inserted_more_than_once", 1)
		}
	}

	var got []string
	if c.Logging() {
		c.Witness = map[string]string{"patterns": q(s.pats), "key": fmt.Sprintf("%+q", key)}
		c.Logf("calling PrefixSearch / FuzzySearch on key %+q", key)
	}
	if !c.Guard("PrefixSearch"+suffix, func() { got = s.t.PrefixSearch(key) }) {
		return false
	}
	c.Logf("PrefixSearch(%+q) -> %s (expected as a set: %s)", key, q(got), q(want))
	c.Max("max_prefix_result", int64(len(got)))
	for _, g := range got {
		if g == "" && key == "" && s.emptyIn {
			continue
		}
		if !s.isPat[g] {
			c.Failf("prefix-not-a-pattern"+suffix, "patterns %s: PrefixSearch(%+q) = %s contains %+q, which is not an inserted pattern", q(s.pats), key, q(got), g)
			return false
		}
		if !strings.HasPrefix(g, key) {
			c.Failf("prefix-wrong-prefix"+suffix, "patterns %s: PrefixSearch(%+q) = %s contains %+q, which does not start with the key", q(s.pats), key, q(got), g)
			return false
		}
	}
	gotCmp := got
	if key == "" && s.emptyIn {
		// Insert("") is documented as a no-op: "" may or may not be listed, at most once
		gotCmp = nil
		n := 0
		for _, g := range got {
			if g == "" {
				n++
				continue
			}
			gotCmp = append(gotCmp, g)
		}
		if n > 1 {
			c.Failf("prefix-duplicate"+suffix, "patterns %s: PrefixSearch(\"\") lists the empty pattern %d times", q(s.pats), n)
			return false
		}
	}
	missing, extra := multisetDiff(gotCmp, want)
	if len(extra) > 0 { // all entries are patterns with the right prefix, so extras are repeats
		c.Failf("prefix-duplicate"+suffix, "patterns %s: PrefixSearch(%+q) = %s lists %s more than once", q(s.pats), key, q(got), q(extra))
		return false
	}
	if len(missing) > 0 && valid {
		c.Failf("prefix-missing"+suffix, "patterns %s: PrefixSearch(%+q) = %s lacks %s", q(s.pats), key, q(got), q(missing))
		return false
	}
	if len(want) > 0 {
		c.Add("prefix_nonempty_expected", 1)
		c.Add("prefix_patterns_compared", int64(len(want)))
	} else {
		c.Add("prefix_empty_expected", 1)
	}

	// FuzzySearch: soundness only
	fsuffix := ""
	switch {
	case s.hasFFFD && !valid:
		fsuffix = "[fffd-alias]"
	case s.anyMB:
		fsuffix = "[multibyte]"
	}
	var fz []string
	if !c.Guard("FuzzySearch"+fsuffix, func() { fz = s.t.FuzzySearch(key) }) {
		return false
	}
	c.Logf("FuzzySearch(%+q) -> %s", key, q(fz))
	c.Add("fuzzy_calls", 1)
	if len(fz) > 0 {
		c.Add("fuzzy_nonempty_results", 1)
		for w := 1; w <= 4; w++ {
			if widths[w] {
				c.Add(fmt.Sprintf("fuzzy_nonempty_results_for_key_with_%dbyte_rune", w), 1)
			}
		}
		if !valid {
			c.Add("fuzzy_nonempty_results_for_key_not_valid_utf8", 1)
		}
		if len(want) == 0 {
			c.Add("fuzzy_nonempty_for_key_that_is_no_prefix", 1)
		}
	}
	c.Max("max_fuzzy_result", int64(len(fz)))
	for _, g := range fz {
		if g == "" && s.emptyIn {
			continue
		}
		if !s.isPat[g] {
			c.Failf("fuzzy-not-a-pattern"+fsuffix, "patterns %s: FuzzySearch(%+q) = %s contains %+q, which is not an inserted pattern", q(s.pats), key, q(fz), g)
			return false
		}
		c.Add("fuzzy_strings_checked", 1)
		if !isASCII(g) {
			c.Add("fuzzy_strings_checked_multibyte", 1)
		}
	}
	return true
}

func (s *sut) genKey(al alphabet) (string, string) {
	rng := s.c.Rng
	pick := func() string {
		if len(s.dpats) == 0 {
			return randRunes(rng, al, rng.Range(1, 3))
		}
		return s.dpats[rng.Intn(len(s.dpats))]
	}
	switch rng.Intn(12) {
	case 0:
		return "", "empty"
	case 1, 2, 3:
		p := pick()
		return runeCut(p, 0, rng.Range(1, utf8.RuneCountInString(p))), "pattern_prefix"
	case 4:
		return pick(), "whole_pattern"
	case 5:
		return pick() + randRunes(rng, al, 1), "pattern_plus_rune"
	case 6:
		return randRunes(rng, al, rng.Range(1, 3)), "random"
	case 7: // suffix of a pattern followed by a prefix of another: fuzzy walks failure links
		p, p2 := pick(), pick()
		n := utf8.RuneCountInString(p)
		return runeCut(p, rng.Intn(n), n) + runeCut(p2, 0, rng.Range(1, utf8.RuneCountInString(p2))), "suffix_then_prefix"
	case 8:
		return genValidText(rng, al, s.dpats, textOverlap, 6), "glued_patterns"
	case 9: // byte prefix that may end inside a multi-byte rune
		p := pick()
		return p[:rng.Range(1, len(p))], "byte_prefix"
	case 10:
		p := pick()
		return corrupt(rng, runeCut(p, 0, rng.Range(1, utf8.RuneCountInString(p)))), "garbage"
	default:
		if rng.Bool() {
			return string(rng.Bytes(rng.Range(1, 5))), "garbage"
		}
		return []string{"\xff", "\x80", "\xef\xbf", "\xef", "\xe4\xb8", "\xc3", "\xf0\x9f\x98", "\xbd"}[rng.Intn(8)], "garbage"
	}
}

type cfg struct {
	als        []alphabet
	minN, maxN int
	maxLen     int
	match      bool
	prefix     bool
	textRunes  []int // nil: 6..48
	near       bool  // all texts and half of the keys are "nearly valid" re-encodings (strengthen.go)
}

func (g cfg) run(c *ev.Case) {
	rng := c.Rng
	al := g.als[rng.Intn(len(g.als))]
	var pats []string
	if rng.Chance(1, 40) && g.minN <= 1 {
		pats = nil // the empty pattern set
		if rng.Bool() {
			pats = []string{""}
		}
		c.Add("empty_pattern_sets", 1)
	} else {
		maxLen := g.maxLen
		if rng.Chance(1, 12) {
			maxLen = rng.Pick(12, 30, 70) // deep tries: DFS buffer and stack grow past their initial capacity
			c.Add("sets_with_long_patterns", 1)
		}
		pats = genPatterns(rng, al, g.minN, g.maxN, maxLen)
	}
	s := build(c, pats, rng.Chance(1, 8))
	if s == nil {
		return
	}
	var firstText, firstKey string
	if g.match {
		kinds := []int{textRandom, textRandom, textOverlap, textOverlap, textBytes, textBytes}
		if g.near {
			kinds = []int{textNear, textNear, textNear, textNear, textNear, textNear}
		}
		for i, k := range kinds {
			tr := g.textRunes
			if tr == nil {
				tr = []int{6, 12, 24, 48}
			}
			var text string
			if k == textNear {
				text = nearValid(c, genValidText(rng, al, s.dpats, rng.Pick(textOverlap, textOverlap, textRandom), tr[rng.Intn(len(tr))]))
			} else {
				text = genText(rng, al, s.dpats, k, tr[rng.Intn(len(tr))])
			}
			c.Max("max_text_bytes", int64(len(text)))
			if i == 2 {
				firstText = text
			}
			if !s.checkText(text, k) {
				return
			}
		}
	}
	if g.prefix {
		for i := 0; i < 6; i++ {
			key, class := s.genKey(al)
			if g.near && i%2 == 0 && len(s.dpats) > 0 {
				p := s.dpats[rng.Intn(len(s.dpats))]
				key, class = nearValid(c, runeCut(p, 0, rng.Range(1, utf8.RuneCountInString(p)))), "near_valid"
			}
			if i == 0 {
				firstKey = key
			}
			if !s.checkKey(key, class) {
				return
			}
		}
	}
	if len(s.dpats) > 0 {
		c.Distinct(s.hash)
	}
	if c.WantSample() {
		if g.match {
			c.Sample(fmt.Sprintf("patterns %s; e.g. text %+q: Match and FindAll equal the brute force (%d occurrences); 6 texts compared", q(pats), firstText, len(occurrences(s.dpats, firstText))))
		} else {
			c.Sample(fmt.Sprintf("patterns %s; e.g. key %+q: PrefixSearch compared as a multiset, FuzzySearch entries checked; 6 keys compared", q(pats), firstKey))
		}
	}
}

// scripted regressions for the two known defects and a few hand-picked shapes;
// they go through exactly the same oracle as the generated cases.
func scripted(c *ev.Case) {
	type sc struct {
		pats  []string
		texts []string
		keys  []string
	}
	list := []sc{
		{[]string{"\uFFFD"}, []string{"\xff", "a\xffb", "\uFFFD", "\xef\xbf", "\xbf\xbd"}, []string{"\xff", "\uFFFD", "\xef"}},
		{[]string{"a\uFFFDb", "\uFFFD"}, []string{"a\xffb", "a\x80b\xe4", "a\uFFFDb"}, []string{"a\xff", "a\uFFFD", "xa\xff"}},
		{[]string{"世界", "世人好", "世人坏", "世"}, []string{"世人好世界", "世人\xe4\xb8世"}, []string{"世", "世人", "", "界世"}},
		{[]string{"é1", "éé2", "é😀3", "é"}, []string{"éé2é1"}, []string{"é", "", "éé"}},
		{[]string{"he", "she", "his", "hers", "e", "rs"}, []string{"ushers", "hishers"}, []string{"h", "he", "s", "ushe"}},
		{[]string{"abcd", "bc", "c", "bcd", "d"}, []string{"abcd", "xabcdbc"}, []string{"b", "abc", ""}},
		{[]string{"\u0080", "a\u0080"}, []string{"\x80", "a\x80", "\xc2\x80"}, []string{"\x80", "\u0080", "a"}},
	}
	sc0 := list[c.Index%len(list)]
	s := build(c, sc0.pats, false)
	if s == nil {
		return
	}
	for _, t := range sc0.texts {
		if !s.checkText(t, textBytes) {
			return
		}
	}
	for _, k := range sc0.keys {
		if !s.checkKey(k, "scripted") {
			return
		}
	}
	c.Distinct(s.hash)
	c.Add("scripted_cases", 1)
	if c.WantSample() {
		c.Sample(fmt.Sprintf("scripted: patterns %s texts %s keys %s", q(sc0.pats), q(sc0.texts), q(sc0.keys)))
	}
}

func main() {
	r := ev.New("C05")
	r.Rule("one case = one generated pattern list (1-8 patterns, or 11-40 in the wide engines; shared prefixes, suffix/infix relations, duplicates, optionally one empty pattern) inserted into a real Trie + BuildFailureLinks, then 6 texts (random, overlap constructions, arbitrary byte strings) or 6 keys; distinct = hash of (pattern list, texts/keys); non-trivial = at least one non-empty pattern and every query compared with the brute force. Added engines: mixed: two related pattern lists -> two tries worked on alternately for 8-20 operations (text / key queries in every observer order, arguments repeated on the other and on the same trie, results kept and re-read later, results overwritten by the caller and the query repeated, BuildFailureLinks again with or without Inserts, Replace/ReplaceWithMask calls in between whose results are left to C06); match/near + prefix/near: patterns re-encoded as overlong sequences or with a continuation bit flipped; fanout: 400-1200 patterns of 1-3 runes over 448 runes; fanspan: one node with 750-12000 children whose runes are spread evenly from 'a' to U+10FFFF, texts and keys from both ends of the span; huge: 100000-130000 patterns; deep: one pattern of ~2^8 / 2^15 / 2^16 / 70000-150000 bytes plus its long suffix, prefix, infix, extension and sibling; sparse: 1-6 patterns and texts of 8 bytes - 140 KiB scrubbed of every occurrence, then 0-2 patterns planted (start / end / across the byte midpoint / anywhere), lone bytes >= 0x80 dropped in 1 text in 4; chain: a word of 10-40 runes whose suffixes are all trie paths (patterns or paths that end in a rune no text contains), texts that enter the chain at its top and need up to 39 failure links to reach an output or a transition")
	r.Assume("oracle = byte-wise brute force (strings.Index at every offset) over the distinct non-empty inserted patterns; patterns are always valid UTF-8, texts and keys are arbitrary bytes")
	r.Assume("Insert(\"\") is a no-op by documentation: PrefixSearch(\"\")/FuzzySearch(\"\") may list the empty pattern at most once or not at all")
	r.Assume("for a key that is not valid UTF-8 only soundness of PrefixSearch is demanded (every entry an inserted pattern starting with the key, each once); completeness is demanded for every valid UTF-8 key")
	r.Assume("a second BuildFailureLinks after further Inserts (1 case in 8, usually with queries in between) must give the same contract as a single build")

	hv := ev.Opt{HangViolation: true}
	small := []alphabet{alphaAB, alphaABC}
	utf := []alphabet{alphaMixed, alphaBound, alphaSib}
	fffd := []alphabet{alphaFFFD, alphaFFFDSib}
	wide := []alphabet{alphaWide, alphaWideA}
	wideA := []alphabet{alphaWideA}
	wideU := []alphabet{alphaWide}

	r.Cases("scripted", 7, hv, scripted)
	r.Cases("match/ascii", r.N(50000, 1600000), hv, cfg{als: small, minN: 1, maxN: 8, maxLen: 5, match: true}.run)
	r.Cases("match/utf8", r.N(50000, 1600000), hv, cfg{als: utf, minN: 1, maxN: 8, maxLen: 5, match: true}.run)
	// the same workload on parallel workers under the race detector: package-level state shared
	// between instances that no goroutine shares is reported from the happens-before relation,
	// whether or not the accesses collide in this run (and however loaded the machine is)
	r.CasesProc("match/utf8/race-parallel", r.N(1000, 30000), ev.Opt{Bin: "race", Procs: 2, Workers: 8, AlwaysLog: true, HangViolation: true, MaxCaseSeconds: 120}, cfg{als: utf, minN: 1, maxN: 8, maxLen: 5, match: true}.run)
	r.Cases("match/fffd", r.N(25000, 800000), hv, cfg{als: fffd, minN: 1, maxN: 8, maxLen: 4, match: true}.run)
	r.Cases("match/wide", r.N(6000, 240000), hv, cfg{als: wide, minN: 11, maxN: 40, maxLen: 4, match: true}.run)
	bigT := []int{400, 1500, 4000}
	r.Cases("match/big", r.N(60, 3000), hv, cfg{als: []alphabet{alphaABC, alphaMixed, alphaSib, alphaWide, alphaWideA}, minN: 100, maxN: 600, maxLen: 8, match: true, textRunes: bigT}.run)
	r.Cases("prefix/ascii", r.N(50000, 1600000), hv, cfg{als: small, minN: 1, maxN: 8, maxLen: 5, prefix: true}.run)
	r.Cases("prefix/utf8", r.N(50000, 1600000), hv, cfg{als: utf, minN: 1, maxN: 8, maxLen: 5, prefix: true}.run)
	r.Cases("prefix/fffd", r.N(25000, 800000), hv, cfg{als: fffd, minN: 1, maxN: 8, maxLen: 4, prefix: true}.run)
	r.Cases("prefix/wide-ascii", r.N(4000, 160000), hv, cfg{als: wideA, minN: 11, maxN: 40, maxLen: 4, prefix: true}.run)
	r.Cases("prefix/wide-utf8", r.N(4000, 160000), hv, cfg{als: wideU, minN: 11, maxN: 40, maxLen: 4, prefix: true}.run)

	r.Cases("prefix/big-ascii", r.N(60, 3000), hv, cfg{als: []alphabet{alphaABC, alphaWideA}, minN: 100, maxN: 600, maxLen: 8, prefix: true}.run)
	r.Cases("prefix/big-utf8", r.N(60, 3000), hv, cfg{als: []alphabet{alphaMixed, alphaSib, alphaWide}, minN: 100, maxN: 600, maxLen: 8, prefix: true}.run)

	// --- added after the review against LESSONS.md (strengthen.go) ---
	r.Assume("a slice returned by FindAll / PrefixSearch / FuzzySearch is the caller's: overwriting it must not influence later queries, and later calls must not change a slice returned earlier")
	edge := []alphabet{alphaMixed, alphaBound, alphaSib, alphaEdge, alphaNul, alphaABC, alphaFFFDSib}
	r.Cases("mixed", r.N(40000, 800000), hv, mixed)
	r.Cases("match/near", r.N(25000, 800000), hv, cfg{als: edge, minN: 1, maxN: 8, maxLen: 5, match: true, near: true}.run)
	r.Cases("prefix/near", r.N(15000, 500000), hv, cfg{als: edge, minN: 1, maxN: 8, maxLen: 5, prefix: true, near: true}.run)
	r.Cases("fanout", r.N(1000, 30000), hv, cfg{als: []alphabet{alphaFan}, minN: 400, maxN: 1200, maxLen: 3, match: true, prefix: true}.run)
	r.Cases("huge", r.N(4, 16), hv, huge)
	r.Cases("fanspan", r.N(48, 1200), hv, fanspan)
	r.Cases("deep", r.N(24, 400), hv, deep)

	// --- added by the clause-coverage audit (audit.go) ---
	r.Cases("sparse", r.N(1600, 60000), hv, sparse)
	r.Cases("chain", r.N(1600, 60000), hv, chain)

	r.Require("mixed_queries", 50000)
	r.Require("first_observer_after_build_Match", 1000)
	r.Require("first_observer_after_build_FindAll", 1000)
	r.Require("first_observer_after_build_PrefixSearch", 1000)
	r.Require("first_observer_after_build_FuzzySearch", 1000)
	r.Require("findall_not_preceded_by_match", 5000)
	r.Require("fuzzy_before_prefix", 2000)
	r.Require("kept_nonempty_results_verified_after_later_calls", 10000)
	r.Require("nonempty_results_scribbled", 5000)
	r.Require("requery_after_scribble", 5000)
	r.Require("same_argument_on_the_other_trie_back_to_back", 5000)
	r.Require("same_argument_on_the_same_trie_again", 5000)
	r.Require("rebuild_without_insert", 1000)
	r.Require("replace_calls_before_a_query_on_the_same_text", 5000)
	r.Require("insert_then_rebuild", 1000)
	r.Require("late_pattern_on_existing_path", 300)
	r.Require("pattern_runes_NUL", 1000)
	r.Require("texts_near_valid", 20000)
	r.Require("near_valid_overlong_1byte_rune_as_2", 1000)
	r.Require("near_valid_overlong_1byte_rune_as_3", 1000)
	r.Require("near_valid_overlong_1byte_rune_as_4", 1000)
	r.Require("near_valid_overlong_2byte_rune_as_3", 1000)
	r.Require("near_valid_overlong_2byte_rune_as_4", 1000)
	r.Require("near_valid_overlong_3byte_rune_as_4", 1000)
	r.Require("near_valid_continuation_bit_flips", 5000)
	r.Require("prefix_keys_near_valid", 5000)
	r.Require("tries_with_node_fanout_ge_128", 100)
	r.Require("tries_with_node_fanout_ge_256", 20)
	r.Require("fanspan_tries_fanout_ge_1930", 16)
	r.Require("fanspan_texts", 300)
	r.Require("fanspan_keys", 200)
	r.Require("tries_with_bfs_queue_over_65536", 3)
	r.Require("patterns_over_255_bytes", 20)
	r.Require("patterns_over_32767_bytes", 12)
	r.Require("patterns_over_65535_bytes", 4)
	r.Require("keys_over_65535_bytes", 4)
	r.Require("deep_texts_with_occurrences", 3)
	r.Require("texts_over_256KiB", 1)

	// --- floors added by the clause-coverage audit: one per situation that the statement
	// or its quantifier names and that had a counter at best ---
	// "any set of patterns ... shared prefixes, suffixes/infixes of each other, duplicates, 1-4 byte runes"
	r.Require("sets_with_duplicates", 20000)
	r.Require("occurrences_of_patterns_inserted_more_than_once", 50000)
	r.Require("prefix_expected_patterns_inserted_more_than_once", 20000)
	r.Require("sets_with_pattern_prefix_of_pattern", 20000)
	r.Require("sets_with_pattern_suffix_of_pattern", 20000)
	r.Require("sets_with_pattern_infix_of_pattern", 10000)
	r.Require("pattern_runes_1byte", 100000)
	r.Require("pattern_runes_2byte", 100000)
	r.Require("pattern_runes_3byte", 100000)
	r.Require("empty_pattern_sets", 500)
	r.Require("texts_on_empty_pattern_set", 2000)
	r.Require("prefix_keys_on_empty_pattern_set", 2000)
	r.Require("rebuilds", 4000)
	r.Require("queries_between_builds", 3000)
	// "Match(text) is true iff some NON-EMPTY pattern occurs": both directions, the empty
	// text, Insert("") next to a text without occurrence, texts on which Match hinges on one occurrence
	r.Require("match_true", 50000)
	r.Require("match_false", 50000)
	r.Require("texts_empty", 2000)
	r.Require("sets_with_empty_pattern", 5000)
	r.Require("texts_without_occurrence_on_sets_with_empty_pattern", 5000)
	r.Require("texts_with_exactly_one_occurrence", 15000)
	r.Require("texts_random", 20000)
	r.Require("texts_overlap_construction", 20000)
	r.Require("texts_byte_strings", 20000)
	// ... at every text size (sparse): the only occurrences at the start / at the end / across
	// the midpoint / behind byte 65536, or none at all
	r.Require("sparse_small_texts_with_single_occurrence", 200)
	r.Require("sparse_mid_texts_with_single_occurrence", 80)
	r.Require("sparse_mid_texts_without_occurrence", 40)
	r.Require("sparse_mid_texts_every_occurrence_across_the_midpoint", 15)
	r.Require("sparse_long_texts_with_single_occurrence", 40)
	r.Require("sparse_long_texts_without_occurrence", 20)
	r.Require("sparse_long_texts_every_occurrence_across_the_midpoint", 8)
	r.Require("sparse_long_texts_single_occurrence_at_the_very_start", 5)
	r.Require("sparse_long_texts_single_occurrence_at_the_very_end", 4)
	r.Require("sparse_long_invalid_utf8_texts_with_single_occurrence", 5)
	r.Require("sparse_texts_first_occurrence_behind_byte_65536", 25)
	// "overlapping and nested occurrences included" at depth (chain): outputs, fallbacks and
	// link construction that need 8 or more failure links
	r.Require("chain_texts_with_output_behind_ge_8_failure_links", 1000)
	r.Require("chain_texts_whose_only_occurrences_are_behind_ge_8_failure_links", 150)
	r.Require("chain_texts_with_transition_after_ge_9_fallback_steps", 700)
	r.Require("chain_failure_links_built_by_walking_ge_8_suffix_nodes", 120)
	// "PrefixSearch(k) ... every string returned by FuzzySearch ... for keys and patterns made of
	// runes of any UTF-8 width": per width of the key's runes, with a non-empty answer
	r.Require("prefix_keys_empty", 5000)
	r.Require("prefix_empty_expected", 20000)
	for w := 1; w <= 4; w++ {
		r.Require(fmt.Sprintf("prefix_keys_with_%dbyte_rune", w), 10000)
		r.Require(fmt.Sprintf("prefix_nonempty_expected_for_key_with_%dbyte_rune", w), 5000)
		r.Require(fmt.Sprintf("fuzzy_nonempty_results_for_key_with_%dbyte_rune", w), 5000)
	}
	r.Require("fuzzy_nonempty_for_key_that_is_no_prefix", 10000)
	r.Require("fuzzy_strings_checked_multibyte", 10000)
	for _, class := range []string{"pattern_prefix", "whole_pattern", "pattern_plus_rune", "suffix_then_prefix", "glued_patterns", "byte_prefix", "garbage", "random"} {
		r.Require("prefix_keys_"+class, 5000)
	}
	// "byte-exact ... never produces a match that is not a byte-for-byte occurrence": the one
	// aliasing a decoder can introduce (invalid byte read as U+FFFD next to a real U+FFFD pattern)
	r.Require("sets_with_real_U+FFFD", 5000)
	r.Require("texts_invalid_with_real_U+FFFD_pattern", 4000)
	r.Require("keys_invalid_with_real_U+FFFD_pattern", 2000)

	r.Require("pattern_text_pairs", 50000)
	r.Require("occurrences_expected", 50000)
	r.Require("texts_with_overlapping_occurrences", 5000)
	r.Require("texts_with_nested_occurrences", 5000)
	r.Require("texts_with_several_outputs_at_one_end", 5000)
	r.Require("texts_not_valid_utf8", 5000)
	r.Require("texts_not_valid_utf8_with_occurrence", 1000)
	r.Require("bfs_queue_growths", 500)
	r.Require("bfs_queue_growths_wrapped", 100)
	r.Require("prefix_keys", 50000)
	r.Require("prefix_nonempty_expected", 10000)
	r.Require("prefix_enumerations_multibyte_subtree", 2000)
	r.Require("prefix_keys_not_valid_utf8", 2000)
	r.Require("fuzzy_strings_checked", 10000)
	r.Require("pattern_runes_4byte", 1000)
	r.Finish()
}
