// Generators and the brute-force occurrence oracle shared (by copy) between the
// C05 and C06 harnesses. Everything random comes from the case's *ev.Rand.
package main

import (
	"sort"
	"strings"
	"unicode/utf8"

	"verif/ev"
)

// ---- alphabets ----

type alphabet struct {
	name  string
	runes []rune
}

var (
	alphaAB    = alphabet{"ab", []rune{'a', 'b'}}
	alphaABC   = alphabet{"abc", []rune{'a', 'b', 'c'}}
	alphaMixed = alphabet{"mixed", []rune{'a', 'é', '世', '😀'}}
	alphaFFFD  = alphabet{"mixed+fffd", []rune{'a', 'é', '世', '😀', utf8.RuneError}}
	// first/last rune of every UTF-8 width
	alphaBound = alphabet{"boundary", []rune{0x7F, 0x80, 0x7FF, 0x800, 0xFFFF, 0x10000, 0x10FFFF, 'a'}}
	// runes that share lead and continuation bytes (e4 b8 96/97/98, e4 b9 96, c3 a9/aa)
	alphaSib = alphabet{"siblings", []rune{'世', '丗', '丘', '乖', 'é', 'ê', 'a'}}
	// U+FFFD next to runes that share its bytes (ef bf bd / ef bf bc / ef bf be / ef be bd)
	alphaFFFDSib = alphabet{"fffd-siblings", []rune{utf8.RuneError, 0xFFFC, 0xFFFE, 0xFFBD, 'a', '世'}}
	alphaWide    = alphabet{"wide", []rune{'a', 'b', 'c', 'd', 'e', 'f', 'g', 'h', 'i', 'j', 'k', 'l', 'm', 'n', 'é', 'ü', '世', '界', '😀', '😁'}}
	alphaWideA   = alphabet{"wide-ascii", []rune{'a', 'b', 'c', 'd', 'e', 'f', 'g', 'h', 'i', 'j', 'k', 'l', 'm', 'n', 'o', 'p', 'q', 'r', 's', 't'}}
)

func randRunes(rng *ev.Rand, al alphabet, n int) string {
	var b strings.Builder
	for i := 0; i < n; i++ {
		b.WriteRune(al.runes[rng.Intn(len(al.runes))])
	}
	return b.String()
}

// runeCut returns s[i:j] measured in runes.
func runeCut(s string, i, j int) string {
	rs := []rune(s)
	if i < 0 {
		i = 0
	}
	if j > len(rs) {
		j = len(rs)
	}
	if i >= j {
		return ""
	}
	return string(rs[i:j])
}

// genPatterns builds a pattern list (insertion order, duplicates and possibly one
// empty pattern included) whose members share prefixes and are suffixes / infixes
// of one another. All patterns are valid UTF-8.
func genPatterns(rng *ev.Rand, al alphabet, minN, maxN, maxLen int) []string {
	n := rng.Range(minN, maxN)
	pats := make([]string, 0, n+1)
	for len(pats) < n {
		if len(pats) == 0 || rng.Chance(3, 10) {
			pats = append(pats, randRunes(rng, al, rng.Range(1, maxLen)))
			continue
		}
		base := pats[rng.Intn(len(pats))]
		bl := utf8.RuneCountInString(base)
		switch rng.Intn(7) {
		case 0: // proper prefix
			pats = append(pats, runeCut(base, 0, rng.Range(1, bl)))
		case 1: // suffix
			pats = append(pats, runeCut(base, rng.Intn(bl), bl))
		case 2: // infix
			i := rng.Intn(bl)
			pats = append(pats, runeCut(base, i, rng.Range(i+1, bl)))
		case 3: // extension to the right (shared prefix)
			pats = append(pats, base+randRunes(rng, al, rng.Range(1, 3)))
		case 4: // extension to the left (base becomes a suffix)
			pats = append(pats, randRunes(rng, al, rng.Range(1, 3))+base)
		case 5: // sibling: same prefix, different tail
			pats = append(pats, runeCut(base, 0, rng.Intn(bl))+randRunes(rng, al, rng.Range(1, 2)))
		default: // duplicate
			pats = append(pats, base)
		}
	}
	// drop accidental empties from the constructions, then maybe add exactly one
	out := pats[:0]
	for _, p := range pats {
		if p != "" {
			out = append(out, p)
		}
	}
	if len(out) == 0 {
		out = append(out, randRunes(rng, al, 1))
	}
	if rng.Chance(1, 8) {
		k := rng.Intn(len(out) + 1)
		out = append(out, "")
		copy(out[k+1:], out[k:])
		out[k] = ""
	}
	return out
}

// distinctNonEmpty returns the sorted distinct non-empty patterns.
func distinctNonEmpty(pats []string) []string {
	seen := map[string]bool{}
	var out []string
	for _, p := range pats {
		if p != "" && !seen[p] {
			seen[p] = true
			out = append(out, p)
		}
	}
	sort.Strings(out)
	return out
}

// ---- texts ----

const (
	textRandom = iota
	textOverlap
	textBytes
	textNear // valid text with some runes re-encoded in a way a careless decoder accepts
)

func overlapLen(a, b string) int { // longest k: suffix of a of k bytes == prefix of b
	m := len(a)
	if len(b) < m {
		m = len(b)
	}
	for k := m; k > 0; k-- {
		if a[len(a)-k:] == b[:k] {
			return k
		}
	}
	return 0
}

// genValidText: random runes, or patterns glued with their overlaps merged.
func genValidText(rng *ev.Rand, al alphabet, dpats []string, kind, maxRunes int) string {
	if kind == textRandom || len(dpats) == 0 {
		return randRunes(rng, al, rng.Intn(maxRunes+1))
	}
	var t string
	parts := rng.Range(1, 6)
	if maxRunes > 100 {
		parts = rng.Range(maxRunes/40, maxRunes/4)
	}
	for i := 0; i < parts; i++ {
		switch rng.Intn(6) {
		case 0:
			t += randRunes(rng, al, rng.Range(1, 2))
		default:
			p := dpats[rng.Intn(len(dpats))]
			switch rng.Intn(4) {
			case 0: // glue with the longest overlap merged: occurrences overlap
				t += p[overlapLen(t, p):]
			case 1: // all but the last rune: near miss that forces a fallback
				t += runeCut(p, 0, utf8.RuneCountInString(p)-1)
			default:
				t += p
			}
		}
	}
	return t
}

// corrupt turns valid text into an arbitrary byte string.
func corrupt(rng *ev.Rand, s string) string {
	b := []byte(s)
	nm := rng.Range(1, 3)
	for m := 0; m < nm; m++ {
		switch rng.Intn(6) {
		case 0: // replace a byte by 0x80..0xFF
			if len(b) > 0 {
				b[rng.Intn(len(b))] = byte(0x80 + rng.Intn(0x80))
			}
		case 1: // delete one byte (truncates a multi-byte sequence when it hits one)
			if len(b) > 0 {
				i := rng.Intn(len(b))
				b = append(b[:i], b[i+1:]...)
			}
		case 2: // insert a lone continuation byte
			i := rng.Intn(len(b) + 1)
			b = append(b[:i], append([]byte{byte(0x80 + rng.Intn(0x40))}, b[i:]...)...)
		case 3: // insert a lead byte without continuation, or an always-invalid byte
			i := rng.Intn(len(b) + 1)
			x := []byte{0xC3, 0xE4, 0xEF, 0xF0, 0xC0, 0xC1, 0xF5, 0xFF, 0xFE, 0xED}[rng.Intn(10)]
			b = append(b[:i], append([]byte{x}, b[i:]...)...)
		case 4: // cut the text in the middle of a sequence
			if len(b) > 1 {
				b = b[:rng.Range(1, len(b)-1)]
			}
		default: // splice in the bytes of U+FFFD minus one, surrogates, overlongs
			i := rng.Intn(len(b) + 1)
			x := []string{"\xef\xbf", "\xbf\xbd", "\xed\xa0\x80", "\xc0\x80", "\xe0\x80\x80", "\xf4\x90\x80\x80", "\xf0\x9f\x98"}[rng.Intn(7)]
			b = append(b[:i], append([]byte(x), b[i:]...)...)
		}
	}
	return string(b)
}

func genText(rng *ev.Rand, al alphabet, dpats []string, kind, maxRunes int) string {
	switch kind {
	case textBytes:
		if rng.Chance(1, 6) {
			return string(rng.Bytes(rng.Intn(12)))
		}
		return corrupt(rng, genValidText(rng, al, dpats, rng.Pick(textRandom, textOverlap), maxRunes))
	default:
		return genValidText(rng, al, dpats, kind, maxRunes)
	}
}

// ---- brute-force occurrences ----

type occ struct {
	start, stop int
	pat         string
}

// occurrences lists every (pattern, byte offset) with text[i:i+len(p)] == p for the
// distinct non-empty patterns, ordered by (stop, start).
func occurrences(dpats []string, text string) []occ {
	var out []occ
	for _, p := range dpats {
		for from := 0; from+len(p) <= len(text); {
			i := strings.Index(text[from:], p)
			if i < 0 {
				break
			}
			out = append(out, occ{from + i, from + i + len(p), p})
			from += i + 1
		}
	}
	sort.Slice(out, func(i, j int) bool {
		if out[i].stop != out[j].stop {
			return out[i].stop < out[j].stop
		}
		return out[i].start < out[j].start
	})
	return out
}

func hasRune(pats []string, r rune) bool {
	for _, p := range pats {
		if strings.ContainsRune(p, r) {
			return true
		}
	}
	return false
}

func isASCII(s string) bool {
	for i := 0; i < len(s); i++ {
		if s[i] >= utf8.RuneSelf {
			return false
		}
	}
	return true
}

func hashStrings(h uint64, ss []string) uint64 {
	for _, s := range ss {
		h = ev.Mix(h, ev.HashString(s), uint64(len(s)))
	}
	return h
}

// queueSim replays the breadth-first traversal that BuildFailureLinks performs
// (children in ascending rune order, ring queue starting at capacity 10 and
// doubling) on a model trie. Coverage evidence only.
type mnode struct {
	kids map[rune]*mnode
}

func queueSim(dpats []string) (growths, wrappedGrowths, maxQueue, nodes, maxFanout int) {
	root := &mnode{kids: map[rune]*mnode{}}
	for _, p := range dpats {
		n := root
		for _, r := range p {
			k := n.kids[r]
			if k == nil {
				k = &mnode{kids: map[rune]*mnode{}}
				n.kids[r] = k
				nodes++
			}
			n = k
		}
	}
	sorted := func(n *mnode) []*mnode {
		if len(n.kids) > maxFanout {
			maxFanout = len(n.kids)
		}
		rs := make([]rune, 0, len(n.kids))
		for r := range n.kids {
			rs = append(rs, r)
		}
		sort.Slice(rs, func(i, j int) bool { return rs[i] < rs[j] })
		out := make([]*mnode, len(rs))
		for i, r := range rs {
			out[i] = n.kids[r]
		}
		return out
	}
	capQ, head, tail := 10, 0, 0
	var q []*mnode
	push := func(n *mnode) {
		if tail-head == capQ {
			growths++
			if head%capQ != 0 {
				wrappedGrowths++
			}
			capQ *= 2
			tail -= head
			head = 0
		}
		q = append(q, n)
		tail++
		if tail-head > maxQueue {
			maxQueue = tail - head
		}
	}
	for _, k := range sorted(root) {
		push(k)
	}
	for len(q) > 0 {
		n := q[0]
		q = q[1:]
		head++
		for _, k := range sorted(n) {
			push(k)
		}
	}
	return
}
