// Workloads added by the clause-coverage audit. Same oracle as main.go (checkText /
// checkKey: byte-wise brute force over the inserted patterns). What is new is the
// situation in which "Match iff" and "nested occurrences included" are decided:
//
//	sparse   texts of 8 bytes .. 140 KiB that contain NO occurrence except the ones
//	         planted on purpose (none, one or two): at the very start, at the very
//	         end, across the byte midpoint, far behind byte 65536. Everywhere else the
//	         big-text engines (match/big, huge, deep, fanout) produce texts with
//	         hundreds of occurrences, on which Match is true whatever it overlooks.
//	chain    staircase pattern sets: every suffix of one word w (10-40 runes) is a
//	         trie path, so that the failure chain below the node of w is up to 39
//	         links long. Decides (a) an output that is reached only after >= 8
//	         failure links (FindAll: nested occurrences at depth; Match: that output is
//	         the only occurrence in the text), (b) a transition that is found only
//	         after >= 9 fallback steps, (c) a failure link whose construction has to
//	         walk >= 8 suffix nodes. FuzzySearch walks the same chain.
package main

import (
	"fmt"
	"strings"
	"unicode/utf8"

	"verif/ev"
)

const (
	textSparse = textNear + 1
	textChain  = textNear + 2
)

// runes of width 1..4 that occur in none of the alphabets used by sparse / chain
var neutralRunes = []rune{'z', 'ž', '〇', '𝄞'}

var sparseAlphabets = []alphabet{alphaAB, alphaABC, alphaMixed, alphaSib, alphaBound, alphaWide, alphaFFFDSib}

func runesOf(ss []string) [][]rune {
	out := make([][]rune, len(ss))
	for i, s := range ss {
		out[i] = []rune(s)
	}
	return out
}

func hasRunePrefix(t, p []rune) bool {
	if len(p) > len(t) {
		return false
	}
	for i := range p {
		if t[i] != p[i] {
			return false
		}
	}
	return true
}

// sparseFiller returns about targetBytes of text (alphabet runes, neutral runes,
// patterns without their last rune, pattern prefixes) in which no pattern occurs:
// every occurrence gets its last rune overwritten by a neutral rune, which is in no
// pattern, so that one pass from left to right leaves none.
func sparseFiller(rng *ev.Rand, al alphabet, dp [][]rune, targetBytes int) []rune {
	out := make([]rune, 0, targetBytes/2+8)
	put := func(r rune) int {
		out = append(out, r)
		return utf8.RuneLen(r)
	}
	for n := 0; n < targetBytes; {
		x := rng.Intn(20)
		switch {
		case x < 11 || len(dp) == 0:
			n += put(al.runes[rng.Intn(len(al.runes))])
		case x < 14:
			n += put(neutralRunes[rng.Intn(len(neutralRunes))])
		case x < 18: // near miss: everything but the last rune
			p := dp[rng.Intn(len(dp))]
			for _, r := range p[:len(p)-1] {
				n += put(r)
			}
		default:
			p := dp[rng.Intn(len(dp))]
			for _, r := range p[:rng.Range(1, len(p))] {
				n += put(r)
			}
		}
	}
	for i := range out {
		for _, p := range dp {
			if out[i] == p[0] && hasRunePrefix(out[i:], p) {
				out[i+len(p)-1] = neutralRunes[rng.Intn(len(neutralRunes))]
			}
		}
	}
	return out
}

// runeIndexAtByte returns the rune index of rs whose byte offset is closest to at.
func runeIndexAtByte(rs []rune, at int) int {
	n := 0
	for i, r := range rs {
		w := utf8.RuneLen(r)
		if n+w/2 >= at {
			return i
		}
		n += w
	}
	return len(rs)
}

// splitPoint is where an implementation that cuts a text in two halves at a rune
// boundary would cut it.
func splitPoint(text string) int {
	h := len(text) / 2
	for h > 0 && h < len(text) && !utf8.RuneStart(text[h]) {
		h--
	}
	return h
}

func sparse(c *ev.Case) {
	rng := c.Rng
	al := sparseAlphabets[rng.Intn(len(sparseAlphabets))]
	pats := genPatterns(rng, al, 1, 6, rng.Pick(3, 6, 6, 12))
	s := build(c, pats, rng.Chance(1, 8))
	if s == nil {
		return
	}
	dp := runesOf(s.dpats)
	size, lo, hi := "small", 8, 200
	switch c.Index % 8 {
	case 5, 6:
		size, lo, hi = "mid", 4200, 12000
	case 7:
		size, lo, hi = "long", 70000, 140000
	}
	var first string
	for t := 0; t < 2; t++ {
		f := sparseFiller(rng, al, dp, rng.Range(lo, hi))
		plants := rng.Pick(0, 1, 1, 1, 2)
		for k := 0; k < plants; k++ {
			p := dp[rng.Intn(len(dp))]
			var m int
			switch rng.Intn(6) {
			case 0:
				m = 0
			case 1:
				m = len(f)
			case 2, 3: // across the byte midpoint
				total := 0
				for _, r := range f {
					total += utf8.RuneLen(r)
				}
				m = runeIndexAtByte(f, total/2)
			default:
				m = rng.Intn(len(f) + 1)
			}
			g := make([]rune, 0, len(f)+len(p))
			g = append(append(append(g, f[:m]...), p...), f[m:]...)
			f = g
		}
		text := string(f)
		if rng.Chance(1, 4) { // arbitrary bytes: lone bytes >= 0x80 dropped into the text
			b := []byte(text)
			for k := rng.Range(1, 3); k > 0; k-- {
				i := rng.Intn(len(b) + 1)
				b = append(b[:i], append([]byte{byte(0x80 + rng.Intn(0x80))}, b[i:]...)...)
			}
			text = string(b)
		}
		if t == 0 {
			first = text
		}
		// what the oracle says about this text decides which situation it counts for
		occs := occurrences(s.dpats, text)
		h := splitPoint(text)
		c.Add("sparse_texts_"+size, 1)
		c.Max("max_text_bytes", int64(len(text)))
		if len(occs) == 0 {
			c.Add("sparse_"+size+"_texts_without_occurrence", 1)
		} else {
			every, firstStart := true, len(text)
			for _, o := range occs {
				if !(o.start < h && h < o.stop) {
					every = false
				}
				if o.start < firstStart {
					firstStart = o.start
				}
			}
			if every {
				c.Add("sparse_"+size+"_texts_every_occurrence_across_the_midpoint", 1)
			}
			if firstStart > 65536 {
				c.Add("sparse_texts_first_occurrence_behind_byte_65536", 1)
			}
		}
		if len(occs) == 1 {
			c.Add("sparse_"+size+"_texts_with_single_occurrence", 1)
			if occs[0].start == 0 {
				c.Add("sparse_"+size+"_texts_single_occurrence_at_the_very_start", 1)
			}
			if occs[0].stop == len(text) {
				c.Add("sparse_"+size+"_texts_single_occurrence_at_the_very_end", 1)
			}
			if !utf8.ValidString(text) {
				c.Add("sparse_"+size+"_invalid_utf8_texts_with_single_occurrence", 1)
			}
		}
		if !s.checkText(text, textSparse) {
			return
		}
	}
	c.Distinct(s.hash)
	if c.WantSample() {
		if len(first) > 120 {
			first = first[:120] + "…"
		}
		c.Sample(fmt.Sprintf("patterns %s; 2 %s texts without occurrences except 0-2 planted ones (start / end / across the midpoint / anywhere), e.g. %+q", q(pats), size, first))
	}
}

// ---- chain: long failure chains ----

var chainAlphabets = []alphabet{alphaABC, alphaMixed, alphaSib, alphaBound, alphaWide}

// prefixSet returns every non-empty prefix (at rune boundaries) of every pattern:
// the strings of the trie nodes. Model for coverage counters only.
func prefixSet(dpats []string) map[string]bool {
	ps := map[string]bool{}
	for _, p := range dpats {
		for i := range p {
			if i > 0 {
				ps[p[:i]] = true
			}
		}
		ps[p] = true
	}
	return ps
}

// chainStats replays the automaton walk on the model (the state after text[:i] is the
// longest suffix of text[:i] that is a trie prefix; its failure chain is the list of
// all shorter suffixes that are trie prefixes, longest first) and reports
//   - maxHops: the largest number of failure links between the state and an output
//     that ends there,
//   - maxFall: the largest number of fallback steps before a transition that succeeds.
//
// deepOut = occurrences with hops >= 8, deepFall = such transitions with steps >= 9
// (the state itself counts as the first step when it has no such child).
func chainStats(ps map[string]bool, isPat map[string]bool, text string) (maxHops, deepOut, maxFall, deepFall int, soleDeep bool) {
	cur := 0 // state = text[cur:i]
	nOcc, nDeepOcc := 0, 0
	for i := 0; i < len(text); {
		_, w := utf8.DecodeRuneInString(text[i:])
		// transition on text[i:i+w]
		steps := 0
		j := cur
		for ; j <= i; j++ {
			if j < i && !ps[text[j:i]] {
				continue // not a node of the chain
			}
			if ps[text[j:i+w]] {
				break
			}
			steps++
		}
		if j <= i {
			if steps > maxFall {
				maxFall = steps
			}
			if steps >= 9 {
				deepFall++
			}
			cur = j
		} else {
			cur = i + w
		}
		i += w
		// outputs that end at i
		hops := 0
		for k := cur; k < i; k++ {
			if !ps[text[k:i]] {
				continue
			}
			if isPat[text[k:i]] {
				nOcc++
				if hops > maxHops {
					maxHops = hops
				}
				if hops >= 8 {
					deepOut++
					nDeepOcc++
				}
			}
			hops++
		}
	}
	return maxHops, deepOut, maxFall, deepFall, nOcc > 0 && nOcc == nDeepOcc
}

func chain(c *ev.Case) {
	rng := c.Rng
	al := chainAlphabets[rng.Intn(len(chainAlphabets))]
	L := rng.Range(10, 40)
	if c.Thorough() && rng.Chance(1, 10) {
		L = rng.Range(40, 120)
	}
	last := al.runes[rng.Intn(len(al.runes))]
	w := make([]rune, L)
	for i := 0; i < L-1; i++ {
		for {
			w[i] = al.runes[rng.Intn(len(al.runes))]
			if w[i] != last {
				break
			}
		}
	}
	w[L-1] = last // occurs nowhere else in w
	ws := string(w)
	stem := string(w[:L-1])
	x := string(neutralRunes[1+rng.Intn(3)]) // never part of a text: makes paths that are no occurrences
	var y rune                               // the rune that leaves the staircase
	for {
		y = al.runes[rng.Intn(len(al.runes))]
		if rng.Chance(1, 3) {
			y = neutralRunes[0]
		}
		if y != last {
			break
		}
	}
	mode := rng.Intn(3) // 0: suffixes are patterns (many outputs at one end); 1: only the shortest suffix is; 2: mixed
	density := rng.Pick(10, 10, 7, 4)
	pats := []string{ws + x}
	for i := 1; i < L; i++ {
		if !rng.Chance(density, 10) {
			continue
		}
		real := mode == 0 || (mode == 2 && rng.Bool())
		if real {
			pats = append(pats, string(w[i:]))
		} else {
			pats = append(pats, string(w[i:])+x)
		}
	}
	k := rng.Range(1, 2)
	pats = append(pats, string(w[L-k:])) // the output at the bottom of the chain
	k2 := rng.Range(1, 3)
	target := string(w[L-1-k2:L-1]) + string(y)
	pats = append(pats, target) // reached from the state of w[:L-1] only by falling back to w[L-1-k2:L-1]
	withPz := rng.Bool()
	if withPz {
		// its failure link is the node of target: the construction walks the whole staircase
		pats = append(pats, stem+string(y))
	}
	if rng.Chance(1, 4) {
		pats = append(pats, pats[rng.Intn(len(pats))])
	}
	order := rng.Perm(len(pats))
	shuffled := make([]string, len(pats))
	for a, b := range order {
		shuffled[a] = pats[b]
	}
	s := build(c, shuffled, rng.Chance(1, 8))
	if s == nil {
		return
	}
	ps := prefixSet(s.dpats)
	// suffix nodes of w[:L-1] that are longer than the stem of target and have no child y
	walk := 0
	for i := 1; i < L-1-k2; i++ {
		u := string(w[i : L-1])
		if !ps[u] {
			continue
		}
		if ps[u+string(y)] {
			break
		}
		walk++
	}
	c.Max("max_chain_suffix_nodes_between_state_and_transition", int64(walk))
	if withPz && walk >= 8 {
		c.Add("chain_failure_links_built_by_walking_ge_8_suffix_nodes", 1)
	}

	fill := func() string {
		n := rng.Intn(4)
		var b strings.Builder
		for i := 0; i < n; i++ {
			if rng.Chance(1, 3) {
				b.WriteRune(neutralRunes[0])
			} else {
				b.WriteRune(al.runes[rng.Intn(len(al.runes))])
			}
		}
		return b.String()
	}
	texts := []string{
		fill() + ws + fill(),
		fill() + stem + string(y) + fill(),
		ws,
		stem + string(y),
		fill() + stem + ws + stem + string(y) + fill(),
	}
	// one byte destroyed: the chain is entered further down
	bs := []byte(texts[rng.Intn(2)])
	bs[rng.Intn(len(bs))] = byte(0x80 + rng.Intn(0x80))
	texts = append(texts, string(bs))
	for _, text := range texts {
		maxHops, deepOut, maxFall, deepFall, soleDeep := chainStats(ps, s.isPat, text)
		c.Max("max_failure_links_between_state_and_output", int64(maxHops))
		c.Max("max_fallback_steps_before_a_transition", int64(maxFall))
		c.Add("chain_outputs_behind_ge_8_failure_links", int64(deepOut))
		c.Add("chain_transitions_after_ge_9_fallback_steps", int64(deepFall))
		if deepOut > 0 {
			c.Add("chain_texts_with_output_behind_ge_8_failure_links", 1)
		}
		if soleDeep {
			c.Add("chain_texts_whose_only_occurrences_are_behind_ge_8_failure_links", 1)
		}
		if deepFall > 0 {
			c.Add("chain_texts_with_transition_after_ge_9_fallback_steps", 1)
		}
		c.Add("chain_texts", 1)
		if !s.checkText(text, textChain) {
			return
		}
	}
	keys := []string{stem, ws, string(w[:rng.Range(1, L)]), string(w[rng.Intn(L-1) : L-1]), fill() + stem, stem + string(y)}
	for _, key := range keys {
		if !s.checkKey(key, "chain") {
			return
		}
	}
	c.Distinct(s.hash)
	if c.WantSample() {
		c.Sample(fmt.Sprintf("alphabet %s, word of %d runes, %d patterns (suffix staircase, mode %d, density %d/10): %d suffix nodes between the state of the stem and the node with child %+q; %d texts and %d keys compared", al.name, L, len(pats), mode, density, walk, y, len(texts), len(keys)))
	}
}
