// Workloads added after the review against harness/LESSONS.md. Same oracle as
// main.go (byte-wise brute force over the inserted patterns); what is new is the
// history a trie goes through before it is judged:
//
//	mixed          two tries worked on alternately on one goroutine; text and key
//	               queries interleaved on the same trie with every observer order
//	               (FindAll before Match, FuzzySearch before PrefixSearch, one of them
//	               only); the same argument repeated on the other trie and again on
//	               the same one; results kept and verified after later calls; results
//	               scribbled on by the caller, then the query repeated; BuildFailureLinks
//	               again with and without further Inserts, first observer at random;
//	               Replace / ReplaceWithMask (not judged) in between.
//	match/near     texts and keys that are patterns re-encoded so that a careless
//	               decoder (no overlong / continuation-bit check) reads the same runes.
//	fanout         nodes with hundreds of children (all of ASCII incl. NUL, 1-4 byte runes).
//	huge           >100 000 patterns: breadth-first queue far above 65 536 entries.
//	deep           patterns and prefixes longer than 255 / 32 767 / 65 535 bytes,
//	               texts of several hundred KiB.
package main

import (
	"fmt"
	"strings"
	"unicode/utf8"

	"verif/ev"
)

// ---- alphabets ----

var (
	// legal but unusual runes: NUL, DEL, first 2-byte rune, BOM, both neighbours of
	// the surrogate range, the last rune
	alphaEdge = alphabet{"edge", []rune{0x00, 0x01, 0x7F, 0x80, 0xFEFF, 0xD7FF, 0xE000, 0x10FFFF, 'a'}}
	alphaNul  = alphabet{"nul", []rune{0x00, 'a', 'b'}}
	alphaFan  = func() alphabet {
		var rs []rune
		for r := rune(0); r < 0x100; r++ { // all of ASCII (NUL included) and the first 128 two-byte runes
			rs = append(rs, r)
		}
		for r := rune(0x4E00); r < 0x4E80; r++ {
			rs = append(rs, r)
		}
		for r := rune(0x1F600); r < 0x1F640; r++ {
			rs = append(rs, r)
		}
		return alphabet{"fanout", rs}
	}()
	alphaHuge = alphabet{"huge", []rune{'a', 'b', 'c', 'd', 'e', 'f', 'g', 'h', 'i', 'j', 'k', 'l', 'm', 'n', 'o', 'p', 'é', 'ü', 'ß', '世', '界', '語', '😀', '😁'}}
)

// ---- nearly valid text ----

// encodeWidth writes r with the bit layout of a w-byte UTF-8 sequence whatever its
// minimal width is (w = 2..4, r must fit).
func encodeWidth(r rune, w int) []byte {
	switch w {
	case 2:
		return []byte{0xC0 | byte(r>>6), 0x80 | byte(r)&0x3F}
	case 3:
		return []byte{0xE0 | byte(r>>12), 0x80 | byte(r>>6)&0x3F, 0x80 | byte(r)&0x3F}
	default:
		return []byte{0xF0 | byte(r>>18), 0x80 | byte(r>>12)&0x3F, 0x80 | byte(r>>6)&0x3F, 0x80 | byte(r)&0x3F}
	}
}

// nearValid re-encodes at least one rune of the valid text s as an overlong
// sequence, or sets the second-highest bit of one of its continuation bytes. The
// result is never valid UTF-8, and a decoder that only looks at the payload bits
// reads the original runes.
func nearValid(c *ev.Case, s string) string {
	rng := c.Rng
	rs := []rune(s)
	if len(rs) == 0 {
		rs = []rune{'a'}
	}
	forced := rng.Intn(len(rs))
	var b []byte
	for i, r := range rs {
		w := utf8.RuneLen(r)
		mode := 0
		if i == forced || rng.Chance(1, 4) {
			mode = 1 + rng.Intn(2)
			if w == 4 {
				mode = 2
			}
			if w == 1 {
				mode = 1
			}
		}
		switch mode {
		case 1:
			w2 := rng.Range(w+1, 4)
			b = append(b, encodeWidth(r, w2)...)
			c.Add(fmt.Sprintf("near_valid_overlong_%dbyte_rune_as_%d", w, w2), 1)
			c.Add("near_valid_overlong_runes", 1)
		case 2:
			enc := utf8.AppendRune(nil, r)
			enc[1+rng.Intn(w-1)] |= 0x40
			b = append(b, enc...)
			c.Add("near_valid_continuation_bit_flips", 1)
		default:
			b = utf8.AppendRune(b, r)
		}
	}
	return string(b)
}

// ---- judges: one golib result against the brute force ----

func (s *sut) who() string {
	if s.name == "" {
		return ""
	}
	return "trie " + s.name + ": "
}

func (s *sut) judgeMatch(text string, got bool, tag string) bool {
	occs := occurrences(s.dpats, text)
	if got == (len(occs) > 0) {
		return true
	}
	if got {
		s.c.Failf("match-false-positive"+tag, "%spatterns %s: Match(%+q) = true, but no pattern occurs byte-wise in the text", s.who(), q(s.pats), text)
	} else {
		s.c.Failf("match-false-negative"+tag, "%spatterns %s: Match(%+q) = false, but %+q occurs at byte %d", s.who(), q(s.pats), text, occs[0].pat, occs[0].start)
	}
	return false
}

func (s *sut) judgeFindAll(text string, all []string, tag string) bool {
	c := s.c
	occs := occurrences(s.dpats, text)
	want := make([]string, len(occs))
	for i, o := range occs {
		want[i] = o.pat
	}
	for _, g := range all {
		if !s.isPat[g] {
			c.Failf("findall-not-a-pattern"+tag, "%spatterns %s: FindAll(%+q) contains %+q, which is not an inserted pattern (result %s)", s.who(), q(s.pats), text, g, q(all))
			return false
		}
	}
	missing, extra := multisetDiff(all, want)
	if len(missing) > 0 {
		c.Failf("findall-missing"+tag, "%spatterns %s: FindAll(%+q) = %s lacks %d of %d occurrences: %s", s.who(), q(s.pats), text, q(all), len(missing), len(occs), q(missing))
		return false
	}
	if len(extra) > 0 {
		c.Failf("findall-extra"+tag, "%spatterns %s: FindAll(%+q) = %s has %d entries without an occurrence: %s", s.who(), q(s.pats), text, q(all), len(extra), q(extra))
		return false
	}
	c.Add("findall_entries_compared", int64(len(all)))
	return true
}

// judgePrefix: same demands as checkKey (completeness for valid keys, soundness
// and no repeats for every key; "" tolerated once when Insert("") was called).
func (s *sut) judgePrefix(key string, got []string, tag string) bool {
	c := s.c
	var want []string
	for _, p := range s.dpats {
		if strings.HasPrefix(p, key) {
			want = append(want, p)
		}
	}
	var cmp []string
	empties := 0
	for _, g := range got {
		if g == "" && key == "" && s.emptyIn {
			empties++
			continue
		}
		if !s.isPat[g] {
			c.Failf("prefix-not-a-pattern"+tag, "%spatterns %s: PrefixSearch(%+q) = %s contains %+q, which is not an inserted pattern", s.who(), q(s.pats), key, q(got), g)
			return false
		}
		if !strings.HasPrefix(g, key) {
			c.Failf("prefix-wrong-prefix"+tag, "%spatterns %s: PrefixSearch(%+q) = %s contains %+q, which does not start with the key", s.who(), q(s.pats), key, q(got), g)
			return false
		}
		cmp = append(cmp, g)
	}
	if empties > 1 {
		c.Failf("prefix-duplicate"+tag, "%spatterns %s: PrefixSearch(\"\") lists the empty pattern %d times", s.who(), q(s.pats), empties)
		return false
	}
	missing, extra := multisetDiff(cmp, want)
	if len(extra) > 0 {
		c.Failf("prefix-duplicate"+tag, "%spatterns %s: PrefixSearch(%+q) = %s lists %s more than once", s.who(), q(s.pats), key, q(got), q(extra))
		return false
	}
	if len(missing) > 0 && utf8.ValidString(key) {
		c.Failf("prefix-missing"+tag, "%spatterns %s: PrefixSearch(%+q) = %s lacks %s", s.who(), q(s.pats), key, q(got), q(missing))
		return false
	}
	c.Add("prefix_patterns_compared", int64(len(want)))
	return true
}

func (s *sut) judgeFuzzy(key string, fz []string, tag string) bool {
	for _, g := range fz {
		if g == "" && s.emptyIn {
			continue
		}
		if !s.isPat[g] {
			s.c.Failf("fuzzy-not-a-pattern"+tag, "%spatterns %s: FuzzySearch(%+q) = %s contains %+q, which is not an inserted pattern", s.who(), q(s.pats), key, q(fz), g)
			return false
		}
		s.c.Add("fuzzy_strings_checked", 1)
	}
	return true
}

// ---- mixed ----

type keptResult struct {
	s    *sut
	call string
	arg  string
	live []string // the slice golib returned
	snap []string // deep copy taken at return
	seq  int      // golib calls made by the case when it was returned
}

type mixedRun struct {
	c     *ev.Case
	tr    [2]*sut
	fresh [2]bool // built and not yet observed
	kept  []keptResult
	calls int
}

func (m *mixedRun) idx(s *sut) int {
	if s == m.tr[0] {
		return 0
	}
	return 1
}

func (m *mixedRun) called(s *sut, call, arg string, isText bool) {
	m.calls++
	m.c.Add("mixed_queries", 1)
	if i := m.idx(s); m.fresh[i] {
		m.fresh[i] = false
		m.c.Add("first_observer_after_build_"+call, 1)
	}
	k := uint64('k')
	if isText {
		k = 't'
	}
	s.hash = ev.Mix(s.hash, ev.HashString(arg), ev.HashString(call), k)
}

func (m *mixedRun) match(s *sut, text, tag string) bool {
	var got bool
	if !m.c.Guard("Match", func() { got = s.t.Match(text) }) {
		return false
	}
	m.called(s, "Match", text, true)
	m.c.Logf("%sMatch(%+q) -> %v", s.who(), text, got)
	return s.judgeMatch(text, got, tag)
}

func (m *mixedRun) findAll(s *sut, text, tag string) ([]string, bool) {
	var all []string
	if !m.c.Guard("FindAll", func() { all = s.t.FindAll(text) }) {
		return nil, false
	}
	m.called(s, "FindAll", text, true)
	m.c.Logf("%sFindAll(%+q) -> %s", s.who(), text, q(all))
	return all, s.judgeFindAll(text, all, tag)
}

func (m *mixedRun) prefix(s *sut, key, tag string) ([]string, bool) {
	var got []string
	if !m.c.Guard("PrefixSearch", func() { got = s.t.PrefixSearch(key) }) {
		return nil, false
	}
	m.called(s, "PrefixSearch", key, false)
	m.c.Logf("%sPrefixSearch(%+q) -> %s", s.who(), key, q(got))
	return got, s.judgePrefix(key, got, tag)
}

func (m *mixedRun) fuzzy(s *sut, key, tag string) ([]string, bool) {
	var fz []string
	if !m.c.Guard("FuzzySearch", func() { fz = s.t.FuzzySearch(key) }) {
		return nil, false
	}
	m.called(s, "FuzzySearch", key, false)
	m.c.Logf("%sFuzzySearch(%+q) -> %s", s.who(), key, q(fz))
	return fz, s.judgeFuzzy(key, fz, tag)
}

func (m *mixedRun) keep(s *sut, call, arg string, res []string) {
	snap := make([]string, len(res))
	for i, x := range res {
		snap[i] = strings.Clone(x)
	}
	if len(m.kept) >= 16 {
		if !m.verifyOne(m.kept[0]) {
			return
		}
		m.kept = m.kept[1:]
	}
	m.kept = append(m.kept, keptResult{s, call, arg, res, snap, m.calls})
	m.c.Add("results_kept", 1)
}

func (m *mixedRun) verifyOne(k keptResult) bool {
	for i := range k.snap {
		if k.live[i] != k.snap[i] {
			m.c.Failf("kept-result-changed/"+k.call, "%spatterns %s: the slice returned by %s(%+q) was %s and reads %s after %d later calls on the tries of this case (entry %d changed)", k.s.who(), q(k.s.pats), k.call, k.arg, q(k.snap), q(k.live), m.calls-k.seq, i)
			return false
		}
	}
	m.c.Add("kept_results_verified", 1)
	if m.calls > k.seq {
		m.c.Add("kept_results_verified_after_later_calls", 1)
		if len(k.snap) > 0 {
			m.c.Add("kept_nonempty_results_verified_after_later_calls", 1)
		}
	}
	return true
}

func (m *mixedRun) verifyKept() bool {
	for _, k := range m.kept {
		if !m.verifyOne(k) {
			return false
		}
	}
	return true
}

// scribble is what a caller that owns the returned slice may do with it.
func (m *mixedRun) scribble(res []string) {
	full := res[:cap(res)]
	for i := range full {
		full[i] = "\x00scribbled-by-caller"
	}
	m.c.Add("results_scribbled", 1)
	if len(res) > 0 {
		m.c.Add("nonempty_results_scribbled", 1)
	}
	m.c.Logf("caller overwrites all %d (cap %d) entries of that result", len(res), cap(res))
}

func derivePattern(rng *ev.Rand, al alphabet, pool []string) string {
	for try := 0; try < 8; try++ {
		var p string
		if len(pool) == 0 || rng.Chance(1, 4) {
			p = randRunes(rng, al, rng.Range(1, 4))
		} else {
			base := pool[rng.Intn(len(pool))]
			bl := utf8.RuneCountInString(base)
			switch rng.Intn(6) {
			case 0:
				p = runeCut(base, 0, rng.Range(1, bl)) // on an existing path: no new node
			case 1:
				p = runeCut(base, rng.Intn(bl), bl)
			case 2:
				i := rng.Intn(bl)
				p = runeCut(base, i, rng.Range(i+1, bl))
			case 3:
				p = base + randRunes(rng, al, rng.Range(1, 2))
			case 4:
				p = randRunes(rng, al, rng.Range(1, 2)) + base
			default:
				p = base
			}
		}
		if p != "" {
			return p
		}
	}
	return randRunes(rng, al, 1)
}

var mixedAlphabets = []alphabet{alphaAB, alphaABC, alphaMixed, alphaSib, alphaBound, alphaFFFD, alphaFFFDSib, alphaEdge, alphaNul}

func mixed(c *ev.Case) {
	rng := c.Rng
	al := mixedAlphabets[rng.Intn(len(mixedAlphabets))]
	patsA := genPatterns(rng, al, 1, 8, 5)
	var patsB []string
	switch rng.Intn(5) {
	case 0: // same set, other insertion order
		for _, i := range rng.Perm(len(patsA)) {
			patsB = append(patsB, patsA[i])
		}
	case 1: // one pattern less
		patsB = append(patsB, patsA...)
		if len(patsB) > 1 {
			i := rng.Intn(len(patsB))
			patsB = append(patsB[:i], patsB[i+1:]...)
		}
	case 2, 3: // one or two patterns more
		patsB = append(patsB, patsA...)
		for k := rng.Range(1, 2); k > 0; k-- {
			patsB = append(patsB, derivePattern(rng, al, distinctNonEmpty(patsA)))
		}
	default:
		patsB = genPatterns(rng, al, 1, 8, 5)
	}
	m := &mixedRun{c: c}
	for i, pats := range [][]string{patsA, patsB} {
		c.Logf("--- trie %s", "AB"[i:i+1])
		s := build(c, pats, rng.Chance(1, 6))
		if s == nil {
			return
		}
		s.name = "AB"[i : i+1]
		m.tr[i] = s
		m.fresh[i] = true
	}
	union := func() []string {
		return distinctNonEmpty(append(append([]string(nil), m.tr[0].pats...), m.tr[1].pats...))
	}
	u := union()

	type lastOp struct {
		kind byte
		x    int
		arg  string
	}
	var last lastOp
	var lastText, lastKey string
	var haveText, haveKey bool
	seen := map[string]bool{} // kind + trie + arg already queried
	note := func(kind byte, x int, arg string) {
		if last.kind == kind && last.arg == arg && last.x != x {
			c.Add("same_argument_on_the_other_trie_back_to_back", 1)
		}
		id := string([]byte{kind, byte('0' + x)}) + arg
		if seen[id] {
			c.Add("same_argument_on_the_same_trie_again", 1)
		}
		seen[id] = true
		last = lastOp{kind, x, arg}
	}

	x := rng.Intn(2)
	nOps := rng.Range(8, 20)
	for op := 0; op < nOps; op++ {
		if rng.Chance(3, 4) {
			x = 1 - x
		} else {
			x = rng.Intn(2)
		}
		s := m.tr[x]
		w := rng.Intn(14)
		switch {
		case w < 6: // text query
			text := lastText
			if !haveText || !rng.Chance(1, 2) {
				k := rng.Pick(textRandom, textOverlap, textOverlap, textBytes, textNear)
				if k == textNear {
					text = nearValid(c, genValidText(rng, al, u, textOverlap, 12))
				} else {
					text = genText(rng, al, u, k, rng.Pick(6, 12, 24))
				}
				lastText, haveText = text, true
			}
			note('t', x, text)
			if rng.Chance(1, 4) {
				// a bystander: Replace / ReplaceWithMask share the automaton walk with FindAll.
				// Their results belong to C06 and are not judged here; what is judged is that
				// the queries that follow on the same trie and text are still exact.
				var ok bool
				if rng.Bool() {
					repl := rng.PickStr("", "*", "xy")
					ok = c.Guard("Replace", func() { _ = s.t.Replace(text, repl) })
					c.Logf("%sReplace(%+q, %+q) (result not judged)", s.who(), text, repl)
				} else {
					ok = c.Guard("ReplaceWithMask", func() { _ = s.t.ReplaceWithMask(text, '*') })
					c.Logf("%sReplaceWithMask(%+q, '*') (result not judged)", s.who(), text)
				}
				if !ok {
					return
				}
				m.calls++
				c.Add("replace_calls_before_a_query_on_the_same_text", 1)
			}
			mode := rng.Intn(4)
			if mode == 0 || mode == 3 {
				if !m.match(s, text, "") {
					return
				}
			}
			if mode != 3 {
				if mode != 0 {
					c.Add("findall_not_preceded_by_match", 1)
				}
				res, ok := m.findAll(s, text, "")
				if !ok {
					return
				}
				if rng.Chance(1, 3) {
					m.scribble(res)
					if rng.Chance(2, 3) {
						c.Add("requery_after_scribble", 1)
						if res, ok = m.findAll(s, text, "/after-scribble"); !ok {
							return
						}
						m.keep(s, "FindAll", text, res)
					}
				} else {
					m.keep(s, "FindAll", text, res)
				}
			}
			if mode == 1 {
				if !m.match(s, text, "") {
					return
				}
			}
		case w < 12: // key query
			key := lastKey
			if !haveKey || !rng.Chance(1, 2) {
				if rng.Chance(1, 8) && len(u) > 0 {
					p := u[rng.Intn(len(u))]
					key = nearValid(c, runeCut(p, 0, rng.Range(1, utf8.RuneCountInString(p))))
				} else {
					key, _ = m.tr[rng.Intn(2)].genKey(al)
				}
				lastKey, haveKey = key, true
			}
			note('k', x, key)
			mode := rng.Intn(4)
			doPrefix := func() bool {
				res, ok := m.prefix(s, key, "")
				if !ok {
					return false
				}
				if rng.Chance(1, 3) {
					m.scribble(res)
					if rng.Chance(2, 3) {
						c.Add("requery_after_scribble", 1)
						if res, ok = m.prefix(s, key, "/after-scribble"); !ok {
							return false
						}
						m.keep(s, "PrefixSearch", key, res)
					}
				} else {
					m.keep(s, "PrefixSearch", key, res)
				}
				return true
			}
			doFuzzy := func() bool {
				res, ok := m.fuzzy(s, key, "")
				if !ok {
					return false
				}
				if rng.Chance(1, 3) {
					m.scribble(res)
					if rng.Chance(2, 3) {
						c.Add("requery_after_scribble", 1)
						if res, ok = m.fuzzy(s, key, "/after-scribble"); !ok {
							return false
						}
						m.keep(s, "FuzzySearch", key, res)
					}
				} else {
					m.keep(s, "FuzzySearch", key, res)
				}
				return true
			}
			switch mode {
			case 0:
				if !doPrefix() || !doFuzzy() {
					return
				}
			case 1:
				c.Add("fuzzy_before_prefix", 1)
				if !doFuzzy() || !doPrefix() {
					return
				}
			case 2:
				if !doPrefix() {
					return
				}
			default:
				if !doFuzzy() {
					return
				}
			}
		case w == 12: // build again: nothing observed until the next operation
			if rng.Bool() {
				for k := rng.Range(1, 2); k > 0; k-- {
					if !c.Guard("BuildFailureLinks", func() { s.t.BuildFailureLinks() }) {
						return
					}
					c.Logf("%sBuildFailureLinks() again, nothing inserted", s.who())
				}
				c.Add("rebuild_without_insert", 1)
			} else {
				pats := append([]string(nil), s.pats...)
				for k := rng.Range(1, 3); k > 0; k-- {
					p := derivePattern(rng, al, u)
					if !c.Guard("Insert", func() { s.t.Insert(p) }) {
						return
					}
					c.Logf("%sInsert(%+q)", s.who(), p)
					for _, old := range s.dpats {
						if strings.HasPrefix(old, p) {
							c.Add("late_pattern_on_existing_path", 1)
							break
						}
					}
					pats = append(pats, p)
				}
				if !c.Guard("BuildFailureLinks", func() { s.t.BuildFailureLinks() }) {
					return
				}
				c.Logf("%sBuildFailureLinks()", s.who())
				s.setPats(pats)
				s.hash = hashStrings(s.hash, pats)
				u = union()
				c.Add("insert_then_rebuild", 1)
			}
			m.fresh[x] = true
			last = lastOp{}
		default:
			if !m.verifyKept() {
				return
			}
		}
	}
	if !m.verifyKept() {
		return
	}
	c.Distinct(ev.Mix(m.tr[0].hash, m.tr[1].hash))
	if c.WantSample() {
		c.Sample(fmt.Sprintf("tries A %s and B %s worked on alternately: %d queries in mixed order, %d results kept and re-read at the end", q(m.tr[0].pats), q(m.tr[1].pats), m.calls, len(m.kept)))
	}
}

// ---- huge: breadth-first queue far above 2^16 ----

func huge(c *ev.Case) {
	rng := c.Rng
	al := alphaHuge
	n := rng.Range(100000, 130000)
	pats := make([]string, 0, n)
	for len(pats) < n {
		l := 4
		switch x := rng.Intn(100); {
		case x < 2:
			l = 1
		case x < 5:
			l = 2
		case x < 10:
			l = 3
		case x < 15:
			l = 5
		}
		pats = append(pats, randRunes(rng, al, l))
	}
	s := build(c, pats, rng.Chance(1, 4))
	if s == nil {
		return
	}
	c.Add("huge_tries", 1)
	for i := 0; i < 6; i++ {
		k := []int{textRandom, textOverlap, textBytes}[i%3]
		text := genText(rng, al, s.dpats, k, rng.Pick(8, 40, 200))
		c.Max("max_text_bytes", int64(len(text)))
		if !s.checkText(text, k) {
			return
		}
	}
	for i := 0; i < 6; i++ {
		key, class := s.genKey(al)
		if i == 0 {
			key, class = "", "empty" // enumerates the whole trie
		}
		if !s.checkKey(key, class) {
			return
		}
	}
	c.Distinct(s.hash)
	if c.WantSample() {
		c.Sample(fmt.Sprintf("%d patterns (%d distinct) of 1-5 runes over 24 runes, model BFS queue peak %d; 6 texts and 6 keys compared", len(pats), len(s.dpats), s.maxQueue))
	}
}

// ---- deep: patterns and prefixes longer than 2^8 / 2^15 / 2^16 bytes ----

func runesUpTo(rng *ev.Rand, al alphabet, bytes int) string {
	var b strings.Builder
	b.Grow(bytes + 4)
	for b.Len() < bytes {
		b.WriteRune(al.runes[rng.Intn(len(al.runes))])
	}
	return b.String()
}

// cutAtRune returns the largest i <= at that is a rune boundary of the valid string s.
func cutAtRune(s string, at int) int {
	if at >= len(s) {
		return len(s)
	}
	for at > 0 && !utf8.RuneStart(s[at]) {
		at--
	}
	return at
}

func deep(c *ev.Case) {
	rng := c.Rng
	al := []alphabet{alphaABC, alphaMixed, alphaSib, alphaWide}[rng.Intn(4)]
	var target int
	switch c.Index % 4 {
	case 0:
		target = rng.Range(250, 262)
	case 1:
		target = rng.Range(32760, 32776)
	case 2:
		target = rng.Range(65530, 65545)
	default:
		target = rng.Range(70000, 150000)
	}
	base := runesUpTo(rng, al, target)
	n := len(base)
	pats := []string{base}
	// a long suffix, a long prefix, an infix, an extension, a sibling that leaves the path late
	sufAt := cutAtRune(base, rng.Range(1, 12))
	pats = append(pats, base[sufAt:])
	preTo := cutAtRune(base, n-rng.Range(1, 12))
	if preTo > 0 {
		pats = append(pats, base[:preTo])
	}
	i := cutAtRune(base, rng.Intn(n/2+1))
	j := cutAtRune(base, n-rng.Intn(n/2))
	if i < j {
		pats = append(pats, base[i:j])
	}
	pats = append(pats, base+randRunes(rng, al, rng.Range(1, 3)))
	if k := cutAtRune(base, n-rng.Range(1, 40)); k > 0 {
		pats = append(pats, base[:k]+randRunes(rng, al, rng.Range(1, 3)))
	}
	for k := rng.Range(1, 3); k > 0; k-- {
		pats = append(pats, randRunes(rng, al, rng.Range(2, 4)))
	}
	if rng.Bool() {
		pats = append(pats, base)
	}
	order := rng.Perm(len(pats))
	shuffled := make([]string, len(pats))
	for a, b := range order {
		shuffled[a] = pats[b]
	}
	s := build(c, shuffled, rng.Chance(1, 4))
	if s == nil {
		return
	}
	longest := 0
	for _, p := range s.dpats {
		if len(p) > longest {
			longest = len(p)
		}
		if len(p) > 255 {
			c.Add("patterns_over_255_bytes", 1)
		}
		if len(p) > 32767 {
			c.Add("patterns_over_32767_bytes", 1)
		}
		if len(p) > 65535 {
			c.Add("patterns_over_65535_bytes", 1)
		}
	}
	c.Max("max_pattern_bytes", int64(longest))

	nearMiss := base[:cutAtRune(base, n-1)]
	for t := 0; t < 3; t++ {
		var b strings.Builder
		parts := rng.Range(2, 5)
		for k := 0; k < parts; k++ {
			switch rng.Intn(6) {
			case 0:
				b.WriteString(randRunes(rng, al, rng.Range(1, 6)))
			case 1:
				b.WriteString(nearMiss) // all but the last rune: a fallback from the deepest node
			case 2:
				b.WriteString(s.dpats[rng.Intn(len(s.dpats))])
			default:
				b.WriteString(base)
			}
		}
		text := b.String()
		kind := textOverlap
		if t == 2 && len(text) > 0 {
			// one byte destroyed: occurrences around it vanish, the nested ones further away stay
			bs := []byte(text)
			bs[rng.Intn(len(bs))] = byte(0x80 + rng.Intn(0x80))
			text, kind = string(bs), textBytes
		}
		c.Max("max_text_bytes", int64(len(text)))
		if len(text) > 256<<10 {
			c.Add("texts_over_256KiB", 1)
		}
		if len(occurrences(s.dpats, text)) > 0 && longest > 65535 {
			c.Add("deep_texts_with_occurrences", 1)
		}
		if !s.checkText(text, kind) {
			return
		}
	}
	keys := []struct{ k, class string }{
		{base[:cutAtRune(base, n-rng.Range(0, 60))], "deep_prefix"},
		{base[:cutAtRune(base, rng.Intn(n+1))], "deep_prefix"},
		{base, "whole_pattern"},
		{base[:n-rng.Intn(4)], "byte_prefix"},
		{base[sufAt:], "whole_pattern"},
		{base[cutAtRune(base, n/2):] + randRunes(rng, al, 1), "suffix_then_prefix"},
	}
	for _, k := range keys {
		if len(k.k) > 65535 {
			c.Add("keys_over_65535_bytes", 1)
		}
		if !s.checkKey(k.k, k.class) {
			return
		}
	}
	c.Add("deep_cases", 1)
	c.Distinct(s.hash)
	if c.WantSample() {
		c.Sample(fmt.Sprintf("alphabet %s: %d patterns around one of %d bytes (long suffix, prefix, infix, extension, late sibling, short ones); 3 texts up to %d bytes and 6 keys compared", al.name, len(pats), n, 5*n))
	}
}

// ---- fanspan: one node with thousands of children spread over the whole code space ----

// spanRune maps i of k evenly over ['a', U+10FFFF], stepping over the surrogates.
func spanRune(i, k int) rune {
	lo, hi := int64('a'), int64(0x10FFFF-0x800)
	r := rune(lo + int64(i)*(hi-lo)/int64(k-1))
	if r >= 0xD800 {
		r += 0x800
	}
	return r
}

// fanspan: a node (the root, or the node behind a common first rune) gets 1500..12000
// children whose runes run from 'a' to U+10FFFF — a child lookup that interpolates, hashes
// or buckets by rune value works on (rune - lowest) * (children - 1), which leaves 32 bits
// only for such nodes. Texts and keys hold runes from both ends of the span, present and
// absent ones. Oracle as everywhere: the byte-wise brute force.
func fanspan(c *ev.Case) {
	rng := c.Rng
	k := rng.Pick(1500, 2048, 2500, 3000, 3800, 4096, 6000, 12000)
	stem := ""
	if rng.Chance(1, 3) {
		stem = string(spanRune(rng.Intn(k), k)) // the wide node is one level down
	}
	step := 1
	if rng.Chance(1, 4) {
		step = 2 // every second rune is absent: lookups of absent runes inside the span
	}
	rs := make([]rune, 0, k)
	pats := make([]string, 0, k+16)
	for i := 0; i < k; i += step {
		r := spanRune(i, k)
		rs = append(rs, r)
		pats = append(pats, stem+string(r))
	}
	if step == 2 { // both ends are always children
		rs = append(rs, 0x10FFFF)
		pats = append(pats, stem+string(rune(0x10FFFF)))
	}
	al := alphabet{"span", rs}
	for i := 0; i < 12; i++ { // a few longer patterns through the wide node
		pats = append(pats, stem+randRunes(rng, al, rng.Range(2, 4)))
	}
	s := build(c, pats, rng.Chance(1, 6))
	if s == nil {
		return
	}
	c.Add("fanspan_tries", 1)
	if s.maxFanout >= 1930 {
		c.Add("fanspan_tries_fanout_ge_1930", 1)
	}
	top := alphabet{"span-top", append([]rune{'a', 'b', 0x10FFFE, 0x10FFFD, 0xFFFF, 0x10000}, rs[len(rs)-8:]...)}
	for i := 0; i < 8; i++ {
		kind := []int{textRandom, textOverlap, textBytes, textRandom}[i%4]
		tal := al
		if i >= 4 {
			tal = top // mostly the top of the span, present and absent runes
		}
		text := stem + genText(rng, tal, s.dpats, kind, rng.Pick(6, 24, 60))
		c.Max("max_text_bytes", int64(len(text)))
		if !s.checkText(text, kind) {
			return
		}
		c.Add("fanspan_texts", 1)
	}
	for i := 0; i < 6; i++ {
		key, class := s.genKey(al)
		switch i {
		case 0:
			key, class = stem, "span_stem" // enumerates the wide node
		case 1:
			key, class = stem+string(rune(0x10FFFF)), "span_top"
		case 2:
			key, class = stem+string(rune(0x10FFFE)), "span_absent_top"
		}
		if !s.checkKey(key, class) {
			return
		}
		c.Add("fanspan_keys", 1)
	}
	c.Distinct(s.hash)
	if c.WantSample() {
		c.Sample(fmt.Sprintf("fanspan: %d patterns, one node with %d children from 'a' to U+10FFFF (stem %+q, every %d-th of %d evenly spread runes); 8 texts and 6 keys compared", len(pats), s.maxFanout, stem, step, k))
	}
}
