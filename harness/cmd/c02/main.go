// C02 — SkipList and SkipListWithCmp behave as an ordered map.
//
// Reference-model monitor: a sorted slice of bindings under the same order.
// Every return value and every callback sequence is compared after every
// operation. Tower heights are a generated choice: the list's private random
// source is replaced (reflection, by field name and type) with a scripted one.
package main

import (
	"fmt"
	"iter"
	"math"
	"math/rand"
	"os"
	"reflect"
	"sort"
	"strconv"
	"strings"
	"sync"
	"unsafe"

	"github.com/welllog/golib/listz"
	"github.com/welllog/golib/typez"

	"verif/ev"
)

// ---- scripted random source ----

type script struct {
	rng   *ev.Rand
	mode  int
	n     int
	drawn int
	raw   int // percentage of draws that are raw 64-bit words instead of level-shaped ones
}

func (s *script) level() int {
	s.drawn++
	switch s.mode {
	case 0: // geometric, p = 1/2 (what a fair source gives)
		l := 1
		for l < 32 && s.rng.Bool() {
			l++
		}
		return l
	case 1:
		return 1
	case 2: // staircase
		s.n++
		return (s.n-1)%12 + 1
	case 3: // always as tall as allowed
		return 32
	case 4: // mostly flat with rare very tall towers
		if s.rng.Chance(1, 6) {
			return s.rng.Range(5, 32)
		}
		return 1
	default: // geometric, p = 3/4: tall lists from few keys
		l := 1
		for l < 32 && s.rng.Chance(3, 4) {
			l++
		}
		return l
	}
}

func (s *script) Uint64() uint64 {
	if s.raw > 0 && s.rng.Intn(100) < s.raw {
		// raw words, including 0 and words whose low 32 bits are all zero
		s.drawn++
		switch s.rng.Intn(4) {
		case 0:
			return 0
		case 1:
			return uint64(s.rng.Uint32()) << 32
		case 2:
			return s.rng.Uint64()
		default:
			return 1<<64 - 1
		}
	}
	return uint64(1) << (32 - s.level())
}
func (s *script) Int63() int64 { return int64(s.Uint64() >> 1) }
func (s *script) Seed(int64)   {}

// plant replaces the private *rand.Rand of a skip list (the field called "rand", else the
// first field of that type). Returns false if there is none (then the list's own
// randomness is used).
func plant(list any, sc *script) (ok bool) {
	defer func() {
		if recover() != nil {
			ok = false
		}
	}()
	v := reflect.ValueOf(list).Elem()
	want := reflect.TypeOf((*rand.Rand)(nil))
	f := v.FieldByName("rand")
	if !f.IsValid() || f.Type() != want {
		// renamed: take the first field of that type, whatever it is called
		f = reflect.Value{}
		for i := 0; i < v.NumField(); i++ {
			if v.Field(i).Type() == want {
				f = v.Field(i)
				break
			}
		}
		if !f.IsValid() {
			return false
		}
	}
	*(**rand.Rand)(unsafe.Pointer(f.UnsafeAddr())) = rand.New(sc)
	return true
}

func levelOf(list any) (lvl int) {
	defer func() {
		if recover() != nil {
			lvl = -1
		}
	}()
	f := reflect.ValueOf(list).Elem().FieldByName("level")
	if !f.IsValid() || !f.CanInt() {
		return -1
	}
	return int(f.Int())
}

// ---- adapter over the two list types and several key types ----

type kv struct{ k, v int }

type omap interface {
	Raw() any
	Set(k, v int)
	SetNx(k, v int) bool
	SetX(k, v int) bool
	Get(k int) (int, bool)
	GetNode(k int) (key, val int, ok bool, setValue func(int))
	Len() int
	Head() (key, val int, ok bool)
	Chain(limit int) []kv
	Remove(k int) (int, bool)
	Clear()
	Reinit()
	Range(f func(k, v int) bool)
	RangeWithStart(s int, f func(k, v int) bool)
	RangeWithRange(s, e int, f func(k, v int) bool)
	Keys() []int
	Values() []int
	All() iter.Seq2[int, int]
}

type plain[K typez.Ordered] struct {
	s    *listz.SkipList[K, int]
	to   func(int) K
	from func(K) int
}

func (p *plain[K]) Raw() any                 { return p.s }
func (p *plain[K]) Set(k, v int)             { p.s.Set(p.to(k), v) }
func (p *plain[K]) SetNx(k, v int) bool      { return p.s.SetNx(p.to(k), v) }
func (p *plain[K]) SetX(k, v int) bool       { return p.s.SetX(p.to(k), v) }
func (p *plain[K]) Get(k int) (int, bool)    { return p.s.Get(p.to(k)) }
func (p *plain[K]) Len() int                 { return p.s.Len() }
func (p *plain[K]) Remove(k int) (int, bool) { return p.s.Remove(p.to(k)) }
func (p *plain[K]) Clear()                   { p.s.Clear() }
func (p *plain[K]) Reinit()                  { p.s.Init() }
func (p *plain[K]) GetNode(k int) (int, int, bool, func(int)) {
	n := p.s.GetNode(p.to(k))
	if n == nil {
		return 0, 0, false, nil
	}
	return p.from(n.Key()), n.Value(), true, n.SetValue
}
func (p *plain[K]) Head() (int, int, bool) {
	n := p.s.Head()
	if n == nil {
		return 0, 0, false
	}
	return p.from(n.Key()), n.Value(), true
}
func (p *plain[K]) Chain(limit int) []kv {
	var out []kv
	for n := p.s.Head(); n != nil && len(out) <= limit; n = n.Next() {
		out = append(out, kv{p.from(n.Key()), n.Value()})
	}
	return out
}
func (p *plain[K]) Range(f func(k, v int) bool) {
	p.s.Range(func(k K, v int) bool { return f(p.from(k), v) })
}
func (p *plain[K]) RangeWithStart(s int, f func(k, v int) bool) {
	p.s.RangeWithStart(p.to(s), func(k K, v int) bool { return f(p.from(k), v) })
}
func (p *plain[K]) RangeWithRange(s, e int, f func(k, v int) bool) {
	p.s.RangeWithRange(p.to(s), p.to(e), func(k K, v int) bool { return f(p.from(k), v) })
}
func (p *plain[K]) Keys() []int {
	var out []int
	for _, k := range p.s.Keys() {
		out = append(out, p.from(k))
	}
	return out
}
func (p *plain[K]) Values() []int { return p.s.Values() }
func (p *plain[K]) All() iter.Seq2[int, int] {
	seq := p.s.All() // obtained now, run (possibly much) later
	return func(yield func(int, int) bool) {
		seq(func(k K, v int) bool { return yield(p.from(k), v) })
	}
}

type withCmp[K any] struct {
	s    *listz.SkipListWithCmp[K, int]
	cmp  func(K, K) int
	to   func(int) K
	from func(K) int
}

func (p *withCmp[K]) Raw() any                 { return p.s }
func (p *withCmp[K]) Set(k, v int)             { p.s.Set(p.to(k), v) }
func (p *withCmp[K]) SetNx(k, v int) bool      { return p.s.SetNx(p.to(k), v) }
func (p *withCmp[K]) SetX(k, v int) bool       { return p.s.SetX(p.to(k), v) }
func (p *withCmp[K]) Get(k int) (int, bool)    { return p.s.Get(p.to(k)) }
func (p *withCmp[K]) Len() int                 { return p.s.Len() }
func (p *withCmp[K]) Remove(k int) (int, bool) { return p.s.Remove(p.to(k)) }
func (p *withCmp[K]) Clear()                   { p.s.Clear() }
func (p *withCmp[K]) Reinit()                  { p.s.Init(p.cmp) }
func (p *withCmp[K]) GetNode(k int) (int, int, bool, func(int)) {
	n := p.s.GetNode(p.to(k))
	if n == nil {
		return 0, 0, false, nil
	}
	return p.from(n.Key()), n.Value(), true, n.SetValue
}
func (p *withCmp[K]) Head() (int, int, bool) {
	n := p.s.Head()
	if n == nil {
		return 0, 0, false
	}
	return p.from(n.Key()), n.Value(), true
}
func (p *withCmp[K]) Chain(limit int) []kv {
	var out []kv
	for n := p.s.Head(); n != nil && len(out) <= limit; n = n.Next() {
		out = append(out, kv{p.from(n.Key()), n.Value()})
	}
	return out
}
func (p *withCmp[K]) Range(f func(k, v int) bool) {
	p.s.Range(func(k K, v int) bool { return f(p.from(k), v) })
}
func (p *withCmp[K]) RangeWithStart(s int, f func(k, v int) bool) {
	p.s.RangeWithStart(p.to(s), func(k K, v int) bool { return f(p.from(k), v) })
}
func (p *withCmp[K]) RangeWithRange(s, e int, f func(k, v int) bool) {
	p.s.RangeWithRange(p.to(s), p.to(e), func(k K, v int) bool { return f(p.from(k), v) })
}
func (p *withCmp[K]) Keys() []int {
	var out []int
	for _, k := range p.s.Keys() {
		out = append(out, p.from(k))
	}
	return out
}
func (p *withCmp[K]) Values() []int { return p.s.Values() }
func (p *withCmp[K]) All() iter.Seq2[int, int] {
	seq := p.s.All() // obtained now, run (possibly much) later
	return func(yield func(int, int) bool) {
		seq(func(k K, v int) bool { return yield(p.from(k), v) })
	}
}

// ---- model ----

// order: cls maps a key to its position class; keys with the same class are the
// same key for the map (identity for real total orders).
type order struct {
	name string
	cls  func(int) int // ascending in cls == ascending in the list's order
}

type model struct {
	ord order
	b   []kv // sorted by ord.cls(k); k is the key as first inserted
}

func (m *model) find(k int) (int, bool) {
	c := m.ord.cls(k)
	i := sort.Search(len(m.b), func(i int) bool { return m.ord.cls(m.b[i].k) >= c })
	return i, i < len(m.b) && m.ord.cls(m.b[i].k) == c
}

func (m *model) from(s int) []kv { // bindings with key >= s
	c := m.ord.cls(s)
	i := sort.Search(len(m.b), func(i int) bool { return m.ord.cls(m.b[i].k) >= c })
	return m.b[i:]
}

func (m *model) between(s, e int) []kv { // keys in [s, e)
	var out []kv
	ce := m.ord.cls(e)
	for _, x := range m.from(s) {
		if m.ord.cls(x.k) >= ce {
			break
		}
		out = append(out, x)
	}
	return out
}

type sut struct {
	c      *ev.Case
	l      omap
	m      *model
	sc     *script
	plant  bool
	hash   uint64
	maxKey int
	lvl    int
	enums  int
	zero   bool // zero-value list: script planted after the first write
	// quiet > 0: no observing call is made for that many operations (only the
	// operations' own results are compared); then everything is verified.
	quiet     int
	quietCase bool
	// kept: an All() sequence obtained at an earlier point (possibly on the empty
	// list); running it later, more than once, must enumerate the bindings of then
	kept    iter.Seq2[int, int]
	keptAge int
	// removed: order classes of keys that were bound once and then removed (coverage only)
	removed map[int]bool
}

func (s *sut) sameKey(a, b int) bool { return s.m.ord.cls(a) == s.m.ord.cls(b) }

func (s *sut) seqEqual(what string, got, want []kv) bool {
	// the signature names the method, the message carries the arguments
	sig := "enum/" + what
	if strings.HasPrefix(what, "RangeWith") {
		if i := strings.IndexByte(what, '('); i > 0 {
			sig = "enum/" + what[:i]
		}
	}
	if len(got) != len(want) {
		s.c.Failf(sig, "%s enumerated %d bindings, the sorted-map model has %d there (got %v want %v)", what, len(got), len(want), clip(got), clip(want))
		return false
	}
	for i := range got {
		if !s.sameKey(got[i].k, want[i].k) || got[i].v != want[i].v {
			s.c.Failf(sig, "%s: position %d is (%d,%d), model says (%d,%d) (got %v want %v)", what, i, got[i].k, got[i].v, want[i].k, want[i].v, clip(got), clip(want))
			return false
		}
	}
	return true
}

func clip(x []kv) string {
	if len(x) > 14 {
		return fmt.Sprint(x[:14]) + "…"
	}
	return fmt.Sprint(x)
}

func (s *sut) trackLevel() {
	l := levelOf(s.l.Raw())
	if l < 0 {
		return
	}
	if l > s.lvl && s.lvl > 0 {
		s.c.Add("level_growth_events", 1)
	}
	if l < s.lvl {
		s.c.Add("level_shrink_events", 1)
		if s.lvl-l > 1 {
			s.c.Add("level_shrink_by_several", 1)
		}
	}
	s.lvl = l
	s.c.Max("max_level", int64(l))
}

func (s *sut) afterWrite() {
	if s.zero && !s.plant {
		s.plant = plant(s.l.Raw(), s.sc)
	}
	s.trackLevel()
}

// cheap observers after every operation
func (s *sut) observe(after string) bool {
	c := s.c
	if s.quiet > 0 {
		s.quiet--
		c.Add("observations_deferred", 1)
		if s.quiet > 0 {
			return true
		}
		c.Add("quiet_windows_closed", 1)
		if !s.enumerate() {
			return false
		}
	} else if s.quietCase && c.Rng.Chance(1, 12) {
		s.quiet = c.Rng.Range(2, 8)
		return true
	}
	var n int
	var hk, hv int
	var hok bool
	if !c.Guard("Len/Head", func() { n = s.l.Len(); hk, hv, hok = s.l.Head() }) {
		return false
	}
	if n != len(s.m.b) {
		c.Failf("len", "after %s: Len() = %d, model has %d bindings", after, n, len(s.m.b))
		return false
	}
	if hok != (len(s.m.b) > 0) || (hok && (!s.sameKey(hk, s.m.b[0].k) || hv != s.m.b[0].v)) {
		c.Failf("head", "after %s: Head() = (%d,%d,%v), model minimum %v", after, hk, hv, hok, clip(s.m.b))
		return false
	}
	return true
}

func (s *sut) collect(name string, run func(f func(k, v int) bool), stopAfter int) ([]kv, int, bool) {
	var got []kv
	calls := 0
	limit := len(s.m.b) + 3
	ok := s.c.Guard(name, func() {
		run(func(k, v int) bool {
			calls++
			got = append(got, kv{k, v})
			if stopAfter > 0 && calls >= stopAfter {
				return false
			}
			return calls <= limit
		})
	})
	return got, calls, ok
}

// enumerate compares every whole-map route with the model.
func (s *sut) enumerate() bool {
	c := s.c
	if s.quiet > 0 {
		return true
	}
	s.enums++
	want := s.m.b
	c.Add("full_enumerations", 1)
	got, _, ok := s.collect("Range", s.l.Range, 0)
	if !ok || !s.seqEqual("Range", got, want) {
		return false
	}
	got = got[:0]
	if !c.Guard("All", func() {
		for k, v := range s.l.All() {
			got = append(got, kv{k, v})
			if len(got) > len(want)+3 {
				break
			}
		}
	}) || !s.seqEqual("All", got, want) {
		return false
	}
	if s.kept != nil {
		for pass := 0; pass < 2; pass++ {
			got = got[:0]
			if !c.Guard("All(kept)", func() {
				s.kept(func(k, v int) bool {
					got = append(got, kv{k, v})
					return len(got) <= len(want)+3
				})
			}) || !s.seqEqual("All(kept)", got, want) {
				return false
			}
		}
		c.Add("kept_sequences_rerun", 1)
		s.keptAge++
	}
	if s.kept == nil || c.Rng.Chance(1, 3) {
		c.Guard("All", func() { s.kept = s.l.All() })
		s.keptAge = 0
	}
	var chain []kv
	if !c.Guard("Head/Next", func() { chain = s.l.Chain(len(want) + 3) }) || !s.seqEqual("Head/Next chain", chain, want) {
		return false
	}
	var ks, vs []int
	if !c.Guard("Keys/Values", func() { ks, vs = s.l.Keys(), s.l.Values() }) {
		return false
	}
	if len(ks) != len(want) || len(vs) != len(want) {
		c.Failf("enum/Keys", "Keys() has %d entries, Values() %d, model %d", len(ks), len(vs), len(want))
		return false
	}
	for i := range want {
		if !s.sameKey(ks[i], want[i].k) || vs[i] != want[i].v {
			c.Failf("enum/Keys", "Keys()/Values() position %d = (%d,%d), model (%d,%d)", i, ks[i], vs[i], want[i].k, want[i].v)
			return false
		}
	}
	// early stop
	if len(want) > 0 {
		k := 1 + c.Rng.Intn(len(want))
		_, calls, ok := s.collect("Range-stop", s.l.Range, k)
		if !ok {
			return false
		}
		if calls != k {
			c.Failf("stop/Range", "Range with a callback returning false at call %d made %d calls", k, calls)
			return false
		}
		c.Add("early_stops/Range", 1)
		calls = 0
		if !c.Guard("All-stop", func() {
			s.l.All()(func(int, int) bool { calls++; return calls < k && calls < len(want)+3 })
		}) {
			return false
		}
		if calls != k {
			c.Failf("stop/All", "All with yield returning false at call %d made %d calls", k, calls)
			return false
		}
		c.Add("early_stops/All", 1)
	}
	return true
}

func (s *sut) rangeQueries(n int) bool {
	c := s.c
	rng := c.Rng
	if s.quiet > 0 {
		return true
	}
	for q := 0; q < n; q++ {
		st := rng.Range(-2, s.maxKey+2)
		want := s.m.from(st)
		stop := 0
		if len(want) > 0 && rng.Chance(1, 3) {
			stop = 1 + rng.Intn(len(want))
		}
		got, calls, ok := s.collect("RangeWithStart", func(f func(k, v int) bool) { s.l.RangeWithStart(st, f) }, stop)
		if !ok {
			return false
		}
		c.Logf("RangeWithStart(%d, stop=%d) -> %v", st, stop, clip(got))
		if stop > 0 {
			if calls != stop {
				c.Failf("stop/RangeWithStart", "RangeWithStart(%d) with a callback returning false at call %d made %d calls (model: %d keys >= start)", st, stop, calls, len(want))
				return false
			}
			c.Add("early_stops/RangeWithStart", 1)
			if _, present := s.m.find(st); present && stop == 1 && len(want) > 1 {
				// false returned for the start key itself while greater keys exist
				c.Add("early_stops/RangeWithStart/at_present_start", 1)
			}
			want = want[:stop]
		}
		if !s.seqEqual(fmt.Sprintf("RangeWithStart(%d)", st), got, want) {
			return false
		}
		_, stPresent := s.m.find(st)
		if stPresent {
			c.Add("range_start_present", 1)
		} else {
			c.Add("range_start_absent", 1)
			if s.removed[s.m.ord.cls(st)] {
				c.Add("range_start_is_removed_key", 1)
			}
		}
		e := rng.Range(-2, s.maxKey+2)
		want = s.m.between(st, e)
		stop = 0
		if len(want) > 0 && rng.Chance(1, 3) {
			stop = 1 + rng.Intn(len(want))
		}
		got, calls, ok = s.collect("RangeWithRange", func(f func(k, v int) bool) { s.l.RangeWithRange(st, e, f) }, stop)
		if !ok {
			return false
		}
		c.Logf("RangeWithRange(%d,%d, stop=%d) -> %v", st, e, stop, clip(got))
		if stop > 0 {
			if calls != stop {
				c.Failf("stop/RangeWithRange", "RangeWithRange(%d,%d) with a callback returning false at call %d made %d calls", st, e, stop, calls)
				return false
			}
			c.Add("early_stops/RangeWithRange", 1)
			if len(want) < len(s.m.from(st)) {
				// the callback stops the walk before the end bound does
				c.Add("early_stops/RangeWithRange/keys_beyond_end_exist", 1)
			}
			want = want[:stop]
		} else if len(want) > 0 && len(want) < len(s.m.from(st)) {
			c.Add("rangewithrange_cut_by_end", 1)
		}
		if !s.seqEqual(fmt.Sprintf("RangeWithRange(%d,%d)", st, e), got, want) {
			return false
		}
		if s.m.ord.cls(st) >= s.m.ord.cls(e) {
			c.Add("range_empty_interval", 1)
		} else if len(want) > 0 {
			if stPresent {
				c.Add("rangewithrange_nonempty_start_present", 1)
			} else {
				c.Add("rangewithrange_nonempty_start_absent", 1)
			}
		}
	}
	return true
}

var (
	callsPresent = [...]string{"calls/Set/key_present", "calls/SetX/key_present", "calls/SetNx/key_present"}
	callsAbsent  = [...]string{"calls/Set/key_absent", "calls/SetX/key_absent", "calls/SetNx/key_absent"}
)

func (s *sut) opSet(k, v, mode int) bool {
	c := s.c
	i, present := s.m.find(k)
	name := [...]string{"Set", "SetX", "SetNx"}[mode]
	var got bool
	if !c.Guard(name, func() {
		switch mode {
		case 0:
			s.l.Set(k, v)
			got = true
		case 1:
			got = s.l.SetX(k, v)
		default:
			got = s.l.SetNx(k, v)
		}
	}) {
		return false
	}
	c.Logf("%s(%d,%d) -> %v", name, k, v, got)
	want := true
	switch mode {
	case 1:
		want = present
	case 2:
		want = !present
	}
	if got != want {
		c.Failf("result/"+name, "%s(%d,%d) returned %v, key present in model: %v", name, k, v, got, present)
		return false
	}
	if present {
		c.Add(callsPresent[mode], 1)
	} else {
		c.Add(callsAbsent[mode], 1)
	}
	if want {
		if present {
			s.m.b[i].v = v
		} else {
			s.m.b = append(s.m.b, kv{})
			copy(s.m.b[i+1:], s.m.b[i:])
			s.m.b[i] = kv{k, v}
			c.Add("inserts", 1)
		}
	}
	s.hash = ev.Mix(s.hash, uint64(mode), uint64(k+7), uint64(v))
	s.afterWrite()
	return s.observe(name)
}

func (s *sut) opRemove(k int) bool {
	c := s.c
	i, present := s.m.find(k)
	var v int
	var ok bool
	if !c.Guard("Remove", func() { v, ok = s.l.Remove(k) }) {
		return false
	}
	c.Logf("Remove(%d) -> (%d,%v)", k, v, ok)
	if ok != present || (present && v != s.m.b[i].v) || (!present && v != 0) {
		c.Failf("result/Remove", "Remove(%d) = (%d,%v); model: present=%v bindings %v", k, v, ok, present, clip(s.m.b))
		return false
	}
	if present {
		s.m.b = append(s.m.b[:i], s.m.b[i+1:]...)
		c.Add("removals", 1)
		if s.removed == nil {
			s.removed = map[int]bool{}
		}
		s.removed[s.m.ord.cls(k)] = true
	} else {
		c.Add("calls/Remove/key_absent", 1)
	}
	s.hash = ev.Mix(s.hash, 9, uint64(k+7))
	s.trackLevel()
	return s.observe("Remove")
}

func (s *sut) opGet(k int) bool {
	c := s.c
	if s.quiet > 0 {
		return true
	}
	i, present := s.m.find(k)
	var v, nk, nv int
	var ok, nok bool
	var setv func(int)
	if !c.Guard("Get/GetNode", func() {
		v, ok = s.l.Get(k)
		nk, nv, nok, setv = s.l.GetNode(k)
	}) {
		return false
	}
	if ok != present || (present && v != s.m.b[i].v) || (!present && v != 0) {
		c.Logf("Get(%d) -> (%d,%v)", k, v, ok)
		c.Failf("result/Get", "Get(%d) = (%d,%v); model: present=%v %v", k, v, ok, present, clip(s.m.b))
		return false
	}
	if nok != present || (present && (!s.sameKey(nk, k) || nv != s.m.b[i].v)) {
		c.Failf("result/GetNode", "GetNode(%d) = node(%d,%d) ok=%v; model: present=%v", k, nk, nv, nok, present)
		return false
	}
	if present {
		c.Add("calls/Get+GetNode/key_present", 1)
	} else {
		c.Add("calls/Get+GetNode/key_absent", 1)
	}
	if present && c.Rng.Chance(1, 4) {
		nv2 := 5000 + c.Rng.Intn(1000)
		if !c.Guard("SetValue", func() { setv(nv2) }) {
			return false
		}
		c.Logf("GetNode(%d).SetValue(%d)", k, nv2)
		s.m.b[i].v = nv2
		s.hash = ev.Mix(s.hash, 11, uint64(k+7), uint64(nv2))
		var v2 int
		c.Guard("Get", func() { v2, _ = s.l.Get(k) })
		if v2 != nv2 {
			c.Failf("result/SetValue", "after GetNode(%d).SetValue(%d), Get returns %d", k, nv2, v2)
			return false
		}
	}
	return true
}

func (s *sut) opClear(reinit bool) bool {
	name := "Clear"
	if reinit {
		name = "Init"
	}
	if !s.c.Guard(name, func() {
		if reinit {
			s.l.Reinit()
		} else {
			s.l.Clear()
		}
	}) {
		return false
	}
	s.c.Logf("%s()", name)
	s.m.b = nil
	s.hash = ev.Mix(s.hash, 13)
	if reinit {
		// Init installs a fresh private source
		s.plant = plant(s.l.Raw(), s.sc)
	}
	s.lvl = 0
	s.trackLevel()
	s.c.Add("clears", 1)
	return s.observe(name) && s.enumerate() && s.rangeQueries(1)
}

func (s *sut) step(keyspace int) bool {
	rng := s.c.Rng
	k := rng.Intn(keyspace)
	if rng.Chance(1, 25) {
		k = rng.Pick(-1, keyspace, keyspace+1)
	}
	v := 1 + rng.Intn(900)
	switch p := rng.Intn(100); {
	case p < 28:
		return s.opSet(k, v, 0)
	case p < 38:
		return s.opSet(k, v, 1)
	case p < 50:
		return s.opSet(k, v, 2)
	case p < 72:
		if len(s.m.b) > 0 && rng.Bool() {
			k = s.m.b[rng.Intn(len(s.m.b))].k
		}
		return s.opRemove(k)
	case p < 84:
		return s.opGet(k)
	case p < 94:
		return s.rangeQueries(1)
	case p < 97:
		return s.enumerate()
	default:
		return s.opClear(rng.Chance(1, 3))
	}
}

var orders = []order{
	{"natural", func(k int) int { return k }},
	{"reversed", func(k int) int { return -k }},
	{"mod7", func(k int) int { return ((k % 7) + 7) % 7 }},
}

func cmpInt(a, b int) int {
	switch {
	case a < b:
		return -1
	case a > b:
		return 1
	}
	return 0
}

// build returns the list under test for a variant.
func build(variant int, zero bool) (omap, order, string) {
	id := func(k int) int { return k }
	switch variant {
	case 0:
		var s *listz.SkipList[int, int]
		if zero {
			s = new(listz.SkipList[int, int])
		} else {
			s = listz.NewSkipList[int, int]()
		}
		return &plain[int]{s, id, id}, orders[0], "SkipList[int]"
	case 1:
		to := func(k int) string { return fmt.Sprintf("k%04d", k+10) }
		from := func(s string) int { n, _ := strconv.Atoi(s[1:]); return n - 10 }
		var s *listz.SkipList[string, int]
		if zero {
			s = new(listz.SkipList[string, int])
		} else {
			s = listz.NewSkipList[string, int]()
		}
		return &plain[string]{s, to, from}, orders[0], "SkipList[string]"
	case 2:
		to := func(k int) float64 { return float64(k)/4 - 0.5 }
		from := func(f float64) int { return int((f + 0.5) * 4) }
		var s *listz.SkipList[float64, int]
		if zero {
			s = new(listz.SkipList[float64, int])
		} else {
			s = listz.NewSkipList[float64, int]()
		}
		return &plain[float64]{s, to, from}, orders[0], "SkipList[float64]"
	case 3:
		return &withCmp[int]{listz.NewSkipListWithCmp[int, int](cmpInt), cmpInt, id, id}, orders[0], "SkipListWithCmp[int]/natural"
	case 4:
		rev := func(a, b int) int { return cmpInt(b, a) }
		return &withCmp[int]{listz.NewSkipListWithCmp[int, int](rev), rev, id, id}, orders[1], "SkipListWithCmp[int]/reversed"
	case 5:
		// by length, then lexicographic, on decimal strings: numeric order of k+3 >= 1
		c := func(a, b string) int {
			if len(a) != len(b) {
				return cmpInt(len(a), len(b))
			}
			switch {
			case a < b:
				return -1
			case a > b:
				return 1
			}
			return 0
		}
		to := func(k int) string { return strconv.Itoa(k + 3) }
		from := func(s string) int { n, _ := strconv.Atoi(s); return n - 3 }
		return &withCmp[string]{listz.NewSkipListWithCmp[string, int](c), c, to, from}, orders[0], "SkipListWithCmp[string]/length-then-lex"
	case 6:
		m := func(a, b int) int { return cmpInt(((a%7)+7)%7, ((b%7)+7)%7) }
		return &withCmp[int]{listz.NewSkipListWithCmp[int, int](m), m, id, id}, orders[2], "SkipListWithCmp[int]/mod7"
	case 7:
		// a comparator is any function whose sign orders the keys: this one returns the difference
		d := func(a, b int) int { return a - b }
		return &withCmp[int]{listz.NewSkipListWithCmp[int, int](d), d, id, id}, orders[0], "SkipListWithCmp[int]/difference"
	case 8:
		// large magnitudes, and MinInt/MaxInt as the non-zero results
		big := func(a, b int) int {
			switch {
			case a < b:
				if (a+b)%2 == 0 {
					return -1 << 62
				}
				return -7
			case a > b:
				if (a+b)%2 == 0 {
					return 1<<62 + 5
				}
				return 2
			}
			return 0
		}
		return &withCmp[int]{listz.NewSkipListWithCmp[int, int](big), big, id, id}, orders[0], "SkipListWithCmp[int]/magnitudes"
	case 10:
		// the extreme ints as the only non-zero results: -x of the "less" result is still negative
		ext := func(a, b int) int {
			switch {
			case a < b:
				return math.MinInt
			case a > b:
				return math.MaxInt
			}
			return 0
		}
		return &withCmp[int]{listz.NewSkipListWithCmp[int, int](ext), ext, id, id}, orders[0], "SkipListWithCmp[int]/extremes"
	case 11:
		// reversed order; extreme results for some pairs, +-1 for the others
		ext := func(a, b int) int {
			switch {
			case a < b:
				if a%2 == 0 {
					return math.MaxInt
				}
				return 1
			case a > b:
				if b%2 == 0 {
					return math.MinInt
				}
				return -1
			}
			return 0
		}
		return &withCmp[int]{listz.NewSkipListWithCmp[int, int](ext), ext, id, id}, orders[1], "SkipListWithCmp[int]/reversed-extremes"
	default:
		// reversed order expressed as a difference
		r := func(a, b int) int { return 3 * (b - a) }
		return &withCmp[int]{listz.NewSkipListWithCmp[int, int](r), r, id, id}, orders[1], "SkipListWithCmp[int]/reversed-difference"
	}
}

func seqCase(c *ev.Case) { seqVariant(c, c.Rng.Intn(10)) }

// extremeCmpCase: the same mixed sequences under comparators whose non-zero results are
// math.MinInt / math.MaxInt ("any total-order comparator": only the sign carries meaning).
func extremeCmpCase(c *ev.Case) {
	seqVariant(c, 10+c.Rng.Intn(2))
	c.Add("extreme_comparator_sequences", 1)
}

func seqVariant(c *ev.Case, variant int) {
	rng := c.Rng
	zero := variant <= 2 && rng.Chance(1, 4)
	var l omap
	var ord order
	var name string
	if !c.Guard("New", func() { l, ord, name = build(variant, zero) }) {
		return
	}
	sc := &script{rng: rng.Fork(), mode: rng.Intn(6), raw: rng.Pick(0, 0, 0, 5, 30)}
	s := &sut{c: c, l: l, m: &model{ord: ord}, sc: sc, zero: zero, quietCase: rng.Chance(1, 3)}
	if !zero {
		s.plant = plant(l.Raw(), sc)
	}
	keyspace := rng.Pick(8, 8, 64, 64, 300)
	s.maxKey = keyspace
	nops := rng.Pick(30, 60, 60, 150, 400)
	c.Logf("%s zero=%v heights=mode%d planted=%v keyspace=%d ops=%d", name, zero, sc.mode, s.plant, keyspace, nops)
	if !s.observe("construction") || !s.enumerate() || !s.rangeQueries(2) {
		return
	}
	for i := 0; i < nops; i++ {
		if !s.step(keyspace) {
			return
		}
	}
	s.quiet = 0
	if !s.observe("end of sequence") || !s.enumerate() || !s.rangeQueries(3) {
		return
	}
	// drain in a random order: exercises multi-level unlink and level shrink
	for len(s.m.b) > 0 {
		if !s.opRemove(s.m.b[rng.Intn(len(s.m.b))].k) {
			return
		}
	}
	if !s.enumerate() {
		return
	}
	if s.plant {
		c.Add("sequences_with_scripted_heights", 1)
	} else {
		c.Add("sequences_with_own_randomness", 1)
	}
	c.Add("variant/"+name, 1)
	c.Distinct(ev.Mix(s.hash, uint64(variant), uint64(sc.mode)))
	if c.WantSample() {
		c.Sample(fmt.Sprintf("%s zero-value=%v height-script=%d keyspace=%d: %d operations + drain, %d full enumerations, max level %d", name, zero, sc.mode, keyspace, nops, s.enums, s.lvl))
	}
}

// zeroCase: every method as the first call on a zero-value SkipList, and again after Clear.
var zeroMethods = []string{"Get", "GetNode", "Len", "Head", "Remove", "Range", "All", "Keys", "Values", "RangeWithStart", "RangeWithRange", "SetX", "SetNx", "Set", "Clear"}

func zeroCase(c *ev.Case) {
	rng := c.Rng
	variant := c.Index % 3
	first := zeroMethods[(c.Index/3)%len(zeroMethods)]
	afterClear := (c.Index/(3*len(zeroMethods)))%2 == 1
	l, ord, name := build(variant, true)
	sc := &script{rng: rng.Fork(), mode: rng.Intn(6)}
	s := &sut{c: c, l: l, m: &model{ord: ord}, sc: sc, zero: true, maxKey: 8}
	c.Logf("zero-value %s, first method %s, after Clear: %v", name, first, afterClear)
	if afterClear {
		if !c.Guard("Clear", func() { l.Clear() }) {
			return
		}
		c.Logf("Clear()")
	}
	ok := true
	switch first {
	case "Get", "GetNode":
		ok = s.opGet(3)
	case "Len", "Head":
		ok = s.observe("nothing")
	case "Remove":
		ok = s.opRemove(3)
	case "Range", "All", "Keys", "Values":
		ok = s.enumerate()
	case "RangeWithStart", "RangeWithRange":
		ok = s.rangeQueries(2)
	case "SetX":
		ok = s.opSet(3, 1, 1)
	case "SetNx":
		ok = s.opSet(3, 1, 2)
	case "Set":
		ok = s.opSet(3, 1, 0)
	case "Clear":
		ok = s.opClear(false)
	}
	if !ok {
		return
	}
	// then a short mixed sequence, a Clear, and another one
	for round := 0; round < 2; round++ {
		for i := 0; i < 12; i++ {
			if !s.step(8) {
				return
			}
		}
		if !s.opClear(false) {
			return
		}
	}
	c.Add("zero_value_scripts", 1)
	c.Distinct(ev.Mix(uint64(c.Index), 77))
	if c.WantSample() {
		c.Sample(fmt.Sprintf("zero-value %s: first call %s (after Clear: %v), then mixed operations, Clear, mixed operations", name, first, afterClear))
	}
}

// ---- single-call granularity: the exact named method is the first call on a zero value ----

var readMethods = []string{"Get", "GetNode", "Len", "Head", "Range", "All", "Keys", "Values", "RangeWithStart", "RangeWithRange"}

// readOne makes exactly ONE list call, the named read method, and compares its result with the model.
func (s *sut) readOne(m string, a, b int) bool {
	c := s.c
	want := s.m.b
	i, present := s.m.find(a)
	switch m {
	case "Get":
		var v int
		var ok bool
		if !c.Guard("Get", func() { v, ok = s.l.Get(a) }) {
			return false
		}
		c.Logf("Get(%d) -> (%d,%v)", a, v, ok)
		if ok != present || (present && v != want[i].v) || (!present && v != 0) {
			c.Failf("result/Get", "Get(%d) = (%d,%v); model: present=%v %v", a, v, ok, present, clip(want))
			return false
		}
	case "GetNode":
		var nk, nv int
		var nok bool
		if !c.Guard("GetNode", func() { nk, nv, nok, _ = s.l.GetNode(a) }) {
			return false
		}
		c.Logf("GetNode(%d) -> node(%d,%d) ok=%v", a, nk, nv, nok)
		if nok != present || (present && (!s.sameKey(nk, a) || nv != want[i].v)) {
			c.Failf("result/GetNode", "GetNode(%d) = node(%d,%d) ok=%v; model: present=%v %v", a, nk, nv, nok, present, clip(want))
			return false
		}
	case "Len":
		var n int
		if !c.Guard("Len", func() { n = s.l.Len() }) {
			return false
		}
		c.Logf("Len() -> %d", n)
		if n != len(want) {
			c.Failf("len", "Len() = %d, model has %d bindings", n, len(want))
			return false
		}
	case "Head":
		var hk, hv int
		var hok bool
		if !c.Guard("Head", func() { hk, hv, hok = s.l.Head() }) {
			return false
		}
		c.Logf("Head() -> (%d,%d,%v)", hk, hv, hok)
		if hok != (len(want) > 0) || (hok && (!s.sameKey(hk, want[0].k) || hv != want[0].v)) {
			c.Failf("head", "Head() = (%d,%d,%v), model minimum %v", hk, hv, hok, clip(want))
			return false
		}
	case "Range":
		got, _, ok := s.collect("Range", s.l.Range, 0)
		c.Logf("Range -> %v", clip(got))
		if !ok || !s.seqEqual("Range", got, want) {
			return false
		}
	case "All":
		var got []kv
		ok := c.Guard("All", func() {
			for k, v := range s.l.All() {
				got = append(got, kv{k, v})
				if len(got) > len(want)+3 {
					break
				}
			}
		})
		c.Logf("All -> %v", clip(got))
		if !ok || !s.seqEqual("All", got, want) {
			return false
		}
	case "Keys":
		var ks []int
		if !c.Guard("Keys", func() { ks = s.l.Keys() }) {
			return false
		}
		c.Logf("Keys() -> %v", ks)
		if len(ks) != len(want) {
			c.Failf("enum/Keys", "Keys() has %d entries, model %d bindings %v", len(ks), len(want), clip(want))
			return false
		}
		for j := range want {
			if !s.sameKey(ks[j], want[j].k) {
				c.Failf("enum/Keys", "Keys() position %d = %d, model %d", j, ks[j], want[j].k)
				return false
			}
		}
	case "Values":
		var vs []int
		if !c.Guard("Values", func() { vs = s.l.Values() }) {
			return false
		}
		c.Logf("Values() -> %v", vs)
		if len(vs) != len(want) {
			c.Failf("enum/Values", "Values() has %d entries, model %d bindings %v", len(vs), len(want), clip(want))
			return false
		}
		for j := range want {
			if vs[j] != want[j].v {
				c.Failf("enum/Values", "Values() position %d = %d, model %d", j, vs[j], want[j].v)
				return false
			}
		}
	case "RangeWithStart":
		got, _, ok := s.collect("RangeWithStart", func(f func(k, v int) bool) { s.l.RangeWithStart(a, f) }, 0)
		c.Logf("RangeWithStart(%d) -> %v", a, clip(got))
		if !ok || !s.seqEqual(fmt.Sprintf("RangeWithStart(%d)", a), got, s.m.from(a)) {
			return false
		}
	case "RangeWithRange":
		got, _, ok := s.collect("RangeWithRange", func(f func(k, v int) bool) { s.l.RangeWithRange(a, b, f) }, 0)
		c.Logf("RangeWithRange(%d,%d) -> %v", a, b, clip(got))
		if !ok || !s.seqEqual(fmt.Sprintf("RangeWithRange(%d,%d)", a, b), got, s.m.between(a, b)) {
			return false
		}
	default:
		c.Failf("harness/unknown-method", "no single-call reader for %q", m)
		return false
	}
	c.Add("single_call_reads", 1)
	return true
}

// callOne: the named method is the next list call (writes are followed by the usual observers).
func (s *sut) callOne(m string, a, b int) bool {
	v := 1 + s.c.Rng.Intn(900)
	switch m {
	case "Remove":
		return s.opRemove(a)
	case "SetX":
		return s.opSet(a, v, 1)
	case "SetNx":
		return s.opSet(a, v, 2)
	case "Set":
		return s.opSet(a, v, 0)
	case "Clear":
		return s.opClear(false)
	}
	return s.readOne(m, a, b)
}

// firstCase: each of the 15 methods is, by itself, the very first call made on a zero-value
// SkipList (or the first after a Clear of the zero value); then every read method is called
// singly in a random order, then single calls are mixed, twice more after a Clear.
// As a child-process engine the call is also the first skip-list call of the process.
func firstCase(c *ev.Case) {
	rng := c.Rng
	nm := len(zeroMethods)
	first := zeroMethods[c.Index%nm]
	afterClear := (c.Index/nm)%2 == 1
	variant := (c.Index + c.Index/(2*nm)) % 3
	l, ord, name := build(variant, true)
	sc := &script{rng: rng.Fork(), mode: rng.Intn(6)}
	s := &sut{c: c, l: l, m: &model{ord: ord}, sc: sc, zero: true, maxKey: 8}
	c.Logf("zero-value %s, first single call %s, after Clear: %v", name, first, afterClear)
	if afterClear {
		if !c.Guard("Clear", func() { l.Clear() }) {
			return
		}
		c.Logf("Clear()")
	}
	if !s.callOne(first, rng.Intn(8), rng.Range(-1, 9)) {
		return
	}
	for round := 0; round < 3; round++ {
		for _, j := range rng.Perm(len(readMethods)) {
			if !s.readOne(readMethods[j], rng.Range(-1, 9), rng.Range(-1, 9)) {
				return
			}
		}
		for i := 0; i < 10; i++ {
			if !s.callOne(zeroMethods[rng.Intn(nm)], rng.Intn(8), rng.Range(-1, 9)) {
				return
			}
		}
		if round < 2 && !s.opClear(false) {
			return
		}
	}
	c.Add("zero_first_call/"+first, 1)
	if afterClear {
		c.Add("zero_first_call_after_clear", 1)
	}
	if os.Getenv("VERIF_CHILD") != "" {
		c.Add("zero_first_call_of_the_process", 1)
	}
	c.Distinct(ev.Mix(uint64(c.Index), s.hash, 177))
	if c.WantSample() {
		c.Sample(fmt.Sprintf("zero-value %s: %s alone is the first call (after Clear: %v); then each read method singly in random order, mixed single calls, Clear, twice more", name, first, afterClear))
	}
}

// tallCase: towers grow the top level one per insert; removing the tallest shrinks it by several.
func tallCase(c *ev.Case) {
	rng := c.Rng
	variant := rng.Pick(0, 3, 4, 7, 8, 9)
	l, ord, name := build(variant, false)
	sc := &script{rng: rng.Fork(), mode: 3}
	s := &sut{c: c, l: l, m: &model{ord: ord}, sc: sc, maxKey: 64}
	s.plant = plant(l.Raw(), sc)
	c.Logf("%s tall towers planted=%v", name, s.plant)
	n := rng.Range(3, 40)
	if rng.Chance(1, 4) {
		n = rng.Range(33, 48) // the top level reaches its maximum of 32
	}
	keys := rng.Perm(64)[:n]
	for _, k := range keys {
		if !s.opSet(k, k+100, 0) {
			return
		}
	}
	if n >= 33 {
		c.Add("tall_scripts_at_max_level", 1)
		sc.raw = 60
		for i := 0; i < 12; i++ {
			if !s.opSet(100+i, i, 0) {
				return
			}
		}
		sc.raw = 0
		s.maxKey = 112
	}
	if !s.enumerate() || !s.rangeQueries(4) {
		return
	}
	// remove in reverse insertion order: always the tallest first
	order := append([]int(nil), keys...)
	if rng.Bool() {
		for i, j := 0, len(order)-1; i < j; i, j = i+1, j-1 {
			order[i], order[j] = order[j], order[i]
		}
	}
	for i, k := range order {
		if !s.opRemove(k) {
			return
		}
		if i%3 == 0 && (!s.rangeQueries(1) || !s.enumerate()) {
			return
		}
		if rng.Chance(1, 5) {
			sc.mode = rng.Pick(1, 3)
			if !s.opSet(rng.Intn(64), 1, 0) {
				return
			}
		}
	}
	for len(s.m.b) > 0 {
		if !s.opRemove(s.m.b[0].k) {
			return
		}
	}
	if !s.enumerate() {
		return
	}
	c.Add("tall_scripts", 1)
	c.Distinct(ev.Mix(s.hash, 99))
}

// parallelCase: several goroutines, each working only on its OWN lists (plain and
// comparator lists, nothing shared by the harness), insert and remove at the same
// time. Independent objects must not disturb each other (package-level state).
func parallelCase(c *ev.Case) {
	g := c.Rng.Range(4, 8)
	per := c.Rng.Pick(20000, 40000)
	if strings.HasSuffix(c.Engine, "/race") {
		per = 4000 // the detector needs the accesses, not the collision
	}
	seeds := make([]uint64, g)
	for i := range seeds {
		seeds[i] = c.Rng.Uint64()
	}
	errs := make([]string, g)
	var wg sync.WaitGroup
	start := make(chan struct{})
	for t := 0; t < g; t++ {
		wg.Add(1)
		go func(t int) {
			defer wg.Done()
			defer func() {
				if p := recover(); p != nil {
					errs[t] = fmt.Sprintf("panic in a goroutine that only touched its own lists: %v", p)
				}
			}()
			rng := ev.NewRand(seeds[t])
			<-start
			a := listz.NewSkipList[int, int]()
			b := listz.NewSkipListWithCmp[int, int](cmpInt)
			m := map[int]int{}
			var live []int
			for i := 0; i < per; i++ {
				// mostly keys that are not in the list yet: only the insertion of a new
				// key draws a tower height, which is where lists could share state
				k := rng.Intn(1 << 20)
				if len(live) > 0 && rng.Chance(1, 8) {
					k = live[rng.Intn(len(live))]
				}
				if len(live) < 300 || rng.Chance(1, 2) {
					if _, ok := m[k]; !ok {
						live = append(live, k)
					}
					a.Set(k, i)
					b.Set(k, i)
					m[k] = i
				} else {
					j := rng.Intn(len(live))
					k = live[j]
					live[j] = live[len(live)-1]
					live = live[:len(live)-1]
					a.Remove(k)
					b.Remove(k)
					delete(m, k)
				}
				if i%97 == 0 {
					// fresh lists keep hitting initialisation while others insert
					a2 := listz.NewSkipList[int, int]()
					a2.Set(k, 1)
					var z listz.SkipList[int, int]
					z.Set(k, 1)
				}
			}
			if a.Len() != len(m) || b.Len() != len(m) {
				errs[t] = fmt.Sprintf("Len %d / %d, own model %d", a.Len(), b.Len(), len(m))
				return
			}
			prev := -1
			n := 0
			a.Range(func(k, v int) bool {
				if k <= prev || m[k] != v {
					errs[t] = fmt.Sprintf("Range out of order or wrong value at key %d", k)
					return false
				}
				prev = k
				n++
				return n <= len(m)
			})
			if errs[t] == "" && n != len(m) {
				errs[t] = fmt.Sprintf("Range enumerated %d of %d bindings", n, len(m))
			}
		}(t)
	}
	close(start)
	wg.Wait()
	c.Logf("%d goroutines x %d operations on private lists", g, per)
	for t, e := range errs {
		if e != "" {
			c.Failf("independent-lists-interfere", "goroutine %d: %s", t, e)
			return
		}
	}
	c.Add("parallel_private_list_goroutines", int64(g))
	c.Distinct(ev.Mix(uint64(g), uint64(per), seeds[0]))
	if c.WantSample() {
		c.Sample(fmt.Sprintf("parallel: %d goroutines, each %d Set/Remove on its own SkipList + SkipListWithCmp, then compared with its own map", g, per))
	}
}

func main() {
	r := ev.New("C02")
	r.Rule("one case = (list type and key type / comparator, zero value or constructed, height script, key space, seeded operation sequence incl. range queries with present/absent/out-of-range bounds and early-stopping callbacks); every result compared with a sorted-slice model; distinct = hash of the write sequence + variant + height script")
	r.Assume("tower heights are scripted by replacing the private *rand.Rand (field found by name, else by type); if it cannot be found the list's own randomness is used and counted as such")
	r.Assume("comparators return any negative / zero / positive int (difference, large magnitudes), not only -1/0/1")
	r.Assume("for the comparator that identifies keys modulo 7 the model also treats them as one key and compares keys up to that equivalence")
	r.Assume("SkipListWithCmp is only used after Init with a comparator; the zero-value clause is checked for SkipList")
	r.Cases("seq", r.N(40000, 2000000), ev.Opt{HangViolation: true}, seqCase)
	r.Cases("zero", r.N(3*len(zeroMethods)*2*4, 3*len(zeroMethods)*2*200), ev.Opt{HangViolation: true}, zeroCase)
	r.Cases("tall", r.N(3000, 150000), ev.Opt{HangViolation: true}, tallCase)
	r.Cases("waves", r.N(420, 12000), ev.Opt{HangViolation: true}, wavesCase)
	r.Require("waves", 800)
	r.Require("waves_ebb_below_64_after_peak_of_64_or_more", 700)
	r.Require("waves_ebb_below_64_after_peak_of_1024_or_more", 150)
	r.Require("waves_removed_key_probed_at_low_tide", 100000)
	r.Cases("parallel-private", r.N(40, 1000), ev.Opt{Workers: 2}, parallelCase)
	// the same under the race detector: state shared between lists that no goroutine shares is
	// reported from the happens-before relation, whether or not the accesses collide in this run
	r.CasesProc("parallel-private/race", r.N(8, 100), ev.Opt{Bin: "race", Procs: 2, Workers: 1, AlwaysLog: true}, parallelCase)
	r.CasesProc("seq/race-parallel", r.N(800, 20000), ev.Opt{Bin: "race", Procs: 2, Workers: 8, AlwaysLog: true, HangViolation: true, MaxCaseSeconds: 120}, seqCase)
	// cold start: one fresh process per case, so that whatever operation the case begins
	// with (on a zero value, a new list, a scripted list) is the first skip-list call of the process
	r.CasesProc("cold-start/seq", 16, ev.Opt{Procs: 16, HangViolation: true}, seqCase)
	r.CasesProc("cold-start/zero", 8, ev.Opt{Procs: 8, HangViolation: true}, zeroCase)
	// the exact named method as the first call on a zero value (in-process, and as the first
	// skip-list call of a fresh process: one process per method and before/after Clear)
	r.Cases("first-call", r.N(3*len(zeroMethods)*2*2, 3*len(zeroMethods)*2*100), ev.Opt{HangViolation: true}, firstCase)
	r.CasesProc("fresh-process-first-call", 2*len(zeroMethods), ev.Opt{Procs: 2 * len(zeroMethods), HangViolation: true}, firstCase)
	// comparators whose results are the extreme ints
	r.Cases("extreme-cmp", r.N(3000, 150000), ev.Opt{HangViolation: true}, extremeCmpCase)
	r.Require("full_enumerations", 10000)
	r.Require("inserts", 100000)
	r.Require("removals", 100000)
	r.Require("range_start_absent", 5000)
	r.Require("range_start_present", 5000)
	r.Require("zero_value_scripts", 100)
	r.Require("quiet_windows_closed", 3000)
	r.Require("kept_sequences_rerun", 5000)
	r.Require("tall_scripts_at_max_level", 100)
	for _, m := range zeroMethods {
		r.Require("zero_first_call/"+m, 8)
	}
	r.Require("zero_first_call_after_clear", 60)
	r.Require("zero_first_call_of_the_process", int64(2*len(zeroMethods)))
	r.Require("single_call_reads", 3000)
	r.Require("extreme_comparator_sequences", 2000)
	for _, v := range []string{"SkipList[int]", "SkipList[string]", "SkipList[float64]", "SkipListWithCmp[int]/natural", "SkipListWithCmp[int]/reversed",
		"SkipListWithCmp[string]/length-then-lex", "SkipListWithCmp[int]/mod7", "SkipListWithCmp[int]/difference", "SkipListWithCmp[int]/magnitudes",
		"SkipListWithCmp[int]/reversed-difference", "SkipListWithCmp[int]/extremes", "SkipListWithCmp[int]/reversed-extremes"} {
		r.Require("variant/"+v, 1000)
	}
	for _, m := range []string{"Set", "SetX", "SetNx", "Get+GetNode"} {
		r.Require("calls/"+m+"/key_present", 20000)
		r.Require("calls/"+m+"/key_absent", 20000)
	}
	r.Require("calls/Remove/key_absent", 20000)
	for _, m := range []string{"Range", "All", "RangeWithStart", "RangeWithRange"} {
		r.Require("early_stops/"+m, 10000)
	}
	r.Require("early_stops/RangeWithStart/at_present_start", 1000)
	r.Require("early_stops/RangeWithRange/keys_beyond_end_exist", 5000)
	r.Require("range_start_is_removed_key", 20000)
	r.Require("range_empty_interval", 20000)
	r.Require("rangewithrange_nonempty_start_present", 5000)
	r.Require("rangewithrange_nonempty_start_absent", 5000)
	r.Require("rangewithrange_cut_by_end", 5000)
	r.Finish()
}
