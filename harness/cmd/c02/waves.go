package main

import (
	"fmt"

	"verif/ev"
)

// Engine waves: the size of a list is driven in waves across plausible size
// thresholds: grown past 64 / 128 / 256 / 512 / 1024 / 2048 bindings (so that
// towers of every height exist), shrunk to a handful, worked on while it is
// small, grown again. A representation or fast path chosen by the current
// size must cope with what an earlier, larger life of the list left behind
// (tall towers in a small list), and the other way round. Everything is judged
// by the ordinary model: after the ebb every removed key must be absent, every
// kept key present, all enumerations and range queries exact.
var waveHighs = []int{66, 70, 130, 260, 520, 1030, 2050}
var waveLows = []int{0, 1, 2, 7, 15, 16, 31, 33, 60, 63}

func wavesCase(c *ev.Case) {
	rng := c.Rng
	variant := rng.Intn(10)
	var l omap
	var ord order
	var name string
	if !c.Guard("New", func() { l, ord, name = build(variant, false) }) {
		return
	}
	sc := &script{rng: rng.Fork(), mode: rng.Pick(0, 0, 2, 4, 5)}
	s := &sut{c: c, l: l, m: &model{ord: ord}, sc: sc}
	if rng.Bool() {
		s.plant = plant(l.Raw(), sc)
	}
	const keyspace = 4000
	s.maxKey = keyspace
	waves := rng.Range(2, 3)
	c.Logf("%s waves=%d planted=%v height-script=%d", name, waves, s.plant, sc.mode)
	for w := 0; w < waves; w++ {
		hi := waveHighs[(c.Index+w)%len(waveHighs)]
		lo := waveLows[rng.Intn(len(waveLows))]
		for tries := 0; len(s.m.b) < hi && tries < 6*hi; tries++ {
			if !s.opSet(rng.Intn(keyspace), 1+rng.Intn(900), 0) {
				return
			}
		}
		peak := len(s.m.b)
		if !s.enumerate() || !s.rangeQueries(2) {
			return
		}
		var gone []int
		for len(s.m.b) > lo {
			k := s.m.b[rng.Intn(len(s.m.b))].k
			if !s.opRemove(k) {
				return
			}
			gone = append(gone, k)
		}
		if peak >= 64 && len(s.m.b) < 64 {
			c.Add("waves_ebb_below_64_after_peak_of_64_or_more", 1)
		}
		if peak >= 1024 && len(s.m.b) < 64 {
			c.Add("waves_ebb_below_64_after_peak_of_1024_or_more", 1)
		}
		// low tide: every removed key (a sample of them when there are many), every kept key
		probe := gone
		if len(probe) > 400 {
			probe = probe[len(probe)-400:] // the last ones removed left when the list was smallest
		}
		for _, k := range probe {
			if !s.opGet(k) {
				return
			}
			c.Add("waves_removed_key_probed_at_low_tide", 1)
		}
		for i := 0; i < len(s.m.b); i++ {
			if !s.opGet(s.m.b[i].k) {
				return
			}
		}
		if !s.enumerate() || !s.rangeQueries(3) {
			return
		}
		// life as a small list: the keys it has, the keys it had, new ones
		for i := 0; i < 60; i++ {
			var k int
			switch {
			case len(gone) > 0 && rng.Chance(2, 5):
				k = gone[rng.Intn(len(gone))]
			case len(s.m.b) > 0 && rng.Chance(1, 2):
				k = s.m.b[rng.Intn(len(s.m.b))].k
			default:
				k = rng.Intn(keyspace)
			}
			ok := true
			switch rng.Intn(5) {
			case 0:
				ok = s.opSet(k, 1+rng.Intn(900), rng.Intn(3))
			case 1, 2:
				ok = s.opRemove(k)
				gone = append(gone, k)
			case 3:
				ok = s.opGet(k)
			default:
				ok = s.rangeQueries(1)
			}
			if !ok {
				return
			}
		}
		if !s.enumerate() {
			return
		}
		c.Add("waves", 1)
		c.Add(fmt.Sprintf("waves_peak_%d", hi), 1)
	}
	for len(s.m.b) > 0 {
		if !s.opRemove(s.m.b[rng.Intn(len(s.m.b))].k) {
			return
		}
	}
	if !s.enumerate() {
		return
	}
	c.Distinct(ev.Mix(s.hash, uint64(variant), 77))
	if c.WantSample() {
		c.Sample(fmt.Sprintf("%s: %d waves (peaks from %v, ebbs to %v), low-tide probes of removed and kept keys, max level %d", name, waves, waveHighs, waveLows, s.lvl))
	}
}
