package main

// Engine "knapsack/exactfill": limits from 2^16 up to a little above 2^21 (where an
// implementation may switch from the dense table to a sparse list of states), items made
// by cutting the limit itself into parts, so that the best selection loads the knapsack
// to exactly the limit — at the moment its last item is added the running load equals
// maxWeight — next to distractors that are one unit too heavy or too light. At most 12
// items, so the optimum is known from all 2^n selections. Few cases: the unchanged
// implementation keeps one cell per unit of weight.

import (
	"fmt"

	"github.com/welllog/golib/algz"

	"verif/ev"
)

func exactFillKnapsackCase(c *ev.Case) {
	rng := c.Rng
	limit := rng.Pick(1<<16, 1<<18, 1<<20-1, 1<<20, 1<<20+1, 1<<20, 1<<20+4096, 3<<19, 1<<21, 1<<21+7, 1000000, 1048576+524288, 2000000)
	parts := rng.Range(2, 5)
	var w []int
	switch rng.Intn(3) {
	case 0: // equal halves / thirds / ... (remainder on the last part)
		for i := 0; i < parts; i++ {
			w = append(w, limit/parts)
		}
		w[parts-1] += limit - (limit/parts)*parts
	case 1: // powers of two downwards, the last part doubled up to the limit
		rest := limit
		for i := 0; i < parts-1; i++ {
			p := rest / 2
			w = append(w, p)
			rest -= p
		}
		w = append(w, rest)
	default: // random cut points
		rest := limit
		for i := 0; i < parts-1; i++ {
			p := rng.Range(1, rest-(parts-1-i))
			w = append(w, p)
			rest -= p
		}
		w = append(w, rest)
	}
	exact := len(w)
	// distractors: near-copies that do not fit together with the rest, and light items
	for len(w) < rng.Range(exact+1, 9) {
		switch rng.Intn(4) {
		case 0:
			w = append(w, w[rng.Intn(exact)]+1)
		case 1:
			if x := w[rng.Intn(exact)] - 1; x > 0 {
				w = append(w, x)
			}
		case 2:
			w = append(w, limit+rng.Range(0, 2))
		default:
			w = append(w, rng.Range(1, limit/3))
		}
	}
	// order: the exact parts first, last, or shuffled in between
	switch rng.Intn(3) {
	case 0:
	case 1:
		for i, j := 0, len(w)-1; i < j; i, j = i+1, j-1 {
			w[i], w[j] = w[j], w[i]
		}
	default:
		p := rng.Perm(len(w))
		nw := make([]int, len(w))
		for i, j := range p {
			nw[i] = w[j]
		}
		w = nw
	}
	// values: proportional to the weight (the exact fill is the unique kind of optimum), or
	// weight+1 (more items are better), or small random values
	items := make([]item, len(w))
	mode := rng.Intn(3)
	for i := range w {
		v := w[i]
		switch mode {
		case 1:
			v = w[i] + 1
		case 2:
			v = w[i]/1000 + rng.Range(1, 5)
		}
		items[i] = item{ID: i, W: w[i], V: v}
	}
	// brute force over all selections
	opt, optLoad := 0, 0
	n := len(items)
	for m := 0; m < 1<<n; m++ {
		sw, sv := 0, 0
		for i := 0; i < n; i++ {
			if m>>i&1 == 1 {
				sw += items[i].W
				sv += items[i].V
			}
		}
		if sw <= limit && (sv > opt || (sv == opt && sw > optLoad)) {
			opt, optLoad = sv, sw
		}
	}
	c.Add("kx_instances", 1)
	if limit >= 1<<20 {
		c.Add("kx_limit_at_least_2^20", 1)
	}
	if optLoad == limit {
		c.Add("kx_optimum_fills_exactly", 1)
		if limit >= 1<<20 {
			c.Add("kx_optimum_fills_exactly_at_least_2^20", 1)
		}
	}
	wf := func(it item) int { return it.W }
	vf := func(it item) int { return it.V }
	salt := rng.Uint64()
	for _, bk := range []int{0, rng.Range(1, 5)} {
		var st brStat
		br := mkBreaker(bk, salt, &st)
		in, inputIntact := input(c, "ks-exactfill", items)
		desc := fmt.Sprintf("Knapsack(limit=%d, items=%s, tieBreaker=%s)", limit, fmtItems(items), breakerNames[bk])
		k := ssKept{items: items, limit: limit, opt: opt, bk: bk}
		if !c.Guard("Knapsack", func() {
			if br == nil {
				k.got = algz.Knapsack(limit, in, wf, vf)
			} else {
				k.got = algz.Knapsack(limit, in, wf, vf, br)
			}
		}) {
			return
		}
		if c.Logging() {
			c.Logf("%s -> %s", desc, fmtItems(k.got))
		}
		if !inputIntact(func() string { return desc }) || !judgeKs(c, "ks-exactfill", &k, desc) {
			return
		}
		c.Add("kx_calls", 1)
	}
	c.Distinct(hashItems('x', limit, items))
	if c.WantSample() {
		c.Sample(fmt.Sprintf("exact-fill Knapsack: %d items (%d of them cut from the limit), limit %d: optimum %d at load %d (all 2^%d selections); 2 tie-breaker settings returned valid optimal selections", n, exact, limit, opt, optLoad, n))
	}
}
