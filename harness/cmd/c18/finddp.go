package main

import (
	"fmt"
	"sort"

	"github.com/welllog/golib/algz"

	"verif/ev"
)

// genTotals returns the value list and maxValue for FindDpSolvers.
func genTotals(rng *ev.Rand, maxN int, wide bool) ([]item, int) {
	var n, s int
	if wide {
		n = rng.Range(11, 22)
		s = rng.Pick(3, 10, 40)
	} else {
		switch {
		case rng.Chance(1, 40):
			n = 0
		case rng.Chance(1, 3):
			n = rng.Range(maxN-3, maxN)
		default:
			n = rng.Range(1, maxN)
		}
		s = rng.Pick(2, 4, 8, 16, 30)
	}
	v := make([]int, n)
	switch rng.Intn(7) {
	case 0:
		for i := range v {
			v[i] = rng.Range(1, s)
		}
	case 1: // alphabet of 1..3 values: many equal sums in many orders
		k := rng.Range(1, 3)
		al := make([]int, k)
		for i := range al {
			al[i] = rng.Range(1, s)
		}
		for i := range v {
			v[i] = al[rng.Intn(k)]
		}
	case 2: // all equal
		x := rng.Range(1, s)
		for i := range v {
			v[i] = x
		}
	case 3: // 1..n in seeded order
		p := rng.Perm(n)
		for i := range v {
			v[i] = p[i] + 1
		}
	case 4: // distinct subset sums (powers of two, capped)
		p := rng.Perm(n)
		for i := range v {
			v[i] = 1 << uint(p[i]%9)
		}
	case 5: // multiples of a stride: gaps between attainable totals
		st := rng.Range(2, 7)
		for i := range v {
			v[i] = st * rng.Range(1, 4)
		}
	default: // one large, rest small
		for i := range v {
			v[i] = rng.Range(1, 3)
		}
		if n > 0 {
			v[rng.Intn(n)] = rng.Range(s, 3*s)
		}
	}
	sum, minV := 0, 1<<30
	for _, x := range v {
		sum += x
		if x < minV {
			minV = x
		}
	}
	if n == 0 {
		minV = 1
	}
	var m int
	switch rng.Intn(12) {
	case 0:
		m = 0
	case 1:
		m = rng.Range(1, s)
	case 2:
		m = sum
	case 3:
		m = sum - 1
	case 4:
		m = sum + rng.Range(1, 4)
	case 5:
		m = sum / 2
	case 6:
		m = minV - 1
	case 7:
		m = sum / 3
	case 8:
		if rng.Chance(1, 4) {
			m = -rng.Range(1, 3)
		} else {
			m = rng.Range(0, sum+2)
		}
	default:
		m = rng.Range(0, sum+2)
	}
	items := make([]item, n)
	for i := range items {
		items[i] = item{ID: i, V: v[i]}
	}
	return items, m
}

// attainTable: reach[t] = some selection has total exactly t (two-row boolean table).
func attainTable(items []item) []bool {
	sum := 0
	for _, it := range items {
		sum += it.V
	}
	prev := make([]bool, sum+1)
	cur := make([]bool, sum+1)
	prev[0] = true
	for _, it := range items {
		for t := 0; t <= sum; t++ {
			cur[t] = prev[t] || (t >= it.V && prev[t-it.V])
		}
		prev, cur = cur, prev
	}
	return prev
}

// totals answers the oracle's questions about the attainable totals.
type totals struct {
	reach []bool // index 0..sum
}

func (t *totals) attain(q int) bool { return q >= 0 && q < len(t.reach) && t.reach[q] }

// floor: largest attainable total <= q (q >= 0; 0 is always attainable).
func (t *totals) floor(q int) int {
	if q >= len(t.reach) {
		q = len(t.reach) - 1
	}
	for ; q > 0; q-- {
		if t.reach[q] {
			return q
		}
	}
	return 0
}

// above: smallest attainable total > q, or -1.
func (t *totals) above(q int) int {
	x := q + 1
	if x < 0 {
		x = 0
	}
	for ; x < len(t.reach); x++ {
		if t.reach[x] {
			return x
		}
	}
	return -1
}

func sortedKeys(dp algz.DpSolvers[item]) []int {
	keys := make([]int, 0, len(dp))
	for k := range dp {
		keys = append(keys, k)
	}
	sort.Ints(keys)
	return keys
}

func fmtSolvers(dp algz.DpSolvers[item]) string {
	keys := sortedKeys(dp)
	s := "{"
	for i, k := range keys {
		if i >= 40 {
			s += fmt.Sprintf(" …(%d more)", len(keys)-i)
			break
		}
		if i > 0 {
			s += " "
		}
		s += fmt.Sprintf("%d:%s", k, fmtVals(clip(dp[k])))
	}
	return s + "}"
}

func findDpCase(wide bool) func(c *ev.Case) {
	return func(c *ev.Case) {
		rng := c.Rng
		maxN := 10
		if c.Thorough() {
			maxN = 14
		}
		items, maxValue := genTotals(rng, maxN, wide)
		n := len(items)
		salt := rng.Uint64()
		qseed := rng.Uint64()

		// ---- oracle
		tt := &totals{reach: attainTable(items)}
		sum := len(tt.reach) - 1
		multi := false // some total is attained by several selections
		if !wide {
			vs := make([]int, n)
			for i, it := range items {
				vs[i] = it.V
			}
			cnt := make([]int32, sum+1)
			for _, s := range subsetSums(vs) {
				cnt[s]++
			}
			for t := 0; t <= sum; t++ {
				if (cnt[t] > 0) != tt.reach[t] {
					c.Run().HarnessFailure(fmt.Sprintf("finddp oracle self-check: enumeration and table disagree on total %d for values %s", t, fmtVals(items)))
					return
				}
				if cnt[t] > 1 {
					multi = true
				}
			}
		}
		minOver := tt.above(maxValue) // smallest attainable total above maxValue, -1 if none

		c.Add("fd_instances", 1)
		if n == 0 {
			c.Add("fd_empty_input", 1)
		}
		switch {
		case maxValue < 0:
			c.Add("fd_max_negative", 1)
		case maxValue == 0:
			c.Add("fd_max_zero", 1)
		case maxValue >= sum:
			c.Add("fd_max_at_or_above_sum_of_all", 1)
		}
		if tt.attain(maxValue) {
			c.Add("fd_max_attainable", 1)
		} else {
			c.Add("fd_max_not_attainable", 1)
		}
		if minOver < 0 {
			c.Add("fd_no_overshoot_possible", 1)
		}
		if multi {
			c.Add("fd_instances_with_equal_sums", 1)
		}
		seenV := map[int]int{}
		for _, it := range items {
			if it.V > maxValue {
				c.Add("fd_items_above_max", 1) // "items heavier than the limit"
			}
			seenV[it.V]++
		}
		for _, k := range seenV {
			if k > 1 {
				c.Add("fd_equal_value_groups", 1)
			}
		}
		c.Max("fd_max_items", int64(n))
		c.Max("fd_max_maxValue", int64(maxValue))

		vf := func(it item) int { return it.V }

		for _, allow := range []bool{false, true} {
			for bk := 0; bk < len(breakerNames); bk++ {
				var st brStat
				br := mkBreaker(bk, salt, &st)
				in, inputIntact := input(c, "fd", items)
				call := func() string {
					return fmt.Sprintf("FindDpSolvers(maxValue=%d, values=%s, allowOverOnce=%v, tieBreaker=%s)", maxValue, fmtVals(items), allow, breakerNames[bk])
				}
				if c.Logging() {
					c.Logf("%s ...", call())
				}
				var dp algz.DpSolvers[item]
				if !c.Guard("FindDpSolvers", func() {
					if br == nil {
						dp = algz.FindDpSolvers(maxValue, in, vf, allow)
					} else {
						dp = algz.FindDpSolvers(maxValue, in, vf, allow, br)
					}
				}) {
					return
				}
				if c.Logging() {
					c.Logf("  -> %s   [breaker calls %d, replaced %d]", fmtSolvers(dp), st.calls, st.replaced)
				}
				if !inputIntact(call) {
					return
				}
				c.Add("fd_calls", 1)
				if allow {
					c.Add("fd_calls_overflow_allowed", 1)
				}
				c.Add("fd_breaker_calls", st.calls)
				c.Add("fd_breaker_replaced_old", st.replaced)          // old cell list goes to the pool
				c.Add("fd_breaker_rejected_new", st.calls-st.replaced) // fresh list goes back to the pool
				ctx := func() string { return call() + " returned " + fmtSolvers(dp) }

				// (1) every entry present is a selection without repeats summing exactly to its key
				keys := sortedKeys(dp)
				above := 0
				for _, k := range keys {
					s, ok := checkSel(c, "fd/entry", func() string { return fmt.Sprintf("entry for total %d ; %s", k, ctx()) }, items, dp[k])
					if !ok {
						return
					}
					if s.v != k {
						c.Failf("fd/entry-sum", "entry for total %d is %s which sums to %d ; %s", k, fmtVals(dp[k]), s.v, ctx())
						return
					}
					if k > maxValue {
						above++
					}
				}
				c.Add("fd_entries_checked", int64(len(keys)))
				c.Max("fd_max_entries", int64(len(keys)))
				if above > 1 {
					c.Add("fd_maps_with_several_overshoot_keys", 1)
				}
				if !allow && above > 0 {
					c.Add("fd_overshoot_keys_without_permission", 1) // not promised either way; evidence only
				}

				// (2) every attainable total <= maxValue has an entry
				hi := maxValue
				if hi > sum {
					hi = sum
				}
				for t := 0; t <= hi; t++ {
					if !tt.reach[t] {
						continue
					}
					if _, ok := dp[t]; !ok {
						c.Failf("fd/missing-total", "total %d is attainable and <= maxValue %d but has no entry ; %s", t, maxValue, ctx())
						return
					}
					c.Add("fd_attainable_totals_found", 1)
				}

				// (3) with overflow allowed the smallest attainable total above maxValue has an entry
				if allow && minOver >= 0 {
					if _, ok := dp[minOver]; !ok {
						c.Failf("fd/missing-overshoot", "overflow allowed: the smallest attainable total above maxValue %d is %d but it has no entry ; %s", maxValue, minOver, ctx())
						return
					}
					c.Add("fd_overshoot_required_present", 1)
				}

				// (4) Best / BestAllowMinOverflow, at maxValue and at smaller arguments
				var qs []int
				qs = append(qs, maxValue)
				if maxValue > 0 {
					if maxValue <= 40 {
						for q := 0; q < maxValue; q++ {
							qs = append(qs, q)
						}
					} else {
						qr := ev.NewRand(qseed)
						for k := 0; k < 10; k++ {
							qs = append(qs, qr.Intn(maxValue))
						}
					}
				}
				for _, q := range qs {
					if q >= 0 {
						var got []item
						if !c.Guard("Best", func() { got = dp.Best(q) }) {
							return
						}
						want := tt.floor(q)
						if c.Logging() {
							c.Logf("  Best(%d) -> %s (largest attainable total <= %d is %d)", q, fmtVals(clip(got)), q, want)
						}
						s, ok := checkSel(c, "fd/best", func() string { return fmt.Sprintf("Best(%d) ; %s", q, ctx()) }, items, got)
						if !ok {
							return
						}
						if s.v != want {
							sig := "fd/best-total"
							if q != maxValue {
								sig = "fd/best-total-below-max"
							}
							c.Failf(sig, "Best(%d) returned %s with total %d; the largest attainable total <= %d is %d ; %s", q, fmtVals(got), s.v, q, want, ctx())
							return
						}
						c.Add("fd_best_queries", 1)
						if want == q {
							c.Add("fd_best_exact", 1)
						} else {
							c.Add("fd_best_nearest_below", 1)
						}
					}
					// BestAllowMinOverflow: exact if attainable, else the smallest overshoot, else the largest attainable
					want, kind := 0, ""
					ab := tt.above(q)
					switch {
					case tt.attain(q):
						want, kind = q, "exact"
					case ab >= 0 && (allow || ab <= maxValue):
						want, kind = ab, "overshoot"
					case ab < 0 && q >= 0:
						want, kind = tt.floor(q), "fallback"
					default:
						// overflow not allowed and the smallest overshoot lies above maxValue: the map
						// is not promised to contain it, nothing to decide
						c.Add("fd_bamo_undetermined_skipped", 1)
						continue
					}
					var got []item
					if !c.Guard("BestAllowMinOverflow", func() { got = dp.BestAllowMinOverflow(q) }) {
						return
					}
					if c.Logging() {
						c.Logf("  BestAllowMinOverflow(%d) -> %s (expected total %d, %s)", q, fmtVals(clip(got)), want, kind)
					}
					s, ok := checkSel(c, "fd/bamo", func() string { return fmt.Sprintf("BestAllowMinOverflow(%d) ; %s", q, ctx()) }, items, got)
					if !ok {
						return
					}
					if s.v != want {
						sig := "fd/bamo-total"
						if q != maxValue {
							sig = "fd/bamo-total-below-max"
						}
						c.Failf(sig, "BestAllowMinOverflow(%d) returned %s with total %d; expected %d (%s: exact total if attainable, else smallest attainable total above, else largest attainable) ; %s", q, fmtVals(got), s.v, want, kind, ctx())
						return
					}
					c.Add("fd_bamo_queries", 1)
					switch kind {
					case "exact":
						c.Add("fd_bamo_exact_answers", 1)
					case "overshoot":
						c.Add("fd_bamo_overshoot_answers", 1)
						if ab > maxValue {
							c.Add("fd_bamo_overshoot_beyond_max", 1)
						}
					default:
						c.Add("fd_bamo_fallback_largest", 1)
					}
				}
			}
		}
		if n >= 2 {
			k := uint64('F')
			if wide {
				k = 'G'
			}
			c.Distinct(hashItems(k, maxValue, items))
		}
		if c.WantSample() {
			c.Sample(fmt.Sprintf("FindDpSolvers maxValue=%d values=%s: attainable totals up to %d, smallest overshoot %d; 2x6 settings: all entries valid, all attainable totals present, Best/BestAllowMinOverflow exact", maxValue, fmtVals(items), tt.floor(max(maxValue, 0)), minOver))
		}
	}
}
