package main

import (
	"fmt"
	"math"

	"github.com/welllog/golib/algz"

	"verif/ev"
)

func genWeights(rng *ev.Rand, n, s int) []int {
	w := make([]int, n)
	switch rng.Intn(6) {
	case 0:
		for i := range w {
			w[i] = rng.Range(0, s)
		}
	case 1: // alphabet of 1..3 weights: many equal weights
		k := rng.Range(1, 3)
		al := make([]int, k)
		for i := range al {
			al[i] = rng.Range(0, s)
		}
		for i := range w {
			w[i] = al[rng.Intn(k)]
		}
	case 2: // positive with a quarter of zeros
		for i := range w {
			if rng.Chance(1, 4) {
				w[i] = 0
			} else {
				w[i] = rng.Range(1, s)
			}
		}
	case 3: // 1..n in seeded order
		p := rng.Perm(n)
		for i := range w {
			w[i] = p[i] + 1
		}
	case 4: // all equal
		x := rng.Range(1, s)
		for i := range w {
			w[i] = x
		}
	default: // small
		for i := range w {
			w[i] = rng.Range(1, 3)
		}
	}
	return w
}

func genValues(rng *ev.Rand, w []int) []int {
	v := make([]int, len(w))
	switch rng.Intn(6) {
	case 0:
		for i := range v {
			v[i] = rng.Range(1, 20)
		}
	case 1:
		k := rng.Range(1, 3)
		al := make([]int, k)
		for i := range al {
			al[i] = rng.Range(1, 9)
		}
		for i := range v {
			v[i] = al[rng.Intn(k)]
		}
	case 2: // value = weight: every filling of the same weight ties
		for i := range v {
			v[i] = w[i]
			if v[i] < 1 {
				v[i] = 1
			}
		}
	case 3: // affine in the weight
		a, b := rng.Range(1, 3), rng.Range(1, 2)
		for i := range v {
			v[i] = a*w[i] + b
		}
	case 4:
		for i := range v {
			v[i] = 1
		}
	default:
		for i := range v {
			v[i] = rng.Range(1, 3)
		}
	}
	return v
}

// genKnapsack returns the item list and the limit.
func genKnapsack(rng *ev.Rand, maxN int, wide bool) ([]item, int) {
	var n, s int
	if wide {
		n = rng.Range(11, 40)
		s = rng.Pick(3, 10, 25, 60)
	} else {
		switch {
		case rng.Chance(1, 40):
			n = 0
		case rng.Chance(1, 3):
			n = rng.Range(maxN-3, maxN)
		default:
			n = rng.Range(1, maxN)
		}
		s = rng.Pick(2, 4, 8, 16, 30)
	}
	w := genWeights(rng, n, s)
	v := genValues(rng, w)
	sum, minW := 0, 1<<30
	for _, x := range w {
		sum += x
		if x < minW {
			minW = x
		}
	}
	if n == 0 {
		minW = 0
	}
	var limit int
	switch rng.Intn(10) {
	case 0:
		limit = 0
	case 1:
		limit = rng.Range(1, s)
	case 2:
		limit = rng.Range(s, 3*s)
	case 3:
		limit = sum
	case 4:
		limit = sum - 1
	case 5:
		limit = sum / 2
	case 6:
		limit = sum + rng.Range(1, 5)
	case 7:
		limit = minW - 1
	case 8:
		limit = rng.Range(0, sum+1)
	default:
		limit = sum / 3
	}
	if limit < 0 {
		limit = 0
	}
	if limit > 900 {
		limit = 900
	}
	if n > 0 && rng.Chance(1, 3) { // items heavier than the limit
		for k := rng.Range(1, 2); k > 0; k-- {
			w[rng.Intn(n)] = limit + rng.Range(1, 6)
		}
	}
	if n > 0 && rng.Chance(1, 12) { // "unliftable" items: weights at the top of the int range
		for k := rng.Range(1, 3); k > 0; k-- {
			w[rng.Intn(n)] = rng.Pick(math.MaxInt, math.MaxInt-1, 1<<62, 1<<62+1, 1<<61, math.MaxInt/2+1, 1<<32, 1<<31)
		}
	}
	items := make([]item, n)
	for i := range items {
		items[i] = item{ID: i, W: w[i], V: v[i]}
	}
	return items, limit
}

// tableOpt is the textbook two-row 0-1 knapsack value table (no item lists, no
// in-place update, so neither loop direction nor aliasing can go wrong in it).
func tableOpt(items []item, limit int) int {
	prev := make([]int, limit+1)
	cur := make([]int, limit+1)
	for _, it := range items {
		for c := 0; c <= limit; c++ {
			cur[c] = prev[c]
			if it.W <= c {
				if x := prev[c-it.W] + it.V; x > cur[c] {
					cur[c] = x
				}
			}
		}
		prev, cur = cur, prev
	}
	return prev[limit]
}

func knapsackCase(wide bool) func(c *ev.Case) {
	return func(c *ev.Case) {
		rng := c.Rng
		maxN := 10
		if c.Thorough() {
			maxN = 14
		}
		items, limit := genKnapsack(rng, maxN, wide)
		n := len(items)
		salt := rng.Uint64()

		// ---- oracle
		opt := tableOpt(items, limit)
		nOpt := -1
		if !wide {
			ws := make([]int, n)
			vs := make([]int, n)
			for i, it := range items {
				ws[i], vs[i] = it.W, it.V
				if ws[i] > limit { // infeasible either way; clamped so that subset sums cannot overflow
					ws[i] = limit + 1
				}
			}
			sw, sv := subsetSums(ws), subsetSums(vs)
			best := 0
			nOpt = 0
			for m := range sw {
				if sw[m] > limit {
					continue
				}
				if sv[m] > best {
					best, nOpt = sv[m], 1
				} else if sv[m] == best {
					nOpt++
				}
			}
			if best != opt {
				c.Run().HarnessFailure(fmt.Sprintf("knapsack oracle self-check: enumeration optimum %d != table optimum %d for limit %d items %s", best, opt, limit, fmtItems(items)))
				return
			}
		}

		// ---- input-class coverage
		c.Add("ks_instances", 1)
		if n == 0 {
			c.Add("ks_empty_input", 1)
		}
		if limit == 0 {
			c.Add("ks_limit_zero", 1)
		}
		sumW := 0
		seenW := map[int]int{}
		seenV := map[int]int{}
		for _, it := range items {
			if it.W > math.MaxInt-sumW {
				sumW = math.MaxInt
			} else {
				sumW += it.W
			}
			if it.W == 0 {
				c.Add("ks_zero_weight_items", 1)
			}
			if it.W > limit {
				c.Add("ks_overweight_items", 1)
			}
			if it.W == limit {
				c.Add("ks_items_exactly_filling_limit", 1)
			}
			seenW[it.W]++
			seenV[it.V]++
		}
		for _, k := range seenW {
			if k > 1 {
				c.Add("ks_equal_weight_groups", 1)
			}
		}
		for _, k := range seenV {
			if k > 1 {
				c.Add("ks_equal_value_groups", 1)
			}
		}
		if n > 0 && sumW <= limit {
			c.Add("ks_everything_fits", 1)
		}
		if n > 0 && opt == 0 {
			c.Add("ks_nothing_fits", 1)
		}
		if nOpt > 1 {
			c.Add("ks_instances_with_several_optima", 1)
		}
		c.Max("ks_max_items", int64(n))
		c.Max("ks_max_limit", int64(limit))

		wf := func(it item) int { return it.W }
		vf := func(it item) int { return it.V }

		for bk := 0; bk < len(breakerNames); bk++ {
			var st brStat
			br := mkBreaker(bk, salt, &st)
			in, inputIntact := input(c, "ks", items) // golib gets a private copy
			ctx := func() string {
				return fmt.Sprintf("Knapsack(limit=%d, items=%s, tieBreaker=%s), optimum value %d", limit, fmtItems(items), breakerNames[bk], opt)
			}
			if c.Logging() {
				c.Logf("Knapsack(limit=%d, items=%s, tieBreaker=%s) ...", limit, fmtItems(items), breakerNames[bk])
			}
			var got []item
			if !c.Guard("Knapsack", func() {
				if br == nil {
					got = algz.Knapsack(limit, in, wf, vf)
				} else {
					got = algz.Knapsack(limit, in, wf, vf, br)
				}
			}) {
				return
			}
			if c.Logging() {
				c.Logf("  -> %s   [breaker calls %d, replaced %d]", fmtItems(clip(got)), st.calls, st.replaced)
			}
			if !inputIntact(ctx) {
				return
			}
			c.Add("ks_calls", 1)
			c.Add("ks_breaker_calls", st.calls)
			c.Add("ks_breaker_replaced", st.replaced)
			c.Add("ks_breaker_kept", st.calls-st.replaced)
			s, ok := checkSel(c, "ks", ctx, items, got)
			if !ok {
				return
			}
			if s.w > limit {
				c.Failf("ks/overweight", "returned selection %s weighs %d > limit %d ; %s", fmtItems(got), s.w, limit, ctx())
				return
			}
			if s.v != opt {
				c.Failf("ks/not-optimal", "returned selection %s has value %d (weight %d) but the best selection within the limit has value %d ; %s", fmtItems(got), s.v, s.w, opt, ctx())
				return
			}
			if len(got) > 0 {
				c.Add("ks_nonempty_results", 1)
			}
		}
		if n >= 2 {
			k := uint64('K')
			if wide {
				k = 'W'
			}
			c.Distinct(hashItems(k, limit, items))
		}
		if c.WantSample() {
			ties := "value table"
			if nOpt >= 0 {
				ties = fmt.Sprintf("%d optimal selections among all 2^%d", nOpt, n)
			}
			c.Sample(fmt.Sprintf("Knapsack limit=%d items=%s: optimum %d (%s), 6 tie-breaker settings all returned valid optimal selections", limit, fmtItems(items), opt, ties))
		}
	}
}
