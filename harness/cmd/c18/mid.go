package main

import (
	"fmt"
	"sort"

	"github.com/welllog/golib/algz"

	"verif/ev"
)

// Engines for the size classes BETWEEN the brute/wide engines and the big ones,
// and for a shape of graph none of them produces.
//
// The wide engines stop at 40 items (Knapsack), 22 values (FindDpSolvers) and
// 16 (thorough 20) vertices; the big engines start at 65. A solver that treats
// "at most 64 items / vertices" specially (one machine word per selection or
// per neighbourhood, a block carved into per-cell windows, a fixed-size local
// copy) and slips in the upper part of that range - index 32 and above, exactly
// 64, more than 48 of 64 - is in neither. knapsack/mid, finddp/mid and
// cliques/mid fill 41..64 items, 23..64 values and exactly 17..64 vertices.
//
// Every graph of the other clique engines is small (<= 20 vertices) or a
// disjoint union of components of at most 13 vertices, so no vertex ever has
// more than 19 neighbours. cliques/hubs builds connected graphs of up to a few
// hundred vertices in which some vertices have 65..300 neighbours, with the
// family of maximal cliques known from the construction (and every returned set
// also decided by the definition of a maximal clique).
//
// The two item engines also pass "no tie-breaker" as an explicit nil function
// value in half of their calls; all other engines leave the argument out.

func pickMidN(rng *ev.Rand, lo int) int {
	n := rng.Pick(31, 32, 33, 40, 41, 47, 48, 49, 50, 56, 60, 62, 63, 64, 64)
	if n < lo || rng.Chance(1, 3) {
		n = rng.Range(lo, 64)
	}
	return n
}

func midKnapsackCase(c *ev.Case) {
	rng := c.Rng
	n := pickMidN(rng, 41)
	shape := 0
	if rng.Chance(1, 4) {
		shape = 1
	}
	w := make([]int, n)
	var limit int
	if shape == 0 { // light items: selections of nearly all items
		k := rng.Pick(1, 2, 3, 5)
		sum := 0
		for i := range w {
			if !rng.Chance(1, 20) {
				w[i] = rng.Range(1, k)
			}
			sum += w[i]
		}
		switch rng.Intn(5) {
		case 0:
			limit = sum
		case 1, 2:
			limit = sum - rng.Range(1, 3)
		case 3:
			limit = sum * rng.Range(5, 9) / 10
		default:
			limit = sum + 2
		}
		if limit < 0 {
			limit = 0
		}
	} else { // limits between those of the wide and the big engine
		limit = rng.Pick(1023, 1024, 1025, 2047, 2048, 2049, 4000)
		if rng.Bool() {
			limit = rng.Range(901, 4094)
		}
		for i := range w {
			w[i] = rng.Range(1, 3*limit/n+1)
			if rng.Chance(1, 12) {
				w[i] = limit + rng.Range(0, 3)
			}
		}
	}
	v := genValues(rng, w)
	items := make([]item, n)
	for i := range items {
		items[i] = item{ID: i, W: w[i], V: v[i]}
	}
	salt := rng.Uint64()
	opt := tableOpt(items, limit)
	c.Add("km_instances", 1)
	if n > 48 {
		c.Add("km_instances_with_49_to_64_items", 1)
	}
	if n == 64 {
		c.Add("km_instances_with_exactly_64_items", 1)
	}
	if limit > 900 && limit < 4095 {
		c.Add("km_limit_901_to_4094", 1)
	}
	wf := func(it item) int { return it.W }
	vf := func(it item) int { return it.V }
	for _, bk := range []int{0, rng.Range(1, 5)} {
		var st brStat
		br := mkBreaker(bk, salt, &st)
		explicitNil := bk == 0 && rng.Bool()
		name := breakerNames[bk]
		if explicitNil {
			name = "nil (passed explicitly)"
		}
		in, inputIntact := input(c, "ks-mid", items)
		desc := fmt.Sprintf("Knapsack(limit=%d, %d items=%s, tieBreaker=%s)", limit, n, fmtItems(items), name)
		k := ssKept{items: items, limit: limit, opt: opt, bk: bk}
		if !c.Guard("Knapsack", func() {
			if br == nil && !explicitNil {
				k.got = algz.Knapsack(limit, in, wf, vf)
			} else {
				k.got = algz.Knapsack(limit, in, wf, vf, br) // br may be a nil func value
			}
		}) {
			return
		}
		if c.Logging() {
			c.Logf("%s -> %d items %s", desc, len(k.got), fmtItems(clip(k.got)))
		}
		if !inputIntact(func() string { return desc }) || !judgeKs(c, "ks-mid", &k, desc) {
			return
		}
		c.Add("km_calls", 1)
		if explicitNil {
			c.Add("km_calls_with_explicit_nil_breaker", 1)
		}
		if len(k.got) > 32 {
			c.Add("km_selections_longer_than_32", 1)
		}
		if len(k.got) > 48 {
			c.Add("km_selections_longer_than_48", 1)
		}
		c.Max("km_max_selection_len", int64(len(k.got)))
	}
	c.Distinct(hashItems('m', limit, items))
	if c.WantSample() {
		c.Sample(fmt.Sprintf("mid Knapsack shape %d: %d items, limit %d: optimum %d (value table); 2 tie-breaker settings returned valid optimal selections", shape, n, limit, opt))
	}
}

func midFindDpCase(c *ev.Case) {
	rng := c.Rng
	n := pickMidN(rng, 23)
	v := make([]int, n)
	k := rng.Pick(1, 2, 3)
	for i := range v {
		v[i] = rng.Range(1, k)
	}
	if rng.Chance(1, 3) { // a few larger values: gaps between the totals
		for j := rng.Range(1, 3); j > 0; j-- {
			v[rng.Intn(n)] = rng.Range(5, 40)
		}
	}
	sum := 0
	for _, x := range v {
		sum += x
	}
	maxValue := rng.Pick(sum, sum-1, sum+1, sum*3/4, sum/2)
	items := make([]item, n)
	for i := range items {
		items[i] = item{ID: i, V: v[i]}
	}
	salt := rng.Uint64()
	orc := &totals{reach: attainTable(items)}
	c.Add("fm_instances", 1)
	if n > 32 {
		c.Add("fm_instances_with_33_to_64_values", 1)
	}
	if n > 48 {
		c.Add("fm_instances_with_49_to_64_values", 1)
	}
	if n == 64 {
		c.Add("fm_instances_with_exactly_64_values", 1)
	}
	for _, allow := range []bool{false, true} {
		for _, bk := range []int{0, rng.Range(1, 5)} {
			explicitNil := bk == 0 && rng.Bool()
			if explicitNil {
				bk = -1
			}
			var st brStat
			f, ok := runFindDp(c, "fd-mid", items, maxValue, allow, bk, salt, &st)
			if !ok {
				return
			}
			f.orc, f.strict = orc, true
			c.Add("fm_calls", 1)
			if explicitNil {
				c.Add("fm_calls_with_explicit_nil_breaker", 1)
			}
			if !f.judgeMap(c) {
				return
			}
			c.Add("fm_entries_checked", int64(len(f.dp)))
			longest := 0
			for _, sel := range f.dp {
				if len(sel) > longest {
					longest = len(sel)
				}
			}
			c.Max("fm_max_selection_len", int64(longest))
			if longest > 32 {
				c.Add("fm_maps_with_selection_longer_than_32", 1)
			}
			if longest > 48 {
				c.Add("fm_maps_with_selection_longer_than_48", 1)
			}
			qs := []int{maxValue, 0, maxValue - 1}
			for j := 0; j < 6 && maxValue > 1; j++ {
				qs = append(qs, rng.Intn(maxValue))
			}
			for _, q := range qs {
				if _, ok := f.judgeQuery(c, q); !ok {
					return
				}
				c.Add("fm_queries", 1)
			}
		}
	}
	c.Distinct(hashItems('n', maxValue, items))
	if c.WantSample() {
		c.Sample(fmt.Sprintf("mid FindDpSolvers: %d values %s, maxValue %d: entries, required totals and Best/BestAllowMinOverflow as stated for 2x2 settings", n, fmtVals(items), maxValue))
	}
}

func midCliqueCase(c *ev.Case) {
	rng := c.Rng
	target := rng.Pick(17, 24, 31, 32, 32, 33, 34, 40, 48, 56, 62, 63, 63, 64, 64, 64)
	if rng.Chance(1, 3) {
		target = rng.Range(17, 64)
	}
	unionCliques(c, target, true, "cl-mid", "cm_")
}

// ---- cliques/hubs ---------------------------------------------------------

// hubGraph is a graph on vertices 0..n-1 given by adjacency rows, together with
// the family of its maximal cliques as the construction yields it.
type hubGraph struct {
	n      int
	adj    [][]bool
	family map[string]bool // key: cliqueKey of the sorted vertex list
	kind   string
}

func cliqueKey(vs []int) string {
	b := make([]byte, 0, 2*len(vs))
	for _, v := range vs {
		b = append(b, byte(v>>8), byte(v))
	}
	return string(b)
}

func newHubGraph(n int, kind string) *hubGraph {
	h := &hubGraph{n: n, adj: make([][]bool, n), family: map[string]bool{}, kind: kind}
	for i := range h.adj {
		h.adj[i] = make([]bool, n)
	}
	return h
}

func (h *hubGraph) edge(i, j int) { h.adj[i][j], h.adj[j][i] = true, true }

func (h *hubGraph) expect(vs ...int) {
	s := append([]int(nil), vs...)
	sort.Ints(s)
	h.family[cliqueKey(s)] = true
}

// genHubsAndLeaves: a small core graph on a hubs (any graph on <= 6 vertices) and
// b leaves; a leaf is adjacent to a subset S of the hubs and to no other leaf. A
// clique holds at most one leaf. The maximal cliques are {leaf} + C for every C
// that is a maximal clique of the core induced on S (for S empty: {leaf} alone),
// and every maximal clique C of the core that is not inside the S of any leaf.
func genHubsAndLeaves(rng *ev.Rand) *hubGraph {
	a := rng.Range(1, 6)
	_, core, ckind := genGraph(rng, a, a)
	b := rng.Pick(65, 66, 70, 100, 129, 200)
	if rng.Bool() {
		b = rng.Range(65, 220)
	}
	h := newHubGraph(a+b, fmt.Sprintf("%d hubs forming a %s graph and %d leaves, each adjacent to some of the hubs", a, ckind, b))
	for i := 0; i < a; i++ {
		for j := i + 1; j < a; j++ {
			if core[i]>>uint(j)&1 == 1 {
				h.edge(i, j)
			}
		}
	}
	full := uint32(1)<<uint(a) - 1
	popular := []uint32{full}
	if rng.Bool() {
		popular[0] = 1 << uint(rng.Intn(a)) // one hub is adjacent to most leaves
	}
	for k := rng.Range(0, 3); k > 0; k-- {
		popular = append(popular, uint32(rng.Uint64())&full)
	}
	fams := map[uint32][]uint32{} // S -> maximal cliques of the core induced on S
	famOf := func(s uint32) []uint32 {
		f, ok := fams[s]
		if !ok {
			f = familyOf(a, s, core)
			fams[s] = f
		}
		return f
	}
	var leafSets []uint32
	for l := 0; l < b; l++ {
		var s uint32
		switch {
		case rng.Chance(3, 5):
			s = popular[0]
		case rng.Chance(1, 2):
			s = popular[rng.Intn(len(popular))]
		default:
			s = uint32(rng.Uint64()) & full // including 0: an isolated leaf
		}
		leafSets = append(leafSets, s)
		var members []int
		for i := 0; i < a; i++ {
			if s>>uint(i)&1 == 1 {
				h.edge(i, a+l)
			}
		}
		for _, cm := range famOf(s) {
			members = members[:0]
			for i := 0; i < a; i++ {
				if cm>>uint(i)&1 == 1 {
					members = append(members, i)
				}
			}
			h.expect(append(members, a+l)...)
		}
	}
	for _, cm := range famOf(full) {
		covered := false
		for _, s := range leafSets {
			if s&cm == cm {
				covered = true
				break
			}
		}
		if !covered {
			var members []int
			for i := 0; i < a; i++ {
				if cm>>uint(i)&1 == 1 {
					members = append(members, i)
				}
			}
			h.expect(members...)
		}
	}
	return h
}

// genBlowUp: every vertex i of a small graph H (<= 4 vertices) is replaced by s_i
// pairwise non-adjacent copies; copies of i and j are adjacent iff i-j is an edge
// of H. A clique holds at most one copy per vertex of H, and it is maximal iff
// the vertices of H it uses form a maximal clique of H. One or two s_i are large.
func genBlowUp(rng *ev.Rand) *hubGraph {
	hn := rng.Range(2, 4)
	_, hadj, hkind := genGraph(rng, hn, hn)
	size := make([]int, hn)
	for i := range size {
		size[i] = rng.Range(1, 3)
	}
	p := rng.Perm(hn)
	var pairs [][2]int // adjacent pairs of H
	for i := 0; i < hn; i++ {
		for j := i + 1; j < hn; j++ {
			if hadj[i]>>uint(j)&1 == 1 {
				pairs = append(pairs, [2]int{i, j})
			}
		}
	}
	if hn <= 3 && len(pairs) > 0 && rng.Chance(2, 3) {
		// two large parts joined by an edge of H: every copy in either has > 64 neighbours
		pr := pairs[rng.Intn(len(pairs))]
		size[pr[0]], size[pr[1]] = rng.Range(66, 90), rng.Range(33, 90)
	} else {
		size[p[0]] = rng.Pick(65, 66, 100, 129)
		if rng.Bool() {
			size[p[0]] = rng.Range(65, 130)
		}
	}
	base := make([]int, hn+1)
	for i := range size {
		base[i+1] = base[i] + size[i]
	}
	h := newHubGraph(base[hn], fmt.Sprintf("%s graph on %d vertices blown up: vertex i replaced by %v pairwise non-adjacent copies", hkind, hn, size))
	for i := 0; i < hn; i++ {
		for j := i + 1; j < hn; j++ {
			if hadj[i]>>uint(j)&1 == 1 {
				for x := 0; x < size[i]; x++ {
					for y := 0; y < size[j]; y++ {
						h.edge(base[i]+x, base[j]+y)
					}
				}
			}
		}
	}
	for _, cm := range maximalCliques(hn, hadj) {
		var parts []int
		for i := 0; i < hn; i++ {
			if cm>>uint(i)&1 == 1 {
				parts = append(parts, i)
			}
		}
		// all transversals of the chosen parts
		idx := make([]int, len(parts))
		for {
			vs := make([]int, len(parts))
			for k, pi := range parts {
				vs[k] = base[pi] + idx[k]
			}
			h.expect(vs...)
			k := 0
			for k < len(parts) {
				idx[k]++
				if idx[k] < size[parts[k]] {
					break
				}
				idx[k] = 0
				k++
			}
			if k == len(parts) {
				break
			}
		}
	}
	return h
}

func hubCliqueCase(c *ev.Case) {
	rng := c.Rng
	var h *hubGraph
	if rng.Chance(2, 3) {
		h = genHubsAndLeaves(rng)
		c.Add("ch_hubs_and_leaves_graphs", 1)
	} else {
		h = genBlowUp(rng)
		c.Add("ch_blown_up_graphs", 1)
	}
	n := h.n
	maxDeg, over64, edges := 0, 0, 0
	deg := make([]int, n)
	for i := 0; i < n; i++ {
		for j := 0; j < n; j++ {
			if h.adj[i][j] {
				deg[i]++
			}
		}
		edges += deg[i]
		if deg[i] > maxDeg {
			maxDeg = deg[i]
		}
		if deg[i] > 64 {
			over64++
		}
	}
	edges /= 2
	c.Max("ch_max_vertices", int64(n))
	c.Max("ch_max_degree", int64(maxDeg))
	c.Max("ch_max_family_size", int64(len(h.family)))
	c.Add("ch_vertices_with_more_than_64_neighbours", int64(over64))
	if over64 > 0 {
		c.Add("ch_graphs_with_a_vertex_of_more_than_64_neighbours", 1)
	}
	if over64 > 8 {
		c.Add("ch_graphs_with_more_than_8_such_vertices", 1)
	}
	if maxDeg > 128 {
		c.Add("ch_graphs_with_a_vertex_of_more_than_128_neighbours", 1)
	}

	perm := rng.Perm(n)
	off := rng.Range(-100, 100)
	label := func(i int) int { return perm[i]*3 + off }
	where := make(map[int]int, n)
	for i := 0; i < n; i++ {
		where[label(i)] = i
	}
	type op struct{ a, b int }
	var ops []op
	for i := 0; i < n; i++ {
		if deg[i] == 0 || rng.Chance(1, 4) {
			ops = append(ops, op{i, i})
		}
		for j := i + 1; j < n; j++ {
			if h.adj[i][j] {
				if rng.Bool() {
					ops = append(ops, op{i, j})
				} else {
					ops = append(ops, op{j, i})
				}
			}
		}
	}
	p := rng.Perm(len(ops))
	var g algz.Graph[int]
	if !c.Guard("Graph.build", func() {
		if rng.Bool() {
			g.Init(rng.Pick(0, 4, n))
		}
		for _, k := range p {
			if ops[k].a == ops[k].b {
				g.AddNode(label(ops[k].a))
			} else {
				g.AddUndirectedEdge(label(ops[k].a), label(ops[k].b))
			}
		}
	}) {
		return
	}
	desc := func() string {
		return fmt.Sprintf("%s; %d vertices, %d edges, largest neighbourhood %d, %d maximal cliques (labels: distinct ints in a seeded order)", h.kind, n, edges, maxDeg, len(h.family))
	}
	c.Logf("built %s", desc())
	// the construction's family against the definition, before golib is asked
	for key := range h.family {
		vs := make([]int, 0, len(key)/2)
		for i := 0; i+1 < len(key); i += 2 {
			vs = append(vs, int(key[i])<<8|int(key[i+1]))
		}
		okc := true
		for x := 0; x < len(vs) && okc; x++ {
			for y := x + 1; y < len(vs); y++ {
				if !h.adj[vs[x]][vs[y]] {
					okc = false
					break
				}
			}
		}
		for u := 0; u < n && okc; u++ {
			all := true
			for _, x := range vs {
				if x == u || !h.adj[u][x] {
					all = false
					break
				}
			}
			if all {
				okc = false
			}
		}
		if !okc {
			c.Run().HarnessFailure(fmt.Sprintf("cliques/hubs oracle self-check: the construction lists %v which is not a maximal clique by the definition ; %s", vs, desc()))
			return
		}
	}
	for call := 0; call < 2; call++ {
		var got [][]int
		if !c.Guard("GetMaximalCliques", func() { got = g.GetMaximalCliques() }) {
			return
		}
		c.Logf("GetMaximalCliques() #%d -> %d cliques", call+1, len(got))
		c.Add("ch_enumerations", 1)
		if len(got) > 4*len(h.family)+64 {
			c.Failf("cl-hub/count", "GetMaximalCliques() returned %d cliques, the graph has %d maximal cliques ; %s", len(got), len(h.family), desc())
			return
		}
		seen := make(map[string]bool, len(got))
		for _, cl := range got {
			if len(cl) > n {
				c.Failf("cl-hub/vertex-repeated", "returned clique has %d entries in a graph with %d vertices ; %s", len(cl), n, desc())
				return
			}
			vs := make([]int, 0, len(cl))
			for _, lv := range cl {
				i, ok := where[lv]
				if !ok {
					c.Failf("cl-hub/foreign-vertex", "returned clique %v contains %v which is not a vertex ; %s", cl, lv, desc())
					return
				}
				vs = append(vs, i)
			}
			sort.Ints(vs)
			for k := 1; k < len(vs); k++ {
				if vs[k] == vs[k-1] {
					c.Failf("cl-hub/vertex-repeated", "returned clique %v lists vertex %d twice ; %s", cl, label(vs[k]), desc())
					return
				}
			}
			// by the definition: pairwise adjacent, and no further vertex adjacent to all
			for x := 0; x < len(vs); x++ {
				for y := x + 1; y < len(vs); y++ {
					if !h.adj[vs[x]][vs[y]] {
						c.Failf("cl-hub/not-a-clique", "returned set %v is not a clique: %d and %d are not adjacent ; %s", cl, label(vs[x]), label(vs[y]), desc())
						return
					}
				}
			}
			for u := 0; u < n; u++ {
				all := true
				for _, x := range vs {
					if x == u || !h.adj[u][x] {
						all = false
						break
					}
				}
				if all {
					c.Failf("cl-hub/not-maximal", "returned clique %v is not maximal: vertex %d is adjacent to all its members ; %s", cl, label(u), desc())
					return
				}
			}
			key := cliqueKey(vs)
			if !h.family[key] {
				c.Run().HarnessFailure(fmt.Sprintf("cliques/hubs oracle self-check: %v (vertices %v) is a maximal clique by the definition but the construction does not list it ; %s", cl, vs, desc()))
				return
			}
			if seen[key] {
				c.Failf("cl-hub/duplicate", "maximal clique %v is returned more than once (%d returned, %d exist) ; %s", cl, len(got), len(h.family), desc())
				return
			}
			seen[key] = true
		}
		if len(seen) != len(h.family) {
			keys := make([]string, 0, len(h.family))
			for k := range h.family {
				if !seen[k] {
					keys = append(keys, k)
				}
			}
			sort.Strings(keys)
			var cl []int
			for i := 0; i+1 < len(keys[0]); i += 2 {
				cl = append(cl, label(int(keys[0][i])<<8|int(keys[0][i+1])))
			}
			c.Failf("cl-hub/missing", "maximal clique %v is not returned (%d returned, %d exist) ; %s", cl, len(seen), len(h.family), desc())
			return
		}
		c.Add("ch_cliques_compared", int64(len(h.family)))
	}
	hh := ev.Mix('h', uint64(n), uint64(edges))
	for i := 0; i < n; i++ {
		hh = ev.Mix(hh, uint64(deg[i]))
	}
	c.Distinct(hh)
	if c.WantSample() {
		c.Sample(desc() + ": 2 enumerations each returned exactly that family")
	}
}
