package main

import (
	"fmt"
	"math/bits"
	"sort"

	"github.com/welllog/golib/algz"

	"verif/ev"
)

// cliques/grow: one Graph value that keeps growing. Between two enumerations a
// window of 1..8 mutators runs with no observing call at all (LESSONS class 1);
// some windows only add edges between vertices that already exist (no count a
// cheap fingerprint could look at changes except the number of adjacency
// entries), some only add isolated vertices, some repeat calls that change
// nothing. Every returned family is judged at once; some are then kept and judged
// again at the end of the case against the family of the graph they were taken
// from (class 2), the others are scribbled on by the caller before the next
// enumeration (class 3). Half-way the value may be re-initialised and used for a
// graph of another size (class 6); the first stage may be put into the exported
// Nodes map directly instead of through AddNode/AddUndirectedEdge.

// familyOf returns the maximal cliques (as masks over 0..n-1) of the graph induced
// on the present vertices.
func familyOf(n int, present uint32, adj []uint32) []uint32 {
	idx := make([]int, 0, n) // compact index -> vertex
	for i := 0; i < n; i++ {
		if present>>uint(i)&1 == 1 {
			idx = append(idx, i)
		}
	}
	cadj := make([]uint32, len(idx))
	for a, i := range idx {
		for b, j := range idx {
			if adj[i]>>uint(j)&1 == 1 {
				cadj[a] |= 1 << uint(b)
			}
		}
	}
	fam := maximalCliques(len(idx), cadj)
	out := make([]uint32, len(fam))
	for k, m := range fam {
		var o uint32
		for a, i := range idx {
			if m>>uint(a)&1 == 1 {
				o |= 1 << uint(i)
			}
		}
		out[k] = o
	}
	sort.Slice(out, func(i, j int) bool { return out[i] < out[j] })
	return out
}

// judgeFamily decides "every maximal clique exactly once and nothing else" for one
// returned list. want is sorted. when names the moment for the message.
func judgeFamily(c *ev.Case, pfx string, got [][]int, index map[int]int, want []uint32, present uint32, when string, gdesc func() string) bool {
	if present == 0 {
		if len(got) == 0 || (len(got) == 1 && len(got[0]) == 0) {
			return true
		}
		c.Failf(pfx+"/empty-graph", "%s: GetMaximalCliques() on a graph without vertices returned %v", when, got)
		return false
	}
	if len(got) > 4*len(want)+64 {
		c.Failf(pfx+"/count", "%s: %d cliques returned, the graph has %d maximal cliques ; %s", when, len(got), len(want), gdesc())
		return false
	}
	masks := make([]uint32, 0, len(got))
	for _, cl := range got {
		var m uint32
		for _, v := range cl {
			i, ok := index[v]
			if !ok || present>>uint(i)&1 == 0 {
				c.Failf(pfx+"/foreign-vertex", "%s: returned clique %v contains %v which is not a vertex of the graph ; all returned: %v ; %s", when, cl, v, got, gdesc())
				return false
			}
			if m>>uint(i)&1 == 1 {
				c.Failf(pfx+"/vertex-repeated", "%s: returned clique %v lists vertex %v twice ; %s", when, cl, v, gdesc())
				return false
			}
			m |= 1 << uint(i)
		}
		masks = append(masks, m)
	}
	sort.Slice(masks, func(i, j int) bool { return masks[i] < masks[j] })
	for i := 1; i < len(masks); i++ {
		if masks[i] == masks[i-1] {
			c.Failf(pfx+"/duplicate", "%s: maximal clique %s is returned more than once ; all returned: %v ; %s", when, fmtMask(masks[i]), got, gdesc())
			return false
		}
	}
	have := map[uint32]bool{}
	for _, m := range masks {
		have[m] = true
	}
	wantSet := map[uint32]bool{}
	for _, w := range want {
		wantSet[w] = true
		if !have[w] {
			c.Failf(pfx+"/missing", "%s: maximal clique %s is not returned (%d returned, %d exist) ; all returned: %v ; %s", when, fmtMask(w), len(masks), len(want), got, gdesc())
			return false
		}
	}
	for _, m := range masks {
		if !wantSet[m] {
			c.Failf(pfx+"/not-a-maximal-clique", "%s: returned set %s is not a maximal clique of the graph ; all returned: %v ; %s", when, fmtMask(m), got, gdesc())
			return false
		}
	}
	return true
}

type gop struct{ a, b int } // b < 0: AddNode(a); else AddUndirectedEdge / AddEdge pair

func growCase(c *ev.Case) {
	rng := c.Rng
	hi := 9
	if c.Thorough() {
		hi = 12
	}
	var g algz.Graph[int]
	type kept struct {
		got     [][]int
		index   map[int]int
		want    []uint32
		present uint32
		when    string
		desc    func() string
	}
	var keep []kept
	rounds := 1
	if rng.Chance(1, 3) {
		rounds = 2 // the same value again after Init, for a graph of another size
	}
	enum := 0
	hash := ev.Mix('g', uint64(rounds))
	for round := 0; round < rounds; round++ {
		n, adj, kind := genGraph(rng, 3, hi)
		for _, a := range adj {
			hash = ev.Mix(hash, uint64(a))
		}
		labels := make([]int, n)
		index := make(map[int]int, n)
		for i := range labels {
			for {
				x := rng.Range(-20, 400)
				if _, dup := index[x]; !dup {
					labels[i], index[x] = x, i
					break
				}
			}
		}
		// all mutators of the final graph in a seeded order, cut into stages
		var ops []gop
		for i := 0; i < n; i++ {
			if adj[i] == 0 || rng.Chance(1, 3) {
				ops = append(ops, gop{i, -1})
			}
			for j := i + 1; j < n; j++ {
				if adj[i]>>uint(j)&1 == 1 {
					ops = append(ops, gop{i, j})
				}
			}
		}
		switch rng.Intn(3) {
		case 0: // vertices first (as isolated ones), then edges: many windows change no vertex count
			sort.SliceStable(ops, func(x, y int) bool { return ops[x].b < 0 && ops[y].b >= 0 })
			for i := 0; i < n; i++ {
				if rng.Chance(2, 3) {
					ops = append([]gop{{i, -1}}, ops...)
				}
			}
		case 1:
			p := rng.Perm(len(ops))
			o2 := make([]gop, len(ops))
			for i := range p {
				o2[i] = ops[p[i]]
			}
			ops = o2
		default: // vertex by vertex
		}
		cur := make([]uint32, n)
		var present uint32
		gdescAt := func(present uint32, cur []uint32) func() string {
			snap := append([]uint32(nil), cur...)
			return func() string {
				return fmt.Sprintf("%s graph being grown; vertices present %s, adjacency now %s (vertex i is labelled %v)", kind, fmtMask(present), fmtGraph(n, snap), labels)
			}
		}

		if round > 0 {
			if !c.Guard("Graph.Init", func() { g.Init(rng.Intn(n + 2)) }) {
				return
			}
			c.Logf("Init(): the same Graph value is used again")
			c.Add("cg_reinitialised_for_another_size", 1)
		}
		pos := 0
		stage := 0
		for pos < len(ops) || stage == 0 {
			w := rng.Range(1, 8)
			if pos+w > len(ops) {
				w = len(ops) - pos
			}
			win := ops[pos : pos+w]
			pos += w
			beforeV, beforeAdj := present, append([]uint32(nil), cur...)
			direct := stage == 0 && round == 0 && rng.Chance(1, 4)
			if direct {
				// the first stage goes straight into the exported field
				nodes := map[int]map[int]struct{}{}
				for _, o := range win {
					if _, ok := nodes[labels[o.a]]; !ok {
						nodes[labels[o.a]] = map[int]struct{}{}
					}
					present |= 1 << uint(o.a)
					if o.b >= 0 {
						if _, ok := nodes[labels[o.b]]; !ok {
							nodes[labels[o.b]] = map[int]struct{}{}
						}
						nodes[labels[o.a]][labels[o.b]] = struct{}{}
						nodes[labels[o.b]][labels[o.a]] = struct{}{}
						present |= 1 << uint(o.b)
						cur[o.a] |= 1 << uint(o.b)
						cur[o.b] |= 1 << uint(o.a)
					}
				}
				g = algz.Graph[int]{Nodes: nodes}
				c.Logf("stage %d: Graph{Nodes: %v}", stage, nodes)
				c.Add("cg_first_stage_written_into_Nodes", 1)
			} else {
				okw := c.Guard("Graph.grow", func() {
					for _, o := range win {
						switch {
						case o.b < 0:
							g.AddNode(labels[o.a])
							c.Logf("stage %d: AddNode(%d)", stage, labels[o.a])
						case rng.Chance(1, 4): // two directed halves; both inside the window
							g.AddEdge(labels[o.b], labels[o.a])
							g.AddEdge(labels[o.a], labels[o.b])
							c.Add("cg_edges_added_as_two_directed_halves", 1)
							c.Logf("stage %d: AddEdge(%d,%d); AddEdge(%d,%d)", stage, labels[o.b], labels[o.a], labels[o.a], labels[o.b])
						default:
							g.AddUndirectedEdge(labels[o.a], labels[o.b])
							c.Logf("stage %d: AddUndirectedEdge(%d,%d)", stage, labels[o.a], labels[o.b])
						}
						if rng.Chance(1, 10) { // a repeated call changes nothing
							if o.b < 0 {
								g.AddNode(labels[o.a])
							} else {
								g.AddUndirectedEdge(labels[o.b], labels[o.a])
							}
							c.Add("cg_repeated_mutators", 1)
						}
					}
				})
				if !okw {
					return
				}
				for _, o := range win {
					present |= 1 << uint(o.a)
					if o.b >= 0 {
						present |= 1 << uint(o.b)
						cur[o.a] |= 1 << uint(o.b)
						cur[o.b] |= 1 << uint(o.a)
					}
				}
			}
			c.Add("cg_windows", 1)
			c.Add("cg_mutators_in_windows", int64(len(win)))
			changed := false
			for i := range cur {
				if cur[i] != beforeAdj[i] {
					changed = true
				}
			}
			if stage > 0 && present == beforeV && changed {
				c.Add("cg_windows_adding_only_edges_between_existing_vertices", 1)
			}
			if stage > 0 && present != beforeV && !changed {
				c.Add("cg_windows_adding_only_isolated_vertices", 1)
			}
			if stage > 0 && present == beforeV && !changed {
				c.Add("cg_windows_changing_nothing", 1)
			}
			want := familyOf(n, present, cur)
			gdesc := gdescAt(present, cur)
			for call := rng.Range(1, 2); call > 0; call-- {
				enum++
				when := fmt.Sprintf("enumeration %d (round %d, after stage %d)", enum, round, stage)
				var got [][]int
				if !c.Guard("GetMaximalCliques", func() { got = g.GetMaximalCliques() }) {
					return
				}
				c.Logf("%s: GetMaximalCliques() -> %v", when, got)
				c.Add("cg_enumerations", 1)
				if !judgeFamily(c, "cl-grow", got, index, want, present, when, gdesc) {
					return
				}
				c.Add("cg_cliques_compared", int64(len(want)))
				if rng.Bool() {
					keep = append(keep, kept{got, index, want, present, when, gdesc})
				} else {
					// the caller owns what it was given: overwrite it
					for _, cl := range got {
						for i := range cl {
							cl[i] = -9999
						}
					}
					for i := range got {
						got[i] = nil
					}
					got = append(got[:0], []int{-9999})
					_ = got
					c.Logf("  (caller overwrote that result)")
					c.Add("cg_results_scribbled_by_caller", 1)
				}
			}
			stage++
		}
	}
	for _, k := range keep {
		if !judgeFamily(c, "cl-grow/kept", k.got, k.index, k.want, k.present, k.when+", looked at again at the end of the case", k.desc) {
			return
		}
		c.Add("cg_kept_results_judged_again", 1)
	}
	c.Distinct(hash)
	if c.WantSample() {
		c.Sample(fmt.Sprintf("graph grown in windows of unobserved mutators; %d enumerations each returned exactly the maximal cliques of the graph at that moment, %d kept results unchanged at the end", enum, len(keep)))
	}
}

// cliques/big: a disjoint union of many small graphs, 65 .. several hundred
// vertices. A clique of a union lies inside one component and is maximal there,
// so the expected family is the union of the components' families, each from
// the enumeration of all vertex subsets of that component.
func bigCliqueCase(c *ev.Case) {
	rng := c.Rng
	target := rng.Pick(65, 66, 100, 129, 200, 257, 300, 520)
	if c.Thorough() && rng.Chance(1, 3) {
		target = rng.Pick(1025, 2000, 4100)
	}
	unionCliques(c, target, false, "cl-big", "cb_")
}

// unionCliques: a disjoint union of small graphs with at least (exact: exactly)
// target vertices; pfx is the signature prefix, cn the counter prefix.
func unionCliques(c *ev.Case, target int, exact bool, pfx, cn string) {
	rng := c.Rng
	type comp struct {
		n    int
		adj  []uint32
		base int
		fam  map[uint32]bool
	}
	var comps []comp
	total := 0
	for total < target {
		hi := 8
		if rng.Chance(1, 12) {
			hi = 13
		}
		if exact && hi > target-total {
			hi = target - total
		}
		n, adj, _ := genGraph(rng, 1, hi)
		fam := map[uint32]bool{}
		for _, m := range maximalCliques(n, adj) {
			fam[m] = true
		}
		comps = append(comps, comp{n, adj, total, fam})
		total += n
	}
	// labels: a seeded permutation of distinct ints, so neighbouring labels are unrelated
	perm := rng.Perm(total)
	off := rng.Range(-100, 100)
	label := func(ci, i int) int { return perm[comps[ci].base+i]*3 + off }
	where := make(map[int][2]int, total)
	for ci := range comps {
		for i := 0; i < comps[ci].n; i++ {
			where[label(ci, i)] = [2]int{ci, i}
		}
	}
	type op struct{ a, b int }
	var ops []op
	nExpected := 0
	for ci, cp := range comps {
		nExpected += len(cp.fam)
		for i := 0; i < cp.n; i++ {
			if cp.adj[i] == 0 || rng.Chance(1, 4) {
				ops = append(ops, op{label(ci, i), label(ci, i)})
			}
			for j := i + 1; j < cp.n; j++ {
				if cp.adj[i]>>uint(j)&1 == 1 {
					ops = append(ops, op{label(ci, i), label(ci, j)})
				}
			}
		}
	}
	p := rng.Perm(len(ops))
	var g algz.Graph[int]
	if !c.Guard("Graph.build", func() {
		if rng.Bool() {
			g.Init(rng.Pick(0, 4, total))
		}
		for _, k := range p {
			if ops[k].a == ops[k].b {
				g.AddNode(ops[k].a)
			} else {
				g.AddUndirectedEdge(ops[k].a, ops[k].b)
			}
		}
	}) {
		return
	}
	desc := func() string {
		return fmt.Sprintf("disjoint union of %d graphs of 1..13 vertices, %d vertices in all, %d maximal cliques", len(comps), total, nExpected)
	}
	c.Max(cn+"max_vertices", int64(total))
	for _, th := range []int{64, 256, 1024, 4096} {
		if total > th {
			c.Add(fmt.Sprintf("%sgraphs_with_more_than_%d_vertices", cn, th), 1)
		}
	}
	if exact {
		for _, th := range []int{32, 63, 64} {
			if total == th {
				c.Add(fmt.Sprintf("%sgraphs_with_exactly_%d_vertices", cn, th), 1)
			}
		}
		if total > 32 && total <= 64 {
			c.Add(cn+"graphs_with_33_to_64_vertices", 1)
		}
	}
	for call := 0; call < 2; call++ {
		var got [][]int
		if !c.Guard("GetMaximalCliques", func() { got = g.GetMaximalCliques() }) {
			return
		}
		c.Add(cn+"enumerations", 1)
		seen := make(map[[2]int]bool, len(got)) // (component, mask)
		for _, cl := range got {
			if len(cl) == 0 {
				c.Failf(pfx+"/empty-clique", "an empty clique is returned for a graph with %d vertices ; %s", total, desc())
				return
			}
			ci := -1
			var m uint32
			for _, v := range cl {
				w, ok := where[v]
				if !ok {
					c.Failf(pfx+"/foreign-vertex", "returned clique %v contains %v which is not a vertex ; %s", cl, v, desc())
					return
				}
				if ci >= 0 && w[0] != ci {
					c.Failf(pfx+"/not-a-clique", "returned clique %v joins vertices %v and %v of two different components (no edge between them) ; %s", cl, cl[0], v, desc())
					return
				}
				ci = w[0]
				if m>>uint(w[1])&1 == 1 {
					c.Failf(pfx+"/vertex-repeated", "returned clique %v lists vertex %v twice ; %s", cl, v, desc())
					return
				}
				m |= 1 << uint(w[1])
			}
			if !comps[ci].fam[m] {
				c.Failf(pfx+"/not-a-maximal-clique", "returned clique %v (vertices %s of component %d: %s) is not a maximal clique ; %s", cl, fmtMask(m), ci, fmtGraph(comps[ci].n, comps[ci].adj), desc())
				return
			}
			if seen[[2]int{ci, int(m)}] {
				c.Failf(pfx+"/duplicate", "maximal clique %v is returned more than once (%d returned, %d exist) ; %s", cl, len(got), nExpected, desc())
				return
			}
			seen[[2]int{ci, int(m)}] = true
		}
		if len(seen) != nExpected {
			for ci, cp := range comps {
				for m := range cp.fam {
					if !seen[[2]int{ci, int(m)}] {
						var cl []int
						for i := 0; i < cp.n; i++ {
							if m>>uint(i)&1 == 1 {
								cl = append(cl, label(ci, i))
							}
						}
						c.Failf(pfx+"/missing", "maximal clique %v is not returned (%d returned, %d exist) ; %s", cl, len(seen), nExpected, desc())
						return
					}
				}
			}
		}
		c.Add(cn+"cliques_compared", int64(nExpected))
	}
	h := ev.Mix('U', uint64(total))
	for _, cp := range comps {
		for _, a := range cp.adj {
			h = ev.Mix(h, uint64(a), uint64(bits.OnesCount32(a)))
		}
	}
	c.Distinct(h)
	if c.WantSample() {
		c.Sample(desc() + ": 2 enumerations each returned exactly that family")
	}
}
