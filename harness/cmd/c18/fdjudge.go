package main

import (
	"fmt"
	"math"
	"sort"

	"github.com/welllog/golib/algz"

	"verif/ev"
)

// fdOracle answers the questions the statement asks about the attainable totals
// of a value list. Two implementations: totals (boolean table, finddp.go) and
// sumList (sorted list of all subset sums, for values that no table can index).
type fdOracle interface {
	attain(q int) bool
	floor(q int) int // largest attainable total <= q, for q >= 0 (0 is always attainable)
	above(q int) int // smallest attainable total > q; -1: none; notRepresentable: it exceeds math.MaxInt
	upTo(hi int, f func(t int) bool)
}

const notRepresentable = -2

func (t *totals) upTo(hi int, f func(t int) bool) {
	if hi >= len(t.reach) {
		hi = len(t.reach) - 1
	}
	for x := 0; x <= hi; x++ {
		if t.reach[x] && !f(x) {
			return
		}
	}
}

// sumList: all subset sums that fit an int, ascending and distinct; inf says
// that some selection's total does not fit (such a total is above every limit).
type sumList struct {
	ts  []int
	inf bool
}

// newSumList enumerates all 2^n selections with saturating addition.
func newSumList(items []item) *sumList {
	n := len(items)
	sums := make([]int, 1<<uint(n)) // math.MaxInt+"over" is kept apart in over[]
	over := make([]bool, 1<<uint(n))
	sl := &sumList{}
	for m := 1; m < len(sums); m++ {
		low := 0
		for m>>uint(low)&1 == 0 {
			low++
		}
		rest := m & (m - 1)
		v := items[low].V
		if over[rest] || sums[rest] > math.MaxInt-v {
			over[m] = true
			sl.inf = true
			continue
		}
		sums[m] = sums[rest] + v
	}
	for m, s := range sums {
		if !over[m] {
			sl.ts = append(sl.ts, s)
		}
	}
	sort.Ints(sl.ts)
	w := 0
	for i, s := range sl.ts {
		if i == 0 || s != sl.ts[w-1] {
			sl.ts[w] = s
			w++
		}
	}
	sl.ts = sl.ts[:w]
	return sl
}

func (s *sumList) firstAbove(q int) int {
	return sort.Search(len(s.ts), func(i int) bool { return s.ts[i] > q })
}

func (s *sumList) attain(q int) bool {
	i := s.firstAbove(q)
	return i > 0 && s.ts[i-1] == q
}

func (s *sumList) floor(q int) int {
	i := s.firstAbove(q)
	if i == 0 {
		return 0
	}
	return s.ts[i-1]
}

func (s *sumList) above(q int) int {
	i := s.firstAbove(q)
	if i < len(s.ts) {
		return s.ts[i]
	}
	if s.inf {
		return notRepresentable
	}
	return -1
}

func (s *sumList) upTo(hi int, f func(t int) bool) {
	for _, t := range s.ts {
		if t > hi || !f(t) {
			return
		}
	}
}

// fdCall is one FindDpSolvers call as the judge needs it.
type fdCall struct {
	pfx      string // signature prefix
	items    []item // the instance as it was at call time (private snapshot)
	maxValue int
	allow    bool
	orc      fdOracle
	dp       algz.DpSolvers[item]
	desc     func() string // renders the call
	// strict: every entry, whatever its key, must sum to its key. Without it only the
	// entries the statement speaks about are judged: keys in [0,maxValue] (Best(key)
	// returns exactly that entry) and the smallest attainable overshoot.
	strict bool
}

func (f *fdCall) ctx() string { return f.desc() + " returned " + fmtSolvers(f.dp) }

// judgeMap decides the statement's clauses about the returned map.
func (f *fdCall) judgeMap(c *ev.Case) bool {
	minOver := f.orc.above(f.maxValue)
	keys := sortedKeys(f.dp)
	for _, k := range keys {
		k := k
		s, ok := checkSel(c, f.pfx+"/entry", func() string { return fmt.Sprintf("entry for total %d ; %s", k, f.ctx()) }, f.items, f.dp[k])
		if !ok {
			return false
		}
		if f.strict || (k >= 0 && k <= f.maxValue) || (f.allow && k == minOver) {
			if s.vInf || s.v != k {
				tot := fmt.Sprint(s.v)
				if s.vInf {
					tot = "more than math.MaxInt"
				}
				c.Failf(f.pfx+"/entry-sum", "entry for total %d is %s which sums to %s ; %s", k, fmtVals(clip(f.dp[k])), tot, f.ctx())
				return false
			}
		}
	}
	okAll := true
	f.orc.upTo(f.maxValue, func(t int) bool {
		if _, ok := f.dp[t]; !ok {
			c.Failf(f.pfx+"/missing-total", "total %d is attainable and <= maxValue %d but has no entry ; %s", t, f.maxValue, f.ctx())
			okAll = false
		}
		return okAll
	})
	if !okAll {
		return false
	}
	if f.allow && minOver >= 0 {
		if _, ok := f.dp[minOver]; !ok {
			c.Failf(f.pfx+"/missing-overshoot", "overflow allowed: the smallest attainable total above maxValue %d is %d but it has no entry ; %s", f.maxValue, minOver, f.ctx())
			return false
		}
	}
	return true
}

// judgeQuery decides Best(q) (for q >= 0) and BestAllowMinOverflow(q), q <= maxValue.
// It returns what kind of answer BestAllowMinOverflow had to give ("" = not determined).
func (f *fdCall) judgeQuery(c *ev.Case, q int) (string, bool) {
	if q >= 0 {
		var got []item
		if !c.Guard("Best", func() { got = f.dp.Best(q) }) {
			return "", false
		}
		want := f.orc.floor(q)
		if c.Logging() {
			c.Logf("  Best(%d) -> %s (largest attainable total <= %d is %d)", q, fmtVals(clip(got)), q, want)
		}
		s, ok := checkSel(c, f.pfx+"/best", func() string { return fmt.Sprintf("Best(%d) ; %s", q, f.ctx()) }, f.items, got)
		if !ok {
			return "", false
		}
		if s.vInf || s.v != want {
			c.Failf(f.pfx+"/best-total", "Best(%d) returned %s with total %s; the largest attainable total <= %d is %d ; %s", q, fmtVals(clip(got)), fmtTotal(s), q, want, f.ctx())
			return "", false
		}
	}
	want, kind := 0, ""
	ab := f.orc.above(q)
	switch {
	case f.orc.attain(q):
		want, kind = q, "exact"
	case ab >= 0 && (f.allow || ab <= f.maxValue):
		want, kind = ab, "overshoot"
	case ab == -1 && q >= 0:
		want, kind = f.orc.floor(q), "fallback"
	default:
		return "", true // the map is not promised to hold the smallest total above q
	}
	var got []item
	if !c.Guard("BestAllowMinOverflow", func() { got = f.dp.BestAllowMinOverflow(q) }) {
		return "", false
	}
	if c.Logging() {
		c.Logf("  BestAllowMinOverflow(%d) -> %s (expected total %d, %s)", q, fmtVals(clip(got)), want, kind)
	}
	s, ok := checkSel(c, f.pfx+"/bamo", func() string { return fmt.Sprintf("BestAllowMinOverflow(%d) ; %s", q, f.ctx()) }, f.items, got)
	if !ok {
		return "", false
	}
	if s.vInf || s.v != want {
		c.Failf(f.pfx+"/bamo-total", "BestAllowMinOverflow(%d) returned %s with total %s; expected %d (%s: exact total if attainable, else smallest attainable total above, else largest attainable) ; %s", q, fmtVals(clip(got)), fmtTotal(s), want, kind, f.ctx())
		return "", false
	}
	return kind, true
}

func fmtTotal(s selInfo) string {
	if s.vInf {
		return "more than math.MaxInt"
	}
	return fmt.Sprint(s.v)
}

// runFindDp calls FindDpSolvers on a guarded private copy of items. bk < 0: no
// tie-breaker, passed as an explicit nil function value instead of being left out.
func runFindDp(c *ev.Case, pfx string, items []item, maxValue int, allow bool, bk int, salt uint64, st *brStat) (*fdCall, bool) {
	explicitNil := bk < 0
	if explicitNil {
		bk = 0
	}
	br := mkBreaker(bk, salt, st)
	in, inputIntact := input(c, pfx, items)
	f := &fdCall{pfx: pfx, items: items, maxValue: maxValue, allow: allow}
	f.desc = func() string {
		name := breakerNames[bk]
		if explicitNil {
			name = "nil (passed explicitly)"
		}
		return fmt.Sprintf("FindDpSolvers(maxValue=%d, values=%s, allowOverOnce=%v, tieBreaker=%s)", maxValue, fmtVals(items), allow, name)
	}
	if c.Logging() {
		c.Logf("%s ...", f.desc())
	}
	vf := func(it item) int { return it.V }
	if !c.Guard("FindDpSolvers", func() {
		if explicitNil {
			f.dp = algz.FindDpSolvers(maxValue, in, vf, allow, br) // br is a nil func value
		} else if br == nil {
			f.dp = algz.FindDpSolvers(maxValue, in, vf, allow)
		} else {
			f.dp = algz.FindDpSolvers(maxValue, in, vf, allow, br)
		}
	}) {
		return nil, false
	}
	if c.Logging() {
		c.Logf("  -> %s   [breaker calls %d, replaced %d]", fmtSolvers(f.dp), st.calls, st.replaced)
	}
	if !inputIntact(f.desc) {
		return nil, false
	}
	return f, true
}
