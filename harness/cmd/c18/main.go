// C18 — Knapsack, subset-sum solvers and maximal-clique enumeration are exact.
//
// Brute-force monitors: the real algz.Knapsack / algz.FindDpSolvers /
// Graph.GetMaximalCliques run on generated hostile instances (equal weights and
// values, zero weights, items heavier than the limit, empty input, limit 0, all
// tie-breaker behaviours, all graph densities incl. isolated vertices and the
// empty graph) and every returned selection / map entry / clique list is judged
// against an enumeration of all 2^n selections (vertex subsets).  "wide"
// engines repeat the same checks on larger instances where the optimum /
// reachable totals come from a naive two-row table that is itself cross-checked
// against the enumeration on every small case.
//
// Files: main.go (engines, shared helpers), knapsack.go, finddp.go, cliques.go.
package main

import (
	"fmt"
	"math"
	"math/bits"
	"strings"

	"verif/ev"
)

// item is the element type handed to golib; ID is the index in the input list,
// so "uses each item at most once" is decided on identities, not on (w,v) pairs.
type item struct{ ID, W, V int }

func fmtItems(items []item) string {
	var b strings.Builder
	b.WriteByte('[')
	for i, it := range items {
		if i > 0 {
			b.WriteByte(' ')
		}
		if i >= 48 {
			fmt.Fprintf(&b, "…(%d more)", len(items)-i)
			break
		}
		fmt.Fprintf(&b, "#%d(w%d,v%d)", it.ID, it.W, it.V)
	}
	b.WriteByte(']')
	return b.String()
}

func fmtVals(items []item) string {
	var b strings.Builder
	b.WriteByte('[')
	for i, it := range items {
		if i > 0 {
			b.WriteByte(' ')
		}
		if i >= 48 {
			fmt.Fprintf(&b, "…(%d more)", len(items)-i)
			break
		}
		fmt.Fprintf(&b, "#%d:%d", it.ID, it.V)
	}
	b.WriteByte(']')
	return b.String()
}

func hashItems(kind uint64, limit int, items []item) uint64 {
	h := ev.Mix(kind, uint64(int64(limit)), uint64(len(items)))
	for _, it := range items {
		h = ev.Mix(h, uint64(it.W), uint64(it.V))
	}
	return h
}

// selInfo is what the oracle derives from a returned selection.
type selInfo struct {
	w, v int
	mask uint64
}

// checkSel decides "every element is one of the input items and no item is used
// twice" and returns the selection's total weight and value. ctx renders the
// instance for the failure message.
func checkSel(c *ev.Case, prefix string, ctx func() string, items, sel []item) (selInfo, bool) {
	var s selInfo
	fmtItems := fmtItems
	if strings.HasPrefix(prefix, "fd/") {
		fmtItems = fmtVals // subset-sum items have no weight
	}
	if len(sel) > len(items) {
		c.Failf(prefix+"/item-reused", "returned selection has %d elements but only %d items exist: %s ; %s", len(sel), len(items), fmtItems(clip(sel)), ctx())
		return s, false
	}
	for _, it := range sel {
		if it.ID < 0 || it.ID >= len(items) || items[it.ID] != it {
			c.Failf(prefix+"/foreign-item", "returned selection %s contains %+v which is not one of the input items ; %s", fmtItems(sel), it, ctx())
			return s, false
		}
		if s.mask&(1<<uint(it.ID)) != 0 {
			c.Failf(prefix+"/item-reused", "returned selection %s uses item #%d more than once ; %s", fmtItems(sel), it.ID, ctx())
			return s, false
		}
		s.mask |= 1 << uint(it.ID)
		if it.W > 0 && s.w > math.MaxInt-it.W {
			s.w = math.MaxInt // saturate: "unliftable" weights must not wrap around
		} else {
			s.w += it.W
		}
		s.v += it.V
	}
	return s, true
}

func clip(sel []item) []item {
	if len(sel) > 64 {
		return sel[:64]
	}
	return sel
}

// subsetSums returns, for every mask over len(vals) items, the sum of the chosen vals.
func subsetSums(vals []int) []int {
	s := make([]int, 1<<uint(len(vals)))
	for m := 1; m < len(s); m++ {
		s[m] = s[m&(m-1)] + vals[bits.TrailingZeros(uint(m))]
	}
	return s
}

// ---- tie-breakers -------------------------------------------------------

type brStat struct{ calls, replaced int64 }

var breakerNames = []string{"none", "always-replace", "never-replace", "prefer-shorter", "prefer-longer", "hash"}

// mkBreaker returns the tie-breaker of the given kind (nil for kind 0). Every
// breaker is a pure function of its two arguments, so golib's map iteration
// order cannot change what a breaker answers for a given pair.
func mkBreaker(kind int, salt uint64, st *brStat) func(old, new []item) bool {
	var f func(old, new []item) bool
	switch kind {
	case 0:
		return nil
	case 1:
		f = func(old, new []item) bool { return true }
	case 2:
		f = func(old, new []item) bool { return false }
	case 3:
		f = func(old, new []item) bool { return len(new) < len(old) }
	case 4:
		f = func(old, new []item) bool { return len(new) > len(old) }
	default:
		f = func(old, new []item) bool {
			h := salt
			for _, it := range old {
				h = ev.Mix(h, uint64(it.ID))
			}
			h = ev.Mix(h, 0xfeed)
			for _, it := range new {
				h = ev.Mix(h, uint64(it.ID))
			}
			return h&1 == 1
		}
	}
	return func(old, new []item) bool {
		st.calls++
		r := f(old, new)
		if r {
			st.replaced++
		}
		return r
	}
}

func main() {
	r := ev.New("C18")
	r.Rule("one case = one generated instance: (a) item list (weights >= 0 from small alphabets / zero / heavier than the limit, values > 0 from small alphabets / proportional to weight) + limit (0, small, around the weight sum) run through Knapsack with no tie-breaker and with five tie-breakers; (b) value list + maxValue run through FindDpSolvers for allowOverOnce in {false,true} x the same six tie-breaker settings, followed by Best/BestAllowMinOverflow queries; (c) an undirected simple graph (G(n,p) at all densities, multipartite, clique unions, paths/cycles/stars, isolated vertices, empty) built in a seeded insertion order and enumerated several times (Go's map order varies between calls). distinct = hash of the instance (items+limit, or adjacency matrix); non-trivial = at least 2 items / 2 vertices")
	r.Assume("the oracle is the enumeration of all 2^n selections (vertex subsets) for n <= 10 (14 thorough) items, n <= 9 (12 thorough) vertices; the wide engines (n up to 40 items / 16..20 vertices) use a naive two-row value table, a boolean reachability table and a 2^n clique table instead, and the two tables are cross-checked against the enumeration on every small case (disagreement = harness failure)")
	r.Assume("domain as quantified: weights >= 0, values > 0, limit >= 0 for Knapsack (no selection satisfies a negative limit, so the statement cannot be about it), any maxValue for FindDpSolvers (negative ones occasionally), simple graphs without self-loops built with AddNode/AddUndirectedEdge; for the empty graph both [] and [[]] are accepted")
	r.Assume("keys above maxValue other than the smallest attainable overshoot (golib keeps earlier, larger overshoots) are not judged except that every entry present must be a valid selection summing to its key; Best(q)/BestAllowMinOverflow(q) are also queried for q < maxValue of the construction, where the statement's description of the map determines the answer")

	hv := ev.Opt{HangViolation: true, MaxCaseSeconds: 120}
	r.Cases("knapsack/brute", r.N(120000, 3000000), hv, knapsackCase(false))
	r.Cases("knapsack/wide", r.N(1200, 40000), hv, knapsackCase(true))
	r.Cases("finddp/brute", r.N(80000, 1600000), hv, findDpCase(false))
	r.Cases("finddp/wide", r.N(1000, 30000), hv, findDpCase(true))
	r.Cases("cliques/brute", r.N(100000, 2000000), hv, cliqueCase(false))
	r.Cases("cliques/wide", r.N(800, 4000), hv, cliqueCase(true))

	// anti-vacuity floors: about 1/5 .. 1/10 of what the quick tier observes at seed 1
	r.Require("ks_calls", 150000)
	r.Require("ks_instances_with_several_optima", 6000)
	r.Require("ks_breaker_calls", 2000000)
	r.Require("ks_breaker_replaced", 500000)
	r.Require("ks_breaker_kept", 500000)
	r.Require("ks_zero_weight_items", 10000)
	r.Require("ks_overweight_items", 30000)
	r.Require("ks_empty_input", 500)
	r.Require("ks_limit_zero", 4000)
	r.Require("ks_everything_fits", 3000)
	r.Require("ks_nothing_fits", 4000)
	r.Require("fd_calls", 200000)
	r.Require("fd_entries_checked", 3000000)
	r.Require("fd_breaker_rejected_new", 2000000)
	r.Require("fd_breaker_replaced_old", 1000000)
	r.Require("fd_overshoot_required_present", 60000)
	r.Require("fd_maps_with_several_overshoot_keys", 20000)
	r.Require("fd_best_queries", 2000000)
	r.Require("fd_best_nearest_below", 500000)
	r.Require("fd_bamo_overshoot_answers", 500000)
	r.Require("fd_bamo_fallback_largest", 40000)
	r.Require("fd_max_negative", 300)
	r.Require("fd_empty_input", 300)
	r.Require("cl_enumerations", 100000)
	r.Require("cl_graph_values_reused_after_init", 5000)
	r.Require("cl_cliques_compared", 400000)
	r.Require("cl_isolated_vertices", 20000)
	r.Require("cl_empty_graph", 1000)
	r.Require("cl_complete_graphs", 3000)
	r.Require("cl_edgeless_graphs", 4000)
	r.Finish()
}
