// C18 — Knapsack, subset-sum solvers and maximal-clique enumeration are exact.
//
// Brute-force monitors: the real algz.Knapsack / algz.FindDpSolvers /
// Graph.GetMaximalCliques run on generated hostile instances (equal weights and
// values, zero weights, items heavier than the limit, empty input, limit 0, all
// tie-breaker behaviours, all graph densities incl. isolated vertices and the
// empty graph) and every returned selection / map entry / clique list is judged
// against an enumeration of all 2^n selections (vertex subsets).  "wide"
// engines repeat the same checks on larger instances where the optimum /
// reachable totals come from a naive two-row table that is itself cross-checked
// against the enumeration on every small case.
//
// Further engines produce the situations of LESSONS.md that "call, then judge"
// cases do not contain: big.go (sizes above thresholds), grow.go (a Graph value
// that keeps growing between enumerations, kept and scribbled results; unions
// of small graphs with hundreds of vertices), huge.go (limits and values at the
// top of the int range; totals beyond it), session.go (uninterrupted call
// sequences from one caller buffer with one ingredient changed per call,
// panicking and re-entrant callbacks, kept results), fdjudge.go (FindDpSolvers
// oracle interface and judge shared by them), mid.go (the sizes between the
// wide and the big engines, graphs with large neighbourhoods, explicit nil
// tie-breaker), long.go (more than 255 values for FindDpSolvers, Knapsack
// tables of more than 2^15 / 2^16 cells in the quick tier).
//
// Files: main.go (engines, shared helpers), knapsack.go, finddp.go, cliques.go,
// big.go, grow.go, huge.go, session.go, fdjudge.go, mid.go, long.go.
package main

import (
	"fmt"
	"math"
	"math/bits"
	"strings"

	"verif/ev"
)

// item is the element type handed to golib; ID is the index in the input list,
// so "uses each item at most once" is decided on identities, not on (w,v) pairs.
type item struct{ ID, W, V int }

func fmtItems(items []item) string {
	var b strings.Builder
	b.WriteByte('[')
	for i, it := range items {
		if i > 0 {
			b.WriteByte(' ')
		}
		if i >= 48 {
			fmt.Fprintf(&b, "…(%d more)", len(items)-i)
			break
		}
		fmt.Fprintf(&b, "#%d(w%d,v%d)", it.ID, it.W, it.V)
	}
	b.WriteByte(']')
	return b.String()
}

func fmtVals(items []item) string {
	var b strings.Builder
	b.WriteByte('[')
	for i, it := range items {
		if i > 0 {
			b.WriteByte(' ')
		}
		if i >= 48 {
			fmt.Fprintf(&b, "…(%d more)", len(items)-i)
			break
		}
		fmt.Fprintf(&b, "#%d:%d", it.ID, it.V)
	}
	b.WriteByte(']')
	return b.String()
}

func hashItems(kind uint64, limit int, items []item) uint64 {
	h := ev.Mix(kind, uint64(int64(limit)), uint64(len(items)))
	for _, it := range items {
		h = ev.Mix(h, uint64(it.W), uint64(it.V))
	}
	return h
}

// selInfo is what the oracle derives from a returned selection.
type selInfo struct {
	w, v int
	vInf bool // the total value does not fit an int (v is then math.MaxInt)
	mask uint64
}

// checkSel decides "every element is one of the input items and no item is used
// twice" and returns the selection's total weight and value. ctx renders the
// instance for the failure message.
func checkSel(c *ev.Case, prefix string, ctx func() string, items, sel []item) (selInfo, bool) {
	var s selInfo
	fmtItems := fmtItems
	if strings.HasPrefix(prefix, "fd") {
		fmtItems = fmtVals // subset-sum items have no weight
	}
	if len(sel) > len(items) {
		c.Failf(prefix+"/item-reused", "returned selection has %d elements but only %d items exist: %s ; %s", len(sel), len(items), fmtItems(clip(sel)), ctx())
		return s, false
	}
	var seen []bool // identities beyond the 64 a mask can hold
	if len(items) > 64 {
		seen = make([]bool, len(items))
	}
	for _, it := range sel {
		if it.ID < 0 || it.ID >= len(items) || items[it.ID] != it {
			c.Failf(prefix+"/foreign-item", "returned selection %s contains %+v which is not one of the input items ; %s", fmtItems(clip(sel)), it, ctx())
			return s, false
		}
		dup := false
		if seen != nil {
			dup, seen[it.ID] = seen[it.ID], true
		} else {
			dup = s.mask&(1<<uint(it.ID)) != 0
			s.mask |= 1 << uint(it.ID)
		}
		if dup {
			c.Failf(prefix+"/item-reused", "returned selection %s uses item #%d more than once ; %s", fmtItems(clip(sel)), it.ID, ctx())
			return s, false
		}
		if it.W > 0 && s.w > math.MaxInt-it.W {
			s.w = math.MaxInt // saturate: "unliftable" weights must not wrap around
		} else {
			s.w += it.W
		}
		if it.V > 0 && s.v > math.MaxInt-it.V {
			s.v, s.vInf = math.MaxInt, true
		} else {
			s.v += it.V
		}
	}
	return s, true
}

// input hands golib a private copy of the item list that sits in the middle of
// a larger arena (spare capacity behind it, guard elements on both sides) and
// returns a function that decides "the call left its argument and the
// neighbouring storage alone".
func input(c *ev.Case, prefix string, items []item) ([]item, func(ctx func() string) bool) {
	const guard = 3
	n := len(items)
	arena := make([]item, n+2*guard)
	for i := range arena {
		arena[i] = item{ID: -1000 - i, W: -77, V: -99}
	}
	in := arena[guard : guard+n] // cap(in) = n+guard: an append inside golib lands on a guard element
	copy(in, items)
	if n == 0 && c.Index%2 == 0 {
		in = nil // "no items" as a nil slice in half of the empty cases
		c.Add("empty_input_as_nil_slice", 1)
	}
	return in, func(ctx func() string) bool {
		for i := range in {
			if in[i] != items[i] {
				c.Failf(prefix+"/input-modified", "the item list handed to the call was modified: position %d held %+v before the call and %+v after it ; %s", i, items[i], in[i], ctx())
				return false
			}
		}
		for i := range arena {
			if (i < guard || i >= guard+n) && arena[i] != (item{ID: -1000 - i, W: -77, V: -99}) {
				c.Failf(prefix+"/input-modified", "the call wrote outside the item list it was given (caller's storage %d places from the start of the list now holds %+v) ; %s", i-guard, arena[i], ctx())
				return false
			}
		}
		c.Add("inputs_compared_after_call", 1)
		return true
	}
}

func clip(sel []item) []item {
	if len(sel) > 64 {
		return sel[:64]
	}
	return sel
}

// subsetSums returns, for every mask over len(vals) items, the sum of the chosen vals.
func subsetSums(vals []int) []int {
	s := make([]int, 1<<uint(len(vals)))
	for m := 1; m < len(s); m++ {
		s[m] = s[m&(m-1)] + vals[bits.TrailingZeros(uint(m))]
	}
	return s
}

// ---- tie-breakers -------------------------------------------------------

type brStat struct{ calls, replaced int64 }

var breakerNames = []string{"none", "always-replace", "never-replace", "prefer-shorter", "prefer-longer", "hash"}

// mkBreaker returns the tie-breaker of the given kind (nil for kind 0). Every
// breaker is a pure function of its two arguments, so golib's map iteration
// order cannot change what a breaker answers for a given pair.
func mkBreaker(kind int, salt uint64, st *brStat) func(old, new []item) bool {
	var f func(old, new []item) bool
	switch kind {
	case 0:
		return nil
	case 1:
		f = func(old, new []item) bool { return true }
	case 2:
		f = func(old, new []item) bool { return false }
	case 3:
		f = func(old, new []item) bool { return len(new) < len(old) }
	case 4:
		f = func(old, new []item) bool { return len(new) > len(old) }
	default:
		f = func(old, new []item) bool {
			h := salt
			for _, it := range old {
				h = ev.Mix(h, uint64(it.ID))
			}
			h = ev.Mix(h, 0xfeed)
			for _, it := range new {
				h = ev.Mix(h, uint64(it.ID))
			}
			return h&1 == 1
		}
	}
	return func(old, new []item) bool {
		st.calls++
		r := f(old, new)
		if r {
			st.replaced++
		}
		return r
	}
}

func main() {
	r := ev.New("C18")
	r.Rule("one case = one generated instance: (a) item list (weights >= 0 from small alphabets / zero / heavier than the limit, values > 0 from small alphabets / proportional to weight) + limit (0, small, around the weight sum) run through Knapsack with no tie-breaker and with five tie-breakers; (b) value list + maxValue run through FindDpSolvers for allowOverOnce in {false,true} x the same six tie-breaker settings, followed by Best/BestAllowMinOverflow queries; (c) an undirected simple graph (G(n,p) at all densities, multipartite, clique unions, paths/cycles/stars, isolated vertices, empty) built in a seeded insertion order and enumerated several times (Go's map order varies between calls). distinct = hash of the instance (items+limit, or adjacency matrix); non-trivial = at least 2 items / 2 vertices; (d) further engines, one per situation that do-then-observe cases do not contain: big (65..300 items, selections longer than 64/128/256, limits and key counts above 4096, unions of small graphs with 65..4100 vertices), cliques/grow (one Graph value grown in windows of unobserved mutators, results kept and judged again later or overwritten by the caller, Init half-way, first stage written into Nodes), cliques/labels (look-alike labels of several types), finddp/hugelimit and finddp/overflow (limits/values of 2^31..MaxInt; totals beyond MaxInt), session/serial (uninterrupted call sequence from one caller buffer, one ingredient changed per call, panicking and re-entrant callbacks, all results judged again at the end), knapsack/mid, finddp/mid, cliques/mid (the sizes between the wide and the big engines: 41..64 items, 23..64 values, exactly 17..64 vertices, with 32/33, 48/49, 63/64 picked on purpose; limits 901..4094; no tie-breaker passed as an explicit nil function in half of those calls), cliques/hubs (connected graphs of 66..230 vertices in which some vertices have 65..220 neighbours: a few hubs plus leaves adjacent to subsets of the hubs, and small graphs blown up by replacing vertices with independent sets), finddp/long (255..300 values: selections of more than 255 items in the map), knapsack/longtable (6..14 items under limits around 2^15 and 2^16 and up to 100000), knapsack/exactfill (3..12 items under limits of 2^16..2^21+7, some of them cut from the limit itself so that the best selection loads the knapsack to exactly the limit)")
	r.Assume("the oracle is the enumeration of all 2^n selections (vertex subsets) for n <= 10 (14 thorough) items, n <= 9 (12 thorough) vertices; the wide engines (n up to 40 items / 16..20 vertices) use a naive two-row value table, a boolean reachability table and a 2^n clique table instead, and the two tables are cross-checked against the enumeration on every small case (disagreement = harness failure)")
	r.Assume("domain as quantified: weights >= 0, values > 0, limit >= 0 for Knapsack (no selection satisfies a negative limit, so the statement cannot be about it), any maxValue for FindDpSolvers (negative ones occasionally), simple graphs without self-loops built with AddNode/AddUndirectedEdge; for the empty graph both [] and [[]] are accepted")
	r.Assume("keys above maxValue other than the smallest attainable overshoot (golib keeps earlier, larger overshoots) are not judged except that every entry present must be a valid selection summing to its key; Best(q)/BestAllowMinOverflow(q) are also queried for q < maxValue of the construction, where the statement's description of the map determines the answer")

	r.Assume("every call gets its item list in the middle of a guarded arena with spare capacity; the list and the storage around it must be the same after the call (the API does not say the argument is consumed). A result that was exact when returned must still be exact for the instance it was computed for after later calls and after the caller reused its own buffer; the caller may overwrite a returned clique list")
	r.Assume("finddp/overflow: single values and limits up to math.MaxInt; totals of selections may exceed it and are then above every limit (oracle adds with saturation). Only what the statement speaks about is judged there: entries with key in [0,maxValue], the smallest attainable overshoot if it fits an int, Best/BestAllowMinOverflow for arguments <= maxValue")

	r.Assume("cliques/hubs: the expected family comes from the construction (hubs+leaves: {leaf}+C for every maximal clique C of the core induced on the leaf's hubs, plus the maximal cliques of the core no leaf covers; blow-up: all transversals of the maximal cliques of the small graph); before golib is asked every listed set is checked against the definition of a maximal clique, every returned set is decided by the definition too, and a set that is maximal by the definition but not listed is a harness failure")
	hv := ev.Opt{HangViolation: true, MaxCaseSeconds: 120}
	r.Cases("knapsack/brute", r.N(120000, 3000000), hv, knapsackCase(false))
	// the same workload on parallel workers under the race detector (see harness/LESSONS.md 17)
	r.CasesProc("knapsack/race-parallel", r.N(1200, 30000), ev.Opt{Bin: "race", Procs: 2, Workers: 8, AlwaysLog: true, HangViolation: true, MaxCaseSeconds: 120}, knapsackCase(false))
	r.CasesProc("finddp/race-parallel", r.N(800, 20000), ev.Opt{Bin: "race", Procs: 2, Workers: 8, AlwaysLog: true, HangViolation: true, MaxCaseSeconds: 120}, findDpCase(false))
	r.Cases("knapsack/wide", r.N(1200, 40000), hv, knapsackCase(true))
	r.Cases("finddp/brute", r.N(80000, 1600000), hv, findDpCase(false))
	r.Cases("finddp/wide", r.N(1000, 30000), hv, findDpCase(true))
	r.Cases("cliques/brute", r.N(100000, 2000000), hv, cliqueCase(false))
	r.CasesProc("cliques/race-parallel", r.N(1000, 20000), ev.Opt{Bin: "race", Procs: 2, Workers: 8, AlwaysLog: true, HangViolation: true, MaxCaseSeconds: 120}, cliqueCase(false))
	if !r.HasViolations() || r.IsReplay() {
		// (cliques/wide too: with a candidate list that never shrinks an enumeration of 16
		// vertices does not end and takes the whole machine's memory with it)
		r.Cases("cliques/wide", r.N(800, 4000), hv, cliqueCase(true))
		// the big instances are only worth their cost (and, on a broken tree, their
		// memory: a list that is not reset grows with every recycling) while the
		// verdict is still open
		r.Cases("knapsack/big", r.N(160, 3000), hv, bigKnapsackCase)
		r.Cases("finddp/big", r.N(120, 2000), hv, bigFindDpCase)
		r.Cases("cliques/big", r.N(300, 1500), hv, bigCliqueCase)
	}
	r.Cases("cliques/labels", r.N(8000, 150000), hv, labelCase)
	r.Cases("cliques/grow", r.N(30000, 300000), hv, growCase)
	r.Cases("knapsack/hugevalues", r.N(6000, 150000), hv, hugeValueKnapsackCase)
	r.Cases("finddp/hugelimit", r.N(3000, 60000), hv, hugeCase(false))
	r.Cases("session/serial", r.N(6000, 100000), ev.Opt{HangViolation: true, MaxCaseSeconds: 60, Serial: true}, sessionCase)
	r.Cases("finddp/overflow", r.N(6000, 150000), hv, hugeCase(true))
	if !r.HasViolations() || r.IsReplay() {
		// same reason as for the big engines: on a tree that is already known to be broken
		// a list that keeps growing or a candidate set that never shrinks makes these
		// instances (up to 300 values, neighbourhoods of 200 vertices) cost tens of GB
		r.Cases("knapsack/mid", r.N(300, 3000), hv, midKnapsackCase)
		r.Cases("finddp/mid", r.N(200, 3000), hv, midFindDpCase)
		r.Cases("cliques/mid", r.N(600, 8000), hv, midCliqueCase)
		r.Cases("cliques/hubs", r.N(200, 2500), hv, hubCliqueCase)
		r.Cases("finddp/long", r.N(40, 400), hv, longFindDpCase)
		r.Cases("knapsack/longtable", r.N(32, 300), hv, longTableKnapsackCase)
		// limits of 2^16..2^21 whose best selection loads the knapsack to exactly the limit (exactfill.go)
		r.Cases("knapsack/exactfill", r.N(40, 400), ev.Opt{HangViolation: true, MaxCaseSeconds: 300, Workers: 4}, exactFillKnapsackCase)
	}

	// anti-vacuity floors: about 1/5 .. 1/10 of what the quick tier observes at seed 1
	r.Require("ks_calls", 150000)
	r.Require("ks_instances_with_several_optima", 6000)
	r.Require("ks_breaker_calls", 2000000)
	r.Require("ks_breaker_replaced", 500000)
	r.Require("ks_breaker_kept", 500000)
	r.Require("ks_zero_weight_items", 10000)
	r.Require("ks_overweight_items", 30000)
	r.Require("ks_empty_input", 500)
	r.Require("ks_limit_zero", 4000)
	r.Require("ks_everything_fits", 3000)
	r.Require("ks_nothing_fits", 4000)
	r.Require("fd_calls", 200000)
	r.Require("fd_entries_checked", 3000000)
	r.Require("fd_breaker_rejected_new", 2000000)
	r.Require("fd_breaker_replaced_old", 1000000)
	r.Require("fd_overshoot_required_present", 60000)
	r.Require("fd_maps_with_several_overshoot_keys", 20000)
	r.Require("fd_best_queries", 2000000)
	r.Require("fd_best_nearest_below", 500000)
	r.Require("fd_bamo_overshoot_answers", 500000)
	r.Require("fd_bamo_fallback_largest", 40000)
	r.Require("fd_max_negative", 300)
	r.Require("fd_empty_input", 300)
	r.Require("cl_enumerations", 100000)
	r.Require("cl_graph_values_reused_after_init", 5000)
	r.Require("cl_cliques_compared", 400000)
	r.Require("cl_isolated_vertices", 20000)
	r.Require("cl_empty_graph", 1000)
	r.Require("cl_complete_graphs", 3000)
	r.Require("cl_edgeless_graphs", 4000)
	// floors for the situations added after the LESSONS review (about 1/3 of a quick run)
	r.Require("inputs_compared_after_call", 300000)
	r.Require("kb_calls", 200)
	r.Require("kb_limit_above_4096", 30)
	r.Require("kb_limit_above_16384", 3)
	r.Require("kb_selections_longer_than_64", 80)
	r.Require("kb_selections_longer_than_128", 30)
	r.Require("kb_selections_longer_than_256", 5)
	r.Require("fb_calls", 250)
	r.Require("fb_maps_with_more_than_4096_entries", 80)
	r.Require("fb_maps_with_selection_longer_than_64", 50)
	r.Require("fb_maps_with_selection_longer_than_128", 15)
	r.Require("cb_enumerations", 400)
	r.Require("cb_graphs_with_more_than_64_vertices", 200)
	r.Require("cb_graphs_with_more_than_256_vertices", 40)
	r.Require("cl_graphs_with_lookalike_labels", 8000)
	r.Require("cg_enumerations", 100000)
	r.Require("cg_windows_adding_only_edges_between_existing_vertices", 20000)
	r.Require("cg_windows_adding_only_isolated_vertices", 4000)
	r.Require("cg_windows_changing_nothing", 1000)
	r.Require("cg_kept_results_judged_again", 40000)
	r.Require("cg_results_scribbled_by_caller", 40000)
	r.Require("cg_first_stage_written_into_Nodes", 2500)
	r.Require("cg_reinitialised_for_another_size", 3000)
	r.Require("kh_calls", 8000)
	r.Require("kh_optimum_at_least_2_53", 2000)
	r.Require("empty_input_as_nil_slice", 1500)
	r.Require("fh_calls", 10000)
	r.Require("fh_limit_at_top_of_int_range", 200)
	r.Require("fh_values_at_least_2_31", 4000)
	r.Require("fh_best_answer_2_31_or_more_below_query", 20000)
	r.Require("fh_bamo_answer_2_31_or_more_above_query", 30000)
	r.Require("fh_queries_far_below_zero", 20000)
	r.Require("fo_calls", 12000)
	r.Require("fo_instances_with_totals_beyond_maxint", 1800)
	r.Require("fo_limit_at_top_of_int_range", 200)
	r.Require("ss_calls", 15000)
	r.Require("ss_same_buffer_other_content", 3000)
	r.Require("ss_same_content_other_limit", 1000)
	r.Require("ss_same_content_other_allow", 500)
	r.Require("ss_same_content_other_breaker", 1500)
	r.Require("ss_exact_repeats", 1000)
	r.Require("ss_new_instance_same_buffer", 1000)
	r.Require("ss_healthy_call_right_after_fault", 1500)
	r.Require("ss_complete_calls_made_from_inside_a_callback", 3000)
	r.Require("ss_kept_results_judged_again", 10000)
	// floors added by the clause-coverage audit: input classes the quantifier names
	// ("many equal weights/values", "items heavier than the limit") and answer kinds
	// whose counters had no floor (about 1/5 of a quick run) ...
	r.Require("ks_equal_weight_groups", 25000)
	r.Require("ks_equal_value_groups", 25000)
	r.Require("ks_items_exactly_filling_limit", 6000)
	r.Require("ks_nonempty_results", 100000)
	r.Require("fd_instances_with_equal_sums", 10000)
	r.Require("fd_equal_value_groups", 20000)
	r.Require("fd_items_above_max", 20000)
	r.Require("fd_calls_overflow_allowed", 100000)
	r.Require("fd_max_zero", 2000)
	r.Require("fd_max_at_or_above_sum_of_all", 3000)
	r.Require("fd_no_overshoot_possible", 3000)
	r.Require("fd_best_exact", 1000000)
	r.Require("fd_bamo_exact_answers", 1000000)
	r.Require("cg_edges_added_as_two_directed_halves", 20000)
	// ... and the size classes between the wide and the big engines, graphs with
	// large neighbourhoods, and the tie-breaker passed as an explicit nil (about 1/3)
	r.Require("km_calls", 300)
	r.Require("km_instances_with_49_to_64_items", 80)
	r.Require("km_instances_with_exactly_64_items", 8)
	r.Require("km_selections_longer_than_48", 80)
	r.Require("km_limit_901_to_4094", 20)
	r.Require("km_calls_with_explicit_nil_breaker", 40)
	r.Require("fm_calls", 400)
	r.Require("fm_instances_with_49_to_64_values", 30)
	r.Require("fm_instances_with_exactly_64_values", 5)
	r.Require("fm_maps_with_selection_longer_than_48", 70)
	r.Require("fm_calls_with_explicit_nil_breaker", 60)
	r.Require("cm_enumerations", 600)
	r.Require("cm_graphs_with_33_to_64_vertices", 150)
	r.Require("cm_graphs_with_exactly_32_vertices", 15)
	r.Require("cm_graphs_with_exactly_63_vertices", 15)
	r.Require("cm_graphs_with_exactly_64_vertices", 25)
	r.Require("fl_calls", 60)
	r.Require("fl_instances_with_more_than_256_values", 10)
	r.Require("fl_maps_with_selection_longer_than_256", 25)
	r.Require("kl_calls", 30)
	r.Require("kx_calls", 40)
	r.Require("kx_limit_at_least_2^20", 15)
	r.Require("kx_optimum_fills_exactly_at_least_2^20", 12)
	r.Require("kl_limit_above_32767", 15)
	r.Require("kl_limit_above_65535", 8)
	r.Require("kl_selections_heavier_than_65535", 8)
	r.Require("ch_enumerations", 150)
	r.Require("ch_hubs_and_leaves_graphs", 40)
	r.Require("ch_blown_up_graphs", 20)
	r.Require("ch_graphs_with_a_vertex_of_more_than_64_neighbours", 40)
	r.Require("ch_graphs_with_a_vertex_of_more_than_128_neighbours", 12)
	r.Require("ch_graphs_with_more_than_8_such_vertices", 4)
	r.Finish()
}
