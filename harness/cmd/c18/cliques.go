package main

import (
	"fmt"
	"math/bits"
	"sort"
	"strings"

	"github.com/welllog/golib/algz"

	"verif/ev"
)

// genGraph returns n and the adjacency masks of an undirected simple graph.
func genGraph(rng *ev.Rand, lo, hi int) (int, []uint32, string) {
	n := rng.Range(max(lo, 1), hi)
	if rng.Chance(1, 3) {
		n = rng.Range(max(lo, hi-3), hi)
	}
	if lo == 0 && rng.Chance(1, 60) {
		n = 0
	}
	adj := make([]uint32, n)
	edge := func(i, j int) {
		if i != j {
			adj[i] |= 1 << uint(j)
			adj[j] |= 1 << uint(i)
		}
	}
	gnp := func(pc int) {
		for i := 0; i < n; i++ {
			for j := i + 1; j < n; j++ {
				if rng.Intn(100) < pc {
					edge(i, j)
				}
			}
		}
	}
	kind := ""
	switch rng.Intn(12) {
	case 0, 1, 2, 3:
		pc := rng.Pick(0, 5, 10, 20, 30, 40, 50, 60, 70, 80, 90, 95, 100)
		kind = fmt.Sprintf("G(n,%d%%)", pc)
		gnp(pc)
	case 4: // complete multipartite (parts of size 3 = Moon–Moser: most maximal cliques)
		kind = "multipartite"
		k := rng.Range(1, 4)
		if rng.Bool() && n >= 3 {
			k = (n + 2) / 3
		}
		part := make([]int, n)
		for i := range part {
			if rng.Bool() {
				part[i] = i % k
			} else {
				part[i] = rng.Intn(k)
			}
		}
		for i := 0; i < n; i++ {
			for j := i + 1; j < n; j++ {
				if part[i] != part[j] {
					edge(i, j)
				}
			}
		}
	case 5: // disjoint union of cliques
		kind = "clique-union"
		k := rng.Range(1, 4)
		for i := 0; i < n; i++ {
			for j := i + 1; j < n; j++ {
				if i%k == j%k {
					edge(i, j)
				}
			}
		}
	case 6: // path / cycle / star
		switch rng.Intn(3) {
		case 0:
			kind = "path"
			for i := 0; i+1 < n; i++ {
				edge(i, i+1)
			}
		case 1:
			kind = "cycle"
			for i := 0; i < n; i++ {
				edge(i, (i+1)%n)
			}
		default:
			kind = "star"
			for i := 1; i < n; i++ {
				edge(0, i)
			}
		}
	case 7: // complete minus a few edges (cocktail-party like)
		kind = "complete-minus"
		gnp(100)
		for k := rng.Range(0, n); k > 0 && n >= 2; k-- {
			i, j := rng.Intn(n), rng.Intn(n)
			if i != j {
				adj[i] &^= 1 << uint(j)
				adj[j] &^= 1 << uint(i)
			}
		}
	case 8: // random graph with some vertices isolated afterwards
		kind = "G(n,p)+isolated"
		gnp(rng.Pick(30, 60, 90))
		for i := 0; i < n; i++ {
			if rng.Chance(1, 3) {
				for j := 0; j < n; j++ {
					adj[j] &^= 1 << uint(i)
				}
				adj[i] = 0
			}
		}
	case 9: // overlapping cliques
		kind = "overlapping-cliques"
		for k := rng.Range(1, 4); k > 0 && n > 0; k-- {
			m := uint32(rng.Uint64()) & (1<<uint(n) - 1)
			for i := 0; i < n; i++ {
				for j := i + 1; j < n; j++ {
					if m>>uint(i)&1 == 1 && m>>uint(j)&1 == 1 {
						edge(i, j)
					}
				}
			}
		}
	case 10:
		kind = "edgeless"
	default:
		kind = "complete"
		gnp(100)
	}
	return n, adj, kind
}

// maximalCliques enumerates all 2^n vertex subsets: a subset is reported iff it
// is a clique and no vertex outside it is adjacent to all of its members.
func maximalCliques(n int, adj []uint32) []uint32 {
	size := 1 << uint(n)
	cn := make([]uint32, size) // common neighbours of the subset
	ok := make([]bool, size)   // subset is a clique
	cn[0] = uint32(size - 1)
	ok[0] = true
	var out []uint32
	if cn[0] == 0 {
		out = append(out, 0) // n == 0: the empty set is the only clique and nothing extends it
	}
	for m := 1; m < size; m++ {
		low := bits.TrailingZeros(uint(m))
		rest := uint32(m & (m - 1))
		ok[m] = ok[rest] && adj[low]&rest == rest
		cn[m] = cn[rest] & adj[low]
		if ok[m] && cn[m] == 0 {
			out = append(out, uint32(m))
		}
	}
	return out
}

func fmtMask(m uint32) string {
	var b strings.Builder
	b.WriteByte('{')
	first := true
	for i := 0; i < 32; i++ {
		if m>>uint(i)&1 == 1 {
			if !first {
				b.WriteByte(',')
			}
			first = false
			fmt.Fprintf(&b, "%d", i)
		}
	}
	b.WriteByte('}')
	return b.String()
}

func fmtGraph(n int, adj []uint32) string {
	var b strings.Builder
	fmt.Fprintf(&b, "vertices 0..%d, edges [", n-1)
	first := true
	for i := 0; i < n; i++ {
		for j := i + 1; j < n; j++ {
			if adj[i]>>uint(j)&1 == 1 {
				if !first {
					b.WriteByte(' ')
				}
				first = false
				fmt.Fprintf(&b, "%d-%d", i, j)
			}
		}
	}
	b.WriteString("]")
	return b.String()
}

// buildAndCheck builds the graph over the given vertex labels with golib's API in
// a seeded insertion order and compares `calls` enumerations with the expected family.
func buildAndCheck[T comparable](c *ev.Case, labels []T, n int, adj []uint32, want []uint32, calls int, kind string) bool {
	return buildAndCheckOn[T](c, nil, labels, n, adj, want, calls, kind)
}

// buildAndCheckOn: with reuse != nil the graph is built on that already used
// Graph value after Init (a re-initialised graph must behave like a fresh one).
func buildAndCheckOn[T comparable](c *ev.Case, reuse *algz.Graph[T], labels []T, n int, adj []uint32, want []uint32, calls int, kind string) bool {
	rng := c.Rng
	index := make(map[T]int, n)
	for i, l := range labels {
		index[l] = i
	}
	gdesc := func() string {
		return fmt.Sprintf("%s graph: %s (vertex i is labelled %v)", kind, fmtGraph(n, adj), labels)
	}

	var fresh algz.Graph[T]
	g := &fresh
	if reuse != nil {
		g = reuse
		kind += " (Graph value reused after Init)"
	}
	// operations: AddNode for isolated vertices (and a seeded half of the others), one
	// AddUndirectedEdge per edge in a seeded orientation, a few duplicates; seeded order
	type op struct{ a, b int } // b < 0: AddNode(a)
	var ops []op
	for i := 0; i < n; i++ {
		if adj[i] == 0 || rng.Bool() {
			ops = append(ops, op{i, -1})
		}
		for j := i + 1; j < n; j++ {
			if adj[i]>>uint(j)&1 == 1 {
				if rng.Bool() {
					ops = append(ops, op{i, j})
				} else {
					ops = append(ops, op{j, i})
				}
				if rng.Chance(1, 8) {
					ops = append(ops, op{j, i})
				}
			}
		}
	}
	perm := rng.Perm(len(ops))
	okBuild := c.Guard("Graph.build", func() {
		if reuse != nil || rng.Bool() {
			g.Init(rng.Intn(n + 2))
		}
		for _, p := range perm {
			o := ops[p]
			if o.b < 0 {
				g.AddNode(labels[o.a])
			} else {
				g.AddUndirectedEdge(labels[o.a], labels[o.b])
			}
		}
	})
	if !okBuild {
		return false
	}
	c.Logf("built %s with %d AddNode/AddUndirectedEdge calls; expected maximal cliques: %d", gdesc(), len(ops), len(want))

	for call := 0; call < calls; call++ {
		var got [][]T
		if !c.Guard("GetMaximalCliques", func() { got = g.GetMaximalCliques() }) {
			return false
		}
		c.Logf("GetMaximalCliques() #%d -> %v", call+1, got)
		c.Add("cl_enumerations", 1)
		if n == 0 {
			// empty graph: "no clique at all" and "the empty clique" are both readings of the statement
			if len(got) == 0 || (len(got) == 1 && len(got[0]) == 0) {
				c.Add("cl_empty_graph", 1)
				continue
			}
			c.Failf("cl/empty-graph", "GetMaximalCliques() on the empty graph returned %v", got)
			return false
		}
		if len(got) > 4*len(want)+64 {
			c.Failf("cl/count", "GetMaximalCliques() returned %d cliques, the graph has %d maximal cliques ; %s", len(got), len(want), gdesc())
			return false
		}
		masks := make([]uint32, 0, len(got))
		for _, cl := range got {
			var m uint32
			if len(cl) > n {
				c.Failf("cl/vertex-repeated", "returned clique %v has %d entries in a graph with %d vertices ; %s", cl, len(cl), n, gdesc())
				return false
			}
			for _, v := range cl {
				i, ok := index[v]
				if !ok {
					c.Failf("cl/foreign-vertex", "returned clique %v contains %v which is not a vertex ; %s", cl, v, gdesc())
					return false
				}
				if m>>uint(i)&1 == 1 {
					c.Failf("cl/vertex-repeated", "returned clique %v lists vertex %v twice ; %s", cl, v, gdesc())
					return false
				}
				m |= 1 << uint(i)
			}
			// definitional check, independent of the subset table
			for i := 0; i < n; i++ {
				if m>>uint(i)&1 == 1 && (m&^(1<<uint(i)))&^adj[i] != 0 {
					c.Failf("cl/not-a-clique", "returned set %s (labels %v) is not a clique: vertex %d is not adjacent to %s ; all returned: %v ; %s", fmtMask(m), cl, i, fmtMask((m&^(1<<uint(i)))&^adj[i]), got, gdesc())
					return false
				}
			}
			for u := 0; u < n; u++ {
				if m>>uint(u)&1 == 0 && adj[u]&m == m {
					c.Failf("cl/not-maximal", "returned clique %s (labels %v) is not maximal: vertex %d is adjacent to all its members ; all returned: %v ; %s", fmtMask(m), cl, u, got, gdesc())
					return false
				}
			}
			masks = append(masks, m)
		}
		sort.Slice(masks, func(i, j int) bool { return masks[i] < masks[j] })
		for i := 1; i < len(masks); i++ {
			if masks[i] == masks[i-1] {
				c.Failf("cl/duplicate", "maximal clique %s is returned more than once ; all returned: %v ; %s", fmtMask(masks[i]), got, gdesc())
				return false
			}
		}
		// masks and want are both sorted lists of distinct maximal cliques: any difference is a missing one
		for i, w := range want {
			if i >= len(masks) || masks[i] != w {
				// find the first expected clique that is absent
				have := map[uint32]bool{}
				for _, m := range masks {
					have[m] = true
				}
				for _, w2 := range want {
					if !have[w2] {
						w = w2
						break
					}
				}
				c.Failf("cl/missing", "maximal clique %s is not returned (%d returned, %d exist) ; all returned: %v ; %s", fmtMask(w), len(masks), len(want), got, gdesc())
				return false
			}
		}
		if len(masks) != len(want) {
			c.Failf("cl/count", "returned %d distinct maximal cliques but enumeration of all vertex subsets finds %d ; %s", len(masks), len(want), gdesc())
			return false
		}
		c.Add("cl_cliques_compared", int64(len(want)))
	}
	return true
}

func cliqueCase(wide bool) func(c *ev.Case) {
	return func(c *ev.Case) {
		rng := c.Rng
		lo, hi := 0, 9
		if c.Thorough() {
			hi = 12
		}
		if wide {
			lo, hi = 10, 16
			if c.Thorough() {
				hi = 20
			}
		}
		n, adj, kind := genGraph(rng, lo, hi)
		want := maximalCliques(n, adj)

		edges, isolated := 0, 0
		for i := 0; i < n; i++ {
			edges += bits.OnesCount32(adj[i])
			if adj[i] == 0 {
				isolated++
			}
		}
		edges /= 2
		c.Add("cl_graphs", 1)
		c.Add("cl_isolated_vertices", int64(isolated))
		if n > 0 && edges == 0 {
			c.Add("cl_edgeless_graphs", 1)
		}
		if n > 1 && edges == n*(n-1)/2 {
			c.Add("cl_complete_graphs", 1)
		}
		if n > 1 {
			c.Add(fmt.Sprintf("cl_density_decile_%d", edges*10/(n*(n-1)/2+1)), 1)
		}
		c.Max("cl_max_vertices", int64(n))
		c.Max("cl_max_family_size", int64(len(want)))
		for _, w := range want {
			c.Max("cl_max_clique_size", int64(bits.OnesCount32(w)))
		}

		calls := 3
		if wide {
			calls = 2
		}
		// integer labels (distinct, not 0..n-1), then string labels on a rebuilt graph
		il := make([]int, n)
		seen := map[int]bool{}
		for i := range il {
			for {
				x := rng.Range(-50, 1000)
				if rng.Chance(1, 10) {
					x = int(int32(rng.Uint32()))
				}
				if !seen[x] {
					seen[x] = true
					il[i] = x
					break
				}
			}
		}
		var shared algz.Graph[int]
		if !buildAndCheckOn(c, &shared, il, n, adj, want, calls, kind) {
			return
		}
		if n > 1 && rng.Chance(1, 2) {
			// the same Graph value again, after Init: same vertex labels, same
			// numbers of vertices and edges, but the edges go elsewhere
			p := rng.Perm(n)
			il2 := make([]int, n)
			for i := range il2 {
				il2[i] = il[p[i]]
			}
			if !buildAndCheckOn(c, &shared, il2, n, adj, want, 2, kind) {
				return
			}
			c.Add("cl_graph_values_reused_after_init", 1)
		}
		sl := make([]string, n)
		for i := range sl {
			sl[i] = fmt.Sprintf("v%d", il[i])
		}
		if !buildAndCheck(c, sl, n, adj, want, calls-1, kind) {
			return
		}
		if n >= 2 {
			h := ev.Mix('C', uint64(n))
			for _, a := range adj {
				h = ev.Mix(h, uint64(a))
			}
			c.Distinct(h)
		}
		if c.WantSample() {
			c.Sample(fmt.Sprintf("%s: %s -> %d maximal cliques, %d enumerations (int and string vertices) each returned exactly that family", kind, fmtGraph(n, adj), len(want), 2*calls-1))
		}
	}
}

// cliques/labels: vertex labels that are distinct as Go values but look alike
// once printed, hashed by a home-made function or compared after a conversion
// (LESSONS class 11): Graph[any] with 1, int64(1), "1", 1.0, true, "true", nil,
// "<nil>", arrays and structs; Graph[string] with "", " ", "a b" next to "a" and
// "b", brackets, commas, NUL, composed and decomposed accents.
var anyLabels = []any{1, int64(1), uint(1), int8(1), "1", 1.0, float32(1), true, "true", nil, "<nil>", [1]int{1}, "[1]",
	struct{ A int }{1}, "{1}", "1 1", 0, "", "0", -1, "-1", 'a', "a", "97"}

var strLabels = []string{"", " ", "  ", "a", "b", "a b", "b a", "a b c", "c", "[a", "b]", "[a b]", "a,b", ",", "v1", "v1 v2", "v2",
	"\x00", "a\x00", "\u00e9", "e\u0301", "A", "\n", "a\nb"}

func labelCase(c *ev.Case) {
	rng := c.Rng
	n, adj, kind := genGraph(rng, 2, 9)
	want := maximalCliques(n, adj)
	pa := rng.Perm(len(anyLabels))
	la := make([]any, n)
	for i := range la {
		la[i] = anyLabels[pa[i]]
	}
	if !buildAndCheck(c, la, n, adj, want, 2, kind+" with look-alike labels of several types") {
		return
	}
	ps := rng.Perm(len(strLabels))
	ls := make([]string, n)
	for i := range ls {
		ls[i] = strLabels[ps[i]]
	}
	if !buildAndCheck(c, ls, n, adj, want, 2, kind+" with look-alike string labels") {
		return
	}
	c.Add("cl_graphs_with_lookalike_labels", 2)
	c.Add("cl_lookalike_cliques_compared", int64(4*len(want)))
	h := ev.Mix('L', uint64(n))
	for _, a := range adj {
		h = ev.Mix(h, uint64(a))
	}
	c.Distinct(h)
	if c.WantSample() {
		c.Sample(fmt.Sprintf("%s: %s with labels %#v and %q -> %d maximal cliques each", kind, fmtGraph(n, adj), la, ls, len(want)))
	}
}
