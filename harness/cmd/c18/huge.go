package main

import (
	"fmt"
	"math"

	"github.com/welllog/golib/algz"

	"verif/ev"
)

// Two engines at the top of the int range (LESSONS class 8).
//
// finddp/hugelimit: limits and/or values of 2^31 .. math.MaxInt, but the total of
// ALL items still fits an int, so no addition inside a correct solver can wrap.
//
// finddp/overflow: a few items so valuable ("heavier than the limit" in the
// property's words) that the total of some selections exceeds math.MaxInt. Each
// single value and every total the statement speaks about (those <= maxValue and
// the smallest one above it, if it fits) is an ordinary int; only totals far
// above the limit are not. The oracle adds with saturation.

func genHugeLimit(rng *ev.Rand) ([]item, int, string) {
	n := rng.Range(1, 10)
	if rng.Chance(1, 3) {
		n = rng.Range(7, 10)
	}
	v := make([]int, n)
	kind := ""
	bases := []int{1 << 31, 1<<31 - 1, 1 << 32, 1<<32 + 1, 1 << 40, 1 << 53, 1 << 55, 1 << 58}
	switch rng.Intn(4) {
	case 0:
		kind = "small values"
		for i := range v {
			v[i] = rng.Range(1, 30)
		}
	case 1:
		kind = "multiples of one large unit"
		b := bases[rng.Intn(len(bases))]
		for i := range v {
			v[i] = b * rng.Range(1, 3)
		}
	case 2:
		kind = "large values with small offsets"
		for i := range v {
			v[i] = bases[rng.Intn(len(bases))]*rng.Range(1, 3) + rng.Range(-3, 3)
		}
	default:
		kind = "large and small values"
		for i := range v {
			if rng.Bool() {
				v[i] = rng.Range(1, 9)
			} else {
				v[i] = bases[rng.Intn(len(bases))] + rng.Range(0, 2)
			}
		}
	}
	sum := 0 // <= 10 * (3*2^58+3) < 2^63
	for _, x := range v {
		sum += x
	}
	sub := 0 // a seeded subset sum
	for _, x := range v {
		if rng.Bool() {
			sub += x
		}
	}
	var m int
	switch rng.Intn(12) {
	case 0:
		m = math.MaxInt
	case 1:
		m = math.MaxInt - rng.Range(1, 3)
	case 2:
		m = 1 << 62
	case 3:
		m = sum
	case 4:
		m = sum - 1
	case 5:
		m = sum + rng.Range(1, 3)
	case 6:
		m = sum / 2
	case 7, 8:
		m = sub + rng.Range(-2, 2)
	case 9:
		m = rng.Pick(1<<31, 1<<31-1, 1<<32, 1<<40, 1<<53+1)
	case 10:
		m = sub
	default:
		m = sum/3 + 1
	}
	if m < 1<<31 && sum < 1<<31 {
		m = rng.Pick(math.MaxInt, 1<<62, 1<<40, 1<<31, 1<<32+5)
	}
	if m < 0 {
		m = 0
	}
	items := make([]item, n)
	for i := range items {
		items[i] = item{ID: i, V: v[i]}
	}
	return items, m, kind
}

func genOverflow(rng *ev.Rand) ([]item, int, string) {
	ns := rng.Range(0, 5)
	nh := rng.Range(1, 3)
	if rng.Chance(2, 3) {
		nh = rng.Range(2, 3)
	}
	var v []int
	sumSmall := 0
	for i := 0; i < ns; i++ {
		x := rng.Range(1, 9)
		v = append(v, x)
		sumSmall += x
	}
	third := math.MaxInt/3*2 + 1 // about 2^64/3: three of them wrap once around to a small number
	for i := 0; i < nh; i++ {
		var x int
		switch rng.Intn(6) {
		case 0:
			x = math.MaxInt
		case 1:
			x = math.MaxInt - rng.Range(0, 12)
		case 2:
			x = 1<<62 + rng.Range(0, 5)
		case 3:
			x = third + rng.Range(-6, 6)
		case 4:
			x = 1<<62 - rng.Range(1, 9)
		default:
			x = math.MaxInt/2 + rng.Range(1, 9)
		}
		v = append(v, x)
	}
	p := rng.Perm(len(v))
	items := make([]item, len(v))
	for i := range items {
		items[i] = item{ID: i, V: v[p[i]]}
	}
	var m int
	kind := "small limit"
	switch rng.Intn(8) {
	case 0:
		m = 0
	case 1, 2, 3:
		m = rng.Range(0, sumSmall+3)
	case 4:
		m = sumSmall
	case 5:
		m, kind = math.MaxInt-rng.Range(0, 2), "limit at the top of the range"
	case 6:
		x, d := items[rng.Intn(len(items))].V, rng.Range(-1, 4)
		if d > 0 && x > math.MaxInt-d {
			d = 0
		}
		m, kind = x+d, "limit near one item"
	default:
		m, kind = 1<<62+rng.Range(0, 9), "limit 2^62"
	}
	return items, m, kind
}

// gapAtLeast2p31 decides a-b >= 2^31 for a >= b without overflow.
func gapAtLeast2p31(a, b int) bool {
	if b < 0 && a > math.MaxInt+b {
		return true
	}
	return a-b >= 1<<31
}

func hugeCase(overflow bool) func(c *ev.Case) {
	return func(c *ev.Case) {
		rng := c.Rng
		var items []item
		var maxValue int
		var kind, pfx, cn string
		if overflow {
			items, maxValue, kind = genOverflow(rng)
			pfx, cn = "fd-overflow", "fo_"
		} else {
			items, maxValue, kind = genHugeLimit(rng)
			pfx, cn = "fd-huge", "fh_"
		}
		salt := rng.Uint64()
		orc := newSumList(items)
		if !overflow && orc.inf {
			c.Run().HarnessFailure(fmt.Sprintf("finddp/hugelimit generated values whose total does not fit an int: %s", fmtVals(items)))
			return
		}
		c.Add(cn+"instances", 1)
		if orc.inf {
			c.Add(cn+"instances_with_totals_beyond_maxint", 1)
		}
		if maxValue >= 1<<31 {
			c.Add(cn+"limit_at_least_2_31", 1)
		}
		if maxValue >= math.MaxInt-3 {
			c.Add(cn+"limit_at_top_of_int_range", 1)
		}
		for _, it := range items {
			if it.V >= 1<<31 {
				c.Add(cn+"values_at_least_2_31", 1)
			}
		}
		if orc.above(maxValue) == notRepresentable {
			c.Add(cn+"smallest_overshoot_not_representable", 1)
		}

		bks := []int{0, rng.Range(1, 5), rng.Range(1, 5)}
		for _, allow := range []bool{false, true} {
			for _, bk := range bks {
				var st brStat
				f, ok := runFindDp(c, pfx, items, maxValue, allow, bk, salt, &st)
				if !ok {
					return
				}
				f.orc, f.strict = orc, !overflow
				c.Add(cn+"calls", 1)
				if !f.judgeMap(c) {
					return
				}
				c.Add(cn+"entries_checked", int64(len(f.dp)))
				// queries: the limit itself, 0, around attainable totals, every key the map holds
				// in [0,maxValue] (few), seeded ones, and far negative ones
				qs := []int{maxValue, 0}
				for k := 0; k < 6 && len(orc.ts) > 0; k++ {
					t := orc.ts[rng.Intn(len(orc.ts))]
					for _, q := range []int{t, t - 1, t + 1} {
						if t < math.MaxInt && q <= maxValue {
							qs = append(qs, q)
						}
					}
				}
				for i, k := range sortedKeys(f.dp) {
					if i < 24 && k >= 0 && k <= maxValue {
						qs = append(qs, k)
					}
				}
				if maxValue > 0 {
					qs = append(qs, rng.Intn(maxValue), rng.Intn(maxValue))
				}
				qs = append(qs, -1)
				if !overflow {
					qs = append(qs, math.MinInt, math.MinInt+rng.Range(1, 9), -(1 << 62))
				}
				for _, q := range qs {
					kindQ, ok := f.judgeQuery(c, q)
					if !ok {
						return
					}
					c.Add(cn+"queries", 1)
					if q < -(1 << 31) {
						c.Add(cn+"queries_far_below_zero", 1)
					}
					if q >= 1<<31 {
						c.Add(cn+"queries_at_least_2_31", 1)
					}
					if q >= 0 && !orc.attain(q) && gapAtLeast2p31(q, orc.floor(q)) {
						c.Add(cn+"best_answer_2_31_or_more_below_query", 1)
					}
					if ab := orc.above(q); kindQ == "overshoot" && gapAtLeast2p31(ab, q) {
						c.Add(cn+"bamo_answer_2_31_or_more_above_query", 1)
					}
					if kindQ != "" {
						c.Add(cn+"bamo_"+kindQ, 1)
					}
				}
			}
		}
		if len(items) >= 2 {
			k := uint64('H')
			if overflow {
				k = 'O'
			}
			c.Distinct(hashItems(k, maxValue, items))
		}
		if c.WantSample() {
			c.Sample(fmt.Sprintf("%s, %s: FindDpSolvers maxValue=%d values=%s: %d attainable totals fit an int, some exceed it: %v; 2x3 settings: entries, required totals, Best/BestAllowMinOverflow as stated", kind, map[bool]string{false: "hugelimit", true: "overflow"}[overflow], maxValue, fmtVals(items), len(orc.ts), orc.inf))
		}
	}
}

// knapsack/hugevalues: values of 2^31 .. 2^58 whose total still fits an int (so
// no correct solver can wrap), differing from each other by 1 or 2 at that
// magnitude: a score kept in a narrower or a floating-point type loses them.
func hugeValueKnapsackCase(c *ev.Case) {
	rng := c.Rng
	n := rng.Range(2, 10)
	s := rng.Pick(3, 6, 12)
	w := genWeights(rng, n, s)
	bases := []int{1 << 31, 1 << 32, 1<<32 + 1, 1 << 40, 1 << 53, 1<<53 + 1, 1 << 55, 1 << 58}
	items := make([]item, n)
	sumW := 0
	one := rng.Chance(1, 3)
	b0 := bases[rng.Intn(len(bases))]
	for i := range items {
		b := b0
		if !one {
			b = bases[rng.Intn(len(bases))]
		}
		items[i] = item{ID: i, W: w[i], V: b*rng.Range(1, 3) + rng.Range(-2, 2)}
		sumW += w[i]
	}
	limit := rng.Pick(sumW/2, sumW/3, sumW-1, sumW, rng.Range(0, sumW+1), s)
	if limit < 0 {
		limit = 0
	}
	salt := rng.Uint64()
	opt := tableOpt(items, limit) // <= 10*(3*2^58+2) < 2^63
	wf := func(it item) int { return it.W }
	vf := func(it item) int { return it.V }
	for _, bk := range []int{0, rng.Range(1, 5)} {
		var st brStat
		br := mkBreaker(bk, salt, &st)
		in, inputIntact := input(c, "ks-huge", items)
		desc := fmt.Sprintf("Knapsack(limit=%d, items=%s, tieBreaker=%s)", limit, fmtItems(items), breakerNames[bk])
		k := ssKept{items: items, limit: limit, opt: opt, bk: bk}
		if !c.Guard("Knapsack", func() {
			if br == nil {
				k.got = algz.Knapsack(limit, in, wf, vf)
			} else {
				k.got = algz.Knapsack(limit, in, wf, vf, br)
			}
		}) {
			return
		}
		if c.Logging() {
			c.Logf("%s -> %s", desc, fmtItems(k.got))
		}
		if !inputIntact(func() string { return desc }) || !judgeKs(c, "ks-huge", &k, desc) {
			return
		}
		c.Add("kh_calls", 1)
		if opt >= 1<<53 {
			c.Add("kh_optimum_at_least_2_53", 1)
		}
	}
	c.Distinct(hashItems('V', limit, items))
	if c.WantSample() {
		c.Sample(fmt.Sprintf("Knapsack limit=%d items=%s: optimum %d (value table); 2 tie-breaker settings returned valid optimal selections", limit, fmtItems(items), opt))
	}
}
