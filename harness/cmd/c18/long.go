package main

import (
	"fmt"

	"github.com/welllog/golib/algz"

	"verif/ev"
)

// Two width thresholds the quick tier did not cross (LESSONS class 7):
//
// finddp/long: 255..300 values, so that selections of more than 255 items are
// stored in the map (finddp/big stops at 200 values; knapsack/big already has
// 257..300 items).
//
// knapsack/longtable: limits on both sides of 2^15 and 2^16 (knapsack/big goes
// up to 20000 in the quick tier and to 65535..100000 only in the thorough one),
// with few items so that the table stays cheap.

func longFindDpCase(c *ev.Case) {
	rng := c.Rng
	n := rng.Pick(255, 256, 257, 258, 300)
	if rng.Chance(1, 3) {
		n = rng.Range(255, 300)
	}
	k := rng.Pick(1, 1, 2)
	v := make([]int, n)
	sum := 0
	for i := range v {
		v[i] = rng.Range(1, k)
		sum += v[i]
	}
	maxValue := rng.Pick(sum, sum, sum-1, sum+1, sum*3/4)
	items := make([]item, n)
	for i := range items {
		items[i] = item{ID: i, V: v[i]}
	}
	salt := rng.Uint64()
	orc := &totals{reach: attainTable(items)}
	c.Add("fl_instances", 1)
	if n > 256 {
		c.Add("fl_instances_with_more_than_256_values", 1)
	}
	type setting struct {
		allow bool
		bk    int
	}
	for _, s := range []setting{{false, 0}, {true, 0}, {true, rng.Range(1, 5)}} {
		var st brStat
		f, ok := runFindDp(c, "fd-long", items, maxValue, s.allow, s.bk, salt, &st)
		if !ok {
			return
		}
		f.orc, f.strict = orc, true
		c.Add("fl_calls", 1)
		if !f.judgeMap(c) {
			return
		}
		c.Add("fl_entries_checked", int64(len(f.dp)))
		longest := 0
		for _, sel := range f.dp {
			if len(sel) > longest {
				longest = len(sel)
			}
		}
		c.Max("fl_max_selection_len", int64(longest))
		if longest > 255 {
			c.Add("fl_maps_with_selection_longer_than_255", 1)
		}
		if longest > 256 {
			c.Add("fl_maps_with_selection_longer_than_256", 1)
		}
		qs := []int{maxValue, 0, maxValue - 1, rng.Intn(maxValue), rng.Intn(maxValue)}
		for _, q := range qs {
			if _, ok := f.judgeQuery(c, q); !ok {
				return
			}
			c.Add("fl_queries", 1)
		}
	}
	c.Distinct(hashItems('l', maxValue, items))
	if c.WantSample() {
		c.Sample(fmt.Sprintf("long FindDpSolvers: %d values of 1..%d, maxValue %d: entries, required totals and Best/BestAllowMinOverflow as stated for 3 settings", n, k, maxValue))
	}
}

func longTableKnapsackCase(c *ev.Case) {
	rng := c.Rng
	n := rng.Range(6, 14)
	limit := rng.Pick(32767, 32768, 32769, 40000, 65535, 65536, 65537)
	if rng.Chance(2, 3) { // well above 2^16: most of the optimum's path lies in cells beyond it
		limit = rng.Pick(66000, 70000, 75000, 80000, 90000, 100000)
		if rng.Bool() {
			limit = rng.Range(66000, 100000)
		}
	}
	w := make([]int, n)
	unit := rng.Pick(1, 1, 7, 100)
	for i := range w {
		switch {
		case rng.Chance(1, 12):
			w[i] = limit + rng.Range(0, 3)
		case rng.Chance(1, 4): // light items: the predecessor cell is near the top of the table
			w[i] = rng.Range(1, 50)
		default:
			w[i] = rng.Range(1, 3*limit/n/unit+1) * unit
		}
	}
	v := genValues(rng, w)
	if rng.Bool() { // values that do not follow the weights
		for i := range v {
			v[i] = rng.Range(1, 1000)
		}
	}
	items := make([]item, n)
	for i := range items {
		items[i] = item{ID: i, W: w[i], V: v[i]}
	}
	salt := rng.Uint64()
	opt := tableOpt(items, limit)
	c.Add("kl_instances", 1)
	if limit > 32767 {
		c.Add("kl_limit_above_32767", 1)
	}
	if limit > 65535 {
		c.Add("kl_limit_above_65535", 1)
	}
	wf := func(it item) int { return it.W }
	vf := func(it item) int { return it.V }
	for _, bk := range []int{0, rng.Range(1, 5)} {
		var st brStat
		br := mkBreaker(bk, salt, &st)
		in, inputIntact := input(c, "ks-longtable", items)
		desc := fmt.Sprintf("Knapsack(limit=%d, items=%s, tieBreaker=%s)", limit, fmtItems(items), breakerNames[bk])
		k := ssKept{items: items, limit: limit, opt: opt, bk: bk}
		if !c.Guard("Knapsack", func() {
			if br == nil {
				k.got = algz.Knapsack(limit, in, wf, vf)
			} else {
				k.got = algz.Knapsack(limit, in, wf, vf, br)
			}
		}) {
			return
		}
		if c.Logging() {
			c.Logf("%s -> %s", desc, fmtItems(k.got))
		}
		if !inputIntact(func() string { return desc }) || !judgeKs(c, "ks-longtable", &k, desc) {
			return
		}
		c.Add("kl_calls", 1)
		sw := 0
		for _, it := range k.got {
			sw += it.W
		}
		if sw > 65535 {
			c.Add("kl_selections_heavier_than_65535", 1)
		}
	}
	c.Distinct(hashItems('t', limit, items))
	if c.WantSample() {
		c.Sample(fmt.Sprintf("long-table Knapsack: %d items, limit %d: optimum %d (value table); 2 tie-breaker settings returned valid optimal selections", n, limit, opt))
	}
}
