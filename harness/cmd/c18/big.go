package main

import (
	"fmt"

	"github.com/welllog/golib/algz"

	"verif/ev"
)

// Engines well above any plausible size threshold (LESSONS class 7): selections
// of more than 64 / 128 / 256 items (slice growth steps, scratch capacities,
// 64-bit masks), knapsack tables of more than 4096 / 8192 / 16384 cells, subset-sum
// maps of more than 4096 keys. The oracle is the value table / reachability table
// that the brute engines cross-check against the enumeration on every small case.

// genBigKnapsack: shape 0 = many light items (long selections), shape 1 = a few
// heavy items under a large limit (large table).
func genBigKnapsack(rng *ev.Rand, thorough bool) ([]item, int, int) {
	shape := rng.Intn(2)
	var n, limit int
	var w []int
	if shape == 0 {
		n = rng.Pick(65, 66, 100, 127, 128, 129, 130, 200, 257, 260, 300)
		if rng.Bool() {
			n = rng.Range(65, 300)
		}
		w = make([]int, n)
		k := rng.Pick(1, 2, 3, 5)
		for i := range w {
			switch {
			case rng.Chance(1, 20):
				w[i] = 0
			default:
				w[i] = rng.Range(1, k)
			}
		}
		sum := 0
		for _, x := range w {
			sum += x
		}
		switch rng.Intn(4) {
		case 0:
			limit = sum
		case 1:
			limit = sum - rng.Range(1, 3)
		case 2:
			limit = sum * rng.Range(5, 9) / 10
		default:
			limit = sum + 2
		}
		if limit > 700 {
			limit = 700 - rng.Intn(8)
		}
		if limit < 0 {
			limit = 0
		}
	} else {
		n = rng.Range(10, 36)
		limit = rng.Pick(4095, 4096, 4097, 5000, 8191, 8192, 8193, 10000, 16385, 20000)
		if rng.Bool() {
			limit = rng.Range(4097, 20000)
		}
		if thorough && rng.Chance(1, 4) {
			limit = rng.Pick(65535, 65536, 65537, 100000)
		}
		w = make([]int, n)
		unit := rng.Pick(1, 1, 7, 100)
		for i := range w {
			w[i] = rng.Range(1, 3*limit/n/unit+1) * unit
			if rng.Chance(1, 12) {
				w[i] = limit + rng.Range(0, 3)
			}
		}
	}
	v := genValues(rng, w)
	if shape == 1 && rng.Bool() { // values that do not follow the weights
		for i := range v {
			v[i] = rng.Range(1, 1000)
		}
	}
	items := make([]item, n)
	for i := range items {
		items[i] = item{ID: i, W: w[i], V: v[i]}
	}
	return items, limit, shape
}

func bigKnapsackCase(c *ev.Case) {
	rng := c.Rng
	items, limit, shape := genBigKnapsack(rng, c.Thorough())
	salt := rng.Uint64()
	opt := tableOpt(items, limit)
	c.Add("kb_instances", 1)
	c.Max("kb_max_items", int64(len(items)))
	c.Max("kb_max_limit", int64(limit))
	if limit > 4096 {
		c.Add("kb_limit_above_4096", 1)
	}
	if limit > 16384 {
		c.Add("kb_limit_above_16384", 1)
	}
	wf := func(it item) int { return it.W }
	vf := func(it item) int { return it.V }
	for _, bk := range []int{0, rng.Range(1, 5)} {
		var st brStat
		br := mkBreaker(bk, salt, &st)
		in, inputIntact := input(c, "ks-big", items)
		ctx := func() string {
			return fmt.Sprintf("Knapsack(limit=%d, %d items=%s, tieBreaker=%s), optimum value %d", limit, len(items), fmtItems(items), breakerNames[bk], opt)
		}
		var got []item
		if !c.Guard("Knapsack", func() {
			if br == nil {
				got = algz.Knapsack(limit, in, wf, vf)
			} else {
				got = algz.Knapsack(limit, in, wf, vf, br)
			}
		}) {
			return
		}
		if c.Logging() {
			c.Logf("%s -> %d items %s", ctx(), len(got), fmtItems(clip(got)))
		}
		if !inputIntact(ctx) {
			return
		}
		c.Add("kb_calls", 1)
		c.Add("kb_breaker_calls", st.calls)
		s, ok := checkSel(c, "ks-big", ctx, items, got)
		if !ok {
			return
		}
		if s.w > limit {
			c.Failf("ks-big/overweight", "returned selection of %d items weighs %d > limit %d ; %s", len(got), s.w, limit, ctx())
			return
		}
		if s.v != opt {
			c.Failf("ks-big/not-optimal", "returned selection of %d items has value %d (weight %d) but the best selection within the limit has value %d ; %s", len(got), s.v, s.w, opt, ctx())
			return
		}
		c.Max("kb_max_selection_len", int64(len(got)))
		for _, th := range []int{64, 128, 256} {
			if len(got) > th {
				c.Add(fmt.Sprintf("kb_selections_longer_than_%d", th), 1)
			}
		}
	}
	c.Distinct(hashItems('B', limit, items))
	if c.WantSample() {
		c.Sample(fmt.Sprintf("big Knapsack shape %d: %d items, limit %d: optimum %d (value table); 2 tie-breaker settings returned valid optimal selections", shape, len(items), limit, opt))
	}
}

// genBigTotals: shape 0 = many small values (long selections, few keys), shape 1 =
// values that make (nearly) every total up to a limit above 4096 attainable.
func genBigTotals(rng *ev.Rand) ([]item, int, int) {
	shape := rng.Intn(2)
	var v []int
	var m int
	if shape == 0 {
		n := rng.Pick(65, 66, 100, 129, 130, 160, 200)
		if rng.Bool() {
			n = rng.Range(65, 200)
		}
		v = make([]int, n)
		k := rng.Pick(1, 2, 3)
		for i := range v {
			v[i] = rng.Range(1, k)
		}
		sum := 0
		for _, x := range v {
			sum += x
		}
		m = rng.Pick(sum, sum-1, sum+1, sum*3/4, sum/2)
	} else {
		n := rng.Range(18, 32)
		m = rng.Pick(4095, 4096, 4097, 4200, 5000, 6000, 8192, 8200)
		v = make([]int, n)
		for i := range v {
			switch {
			case i < 8:
				v[i] = 1 << uint(i) // 1..128: every total up to 255
			default:
				v[i] = rng.Range(100, 2*m/(n-8)+100)
			}
		}
		p := rng.Perm(n)
		v2 := make([]int, n)
		for i := range v2 {
			v2[i] = v[p[i]]
		}
		v = v2
	}
	items := make([]item, len(v))
	for i := range items {
		items[i] = item{ID: i, V: v[i]}
	}
	return items, m, shape
}

func bigFindDpCase(c *ev.Case) {
	rng := c.Rng
	items, maxValue, shape := genBigTotals(rng)
	salt := rng.Uint64()
	orc := &totals{reach: attainTable(items)}
	c.Add("fb_instances", 1)
	c.Max("fb_max_items", int64(len(items)))
	for _, allow := range []bool{false, true} {
		for _, bk := range []int{0, rng.Range(1, 5)} {
			if shape == 0 && bk != 0 && !allow {
				continue // keeps the engine's cost down; the setting is covered with allow=true
			}
			var st brStat
			f, ok := runFindDp(c, "fd-big", items, maxValue, allow, bk, salt, &st)
			if !ok {
				return
			}
			f.orc, f.strict = orc, true
			c.Add("fb_calls", 1)
			if !f.judgeMap(c) {
				return
			}
			c.Add("fb_entries_checked", int64(len(f.dp)))
			c.Max("fb_max_entries", int64(len(f.dp)))
			if len(f.dp) > 4096 {
				c.Add("fb_maps_with_more_than_4096_entries", 1)
			}
			longest := 0
			for _, sel := range f.dp {
				if len(sel) > longest {
					longest = len(sel)
				}
			}
			c.Max("fb_max_selection_len", int64(longest))
			for _, th := range []int{64, 128} {
				if longest > th {
					c.Add(fmt.Sprintf("fb_maps_with_selection_longer_than_%d", th), 1)
				}
			}
			qs := []int{maxValue, 0, maxValue - 1}
			for k := 0; k < 6 && maxValue > 1; k++ {
				qs = append(qs, rng.Intn(maxValue))
			}
			for _, q := range qs {
				if _, ok := f.judgeQuery(c, q); !ok {
					return
				}
				c.Add("fb_queries", 1)
			}
		}
	}
	c.Distinct(hashItems('b', maxValue, items))
	if c.WantSample() {
		c.Sample(fmt.Sprintf("big FindDpSolvers shape %d: %d values, maxValue %d: entries, required totals and Best/BestAllowMinOverflow as stated for 2x2 settings", shape, len(items), maxValue))
	}
}
