package main

import (
	"fmt"
	"runtime/debug"

	"github.com/welllog/golib/algz"

	"verif/ev"
)

// session/serial: an uninterrupted sequence of calls on one goroutine while
// nothing else in the process calls golib (ev.Opt{Serial:true}; LESSONS class 4).
// Every call takes its item list from the SAME caller-owned buffer. From one call
// to the next exactly one ingredient changes: the content of the buffer (same
// address, same length), the limit, allowOverOnce, the tie-breaker, nothing at
// all, or everything. Some calls are made with a callback that panics half-way;
// the panic is recovered by the caller and the next call, with the same
// ingredients and healthy callbacks, must be exact (class 9). Every result is
// judged when it is returned, then kept; at the end of the case - after all later
// calls and after the caller has overwritten its buffer - every kept result is
// judged a second time against the instance it was computed for (classes 2, 3).

type boom struct{}

type ssKept struct {
	step  int
	items []item
	limit int
	opt   int
	bk    int
	got   []item
	fd    *fdCall
}

func sessionCase(c *ev.Case) {
	rng := c.Rng
	const guard, room = 3, 10
	arena := make([]item, room+2*guard)
	garbage := func(i int) item { return item{ID: -500 - i, W: -5, V: -6} }
	for i := range arena {
		arena[i] = garbage(i)
	}
	buf := arena[guard : guard+room]

	var cur []item
	limit, maxValue, allow, bk := 0, 0, false, 0
	salt := rng.Uint64()
	fresh := func() {
		cur, limit = genKnapsack(rng, 8, false)
		for i := range cur {
			if cur[i].W > 1<<20 { // this engine is not about unliftable items
				cur[i].W = limit + 1
			}
		}
		sum := 0
		for _, it := range cur {
			sum += it.V
		}
		maxValue = max(0, rng.Pick(sum, sum-1, sum/2, sum/3, sum+2, rng.Range(0, sum+1)))
		allow, bk = rng.Bool(), rng.Intn(len(breakerNames))
	}
	fresh()
	ks := rng.Bool()
	var keep []ssKept
	steps := rng.Range(3, 9)
	fault := false // the previous call was interrupted by a panicking callback
	h := hashItems('S', limit, cur)
	for step := 0; step < steps; step++ {
		change := "first call"
		if step > 0 && fault {
			change = "same call again after the recovered panic"
			c.Add("ss_healthy_call_right_after_fault", 1)
		} else if step > 0 {
			if rng.Chance(1, 4) {
				ks = !ks
			}
			switch rng.Intn(8) {
			case 0, 1, 2:
				if len(cur) > 0 {
					cur = append([]item(nil), cur...)
					i := rng.Intn(len(cur))
					if ks && rng.Bool() {
						cur[i].W = rng.Range(0, limit+2)
					} else {
						cur[i].V = cur[i].V%9 + rng.Range(1, 4)
					}
					change = fmt.Sprintf("same buffer, same length, item #%d changed", i)
					c.Add("ss_same_buffer_other_content", 1)
				}
			case 3:
				if ks {
					limit = max(0, limit+rng.Pick(-3, -2, -1, 1, 2, 5))
				} else {
					maxValue = max(0, maxValue+rng.Pick(-3, -2, -1, 1, 2, 5))
				}
				change = "same content, other limit"
				c.Add("ss_same_content_other_limit", 1)
			case 4:
				if ks {
					bk = (bk + rng.Range(1, 5)) % len(breakerNames)
					change = "same content, other tie-breaker"
					c.Add("ss_same_content_other_breaker", 1)
				} else {
					allow = !allow
					change = "same content, allowOverOnce flipped"
					c.Add("ss_same_content_other_allow", 1)
				}
			case 5:
				bk = (bk + rng.Range(1, 5)) % len(breakerNames)
				change = "same content, other tie-breaker"
				c.Add("ss_same_content_other_breaker", 1)
			case 6:
				change = "exact repeat"
				c.Add("ss_exact_repeats", 1)
			default:
				fresh()
				change = "new instance in the same buffer"
				c.Add("ss_new_instance_same_buffer", 1)
			}
		}
		h = ev.Mix(h, hashItems('s', limit+maxValue, cur), uint64(bk))
		n := len(cur)
		copy(buf, cur)
		in := buf[:n]
		items := append([]item(nil), cur...) // what the oracle and the kept result refer to

		wantFault := !fault && step+1 < steps && rng.Chance(1, 5)
		fault = false
		// callbacks; with wantFault one of them panics at its k-th invocation
		var st brStat
		br := mkBreaker(bk, salt, &st)
		wcalls, vcalls, bcalls := 0, 0, 0
		wAt, vAt, bAt := -1, -1, -1
		if wantFault {
			switch {
			case ks && rng.Chance(1, 3):
				wAt = rng.Range(1, max(1, n))
			case br != nil && rng.Bool():
				bAt = rng.Range(1, 6)
			default:
				vAt = rng.Range(1, max(1, n))
			}
		}
		// re-entrancy: a callback of this call makes complete calls of its own (class 10)
		nestAt := -1
		var nest *ssKept
		if !wantFault && n > 0 && rng.Chance(1, 6) {
			nestAt = rng.Range(1, n)
			ni, nl := genKnapsack(rng, 5, false)
			for i := range ni {
				if ni[i].W > 1<<20 {
					ni[i].W = nl + 1
				}
			}
			nest = &ssKept{step: step, items: ni, limit: nl, opt: tableOpt(ni, nl)}
		}
		wf := func(it item) int {
			if wcalls++; wcalls == wAt {
				panic(boom{})
			}
			return it.W
		}
		vf := func(it item) int {
			if vcalls++; vcalls == vAt {
				panic(boom{})
			}
			if vcalls == nestAt {
				pw := func(it item) int { return it.W }
				pv := func(it item) int { return it.V }
				nest.got = algz.Knapsack(nest.limit, append([]item(nil), nest.items...), pw, pv)
				nest.fd = &fdCall{pfx: "ss/nested-fd", items: nest.items, maxValue: nest.limit, allow: true, strict: true,
					dp: algz.FindDpSolvers(nest.limit, append([]item(nil), nest.items...), pv, true)}
			}
			return it.V
		}
		brf := br
		if br != nil {
			brf = func(o, nw []item) bool {
				if bcalls++; bcalls == bAt {
					panic(boom{})
				}
				return br(o, nw)
			}
		}

		var got []item
		var dp algz.DpSolvers[item]
		name, desc := "Knapsack", ""
		if ks {
			desc = fmt.Sprintf("step %d (%s): Knapsack(limit=%d, items=%s, tieBreaker=%s)", step, change, limit, fmtItems(items), breakerNames[bk])
		} else {
			name = "FindDpSolvers"
			desc = fmt.Sprintf("step %d (%s): FindDpSolvers(maxValue=%d, values=%s, allowOverOnce=%v, tieBreaker=%s)", step, change, maxValue, fmtVals(items), allow, breakerNames[bk])
		}
		c.Logf("%s ...", desc)
		panicked := false
		if !c.Guard(name, func() {
			defer func() {
				if p := recover(); p != nil {
					if _, mine := p.(boom); mine {
						panicked = true
						return
					}
					if stk := string(debug.Stack()); ev.InGolib(stk) {
						c.Failf("panic/"+name, "%s panicked: %v ; %s\n%s", name, p, desc, stk)
						return
					}
					panic(p)
				}
			}()
			switch {
			case ks && brf == nil:
				got = algz.Knapsack(limit, in, wf, vf)
			case ks:
				got = algz.Knapsack(limit, in, wf, vf, brf)
			case brf == nil:
				dp = algz.FindDpSolvers(maxValue, in, vf, allow)
			default:
				dp = algz.FindDpSolvers(maxValue, in, vf, allow, brf)
			}
		}) || c.Failed() {
			return
		}
		c.Add("ss_calls", 1)
		for i := range in {
			if in[i] != items[i] {
				c.Failf("ss/input-modified", "the item list handed to the call was modified at position %d: %+v -> %+v ; %s", i, items[i], in[i], desc)
				return
			}
		}
		if nest != nil && nest.fd != nil {
			ndesc := fmt.Sprintf("call made from inside the value callback of %s: Knapsack(limit=%d, items=%s, no tie-breaker)", desc, nest.limit, fmtItems(nest.items))
			if !judgeKs(c, "ss/nested-ks", nest, ndesc) {
				return
			}
			nest.fd.orc = &totals{reach: attainTable(nest.items)}
			nest.fd.desc = func() string {
				return fmt.Sprintf("call made from inside the value callback of %s: FindDpSolvers(maxValue=%d, values=%s, allowOverOnce=true)", desc, nest.limit, fmtVals(nest.items))
			}
			if !nest.fd.judgeMap(c) {
				return
			}
			c.Add("ss_complete_calls_made_from_inside_a_callback", 2)
		}
		if panicked {
			c.Logf("  -> callback panicked (on purpose), recovered by the caller")
			c.Add("ss_calls_interrupted_by_panicking_callback", 1)
			fault = true
			continue
		}
		if ks {
			c.Logf("  -> %s", fmtItems(got))
			opt := tableOpt(items, limit)
			k := ssKept{step: step, items: items, limit: limit, opt: opt, bk: bk, got: got}
			if !judgeKs(c, "ss/ks", &k, desc) {
				return
			}
			keep = append(keep, k)
			c.Add("ss_knapsack_results", 1)
		} else {
			f := &fdCall{pfx: "ss/fd", items: items, maxValue: maxValue, allow: allow, dp: dp, strict: true,
				orc: &totals{reach: attainTable(items)}, desc: func() string { return desc }}
			c.Logf("  -> %s", fmtSolvers(dp))
			if !f.judgeMap(c) {
				return
			}
			for _, q := range []int{maxValue, maxValue / 2, rng.Range(0, maxValue)} {
				if _, ok := f.judgeQuery(c, q); !ok {
					return
				}
			}
			keep = append(keep, ssKept{step: step, fd: f})
			c.Add("ss_finddp_results", 1)
		}
	}
	// the caller reuses its storage for something else ...
	for i := range arena {
		if i < guard || i >= guard+room {
			if arena[i] != garbage(i) {
				c.Failf("ss/input-modified", "a call wrote outside the item list it was given: caller's storage at offset %d now holds %+v", i-guard, arena[i])
				return
			}
		}
		arena[i] = item{ID: i % 3, W: 0, V: 1 << 40}
	}
	// ... and looks at what it was given earlier
	for _, k := range keep {
		k := k
		if k.fd != nil {
			inner := k.fd.desc
			k.fd.pfx = "ss/kept-fd"
			k.fd.desc = func() string {
				return "result kept since " + inner() + ", looked at again after all later calls and after the caller reused its buffer"
			}
			if !k.fd.judgeMap(c) {
				return
			}
			if _, ok := k.fd.judgeQuery(c, k.fd.maxValue); !ok {
				return
			}
		} else {
			desc := fmt.Sprintf("result kept since step %d: Knapsack(limit=%d, items=%s, tieBreaker=%s), looked at again after all later calls and after the caller reused its buffer", k.step, k.limit, fmtItems(k.items), breakerNames[k.bk])
			if !judgeKs(c, "ss/kept-ks", &k, desc) {
				return
			}
		}
		c.Add("ss_kept_results_judged_again", 1)
	}
	c.Distinct(h)
	if c.WantSample() {
		c.Sample(fmt.Sprintf("%d calls from one buffer, one ingredient changed per call; %d results exact when returned and still exact at the end", steps, len(keep)))
	}
}

func judgeKs(c *ev.Case, pfx string, k *ssKept, desc string) bool {
	ctx := func() string { return fmt.Sprintf("%s, optimum value %d", desc, k.opt) }
	s, ok := checkSel(c, pfx, ctx, k.items, k.got)
	if !ok {
		return false
	}
	if s.w > k.limit {
		c.Failf(pfx+"/overweight", "selection %s weighs %d > limit %d ; %s", fmtItems(k.got), s.w, k.limit, ctx())
		return false
	}
	if s.v != k.opt {
		c.Failf(pfx+"/not-optimal", "selection %s has value %d (weight %d) but the best selection within the limit has value %d ; %s", fmtItems(k.got), s.v, s.w, k.opt, ctx())
		return false
	}
	return true
}
