package main

import (
	"fmt"

	"verif/ev"
)

// Two engines in which the body of a `for v := range h.PopAll()` loop is an
// ordinary stretch of the operation sequence, compared with the model call by
// call (popall-mutating only asks for conservation at the end and tolerates a
// Remove that did nothing):
//
//	body-heap   Heap: inside the body Remove / Fix through live, stale and
//	            foreign handles, PushElement of the element just yielded (the
//	            re-enqueue idiom) and of other detached handles, Push, Peek,
//	            Pop, and operations on a second heap. Every one of them goes
//	            through the hsut operations: Len and every known handle's
//	            Index() after each call, Peek / Pop must return an element that
//	            no remaining element precedes, Remove(e) must remove exactly e.
//	body-slice  Slice: inside the body Push, Pop, Peek, Remove(i) and Fix(i)
//	            at any index; Values is compared with the multiset and checked
//	            for heap order after each of these calls.
//
// What is asked of the yielded values themselves is membership only (each one
// was inside, has left, comes once): the body has changed the heap, so nothing
// is said about their order. A loop that the body does not stop must end
// exactly when the heap is empty.

// opPopAllBody runs one PopAll loop on m. After each yielded value the body
// performs 0..3 operations; it stops the loop after stop values (stop < 0:
// never, the loop ends by itself or at the step limit).
func (s *hsut) opPopAllBody(m, other *hmodel, stop int, g *keygen) bool {
	c := s.c
	rng := s.rng
	s.note('B', m.no, stop)
	outer := s.pfx
	limit := len(m.live) + 30
	steps := 0
	good, stopped := true, false
	if !guard(c, "PopAll", func() {
		for v := range m.h.PopAll() {
			steps++
			c.Logf("%s.PopAll() yields %v (value #%d)", m.name, v, steps)
			if v.ID < 0 || v.ID >= len(s.elems) {
				c.Failf("unknown-element", "%s.PopAll() yielded %v that was never put into any heap", m.name, v)
				good = false
				break
			}
			e := s.elems[v.ID]
			if e.where != m.no {
				c.Failf("not-member", "%s.PopAll() yielded %v as value #%d of a loop whose body works on the heap; the model has that element %s (lost/duplicated element)", m.name, v, steps, s.whereName(e))
				good = false
				break
			}
			if v.K != e.key {
				c.Failf("value-changed", "%s.PopAll() yielded element #%d with key %d, the model has key %d", m.name, v.ID, v.K, e.key)
				good = false
				break
			}
			s.leave(m, e)
			s.muts++
			c.Add(outer+"yielded", 1)
			s.pfx = outer + "in_"
			if rng.Bool() {
				good = s.check() // Len and every handle, the yielded element's included
			}
			for k := rng.Intn(4); k > 0 && good; k-- {
				good = s.bodyOp(m, other, e, g)
				c.Add(outer+"body_ops", 1)
			}
			s.pfx = outer
			if !good || c.Failed() {
				good = false
				break
			}
			if steps == stop || steps >= limit {
				stopped = true
				break
			}
		}
	}) {
		return false
	}
	s.pfx = outer
	if !good || c.Failed() {
		return false
	}
	if stopped {
		c.Add(outer+"loops_stopped_by_body", 1)
	} else {
		if len(m.live) != 0 {
			c.Failf("popall-ended-early", "%s.PopAll(): the loop ended by itself after %d values while the heap still holds %d elements (the body worked on the heap through handles, Push, Pop)", m.name, steps, len(m.live))
			return false
		}
		c.Add(outer+"loops_ended_on_empty", 1)
	}
	c.Add(outer+"loops", 1)
	return s.check()
}

// bodyOp is one operation of a loop body; y is the element just yielded.
func (s *hsut) bodyOp(m, other *hmodel, y *helem, g *keygen) bool {
	rng := s.rng
	switch p := rng.Intn(100); {
	case p < 20:
		if e := s.pickHandle(m); e != nil {
			return s.opRemove(m, e)
		}
		return s.opPush(m, g.next())
	case p < 42:
		if e := s.pickHandle(m); e != nil {
			nk := newKeyFor(rng, g, e.key)
			return s.opFix(m, e, nk, nk != e.key)
		}
		return s.opPush(m, g.next())
	case p < 54:
		// re-enqueue what was just handed out (when its handle is known)
		if y.h != nil && y.where < 0 {
			k := y.key
			if rng.Bool() {
				k = newKeyFor(rng, g, y.key)
			}
			s.c.Add(s.pfx+"requeue_yielded", 1)
			return s.opPushElement(m, y, k)
		}
		return s.opPush(m, g.next())
	case p < 60:
		if e := s.pickStale(); e != nil {
			return s.opPushElement(m, e, g.next())
		}
		return s.opPushElement(m, nil, g.next())
	case p < 68:
		return s.opPush(m, g.next())
	case p < 80:
		return s.opPeek(m)
	case p < 88:
		_, ok := s.opPop(m)
		return ok
	case p < 94:
		// the other heap, through its own and through m's handles
		if e := s.pickHandle(other); e != nil {
			if rng.Bool() {
				return s.opRemove(other, e)
			}
			nk := newKeyFor(rng, g, e.key)
			return s.opFix(other, e, nk, nk != e.key)
		}
		return s.opPush(other, g.next())
	default:
		return s.opPush(other, g.next())
	}
}

func bodyHeapCase(c *ev.Case) {
	rng := c.Rng
	s := newHsut(c)
	s.pfx = "body/h_"
	g := newKeygen(rng)
	ordA, ordB := pickOrder(rng), pickOrder(rng)
	a := s.addHeap("A", ordA, initialKeys(rng, g, rng.Pick(2, 3, 5, 8, 13, 20), ordA), rng.Chance(1, 4))
	if c.Failed() {
		return
	}
	b := s.addHeap("B", ordB, initialKeys(rng, g, rng.Pick(0, 2, 5, 9), ordB), rng.Chance(1, 4))
	if c.Failed() {
		return
	}
	// a heap built by Init has no known handles yet: learn them
	for _, m := range s.heaps {
		if len(s.liveKnown(m)) < len(m.live) && rng.Chance(3, 4) {
			if !s.drainRefill(m) {
				return
			}
		}
	}
	loops := 0
	for r := rng.Range(1, 3); r > 0; r-- {
		m, other := a, b
		if rng.Chance(1, 4) {
			m, other = b, a
		}
		for k := rng.Intn(3); k > 0 || len(m.live) == 0; k-- {
			if !s.pushSome(m, g) {
				return
			}
		}
		stop := -1
		if rng.Chance(1, 3) {
			stop = rng.Range(1, len(m.live))
		}
		if !s.opPopAllBody(m, other, stop, g) {
			return
		}
		loops++
		// the heap goes on being used: the order is complete again
		if rng.Bool() {
			if !s.opPeek(m) {
				return
			}
		}
		if rng.Chance(1, 3) {
			if !s.drainRefill(m) {
				return
			}
		}
	}
	for _, m := range s.heaps {
		if _, ok := s.drain(m); !ok {
			return
		}
	}
	if e := s.pickStale(); e != nil {
		if !s.opRemove(a, e) || !s.opFix(b, e, e.key+1, true) {
			return
		}
	}
	if s.muts >= 3 && loops > 0 {
		c.Distinct(s.hash)
	}
	if c.WantSample() {
		c.Sample(fmt.Sprintf("body-heap: A order %s, B order %s, %d PopAll loops whose body removes / fixes through live, stale and foreign handles, re-enqueues the yielded element, pushes, peeks and pops, every call compared with the model; %d elements created, all drained", ordA.name, ordB.name, loops, len(s.elems)))
	}
}

// popAllBody runs one Slice.PopAll loop whose body works on the same Slice.
func (s *ssut) popAllBody(stop int, g *keygen) bool {
	c := s.c
	rng := s.rng
	s.note('B', stop, 0)
	outer := s.pfx
	limit := s.n + 30
	steps := 0
	good, stopped := true, false
	if !guard(c, "Slice.PopAll", func() {
		for v := range s.s.PopAll() {
			steps++
			c.Logf("S.PopAll() yields %v (value #%d); Values %v", v, steps, iv(s.s.Values))
			if good = s.member(v, fmt.Sprintf("PopAll() (value #%d of a loop whose body works on the heap)", steps)); !good {
				break
			}
			s.del(v)
			s.muts++
			c.Add(outer+"yielded", 1)
			s.pfx = outer + "in_"
			for k := rng.Intn(4); k > 0 && good; k-- {
				switch p := rng.Intn(100); {
				case p < 22:
					good = s.push(g.next())
				case p < 34:
					good = s.pop()
				case p < 50:
					good = s.peek()
				case p < 74:
					good = s.remove(boundaryIndex(rng, s.n))
				default:
					idx := boundaryIndex(rng, s.n)
					old := 0
					if idx >= 0 && idx < len(s.s.Values) {
						old = s.s.Values[idx].K
					}
					good = s.fix(idx, newKeyFor(rng, g, old))
				}
				c.Add(outer+"body_ops", 1)
			}
			s.pfx = outer
			if !good || c.Failed() {
				good = false
				break
			}
			if steps == stop || steps >= limit {
				stopped = true
				break
			}
		}
	}) {
		return false
	}
	s.pfx = outer
	if !good || c.Failed() {
		return false
	}
	if stopped {
		c.Add(outer+"loops_stopped_by_body", 1)
	} else {
		if s.n != 0 {
			c.Failf("slice-popall-ended-early", "PopAll(): the loop ended by itself after %d values while the heap still holds %d elements (the body pushed, popped, removed and fixed)", steps, s.n)
			return false
		}
		c.Add(outer+"loops_ended_on_empty", 1)
	}
	c.Add(outer+"loops", 1)
	return s.check("a PopAll loop whose body worked on the heap")
}

func bodySliceCase(c *ev.Case) {
	rng := c.Rng
	s := newSsut(c)
	s.pfx = "body/s_"
	g := newKeygen(rng)
	ord := pickOrder(rng)
	if !s.build(initialKeys(rng, g, rng.Pick(2, 3, 5, 8, 13, 20), ord), ord, rng.Chance(1, 4)) {
		return
	}
	loops := 0
	for r := rng.Range(1, 3); r > 0; r-- {
		for k := rng.Intn(3); k > 0 || s.n == 0; k-- {
			if !s.push(g.next()) {
				return
			}
		}
		stop := -1
		if rng.Chance(1, 3) {
			stop = rng.Range(1, s.n)
		}
		if !s.popAllBody(stop, g) {
			return
		}
		loops++
		if rng.Bool() && !s.peek() {
			return
		}
	}
	for guard := s.n + 3; guard > 0 && s.n > 0; guard-- {
		if !s.pop() {
			return
		}
	}
	if !s.pop() {
		return
	}
	if s.muts >= 3 && loops > 0 {
		c.Distinct(s.hash)
	}
	if c.WantSample() {
		c.Sample(fmt.Sprintf("body-slice: order %s, %d PopAll loops whose body pushes, pops, peeks, removes and fixes at any index, Values checked for order and multiset after each of these calls; %d elements created, drained", ord.name, loops, len(s.key)))
	}
}
