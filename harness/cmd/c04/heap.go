package main

import (
	"fmt"

	"github.com/welllog/golib/heapz"

	"verif/ev"
)

type hel = heapz.Element[item]

// helem is the model's view of one element: its key, the handle that denotes
// it (nil while the element was created by Init and has not been seen yet) and
// the heap it is in.
type helem struct {
	id, key int
	h       *hel
	where   int // -1: in no heap; otherwise index into hsut.heaps
}

func (e *helem) it() item { return item{e.key, e.id} }

type hmodel struct {
	no   int
	name string
	h    *heapz.Heap[item]
	ord  order
	live []*helem
	seen []*helem
	peak int
}

type hsut struct {
	c     *ev.Case
	rng   *ev.Rand
	heaps []*hmodel
	elems []*helem
	byPtr map[*hel]*helem
	hash  uint64
	muts  int
	pfx   string
	// quiet: inside an unobserved-operation window. No observing call is made
	// at all (no Len, no Index(), no Peek): only the mutators run, their own
	// results are still compared, and the model is verified when the window ends.
	quiet bool
}

func newHsut(c *ev.Case) *hsut {
	return &hsut{c: c, rng: c.Rng, byPtr: map[*hel]*helem{}, pfx: "heap/"}
}

func (s *hsut) note(op byte, a, b int) {
	s.hash = ev.Mix(s.hash, uint64(op), uint64(a), uint64(b))
}

func (s *hsut) newElem(key int) *helem {
	e := &helem{id: len(s.elems), key: key, where: -1}
	s.elems = append(s.elems, e)
	return e
}

func (s *hsut) whereName(e *helem) string {
	if e.where < 0 {
		return "in no heap"
	}
	return "in heap " + s.heaps[e.where].name
}

func (s *hsut) join(m *hmodel, e *helem) {
	e.where = m.no
	m.live = append(m.live, e)
	if len(m.live) > m.peak {
		m.peak = len(m.live)
	}
	s.c.Max(s.pfx+"max_len", int64(len(m.live)))
}

func (s *hsut) leave(m *hmodel, e *helem) {
	for i, y := range m.live {
		if y == e {
			m.live[i] = m.live[len(m.live)-1]
			m.live = m.live[:len(m.live)-1]
			break
		}
	}
	e.where = -1
}

// addHeap creates a heap either with New followed by one Push per key (known
// handles) or with Init from the keys (elements without known handles).
func (s *hsut) addHeap(name string, ord order, initKeys []int, useInit bool) *hmodel {
	m := &hmodel{no: len(s.heaps), name: name, ord: ord}
	s.heaps = append(s.heaps, m)
	if useInit {
		var h heapz.Heap[item]
		m.h = &h
		s.opInit(m, initKeys, ord)
		return m
	}
	cp := s.rng.Pick(0, 0, 1, 4, 16)
	if !guard(s.c, "New", func() { h := heapz.New[item](cp, ord.less); m.h = &h }) {
		return m
	}
	s.c.Logf("%s := New(cap=%d, %s)", name, cp, ord.name)
	for _, k := range initKeys {
		if !s.opPush(m, k) {
			return m
		}
	}
	return m
}

func (s *hsut) index(e *helem) (int, bool) {
	idx := -2
	ok := guard(s.c, "Index", func() { idx = e.h.Index() })
	return idx, ok
}

// check compares Len, every known handle's Index() and Value with the model.
func (s *hsut) check() bool {
	c := s.c
	if c.Failed() {
		return false
	}
	if s.quiet {
		return true
	}
	for _, m := range s.heaps {
		n := -1
		if !guard(c, "Len", func() { n = m.h.Len() }) {
			return false
		}
		if n != len(m.live) {
			c.Failf("len", "%s.Len() = %d, the multiset model has %d elements", m.name, n, len(m.live))
			return false
		}
		if cap(m.seen) < n {
			m.seen = make([]*helem, n, 2*n+4)
		}
		m.seen = m.seen[:n]
		for i := range m.seen {
			m.seen[i] = nil
		}
	}
	for _, e := range s.elems {
		if e.h == nil {
			continue
		}
		idx, ok := s.index(e)
		if !ok {
			return false
		}
		if v := e.h.Value; v != e.it() {
			c.Failf("value-changed", "handle of element %v now carries Value %v (%s)", e.it(), v, s.whereName(e))
			return false
		}
		if e.where < 0 {
			if idx != -1 {
				c.Failf("stale-index", "element %v has left its heap but its handle reports Index() = %d, want -1", e.it(), idx)
				return false
			}
			continue
		}
		m := s.heaps[e.where]
		if idx < 0 || idx >= len(m.live) {
			c.Failf("live-index-range", "element %v is in heap %s (Len %d) but its handle reports Index() = %d", e.it(), m.name, len(m.live), idx)
			return false
		}
		if o := m.seen[idx]; o != nil {
			c.Failf("live-index-dup", "two live elements of heap %s report the same Index() = %d: %v and %v", m.name, idx, o.it(), e.it())
			return false
		}
		m.seen[idx] = e
	}
	c.Add(s.pfx+"handle_index_checks", int64(len(s.byPtr)))
	return true
}

// snapshot of every observable that a no-op call must leave alone.
func (s *hsut) snapshot() []int {
	out := make([]int, 0, len(s.elems)+len(s.heaps))
	for _, m := range s.heaps {
		n := -1
		guard(s.c, "Len", func() { n = m.h.Len() })
		out = append(out, n)
	}
	for _, e := range s.elems {
		if e.h == nil {
			out = append(out, -3)
			continue
		}
		idx, _ := s.index(e)
		out = append(out, idx)
	}
	return out
}

func (s *hsut) sameSnapshot(before []int, what string) bool {
	after := s.snapshot()
	if s.c.Failed() {
		return false
	}
	for i := range before {
		if i < len(after) && before[i] != after[i] {
			if i < len(s.heaps) {
				s.c.Failf("noop-effect", "%s must be ignored but %s.Len() went from %d to %d", what, s.heaps[i].name, before[i], after[i])
			} else {
				e := s.elems[i-len(s.heaps)]
				s.c.Failf("noop-effect", "%s must be ignored but Index() of element %v (%s) went from %d to %d", what, e.it(), s.whereName(e), before[i], after[i])
			}
			return false
		}
	}
	return true
}

// resolve maps a *Element returned by Peek/Pop to the model element it denotes.
func (s *hsut) resolve(m *hmodel, got *hel, op string) *helem {
	c := s.c
	v := got.Value
	if v.ID < 0 || v.ID >= len(s.elems) {
		c.Failf("unknown-element", "%s.%s returned an element with Value %v that was never put into any heap", m.name, op, v)
		return nil
	}
	e := s.elems[v.ID]
	if e.where != m.no {
		c.Failf("not-member", "%s.%s returned element %v, which the model has %s (lost/duplicated element)", m.name, op, v, s.whereName(e))
		return nil
	}
	if e.h == nil {
		if o := s.byPtr[got]; o != nil {
			c.Failf("handle-identity", "%s.%s returned for element %v the *Element that denotes element %v", m.name, op, v, o.it())
			return nil
		}
		e.h = got
		s.byPtr[got] = e
		c.Add(s.pfx+"handles_learned", 1)
	} else if e.h != got {
		c.Failf("handle-identity", "%s.%s returned element %v under a different *Element than the handle that denotes it", m.name, op, v)
		return nil
	}
	if v.K != e.key {
		c.Failf("value-changed", "%s.%s returned element #%d with key %d, the model has key %d", m.name, op, v.ID, v.K, e.key)
		return nil
	}
	return e
}

func (s *hsut) preceder(m *hmodel, e *helem) *helem {
	x := e.it()
	for _, y := range m.live {
		if y != e && m.ord.less(y.it(), x) {
			return y
		}
	}
	return nil
}

func (s *hsut) hasTie(m *hmodel, e *helem) bool {
	x := e.it()
	for _, y := range m.live {
		if y != e && m.ord.equiv(y.it(), x) {
			return true
		}
	}
	return false
}

func (s *hsut) opPush(m *hmodel, key int) bool {
	c := s.c
	e := s.newElem(key)
	s.note('p', m.no, key)
	s.muts++
	var got *hel
	if !guard(c, "Push", func() { got = m.h.Push(e.it()) }) {
		return false
	}
	if got == nil {
		c.Failf("push-nil", "%s.Push(%v) returned a nil handle", m.name, e.it())
		return false
	}
	if s.quiet {
		c.Logf("%s.Push(%v) (unobserved)", m.name, e.it())
	} else {
		c.Logf("%s.Push(%v) -> handle idx=%d", m.name, e.it(), got.Index())
	}
	if o := s.byPtr[got]; o != nil {
		c.Failf("handle-identity", "%s.Push(%v) returned the *Element that denotes element %v", m.name, e.it(), o.it())
		return false
	}
	if got.Value != e.it() {
		c.Failf("push-value", "%s.Push(%v) returned a handle with Value %v", m.name, e.it(), got.Value)
		return false
	}
	e.h = got
	s.byPtr[got] = e
	s.join(m, e)
	c.Add(s.pfx+"push", 1)
	return s.check()
}

// opPushElement pushes a fresh element (e == nil) or a previously popped one.
func (s *hsut) opPushElement(m *hmodel, e *helem, key int) bool {
	c := s.c
	s.muts++
	if e == nil {
		e = s.newElem(key)
		e.h = &hel{Value: e.it()}
		s.byPtr[e.h] = e
		c.Add(s.pfx+"push_element_fresh", 1)
		s.note('e', m.no, key)
	} else {
		if e.where >= 0 || e.h == nil {
			return true // harness guard: only elements outside every heap are re-pushed
		}
		e.key = key
		e.h.Value = e.it()
		c.Add(s.pfx+"push_element_repushed", 1)
		s.note('E', m.no, key)
	}
	if !guard(c, "PushElement", func() { m.h.PushElement(e.h) }) {
		return false
	}
	if s.quiet {
		c.Logf("%s.PushElement(%v) (unobserved)", m.name, e.it())
	} else {
		c.Logf("%s.PushElement(%v) -> idx=%d", m.name, e.it(), e.h.Index())
	}
	s.join(m, e)
	return s.check()
}

func (s *hsut) opPop(m *hmodel) (*helem, bool) {
	c := s.c
	s.note('o', m.no, 0)
	var got *hel
	if !guard(c, "Pop", func() { got = m.h.Pop() }) {
		return nil, false
	}
	if len(m.live) == 0 {
		c.Logf("%s.Pop() on empty -> %v", m.name, got)
		if got != nil {
			c.Failf("pop-empty", "%s.Pop() on an empty heap returned element %v", m.name, got.Value)
			return nil, false
		}
		c.Add(s.pfx+"pop_empty", 1)
		return nil, s.check()
	}
	if got == nil {
		c.Logf("%s.Pop() -> nil", m.name)
		c.Failf("pop-nil", "%s.Pop() returned nil while the heap holds %d elements", m.name, len(m.live))
		return nil, false
	}
	c.Logf("%s.Pop() -> %v", m.name, got.Value)
	e := s.resolve(m, got, "Pop")
	if e == nil {
		return nil, false
	}
	if y := s.preceder(m, e); y != nil {
		c.Failf("pop-not-min", "%s.Pop() returned %v but the remaining element %v precedes it (order %s, %d elements)", m.name, e.it(), y.it(), m.ord.name, len(m.live))
		return nil, false
	}
	if s.hasTie(m, e) {
		c.Add(s.pfx+"pop_with_tie", 1)
	}
	s.leave(m, e)
	s.muts++
	c.Add(s.pfx+"pop", 1)
	return e, s.check()
}

func (s *hsut) opPeek(m *hmodel) bool {
	c := s.c
	var got *hel
	if !guard(c, "Peek", func() { got = m.h.Peek() }) {
		return false
	}
	if len(m.live) == 0 {
		if got != nil {
			c.Logf("%s.Peek() on empty -> %v", m.name, got.Value)
			c.Failf("peek-empty", "%s.Peek() on an empty heap returned element %v", m.name, got.Value)
			return false
		}
		return true
	}
	if got == nil {
		c.Logf("%s.Peek() -> nil", m.name)
		c.Failf("peek-nil", "%s.Peek() returned nil while the heap holds %d elements", m.name, len(m.live))
		return false
	}
	c.Logf("%s.Peek() -> %v idx=%d", m.name, got.Value, got.Index())
	e := s.resolve(m, got, "Peek")
	if e == nil {
		return false
	}
	if y := s.preceder(m, e); y != nil {
		c.Failf("peek-not-min", "%s.Peek() returned %v but the element %v precedes it (order %s, %d elements)", m.name, e.it(), y.it(), m.ord.name, len(m.live))
		return false
	}
	c.Add(s.pfx+"peek", 1)
	return s.check()
}

func (s *hsut) class(m *hmodel, e *helem) string {
	switch {
	case e.where == m.no:
		return "live"
	case e.where < 0:
		return "stale"
	default:
		return "foreign"
	}
}

func (s *hsut) opRemove(m *hmodel, e *helem) bool {
	c := s.c
	cl := s.class(m, e)
	s.note('r', m.no, e.id)
	if s.quiet {
		// no Index(), no Len: the call itself is all that happens; that a stale or
		// foreign handle was ignored is verified against the model after the window
		if cl == "live" {
			s.muts++
		}
		if !guard(c, "Remove", func() { m.h.Remove(e.h) }) {
			return false
		}
		c.Logf("%s.Remove(%s handle of %v) (unobserved)", m.name, cl, e.it())
		c.Add(s.pfx+"remove_"+cl, 1)
		if cl == "live" {
			s.leave(m, e)
		}
		return true
	}
	pre, ok := s.index(e)
	if !ok {
		return false
	}
	var before []int
	var disp *helem // coverage: the element of the last array position, which takes the victim's place
	if cl != "live" {
		before = s.snapshot()
	} else {
		s.muts++
		last := len(m.live) - 1
		switch {
		case pre == last:
			c.Add(s.pfx+"remove_live_last", 1)
		case pre == 0:
			c.Add(s.pfx+"remove_live_root", 1)
		}
		if pre != last {
			guard(c, "Index", func() {
				for _, y := range m.live {
					if y.h != nil && y.h.Index() == last {
						disp = y
						break
					}
				}
			})
		}
	}
	if !guard(c, "Remove", func() { m.h.Remove(e.h) }) {
		return false
	}
	c.Logf("%s.Remove(%s handle of %v, idx was %d)", m.name, cl, e.it(), pre)
	c.Add(s.pfx+"remove_"+cl, 1)
	if cl == "live" {
		s.leave(m, e)
		if !s.check() {
			return false
		}
		if disp != nil {
			switch post, _ := s.index(disp); {
			case post < pre:
				c.Add(s.pfx+"remove_sift_up", 1)
			case post > pre:
				c.Add(s.pfx+"remove_sift_down", 1)
			default:
				c.Add(s.pfx+"remove_displaced_stays", 1)
			}
		}
		return true
	}
	if !s.check() {
		return false
	}
	return s.sameSnapshot(before, fmt.Sprintf("%s.Remove(%s handle of %v)", m.name, cl, e.it()))
}

// opFix changes the handle's Value (if change) and calls m.Fix. For a foreign
// live handle the owner heap is fixed afterwards, so that the caller keeps its
// side of the contract.
func (s *hsut) opFix(m *hmodel, e *helem, newKey int, change bool) bool {
	c := s.c
	cl := s.class(m, e)
	s.note('f', m.no, e.id)
	s.note('k', newKey, 0)
	old := e.key
	if change {
		e.key = newKey
		e.h.Value = e.it()
	}
	if s.quiet {
		if cl == "live" {
			s.muts++
		}
		if !guard(c, "Fix", func() { m.h.Fix(e.h) }) {
			return false
		}
		c.Logf("%s.Fix(%s handle of #%d, key %d -> %d) (unobserved)", m.name, cl, e.id, old, e.key)
		c.Add(s.pfx+"fix_"+cl, 1)
		if cl == "foreign" && change {
			return s.opFix(s.heaps[e.where], e, newKey, false)
		}
		return true
	}
	pre, ok := s.index(e)
	if !ok {
		return false
	}
	var before []int
	if cl != "live" {
		before = s.snapshot()
	} else {
		s.muts++
	}
	if !guard(c, "Fix", func() { m.h.Fix(e.h) }) {
		return false
	}
	post, _ := s.index(e)
	c.Logf("%s.Fix(%s handle of #%d, key %d -> %d) idx %d -> %d", m.name, cl, e.id, old, e.key, pre, post)
	c.Add(s.pfx+"fix_"+cl, 1)
	if !s.check() {
		return false
	}
	if cl == "live" {
		switch {
		case post < pre:
			c.Add(s.pfx+"fix_moved_up", 1)
		case post > pre:
			c.Add(s.pfx+"fix_moved_down", 1)
		default:
			c.Add(s.pfx+"fix_stayed", 1)
		}
		return true
	}
	if !s.sameSnapshot(before, fmt.Sprintf("%s.Fix(%s handle of %v)", m.name, cl, e.it())) {
		return false
	}
	if cl == "foreign" && change {
		return s.opFix(s.heaps[e.where], e, newKey, false)
	}
	return true
}

// opInit re-initialises an EMPTY heap from a slice (the reinit engine covers
// Init on a non-empty heap).
func (s *hsut) opInit(m *hmodel, keys []int, ord order) bool {
	c := s.c
	if len(m.live) != 0 {
		return true
	}
	items := make([]item, len(keys))
	es := make([]*helem, len(keys))
	for i, k := range keys {
		es[i] = s.newElem(k)
		items[i] = es[i].it()
		s.note('i', m.no, k)
	}
	if !guard(c, "Init", func() { m.h.Init(items, ord.less) }) {
		return false
	}
	c.Logf("%s.Init(%v, %s)", m.name, iv(items), ord.name)
	m.ord = ord
	for _, e := range es {
		s.join(m, e)
	}
	s.muts++
	c.Add(s.pfx+"init", 1)
	c.Add(s.pfx+"init_elements", int64(len(keys)))
	// the caller's slice is the caller's: scribbling on it must not matter
	for i := range items {
		items[i] = item{-7, -7}
	}
	return s.check()
}

// opPopAll consumes PopAll, stopping after k elements (k < 0: until it ends).
func (s *hsut) opPopAll(m *hmodel, k int) bool {
	c := s.c
	s.note('a', m.no, k)
	n0 := len(m.live)
	limit := n0 + 3
	var got []item
	if !guard(c, "PopAll", func() {
		if k == 0 {
			_ = m.h.PopAll() // creating the iterator must not consume anything
			return
		}
		for v := range m.h.PopAll() {
			got = append(got, v)
			if len(got) == k || len(got) >= limit {
				break
			}
		}
	}) {
		return false
	}
	c.Logf("%s.PopAll() stop-after=%d -> %v", m.name, k, iv(got))
	want := n0
	if k >= 0 && k < n0 {
		want = k
	}
	if len(got) != want {
		c.Failf("popall-count", "%s.PopAll() on %d elements, consumer stops after %d: yielded %d values %v", m.name, n0, k, len(got), iv(got))
		return false
	}
	for i, v := range got {
		if v.ID < 0 || v.ID >= len(s.elems) {
			c.Failf("unknown-element", "%s.PopAll() yielded %v that was never put into any heap", m.name, v)
			return false
		}
		e := s.elems[v.ID]
		if e.where != m.no {
			c.Failf("not-member", "%s.PopAll() yielded %v at position %d, which the model has %s (lost/duplicated element)", m.name, v, i, s.whereName(e))
			return false
		}
		if v.K != e.key {
			c.Failf("value-changed", "%s.PopAll() yielded element #%d with key %d, the model has key %d", m.name, v.ID, v.K, e.key)
			return false
		}
		if y := s.preceder(m, e); y != nil {
			c.Failf("popall-order", "%s.PopAll() yielded %v at position %d before %v which precedes it (order %s): sequence %v is not sorted", m.name, v, i, y.it(), m.ord.name, iv(got))
			return false
		}
		s.leave(m, e)
		s.muts++
	}
	if k < 0 || k >= n0 {
		c.Add(s.pfx+"popall_full", 1)
	} else {
		c.Add(s.pfx+"popall_partial", 1)
	}
	c.Add(s.pfx+"popall_values", int64(len(got)))
	return s.check()
}

// drain empties the heap through Pop, checking every result.
func (s *hsut) drain(m *hmodel) ([]*helem, bool) {
	var out []*helem
	for guard := len(m.live) + 3; guard > 0; guard-- {
		if len(m.live) == 0 {
			break
		}
		e, ok := s.opPop(m)
		if !ok {
			return out, false
		}
		if e != nil {
			out = append(out, e)
		}
	}
	if len(m.live) != 0 {
		return out, false
	}
	// one more Pop on the empty heap
	_, ok := s.opPop(m)
	return out, ok
}

// drainRefill pops everything (a complete order check at this moment) and
// pushes the same handles back.
func (s *hsut) drainRefill(m *hmodel) bool {
	es, ok := s.drain(m)
	if !ok {
		return false
	}
	s.c.Add(s.pfx+"drain_refill", 1)
	for _, j := range s.rng.Perm(len(es)) {
		if !s.opPushElement(m, es[j], es[j].key) {
			return false
		}
	}
	return true
}

func (s *hsut) liveKnown(m *hmodel) []*helem {
	var out []*helem
	for _, e := range m.live {
		if e.h != nil {
			out = append(out, e)
		}
	}
	return out
}

// pickLive picks a live element with a known handle, biased to the root and
// to the last array position (read through the public Index()).
func (s *hsut) pickLive(m *hmodel) *helem {
	ks := s.liveKnown(m)
	if len(ks) == 0 {
		return nil
	}
	want := -1
	switch s.rng.Intn(8) {
	case 0:
		want = 0
	case 1:
		want = len(m.live) - 1
	}
	if want >= 0 {
		for _, e := range ks {
			if idx, _ := s.index(e); idx == want {
				return e
			}
		}
	}
	return ks[s.rng.Intn(len(ks))]
}

func (s *hsut) pickStale() *helem {
	var out []*helem
	for _, e := range s.elems {
		if e.where < 0 && e.h != nil {
			out = append(out, e)
		}
	}
	if len(out) == 0 {
		return nil
	}
	return out[s.rng.Intn(len(out))]
}

func (s *hsut) pickForeign(m *hmodel) *helem {
	var out []*helem
	for _, o := range s.heaps {
		if o != m {
			out = append(out, s.liveKnown(o)...)
		}
	}
	if len(out) == 0 {
		return nil
	}
	return out[s.rng.Intn(len(out))]
}

// pickHandle chooses live (60%), stale (20%) or foreign (20%) with fallbacks.
func (s *hsut) pickHandle(m *hmodel) *helem {
	p := s.rng.Intn(10)
	var e *helem
	switch {
	case p < 6:
		e = s.pickLive(m)
	case p < 8:
		e = s.pickStale()
	default:
		e = s.pickForeign(m)
	}
	if e == nil {
		e = s.pickLive(m)
	}
	if e == nil {
		e = s.pickStale()
	}
	return e
}

// newKeyFor chooses the key for a Fix: below everything, above everything, a
// neighbour value, unchanged, or a fresh draw.
func newKeyFor(rng *ev.Rand, g *keygen, old int) int {
	switch rng.Intn(8) {
	case 0:
		return -5
	case 1:
		return 70
	case 2:
		if old > -1<<62 {
			return old - 1
		}
		return old
	case 3:
		if old < 1<<62 {
			return old + 1
		}
		return old
	case 4:
		return old
	default:
		return g.next()
	}
}

func heapCase(c *ev.Case) { heapRun(c, false) }

// heapDeepCase: the same mix on heaps of hundreds to a few thousand elements
// (tree depth 8..11) and a few thousand operations.
func heapDeepCase(c *ev.Case) { heapRun(c, true) }

func heapRun(c *ev.Case, deep bool) {
	rng := c.Rng
	s := newHsut(c)
	g := newKeygen(rng)
	sizeA := rng.Pick(0, 1, 2, 3, 7, 12, 15, 30)
	sizeB := rng.Pick(0, 2, 5, 12, 40)
	nops := rng.Pick(20, 50, 50, 50, 120)
	if deep {
		s.pfx = "deep/h_"
		sizeA = rng.Pick(255, 256, 600, 1023, 1024, 1500)
		sizeB = rng.Pick(0, 300, 2100)
		nops = rng.Pick(1000, 2500)
	}
	// two heaps; B is often the larger one so that a foreign handle's index is
	// out of A's range
	ordA, ordB := pickOrder(rng), pickOrder(rng)
	c.Add(s.pfx+"order "+ordA.name, 1)
	a := s.addHeap("A", ordA, initialKeys(rng, g, sizeA, ordA), rng.Chance(1, 2))
	if c.Failed() {
		return
	}
	b := s.addHeap("B", ordB, initialKeys(rng, g, sizeB, ordB), rng.Chance(1, 2))
	if c.Failed() {
		return
	}
	phase := 0
	for i := 0; i < nops; i++ {
		if i%25 == 0 {
			phase = rng.Intn(3) // grow, balanced, shrink
		}
		m := a
		if rng.Chance(3, 10) {
			m = b
		}
		pushP := []int{40, 25, 10}[phase]
		popP := []int{8, 15, 30}[phase]
		p := rng.Intn(100)
		ok := true
		switch {
		case p < pushP:
			switch q := rng.Intn(10); {
			case q < 5:
				ok = s.opPush(m, g.next())
			case q < 7:
				ok = s.opPushElement(m, nil, g.next())
			default:
				if e := s.pickStale(); e != nil {
					k := e.key
					if rng.Bool() {
						k = g.next()
					}
					ok = s.opPushElement(m, e, k)
				} else {
					ok = s.opPush(m, g.next())
				}
			}
		case p < pushP+popP:
			_, ok = s.opPop(m)
		case p < pushP+popP+10:
			ok = s.opPeek(m)
		case p < pushP+popP+28:
			if e := s.pickHandle(m); e != nil {
				ok = s.opRemove(m, e)
			} else {
				ok = s.opPush(m, g.next())
			}
		case p < pushP+popP+46:
			if e := s.pickHandle(m); e != nil {
				nk := newKeyFor(rng, g, e.key)
				ok = s.opFix(m, e, nk, nk != e.key)
				if ok && rng.Chance(1, 5) {
					ok = s.opPeek(m)
				}
			} else {
				ok = s.opPush(m, g.next())
			}
		case p < pushP+popP+48:
			if len(m.live) == 0 {
				ok = s.opInit(m, g.many(rng.Pick(0, 1, 2, 6, 13, 20)), pickOrder(rng))
			} else {
				k := rng.Intn(len(m.live) + 1)
				if deep && k > 24 {
					k = rng.Intn(25)
				}
				ok = s.opPopAll(m, k)
			}
		case p < pushP+popP+50:
			if deep && !rng.Chance(1, 40) {
				ok = s.opPeek(m)
			} else {
				ok = s.drainRefill(m)
			}
		default:
			ok = s.opPeek(m)
		}
		if !ok || c.Failed() {
			return
		}
	}
	peak := a.peak
	if b.peak > peak {
		peak = b.peak
	}
	// final drain: every element comes out exactly once, in order
	for _, m := range s.heaps {
		if rng.Bool() {
			if !s.opPopAll(m, -1) {
				return
			}
			if _, ok := s.opPop(m); !ok {
				return
			}
		} else if _, ok := s.drain(m); !ok {
			return
		}
	}
	// everything has left: every handle must say so, and is ignored
	if e := s.pickStale(); e != nil {
		if !s.opRemove(a, e) || !s.opFix(b, e, e.key+1, true) {
			return
		}
	}
	if s.muts >= 3 && peak >= 2 {
		c.Distinct(s.hash)
	}
	if c.WantSample() {
		c.Sample(fmt.Sprintf("heap (deep=%v): A order %s, B order %s, key mode %d, %d ops, %d elements created, peak length %d, all drained and every handle stale at the end", deep, ordA.name, ordB.name, g.mode, nops, len(s.elems), peak))
	}
}

// reinitCase: Heap.Init on a heap that still holds elements. The elements
// that were in the heap have left it: their handles must report -1 and be
// ignored by Remove/Fix, and the heap must hold exactly the new multiset.
func reinitCase(c *ev.Case) {
	rng := c.Rng
	s := newHsut(c)
	s.pfx = "reinit/"
	g := newKeygen(rng)
	ord := pickOrder(rng)
	m := s.addHeap("H", ord, g.many(rng.Range(0, 6)), rng.Bool())
	if c.Failed() {
		return
	}
	for i := rng.Range(1, 6); i > 0; i-- {
		if !s.opPush(m, g.next()) {
			return
		}
	}
	if !s.opPeek(m) {
		return
	}
	old := append([]*helem(nil), m.live...)
	// second Init while elements are inside
	keys := g.many(rng.Range(0, 8))
	ord2 := pickOrder(rng)
	items := make([]item, len(keys))
	es := make([]*helem, len(keys))
	for i, k := range keys {
		es[i] = s.newElem(k)
		items[i] = es[i].it()
	}
	if !guard(c, "Init", func() { m.h.Init(items, ord2.less) }) {
		return
	}
	c.Logf("H.Init(%v, %s) while H holds %d elements", iv(items), ord2.name, len(old))
	for _, e := range old {
		s.leave(m, e)
	}
	m.ord = ord2
	for _, e := range es {
		s.join(m, e)
	}
	s.hash = ev.Mix(s.hash, uint64(len(old)), uint64(len(keys)))
	variant := rng.Intn(3)
	indexCheck := func() bool {
		for _, e := range old {
			if e.h == nil {
				continue
			}
			c.Add("reinit/old_handles_inspected", 1)
			idx, ok := s.index(e)
			if !ok {
				return false
			}
			c.Logf("old handle of %v: Index() = %d", e.it(), idx)
			if idx != -1 {
				c.Failf("reinit-old-handle-index", "H.Init(%v) replaced the contents while element %v was inside; that element has left the heap but its handle reports Index() = %d, want -1", iv(items), e.it(), idx)
				return false
			}
		}
		return true
	}
	if variant == 0 && !indexCheck() {
		return
	}
	// old handles are ignored by Remove / Fix: the heap keeps exactly the new multiset
	for _, e := range old {
		if e.h == nil {
			continue
		}
		c.Add("reinit/old_handles_inspected", 1)
		n0 := len(m.live)
		op := "Remove"
		if variant == 2 {
			op = "Fix"
			e.key = newKeyFor(rng, g, e.key)
			e.h.Value = e.it()
		}
		if !guard(c, "reinit-old-handle-"+op, func() {
			if variant == 2 {
				m.h.Fix(e.h)
			} else {
				m.h.Remove(e.h)
			}
		}) {
			return
		}
		n1 := -1
		if !guard(c, "Len", func() { n1 = m.h.Len() }) {
			return
		}
		c.Logf("H.%s(old handle of %v) -> Len %d", op, e.it(), n1)
		if n1 != n0 {
			c.Failf("reinit-old-handle-effect", "after H.Init(%v), H.%s(handle of the discarded element %v) changed Len from %d to %d; a handle of an element that has left the heap must be ignored", iv(items), op, e.it(), n0, n1)
			return
		}
	}
	if !indexCheck() {
		return
	}
	// the heap must now hold exactly the new elements, in order; handles learned on the way
	if _, ok := s.drain(m); !ok {
		return
	}
	c.Distinct(s.hash)
	if c.WantSample() {
		c.Sample(fmt.Sprintf("reinit: heap with %d elements re-initialised with %v (order %s), old handles inspected (variant %d), drained", len(old), iv(items), ord2.name, variant))
	}
}
