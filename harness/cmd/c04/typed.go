package main

// Engine "elemtypes" (LESSONS class 14): Slice[T], Heap[T] and the generic functions over
// element types other than the two-word item the other engines use — wide structs (5, 9,
// 16 words), strings, pointers, interfaces, floats, bytes, structs with pointers inside,
// zero-size elements. An implementation may legitimately pick its sift strategy by
// element size or kind (hole moving for wide values, swaps for narrow ones); the statement
// is about every T. The oracle is the ordinary one: the multiset model, "nothing that
// remains precedes what Pop/Peek returned", heap order of the exported Values, handles.

import (
	"fmt"
	"sort"

	"github.com/welllog/golib/heapz"

	"verif/ev"
)

type kid struct{ k, id int }

func (x kid) String() string { return fmt.Sprintf("%d#%d", x.k, x.id) }

// codec maps (key, id) to an element of type T and back. rd also checks the redundant
// fields of the wide types, so a torn or half-copied element reads as {-1,-1} and is not
// found in the model.
type codec[T any] struct {
	name string
	mk   func(k, id int) T
	rd   func(T) kid
}

type wide5 struct{ A, B, C, D, E int64 }
type wide9 [9]int
type wide16 struct {
	Pad0 [7]uint64
	K    int
	Pad1 [7]uint64
	ID   int
}
type ptrful struct {
	S  string
	K  int
	P  *int
	ID int
	F  float64
	M  []int
}
type two [2]string

func typedRun[T any](c *ev.Case, cd codec[T]) {
	rng := c.Rng
	pfx := "typed/"
	c.Add(pfx+"type "+cd.name, 1)
	desc := rng.Chance(1, 3)
	lessK := func(a, b int) bool {
		if desc {
			return a > b
		}
		return a < b
	}
	cmp := func(a, b T) bool { return lessK(cd.rd(a).k, cd.rd(b).k) }
	span := rng.Pick(2, 6, 6, 64, 64, 1000)
	nextID := 0
	mkNew := func() T {
		nextID++
		x := cd.mk(rng.Intn(span), nextID)
		if (cd.name == "any" || cd.name == "fmt.Stringer") && cd.rd(x).id == 0 {
			c.Add(pfx+"nil_interface_elements", 1)
		}
		return x
	}
	var model []kid // multiset
	has := func(x kid) int {
		for i, m := range model {
			if m == x {
				return i
			}
		}
		return -1
	}
	del := func(x kid) bool {
		i := has(x)
		if i < 0 {
			return false
		}
		model[i] = model[len(model)-1]
		model = model[:len(model)-1]
		return true
	}
	preceder := func(x kid) (kid, bool) {
		for _, m := range model {
			if lessK(m.k, x.k) {
				return m, true
			}
		}
		return kid{}, false
	}
	sameMultiset := func(got []kid) bool {
		if len(got) != len(model) {
			return false
		}
		a := append([]kid(nil), got...)
		b := append([]kid(nil), model...)
		srt := func(s []kid) {
			sort.Slice(s, func(i, j int) bool {
				if s[i].k != s[j].k {
					return s[i].k < s[j].k
				}
				return s[i].id < s[j].id
			})
		}
		srt(a)
		srt(b)
		for i := range a {
			if a[i] != b[i] {
				return false
			}
		}
		return true
	}
	nInit := rng.Pick(0, 0, 1, 2, 3, 5, 8, 13, 21, 40)
	if rng.Chance(1, 12) {
		nInit = rng.Range(60, 300)
	}
	nops := rng.Range(10, 60)
	if nInit > 50 {
		nops = rng.Range(100, 400)
	}
	init := make([]T, nInit)
	for i := range init {
		init[i] = mkNew()
		model = append(model, cd.rd(init[i]))
	}
	var hash uint64 = ev.HashString(cd.name)
	mut := 0
	maxLen := nInit
	note := func(op byte, a, b int) { hash = ev.Mix(hash, uint64(op), uint64(a), uint64(b)) }
	flavour := rng.Intn(3)
	switch flavour {
	case 0: // ---------------------------------------------------------------- Slice[T]
		c.Add(pfx+"flavour Slice", 1)
		var s heapz.Slice[T]
		check := func(after string) bool {
			c.Add(pfx+"order_checks", 1)
			got := make([]kid, len(s.Values))
			for i, v := range s.Values {
				got[i] = cd.rd(v)
			}
			if !sameMultiset(got) {
				c.Failf("typed-slice-content", "Slice[%s] after %s: Values hold %v, the model holds %v", cd.name, after, got, model)
				return false
			}
			for i := 1; i < len(got); i++ {
				if p := (i - 1) / 2; lessK(got[i].k, got[p].k) {
					c.Failf("typed-slice-order", "Slice[%s] after %s: Values[%d]=%v precedes its parent Values[%d]=%v (desc=%v, %d elements)", cd.name, after, i, got[i], p, got[p], desc, len(got))
					return false
				}
			}
			if l := s.Len(); l != len(model) {
				c.Failf("typed-slice-len", "Slice[%s] after %s: Len()=%d, model has %d", cd.name, after, l, len(model))
				return false
			}
			return true
		}
		if !guard(c, "FromSlice", func() {
			if rng.Bool() || nInit > 0 {
				s = heapz.FromSlice(init, cmp)
			} else {
				s = heapz.NewSlice[T](rng.Intn(4), cmp)
			}
		}) || !check("FromSlice") {
			return
		}
		for op := 0; op < nops && !c.Failed(); op++ {
			if len(model) > maxLen {
				maxLen = len(model)
			}
			switch p := rng.Intn(20); {
			case p < 6:
				x := mkNew()
				note('P', cd.rd(x).k, 0)
				model = append(model, cd.rd(x))
				mut++
				c.Add(pfx+"s_push", 1)
				if !guard(c, "Slice.Push", func() { s.Push(x) }) || !check("Push") {
					return
				}
			case p < 11:
				note('O', 0, 0)
				var x T
				var ok bool
				if !guard(c, "Slice.Pop", func() { x, ok = s.Pop() }) {
					return
				}
				if ok != (len(model) > 0) {
					c.Failf("typed-slice-pop-ok", "Slice[%s].Pop() ok=%v with %d elements in the model", cd.name, ok, len(model))
					return
				}
				if ok {
					mut++
					c.Add(pfx+"s_pop", 1)
					if len(model) >= 4 {
						c.Add(pfx+"s_pop_depth2", 1)
					}
					g := cd.rd(x)
					if !del(g) {
						c.Failf("typed-slice-pop-unknown", "Slice[%s].Pop() returned %v, which the model does not hold (%v)", cd.name, g, model)
						return
					}
					if m, bad := preceder(g); bad {
						c.Failf("typed-slice-pop-not-min", "Slice[%s].Pop() returned %v but the remaining element %v precedes it (desc=%v, %d left)", cd.name, g, m, desc, len(model))
						return
					}
				}
				if !check("Pop") {
					return
				}
			case p < 13:
				var x T
				var ok bool
				if !guard(c, "Slice.Peek", func() { x, ok = s.Peek() }) {
					return
				}
				if ok != (len(model) > 0) {
					c.Failf("typed-slice-peek-ok", "Slice[%s].Peek() ok=%v with %d elements in the model", cd.name, ok, len(model))
					return
				}
				if ok {
					g := cd.rd(x)
					if has(g) < 0 {
						c.Failf("typed-slice-peek-unknown", "Slice[%s].Peek() returned %v, not in the model", cd.name, g)
						return
					}
					if m, bad := preceder(g); bad {
						c.Failf("typed-slice-peek-not-min", "Slice[%s].Peek() returned %v but %v precedes it", cd.name, g, m)
						return
					}
				}
			case p < 16:
				i := rng.Range(-1, len(model)+1)
				if len(model) > 0 && rng.Chance(2, 3) {
					i = inRangeIndex(rng, len(model))
				}
				note('R', i, 0)
				in := i >= 0 && i < len(model)
				var want kid
				if in {
					want = cd.rd(s.Values[i])
				}
				var x T
				var ok bool
				if !guard(c, "Slice.Remove", func() { x, ok = s.Remove(i) }) {
					return
				}
				if ok != in {
					c.Failf("typed-slice-remove-ok", "Slice[%s].Remove(%d) ok=%v with %d elements", cd.name, i, ok, len(model))
					return
				}
				if in {
					mut++
					c.Add(pfx+"s_remove", 1)
					if g := cd.rd(x); g != want {
						c.Failf("typed-slice-remove-wrong", "Slice[%s].Remove(%d) returned %v, Values[%d] was %v", cd.name, i, g, i, want)
						return
					}
					del(want)
				}
				if !check(fmt.Sprintf("Remove(%d)", i)) {
					return
				}
			default:
				i := rng.Range(-1, len(model)+1)
				if len(model) > 0 && rng.Chance(3, 4) {
					i = inRangeIndex(rng, len(model))
				}
				note('F', i, 0)
				if i >= 0 && i < len(model) {
					old := cd.rd(s.Values[i])
					nk := rng.Intn(span)
					if rng.Chance(1, 3) { // far up or far down
						nk = rng.Pick(-1, span+1)
					}
					if cd.name == "uint8" || cd.name == "struct{}" {
						nk = rng.Intn(span)
					}
					nv := cd.mk(nk, old.id)
					del(old)
					model = append(model, cd.rd(nv))
					s.Values[i] = nv
					mut++
					c.Add(pfx+"s_fix", 1)
				}
				if !guard(c, "Slice.Fix", func() { s.Fix(i) }) || !check(fmt.Sprintf("Fix(%d)", i)) {
					return
				}
			}
		}
		// drain through PopAll: non-decreasing under the order, exactly the model
		var out []kid
		if !guard(c, "Slice.PopAll", func() {
			for x := range s.PopAll() {
				out = append(out, cd.rd(x))
			}
		}) {
			return
		}
		if !sameMultiset(out) {
			c.Failf("typed-slice-drain-content", "Slice[%s] PopAll drain yielded %v, the model held %v", cd.name, out, model)
			return
		}
		for i := 1; i < len(out); i++ {
			if lessK(out[i].k, out[i-1].k) {
				c.Failf("typed-slice-drain-order", "Slice[%s] PopAll drain out of order at %d: %v after %v (desc=%v)", cd.name, i, out[i], out[i-1], desc)
				return
			}
		}
		c.Add(pfx+"drained", int64(len(out)))
	case 1: // ---------------------------------------------------------------- Heap[T]
		c.Add(pfx+"flavour Heap", 1)
		var h heapz.Heap[T]
		handles := map[int]*heapz.Element[T]{} // by id, live elements we hold a handle for (ids unique for id-carrying types)
		var gone []*heapz.Element[T]
		carriesID := cd.rd(cd.mk(1, 7)).id == 7
		if !guard(c, "Heap.Init", func() {
			if nInit > 0 || rng.Bool() {
				h.Init(init, cmp)
			} else {
				h = heapz.New[T](rng.Intn(4), cmp)
			}
		}) {
			return
		}
		check := func(after string) bool {
			if l := h.Len(); l != len(model) {
				c.Failf("typed-heap-len", "Heap[%s] after %s: Len()=%d, model has %d", cd.name, after, l, len(model))
				return false
			}
			seen := map[int]bool{}
			for id, e := range handles {
				ix := e.Index()
				if ix < 0 || ix >= len(model) || seen[ix] {
					c.Failf("typed-heap-index", "Heap[%s] after %s: live handle of id %d reports Index()=%d (len %d, duplicate=%v)", cd.name, after, id, ix, len(model), seen[ix])
					return false
				}
				seen[ix] = true
				if g := cd.rd(e.Value); has(g) < 0 {
					c.Failf("typed-heap-handle-value", "Heap[%s] after %s: live handle of id %d carries %v, not in the model", cd.name, after, id, g)
					return false
				}
			}
			for _, e := range gone {
				if e.Index() != -1 {
					c.Failf("typed-heap-stale-index", "Heap[%s] after %s: an element that left the heap reports Index()=%d", cd.name, after, e.Index())
					return false
				}
			}
			if e := h.Peek(); (e != nil) != (len(model) > 0) {
				c.Failf("typed-heap-peek-nil", "Heap[%s] after %s: Peek()==nil is %v with %d elements", cd.name, after, e == nil, len(model))
				return false
			} else if e != nil {
				g := cd.rd(e.Value)
				if has(g) < 0 {
					c.Failf("typed-heap-peek-unknown", "Heap[%s] after %s: Peek() carries %v, not in the model", cd.name, after, g)
					return false
				}
				if m, bad := preceder(g); bad {
					c.Failf("typed-heap-peek-not-min", "Heap[%s] after %s: Peek() = %v but %v precedes it (desc=%v, %d elements)", cd.name, after, g, m, desc, len(model))
					return false
				}
				if e.Index() != 0 {
					c.Failf("typed-heap-peek-index", "Heap[%s] after %s: Peek().Index() = %d", cd.name, after, e.Index())
					return false
				}
			}
			c.Add(pfx+"h_checks", 1)
			return true
		}
		if !check("Init") {
			return
		}
		for op := 0; op < nops && !c.Failed(); op++ {
			if len(model) > maxLen {
				maxLen = len(model)
			}
			switch p := rng.Intn(20); {
			case p < 7:
				x := mkNew()
				g := cd.rd(x)
				note('P', g.k, 0)
				model = append(model, g)
				mut++
				c.Add(pfx+"h_push", 1)
				var e *heapz.Element[T]
				if !guard(c, "Heap.Push", func() { e = h.Push(x) }) {
					return
				}
				if e == nil {
					c.Failf("typed-heap-push-nil", "Heap[%s].Push returned nil", cd.name)
					return
				}
				if carriesID && g.id != 0 {
					handles[g.id] = e
				}

				if !check("Push") {
					return
				}
			case p < 12:
				note('O', 0, 0)
				var e *heapz.Element[T]
				if !guard(c, "Heap.Pop", func() { e = h.Pop() }) {
					return
				}
				if (e != nil) != (len(model) > 0) {
					c.Failf("typed-heap-pop-nil", "Heap[%s].Pop()==nil is %v with %d elements", cd.name, e == nil, len(model))
					return
				}
				if e != nil {
					mut++
					c.Add(pfx+"h_pop", 1)
					if len(model) >= 4 {
						c.Add(pfx+"h_pop_depth2", 1)
					}
					g := cd.rd(e.Value)
					if !del(g) {
						c.Failf("typed-heap-pop-unknown", "Heap[%s].Pop() carries %v, which the model does not hold", cd.name, g)
						return
					}
					if m, bad := preceder(g); bad {
						c.Failf("typed-heap-pop-not-min", "Heap[%s].Pop() returned %v but the remaining element %v precedes it (desc=%v)", cd.name, g, m, desc)
						return
					}
					if carriesID && g.id != 0 {
						if hd, okh := handles[g.id]; okh && hd != e {
							c.Failf("typed-heap-pop-other-handle", "Heap[%s].Pop() returned a different *Element than Push handed out for id %d", cd.name, g.id)
							return
						}
						delete(handles, g.id)
					}
					gone = append(gone, e)
				}
				if !check("Pop") {
					return
				}
			case p < 16:
				if len(handles) == 0 {
					continue
				}
				ids := make([]int, 0, len(handles))
				for id := range handles {
					ids = append(ids, id)
				}
				sort.Ints(ids)
				id := ids[rng.Intn(len(ids))]
				e := handles[id]
				note('R', e.Index(), 0)
				g := cd.rd(e.Value)
				if !guard(c, "Heap.Remove", func() { h.Remove(e) }) {
					return
				}
				mut++
				c.Add(pfx+"h_remove", 1)
				if !del(g) {
					c.Failf("typed-heap-remove-unknown", "Heap[%s]: live handle carried %v, not in the model", cd.name, g)
					return
				}
				delete(handles, id)
				gone = append(gone, e)
				if !check("Remove") {
					return
				}
				if rng.Chance(1, 3) { // a stale handle has no effect
					if !guard(c, "Heap.Remove", func() { h.Remove(e) }) || !check("Remove(stale)") {
						return
					}
				}
			default:
				if len(handles) == 0 {
					continue
				}
				ids := make([]int, 0, len(handles))
				for id := range handles {
					ids = append(ids, id)
				}
				sort.Ints(ids)
				id := ids[rng.Intn(len(ids))]
				e := handles[id]
				note('F', e.Index(), 0)
				old := cd.rd(e.Value)
				nk := rng.Intn(span)
				if rng.Chance(1, 3) {
					nk = rng.Pick(-1, span+1)
				}
				nv := cd.mk(nk, old.id)
				del(old)
				model = append(model, cd.rd(nv))
				e.Value = nv
				if cd.rd(nv).id != id { // the new value is a nil interface: it has no id to track the handle by
					delete(handles, id)
				}
				mut++
				c.Add(pfx+"h_fix", 1)
				if !guard(c, "Heap.Fix", func() { h.Fix(e) }) || !check("Fix") {
					return
				}
			}
		}
		var out []kid
		if !guard(c, "Heap.PopAll", func() {
			for x := range h.PopAll() {
				out = append(out, cd.rd(x))
			}
		}) {
			return
		}
		if !sameMultiset(out) {
			c.Failf("typed-heap-drain-content", "Heap[%s] PopAll drain yielded %v, the model held %v", cd.name, out, model)
			return
		}
		for i := 1; i < len(out); i++ {
			if lessK(out[i].k, out[i-1].k) {
				c.Failf("typed-heap-drain-order", "Heap[%s] PopAll drain out of order at %d: %v after %v (desc=%v)", cd.name, i, out[i], out[i-1], desc)
				return
			}
		}
		for id, e := range handles {
			if e.Index() != -1 {
				c.Failf("typed-heap-stale-index", "Heap[%s]: after the drain the handle of id %d reports Index()=%d", cd.name, id, e.Index())
				return
			}
		}
		c.Add(pfx+"drained", int64(len(out)))
	default: // ---------------------------------------------------------------- generic functions
		c.Add(pfx+"flavour generic", 1)
		ct := &typedCont[T]{s: init, less: cmp}
		check := func(after string) bool {
			c.Add(pfx+"order_checks", 1)
			got := make([]kid, len(ct.s))
			for i, v := range ct.s {
				got[i] = cd.rd(v)
			}
			if !sameMultiset(got) {
				c.Failf("typed-generic-content", "generic[%s] after %s: the container holds %v, the model holds %v", cd.name, after, got, model)
				return false
			}
			for i := 1; i < len(got); i++ {
				if p := (i - 1) / 2; lessK(got[i].k, got[p].k) {
					c.Failf("typed-generic-order", "generic[%s] after %s: element %d=%v precedes its parent %d=%v (desc=%v)", cd.name, after, i, got[i], p, got[p], desc)
					return false
				}
			}
			return true
		}
		if !guard(c, "Init", func() { heapz.Init[T](ct) }) || !check("Init") {
			return
		}
		for op := 0; op < nops && !c.Failed(); op++ {
			if len(model) > maxLen {
				maxLen = len(model)
			}
			switch p := rng.Intn(20); {
			case p < 7:
				x := mkNew()
				note('P', cd.rd(x).k, 0)
				model = append(model, cd.rd(x))
				mut++
				c.Add(pfx+"g_push", 1)
				if !guard(c, "Push", func() { heapz.Push[T](ct, x) }) || !check("Push") {
					return
				}
			case p < 12:
				if len(model) == 0 {
					continue
				}
				note('O', 0, 0)
				var r any
				if !guard(c, "Pop", func() { r = heapz.Pop[T](ct) }) {
					return
				}
				x, isT := r.(T)
				if !isT && r != nil { // a nil interface element comes back as a nil any: x stays the zero T
					c.Failf("typed-generic-pop-type", "generic[%s]: Pop returned a %T", cd.name, r)
					return
				}
				mut++
				c.Add(pfx+"g_pop", 1)
				g := cd.rd(x)
				if !del(g) {
					c.Failf("typed-generic-pop-unknown", "generic[%s]: Pop returned %v, not in the model", cd.name, g)
					return
				}
				if m, bad := preceder(g); bad {
					c.Failf("typed-generic-pop-not-min", "generic[%s]: Pop returned %v but %v precedes it (desc=%v)", cd.name, g, m, desc)
					return
				}
				if !check("Pop") {
					return
				}
			case p < 16:
				if len(model) == 0 {
					continue
				}
				i := inRangeIndex(rng, len(model))
				note('R', i, 0)
				want := cd.rd(ct.s[i])
				var r any
				if !guard(c, "Remove", func() { r = heapz.Remove[T](ct, i) }) {
					return
				}
				x, isT := r.(T)
				if !isT && r != nil { // a nil interface element comes back as a nil any: x stays the zero T
					c.Failf("typed-generic-remove-type", "generic[%s]: Remove returned a %T", cd.name, r)
					return
				}
				mut++
				c.Add(pfx+"g_remove", 1)
				if g := cd.rd(x); g != want {
					c.Failf("typed-generic-remove-wrong", "generic[%s]: Remove(%d) returned %v, the element there was %v", cd.name, i, g, want)
					return
				}
				del(want)
				if !check(fmt.Sprintf("Remove(%d)", i)) {
					return
				}
			default:
				if len(model) == 0 {
					continue
				}
				i := inRangeIndex(rng, len(model))
				note('F', i, 0)
				old := cd.rd(ct.s[i])
				nk := rng.Intn(span)
				if rng.Chance(1, 3) {
					nk = rng.Pick(-1, span+1)
				}
				if cd.name == "uint8" || cd.name == "struct{}" {
					nk = rng.Intn(span)
				}
				nv := cd.mk(nk, old.id)
				del(old)
				model = append(model, cd.rd(nv))
				ct.s[i] = nv
				mut++
				c.Add(pfx+"g_fix", 1)
				if !guard(c, "Fix", func() { heapz.Fix[T](ct, i) }) || !check(fmt.Sprintf("Fix(%d)", i)) {
					return
				}
			}
		}
	}
	if len(model) > maxLen {
		maxLen = len(model)
	}
	if maxLen >= 7 {
		c.Add(pfx+"cases_depth3", 1)
	}
	if mut >= 3 && maxLen >= 2 {
		c.Distinct(hash)
	}
	if c.WantSample() {
		c.Sample(fmt.Sprintf("elemtypes: %s over element type %s (desc=%v, keys 0..%d), %d initial elements, %d operations, %d mutations", [...]string{"Slice", "Heap", "generic Init/Push/Pop/Remove/Fix"}[flavour], cd.name, desc, span-1, nInit, nops, mut))
	}
}

// typedCont is the harness container for the generic functions over T.
type typedCont[T any] struct {
	s    []T
	less func(a, b T) bool
}

func (c *typedCont[T]) Len() int           { return len(c.s) }
func (c *typedCont[T]) Less(i, j int) bool { return c.less(c.s[i], c.s[j]) }
func (c *typedCont[T]) Swap(i, j int)      { c.s[i], c.s[j] = c.s[j], c.s[i] }
func (c *typedCont[T]) Push(x T)           { c.s = append(c.s, x) }
func (c *typedCont[T]) Pop() T {
	n := len(c.s) - 1
	x := c.s[n]
	var zero T
	c.s[n] = zero
	c.s = c.s[:n]
	return x
}

var bad = kid{-1, -1}

func typedCase(c *ev.Case) {
	switch c.Rng.Intn(13) {
	case 0:
		typedRun(c, codec[wide5]{"struct{5×int64}",
			func(k, id int) wide5 { return wide5{int64(^k), int64(k + id), int64(k), int64(^id), int64(id)} },
			func(w wide5) kid {
				if w.A != ^w.C || w.D != ^w.E || w.B != w.C+w.E {
					return bad
				}
				return kid{int(w.C), int(w.E)}
			}})
	case 1:
		typedRun(c, codec[wide9]{"[9]int",
			func(k, id int) wide9 { return wide9{k, k + 1, k + 2, k + 3, k ^ id, id + 3, id + 2, id + 1, id} },
			func(w wide9) kid {
				if w[1] != w[0]+1 || w[2] != w[0]+2 || w[3] != w[0]+3 || w[4] != w[0]^w[8] || w[5] != w[8]+3 || w[6] != w[8]+2 || w[7] != w[8]+1 {
					return bad
				}
				return kid{w[0], w[8]}
			}})
	case 2:
		typedRun(c, codec[wide16]{"struct{16 words}",
			func(k, id int) wide16 {
				var w wide16
				w.K, w.ID = k, id
				for i := range w.Pad0 {
					w.Pad0[i] = uint64(k*31 + i)
					w.Pad1[i] = uint64(id*17 + i)
				}
				return w
			},
			func(w wide16) kid {
				for i := range w.Pad0 {
					if w.Pad0[i] != uint64(w.K*31+i) || w.Pad1[i] != uint64(w.ID*17+i) {
						return bad
					}
				}
				return kid{w.K, w.ID}
			}})
	case 3:
		typedRun(c, codec[string]{"string",
			func(k, id int) string { return fmt.Sprintf("%d/%d", k, id) },
			func(s string) kid {
				var x kid
				if n, _ := fmt.Sscanf(s, "%d/%d", &x.k, &x.id); n != 2 {
					return bad
				}
				return x
			}})
	case 4:
		typedRun(c, codec[*kid]{"*struct",
			func(k, id int) *kid { return &kid{k, id} },
			func(p *kid) kid {
				if p == nil {
					return bad
				}
				return *p
			}})
	case 5:
		typedRun(c, codec[any]{"any",
			func(k, id int) any {
				if id%4 == 0 {
					return nil // a nil interface value is a legal element; it reads as 0#0
				}
				if id&1 == 0 {
					return kid{k, id}
				}
				return &kid{k, id}
			},
			func(v any) kid {
				switch x := v.(type) {
				case nil:
					return kid{0, 0}
				case kid:
					return x
				case *kid:
					if x != nil {
						return *x
					}
				}
				return bad
			}})
	case 12:
		typedRun(c, codec[fmt.Stringer]{"fmt.Stringer",
			func(k, id int) fmt.Stringer {
				if id%4 == 0 {
					return nil
				}
				return kid{k, id}
			},
			func(v fmt.Stringer) kid {
				if v == nil {
					return kid{0, 0}
				}
				if x, ok := v.(kid); ok {
					return x
				}
				return bad
			}})
	case 6:
		typedRun(c, codec[ptrful]{"struct{string,int,*int,int,float64,[]int}",
			func(k, id int) ptrful {
				p := k
				return ptrful{S: fmt.Sprint(k), K: k, P: &p, ID: id, F: float64(id), M: []int{k, id}}
			},
			func(w ptrful) kid {
				if w.P == nil || *w.P != w.K || w.S != fmt.Sprint(w.K) || w.F != float64(w.ID) || len(w.M) != 2 || w.M[0] != w.K || w.M[1] != w.ID {
					return bad
				}
				return kid{w.K, w.ID}
			}})
	case 7:
		typedRun(c, codec[float64]{"float64",
			func(k, id int) float64 { return float64(k) + float64(id%1000)/4096 },
			func(f float64) kid {
				k := int(f)
				if f < 0 {
					k = -1
					return kid{k, int((f + 1) * 4096)}
				}
				return kid{k, int((f - float64(k)) * 4096)}
			}})
	case 8:
		typedRun(c, codec[uint8]{"uint8",
			func(k, id int) uint8 { return uint8(k & 63) },
			func(b uint8) kid { return kid{int(b), 0} }})
	case 9:
		typedRun(c, codec[struct{}]{"struct{}",
			func(k, id int) struct{} { return struct{}{} },
			func(struct{}) kid { return kid{0, 0} }})
	case 10:
		typedRun(c, codec[two]{"[2]string",
			func(k, id int) two { return two{fmt.Sprint(k), fmt.Sprint(id)} },
			func(t two) kid {
				var x kid
				if n, _ := fmt.Sscan(t[0], &x.k); n != 1 {
					return bad
				}
				if n, _ := fmt.Sscan(t[1], &x.id); n != 1 {
					return bad
				}
				return x
			}})
	default:
		typedRun(c, codec[[3]int32]{"[3]int32",
			func(k, id int) [3]int32 { return [3]int32{int32(k), int32(id), int32(k ^ id)} },
			func(t [3]int32) kid {
				if t[2] != t[0]^t[1] {
					return bad
				}
				return kid{int(t[0]), int(t[1])}
			}})
	}
}
