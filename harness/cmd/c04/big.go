package main

import (
	stdheap "container/heap"
	"fmt"

	"github.com/welllog/golib/heapz"

	"verif/ev"
)

// big: the three flavours on 4095 .. 131073 elements (both sides of 2^12, 2^13,
// 2^16 and above 2^17), where growth policies, block allocation, bulk
// heapify and sort-based drains would switch on. The element-wise models of
// the other engines are quadratic, so this one keeps the multiset as a count
// per equivalence class plus a reference heap of classes (container/heap, lazy
// deletion): "no remaining element precedes x" is "no class below x's class
// is populated".

type rankHeap []int

func (h rankHeap) Len() int           { return len(h) }
func (h rankHeap) Less(i, j int) bool { return h[i] < h[j] }
func (h rankHeap) Swap(i, j int)      { h[i], h[j] = h[j], h[i] }
func (h *rankHeap) Push(x any)        { *h = append(*h, x.(int)) }
func (h *rankHeap) Pop() any {
	o := *h
	x := o[len(o)-1]
	*h = o[:len(o)-1]
	return x
}

type bigModel struct {
	c     *ev.Case
	ord   order
	rank  func(k int) int // a.less(b) <=> rank(a.K) < rank(b.K); keys are in [0, 2^40)
	key   []int
	in    []bool
	stamp []int
	tick  int
	n     int
	cnt   map[int]int
	ref   rankHeap
	hash  uint64
}

func newBigModel(c *ev.Case) *bigModel {
	b := &bigModel{c: c, cnt: map[int]int{}}
	switch c.Rng.Intn(3) {
	case 0:
		b.ord, b.rank = orders[0], func(k int) int { return k }
	case 1:
		b.ord, b.rank = orders[1], func(k int) int { return -k }
	default:
		b.ord, b.rank = orders[2], func(k int) int { return k / 2 }
	}
	return b
}

func (b *bigModel) newItem(k int) item {
	it := item{k, len(b.key)}
	b.key = append(b.key, k)
	b.in = append(b.in, false)
	b.stamp = append(b.stamp, 0)
	return it
}

func (b *bigModel) add(it item) {
	b.in[it.ID] = true
	b.n++
	r := b.rank(it.K)
	if b.cnt[r] == 0 {
		stdheap.Push(&b.ref, r)
	}
	b.cnt[r]++
}

func (b *bigModel) del(it item) {
	b.in[it.ID] = false
	b.n--
	b.cnt[b.rank(b.key[it.ID])]--
}

func (b *bigModel) rekey(id, k int) {
	b.cnt[b.rank(b.key[id])]--
	b.key[id] = k
	r := b.rank(k)
	if b.cnt[r] == 0 {
		stdheap.Push(&b.ref, r)
	}
	b.cnt[r]++
}

func (b *bigModel) minRank() (int, bool) {
	for len(b.ref) > 0 && b.cnt[b.ref[0]] == 0 {
		stdheap.Pop(&b.ref)
	}
	if len(b.ref) == 0 {
		return 0, false
	}
	return b.ref[0], true
}

func (b *bigModel) member(x item, how string) bool {
	if x.ID < 0 || x.ID >= len(b.key) || !b.in[x.ID] {
		b.c.Failf("big-not-member", "%s %v, which is not in the multiset model (never pushed, or already taken out: lost/duplicated element)", how, x)
		return false
	}
	if x.K != b.key[x.ID] {
		b.c.Failf("big-value", "%s %v but the model has key %d for that element", how, x, b.key[x.ID])
		return false
	}
	return true
}

// came: x was handed out by Pop / PopAll / Peek (remove=false for Peek).
func (b *bigModel) came(x item, how string, remove bool) bool {
	if !b.member(x, how) {
		return false
	}
	if remove {
		b.del(x)
	}
	if mr, ok := b.minRank(); ok && mr < b.rank(x.K) {
		b.c.Failf("big-not-min", "%s %v while an element of a class that precedes it (order %s, class %d < %d) is still among the %d elements inside", how, x, b.ord.name, mr, b.rank(x.K), b.n)
		return false
	}
	return true
}

// layout checks an exposed array: same multiset as the model, heap order.
func (b *bigModel) layout(vals []item, after string) bool {
	c := b.c
	if len(vals) != b.n {
		c.Failf("big-len", "after %s: the array holds %d elements, the multiset model has %d", after, len(vals), b.n)
		return false
	}
	b.tick++
	for i, v := range vals {
		if v.ID < 0 || v.ID >= len(b.key) || !b.in[v.ID] {
			c.Failf("big-not-member", "after %s: [%d] = %v is not in the multiset model (%d elements)", after, i, v, b.n)
			return false
		}
		if b.stamp[v.ID] == b.tick {
			c.Failf("big-duplicate", "after %s: element %v appears twice in the array of %d elements (another one was lost)", after, v, b.n)
			return false
		}
		b.stamp[v.ID] = b.tick
		if v.K != b.key[v.ID] {
			c.Failf("big-value", "after %s: [%d] = %v but the model has key %d", after, i, v, b.key[v.ID])
			return false
		}
		if i > 0 && b.ord.less(v, vals[(i-1)/2]) {
			c.Failf("big-order", "after %s: [%d] = %v precedes its parent [%d] = %v (order %s, %d elements): heap order violated", after, i, v, (i-1)/2, vals[(i-1)/2], b.ord.name, b.n)
			return false
		}
	}
	c.Add("big/layout_checks", 1)
	return true
}

// drained checks a complete drain: everything, once, sorted.
func (b *bigModel) drained(got []item, how string) bool {
	c := b.c
	if len(got) != b.n {
		c.Failf("big-drain-count", "%s yielded %d elements, the multiset model has %d", how, len(got), b.n)
		return false
	}
	b.tick++
	for i, v := range got {
		if !b.member(v, fmt.Sprintf("%s yielded at position %d", how, i)) {
			return false
		}
		if b.stamp[v.ID] == b.tick {
			c.Failf("big-duplicate", "%s yielded element %v twice", how, v)
			return false
		}
		b.stamp[v.ID] = b.tick
		if i > 0 && b.ord.less(v, got[i-1]) {
			c.Failf("big-drain-order", "%s yielded %v at position %d after %v, which it precedes (order %s): not sorted", how, v, i, got[i-1], b.ord.name)
			return false
		}
	}
	for _, v := range got {
		b.del(v)
	}
	c.Add("big/elements_drained", int64(len(got)))
	return true
}

var bigSizes = []int{4095, 4096, 4097, 8192, 65535, 65536, 65537, 131073}

func bigKeys(rng *ev.Rand, n int) (keys []int, mode string, next func() int) {
	r := rng.Pick(6, 64, 4*n, 4*n)
	next = func() int { return rng.Intn(r) }
	keys = make([]int, n)
	switch rng.Intn(4) {
	case 0:
		mode = "ascending"
		for i := range keys {
			keys[i] = i
		}
	case 1:
		mode = "descending"
		for i := range keys {
			keys[i] = n - i
		}
	default:
		mode = fmt.Sprintf("random below %d", r)
		for i := range keys {
			keys[i] = next()
		}
	}
	return
}

func bigCase(c *ev.Case) {
	rng := c.Rng
	n := bigSizes[(c.Index/3)%len(bigSizes)]
	b := newBigModel(c)
	keys, mode, next := bigKeys(rng, n)
	nops := 300
	if c.Thorough() {
		nops = rng.Pick(300, 1500)
	}
	b.hash = ev.Mix(uint64(n), ev.HashString(b.ord.name), ev.HashString(mode), uint64(c.Index))
	var ok bool
	var flavour string
	switch c.Index % 3 {
	case 0:
		flavour = "Heap"
		ok = bigHeap(c, b, keys, next, nops)
	case 1:
		flavour = "Slice"
		ok = bigSlice(c, b, keys, next, nops)
	default:
		flavour = "generic"
		ok = bigGeneric(c, b, keys, next, nops)
	}
	if !ok || c.Failed() {
		return
	}
	c.Add("big/cases_"+flavour, 1)
	if n > 1<<16 {
		c.Add("big/cases_above_65536", 1)
	}
	c.Max("big/max_len", int64(n))
	c.Distinct(b.hash)
	if c.WantSample() {
		c.Sample(fmt.Sprintf("big: %s with %d elements (%s, order %s), %d mixed operations, complete drain compared with the multiset", flavour, n, mode, b.ord.name, nops))
	}
}

func bigHeap(c *ev.Case, b *bigModel, keys []int, next func() int, nops int) bool {
	rng := c.Rng
	n := len(keys)
	var h *heapz.Heap[item]
	var handles []*hel // by id; nil = not known
	var kl []int       // ids of live elements with a known handle
	var klPos []int    // by id: position in kl or -1
	grow := func(id int) {
		for len(handles) <= id {
			handles = append(handles, nil)
			klPos = append(klPos, -1)
		}
	}
	know := func(id int, e *hel, live bool) {
		grow(id)
		handles[id] = e
		if live {
			klPos[id] = len(kl)
			kl = append(kl, id)
		}
	}
	unlive := func(id int) {
		grow(id)
		if p := klPos[id]; p >= 0 {
			last := kl[len(kl)-1]
			kl[p] = last
			klPos[last] = p
			kl = kl[:len(kl)-1]
			klPos[id] = -1
		}
	}
	viaInit := rng.Bool()
	if viaInit {
		items := make([]item, n)
		for i, k := range keys {
			items[i] = b.newItem(k)
		}
		var hv heapz.Heap[item]
		h = &hv
		if !guard(c, "Init", func() { h.Init(items, b.ord.less) }) {
			return false
		}
		for _, it := range items {
			b.add(it)
		}
		c.Logf("H.Init(%d items, %s)", n, b.ord.name)
	} else {
		cp := rng.Pick(0, n/2, n)
		if !guard(c, "New", func() { hv := heapz.New[item](cp, b.ord.less); h = &hv }) {
			return false
		}
		for _, k := range keys {
			it := b.newItem(k)
			var e *hel
			if !guard(c, "Push", func() { e = h.Push(it) }) {
				return false
			}
			if e == nil || e.Value != it {
				c.Failf("push-value", "H.Push(%v) at length %d returned handle %v", it, b.n, e)
				return false
			}
			b.add(it)
			know(it.ID, e, true)
		}
		c.Logf("H := New(cap=%d, %s); %d pushes", cp, b.ord.name, n)
	}
	audit := func(when string) bool {
		ln := -1
		if !guard(c, "Len", func() { ln = h.Len() }) {
			return false
		}
		if ln != b.n {
			c.Failf("len", "%s: H.Len() = %d, the multiset model has %d elements", when, ln, b.n)
			return false
		}
		b.tick++
		seen := b.stamp // reused per position: positions < len(stamp) since every element got an id
		for id, e := range handles {
			if e == nil {
				continue
			}
			idx := -2
			if !guard(c, "Index", func() { idx = e.Index() }) {
				return false
			}
			if e.Value != (item{b.key[id], id}) {
				c.Failf("value-changed", "%s: handle of element #%d now carries Value %v, want key %d", when, id, e.Value, b.key[id])
				return false
			}
			if !b.in[id] {
				if idx != -1 {
					c.Failf("stale-index", "%s: element #%d has left the heap but its handle reports Index() = %d, want -1", when, id, idx)
					return false
				}
				continue
			}
			if idx < 0 || idx >= b.n {
				c.Failf("live-index-range", "%s: element #%d is in the heap (Len %d) but its handle reports Index() = %d", when, id, b.n, idx)
				return false
			}
			if idx < len(seen) {
				if seen[idx] == b.tick {
					c.Failf("live-index-dup", "%s: two live elements report the same Index() = %d (one of them element #%d)", when, idx, id)
					return false
				}
				seen[idx] = b.tick
			}
		}
		c.Add("big/handle_audits", 1)
		return true
	}
	// came for a *Element result: also learn / compare the handle
	cameE := func(e *hel, how string, remove bool) bool {
		x := e.Value
		if !b.came(x, how, remove) {
			return false
		}
		grow(x.ID)
		if handles[x.ID] == nil {
			know(x.ID, e, !remove)
		} else if handles[x.ID] != e {
			c.Failf("handle-identity", "%s element %v under a different *Element than the handle that denotes it", how, x)
			return false
		}
		if remove {
			unlive(x.ID)
		}
		return true
	}
	if !audit("after the build") {
		return false
	}
	var stale []int // ids with known handles that left the heap
	for i := 0; i < nops; i++ {
		if i == nops/2 {
			// a burst of pushes long enough to cross at least one growth step of the
			// backing array at this size, whatever the capacity was
			burst := n/3 + rng.Intn(64)
			for k := 0; k < burst; k++ {
				it := b.newItem(next())
				var e *hel
				if !guard(c, "Push", func() { e = h.Push(it) }) {
					return false
				}
				if e == nil || e.Value != it {
					c.Failf("push-value", "H.Push(%v) at length %d returned handle %v", it, b.n, e)
					return false
				}
				b.add(it)
				know(it.ID, e, true)
			}
			c.Logf("burst of %d pushes, length now %d", burst, b.n)
			c.Add("big/h_burst_pushes", int64(burst))
			if !audit("after a burst of pushes") {
				return false
			}
		}
		p := rng.Intn(100)
		b.hash = ev.Mix(b.hash, uint64(p))
		switch {
		case p < 28:
			it := b.newItem(next())
			var e *hel
			if !guard(c, "Push", func() { e = h.Push(it) }) {
				return false
			}
			c.Logf("H.Push(%v) at length %d", it, b.n)
			if e == nil || e.Value != it {
				c.Failf("push-value", "H.Push(%v) at length %d returned handle %v", it, b.n, e)
				return false
			}
			b.add(it)
			know(it.ID, e, true)
			c.Add("big/h_push", 1)
		case p < 34:
			if len(stale) == 0 {
				continue
			}
			id := stale[len(stale)-1]
			stale = stale[:len(stale)-1]
			e := handles[id]
			b.key[id] = next()
			e.Value = item{b.key[id], id}
			if !guard(c, "PushElement", func() { h.PushElement(e) }) {
				return false
			}
			c.Logf("H.PushElement(%v) at length %d", e.Value, b.n)
			b.add(e.Value)
			klPos[id] = len(kl)
			kl = append(kl, id)
			c.Add("big/h_push_element", 1)
		case p < 52:
			var e *hel
			if !guard(c, "Pop", func() { e = h.Pop() }) {
				return false
			}
			if e == nil {
				if b.n != 0 {
					c.Failf("pop-nil", "H.Pop() returned nil while the heap holds %d elements", b.n)
					return false
				}
				continue
			}
			c.Logf("H.Pop() -> %v", e.Value)
			if !cameE(e, "H.Pop() returned", true) {
				return false
			}
			stale = append(stale, e.Value.ID)
			c.Add("big/h_pop", 1)
		case p < 58:
			var e *hel
			if !guard(c, "Peek", func() { e = h.Peek() }) {
				return false
			}
			if e == nil {
				if b.n != 0 {
					c.Failf("peek-nil", "H.Peek() returned nil while the heap holds %d elements", b.n)
					return false
				}
				continue
			}
			if !cameE(e, "H.Peek() returned", false) {
				return false
			}
		case p < 74:
			if len(kl) == 0 {
				continue
			}
			id := kl[rng.Intn(len(kl))]
			e := handles[id]
			if !guard(c, "Remove", func() { h.Remove(e) }) {
				return false
			}
			c.Logf("H.Remove(handle of %v)", e.Value)
			b.del(e.Value)
			unlive(id)
			stale = append(stale, id)
			idx := -2
			if !guard(c, "Index", func() { idx = e.Index() }) {
				return false
			}
			if idx != -1 {
				c.Failf("stale-index", "H.Remove(handle of %v) on %d elements: the handle reports Index() = %d afterwards, want -1", e.Value, b.n+1, idx)
				return false
			}
			c.Add("big/h_remove", 1)
		case p < 90:
			if len(kl) == 0 {
				continue
			}
			id := kl[rng.Intn(len(kl))]
			e := handles[id]
			nk := next()
			switch rng.Intn(4) {
			case 0:
				nk = 0
			case 1:
				nk = 1 << 39
			}
			b.rekey(id, nk)
			e.Value = item{nk, id}
			if !guard(c, "Fix", func() { h.Fix(e) }) {
				return false
			}
			c.Logf("H.Fix(handle of #%d, key -> %d)", id, nk)
			c.Add("big/h_fix", 1)
		case p < 94:
			if len(stale) == 0 {
				continue
			}
			e := handles[stale[rng.Intn(len(stale))]]
			if !guard(c, "Remove/Fix stale", func() { h.Remove(e); h.Fix(e) }) {
				return false
			}
		case p < 97:
			k := rng.Range(1, 300)
			got := 0
			good := true
			if !guard(c, "PopAll", func() {
				for v := range h.PopAll() {
					got++
					if good = b.came(v, "H.PopAll() yielded", true); !good {
						break
					}
					unlive(v.ID)
					grow(v.ID)
					if handles[v.ID] != nil {
						stale = append(stale, v.ID)
					}
					if got == k {
						break
					}
				}
			}) || !good {
				return false
			}
			c.Logf("H.PopAll() stopped after %d", got)
			if want := min(k, b.n+got); got != want {
				c.Failf("popall-count", "H.PopAll() on %d elements with a consumer that stops after %d yielded %d", b.n+got, k, got)
				return false
			}
			c.Add("big/h_popall_partial", 1)
		default:
			if !audit(fmt.Sprintf("after operation %d", i)) {
				return false
			}
		}
		if c.Failed() {
			return false
		}
	}
	if !audit("before the final drain") {
		return false
	}
	// Peek first: the minimum of everything
	var top *hel
	if !guard(c, "Peek", func() { top = h.Peek() }) {
		return false
	}
	if top != nil && !cameE(top, "H.Peek() returned", false) {
		return false
	}
	var got []item
	usePopAll := rng.Bool()
	if !guard(c, "drain", func() {
		if usePopAll {
			for v := range h.PopAll() {
				got = append(got, v)
				if len(got) > b.n+3 {
					break
				}
			}
			return
		}
		for len(got) <= b.n+3 {
			e := h.Pop()
			if e == nil {
				break
			}
			got = append(got, e.Value)
		}
	}) {
		return false
	}
	if !b.drained(got, map[bool]string{true: "the final H.PopAll()", false: "the final Pop loop"}[usePopAll]) {
		return false
	}
	kl = kl[:0]
	return audit("after the final drain")
}

func bigSlice(c *ev.Case, b *bigModel, keys []int, next func() int, nops int) bool {
	rng := c.Rng
	n := len(keys)
	items := make([]item, n, n+rng.Pick(0, 0, 1, n/4))
	for i, k := range keys {
		items[i] = b.newItem(k)
		b.add(items[i])
	}
	var s *heapz.Slice[item]
	if !guard(c, "FromSlice", func() { sv := heapz.FromSlice(items, b.ord.less); s = &sv }) {
		return false
	}
	c.Logf("S := FromSlice(%d items, cap %d, %s)", n, cap(items), b.ord.name)
	if !b.layout(s.Values, "FromSlice") {
		return false
	}
	for i := 0; i < nops; i++ {
		if i == nops/2 {
			burst := n/3 + rng.Intn(64)
			for k := 0; k < burst; k++ {
				it := b.newItem(next())
				if !guard(c, "Slice.Push", func() { s.Push(it) }) {
					return false
				}
				b.add(it)
			}
			c.Logf("burst of %d pushes, length now %d", burst, b.n)
			c.Add("big/s_burst_pushes", int64(burst))
			if !b.layout(s.Values, "a burst of pushes") {
				return false
			}
		}
		p := rng.Intn(100)
		b.hash = ev.Mix(b.hash, uint64(p))
		what := ""
		switch {
		case p < 32:
			it := b.newItem(next())
			if !guard(c, "Slice.Push", func() { s.Push(it) }) {
				return false
			}
			b.add(it)
			what = fmt.Sprintf("Push(%v)", it)
			c.Add("big/s_push", 1)
		case p < 50:
			var x item
			var ok bool
			if !guard(c, "Slice.Pop", func() { x, ok = s.Pop() }) {
				return false
			}
			if ok != (b.n > 0) {
				c.Failf("slice-pop-false", "Pop() returned ok=%v while the heap holds %d elements", ok, b.n)
				return false
			}
			if !ok {
				continue
			}
			if !b.came(x, "S.Pop() returned", true) {
				return false
			}
			what = fmt.Sprintf("Pop() -> %v", x)
			c.Add("big/s_pop", 1)
		case p < 72:
			if b.n == 0 {
				continue
			}
			idx := boundaryIndex(rng, len(s.Values))
			inRange := idx >= 0 && idx < len(s.Values)
			var want item
			if inRange {
				want = s.Values[idx]
			}
			var x item
			var ok bool
			if !guard(c, "Slice.Remove", func() { x, ok = s.Remove(idx) }) {
				return false
			}
			if ok != inRange {
				c.Failf("slice-remove-ok", "Remove(%d) on a heap of %d elements returned ok=%v", idx, b.n, ok)
				return false
			}
			what = fmt.Sprintf("Remove(%d)", idx)
			if inRange {
				if x != want {
					c.Failf("slice-remove-wrong", "Remove(%d) on %d elements returned %v, the element at that index was %v", idx, b.n, x, want)
					return false
				}
				if !b.member(x, "S.Remove returned") {
					return false
				}
				b.del(x)
				c.Add("big/s_remove", 1)
			}
		case p < 95:
			if b.n == 0 {
				continue
			}
			idx := boundaryIndex(rng, len(s.Values))
			nk := next()
			switch rng.Intn(4) {
			case 0:
				nk = 0
			case 1:
				nk = 1 << 39
			}
			if idx >= 0 && idx < len(s.Values) {
				id := s.Values[idx].ID
				if id < 0 || id >= len(b.key) {
					return b.layout(s.Values, "before Fix")
				}
				s.Values[idx].K = nk
				b.rekey(id, nk)
				c.Add("big/s_fix", 1)
			}
			if !guard(c, "Slice.Fix", func() { s.Fix(idx) }) {
				return false
			}
			what = fmt.Sprintf("Values[%d].K = %d; Fix(%d)", idx, nk, idx)
		default:
			k := rng.Range(1, 300)
			got := 0
			good := true
			if !guard(c, "Slice.PopAll", func() {
				for v := range s.PopAll() {
					got++
					if good = b.came(v, "S.PopAll() yielded", true); !good || got == k {
						break
					}
				}
			}) || !good {
				return false
			}
			if want := min(k, b.n+got); got != want {
				c.Failf("slice-popall-count", "PopAll() on %d elements with a consumer that stops after %d yielded %d", b.n+got, k, got)
				return false
			}
			what = fmt.Sprintf("PopAll() stopped after %d", got)
			c.Add("big/s_popall_partial", 1)
		}
		c.Logf("S.%s at length %d", what, b.n)
		// Values as the call left it, before any other call (Len() last)
		if !b.layout(s.Values, what) {
			return false
		}
		ln := -1
		if !guard(c, "Len", func() { ln = s.Len() }) {
			return false
		}
		if ln != b.n {
			c.Failf("slice-len", "after %s: Len() = %d, the multiset model has %d elements", what, ln, b.n)
			return false
		}
	}
	var x item
	var ok bool
	if !guard(c, "Slice.Peek", func() { x, ok = s.Peek() }) {
		return false
	}
	if ok && !b.came(x, "S.Peek() returned", false) {
		return false
	}
	var got []item
	usePopAll := rng.Bool()
	if !guard(c, "drain", func() {
		if usePopAll {
			for v := range s.PopAll() {
				got = append(got, v)
				if len(got) > b.n+3 {
					break
				}
			}
			return
		}
		for len(got) <= b.n+3 {
			v, ok := s.Pop()
			if !ok {
				break
			}
			got = append(got, v)
		}
	}) {
		return false
	}
	if !b.drained(got, map[bool]string{true: "the final S.PopAll()", false: "the final Pop loop"}[usePopAll]) {
		return false
	}
	if len(s.Values) != 0 {
		c.Failf("slice-len", "after the final drain len(Values) = %d", len(s.Values))
		return false
	}
	return true
}

func bigGeneric(c *ev.Case, b *bigModel, keys []int, next func() int, nops int) bool {
	rng := c.Rng
	n := len(keys)
	items := make([]item, n)
	for i, k := range keys {
		items[i] = b.newItem(k)
		b.add(items[i])
	}
	h := &sliceCont{s: items, less: b.ord.less}
	if !guard(c, "generic.Init", func() { heapz.Init[item](h) }) {
		return false
	}
	c.Logf("Init(container of %d items, %s)", n, b.ord.name)
	check := func(what string) bool {
		if h.bad != "" {
			c.Failf("generic-misuse", "during %s golib called the container out of contract: %s", what, h.bad)
			return false
		}
		return b.layout(h.s, what)
	}
	if !check("Init") {
		return false
	}
	result := func(r any, op string) (item, bool) {
		x, isItem := r.(item)
		if !isItem {
			c.Failf("generic-result-type", "%s returned %T (%v), want the element type", op, r, r)
			return x, false
		}
		return x, true
	}
	for i := 0; i < nops; i++ {
		p := rng.Intn(100)
		b.hash = ev.Mix(b.hash, uint64(p))
		what := ""
		switch {
		case p < 32:
			it := b.newItem(next())
			if !guard(c, "generic.Push", func() { heapz.Push[item](h, it) }) {
				return false
			}
			b.add(it)
			what = fmt.Sprintf("Push(h, %v)", it)
			c.Add("big/g_push", 1)
		case p < 52:
			if b.n == 0 {
				continue
			}
			var r any
			if !guard(c, "generic.Pop", func() { r = heapz.Pop[item](h) }) {
				return false
			}
			x, ok := result(r, "Pop(h)")
			if !ok || !b.came(x, "Pop(h) returned", true) {
				return false
			}
			what = fmt.Sprintf("Pop(h) -> %v", x)
			c.Add("big/g_pop", 1)
		case p < 74:
			if b.n == 0 {
				continue
			}
			idx := inRangeIndex(rng, b.n)
			want := h.s[idx]
			var r any
			if !guard(c, "generic.Remove", func() { r = heapz.Remove[item](h, idx) }) {
				return false
			}
			x, ok := result(r, "Remove(h, i)")
			if !ok {
				return false
			}
			if x != want {
				c.Failf("generic-remove-wrong", "Remove(h, %d) on %d elements returned %v, the element at that index was %v", idx, b.n, x, want)
				return false
			}
			if !b.member(x, "Remove(h, i) returned") {
				return false
			}
			b.del(x)
			what = fmt.Sprintf("Remove(h, %d)", idx)
			c.Add("big/g_remove", 1)
		default:
			if b.n == 0 {
				continue
			}
			idx := inRangeIndex(rng, b.n)
			nk := next()
			switch rng.Intn(4) {
			case 0:
				nk = 0
			case 1:
				nk = 1 << 39
			}
			id := h.s[idx].ID
			if id < 0 || id >= len(b.key) {
				return check("before Fix")
			}
			h.s[idx].K = nk
			b.rekey(id, nk)
			if !guard(c, "generic.Fix", func() { heapz.Fix[item](h, idx) }) {
				return false
			}
			what = fmt.Sprintf("container[%d].K = %d; Fix(h, %d)", idx, nk, idx)
			c.Add("big/g_fix", 1)
		}
		c.Logf("%s at length %d", what, b.n)
		if !check(what) {
			return false
		}
	}
	var got []item
	good := true
	if !guard(c, "drain", func() {
		for len(h.s) > 0 && len(got) <= b.n+3 {
			x, ok := result(heapz.Pop[item](h), "Pop(h)")
			if !ok {
				good = false
				return
			}
			got = append(got, x)
		}
	}) || !good {
		return false
	}
	if h.bad != "" {
		c.Failf("generic-misuse", "during the final drain golib called the container out of contract: %s", h.bad)
		return false
	}
	return b.drained(got, "the final Pop(h) loop")
}
