package main

import (
	"fmt"
	"sort"

	"github.com/welllog/golib/heapz"

	"verif/ev"
)

// popAllMutCase: the body of a `for v := range h.PopAll()` loop changes the heap
// while the iteration is in progress (re-enqueues work, drops the next element,
// pops). Whatever order results, nothing may be lost or duplicated: every value
// ever pushed is, at the end, exactly once in (yielded ∪ taken out by the body ∪
// still in the heap). Values are unique ints.
func popAllMutCase(c *ev.Case) {
	rng := c.Rng
	useSlice := c.Index%2 == 1
	less := func(a, b int) bool { return a < b }
	var h heapz.Heap[int]
	var sl heapz.Slice[int]
	n0 := rng.Range(1, 12)
	base := rng.Perm(40)[:n0]
	for i := range base {
		base[i] = base[i]*10 + 100 // room below and between for values pushed later
	}
	if !guard(c, "Init", func() {
		if useSlice {
			sl = heapz.NewSlice[int](0, less)
			for _, v := range base {
				sl.Push(v)
			}
		} else {
			h.Init(append([]int(nil), base...), less)
		}
	}) {
		return
	}
	kind := "Heap"
	if useSlice {
		kind = "Slice"
	}
	c.Logf("%s initial %v", kind, base)
	pushedAll := map[int]bool{}
	for _, v := range base {
		pushedAll[v] = true
	}
	seen := map[int]string{} // value -> where it went
	next := 1000
	var yielded []int
	stopAfter := -1
	if rng.Chance(1, 3) {
		stopAfter = rng.Range(1, 6)
	}
	dup := ""
	take := func(v int, how string) {
		if w, ok := seen[v]; ok && dup == "" {
			dup = fmt.Sprintf("value %d came out twice (%s, then %s)", v, w, how)
		}
		seen[v] = how
	}
	push := func(v int) {
		pushedAll[v] = true
		if useSlice {
			sl.Push(v)
		} else {
			h.Push(v)
		}
	}
	steps := 0
	ok := guard(c, kind+".PopAll", func() {
		body := func(v int) bool {
			steps++
			yielded = append(yielded, v)
			take(v, "yielded by PopAll")
			if steps > 200 {
				return false
			}
			switch rng.Intn(6) {
			case 0: // re-enqueue something smaller than what was just yielded
				w := v - 1 - rng.Intn(3)
				for pushedAll[w] {
					w--
				}
				push(w)
				c.Logf("  body(%d): Push(%d) (smaller)", v, w)
			case 1: // something larger
				next += 7
				push(next)
				c.Logf("  body(%d): Push(%d) (larger)", v, next)
			case 2: // drop the next element
				if useSlice {
					if x, ok := sl.Remove(0); ok {
						take(x, "Remove(0) in the loop body")
						c.Logf("  body(%d): Remove(0) -> %d", v, x)
					}
				} else if e := h.Peek(); e != nil {
					x := e.Value
					h.Remove(e)
					if e.Index() == -1 {
						take(x, "Remove(Peek()) in the loop body")
					}
					c.Logf("  body(%d): Remove(Peek()) -> %d", v, x)
				}
			case 3: // pop
				if useSlice {
					if x, ok := sl.Pop(); ok {
						take(x, "Pop in the loop body")
						c.Logf("  body(%d): Pop -> %d", v, x)
					}
				} else if e := h.Pop(); e != nil {
					take(e.Value, "Pop in the loop body")
					c.Logf("  body(%d): Pop -> %d", v, e.Value)
				}
			}
			return stopAfter < 0 || len(yielded) < stopAfter
		}
		if useSlice {
			sl.PopAll()(body)
		} else {
			h.PopAll()(body)
		}
	})
	if !ok {
		return
	}
	c.Logf("yielded %v (stop after %d)", yielded, stopAfter)
	// what is left
	var rest []int
	if !guard(c, "drain", func() {
		for i := 0; i < 400; i++ {
			if useSlice {
				v, ok := sl.Pop()
				if !ok {
					return
				}
				rest = append(rest, v)
			} else {
				e := h.Pop()
				if e == nil {
					return
				}
				rest = append(rest, e.Value)
			}
		}
	}) {
		return
	}
	c.Logf("left in the heap: %v", rest)
	for _, v := range rest {
		take(v, "still in the heap afterwards")
	}
	if !sort.IntsAreSorted(rest) {
		c.Failf("popallmut-order", "%s: draining the heap after a PopAll loop whose body modified it gives %v, not sorted", kind, rest)
		return
	}
	if dup != "" {
		c.Failf("popallmut-duplicate", "%s.PopAll with a loop body that modifies the heap: %s (initial %v, yielded %v, left %v)", kind, dup, base, yielded, rest)
		return
	}
	for v := range pushedAll {
		if _, ok := seen[v]; !ok {
			c.Failf("popallmut-lost", "%s.PopAll with a loop body that modifies the heap: value %d was pushed but never came out and is not in the heap (initial %v, yielded %v, left %v)", kind, v, base, yielded, rest)
			return
		}
	}
	for v := range seen {
		if !pushedAll[v] {
			c.Failf("popallmut-invented", "%s.PopAll: value %d was never pushed", kind, v)
			return
		}
	}
	c.Add("popall_mutating_loops", 1)
	c.Add("popall_mutating_body_steps", int64(steps))
	c.Distinct(ev.Mix(uint64(c.Index), uint64(len(yielded)), uint64(len(rest)), ev.HashString(fmt.Sprint(yielded))))
	if c.WantSample() {
		c.Sample(fmt.Sprintf("popall-mutating: %s with %v; loop body pushes smaller/larger values, removes the head or pops; yielded %v, left %v: conservation holds", kind, base, yielded, rest))
	}
}
