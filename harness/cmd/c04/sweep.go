package main

import (
	"fmt"
	"math"
	"sort"

	"verif/ev"
)

// sweepCase takes one small heap (1..13 elements, many ties) and, for each of
// the three flavours, rebuilds it once per (position, new key) pair:
//
//	Heap:    Remove(handle) and Fix(handle) for the handle of every element,
//	         then the same call again through the now stale handle
//	Slice:   Remove(i) for every i in -2..len+1, Fix(i) for every i in -1..len
//	generic: Remove(h,i) and Fix(h,i) for every i in 0..len-1
//
// and drains the heap afterwards, so that the complete order is observed.
func sweepCase(c *ev.Case) {
	rng := c.Rng
	g := newKeygen(rng)
	ord := pickOrder(rng)
	n := rng.Range(1, 13)
	keys := initialKeys(rng, g, n, ord)
	// candidate new keys: every distinct key present, one below all, one above all
	cands := append([]int(nil), keys...)
	sort.Ints(cands)
	lo, hi := cands[0], cands[len(cands)-1]
	if lo > math.MinInt {
		cands = append(cands, lo-1)
	}
	if hi < math.MaxInt {
		cands = append(cands, hi+1)
	}
	sort.Ints(cands)
	u := cands[:0]
	for i, k := range cands {
		if i == 0 || k != cands[i-1] {
			u = append(u, k)
		}
	}
	cands = u
	if len(cands) > 7 {
		pm := rng.Perm(len(cands))
		pick := []int{cands[0], cands[len(cands)-1]}
		for _, j := range pm[:5] {
			pick = append(pick, cands[j])
		}
		cands = pick
	}
	useInit := rng.Bool()
	useMap := rng.Bool()
	h := ev.Mix(uint64(n), ev.HashString(ord.name), uint64(len(cands)))
	for _, k := range keys {
		h = ev.Mix(h, uint64(k))
	}
	c.Logf("sweep over keys %v, order %s, new keys %v", keys, ord.name, cands)

	// ---- Heap with handles ----
	buildHeap := func() (*hsut, *hmodel) {
		s := newHsut(c)
		s.pfx = "sweep/h_"
		var m *hmodel
		if useInit {
			// Init, then learn every handle by draining and pushing the elements back
			m = s.addHeap("H", ord, keys, true)
			if c.Failed() || !s.drainRefill(m) {
				return nil, nil
			}
		} else {
			m = s.addHeap("H", ord, nil, false)
			if c.Failed() {
				return nil, nil
			}
			for _, k := range keys {
				if !s.opPush(m, k) {
					return nil, nil
				}
			}
		}
		return s, m
	}
	for j := 0; j < n; j++ {
		s, m := buildHeap()
		if s == nil {
			return
		}
		e := s.elems[j]
		c.Logf("-- Heap: Remove(handle of element #%d)", j)
		if !s.opRemove(m, e) || !s.opRemove(m, e) || !s.opFix(m, e, e.key+0, false) {
			return
		}
		if _, ok := s.drain(m); !ok {
			return
		}
		c.Add("sweep/heap_remove_handle", 1)
		for _, nk := range cands {
			s, m := buildHeap()
			if s == nil {
				return
			}
			e := s.elems[j]
			c.Logf("-- Heap: Fix(handle of element #%d) with key %d", j, nk)
			if !s.opFix(m, e, nk, true) || !s.opPeek(m) {
				return
			}
			if _, ok := s.drain(m); !ok {
				return
			}
			c.Add("sweep/heap_fix_handle", 1)
		}
	}

	// ---- Slice ----
	buildSlice := func() *ssut {
		s := newSsut(c)
		s.pfx = "sweep/s_"
		if !s.build(keys, ord, false) {
			return nil
		}
		return s
	}
	drainSlice := func(s *ssut) bool {
		for guard := s.n + 3; guard > 0 && s.n > 0; guard-- {
			if !s.pop() {
				return false
			}
		}
		return s.n == 0
	}
	for i := -2; i <= n+1; i++ {
		s := buildSlice()
		if s == nil {
			return
		}
		c.Logf("-- Slice: Remove(%d)", i)
		if !s.remove(i) || !drainSlice(s) {
			return
		}
		c.Add("sweep/slice_remove_index", 1)
	}
	for i := -1; i <= n; i++ {
		for _, nk := range cands {
			s := buildSlice()
			if s == nil {
				return
			}
			c.Logf("-- Slice: Fix(%d) with key %d", i, nk)
			if !s.fix(i, nk) || !s.peek() || !drainSlice(s) {
				return
			}
			c.Add("sweep/slice_fix_index", 1)
		}
	}

	// ---- generic functions ----
	buildGen := func() *gsut {
		s := newGsut(c)
		s.pfx = "sweep/g_"
		if !s.init(keys, ord, useMap) {
			return nil
		}
		return s
	}
	drainGen := func(s *gsut) bool {
		for guard := s.n + 3; guard > 0 && s.n > 0; guard-- {
			if !s.pop() {
				return false
			}
		}
		return s.n == 0
	}
	for i := 0; i < n; i++ {
		s := buildGen()
		if s == nil {
			return
		}
		c.Logf("-- generic: Remove(h, %d)", i)
		if !s.remove(i) || !drainGen(s) {
			return
		}
		c.Add("sweep/generic_remove_index", 1)
		for _, nk := range cands {
			s := buildGen()
			if s == nil {
				return
			}
			c.Logf("-- generic: Fix(h, %d) with key %d", i, nk)
			if !s.fix(i, nk) || !drainGen(s) {
				return
			}
			c.Add("sweep/generic_fix_index", 1)
		}
	}
	if n >= 2 {
		c.Distinct(h)
	}
	if c.WantSample() {
		c.Sample(fmt.Sprintf("sweep: keys %v, order %s, new keys %v: Heap Remove/Fix through every handle (built by %s), Slice Remove(i) for i=-2..%d and Fix(i) for i=-1..%d, generic Remove/Fix at every index (%s container); each followed by a full drain", keys, ord.name, cands, map[bool]string{true: "Init+drain+PushElement", false: "New+Push"}[useInit], n+1, n, map[bool]string{true: "map", false: "slice"}[useMap]))
	}
}
