package main

import (
	"fmt"
	"math"

	"github.com/welllog/golib/heapz"

	"verif/ev"
)

// ssut monitors one heapz.Slice[item]. The model is the set of member IDs with
// their keys; Slice.Values is exported, so after every call the whole array is
// compared with the model (same multiset) and checked for heap order.
type ssut struct {
	c    *ev.Case
	rng  *ev.Rand
	s    *heapz.Slice[item]
	ord  order
	key  []int  // by id
	in   []bool // membership by id
	seen []int  // scratch: stamp per id
	tick int
	n    int
	hash uint64
	muts int
	peak int
	pfx  string // counter prefix ("slice/" or "sweep/")
}

func newSsut(c *ev.Case) *ssut { return &ssut{c: c, rng: c.Rng, pfx: "slice/"} }

func (s *ssut) note(op byte, a, b int) { s.hash = ev.Mix(s.hash, uint64(op), uint64(a), uint64(b)) }

func (s *ssut) newItem(key int) item {
	it := item{key, len(s.key)}
	s.key = append(s.key, key)
	s.in = append(s.in, false)
	s.seen = append(s.seen, 0)
	return it
}

func (s *ssut) add(it item) {
	s.in[it.ID] = true
	s.n++
	if s.n > s.peak {
		s.peak = s.n
	}
}

func (s *ssut) del(it item) {
	s.in[it.ID] = false
	s.n--
}

// build creates the Slice with FromSlice over an arbitrary arrangement (or
// NewSlice when keys == nil).
func (s *ssut) build(keys []int, ord order, useNew bool) bool {
	c := s.c
	s.ord = ord
	if useNew {
		cp := s.rng.Pick(0, 1, 8)
		if !guard(c, "NewSlice", func() { ns := heapz.NewSlice[item](cp, ord.less); s.s = &ns }) {
			return false
		}
		c.Logf("S := NewSlice(cap=%d, %s)", cp, ord.name)
		for _, k := range keys {
			if !s.push(k) {
				return false
			}
		}
		return s.check("NewSlice")
	}
	items := make([]item, len(keys), len(keys)+s.rng.Intn(3))
	for i, k := range keys {
		items[i] = s.newItem(k)
		s.add(items[i])
		s.note('b', k, 0)
	}
	return s.fromSlice(items, ord)
}

func (s *ssut) fromSlice(items []item, ord order) bool {
	c := s.c
	c.Logf("S := FromSlice(%v, %s)", iv(items), ord.name)
	if !guard(c, "FromSlice", func() { ns := heapz.FromSlice(items, ord.less); s.s = &ns }) {
		return false
	}
	s.ord = ord
	s.muts++
	c.Add(s.pfx+"from_slice", 1)
	return s.check("FromSlice")
}

// check: Len, the multiset in Values, and the heap order of Values.
func (s *ssut) check(format string, a ...any) bool {
	c := s.c
	if c.Failed() {
		return false
	}
	after := func() string { return fmt.Sprintf(format, a...) }
	// Values is read before anything else is called (Len() comes last): "after
	// every call" means as the call under test left it, and a later call that
	// tidies up must not be credited to it
	vals := s.s.Values
	if len(vals) != s.n {
		c.Failf("slice-len", "after %s: len(Values) = %d, the multiset model has %d elements", after(), len(vals), s.n)
		return false
	}
	s.tick++
	for i, v := range vals {
		if v.ID < 0 || v.ID >= len(s.key) {
			c.Failf("slice-unknown-element", "after %s: Values[%d] = %v was never put into the heap (Values %v)", after(), i, v, iv(vals))
			return false
		}
		if !s.in[v.ID] {
			c.Failf("slice-not-member", "after %s: Values[%d] = %v is not in the multiset model (an element came back / was not removed; Values %v)", after(), i, v, iv(vals))
			return false
		}
		if s.seen[v.ID] == s.tick {
			c.Failf("slice-duplicate", "after %s: element %v appears twice in Values %v (another element was lost)", after(), v, iv(vals))
			return false
		}
		s.seen[v.ID] = s.tick
		if v.K != s.key[v.ID] {
			c.Failf("slice-value", "after %s: Values[%d] = %v but the model has key %d for that element", after(), i, v, s.key[v.ID])
			return false
		}
		if i > 0 && s.ord.less(v, vals[(i-1)/2]) {
			c.Failf("slice-order", "after %s: Values[%d] = %v precedes its parent Values[%d] = %v (order %s): Values %v violates the heap order", after(), i, v, (i-1)/2, vals[(i-1)/2], s.ord.name, iv(vals))
			return false
		}
	}
	ln := -1
	if !guard(c, "Len", func() { ln = s.s.Len() }) {
		return false
	}
	if ln != s.n {
		c.Failf("slice-len", "after %s: Len() = %d, len(Values) = %d, the multiset model has %d elements", after(), ln, len(vals), s.n)
		return false
	}
	c.Add(s.pfx+"order_checks", 1)
	return true
}

func (s *ssut) push(key int) bool {
	c := s.c
	it := s.newItem(key)
	s.note('p', key, 0)
	if !guard(c, "Slice.Push", func() { s.s.Push(it) }) {
		return false
	}
	c.Logf("S.Push(%v) -> Values %v", it, iv(s.s.Values))
	s.add(it)
	s.muts++
	c.Add(s.pfx+"push", 1)
	c.Max(s.pfx+"max_len", int64(s.n))
	return s.check("Push(%v)", it)
}

// minOK: x (already taken out of Values, or the Peek result) must not be
// preceded by any element of Values.
func (s *ssut) minOK(x item, op string) bool {
	tie := false
	for i, v := range s.s.Values {
		if v.ID == x.ID {
			continue
		}
		if s.ord.less(v, x) {
			s.c.Failf("slice-"+op+"-not-min", "%s() returned %v but Values[%d] = %v precedes it (order %s, Values %v)", op, x, i, v, s.ord.name, iv(s.s.Values))
			return false
		}
		if !s.ord.less(x, v) {
			tie = true
		}
	}
	if tie {
		s.c.Add(s.pfx+op+"_with_tie", 1)
	}
	return true
}

func (s *ssut) member(x item, op string) bool {
	if x.ID < 0 || x.ID >= len(s.key) || !s.in[x.ID] {
		s.c.Failf("slice-not-member", "%s returned %v which is not in the multiset model", op, x)
		return false
	}
	if x.K != s.key[x.ID] {
		s.c.Failf("slice-value", "%s returned %v but the model has key %d for that element", op, x, s.key[x.ID])
		return false
	}
	return true
}

func (s *ssut) pop() bool {
	c := s.c
	s.note('o', 0, 0)
	var x item
	var ok bool
	if !guard(c, "Slice.Pop", func() { x, ok = s.s.Pop() }) {
		return false
	}
	c.Logf("S.Pop() -> %v, %v; Values %v", x, ok, iv(s.s.Values))
	if s.n == 0 {
		if ok {
			c.Failf("slice-pop-empty", "Pop() on an empty heap returned (%v, true)", x)
			return false
		}
		c.Add(s.pfx+"pop_empty", 1)
		return s.check("Pop() on empty")
	}
	if !ok {
		c.Failf("slice-pop-false", "Pop() returned ok=false while the heap holds %d elements", s.n)
		return false
	}
	if !s.member(x, "Pop()") {
		return false
	}
	s.del(x)
	s.muts++
	c.Add(s.pfx+"pop", 1)
	if !s.check("Pop()") {
		return false
	}
	return s.minOK(x, "Pop")
}

func (s *ssut) peek() bool {
	c := s.c
	var x item
	var ok bool
	if !guard(c, "Slice.Peek", func() { x, ok = s.s.Peek() }) {
		return false
	}
	if s.n == 0 {
		if ok {
			c.Logf("S.Peek() on empty -> %v, true", x)
			c.Failf("slice-peek-empty", "Peek() on an empty heap returned (%v, true)", x)
			return false
		}
		return true
	}
	c.Logf("S.Peek() -> %v, %v", x, ok)
	if !ok {
		c.Failf("slice-peek-false", "Peek() returned ok=false while the heap holds %d elements", s.n)
		return false
	}
	if !s.member(x, "Peek()") {
		return false
	}
	c.Add(s.pfx+"peek", 1)
	if !s.check("Peek()") {
		return false
	}
	return s.minOK(x, "Peek")
}

func sameItems(a, b []item) bool {
	if len(a) != len(b) {
		return false
	}
	for i := range a {
		if a[i] != b[i] {
			return false
		}
	}
	return true
}

func posOf(vals []item, id int) int {
	for i, v := range vals {
		if v.ID == id {
			return i
		}
	}
	return -1
}

// remove calls Remove(i) for any i.
func (s *ssut) remove(i int) bool {
	c := s.c
	s.note('r', i, 0)
	before := append([]item(nil), s.s.Values...)
	var x item
	var ok bool
	if !guard(c, "Slice.Remove", func() { x, ok = s.s.Remove(i) }) {
		return false
	}
	c.Logf("S.Remove(%d) on %v -> %v, %v; Values %v", i, iv(before), x, ok, iv(s.s.Values))
	inRange := i >= 0 && i < len(before)
	if ok != inRange {
		c.Failf("slice-remove-ok", "Remove(%d) on a heap of %d elements returned ok=%v", i, len(before), ok)
		return false
	}
	if !inRange {
		c.Add(s.pfx+"remove_out_of_range", 1)
		// nothing can have been removed: same multiset, still in heap order
		if sameItems(before, s.s.Values) {
			c.Add(s.pfx+"remove_out_of_range_untouched", 1)
		}
		return s.check("Remove(%d) out of range", i)
	}
	if x != before[i] {
		c.Failf("slice-remove-wrong", "Remove(%d) on Values %v returned %v, the element at index %d is %v", i, iv(before), x, i, before[i])
		return false
	}
	s.del(x)
	s.muts++
	c.Add(s.pfx+"remove_in_range", 1)
	if !s.check("Remove(%d) on %v", i, iv(before)) {
		return false
	}
	// coverage: where did the displaced last element go?
	last := len(before) - 1
	switch {
	case i == last:
		c.Add(s.pfx+"remove_last", 1)
	default:
		if i == 0 {
			c.Add(s.pfx+"remove_root", 1)
		}
		switch p := posOf(s.s.Values, before[last].ID); {
		case p < i:
			c.Add(s.pfx+"remove_sift_up", 1)
		case p > i:
			c.Add(s.pfx+"remove_sift_down", 1)
		default:
			c.Add(s.pfx+"remove_displaced_stays", 1)
		}
	}
	return true
}

// fix sets Values[i].K = newKey (when i is in range) and calls Fix(i).
func (s *ssut) fix(i, newKey int) bool {
	c := s.c
	s.note('f', i, newKey)
	n := len(s.s.Values)
	inRange := i >= 0 && i < n
	var id int
	if inRange {
		id = s.s.Values[i].ID
		if id < 0 || id >= len(s.key) {
			return s.check("before Fix")
		}
		s.s.Values[i].K = newKey
		s.key[id] = newKey
	}
	before := append([]item(nil), s.s.Values...)
	if !guard(c, "Slice.Fix", func() { s.s.Fix(i) }) {
		return false
	}
	c.Logf("S.Fix(%d) with Values %v -> Values %v", i, iv(before), iv(s.s.Values))
	if !inRange {
		c.Add(s.pfx+"fix_out_of_range", 1)
		if sameItems(before, s.s.Values) {
			c.Add(s.pfx+"fix_out_of_range_untouched", 1)
		}
		return s.check("Fix(%d) out of range", i)
	}
	s.muts++
	c.Add(s.pfx+"fix_in_range", 1)
	if !s.check("Values[%d].K = %d; Fix(%d) on %v", i, newKey, i, iv(before)) {
		return false
	}
	switch p := posOf(s.s.Values, id); {
	case p < i:
		c.Add(s.pfx+"fix_moved_up", 1)
	case p > i:
		c.Add(s.pfx+"fix_moved_down", 1)
	default:
		c.Add(s.pfx+"fix_stayed", 1)
	}
	return true
}

// popAll consumes PopAll, stopping after k values (k < 0: until it ends).
func (s *ssut) popAll(k int) bool {
	c := s.c
	s.note('a', k, 0)
	n0 := s.n
	limit := n0 + 3
	var got []item
	if !guard(c, "Slice.PopAll", func() {
		if k == 0 {
			_ = s.s.PopAll()
			return
		}
		for v := range s.s.PopAll() {
			got = append(got, v)
			if len(got) == k || len(got) >= limit {
				break
			}
		}
	}) {
		return false
	}
	c.Logf("S.PopAll() stop-after=%d -> %v; Values %v", k, iv(got), iv(s.s.Values))
	want := n0
	if k >= 0 && k < n0 {
		want = k
	}
	if len(got) != want {
		c.Failf("slice-popall-count", "PopAll() on %d elements, consumer stops after %d: yielded %d values %v", n0, k, len(got), iv(got))
		return false
	}
	for _, v := range got {
		if !s.member(v, "PopAll()") {
			return false
		}
		s.del(v)
		s.muts++
	}
	if !s.check("PopAll()") {
		return false
	}
	// sorted: no later value precedes an earlier one; nothing left precedes any yielded value
	for i := 1; i < len(got); i++ {
		for j := 0; j < i; j++ {
			if s.ord.less(got[i], got[j]) {
				c.Failf("slice-popall-order", "PopAll() yielded %v: position %d (%v) precedes position %d (%v) under order %s — not sorted", iv(got), i, got[i], j, got[j], s.ord.name)
				return false
			}
		}
	}
	for _, v := range got {
		for _, rest := range s.s.Values {
			if s.ord.less(rest, v) {
				c.Failf("slice-popall-order", "PopAll() yielded %v while %v, which precedes it, stayed in the heap", v, rest)
				return false
			}
		}
	}
	if k < 0 || k >= n0 {
		c.Add(s.pfx+"popall_full", 1)
	} else {
		c.Add(s.pfx+"popall_partial", 1)
	}
	return true
}

// boundaryIndex returns indices around and far outside [0, n).
func boundaryIndex(rng *ev.Rand, n int) int {
	switch rng.Intn(12) {
	case 0:
		return -1
	case 1:
		return n
	case 2:
		return n + 1
	case 3:
		return n - 1
	case 4:
		return 0
	case 5:
		return rng.Pick(-2, math.MinInt, math.MaxInt, n+7, 2*n+1, 2*n+2)
	case 6:
		// a leaf / the last parent
		if n >= 2 {
			return (n - 2) / 2
		}
		return 0
	default:
		return rng.Intn(n + 1)
	}
}

func sliceCase(c *ev.Case) { sliceRun(c, false) }

func sliceDeepCase(c *ev.Case) { sliceRun(c, true) }

func sliceRun(c *ev.Case, deep bool) {
	rng := c.Rng
	s := newSsut(c)
	g := newKeygen(rng)
	ord := pickOrder(rng)
	size := rng.Pick(0, 1, 2, 3, 6, 7, 8, 12, 15, 16, 31)
	nops := rng.Pick(20, 50, 50, 50, 120)
	if deep {
		s.pfx = "deep/s_"
		size = rng.Pick(255, 256, 600, 1023, 1024, 2100)
		nops = rng.Pick(1000, 2500)
	}
	c.Add(s.pfx+"order "+ord.name, 1)
	if !s.build(initialKeys(rng, g, size, ord), ord, rng.Chance(1, 4)) {
		return
	}
	phase := 0
	for i := 0; i < nops; i++ {
		if i%25 == 0 {
			phase = rng.Intn(3)
		}
		pushP := []int{40, 25, 10}[phase]
		popP := []int{8, 14, 25}[phase]
		p := rng.Intn(100)
		ok := true
		switch {
		case p < pushP:
			ok = s.push(g.next())
		case p < pushP+popP:
			ok = s.pop()
		case p < pushP+popP+8:
			ok = s.peek()
		case p < pushP+popP+28:
			ok = s.remove(boundaryIndex(rng, s.n))
		case p < pushP+popP+48:
			idx := boundaryIndex(rng, s.n)
			old := 0
			if idx >= 0 && idx < len(s.s.Values) {
				old = s.s.Values[idx].K
			}
			ok = s.fix(idx, newKeyFor(rng, g, old))
		case p < pushP+popP+50:
			k := rng.Intn(s.n + 1)
			if deep && k > 24 {
				k = rng.Intn(25)
			}
			ok = s.popAll(k)
		case p < pushP+popP+52:
			// re-heapify the same elements from an arbitrary arrangement, maybe under another order
			vals := append([]item(nil), s.s.Values...)
			pm := rng.Perm(len(vals))
			sh := make([]item, len(vals))
			for a, b := range pm {
				sh[a] = vals[b]
			}
			no := s.ord
			if rng.Bool() {
				no = pickOrder(rng)
			}
			ok = s.fromSlice(sh, no)
		default:
			ok = s.peek()
		}
		if !ok || c.Failed() {
			return
		}
	}
	if rng.Bool() {
		if !s.popAll(-1) || !s.pop() {
			return
		}
	} else {
		for guard := s.n + 3; guard > 0 && s.n > 0; guard-- {
			if !s.pop() {
				return
			}
		}
		if !s.pop() {
			return
		}
	}
	if s.muts >= 3 && s.peak >= 2 {
		c.Distinct(s.hash)
	}
	if c.WantSample() {
		c.Sample(fmt.Sprintf("slice (deep=%v): order %s, key mode %d, %d ops, %d elements created, peak length %d, Values checked for order and multiset after every call, drained", deep, ord.name, g.mode, nops, len(s.key), s.peak))
	}
}
