package main

import (
	"fmt"
	"iter"
	"sort"

	"github.com/welllog/golib/heapz"

	"verif/ev"
)

// Three engines around the value that PopAll returns (Heap and Slice, unique
// int values, orders asc / desc / coarse(v/4)):
//
//	kept-popall    the iter.Seq is kept: run later (after pushes and pops), run
//	               a second time after a refill, a second sequence created in
//	               between and run last
//	nested-popall  a PopAll loop whose body runs another PopAll of the same
//	               heap; two PopAll iterators pulled alternately (iter.Pull),
//	               one abandoned half-way and followed by a fresh one
//	panic-popall   the loop body panics, the panic is recovered by the caller,
//	               and the same heap goes on being used
//
// What is asked is what the statement gives for a priority queue over a
// multiset: every yielded value is in the heap when it is yielded and no
// remaining value precedes it; a sequence that is not stopped by its consumer
// ends exactly when the heap is empty; every value is, at the end, exactly once
// in (yielded ∪ popped ∪ still inside).

type intOrder struct {
	name string
	less func(a, b int) bool
}

var intOrders = []intOrder{
	{"asc", func(a, b int) bool { return a < b }},
	{"desc", func(a, b int) bool { return a > b }},
	{"coarse(v/4)", func(a, b int) bool { return a/4 < b/4 }},
}

// pq is one Heap[int] or Slice[int] with its multiset model (values unique,
// non-negative).
type pq struct {
	c     *ev.Case
	kind  string
	ord   intOrder
	h     *heapz.Heap[int]
	s     *heapz.Slice[int]
	in    map[int]bool
	hand  map[int]*heapz.Element[int] // Heap: handle by value (from Push)
	next  int
	hash  uint64
	where map[int]string // where each value that left the heap went
}

func newPQ(c *ev.Case, useSlice bool, n0 int) *pq {
	rng := c.Rng
	q := &pq{c: c, kind: "Heap", ord: intOrders[rng.Intn(len(intOrders))], in: map[int]bool{}, hand: map[int]*heapz.Element[int]{}, where: map[int]string{}, next: 1000}
	if useSlice {
		q.kind = "Slice"
	}
	base := rng.Perm(64)[:n0]
	for i := range base {
		base[i] += 100
	}
	ok := guard(c, q.kind+".build", func() {
		if useSlice {
			if rng.Bool() {
				sl := heapz.FromSlice(append([]int(nil), base...), q.ord.less)
				q.s = &sl
			} else {
				sl := heapz.NewSlice[int](rng.Pick(0, 4), q.ord.less)
				q.s = &sl
				for _, v := range base {
					q.s.Push(v)
				}
			}
			return
		}
		if rng.Bool() {
			var h heapz.Heap[int]
			q.h = &h
			h.Init(append([]int(nil), base...), q.ord.less)
		} else {
			h := heapz.New[int](rng.Pick(0, 4), q.ord.less)
			q.h = &h
			for _, v := range base {
				q.hand[v] = q.h.Push(v)
			}
		}
	})
	if !ok {
		return nil
	}
	for _, v := range base {
		q.in[v] = true
		q.hash = ev.Mix(q.hash, uint64(v))
	}
	c.Logf("%s (%s) with %v", q.kind, q.ord.name, base)
	return q
}

func (q *pq) seq() (iter.Seq[int], bool) {
	var sq iter.Seq[int]
	ok := guard(q.c, q.kind+".PopAll", func() {
		if q.s != nil {
			sq = q.s.PopAll()
		} else {
			sq = q.h.PopAll()
		}
	})
	if ok && sq == nil {
		q.c.Failf("popall-nil", "%s.PopAll() returned a nil sequence", q.kind)
		return nil, false
	}
	return sq, ok
}

func (q *pq) push(v int) bool {
	ok := guard(q.c, q.kind+".Push", func() {
		if q.s != nil {
			q.s.Push(v)
		} else {
			q.hand[v] = q.h.Push(v)
		}
	})
	q.c.Logf("Push(%d)", v)
	q.in[v] = true
	q.hash = ev.Mix(q.hash, 'p', uint64(v))
	return ok
}

// fresh returns a value never used before: above everything, below everything
// seen so far is not needed here (popall-mutating does that).
func (q *pq) fresh(rng *ev.Rand) int {
	if rng.Bool() {
		q.next += 1 + rng.Intn(5)
		return q.next
	}
	for {
		v := rng.Intn(100) // below the initial values
		if _, used := q.where[v]; !used && !q.in[v] {
			return v
		}
	}
}

func (q *pq) lenOK(when string) bool {
	n := -1
	if !guard(q.c, q.kind+".Len", func() {
		if q.s != nil {
			n = q.s.Len()
		} else {
			n = q.h.Len()
		}
	}) {
		return false
	}
	if n != len(q.in) {
		q.c.Failf("kept-len", "%s: %s.Len() = %d, the multiset model has %d values %v", when, q.kind, n, len(q.in), q.content())
		return false
	}
	return true
}

func (q *pq) content() []int {
	out := make([]int, 0, len(q.in))
	for v := range q.in {
		out = append(out, v)
	}
	sort.Ints(out)
	return out
}

// took records that v came out of the heap (how: for the message) and checks
// that it was inside and that nothing that remains precedes it.
func (q *pq) took(v int, how string) bool {
	c := q.c
	if !q.in[v] {
		if w, gone := q.where[v]; gone {
			c.Failf("kept-duplicate", "%s: value %d was %s, but it had already left the heap (%s): duplicated", q.kind, v, how, w)
		} else {
			c.Failf("kept-unknown", "%s: value %d was %s but was never pushed", q.kind, v, how)
		}
		return false
	}
	delete(q.in, v)
	q.where[v] = how
	for w := range q.in {
		if q.ord.less(w, v) {
			c.Failf("kept-not-min", "%s: value %d was %s while %d, which precedes it (order %s), is still inside %v", q.kind, v, how, w, q.ord.name, q.content())
			return false
		}
	}
	if e := q.hand[v]; e != nil {
		idx := -2
		if !guard(c, "Index", func() { idx = e.Index() }) {
			return false
		}
		if idx != -1 {
			c.Failf("stale-index", "%s: value %d was %s but its handle reports Index() = %d, want -1", q.kind, v, how, idx)
			return false
		}
	}
	return true
}

func (q *pq) pop() bool {
	var v int
	var ok bool
	if !guard(q.c, q.kind+".Pop", func() {
		if q.s != nil {
			v, ok = q.s.Pop()
		} else if e := q.h.Pop(); e != nil {
			v, ok = e.Value, true
		}
	}) {
		return false
	}
	q.c.Logf("Pop() -> %d, %v", v, ok)
	q.hash = ev.Mix(q.hash, 'o')
	if ok != (len(q.in) > 0) {
		q.c.Failf("kept-pop-ok", "%s.Pop() returned ok=%v while the model has %d values", q.kind, ok, len(q.in))
		return false
	}
	if !ok {
		return true
	}
	return q.took(v, "returned by Pop")
}

// run consumes sq, stopping after stop values (stop < 0: never). It verifies
// every yielded value when it is yielded and, for a run that was not stopped,
// that the sequence ended exactly when the heap was empty.
func (q *pq) run(sq iter.Seq[int], stop int, what string) (int, bool) {
	c := q.c
	n0 := len(q.in)
	limit := n0 + 3
	got := 0
	var vals []int
	good := true
	if !guard(c, q.kind+".PopAll/"+what, func() {
		for v := range sq {
			got++
			vals = append(vals, v)
			if good {
				good = q.took(v, "yielded by "+what)
			}
			if got == stop || got >= limit || !good {
				break
			}
		}
	}) {
		return got, false
	}
	c.Logf("%s (stop after %d) on %d values -> %v", what, stop, n0, vals)
	q.hash = ev.Mix(q.hash, 'a', uint64(stop), uint64(got))
	if !good {
		return got, false
	}
	want := n0
	if stop >= 0 && stop < n0 {
		want = stop
	}
	if got != want {
		c.Failf("kept-count", "%s: %s, run while the heap held %d values with a consumer that stops after %d, yielded %d values %v; still inside: %v", q.kind, what, n0, stop, got, vals, q.content())
		return got, false
	}
	return got, q.lenOK("after " + what)
}

// finish drains through Pop and closes the conservation argument.
func (q *pq) finish() bool {
	for g := len(q.in) + 3; g > 0 && len(q.in) > 0; g-- {
		if !q.pop() {
			return false
		}
	}
	if !q.pop() { // one more on the empty heap
		return false
	}
	return q.lenOK("after the final drain")
}

func keptPopAllCase(c *ev.Case) {
	rng := c.Rng
	q := newPQ(c, c.Index%2 == 1, rng.Range(0, 12))
	if q == nil {
		return
	}
	atCreation := len(q.in)
	sq1, ok := q.seq()
	if !ok || !q.lenOK("right after creating (not running) a PopAll sequence") {
		return
	}
	mutate := func() bool {
		for k := rng.Intn(7); k > 0; k-- {
			if !q.push(q.fresh(rng)) {
				return false
			}
		}
		for k := rng.Intn(4); k > 0; k-- {
			if !q.pop() {
				return false
			}
		}
		return true
	}
	if !mutate() {
		return
	}
	// a second sequence, created now, run last
	sq2, ok := q.seq()
	if !ok {
		return
	}
	switch n := len(q.in); {
	case n > atCreation:
		c.Add("kept/run_later_grown", 1)
	case n < atCreation:
		c.Add("kept/run_later_shrunk", 1)
	}
	stop := -1
	if rng.Chance(1, 3) {
		stop = rng.Range(1, len(q.in))
	}
	if _, ok := q.run(sq1, stop, "the PopAll sequence created earlier"); !ok {
		return
	}
	c.Add("kept/run_later", 1)
	// refill, run the same value again
	for k := rng.Range(1, 8); k > 0; k-- {
		if !q.push(q.fresh(rng)) {
			return
		}
	}
	if rng.Bool() && !q.pop() {
		return
	}
	if _, ok := q.run(sq1, -1, "the same PopAll sequence run a second time"); !ok {
		return
	}
	c.Add("kept/run_twice", 1)
	// the heap is empty: a sequence run now yields nothing, and still works afterwards
	if rng.Bool() {
		if _, ok := q.run(sq2, -1, "the second kept sequence on the empty heap"); !ok {
			return
		}
		c.Add("kept/run_on_empty", 1)
	}
	for k := rng.Range(1, 6); k > 0; k-- {
		if !q.push(q.fresh(rng)) {
			return
		}
	}
	stop = -1
	if rng.Chance(1, 3) {
		stop = rng.Range(1, len(q.in))
	}
	if _, ok := q.run(sq2, stop, "the second kept sequence, created two refills ago"); !ok {
		return
	}
	c.Add("kept/second_sequence_runs", 1)
	if !q.finish() {
		return
	}
	c.Distinct(q.hash)
	if c.WantSample() {
		c.Sample(fmt.Sprintf("kept-popall: %s (%s); PopAll value created on %d values, run after pushes/pops, run again after a refill; a second value created in between run last; conservation and min-at-yield hold, each unstopped run ends on the empty heap", q.kind, q.ord.name, atCreation))
	}
}

func nestedPopAllCase(c *ev.Case) {
	rng := c.Rng
	q := newPQ(c, c.Index%2 == 1, rng.Range(3, 14))
	if q == nil {
		return
	}
	n0 := len(q.in)
	if rng.Bool() {
		// ---- nested: the body of one PopAll loop runs another one ----
		outer, ok := q.seq()
		if !ok {
			return
		}
		at := rng.Range(1, n0-1) // outer step at which the inner loop runs
		innerStop := -1          // inner runs to its end
		if rng.Chance(1, 2) && n0-at > 1 {
			innerStop = rng.Range(1, n0-at-1)
		}
		outerGot, innerGot, innerStart := 0, 0, -1
		good := true
		innerEndedEarly := false
		if !guard(c, q.kind+".PopAll/nested", func() {
			for v := range outer {
				outerGot++
				if good = q.took(v, "yielded by the outer PopAll loop"); !good {
					break
				}
				if outerGot == at {
					innerStart = len(q.in)
					var inner iter.Seq[int]
					if q.s != nil {
						inner = q.s.PopAll()
					} else {
						inner = q.h.PopAll()
					}
					stopped := false
					for w := range inner {
						innerGot++
						if good = q.took(w, "yielded by the PopAll loop nested in the body"); !good {
							break
						}
						if innerGot == innerStop || innerGot > n0+3 {
							stopped = true
							break
						}
					}
					if !good {
						break
					}
					if !stopped && len(q.in) > 0 {
						innerEndedEarly = true
						break
					}
				}
				if outerGot > n0+3 {
					break
				}
			}
		}) {
			return
		}
		c.Logf("nested: outer yielded %d, inner started at outer step %d on %d values (stop after %d) and yielded %d", outerGot, at, innerStart, innerStop, innerGot)
		if !good {
			return
		}
		if innerEndedEarly {
			c.Failf("nested-inner-ended-early", "%s: a PopAll loop run inside the body of another PopAll loop of the same heap (outer step %d) ended by itself after %d values while %d values were still inside: %v", q.kind, at, innerGot, len(q.in), q.content())
			return
		}
		if len(q.in) != 0 {
			c.Failf("nested-outer-ended-early", "%s: the outer PopAll loop ended by itself after %d values (inner loop took %d) while %d values are still inside: %v", q.kind, outerGot, innerGot, len(q.in), q.content())
			return
		}
		q.hash = ev.Mix(q.hash, 'n', uint64(at), uint64(innerStop))
		c.Add("nested/inner_runs", 1)
		c.Add("nested/inner_values", int64(innerGot))
		if innerStop > 0 {
			c.Add("nested/inner_stopped_outer_resumed", 1)
		}
	} else {
		// ---- two live iterators advanced alternately ----
		sqA, ok := q.seq()
		if !ok {
			return
		}
		sqB, ok := q.seq()
		if !ok {
			return
		}
		nextA, stopA := iter.Pull(sqA)
		nextB, stopB := iter.Pull(sqB)
		defer stopA()
		defer stopB()
		steps := rng.Range(2, n0)
		last, switches := -1, 0
		for i := 0; i < steps; i++ {
			who := rng.Intn(2)
			if who != last && last >= 0 {
				switches++
			}
			last = who
			var v int
			var more bool
			if !guard(c, q.kind+".PopAll/pull", func() {
				// a panic raised inside the iterator's coroutine surfaces here without
				// its frames; nothing but the golib sequence runs in there
				defer func() {
					if p := recover(); p != nil {
						c.Failf("panic/"+q.kind+".PopAll/pull", "pulling a %s.PopAll iterator panicked: %v", q.kind, p)
					}
				}()
				if who == 0 {
					v, more = nextA()
				} else {
					v, more = nextB()
				}
			}) {
				return
			}
			c.Logf("iterator %c next -> %d, %v", 'A'+who, v, more)
			if c.Failed() {
				return
			}
			if more != (len(q.in) > 0) {
				c.Failf("nested-pull-ok", "%s: two live PopAll iterators pulled alternately: iterator %c reported more=%v while %d values are inside %v", q.kind, 'A'+who, more, len(q.in), q.content())
				return
			}
			if c.Failed() {
				return
			}
			if !more {
				break
			}
			if !q.took(v, fmt.Sprintf("yielded by live iterator %c", 'A'+who)) {
				return
			}
		}
		c.Add("nested/alternations", int64(switches))
		// abandon A half-way, then a fresh sequence takes everything that is left
		if !guard(c, q.kind+".PopAll/stop", func() { stopA() }) {
			return
		}
		if !q.lenOK("after abandoning a live PopAll iterator") {
			return
		}
		sqC, ok := q.seq()
		if !ok {
			return
		}
		left := len(q.in)
		if _, ok := q.run(sqC, -1, "a fresh PopAll after an abandoned iterator"); !ok {
			return
		}
		if left > 0 {
			c.Add("nested/abandoned_then_fresh", 1)
		}
		// B is still live: it must simply report the end
		var more bool
		if !guard(c, q.kind+".PopAll/pull", func() { _, more = nextB() }) {
			return
		}
		if more {
			c.Failf("nested-pull-ok", "%s: a live PopAll iterator yielded a value from an empty heap", q.kind)
			return
		}
		q.hash = ev.Mix(q.hash, 'l', uint64(steps), uint64(switches))
	}
	if !q.finish() {
		return
	}
	c.Distinct(q.hash)
	if c.WantSample() {
		c.Sample(fmt.Sprintf("nested-popall: %s (%s) with %d values: PopAll nested in a PopAll body, or two iter.Pull iterators advanced alternately, one abandoned and a fresh one started; every yielded value is the minimum at that moment, unstopped sequences end on the empty heap", q.kind, q.ord.name, n0))
	}
}

type bodyPanic struct{ at int }

func panicPopAllCase(c *ev.Case) {
	rng := c.Rng
	q := newPQ(c, c.Index%2 == 1, rng.Range(3, 20))
	if q == nil {
		return
	}
	n0 := len(q.in)
	rounds := rng.Range(1, 4)
	for r := 0; r < rounds && len(q.in) > 0; r++ {
		sq, ok := q.seq()
		if !ok {
			return
		}
		at := rng.Range(1, min(6, len(q.in)))
		got := 0
		good := true
		recovered := false
		if !guard(c, q.kind+".PopAll/panicking-body", func() {
			defer func() {
				if p := recover(); p != nil {
					if bp, mine := p.(bodyPanic); mine && bp.at == at {
						recovered = true
						return
					}
					panic(p)
				}
			}()
			for v := range sq {
				got++
				if good = q.took(v, "yielded to the loop body"); !good {
					break
				}
				if got == at {
					panic(bodyPanic{at})
				}
			}
		}) {
			return
		}
		if !good {
			return
		}
		c.Logf("round %d: body panicked at value #%d, recovered=%v, model has %d values left", r, at, recovered, len(q.in))
		if !recovered {
			// the sequence ended before the body reached its panic step
			c.Failf("kept-count", "%s: PopAll on %d values ended by itself after %d values", q.kind, len(q.in)+got, got)
			return
		}
		c.Add("panicpop/body_panics", 1)
		c.Add("panicpop/values_inside_after_panic", int64(len(q.in)))
		q.hash = ev.Mix(q.hash, 'x', uint64(at))
		if !q.lenOK(fmt.Sprintf("after the body of a PopAll loop panicked at its value #%d and the caller recovered", at)) {
			return
		}
		for k := rng.Intn(4); k > 0; k-- {
			if !q.push(q.fresh(rng)) {
				return
			}
		}
		if rng.Chance(1, 3) && !q.pop() {
			return
		}
		if rng.Chance(1, 3) {
			sq2, ok := q.seq()
			if !ok {
				return
			}
			if _, ok := q.run(sq2, rng.Range(1, len(q.in)+1), "a PopAll after a recovered body panic"); !ok {
				return
			}
		}
	}
	if !q.finish() {
		return
	}
	c.Distinct(q.hash)
	if c.WantSample() {
		c.Sample(fmt.Sprintf("panic-popall: %s (%s) with %d values: the body of a PopAll loop panics, the caller recovers, the heap is used again (%d rounds); every value comes out exactly once, Len agrees after each recovery", q.kind, q.ord.name, n0, rounds))
	}
}
