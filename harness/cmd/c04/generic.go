package main

import (
	"fmt"

	"github.com/welllog/golib/heapz"

	"verif/ev"
)

// gcont is a caller-supplied container for the generic heapz functions. It
// logs swaps and comparisons, and it never panics on a bad index: it records
// the first misuse instead, so that golib handing it garbage becomes a
// violation with a message rather than a harness crash.
type gcont interface {
	heapz.Interface[item]
	at(i int) item
	set(i int, it item)
	stats() (swaps, lesses int64)
	misuse() string
	kind() string
}

// sliceCont: the usual []T container.
type sliceCont struct {
	s      []item
	less   func(a, b item) bool
	swaps  int64
	lesses int64
	bad    string
}

func (c *sliceCont) Len() int { return len(c.s) }
func (c *sliceCont) Less(i, j int) bool {
	if i < 0 || j < 0 || i >= len(c.s) || j >= len(c.s) {
		if c.bad == "" {
			c.bad = fmt.Sprintf("Less(%d, %d) called on a container of %d elements", i, j, len(c.s))
		}
		return false
	}
	c.lesses++
	return c.less(c.s[i], c.s[j])
}
func (c *sliceCont) Swap(i, j int) {
	if i < 0 || j < 0 || i >= len(c.s) || j >= len(c.s) {
		if c.bad == "" {
			c.bad = fmt.Sprintf("Swap(%d, %d) called on a container of %d elements", i, j, len(c.s))
		}
		return
	}
	c.swaps++
	c.s[i], c.s[j] = c.s[j], c.s[i]
}
func (c *sliceCont) Push(x item) { c.s = append(c.s, x) }
func (c *sliceCont) Pop() item {
	n := len(c.s) - 1
	if n < 0 {
		if c.bad == "" {
			c.bad = "Pop() called on an empty container"
		}
		return item{-9, -9}
	}
	x := c.s[n]
	c.s = c.s[:n]
	return x
}
func (c *sliceCont) at(i int) item       { return c.s[i] }
func (c *sliceCont) set(i int, it item)  { c.s[i] = it }
func (c *sliceCont) stats() (a, b int64) { return c.swaps, c.lesses }
func (c *sliceCont) misuse() string      { return c.bad }
func (c *sliceCont) kind() string        { return "slice" }

// mapCont keeps logical position -> item in a map: nothing about it is a
// contiguous array, only the Interface contract holds.
type mapCont struct {
	m      map[int]item
	less   func(a, b item) bool
	swaps  int64
	lesses int64
	bad    string
}

func (c *mapCont) Len() int { return len(c.m) }
func (c *mapCont) Less(i, j int) bool {
	a, ok1 := c.m[i]
	b, ok2 := c.m[j]
	if !ok1 || !ok2 {
		if c.bad == "" {
			c.bad = fmt.Sprintf("Less(%d, %d) called on a container of %d elements", i, j, len(c.m))
		}
		return false
	}
	c.lesses++
	return c.less(a, b)
}
func (c *mapCont) Swap(i, j int) {
	a, ok1 := c.m[i]
	b, ok2 := c.m[j]
	if !ok1 || !ok2 {
		if c.bad == "" {
			c.bad = fmt.Sprintf("Swap(%d, %d) called on a container of %d elements", i, j, len(c.m))
		}
		return
	}
	c.swaps++
	c.m[i], c.m[j] = b, a
}
func (c *mapCont) Push(x item) { c.m[len(c.m)] = x }
func (c *mapCont) Pop() item {
	n := len(c.m) - 1
	if n < 0 {
		if c.bad == "" {
			c.bad = "Pop() called on an empty container"
		}
		return item{-9, -9}
	}
	x := c.m[n]
	delete(c.m, n)
	return x
}
func (c *mapCont) at(i int) item       { return c.m[i] }
func (c *mapCont) set(i int, it item)  { c.m[i] = it }
func (c *mapCont) stats() (a, b int64) { return c.swaps, c.lesses }
func (c *mapCont) misuse() string      { return c.bad }
func (c *mapCont) kind() string        { return "map" }

func newCont(useMap bool, items []item, less func(a, b item) bool) gcont {
	if useMap {
		m := &mapCont{m: map[int]item{}, less: less}
		for i, it := range items {
			m.m[i] = it
		}
		return m
	}
	return &sliceCont{s: append([]item(nil), items...), less: less}
}

type gsut struct {
	c    *ev.Case
	rng  *ev.Rand
	h    gcont
	ord  order
	key  []int
	in   []bool
	seen []int
	tick int
	n    int
	hash uint64
	muts int
	peak int
	pfx  string
	sw0  int64
}

func newGsut(c *ev.Case) *gsut { return &gsut{c: c, rng: c.Rng, pfx: "generic/"} }

func (s *gsut) note(op byte, a, b int) { s.hash = ev.Mix(s.hash, uint64(op), uint64(a), uint64(b)) }

func (s *gsut) newItem(key int) item {
	it := item{key, len(s.key)}
	s.key = append(s.key, key)
	s.in = append(s.in, false)
	s.seen = append(s.seen, 0)
	return it
}

func (s *gsut) contents() []item {
	n := s.h.Len()
	out := make([]item, n)
	for i := 0; i < n; i++ {
		out[i] = s.h.at(i)
	}
	return out
}

// check: container misuse, multiset, heap order of the container.
func (s *gsut) check(format string, a ...any) bool {
	c := s.c
	if c.Failed() {
		return false
	}
	after := func() string { return fmt.Sprintf(format, a...) }
	if b := s.h.misuse(); b != "" {
		c.Failf("generic-misuse", "during %s golib called the container out of contract: %s", after(), b)
		return false
	}
	vals := s.contents()
	if len(vals) != s.n {
		c.Failf("generic-len", "after %s: the container holds %d elements, the multiset model has %d", after(), len(vals), s.n)
		return false
	}
	s.tick++
	for i, v := range vals {
		if v.ID < 0 || v.ID >= len(s.key) || !s.in[v.ID] {
			c.Failf("generic-not-member", "after %s: container[%d] = %v is not in the multiset model (contents %v)", after(), i, v, iv(vals))
			return false
		}
		if s.seen[v.ID] == s.tick {
			c.Failf("generic-duplicate", "after %s: element %v appears twice in the container %v", after(), v, iv(vals))
			return false
		}
		s.seen[v.ID] = s.tick
		if v.K != s.key[v.ID] {
			c.Failf("generic-value", "after %s: container[%d] = %v but the model has key %d", after(), i, v, s.key[v.ID])
			return false
		}
		if i > 0 && s.ord.less(v, vals[(i-1)/2]) {
			c.Failf("generic-order", "after %s: container[%d] = %v precedes its parent container[%d] = %v (order %s): %v violates the heap order", after(), i, v, (i-1)/2, vals[(i-1)/2], s.ord.name, iv(vals))
			return false
		}
	}
	sw, _ := s.h.stats()
	c.Add(s.pfx+"swaps", sw-s.sw0)
	s.sw0 = sw
	c.Add(s.pfx+"order_checks", 1)
	return true
}

// init loads an arbitrary arrangement and calls heapz.Init.
func (s *gsut) init(keys []int, ord order, useMap bool) bool {
	items := make([]item, len(keys))
	for i, k := range keys {
		items[i] = s.newItem(k)
		s.in[items[i].ID] = true
		s.note('b', k, 0)
	}
	s.n = len(items)
	s.peak = s.n
	s.ord = ord
	s.h = newCont(useMap, items, ord.less)
	return s.reinit("Init(%s container %v, %s)", s.h.kind(), iv(items), ord.name)
}

func (s *gsut) reinit(format string, a ...any) bool {
	c := s.c
	c.Logf(format, a...)
	if !guard(c, "generic.Init", func() { heapz.Init[item](s.h) }) {
		return false
	}
	if c.Logging() {
		c.Logf("  -> %v", iv(s.contents()))
	}
	s.muts++
	c.Add(s.pfx+"init", 1)
	return s.check(format, a...)
}

func (s *gsut) push(key int) bool {
	c := s.c
	it := s.newItem(key)
	s.note('p', key, 0)
	if !guard(c, "generic.Push", func() { heapz.Push[item](s.h, it) }) {
		return false
	}
	if c.Logging() {
		c.Logf("Push(h, %v) -> %v", it, iv(s.contents()))
	}
	s.in[it.ID] = true
	s.n++
	if s.n > s.peak {
		s.peak = s.n
	}
	s.muts++
	c.Add(s.pfx+"push", 1)
	return s.check("Push(h, %v)", it)
}

func (s *gsut) result(r any, op string) (item, bool) {
	x, isItem := r.(item)
	if !isItem {
		s.c.Failf("generic-result-type", "%s returned %T (%v), want the element type", op, r, r)
		return x, false
	}
	if x.ID < 0 || x.ID >= len(s.key) || !s.in[x.ID] {
		s.c.Failf("generic-not-member", "%s returned %v which is not in the multiset model", op, x)
		return x, false
	}
	if x.K != s.key[x.ID] {
		s.c.Failf("generic-value", "%s returned %v but the model has key %d", op, x, s.key[x.ID])
		return x, false
	}
	return x, true
}

// pop requires a non-empty container (as container/heap does).
func (s *gsut) pop() bool {
	c := s.c
	if s.n == 0 {
		return true
	}
	s.note('o', 0, 0)
	before := s.contents()
	var r any
	if !guard(c, "generic.Pop", func() { r = heapz.Pop[item](s.h) }) {
		return false
	}
	if c.Logging() {
		c.Logf("Pop(h) on %v -> %v; %v", iv(before), r, iv(s.contents()))
	}
	x, ok := s.result(r, "Pop(h)")
	if !ok {
		return false
	}
	s.in[x.ID] = false
	s.n--
	s.muts++
	c.Add(s.pfx+"pop", 1)
	if !s.check("Pop(h) on %v", iv(before)) {
		return false
	}
	tie := false
	for _, v := range s.contents() {
		if s.ord.less(v, x) {
			c.Failf("generic-pop-not-min", "Pop(h) on %v returned %v but the remaining %v precedes it (order %s)", iv(before), x, v, s.ord.name)
			return false
		}
		if !s.ord.less(x, v) {
			tie = true
		}
	}
	if tie {
		c.Add(s.pfx+"pop_with_tie", 1)
	}
	return true
}

func (s *gsut) remove(i int) bool {
	c := s.c
	if i < 0 || i >= s.n {
		return true // out of contract for the generic functions
	}
	s.note('r', i, 0)
	before := s.contents()
	var r any
	if !guard(c, "generic.Remove", func() { r = heapz.Remove[item](s.h, i) }) {
		return false
	}
	if c.Logging() {
		c.Logf("Remove(h, %d) on %v -> %v; %v", i, iv(before), r, iv(s.contents()))
	}
	x, ok := s.result(r, fmt.Sprintf("Remove(h, %d)", i))
	if !ok {
		return false
	}
	if x != before[i] {
		c.Failf("generic-remove-wrong", "Remove(h, %d) on %v returned %v, the element at index %d is %v", i, iv(before), x, i, before[i])
		return false
	}
	s.in[x.ID] = false
	s.n--
	s.muts++
	c.Add(s.pfx+"remove", 1)
	if !s.check("Remove(h, %d) on %v", i, iv(before)) {
		return false
	}
	last := len(before) - 1
	if i == last {
		c.Add(s.pfx+"remove_last", 1)
		return true
	}
	switch p := posOf(s.contents(), before[last].ID); {
	case p < i:
		c.Add(s.pfx+"remove_sift_up", 1)
	case p > i:
		c.Add(s.pfx+"remove_sift_down", 1)
	default:
		c.Add(s.pfx+"remove_displaced_stays", 1)
	}
	return true
}

func (s *gsut) fix(i, newKey int) bool {
	c := s.c
	if i < 0 || i >= s.n {
		return true
	}
	s.note('f', i, newKey)
	it := s.h.at(i)
	if it.ID < 0 || it.ID >= len(s.key) {
		return s.check("before Fix")
	}
	it.K = newKey
	s.h.set(i, it)
	s.key[it.ID] = newKey
	before := s.contents()
	if !guard(c, "generic.Fix", func() { heapz.Fix[item](s.h, i) }) {
		return false
	}
	if c.Logging() {
		c.Logf("Fix(h, %d) on %v -> %v", i, iv(before), iv(s.contents()))
	}
	s.muts++
	c.Add(s.pfx+"fix", 1)
	if !s.check("container[%d].K = %d; Fix(h, %d) on %v", i, newKey, i, iv(before)) {
		return false
	}
	switch p := posOf(s.contents(), it.ID); {
	case p < i:
		c.Add(s.pfx+"fix_moved_up", 1)
	case p > i:
		c.Add(s.pfx+"fix_moved_down", 1)
	default:
		c.Add(s.pfx+"fix_stayed", 1)
	}
	return true
}

func inRangeIndex(rng *ev.Rand, n int) int {
	if n <= 0 {
		return -1
	}
	switch rng.Intn(8) {
	case 0:
		return 0
	case 1:
		return n - 1
	case 2:
		if n >= 2 {
			return (n - 2) / 2 // the last parent
		}
		return 0
	default:
		return rng.Intn(n)
	}
}

func genericCase(c *ev.Case) { genericRun(c, false) }

func genericDeepCase(c *ev.Case) { genericRun(c, true) }

func genericRun(c *ev.Case, deep bool) {
	rng := c.Rng
	s := newGsut(c)
	g := newKeygen(rng)
	ord := pickOrder(rng)
	size := rng.Pick(0, 1, 2, 3, 6, 7, 8, 12, 15, 16, 31)
	nops := rng.Pick(20, 50, 50, 50, 120)
	if deep {
		s.pfx = "deep/g_"
		size = rng.Pick(255, 256, 600, 1023, 1024, 2100)
		nops = rng.Pick(1000, 2500)
	}
	c.Add(s.pfx+"order "+ord.name, 1)
	if !s.init(initialKeys(rng, g, size, ord), ord, rng.Chance(1, 3)) {
		return
	}
	c.Add(s.pfx+"container_"+s.h.kind(), 1)
	phase := 0
	for i := 0; i < nops; i++ {
		if i%25 == 0 {
			phase = rng.Intn(3)
		}
		pushP := []int{40, 25, 10}[phase]
		popP := []int{10, 18, 30}[phase]
		p := rng.Intn(100)
		ok := true
		switch {
		case p < pushP:
			ok = s.push(g.next())
		case p < pushP+popP:
			ok = s.pop()
		case p < pushP+popP+22:
			ok = s.remove(inRangeIndex(rng, s.n))
		case p < pushP+popP+46:
			idx := inRangeIndex(rng, s.n)
			if idx >= 0 {
				ok = s.fix(idx, newKeyFor(rng, g, s.h.at(idx).K))
			}
		case p < pushP+popP+49:
			// the caller invalidates the order in several places, then calls Init again
			for k := rng.Range(0, 4); k > 0 && s.n > 0; k-- {
				idx := rng.Intn(s.n)
				it := s.h.at(idx)
				if it.ID >= 0 && it.ID < len(s.key) {
					it.K = g.next()
					s.h.set(idx, it)
					s.key[it.ID] = it.K
					s.note('s', idx, it.K)
				}
			}
			c.Add(s.pfx+"init_again_after_invalidation", 1)
			ok = s.reinit("Init(h) again on %v", iv(s.contents()))
		default:
			ok = s.push(g.next())
		}
		if !ok || c.Failed() {
			return
		}
	}
	for guard := s.n + 3; guard > 0 && s.n > 0; guard-- {
		if !s.pop() {
			return
		}
	}
	sw, ls := s.h.stats()
	c.Add(s.pfx+"less_calls", ls)
	c.Max(s.pfx+"max_swaps_in_case", sw)
	if s.muts >= 3 && s.peak >= 2 {
		c.Distinct(s.hash)
	}
	if c.WantSample() {
		c.Sample(fmt.Sprintf("generic (deep=%v): %s container, order %s, key mode %d, %d ops, %d elements created, peak length %d, %d swaps and %d comparisons logged, order and multiset checked after every call, drained", deep, s.h.kind(), ord.name, g.mode, nops, len(s.key), s.peak, sw, ls))
	}
}
