// C04 — heapz heaps behave as priority queues with stable element handles.
//
// Reference-model monitor. Every operation is applied to the real heapz object
// and to a naive model (multiset of (id,key) items + a table of *Element
// handles); every observable result is compared after every operation.
//
// Engines (one file each):
//
//	heap     Heap[T] with handles: two heaps, live / stale / foreign handles   (heap.go)
//	slice    Slice[T]: exported Values checked for heap order after every call (slice.go)
//	generic  Init/Push/Pop/Remove/Fix on harness containers that log swaps     (generic.go)
//	sweep    Remove / Fix at every index (and every handle) of one small heap  (sweep.go)
//	*-deep   the heap / slice / generic mixes on trees of depth 8..11
//	intdiff  int heaps of all flavours against container/heap                  (intdiff.go)
//	reinit   Heap.Init on a non-empty heap: the discarded elements' handles    (heap.go)
//	popall-mutating  PopAll loops whose body changes the heap                  (popallmut.go)
//	window   2..12 Heap mutators with no observing call at all, then one observer (window.go)
//	chain-reinit  Init on non-empty heaps again and again inside the full op mix (window.go)
//	kept-popall / nested-popall / panic-popall  the PopAll value kept, run later and
//	         twice; nested and alternately pulled; loop body panics           (popallkept.go)
//	big      all flavours at 4095..131073 elements, count-per-class model      (big.go)
//	body-heap / body-slice  PopAll loops whose body is an ordinary, fully compared
//	         stretch of operations (handles, indices, Peek/Pop)             (popallbody.go)
//	elemtypes  Slice[T], Heap[T] and the generic functions over wide structs, strings,
//	         pointers, interfaces, floats, bytes, zero-size elements          (typed.go)
package main

import (
	"fmt"
	"math"
	"runtime/debug"
	"strings"

	"verif/ev"
)

// guard is c.Guard plus one more attribution rule. c.Guard recognises a golib
// panic by the import path in a function name of the stack; when the compiler
// inlines a heapz closure into the harness (the PopAll iterators), the frame is
// named after the harness function and only its file path (…/heapz/iter.go)
// shows where the code lives. Such a panic is golib's as well: it becomes the
// violation "panic/<name>" instead of a harness failure.
func guard(c *ev.Case, name string, fn func()) bool {
	inner := true
	ok := c.Guard(name, func() {
		defer func() {
			if p := recover(); p != nil {
				st := string(debug.Stack())
				if strings.Contains(st, ev.GolibPath) || !strings.Contains(st, "/heapz/") {
					panic(p) // c.Guard decides (golib frame by name, or a harness bug)
				}
				lines := strings.Split(st, "\n")
				if len(lines) > 24 {
					lines = lines[:24]
				}
				c.Failf("panic/"+name, "%s panicked: %v\n%s", name, p, strings.Join(lines, "\n"))
				inner = false
			}
		}()
		fn()
	})
	return ok && inner
}

// item is the element type: K is what the comparators look at, ID makes every
// element distinguishable (so equivalent elements can be told apart).
type item struct{ K, ID int }

func (it item) String() string { return fmt.Sprintf("%d#%d", it.K, it.ID) }

// iv prints a list of items, abbreviated when it is long (deep engines).
type iv []item

func (v iv) String() string {
	if len(v) <= 48 {
		return fmt.Sprint([]item(v))
	}
	return fmt.Sprintf("[%d items: %v ... %v]", len(v), []item(v[:12]), []item(v[len(v)-4:]))
}

// order is a strict weak order on items (always "f(a.K) < f(b.K)" for some f).
type order struct {
	name string
	less func(a, b item) bool
}

var orders = []order{
	{"asc", func(a, b item) bool { return a.K < b.K }},
	{"desc", func(a, b item) bool { return a.K > b.K }},
	{"coarse(K/2)", func(a, b item) bool { return a.K/2 < b.K/2 }}, // different keys may be equivalent
	{"parity-desc", func(a, b item) bool { return a.K&1 > b.K&1 }}, // two classes only
}

func pickOrder(rng *ev.Rand) order {
	switch p := rng.Intn(10); {
	case p < 4:
		return orders[0]
	case p < 7:
		return orders[1]
	case p < 9:
		return orders[2]
	default:
		return orders[3]
	}
}

// equiv: neither precedes the other.
func (o order) equiv(a, b item) bool { return !o.less(a, b) && !o.less(b, a) }

// keygen produces keys aimed at ties and at sorted / reverse-sorted input.
type keygen struct {
	rng  *ev.Rand
	mode int
	up   int
	down int
}

func newKeygen(rng *ev.Rand) *keygen {
	g := &keygen{rng: rng, up: 0, down: 1000}
	switch p := rng.Intn(20); {
	case p < 9:
		g.mode = 0 // 0..5 (the design's default: many ties)
	case p < 11:
		g.mode = 1 // 0..1
	case p < 14:
		g.mode = 2 // 0..63: few ties, long sift paths
	case p < 15:
		g.mode = 3 // ascending
	case p < 16:
		g.mode = 4 // descending
	case p < 17:
		g.mode = 5 // all equal
	case p < 18:
		g.mode = 6 // extremes
	default:
		g.mode = 7 // mixture
	}
	return g
}

func (g *keygen) next() int {
	m := g.mode
	if m == 7 {
		m = g.rng.Intn(7)
	}
	switch m {
	case 0:
		return g.rng.Intn(6)
	case 1:
		return g.rng.Intn(2)
	case 2:
		return g.rng.Intn(64)
	case 3:
		g.up++
		return g.up
	case 4:
		g.down--
		return g.down
	case 5:
		return 3
	default:
		return g.rng.Pick(math.MinInt, math.MinInt+1, -1, 0, 1, math.MaxInt-1, math.MaxInt)
	}
}

func (g *keygen) many(n int) []int {
	ks := make([]int, n)
	for i := range ks {
		ks[i] = g.next()
	}
	return ks
}

// skewed lays keys out as a valid heap array under ord (asc layout, negated
// for desc) in which one subtree of the root holds large keys and the other
// small ones. Removing or fixing inside the large subtree while the last array
// slot belongs to the small one makes the displaced element sift UP, the
// branch random heaps rarely take.
func skewed(rng *ev.Rand, n int, ord order) []int {
	big := rng.Pick(1, 2)
	ks := make([]int, n)
	for i := 1; i < n; i++ {
		d, top := 0, i
		for j := i; j > 0; j = (j - 1) / 2 {
			d++
			top = j
		}
		k := d
		if rng.Bool() {
			k = 2 * d // under coarse(K/2) still ordered
		}
		if top == big {
			k += 40
		}
		ks[i] = k
	}
	if ord.name == "desc" {
		for i := range ks {
			ks[i] = -ks[i]
		}
	}
	return ks
}

// initialKeys: mostly random keys, sometimes the skewed layout.
func initialKeys(rng *ev.Rand, g *keygen, n int, ord order) []int {
	if n >= 5 && rng.Chance(1, 4) {
		return skewed(rng, n, ord)
	}
	return g.many(n)
}

func main() {
	r := ev.New("C04")
	r.Rule("one case = a seeded operation sequence (Push/PushElement/Pop/Peek/Remove/Fix/Init/PopAll on Heap with live, stale and foreign handles; Push/Pop/Peek/Remove(i)/Fix(i)/PopAll/FromSlice on Slice with indices from -1 to len+1; generic Init/Push/Pop/Remove/Fix on a swap-logging container), or a sweep of Remove/Fix over every index and handle of one small heap, or windows of 2..12 Heap mutators with no observing call followed by one randomly chosen observer, or Init on non-empty heaps repeated inside the operation mix, or a kept / nested / alternately pulled / panicking-body PopAll scenario, or one 4095..131073-element heap of each flavour with a push burst and a complete drain, or PopAll loops on Heap / Slice whose body is itself a stretch of the operation mix (Remove/Fix through live, stale and foreign handles, re-enqueueing the yielded element, Push/Peek/Pop; Slice Remove(i)/Fix(i) at any index) with every call compared with the model; keys mostly 0..5 (ties), comparators asc, desc, K/2 and parity; distinct = distinct hash of the operation sequence with its arguments; non-trivial = at least 3 mutating operations on a heap that held at least 2 elements")
	r.Assume("the multiset model (slice of (id,key) + handle table) is the specification; comparators are strict weak orders of the form f(a.K) < f(b.K); an element's identity is the unique ID stored in its Value; positions inside Heap are never read (only Index(), Len, Peek, Pop, PopAll), Slice.Values (before any other call is made) and the harness container's own storage are read directly")
	opt := ev.Opt{HangViolation: true, MaxCaseSeconds: 120}
	r.Cases("heap", r.N(120000, 3000000), opt, heapCase)
	// the same workload on parallel workers under the race detector: package-level state shared
	// between instances that no goroutine shares is reported from the happens-before relation,
	// whether or not the accesses collide in this run (and however loaded the machine is)
	r.CasesProc("heap/race-parallel", r.N(1200, 30000), ev.Opt{Bin: "race", Procs: 2, Workers: 8, AlwaysLog: true, HangViolation: true, MaxCaseSeconds: 120}, heapCase)
	r.CasesProc("slice/race-parallel", r.N(800, 20000), ev.Opt{Bin: "race", Procs: 2, Workers: 8, AlwaysLog: true, HangViolation: true, MaxCaseSeconds: 120}, sliceCase)
	r.Cases("slice", r.N(80000, 2000000), opt, sliceCase)
	r.Cases("generic", r.N(80000, 2000000), opt, genericCase)
	r.Cases("sweep", r.N(5000, 120000), opt, sweepCase)
	// deep trees (hundreds to thousands of elements, thousands of operations)
	r.Cases("heap-deep", r.N(40, 1500), opt, heapDeepCase)
	r.Cases("slice-deep", r.N(60, 2500), opt, sliceDeepCase)
	r.Cases("generic-deep", r.N(60, 2500), opt, genericDeepCase)
	r.Cases("intdiff", r.N(20000, 500000), opt, intDiffCase)
	r.Cases("reinit", r.N(5000, 100000), opt, reinitCase)
	r.Cases("popall-mutating", r.N(30000, 1000000), opt, popAllMutCase)
	r.Require("popall_mutating_loops", 10000)
	// strengthening round 5 (LESSONS.md classes 1, 2, 4/6, 7, 9, 10)
	r.Cases("window", r.N(30000, 800000), opt, windowCase)
	r.Cases("chain-reinit", r.N(6000, 150000), opt, chainCase)
	r.Cases("kept-popall", r.N(20000, 500000), opt, keptPopAllCase)
	r.Cases("nested-popall", r.N(20000, 500000), opt, nestedPopAllCase)
	r.Cases("panic-popall", r.N(20000, 500000), opt, panicPopAllCase)
	r.Cases("big", r.N(24, 480), opt, bigCase)
	// clause audit: the body of a PopAll loop compared call by call
	r.Cases("body-heap", r.N(20000, 500000), opt, bodyHeapCase)
	r.Cases("body-slice", r.N(20000, 500000), opt, bodySliceCase)
	// LESSONS class 14: element types other than the two-word item (typed.go)
	r.Cases("elemtypes", r.N(60000, 1500000), opt, typedCase)

	// anti-vacuity floors (quick tier observes 20-1000x these numbers)
	for k, v := range map[string]int64{
		"heap/pop":                     20000,
		"heap/pop_with_tie":            3000,
		"heap/peek":                    10000,
		"heap/push":                    20000,
		"heap/push_element_fresh":      3000,
		"heap/push_element_repushed":   3000,
		"heap/remove_live":             10000,
		"heap/remove_live_root":        500,
		"heap/remove_live_last":        500,
		"heap/remove_stale":            2000,
		"heap/remove_foreign":          2000,
		"heap/fix_live":                10000,
		"heap/fix_moved_up":            1000,
		"heap/fix_moved_down":          1000,
		"heap/fix_stale":               2000,
		"heap/fix_foreign":             2000,
		"heap/init":                    2000,
		"heap/popall_full":             2000,
		"heap/popall_partial":          500,
		"heap/drain_refill":            2000,
		"heap/handle_index_checks":     1000000,
		"heap/handles_learned":         1000,
		"slice/pop":                    20000,
		"slice/remove_in_range":        10000,
		"slice/remove_sift_up":         200,
		"slice/remove_sift_down":       2000,
		"slice/remove_out_of_range":    5000,
		"slice/fix_in_range":           10000,
		"slice/fix_moved_up":           1000,
		"slice/fix_moved_down":         1000,
		"slice/fix_out_of_range":       3000,
		"slice/order_checks":           500000,
		"slice/popall_full":            2000,
		"slice/from_slice":             5000,
		"generic/init":                 5000,
		"generic/pop":                  20000,
		"generic/remove":               10000,
		"generic/remove_sift_up":       200,
		"generic/fix":                  10000,
		"generic/swaps":                100000,
		"generic/order_checks":         500000,
		"deep/h_pop":                   2000,
		"deep/h_remove_live":           2000,
		"deep/h_fix_live":              2000,
		"deep/s_remove_in_range":       2000,
		"deep/s_fix_in_range":          2000,
		"deep/g_remove":                2000,
		"deep/g_fix":                   2000,
		"sweep/heap_remove_handle":     5000,
		"sweep/heap_fix_handle":        20000,
		"sweep/slice_remove_index":     5000,
		"sweep/slice_fix_index":        20000,
		"sweep/generic_remove_index":   5000,
		"sweep/generic_fix_index":      20000,
		"intdiff/pops_compared":        50000,
		"reinit/old_handles_inspected": 2000,
		// unobserved-operation windows (Heap)
		"window/windows":                         50000,
		"window/quiet_ops":                       200000,
		"window/handle_op_after_unobserved_move": 50000,
		"window/first_len":                       5000,
		"window/first_index":                     5000,
		"window/first_peek":                      5000,
		"window/first_pop":                       5000,
		"window/first_popall":                    5000,
		"window/first_full_check":                5000,
		// Init on non-empty heaps, repeatedly, with everything else going on
		"chain/reinit_nonempty":               20000,
		"chain/reinit_known_handles_detached": 50000,
		"chain/reinit_shrinking":              3000,
		"chain/reinit_growing":                3000,
		"chain/push_right_after_reinit":       20000,
		"chain/push_element_repushed":         5000,
		"chain/remove_stale":                  5000,
		"chain/fix_stale":                     5000,
		// kept / nested / panicking PopAll
		"kept/run_later":                     10000,
		"kept/run_later_grown":               3000,
		"kept/run_later_shrunk":              500,
		"kept/run_twice":                     10000,
		"kept/second_sequence_runs":          10000,
		"nested/inner_runs":                  5000,
		"nested/inner_stopped_outer_resumed": 1000,
		"nested/alternations":                10000,
		"nested/abandoned_then_fresh":        3000,
		"panicpop/body_panics":               15000,
		"panicpop/values_inside_after_panic": 50000,
		// sizes around 2^12, 2^13, 2^16, 2^17
		"big/cases_Heap":        8,
		"big/cases_Slice":       8,
		"big/cases_generic":     8,
		"big/cases_above_65536": 6,
		"big/elements_drained":  500000,
		"big/handle_audits":     16,
		"big/h_burst_pushes":    100000,
		"big/s_burst_pushes":    100000,
		// clause audit: named calls, argument classes and comparators that had no floor
		"heap/pop_empty":                        5000,
		"heap/remove_sift_up":                   300,
		"heap/remove_sift_down":                 3000,
		"heap/order asc":                        2000,
		"heap/order desc":                       2000,
		"heap/order coarse(K/2)":                1000,
		"heap/order parity-desc":                500,
		"slice/push":                            20000,
		"slice/peek":                            10000,
		"slice/pop_empty":                       3000,
		"slice/Pop_with_tie":                    5000,
		"slice/Peek_with_tie":                   3000,
		"slice/popall_partial":                  1000,
		"slice/remove_root":                     2000,
		"slice/remove_last":                     2000,
		"slice/order asc":                       2000,
		"slice/order desc":                      2000,
		"slice/order coarse(K/2)":               1000,
		"slice/order parity-desc":               500,
		"generic/push":                          20000,
		"generic/pop_with_tie":                  5000,
		"generic/remove_last":                   2000,
		"generic/fix_moved_up":                  1000,
		"generic/fix_moved_down":                1000,
		"generic/init_again_after_invalidation": 3000,
		"generic/container_slice":               5000,
		"generic/container_map":                 2000,
		"generic/order asc":                     2000,
		"generic/order desc":                    2000,
		"generic/order coarse(K/2)":             1000,
		"generic/order parity-desc":             500,
		// PopAll loops whose body is compared call by call (Heap)
		"body/h_loops":                    10000,
		"body/h_loops_ended_on_empty":     5000,
		"body/h_loops_stopped_by_body":    2000,
		"body/h_yielded":                  50000,
		"body/h_body_ops":                 80000,
		"body/h_in_remove_live":           8000,
		"body/h_in_remove_live_root":      1000,
		"body/h_in_remove_sift_up":        30,
		"body/h_in_remove_stale":          3000,
		"body/h_in_remove_foreign":        1500,
		"body/h_in_fix_live":              10000,
		"body/h_in_fix_moved_up":          1500,
		"body/h_in_fix_moved_down":        800,
		"body/h_in_fix_stale":             3000,
		"body/h_in_fix_foreign":           1500,
		"body/h_in_requeue_yielded":       5000,
		"body/h_in_push_element_repushed": 8000,
		"body/h_in_push":                  8000,
		"body/h_in_peek":                  5000,
		"body/h_in_pop":                   3000,
		// ... and Slice
		"body/s_loops":                  10000,
		"body/s_loops_ended_on_empty":   5000,
		"body/s_loops_stopped_by_body":  2000,
		"body/s_yielded":                50000,
		"body/s_body_ops":               80000,
		"body/s_in_order_checks":        60000,
		"body/s_in_push":                10000,
		"body/s_in_pop":                 5000,
		"body/s_in_peek":                6000,
		"body/s_in_remove_in_range":     6000,
		"body/s_in_remove_out_of_range": 6000,
		"body/s_in_fix_in_range":        6000,
		"body/s_in_fix_moved_up":        1000,
		"body/s_in_fix_moved_down":      500,
		"body/s_in_fix_out_of_range":    6000,
		// element types: every type with every flavour, sifts over two and more levels
		"typed/flavour Slice":         10000,
		"typed/flavour Heap":          10000,
		"typed/flavour generic":       10000,
		"typed/type struct{5×int64}":  2000,
		"typed/type [9]int":           2000,
		"typed/type struct{16 words}": 2000,
		"typed/type string":           2000,
		"typed/type *struct":          2000,
		"typed/type any":              2000,
		"typed/type struct{string,int,*int,int,float64,[]int}": 2000,
		"typed/type float64":           2000,
		"typed/type uint8":             2000,
		"typed/type struct{}":          2000,
		"typed/type [2]string":         2000,
		"typed/type [3]int32":          2000,
		"typed/type fmt.Stringer":      2000,
		"typed/nil_interface_elements": 5000,
		"typed/s_pop_depth2":           20000,
		"typed/h_pop_depth2":           20000,
		"typed/s_remove":               20000,
		"typed/s_fix":                  20000,
		"typed/h_remove":               10000,
		"typed/h_fix":                  10000,
		"typed/g_pop":                  20000,
		"typed/g_remove":               20000,
		"typed/g_fix":                  20000,
		"typed/cases_depth3":           20000,
		"typed/drained":                100000,
	} {
		r.Require(k, v)
	}
	r.Finish()
}
