package main

import (
	stdheap "container/heap"
	"fmt"

	"github.com/welllog/golib/heapz"

	"verif/ev"
)

// intCont implements heapz.Interface[int]; stdInts implements container/heap's.
type intCont struct {
	s    []int
	desc bool
}

func (c *intCont) Len() int { return len(c.s) }
func (c *intCont) Less(i, j int) bool {
	if c.desc {
		return c.s[i] > c.s[j]
	}
	return c.s[i] < c.s[j]
}
func (c *intCont) Swap(i, j int) { c.s[i], c.s[j] = c.s[j], c.s[i] }
func (c *intCont) Push(x int)    { c.s = append(c.s, x) }
func (c *intCont) Pop() int {
	n := len(c.s) - 1
	x := c.s[n]
	c.s = c.s[:n]
	return x
}

type stdInts struct{ intCont }

func (c *stdInts) Push(x any) { c.s = append(c.s, x.(int)) }
func (c *stdInts) Pop() any {
	n := len(c.s) - 1
	x := c.s[n]
	c.s = c.s[:n]
	return x
}

// intDiffCase: under a total order the sequence of popped values is
// determined, so Heap[int], Slice[int] and the generic functions on an
// Interface[int] must pop exactly what container/heap pops.
func intDiffCase(c *ev.Case) {
	rng := c.Rng
	desc := rng.Bool()
	less := func(a, b int) bool { return a < b }
	if desc {
		less = func(a, b int) bool { return a > b }
	}
	g := newKeygen(rng)
	init := g.many(rng.Pick(0, 1, 5, 16, 33))
	var hp heapz.Heap[int]
	var sl heapz.Slice[int]
	gc := &intCont{s: append([]int(nil), init...), desc: desc}
	sc := &stdInts{intCont{s: append([]int(nil), init...), desc: desc}}
	if !guard(c, "int-build", func() {
		hp.Init(init, less)
		sl = heapz.FromSlice(append([]int(nil), init...), less)
		heapz.Init[int](gc)
	}) {
		return
	}
	stdheap.Init(sc)
	c.Logf("init %v desc=%v", init, desc)
	h := ev.Mix(uint64(len(init)))
	nops := rng.Pick(30, 80, 200)
	pops := 0
	popAllFlavours := func() bool {
		want := sc.Len()
		var a, b, d int
		var ea *heapz.Element[int]
		var okb bool
		var r any
		if want == 0 {
			if !guard(c, "int-pop-empty", func() { ea = hp.Pop(); _, okb = sl.Pop() }) {
				return false
			}
			if ea != nil || okb {
				c.Failf("int-pop-empty", "Pop on empty int heaps: Heap -> %v, Slice ok=%v", ea, okb)
				return false
			}
			return true
		}
		w := stdheap.Pop(sc).(int)
		if !guard(c, "int-pop", func() {
			ea = hp.Pop()
			b, okb = sl.Pop()
			r = heapz.Pop[int](gc)
		}) {
			return false
		}
		if ea == nil || !okb {
			c.Failf("int-pop-missing", "container/heap popped %d but Heap.Pop() -> %v, Slice.Pop() ok=%v", w, ea, okb)
			return false
		}
		a = ea.Value
		d, isInt := r.(int)
		c.Logf("Pop -> std %d, Heap %d, Slice %d, generic %v", w, a, b, r)
		if !isInt || a != w || b != w || d != w {
			c.Failf("int-pop-differs", "container/heap popped %d; Heap.Pop() = %d, Slice.Pop() = %d, heapz.Pop(h) = %v (desc=%v)", w, a, b, r, desc)
			return false
		}
		pops++
		return true
	}
	for i := 0; i < nops; i++ {
		if rng.Intn(100) < 55 {
			v := g.next()
			h = ev.Mix(h, 1, uint64(v))
			stdheap.Push(sc, v)
			var e *heapz.Element[int]
			if !guard(c, "int-push", func() {
				e = hp.Push(v)
				sl.Push(v)
				heapz.Push[int](gc, v)
			}) {
				return
			}
			c.Logf("Push(%d)", v)
			if e == nil || e.Value != v {
				c.Failf("int-push-handle", "Heap[int].Push(%d) returned handle %v", v, e)
				return
			}
		} else {
			h = ev.Mix(h, 2)
			if !popAllFlavours() {
				return
			}
		}
		var l1, l2 int
		if !guard(c, "int-len", func() { l1, l2 = hp.Len(), sl.Len() }) {
			return
		}
		if l1 != sc.Len() || l2 != sc.Len() || gc.Len() != sc.Len() {
			c.Failf("int-len", "lengths differ: container/heap %d, Heap %d, Slice %d, generic %d", sc.Len(), l1, l2, gc.Len())
			return
		}
	}
	// drain: Heap and Slice through PopAll, generic through Pop
	var want []int
	for sc.Len() > 0 {
		want = append(want, stdheap.Pop(sc).(int))
	}
	var ga, gb, gd []int
	limit := len(want) + 3
	if !guard(c, "int-popall", func() {
		for v := range hp.PopAll() {
			ga = append(ga, v)
			if len(ga) > limit {
				break
			}
		}
		for v := range sl.PopAll() {
			gb = append(gb, v)
			if len(gb) > limit {
				break
			}
		}
		for k := 0; k < limit && gc.Len() > 0; k++ {
			if v, ok := heapz.Pop[int](gc).(int); ok {
				gd = append(gd, v)
			}
		}
	}) {
		return
	}
	c.Logf("drain -> std %v, Heap.PopAll %v, Slice.PopAll %v, generic %v", want, ga, gb, gd)
	for name, got := range map[string][]int{"Heap.PopAll": ga, "Slice.PopAll": gb, "generic Pop loop": gd} {
		same := len(got) == len(want)
		for i := 0; same && i < len(want); i++ {
			same = got[i] == want[i]
		}
		if !same {
			c.Failf("int-drain-differs", "%s yielded %v, container/heap yields %v (desc=%v)", name, got, want, desc)
			return
		}
	}
	pops += len(want)
	c.Add("intdiff/pops_compared", int64(pops))
	if pops >= 2 {
		c.Distinct(h)
	}
	if c.WantSample() {
		c.Sample(fmt.Sprintf("intdiff: init %d ints (key mode %d, desc=%v), %d push/pop ops on Heap[int], Slice[int], generic Interface[int] and container/heap, %d pops compared incl. PopAll drain", len(init), g.mode, desc, nops, pops))
	}
}
