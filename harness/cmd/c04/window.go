package main

import (
	"fmt"

	"verif/ev"
)

// Two Heap engines aimed at state that a monitor which observes after every
// operation never sees:
//
//	window        unobserved-operation windows: 2..12 mutators in a row with no
//	              observing call at all (no Len, no Index(), no Peek), then one
//	              observer chosen at random, then the complete comparison
//	chain-reinit  Init on a heap that still holds elements, many times on the
//	              same value, with the full operation mix (Push, PushElement of
//	              detached handles, Remove/Fix through old handles) in between

// opReinit calls Init on m whatever it holds. Every element that was inside
// has left the heap (its handle must report -1 and be ignored from now on);
// the heap holds exactly the new multiset.
func (s *hsut) opReinit(m *hmodel, keys []int, ord order) bool {
	c := s.c
	old := append([]*helem(nil), m.live...)
	items := make([]item, len(keys))
	es := make([]*helem, len(keys))
	for i, k := range keys {
		es[i] = s.newElem(k)
		items[i] = es[i].it()
		s.note('I', m.no, k)
	}
	s.note('J', len(old), len(keys))
	if !guard(c, "Init", func() { m.h.Init(items, ord.less) }) {
		return false
	}
	c.Logf("%s.Init(%v, %s) while it holds %d elements", m.name, iv(items), ord.name, len(old))
	known := 0
	for _, e := range old {
		e.where = -1
		if e.h != nil {
			known++
		}
	}
	m.live = m.live[:0]
	m.ord = ord
	for _, e := range es {
		s.join(m, e)
	}
	s.muts++
	c.Add(s.pfx+"init", 1)
	if len(old) > 0 {
		c.Add(s.pfx+"reinit_nonempty", 1)
		c.Add(s.pfx+"reinit_known_handles_detached", int64(known))
		switch {
		case len(keys) == 0:
			c.Add(s.pfx+"reinit_to_empty", 1)
		case len(keys) < len(old):
			c.Add(s.pfx+"reinit_shrinking", 1)
		case len(keys) > len(old):
			c.Add(s.pfx+"reinit_growing", 1)
		default:
			c.Add(s.pfx+"reinit_same_size", 1)
		}
	}
	for i := range items {
		items[i] = item{-7, -7}
	}
	return s.check()
}

// pickQuiet chooses a handle without calling Index(): live 70%, stale 15%,
// foreign 15% (with fallbacks).
func (s *hsut) pickQuiet(m *hmodel) *helem {
	var e *helem
	switch p := s.rng.Intn(20); {
	case p < 14:
		if ks := s.liveKnown(m); len(ks) > 0 {
			e = ks[s.rng.Intn(len(ks))]
		}
	case p < 17:
		e = s.pickStale()
	default:
		e = s.pickForeign(m)
	}
	if e == nil {
		if ks := s.liveKnown(m); len(ks) > 0 {
			e = ks[s.rng.Intn(len(ks))]
		}
	}
	if e == nil {
		e = s.pickStale()
	}
	return e
}

func (s *hsut) pushSome(m *hmodel, g *keygen) bool {
	switch q := s.rng.Intn(10); {
	case q < 5:
		return s.opPush(m, g.next())
	case q < 7:
		return s.opPushElement(m, nil, g.next())
	default:
		if e := s.pickStale(); e != nil {
			k := e.key
			if s.rng.Bool() {
				k = g.next()
			}
			return s.opPushElement(m, e, k)
		}
		return s.opPush(m, g.next())
	}
}

func windowCase(c *ev.Case) {
	rng := c.Rng
	s := newHsut(c)
	s.pfx = "window/h_"
	g := newKeygen(rng)
	ordA, ordB := pickOrder(rng), pickOrder(rng)
	sizeA := rng.Pick(2, 3, 7, 12, 15, 30)
	sizeB := rng.Pick(0, 2, 5, 12)
	a := s.addHeap("A", ordA, initialKeys(rng, g, sizeA, ordA), rng.Chance(1, 3))
	if c.Failed() {
		return
	}
	b := s.addHeap("B", ordB, initialKeys(rng, g, sizeB, ordB), rng.Chance(1, 3))
	if c.Failed() {
		return
	}
	// a heap built by Init has no known handles yet: learn them
	for _, m := range s.heaps {
		if len(s.liveKnown(m)) < len(m.live) && rng.Chance(2, 3) {
			if !s.drainRefill(m) {
				return
			}
		}
	}
	rounds := rng.Range(3, 9)
	windows := 0
	for r := 0; r < rounds; r++ {
		// a few ordinary, fully observed operations
		for i := rng.Intn(4); i > 0; i-- {
			m := a
			if rng.Chance(1, 4) {
				m = b
			}
			ok := true
			switch rng.Intn(4) {
			case 0:
				ok = s.pushSome(m, g)
			case 1:
				_, ok = s.opPop(m)
			case 2:
				ok = s.opPeek(m)
			default:
				if e := s.pickHandle(m); e != nil {
					ok = s.opRemove(m, e)
				}
			}
			if !ok || c.Failed() {
				return
			}
		}
		// the window: mutators only
		w := rng.Range(2, 12)
		s.note('w', w, r)
		c.Logf("-- window of %d unobserved operations", w)
		s.quiet = true
		moved := [2]bool{} // did an earlier operation of this window rearrange heap i?
		for i := 0; i < w; i++ {
			m := a
			if rng.Chance(1, 4) {
				m = b
			}
			ok := true
			switch p := rng.Intn(100); {
			case p < 30:
				ok = s.pushSome(m, g)
				moved[m.no] = true
			case p < 50:
				_, ok = s.opPop(m)
				moved[m.no] = true
			case p < 72:
				if e := s.pickQuiet(m); e != nil {
					if e.where == m.no && moved[m.no] {
						c.Add("window/handle_op_after_unobserved_move", 1)
					}
					ok = s.opRemove(m, e)
					if e.where < 0 {
						moved[m.no] = true
					}
				}
			case p < 94:
				if e := s.pickQuiet(m); e != nil {
					if e.where == m.no && moved[m.no] {
						c.Add("window/handle_op_after_unobserved_move", 1)
					}
					nk := newKeyFor(rng, g, e.key)
					ok = s.opFix(m, e, nk, nk != e.key)
					moved[m.no] = true
				}
			case p < 97:
				if len(m.live) > 0 {
					ok = s.opPopAll(m, rng.Intn(len(m.live)+1))
					moved[m.no] = true
				}
			default:
				ok = s.opReinit(m, g.many(rng.Pick(0, 1, 3, 8)), pickOrder(rng))
				moved[m.no] = true
			}
			if !ok || c.Failed() {
				return
			}
			c.Add("window/quiet_ops", 1)
		}
		s.quiet = false
		windows++
		c.Add("window/windows", 1)
		// the first observer after the window
		m := a
		if rng.Chance(1, 4) {
			m = b
		}
		ok := true
		switch obs := rng.Intn(6); obs {
		case 0:
			n := -1
			if !guard(c, "Len", func() { n = m.h.Len() }) {
				return
			}
			c.Logf("first observer: %s.Len() = %d", m.name, n)
			if n != len(m.live) {
				c.Failf("len", "after %d unobserved operations %s.Len() = %d, the multiset model has %d elements", w, m.name, n, len(m.live))
				return
			}
			c.Add("window/first_len", 1)
		case 1:
			var known []*helem
			for _, e := range s.elems {
				if e.h != nil {
					known = append(known, e)
				}
			}
			if len(known) > 0 {
				e := known[rng.Intn(len(known))]
				idx, iok := s.index(e)
				if !iok {
					return
				}
				c.Logf("first observer: Index() of %v (%s) = %d", e.it(), s.whereName(e), idx)
				if e.where < 0 && idx != -1 {
					c.Failf("stale-index", "element %v has left its heap but its handle reports Index() = %d, want -1", e.it(), idx)
					return
				}
				if e.where >= 0 && (idx < 0 || idx >= len(s.heaps[e.where].live)) {
					c.Failf("live-index-range", "element %v is in heap %s (Len %d) but its handle reports Index() = %d", e.it(), s.heaps[e.where].name, len(s.heaps[e.where].live), idx)
					return
				}
			}
			c.Add("window/first_index", 1)
		case 2:
			ok = s.opPeek(m)
			c.Add("window/first_peek", 1)
		case 3:
			_, ok = s.opPop(m)
			c.Add("window/first_pop", 1)
		case 4:
			ok = s.opPopAll(m, rng.Intn(len(m.live)+1))
			c.Add("window/first_popall", 1)
		default:
			c.Add("window/first_full_check", 1)
		}
		if !ok || c.Failed() || !s.check() {
			return
		}
		// now and then the complete order, right after the window
		if rng.Chance(1, 4) {
			if !s.drainRefill(m) {
				return
			}
		}
	}
	for _, m := range s.heaps {
		if rng.Bool() {
			if !s.opPopAll(m, -1) {
				return
			}
			if _, ok := s.opPop(m); !ok {
				return
			}
		} else if _, ok := s.drain(m); !ok {
			return
		}
	}
	if s.muts >= 3 && windows > 0 {
		c.Distinct(s.hash)
	}
	if c.WantSample() {
		c.Sample(fmt.Sprintf("window: A order %s, B order %s, %d windows of 2..12 operations without any observing call (no Len, Index, Peek), each followed by one randomly chosen observer and the full comparison; %d elements created, all drained", ordA.name, ordB.name, windows, len(s.elems)))
	}
}

// chainCase: the same two Heap values are re-initialised again and again while
// they hold elements, with the ordinary operation mix in between. After an
// Init the heap is often refilled at once with Push (an implementation that
// recycles the discarded elements hands them out again here), and the handles
// of discarded elements keep being used: Index() must stay -1, Remove/Fix must
// be ignored, PushElement must bring the element back.
func chainCase(c *ev.Case) {
	rng := c.Rng
	s := newHsut(c)
	s.pfx = "chain/"
	g := newKeygen(rng)
	ordA, ordB := pickOrder(rng), pickOrder(rng)
	a := s.addHeap("A", ordA, initialKeys(rng, g, rng.Pick(0, 3, 7, 12, 20), ordA), rng.Chance(1, 3))
	if c.Failed() {
		return
	}
	b := s.addHeap("B", ordB, initialKeys(rng, g, rng.Pick(0, 2, 5, 12), ordB), rng.Chance(1, 3))
	if c.Failed() {
		return
	}
	nops := rng.Pick(40, 80, 80, 150)
	for i := 0; i < nops; i++ {
		m, other := a, b
		if rng.Chance(3, 10) {
			m, other = b, a
		}
		ok := true
		switch p := rng.Intn(100); {
		case p < 12:
			n := len(m.live)
			size := rng.Pick(0, 1, n/2, n-1, n, n+1, n+4, 2*n+1)
			if size < 0 {
				size = 0
			}
			if size > 40 {
				size = 40
			}
			nonEmpty := n > 0
			ok = s.opReinit(m, g.many(size), pickOrder(rng))
			if ok && nonEmpty && rng.Chance(2, 3) {
				// refill at once
				tgt := m
				if rng.Chance(1, 4) {
					tgt = other
				}
				for k := rng.Range(1, n+2); k > 0 && ok; k-- {
					ok = s.opPush(tgt, g.next())
					c.Add("chain/push_right_after_reinit", 1)
				}
			}
		case p < 34:
			ok = s.pushSome(m, g)
		case p < 48:
			_, ok = s.opPop(m)
		case p < 58:
			ok = s.opPeek(m)
		case p < 74:
			if e := s.pickHandle(m); e != nil {
				ok = s.opRemove(m, e)
			}
		case p < 90:
			if e := s.pickHandle(m); e != nil {
				nk := newKeyFor(rng, g, e.key)
				ok = s.opFix(m, e, nk, nk != e.key)
			}
		case p < 93:
			ok = s.opPopAll(m, rng.Intn(len(m.live)+1))
		case p < 95:
			ok = s.drainRefill(m)
		default:
			ok = s.opPeek(m)
		}
		if !ok || c.Failed() {
			return
		}
	}
	for _, m := range s.heaps {
		if _, ok := s.drain(m); !ok {
			return
		}
	}
	if e := s.pickStale(); e != nil {
		if !s.opRemove(a, e) || !s.opFix(b, e, e.key+1, true) {
			return
		}
	}
	if s.muts >= 3 {
		c.Distinct(s.hash)
	}
	if c.WantSample() {
		c.Sample(fmt.Sprintf("chain-reinit: A order %s, B order %s, %d ops with Init on heaps that still hold elements (often refilled with Push at once), old handles used afterwards; %d elements created, all drained", ordA.name, ordB.name, nops, len(s.elems)))
	}
}
