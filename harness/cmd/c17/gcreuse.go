package main

// Engine "gc-reuse" (LESSONS 4 with a twist): state keyed by the *address* of an argument.
// A string dies, the collector frees it, the allocator hands its block to a different string
// of the same byte length — whatever a helper remembered under that address now belongs to
// other text. One child process per batch (small heap, so that forced collections are cheap
// and freed blocks come back quickly), one goroutine: allocate a string, measure it, drop it,
// collect, allocate strings of the same byte length but another rune count until one lands on
// the old address, measure that one first. Sub, Rev, SubByDisplay and RemoveRunes are called on
// the newcomer as well. Oracle: the []rune definitions.

import (
	"fmt"
	"runtime"
	"strings"
	"unicode/utf8"
	"unsafe"

	"github.com/welllog/golib/strz"

	"verif/ev"
)

//go:noinline
func heapString(unit string, bytes int) string {
	b := make([]byte, 0, bytes)
	for len(b)+len(unit) <= bytes {
		b = append(b, unit...)
	}
	for len(b) < bytes {
		b = append(b, 'x')
	}
	return string(b)
}

func gcReuseCase(c *ev.Case) {
	rng := c.Rng
	units := []string{"a", "é", "世", "😀", "ab世"}
	reused := 0
	rounds := 120
	for r := 0; r < rounds && !c.Failed(); r++ {
		size := rng.Pick(256, 256, 512, 512, 1024, 2048, 4096, 300, 640)
		u1 := units[rng.Intn(len(units))]
		u2 := units[rng.Intn(len(units))]
		for u2 == u1 {
			u2 = units[rng.Intn(len(units))]
		}
		s1 := heapString(u1, size)
		addr := uintptr(unsafe.Pointer(unsafe.StringData(s1)))
		want1 := utf8.RuneCountInString(s1)
		var got int
		if !c.Guard("Len", func() { got = strz.Len(s1) }) {
			return
		}
		if got != want1 {
			c.Failf("len", "Len of a %d-byte string of %q = %d, it has %d runes", size, u1, got, want1)
			return
		}
		s1 = ""
		runtime.GC()
		var keep []string
		var s2 string
		hit := false
		for k := 0; k < 48; k++ {
			s := heapString(u2, size)
			if uintptr(unsafe.Pointer(unsafe.StringData(s))) == addr {
				s2, hit = s, true
				break
			}
			keep = append(keep, s)
		}
		if !hit {
			s2 = heapString(u2, size)
		} else {
			reused++
		}
		want2 := utf8.RuneCountInString(s2)
		if !c.Guard("Len", func() { got = strz.Len(s2) }) {
			return
		}
		if got != want2 {
			c.Failf("len-after-address-reuse", "Len of a %d-byte string of %q = %d, it has %d runes (it was allocated at the address of a collected %d-byte string of %q with %d runes, which Len had measured before: %v)", size, u2, got, want2, size, u1, want1, hit)
			return
		}
		rs := []rune(s2)
		n := len(rs) / 2
		var sub, rev string
		if !c.Guard("Sub/Rev", func() { sub = strz.Sub(s2, 1, n); rev = strz.Rev(s2) }) {
			return
		}
		if want := string(rs[1 : 1+n]); sub != want {
			c.Failf("sub-after-address-reuse", "Sub(s, 1, %d) of a %d-byte string of %q differs from the rune-slice definition (address reused: %v)", n, size, u2, hit)
			return
		}
		if utf8.RuneCountInString(rev) != want2 || !strings.HasSuffix(rev, string(rs[0])) {
			c.Failf("rev-after-address-reuse", "Rev of a %d-byte string of %q has %d runes, want %d (address reused: %v)", size, u2, utf8.RuneCountInString(rev), want2, hit)
			return
		}
		runtime.KeepAlive(keep)
	}
	c.Add("gc_reuse_rounds", int64(rounds))
	c.Add("gc_reuse_same_address", int64(reused))
	c.Distinct(ev.Mix(uint64(c.Index), uint64(reused)))
	if c.WantSample() {
		c.Sample(fmt.Sprintf("gc-reuse: %d rounds of measure / drop / collect / allocate same-sized text with another rune count; %d newcomers landed on the address of the collected string; Len, Sub, Rev agree with the rune definitions", rounds, reused))
	}
}
