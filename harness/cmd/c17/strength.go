package main

// strength.go — workloads added after reviewing the harness against LESSONS.md.
// None of them has a new oracle: the definitions of oracle.go decide, the histories
// are new.
//
//	big         (class 7, 8, 11) strings of 8 bytes .. 64 KiB (1 MiB thorough) whose byte
//	            length and whose multi-byte runes / invalid bytes sit on both sides of, and
//	            across, every power of two and its small multiples; arguments at the rune
//	            indices of those byte offsets, at 0/1/n-1/n/n+1 and at MaxInt.
//	long-ident  (class 7) snake_case identifiers of 60 .. 66000 characters whose camel form
//	            is shorter than, and whose snake form is longer than, a power of two.
//	kept        (class 2, 3, 4, 12) 2-4 strings (independent, siblings differing in one rune,
//	            padded to one byte length, or carved out of one arena string) used
//	            alternately on one goroutine; every result is kept and judged a second time
//	            after all later calls and a churn of same-sized calls; the inputs are
//	            compared with a private copy taken before the first call; masks that are the
//	            input itself or a part of it; the camel form kept and converted back later.
//	callback    (class 9, 10) RemoveRunes predicates that panic on a chosen rune (before or
//	            after the first removal, hostile panic values) followed by healthy calls on
//	            the same goroutine; predicates that call back into every strz helper
//	            (RemoveRunes itself included) while the outer call is in progress.
//	cold-start  (class 5) one fresh process per case; the first golib call of the process is
//	            Sub, Mask, SubByDisplay, RemoveRunes, Rev, Len, the round trip, UcFirst,
//	            LcFirst or CamelCaseToSnake, on a string with multi-byte runes.
//
// Classes 1 and 6 do not apply (the helpers have no receiver and no state that an
// observer could repair or a re-initialisation could leave behind).

import (
	"errors"
	"fmt"
	"sort"
	"strings"
	"unicode/utf8"

	"github.com/welllog/golib/strz"

	"verif/ev"
)

// ------------------------------------------------------------------ kept results

type keptRes struct {
	call string
	got  string // the value golib returned, as returned (no copy)
	want string // private copy of the definition's value, taken when got was judged equal to it
}

func (k *chk) remember(got, want, call string) {
	*k.keep = append(*k.keep, keptRes{call: call, got: got, want: strings.Clone(want)})
}

// masks of the added engines: the lists of oracle.go plus U+FFFD as valid text,
// a zero-width rune and the last code point.
var singleMasksX = append(append([]string{}, singleMasks...), "\uFFFD", "\u200d", "\U0010FFFF", "\uFFFD")
var multiMasksX = append(append([]string{}, multiMasks...), "\uFFFD\uFFFD", "a\uFFFD", "\uFFFD*", "\u200d\u200d")

func countMask(c *ev.Case, m string) {
	if strings.Contains(m, "\uFFFD") {
		if utf8.RuneCountInString(m) == 1 {
			c.Add("mask_is_single_U+FFFD", 1)
		} else {
			c.Add("mask_multi_with_U+FFFD", 1)
		}
	}
}

// simplePreds are pure predicates (no side effects).
func simplePreds(rng *ev.Rand, v *view) []pred {
	salt := rng.Uint64() | 1
	var some rune = -1
	if v.n() > 0 {
		some = v.runes[rng.Intn(v.n())]
	}
	return []pred{
		{name: "always", fn: func(rune) bool { return true }},
		{name: "ascii", fn: func(r rune) bool { return r < utf8.RuneSelf }},
		{name: "non-ascii", fn: func(r rune) bool { return r >= utf8.RuneSelf }},
		{name: fmt.Sprintf("==%q", some), fn: func(r rune) bool { return r == some }},
		{name: fmt.Sprintf("!=%q", some), fn: func(r rune) bool { return r != some }},
		{name: fmt.Sprintf("hash(salt %#x)", salt), fn: func(r rune) bool { return (uint64(r)+1)*salt>>63 == 0 }},
	}
}

// replaceRune returns s with rune i replaced by r.
func (v *view) replaceRune(i int, r rune) string {
	return v.s[:v.offs[i]] + string(r) + v.s[v.offs[i+1]:]
}

func keptCase(c *ev.Case) {
	rng := c.Rng
	ns := rng.Range(2, 4)
	strs := make([]string, 0, ns)
	mode := rng.Intn(5)
	switch mode {
	case 0: // independent
		for i := 0; i < ns; i++ {
			s, _ := genValid(rng)
			strs = append(strs, s)
		}
	case 4: // views of one string: the string, a prefix (same first byte in memory), a suffix, an inner part
		var s string
		for tries := 0; tries < 8 && utf8.RuneCountInString(s) < 2; tries++ {
			s, _ = genValid(rng)
		}
		if utf8.RuneCountInString(s) < 2 {
			s = "a世b"
		}
		v := newView(s)
		n := v.n()
		strs = append(strs, s, s[:v.offs[rng.Range(1, n-1)]])
		if ns > 2 {
			strs = append(strs, s[v.offs[rng.Range(1, n-1)]:])
		}
		if ns > 3 {
			i := rng.Intn(n)
			strs = append(strs, s[v.offs[i]:v.offs[rng.Range(i, n)]])
		}
		if rng.Bool() {
			strs[0], strs[1] = strs[1], strs[0]
		}
		c.Add("kept_views_of_one_string_cases", 1)
	case 1: // siblings: one rune differs (same or another width)
		var s string
		for tries := 0; tries < 8 && s == ""; tries++ {
			s, _ = genValid(rng)
		}
		if s == "" {
			s = "a世"
		}
		v := newView(s)
		strs = append(strs, s)
		for i := 1; i < ns; i++ {
			p := rng.Intn(v.n())
			w := v.bw(p)
			if rng.Chance(1, 3) {
				w = rng.Range(1, 4)
			}
			strs = append(strs, v.replaceRune(p, pickRune(rng, w)))
		}
		c.Add("kept_sibling_cases", 1)
	default: // one byte length for all (a recycled buffer fits exactly), different content
		L := rng.Range(4, 40)
		for i := 0; i < ns; i++ {
			var b strings.Builder
			for b.Len() < L {
				w := rng.Range(1, 4)
				if b.Len()+w > L {
					w = 1
				}
				b.WriteRune(pickRune(rng, w))
			}
			strs = append(strs, b.String())
		}
		c.Add("kept_same_byte_length_cases", 1)
	}
	if mode != 4 && rng.Bool() {
		// carve the strings out of one arena: each argument is followed in memory by the next
		arena := strings.Join(strs, "")
		off := 0
		for i, s := range strs {
			strs[i] = arena[off : off+len(s)]
			off += len(s)
		}
		c.Add("kept_arena_cases", 1)
	}
	for _, s := range strs {
		if !utf8.ValidString(s) {
			c.Run().HarnessFailure(fmt.Sprintf("kept: generator produced invalid UTF-8 %q", s))
			return
		}
	}
	// private copies of the inputs (separate memory), taken before the first call
	snaps := make([][]byte, ns)
	ks := make([]*chk, ns)
	var kept []keptRes
	for i, s := range strs {
		snaps[i] = []byte(s)
		ks[i] = newChk(c, s, "/kept")
		ks[i].keep = &kept
	}
	defer func() {
		for _, k := range ks {
			k.flush()
		}
	}()
	type camelKept struct {
		x, cam, camCopy string
		up              bool
	}
	var camels []camelKept

	ops := rng.Range(12, 48)
	for o := 0; o < ops; o++ {
		// one call, and half of the time the same call on another of the strings right after it
		targets := []*chk{ks[rng.Intn(ns)]}
		if rng.Bool() {
			targets = append(targets, ks[rng.Intn(ns)])
			if targets[1] != targets[0] {
				c.Add("kept_same_call_on_two_strings_in_a_row", 1)
			}
		}
		k := targets[0]
		n := k.v.n()
		var run func(k *chk) bool
		switch rng.Intn(10) {
		case 0, 1, 2:
			st, ln := rng.Intn(n+3), rng.Range(-1, n+2)
			run = func(k *chk) bool { return k.sub(st, ln) }
		case 3, 4:
			var m string
			switch rng.Intn(5) {
			case 0:
				m = singleMasksX[rng.Intn(len(singleMasksX))]
			case 1:
				m = multiMasksX[rng.Intn(len(multiMasksX))]
			case 2: // the input itself is the mask
				m = k.v.s
				c.Add("kept_mask_is_input_or_part_of_it", 1)
			case 3: // a part of the input (rune aligned) is the mask
				a := rng.Intn(n + 1)
				b := a + rng.Intn(n-a+1)
				m = k.v.s[k.v.offs[a]:k.v.offs[b]]
				c.Add("kept_mask_is_input_or_part_of_it", 1)
			default: // another input is the mask
				m = ks[rng.Intn(ns)].v.s
			}
			countMask(c, m)
			st, en := rng.Intn(n+3), rng.Intn(n+3)
			run = func(k *chk) bool { return k.mask(newMask(m, k.v.n()+4), st, en) }
		case 5:
			lim := rng.Intn(k.v.cw[n] + 3)
			run = func(k *chk) bool { return k.subByDisplay(lim) }
		case 6, 7:
			run = func(k *chk) bool { return k.revLen() }
		case 8:
			ps := simplePreds(rng, k.v)
			p := ps[rng.Intn(len(ps))]
			run = func(k *chk) bool { return k.removeRunes(p) }
		default:
			targets = targets[:1]
			run = func(*chk) bool {
				x := genSnake(rng)
				up := rng.Bool()
				var cam, back string
				if !c.Guard("SnakeToCamelCase", func() { cam = strz.SnakeToCamelCase(x, up) }) ||
					!c.Guard("CamelCaseToSnake", func() { back = strz.CamelCaseToSnake(cam) }) {
					return false
				}
				c.Logf("SnakeToCamelCase(%q, %v) -> %q; CamelCaseToSnake -> %q", x, up, cam, back)
				if back != x {
					c.Failf("roundtrip/kept", "CamelCaseToSnake(SnakeToCamelCase(%q, %v)) = %q (camel form %q)", x, up, back, cam)
					return false
				}
				kept = append(kept, keptRes{call: fmt.Sprintf("CamelCaseToSnake(SnakeToCamelCase(%q, %v))", x, up), got: back, want: strings.Clone(x)})
				camels = append(camels, camelKept{x: x, cam: cam, camCopy: strings.Clone(cam), up: up})
				return true
			}
		}
		for _, t := range targets {
			if !run(t) {
				return
			}
		}
	}
	// churn: calls of every helper on other strings of the same byte lengths, nothing kept
	for _, s := range strs {
		if len(s) == 0 {
			continue
		}
		t := strings.Repeat("x", len(s)-1) + "_"
		if len(s) >= 3 && rng.Bool() {
			t = "世" + strings.Repeat("y", len(s)-3)
		}
		if !c.Guard("churn", func() {
			strz.Rev(t)
			strz.RemoveRunes(t, func(r rune) bool { return r == '_' })
			strz.RemoveRunes(t, func(r rune) bool { return r != '_' })
			strz.Mask(t, "#", 1, 0)
			strz.Mask(t, "##", 0, 1)
			strz.Sub(t, 1, -1)
			strz.Sub(t, 0, len(t)-1)
			strz.SubByDisplay(t, len(t)-1)
			strz.UcFirst(t)
			strz.CamelCaseToSnake(strz.SnakeToCamelCase("q"+t+"q", true))
		}) {
			return
		}
	}
	// second judgement of every kept result
	for _, kr := range kept {
		c.Add("kept_results_rejudged", 1)
		if kr.got != kr.want {
			c.Failf("kept-result-changed", "%s returned %q (what the statement defines, at that time); after later calls on other strings the same returned string reads %q", kr.call, kr.want, kr.got)
			return
		}
	}
	for _, ck := range camels {
		c.Add("kept_camel_forms_converted_later", 1)
		if ck.cam != ck.camCopy {
			c.Failf("kept-result-changed", "SnakeToCamelCase(%q, %v) returned %q; after later calls the same returned string reads %q", ck.x, ck.up, ck.camCopy, ck.cam)
			return
		}
		var back string
		if !c.Guard("CamelCaseToSnake", func() { back = strz.CamelCaseToSnake(ck.cam) }) {
			return
		}
		if back != ck.x {
			c.Failf("roundtrip/kept", "CamelCaseToSnake of the kept SnakeToCamelCase(%q, %v) = %q gives %q when converted later", ck.x, ck.up, ck.cam, back)
			return
		}
	}
	for i, s := range strs {
		c.Add("kept_inputs_compared_with_copy", 1)
		if s != string(snaps[i]) {
			c.Failf("input-modified", "the argument string %q reads %q after the calls", string(snaps[i]), s)
			return
		}
	}
	c.Add("kept_cases", 1)
	c.Distinct(ev.Mix(6, ev.HashString(strings.Join(strs, "\x00")), uint64(ops)))
	if c.WantSample() && len(kept) >= 20 {
		c.Sample(fmt.Sprintf("kept: strings %q used alternately for %d calls; all %d results equal to the definitions when returned and again after the last call and a churn of same-sized calls; inputs equal to their copies", strs, ops, len(kept)))
	}
}

// ------------------------------------------------------------------ hostile callbacks

type nilErr struct{}

func (*nilErr) Error() string { return "nil pointer error value" }

var errPred = errors.New("harness: predicate gives up")

// smallOps runs a reduced set of calls on one string (every helper at least once).
func (k *chk) smallOps(rng *ev.Rand) bool {
	n := k.v.n()
	if !k.revLen() {
		return false
	}
	for i := 0; i < 3; i++ {
		if !k.sub(rng.Intn(n+2), rng.Range(-1, n+1)) {
			return false
		}
		m := singleMasksX[rng.Intn(len(singleMasksX))]
		if i == 1 {
			m = multiMasksX[rng.Intn(len(multiMasksX))]
		}
		countMask(k.c, m)
		if !k.mask(newMask(m, n+4), rng.Intn(n+2), rng.Intn(n+2)) {
			return false
		}
		if !k.subByDisplay(rng.Intn(k.v.cw[n] + 2)) {
			return false
		}
	}
	return true
}

func callbackCase(c *ev.Case) {
	rng := c.Rng
	rounds := rng.Range(2, 4)
	var desc []string
	for round := 0; round < rounds; round++ {
		var s string
		for tries := 0; tries < 8; tries++ {
			s, _ = genValid(rng)
			if utf8.RuneCountInString(s) >= 2 {
				break
			}
			s = "a世b"
		}
		k := newChk(c, s, "/callback")
		n := k.v.n()
		base := simplePreds(rng, k.v)[1+rng.Intn(5)]
		if rng.Bool() {
			// ---- a predicate that panics when it is shown a chosen rune
			j := rng.Intn(n)
			target := k.v.runes[j]
			first := -1 // index of the first occurrence of target
			removedBefore := false
			for i, r := range k.v.runes {
				if r == target {
					first = i
					break
				}
				if base.fn(r) {
					removedBefore = true
				}
			}
			var val any
			switch rng.Intn(5) {
			case 0:
				val = errPred
			case 1:
				val = "harness: predicate panics with a string"
			case 2:
				val = (*nilErr)(nil)
			case 3:
				val = nil // panic(nil): a *runtime.PanicNilError since Go 1.21
			default:
				val = 42
			}
			raised := false
			ok := c.Guard("RemoveRunes/callback", func() {
				defer func() {
					p := recover()
					if raised {
						return // the predicate's own panic came back to the caller: not judged
					}
					if p != nil {
						panic(p)
					}
				}()
				strz.RemoveRunes(s, func(r rune) bool {
					if r == target {
						raised = true
						panic(val)
					}
					return base.fn(r)
				})
			})
			k.flush()
			if !ok {
				return
			}
			c.Logf("RemoveRunes(%q, %s but panics(%v) on %q at rune %d) -> predicate panic raised=%v", s, base.name, val, target, first, raised)
			if raised {
				c.Add("callback_predicate_panics", 1)
				if removedBefore {
					c.Add("callback_panic_after_first_removal", 1)
				} else {
					c.Add("callback_panic_before_first_removal", 1)
				}
			}
			desc = append(desc, fmt.Sprintf("predicate panics on rune %d of %q", first, s))
			// ---- healthy calls on the same goroutine: the same string and another one
			for h := 0; h < 2; h++ {
				k2 := k
				if h == 1 {
					s2, _ := genValid(rng)
					k2 = newChk(c, s2, "/callback")
				}
				for _, p := range simplePreds(rng, k2.v) {
					if !k2.removeRunes(p) {
						k2.flush()
						return
					}
					c.Add("callback_healthy_removerunes_after_panic", 1)
				}
				if !k2.smallOps(rng) {
					k2.flush()
					return
				}
				k2.flush()
			}
			continue
		}
		// ---- a predicate that calls back into strz while RemoveRunes is running
		t, _ := genValid(rng)
		k2 := newChk(c, t, "/callback-inner")
		inner := simplePreds(rng, k2.v)
		n2 := k2.v.n()
		calls := 0
		innerFailed := false
		re := pred{
			name: base.name + " calling back into strz",
			pure: base.fn,
			fn: func(r rune) bool {
				calls++
				if !innerFailed && calls <= 40 {
					ok := true
					switch (calls + j0(r)) % 6 {
					case 0:
						ok = k2.removeRunes(inner[calls%len(inner)])
						k.c.Add("callback_nested_removerunes", 1)
					case 1:
						ok = k2.revLen()
					case 2:
						ok = k2.sub(calls%(n2+2), (calls/2)%(n2+2)-1)
					case 3:
						ok = k2.mask(newMask(singleMasksX[calls%len(singleMasksX)], n2+4), calls%(n2+1), (calls/3)%(n2+1))
					case 4:
						ok = k2.subByDisplay(calls % (k2.v.cw[n2] + 2))
					default:
						ok = k.sub(calls%(n+2), -1) // the outer string itself
					}
					k.c.Add("callback_reentrant_calls", 1)
					if !ok {
						innerFailed = true
					}
				}
				return base.fn(r)
			},
		}
		ok := k.removeRunes(re)
		k.flush()
		k2.flush()
		if !ok || innerFailed || c.Failed() {
			return
		}
		c.Add("callback_reentrant_predicates", 1)
		desc = append(desc, fmt.Sprintf("predicate on %q calls back into strz on %q", s, t))
		if !k2.smallOps(rng) {
			k2.flush()
			return
		}
		k2.flush()
	}
	c.Add("callback_cases", 1)
	c.Distinct(ev.Mix(7, ev.HashString(strings.Join(desc, "|"))))
	if c.WantSample() {
		c.Sample("callback: " + strings.Join(desc, "; ") + "; every healthy call before, during and after equal to the definitions")
	}
}

func j0(r rune) int { return int(r & 3) }

// ------------------------------------------------------------------ big strings

func bigMarks(thorough bool) []int {
	m := []int{8, 16, 32, 64, 128, 256, 512, 1024, 2048, 4096, 8192, 16384, 32768, 65536}
	if thorough {
		m = append(m, 1<<17, 1<<18, 1<<20)
	}
	return m
}

// genBig builds a string around the byte offset B = mult*T.
func genBig(rng *ev.Rand, T, mult int) (s string, kind string) {
	B := T * mult
	tail := rng.Pick(0, 0, 1, 2, 3, 5, 7, 9, T/2, T, T+1)
	if T >= 1<<18 && tail > T/2 {
		tail = T / 2
	}
	total := B + tail
	buf := make([]byte, 0, total+8)
	filler := func(n int) {
		for i := 0; i < n; i++ {
			buf = append(buf, byte('a'+(len(buf)%23)))
		}
	}
	// a multi-byte rune that begins d bytes before byte offset `at` (d in 0..w-1; d = w: ends at it)
	straddle := func(at int, bad bool) {
		w := rng.Range(2, 4)
		d := rng.Intn(w + 1)
		if at-d < len(buf) {
			return
		}
		filler(at - d - len(buf))
		if bad {
			frag := badFrags[rng.Intn(len(badFrags))]
			buf = append(buf, frag...)
			return
		}
		buf = utf8.AppendRune(buf, pickRune(rng, w))
	}
	switch rng.Intn(8) {
	case 0, 1: // one multi-byte rune in the whole string, at B
		kind = "one-wide-rune"
		straddle(B, false)
	case 2, 3: // a multi-byte rune at every multiple of T
		kind = "wide-rune-at-each-multiple"
		for at := T; at <= B+tail; at += T {
			straddle(at, false)
		}
	case 4: // multi-byte runes everywhere
		kind = "dense"
		ascii := rng.Intn(3)
		for len(buf) < total {
			if rng.Intn(4) < ascii {
				buf = append(buf, byte('a'+rng.Intn(26)))
			} else {
				buf = utf8.AppendRune(buf, pickRune(rng, rng.Range(2, 4)))
			}
		}
		return string(buf), kind
	case 5: // one width only: every rune boundary is a multiple of the width
		kind = "one-width"
		w := rng.Range(2, 4)
		for len(buf) < total {
			buf = utf8.AppendRune(buf, pickRune(rng, w))
		}
		return string(buf), kind
	case 6: // pure ASCII, or ASCII with the only multi-byte rune as the very last rune
		kind = "ascii-wide-last"
		filler(total)
		if rng.Chance(2, 3) {
			buf = utf8.AppendRune(buf, pickRune(rng, rng.Range(2, 4)))
		}
		return string(buf), kind
	default: // invalid bytes at the multiples of T (no panic is all that is judged)
		kind = "invalid-at-multiples"
		for at := T; at <= B+tail; at += T {
			straddle(at, rng.Chance(2, 3))
		}
		if len(buf) == 0 {
			buf = append(buf, 0xff)
		}
	}
	if len(buf) < total {
		filler(total - len(buf))
	}
	return string(buf), kind
}

// runeAt returns the index of the rune that contains byte offset b (n if b >= len).
func (v *view) runeAt(b int) int {
	if b >= len(v.s) {
		return v.n()
	}
	i := sort.SearchInts(v.offs, b+1) - 1
	if i < 0 {
		i = 0
	}
	return i
}

func bigCase(c *ev.Case) {
	rng := c.Rng
	marks := bigMarks(c.Thorough())
	T := marks[rng.Intn(len(marks))]
	mult := rng.Pick(1, 1, 1, 2, 3, 5)
	limit := marks[len(marks)-1] * 2 // 128 KiB quick; the biggest thorough mark stands alone
	if c.Thorough() {
		limit = marks[len(marks)-1]
	}
	for T*mult > limit {
		mult--
	}
	s, kind := genBig(rng, T, mult)
	k := newChk(c, s, "/big")
	defer k.flush()
	v := k.v
	n := v.n()
	c.Add("big_kind_"+kind, 1)
	c.Max("big_max_bytes", int64(len(s)))
	c.Max("big_max_runes", int64(n))
	if v.valid {
		// a multi-byte rune lies across a multiple of T?
		across := 0
		for at := T; at < len(s); at += T {
			i := v.runeAt(at)
			if i < n && v.offs[i] < at {
				across++
			}
		}
		if across > 0 {
			c.Add("big_rune_across_multiple_of_mark", 1)
			if T >= 256 {
				c.Add("big_rune_across_multiple_of_256_or_more", 1)
			}
			if T >= 4096 {
				c.Add("big_rune_across_multiple_of_4096_or_more", 1)
			}
		}
	}
	// argument values: the rune indices around the multiples of T, the ends, a few anywhere
	var as []int
	for _, at := range []int{T, T * mult, T * (mult + 1), len(s) - T, len(s) - 1} {
		if at < 0 {
			continue
		}
		i := v.runeAt(at)
		as = append(as, i, i+1)
		if i > 0 {
			as = append(as, i-1)
		}
	}
	as = append(as, 0, 1, n-1, n, n+1, rng.Intn(n+1), rng.Intn(n+1))
	for i, a := range as {
		if a < 0 {
			as[i] = 0
		}
	}
	pick := func() int { return as[rng.Intn(len(as))] }

	if !k.revLen() || !k.casing() {
		return
	}
	beyond := 0
	for i := 0; i < 28; i++ {
		st := pick()
		var ln int
		switch rng.Intn(6) {
		case 0:
			ln = -1
		case 1:
			ln = hugeArg(rng, n)
		case 2:
			ln = rng.Intn(4)
		default: // the window ends at another interesting rune index
			e := pick()
			if e < st {
				st, e = e, st
			}
			ln = e - st
		}
		if st > v.runeAt(T) {
			beyond++
		}
		if !k.sub(st, ln) {
			return
		}
	}
	c.Add("big_sub_start_beyond_first_mark", int64(beyond))
	masks := []*maskSpec{
		newMask(singleMasksX[rng.Intn(len(singleMasksX))], n+4),
		newMask(multiMasksX[rng.Intn(len(multiMasksX))], 0),
	}
	for _, m := range masks {
		countMask(c, m.m)
	}
	for i := 0; i < 10; i++ {
		st := pick()
		en := n - pick() // the kept tail begins at an interesting rune index
		if en < 0 || rng.Chance(1, 6) {
			en = rng.Intn(4)
		}
		if rng.Chance(1, 8) {
			st = rng.Intn(3)
		}
		if !k.mask(masks[i%2], st, en) {
			return
		}
	}
	for i := 0; i < 10; i++ {
		a := pick()
		if a > n {
			a = n
		}
		lim := v.cw[a] + rng.Range(-1, 1)
		if i == 8 {
			lim = len(s) - 1
		}
		if i == 9 {
			lim = hugeArg(rng, n)
		}
		if lim < 0 {
			lim = 0
		}
		if !k.subByDisplay(lim) {
			return
		}
	}
	var mark rune = -1
	if i := v.runeAt(T); i < n {
		mark = v.runes[i]
	}
	for _, p := range []pred{
		{name: "non-ascii", fn: func(r rune) bool { return r >= utf8.RuneSelf }},
		{name: fmt.Sprintf("==rune-at-mark(%q)", mark), fn: func(r rune) bool { return r == mark }},
		{name: "==a", fn: func(r rune) bool { return r == 'a' }},
	} {
		if !k.removeRunes(p) {
			return
		}
	}
	c.Add("big_cases", 1)
	if len(s) >= 4096 {
		c.Add("big_cases_4096_bytes_or_more", 1)
	}
	if len(s) >= 65536 {
		c.Add("big_cases_65536_bytes_or_more", 1)
	}
	if !v.valid {
		c.Add("big_cases_invalid_utf8", 1)
	}
	c.Distinct(ev.Mix(8, ev.HashString(s)))
	if c.WantSample() && v.valid && len(s) >= 4096 {
		c.Sample(fmt.Sprintf("big/%s: %d bytes, %d runes, multi-byte runes around the multiples of %d: 28 Sub windows, 10 Mask cuts, 10 SubByDisplay limits at those rune indices, Rev, Len, 3 RemoveRunes predicates equal to the definitions", kind, len(s), n, T))
	}
}

// longIdentCase: identifiers whose length is near a power of two; the camel form is
// shorter than the identifier by one byte per '_' (minus nothing else), so the two sides
// of the round trip lie on different sides of the power of two.
func longIdentCase(c *ev.Case) {
	rng := c.Rng
	marks := []int{64, 128, 256, 512, 1024, 4096, 16384, 65536}
	T := marks[rng.Intn(len(marks))]
	segs := rng.Range(2, 40)
	if rng.Chance(1, 4) {
		segs = rng.Range(T/8, T/2) // many short segments
	}
	L := T + rng.Range(-2, segs+1) // the identifier is longer, its camel form not longer, than T (mostly)
	if L < 2*segs-1 {
		L = 2*segs - 1
	}
	// segs segments, each at least one letter, separated by '_', L bytes in all
	letters := L - (segs - 1)
	lens := make([]int, segs)
	for i := range lens {
		lens[i] = 1
	}
	for rest := letters - segs; rest > 0; {
		add := rng.Range(1, 1+rest/segs*2)
		if add > rest {
			add = rest
		}
		lens[rng.Intn(segs)] += add
		rest -= add
	}
	var b strings.Builder
	b.Grow(L)
	for i, ln := range lens {
		if i > 0 {
			b.WriteByte('_')
		}
		b.WriteByte(byte('a' + rng.Intn(26)))
		for j := 1; j < ln; j++ {
			if rng.Chance(1, 5) {
				b.WriteByte(byte('0' + rng.Intn(10)))
			} else {
				b.WriteByte(byte('a' + rng.Intn(26)))
			}
		}
	}
	x := b.String()
	if !inSnakeDomain(x) || len(x) != L {
		c.Run().HarnessFailure(fmt.Sprintf("long-ident generator: %d bytes wanted, %d made, in domain %v", L, len(x), inSnakeDomain(x)))
		return
	}
	for _, up := range []bool{false, true} {
		var cam, back string
		if !c.Guard("SnakeToCamelCase", func() { cam = strz.SnakeToCamelCase(x, up) }) {
			c.Witness = fmt.Sprintf("SnakeToCamelCase(%q, %v) panics", qs(x), up)
			return
		}
		if !c.Guard("CamelCaseToSnake", func() { back = strz.CamelCaseToSnake(cam) }) {
			c.Witness = fmt.Sprintf("CamelCaseToSnake(%q) panics (camel form of a %d-byte identifier with %d segments)", qs(cam), len(x), segs)
			return
		}
		c.Logf("SnakeToCamelCase(%q, %v) -> %q -> CamelCaseToSnake -> %q", qs(x), up, qs(cam), qs(back))
		c.Add("long_ident_roundtrips", 1)
		if len(cam) <= T && len(x) > T {
			c.Add("long_ident_camel_not_longer_snake_longer_than_mark", 1)
			if T >= 256 {
				c.Add("long_ident_across_256_or_more", 1)
			}
		}
		if back != x {
			c.Failf("roundtrip/long", "CamelCaseToSnake(SnakeToCamelCase(%q, %v)) = %q (%d-byte identifier, %d segments, camel form %d bytes)", qs(x), up, qs(back), len(x), segs, len(cam))
			return
		}
	}
	c.Max("long_ident_max_bytes", int64(len(x)))
	c.Max("long_ident_max_segments", int64(segs))
	c.Distinct(ev.Mix(9, ev.HashString(x)))
	if c.WantSample() && T <= 128 {
		c.Sample(fmt.Sprintf("long-ident: %q (%d bytes, %d segments) -> camel -> back to the identifier, for both values of firstUp", x, len(x), segs))
	}
}

// ------------------------------------------------------------------ cold start

var coldKinds = []string{"Sub", "Mask", "SubByDisplay", "RemoveRunes", "Rev", "Len", "roundtrip", "UcFirst", "LcFirst", "CamelCaseToSnake", "Sub-to-end", "Mask-multi"}

// coldCase runs alone in a freshly started process: the first golib call of the
// process is the one named by the kind.
func coldCase(c *ev.Case) {
	rng := c.Rng
	kind := coldKinds[c.Index%len(coldKinds)]
	// a string with every width in it, multi-byte runes first and last
	rs := []rune{pickRune(rng, rng.Range(2, 4))}
	for i := 0; i < rng.Range(3, 9); i++ {
		rs = append(rs, pickRune(rng, rng.Range(1, 4)))
	}
	rs = append(rs, pickRune(rng, 1), pickRune(rng, rng.Range(2, 4)))
	s := string(rs)
	k := newChk(c, s, "/cold")
	defer k.flush()
	n := k.v.n()
	c.Logf("cold start: first call of the process is %s on %q", kind, s)
	ok := true
	switch kind {
	case "Sub":
		ok = k.sub(1, n-2)
	case "Sub-to-end":
		ok = k.sub(rng.Range(1, n-1), -1)
	case "Mask":
		ok = k.mask(newMask("*", n+4), 1, 1)
	case "Mask-multi":
		ok = k.mask(newMask("世界", 0), rng.Range(1, 2), rng.Range(1, 2))
	case "SubByDisplay":
		ok = k.subByDisplay(k.v.cw[n] - 1)
	case "RemoveRunes":
		ok = k.removeRunes(pred{name: "ascii", fn: func(r rune) bool { return r < utf8.RuneSelf }})
	case "Rev":
		ok = k.revLen()
	case "Len":
		var got int
		if !c.Guard("Len", func() { got = strz.Len(s) }) {
			return
		}
		if got != n {
			c.Failf("len/cold", "Len(%q) = %d as the first call of the process, the string has %d runes", s, got, n)
			return
		}
	case "roundtrip":
		roundtripCase(c)
		ok = !c.Failed()
	case "UcFirst":
		ok = c.Guard("UcFirst", func() { strz.UcFirst(s); strz.UcFirst("élan"); strz.UcFirst("x") })
	case "LcFirst":
		ok = c.Guard("LcFirst", func() { strz.LcFirst(s); strz.LcFirst("Élan"); strz.LcFirst("X") })
	case "CamelCaseToSnake":
		ok = c.Guard("CamelCaseToSnake", func() { strz.CamelCaseToSnake(s); strz.CamelCaseToSnake("fooBar世Baz") })
	}
	if !ok || c.Failed() {
		return
	}
	c.Add("cold_start_first_call_"+kind, 1)
	// then everything else, on this and two more strings
	if !k.all(true) {
		return
	}
	for i := 0; i < 2; i++ {
		s2, _ := genValid(rng)
		if !newChk(c, s2, "/cold").all(false) {
			return
		}
	}
	roundtripCase(c)
	if c.Failed() {
		return
	}
	c.Add("cold_start_cases", 1)
	c.Distinct(ev.Mix(10, ev.HashString(s), uint64(c.Index)))
	if c.WantSample() {
		c.Sample(fmt.Sprintf("cold-start: fresh process, first golib call %s on %q, then every helper over the argument grid on it and two more strings, then a round trip", kind, s))
	}
}
