// C17 — Rune-aware string helpers never split a rune and match rune-slice definitions.
//
// Differential monitor: strz.Sub / Mask / SubByDisplay / Rev / Len / RemoveRunes are
// run on generated strings over the whole argument grid 0..len+3 (and -1 for Sub) and
// every result is compared with a definition written on []rune. Arbitrary byte strings
// (invalid bytes, truncated sequences at the cut positions) must not make any of the ten
// helpers panic. CamelCaseToSnake(SnakeToCamelCase(x, up)) = x over the snake_case domain.
package main

import (
	"fmt"
	"math"
	"unicode/utf8"

	"github.com/welllog/golib/strz"

	"verif/ev"
)

// validCase: one valid UTF-8 string, the whole argument grid, all six rune-aware helpers.
func validCase(c *ev.Case) {
	s, style := genValid(c.Rng)
	if !utf8.ValidString(s) {
		c.Run().HarnessFailure(fmt.Sprintf("generator %s produced invalid UTF-8 %q", style, s))
		return
	}
	k := newChk(c, s, "")
	c.Add("valid_style_"+style, 1)
	ok := k.all(false)
	if k.v.n() >= 2 && widthsSeen(s) >= 2 {
		c.Distinct(ev.Mix(1, ev.HashString(s)))
	}
	if ok && c.WantSample() && k.v.n() >= 4 && widthsSeen(s) >= 3 {
		c.Sample(fmt.Sprintf("valid/%s: %q (%d runes, %d bytes): Sub over start,length in 0..%d and -1; Mask over start,end in 0..%d with a single-rune and a multi-rune mask; SubByDisplay over limit 0..%d; Rev; Len; RemoveRunes with 11 predicates — all equal to the []rune definitions", style, s, k.v.n(), len(s), k.v.n()+3, k.v.n()+3, k.v.cw[k.v.n()]+3))
	}
}

// hostileCase: one arbitrary byte string; nothing may panic (valid ones are also compared).
func hostileCase(c *ev.Case) {
	s, style := genHostile(c.Rng)
	k := newChk(c, s, "")
	c.Add("hostile_style_"+style, 1)
	ok := k.all(true)
	if !k.v.valid {
		c.Distinct(ev.Mix(2, ev.HashString(s)))
	}
	if ok && c.WantSample() && !k.v.valid && k.v.n() >= 3 {
		c.Sample(fmt.Sprintf("hostile/%s: %q (%d bytes, %d invalid bytes): all ten helpers over the argument grid 0..%d, no panic", style, s, len(s), k.v.ninv, k.v.n()+3))
	}
}

// smallCase: the idx-th string over a 9-token alphabet (exhaustive up to a length).
func smallCase(c *ev.Case) {
	s := smallString(c.Index)
	k := newChk(c, s, "")
	ok := k.all(true)
	if k.v.n() >= 2 {
		c.Distinct(ev.Mix(3, ev.HashString(s)))
	}
	c.Add("small_exhaustive_strings", 1)
	if ok && c.WantSample() && c.Index%977 == 5 {
		c.Sample(fmt.Sprintf("small[%d]: %q (valid UTF-8: %v): all ten helpers over the argument grid 0..%d", c.Index, s, k.v.valid, k.v.n()+3))
	}
}

// roundtripCase: CamelCaseToSnake(SnakeToCamelCase(x, up)) = x for both values of up.
func roundtripCase(c *ev.Case) {
	x := genSnake(c.Rng)
	if !inSnakeDomain(x) {
		c.Run().HarnessFailure(fmt.Sprintf("snake generator left the domain: %q", x))
		return
	}
	segs, digits, single := 1, 0, 0
	segLen := 0
	initA, initZ := false, false // a segment begins with the first / the last letter of the alphabet
	for i := 0; i <= len(x); i++ {
		if i < len(x) && segLen == 0 {
			initA = initA || x[i] == 'a'
			initZ = initZ || x[i] == 'z'
		}
		if i == len(x) || x[i] == '_' {
			if segLen == 1 {
				single++
			}
			segLen = 0
			if i < len(x) {
				segs++
			}
			continue
		}
		segLen++
		if x[i] >= '0' && x[i] <= '9' {
			digits++
		}
	}
	for _, up := range []bool{false, true} {
		var cam, back string
		if !c.Guard("SnakeToCamelCase", func() { cam = strz.SnakeToCamelCase(x, up) }) {
			return
		}
		c.Logf("SnakeToCamelCase(%q, %v) -> %q", x, up, cam)
		if !c.Guard("CamelCaseToSnake", func() { back = strz.CamelCaseToSnake(cam) }) {
			return
		}
		c.Logf("CamelCaseToSnake(%q) -> %q", cam, back)
		c.Add("roundtrips", 1)
		if up {
			c.Add("roundtrips_first_up", 1)
		}
		if back != x {
			c.Failf("roundtrip", "CamelCaseToSnake(SnakeToCamelCase(%q, %v)) = %q (camel form %q)", x, up, back, cam)
			return
		}
		// the first-letter helpers on the same material: must not panic
		var u, l string
		if !c.Guard("UcFirst", func() { u = strz.UcFirst(cam) }) || !c.Guard("LcFirst", func() { l = strz.LcFirst(cam) }) {
			return
		}
		c.Logf("UcFirst(%q) -> %q, LcFirst -> %q", cam, u, l)
		// ... and must not turn the (ASCII) camel form into something that is not valid UTF-8
		c.Add("roundtrip_first_letter_helpers_judged_valid_utf8", 1)
		if !utf8.ValidString(u) {
			c.Failf("ucfirst-splits-rune", "UcFirst(%q) = %q which is not valid UTF-8 although the argument is", cam, u)
			return
		}
		if !utf8.ValidString(l) {
			c.Failf("lcfirst-splits-rune", "LcFirst(%q) = %q which is not valid UTF-8 although the argument is", cam, l)
			return
		}
	}
	if initA {
		c.Add("roundtrip_segment_begins_with_a", 1)
	}
	if initZ {
		c.Add("roundtrip_segment_begins_with_z", 1)
	}
	if segs >= 2 {
		c.Add("roundtrip_multi_segment", 1)
		c.Distinct(ev.Mix(4, ev.HashString(x)))
	}
	if digits > 0 {
		c.Add("roundtrip_with_digits", 1)
	}
	if single > 0 {
		c.Add("roundtrip_single_letter_segment", 1)
	}
	if segs == 1 {
		c.Add("roundtrip_one_segment", 1)
	}
	c.Max("max_snake_segments", int64(segs))
	if c.WantSample() && segs >= 3 {
		c.Sample(fmt.Sprintf("roundtrip: %q -> %q / %q -> back to the identifier", x, strz.SnakeToCamelCase(x, false), strz.SnakeToCamelCase(x, true)))
	}
}

const maxInt = math.MaxInt

// hugeArg draws an argument far beyond any string length (around the int and
// 32-bit limits). Values between 2^33 and 2^62 are left out on purpose: if an
// implementation derives an allocation size from them the harness process
// would be killed by the kernel instead of observing a result.
func hugeArg(rng *ev.Rand, l int) int {
	switch rng.Intn(8) {
	case 0, 1:
		return maxInt
	case 2:
		return maxInt - rng.Intn(l+6)
	case 3:
		return maxInt - 1
	case 4:
		return 1<<62 + rng.Intn(3)
	case 5:
		return 1<<31 - 1 + rng.Intn(3)
	case 6:
		return 1<<32 - 1 + rng.Intn(3)
	default:
		return maxInt - rng.Intn(3)
	}
}

// hugeCase: arguments far beyond the string length on short valid strings.
func hugeCase(c *ev.Case) {
	rng := c.Rng
	var s string
	if rng.Chance(1, 4) {
		// "arguments beyond the string length" and "strings that are not valid UTF-8" together
		s = "世\xff"
		for tries := 0; tries < 20; tries++ {
			t, _ := genHostile(rng)
			if len(t) <= 24 && !utf8.ValidString(t) {
				s = t
				break
			}
		}
		c.Add("hugearg_cases_invalid_utf8", 1)
	} else {
		for tries := 0; tries < 20; tries++ {
			s, _ = genValid(rng)
			if utf8.RuneCountInString(s) <= 10 {
				break
			}
			s = ""
		}
	}
	k := newChk(c, s, "/hugearg")
	defer k.flush()
	l := k.v.n()
	// an argument is huge (see hugeArg), or beyond the rune count by more than the grid of the
	// other engines goes (the byte length and its neighbours, twice the byte length, up to
	// 2^20), or inside 0..l+3
	arg := func(hugeP int) (int, bool) {
		if rng.Intn(4) < hugeP {
			return hugeArg(rng, l), true
		}
		if rng.Chance(1, 3) {
			c.Add("hugearg_midrange_args", 1)
			switch rng.Intn(6) {
			case 0:
				return len(s) + rng.Intn(2), true
			case 1:
				return 2*len(s) + rng.Intn(3), true
			case 2:
				return l + 4 + rng.Intn(60), true
			case 3:
				return rng.Pick(255, 256, 257, 65535, 65536, 65537), true
			case 4:
				return 1<<20 - rng.Intn(3), true
			default:
				return l + 4 + rng.Intn(3*len(s)+8), true
			}
		}
		return rng.Intn(l + 4), false
	}
	masks := []*maskSpec{newMask(singleMasks[rng.Intn(len(singleMasks))], l+4), newMask(multiMasks[rng.Intn(len(multiMasks))], 0)}
	for i := 0; i < 24; i++ {
		a, ha := arg(2)
		b, hb := arg(2)
		if !ha && !hb {
			b, hb = hugeArg(rng, l), true
		}
		// Sub
		ln := b
		if rng.Chance(1, 8) {
			ln = -1
		}
		if !k.sub(a, ln) {
			return
		}
		c.Add("hugearg_calls", 1)
		// SubByDisplay
		if hb && !k.subByDisplay(b) {
			return
		}
		// Mask. Protective guard (not an oracle): skip argument pairs for which a
		// wrapped "l - start - end" would be a plausible allocation size, see hugeArg.
		if w := l - a - b; w > 1<<20 && w < 1<<50 {
			c.Add("hugearg_mask_skipped_alloc_guard", 1)
			continue
		}
		for _, m := range masks {
			if !k.mask(m, a, b) {
				return
			}
			c.Add("hugearg_calls", 1)
			if a >= 1<<31-1 && b >= 1<<31-1 {
				c.Add("hugearg_mask_both_huge", 1)
			}
		}
	}
	c.Distinct(ev.Mix(5, ev.HashString(s), rng.Uint64()))
	if c.WantSample() && l >= 2 {
		c.Sample(fmt.Sprintf("hugearg: %q with start/length/end/limit drawn from {MaxInt-k, 2^62+k, 2^31±1, 2^32±1}, {byte length, twice the byte length, 2^8±1, 2^16±1, 2^20-k, rune count + 4..} and 0..%d: Sub, SubByDisplay, Mask equal to the []rune definitions (no panic when the string is not valid UTF-8)", s, l+3))
	}
}

func main() {
	r := ev.New("C17")
	r.Rule("one case = one generated string (valid UTF-8 assembled from 1/2/3/4-byte runes incl. the first/last code point of each width and U+FFFD; or an arbitrary byte string with invalid bytes, truncated/overlong/surrogate sequences, byte-sliced or damaged valid strings; or the idx-th string over a 9-token alphabet; or a snake_case identifier) on which every helper is called over the whole argument grid 0..len+3 (-1 for Sub's length; boundary values plus a sample for strings longer than 12 runes; hugearg: short valid and invalid strings with arguments at the byte length, twice the byte length, 2^8, 2^16, 2^20, 2^31, 2^32, 2^62 and MaxInt); distinct = distinct string; non-trivial = valid string with >= 2 runes of >= 2 different byte widths, or a string that is not valid UTF-8, or an identifier with >= 2 segments; added histories (strength.go): kept and kept-serial (one case at a time) = 2-4 strings (independent, differing in one rune, of one byte length, carved out of one arena, or a string with its own prefix / suffix / inner part) used alternately for 12-48 calls whose results are all judged again after the last call and a churn of same-sized calls, inputs compared with a private copy, masks that are (part of) the input or contain U+FFFD; callback = RemoveRunes predicates that panic on a chosen rune followed by healthy calls, and predicates that call every helper (RemoveRunes included) while the outer call runs; big = strings of 8 bytes to 192 KiB (1.5 MiB thorough) with multi-byte runes or invalid bytes across the multiples of every power of two, arguments at those rune indices and at MaxInt; long-ident = identifiers of 60-66000 bytes whose camel form is not longer and whose snake form is longer than a power of two; cold-start = one fresh process per case whose first golib call is each helper in turn")
	r.Assume("a string is a value: a result that was equal to its definition when returned is judged against the same definition again at the end of the case, and an argument string must read the same after the calls; a predicate's own panic travelling back to the caller of RemoveRunes is not judged, the calls after it are; a predicate that calls strz helpers is an ordinary pure predicate")
	r.Assume("unicode/utf8 (ValidString, DecodeRuneInString, RuneLen) and the Go []rune / strings.Builder.WriteRune conversions are correct; the definitions are evaluated on the decoded rune slice and its byte offsets")
	r.Assume("for strings that are not valid UTF-8 only 'no panic' is judged; UcFirst/LcFirst/SnakeToCamelCase/CamelCaseToSnake are judged for 'no panic', for 'the result of a valid UTF-8 argument is valid UTF-8' (never split a rune; which letters they re-case is not judged) and for the round trip over [a-z][a-z0-9]*(_[a-z][a-z0-9]*)* only")
	r.Assume("an empty mask is neither 'one mask rune' nor 'a multi-rune mask': for it only the kept first/last runes and UTF-8 validity are judged; a mask that is not valid UTF-8 applied to a valid string: only the kept first/last runes are judged (the whole string when they cover it)")

	small := smallCount(4)
	if r.Thorough() {
		small = smallCount(6)
	}
	r.Cases("small-exhaustive", small, ev.Opt{HangViolation: true}, smallCase)
	r.Cases("valid", r.N(500000, 12000000), ev.Opt{HangViolation: true}, validCase)
	// the same workload on parallel workers under the race detector: package-level state shared
	// between instances that no goroutine shares is reported from the happens-before relation,
	// whether or not the accesses collide in this run (and however loaded the machine is)
	r.CasesProc("valid/race-parallel", r.N(4000, 100000), ev.Opt{Bin: "race", Procs: 2, Workers: 8, AlwaysLog: true, HangViolation: true, MaxCaseSeconds: 120}, validCase)
	r.CasesProc("roundtrip/race-parallel", r.N(1500, 40000), ev.Opt{Bin: "race", Procs: 2, Workers: 8, AlwaysLog: true, HangViolation: true, MaxCaseSeconds: 120}, roundtripCase)
	r.Cases("hostile", r.N(500000, 12000000), ev.Opt{HangViolation: true}, hostileCase)
	r.Cases("roundtrip", r.N(150000, 5000000), ev.Opt{HangViolation: true}, roundtripCase)
	r.Cases("hugearg", r.N(50000, 1500000), ev.Opt{HangViolation: true}, hugeCase)

	// added histories (strength.go)
	r.Cases("kept", r.N(40000, 1500000), ev.Opt{HangViolation: true}, keptCase)
	// the same histories one case at a time: nothing else in the process calls golib in between
	r.Cases("kept-serial", r.N(8000, 200000), ev.Opt{HangViolation: true, Serial: true}, keptCase)
	r.Cases("callback", r.N(40000, 1500000), ev.Opt{HangViolation: true, MaxCaseSeconds: 25}, callbackCase)
	r.Cases("big", r.N(1600, 12000), ev.Opt{HangViolation: true}, bigCase)
	r.Cases("long-ident", r.N(1600, 40000), ev.Opt{HangViolation: true}, longIdentCase)
	// helpers that remember something under an argument's address: collected strings whose block is reused (gcreuse.go)
	r.CasesProc("gc-reuse", r.N(16, 160), ev.Opt{Procs: 4, Workers: 1, HangViolation: true, MaxCaseSeconds: 300}, gcReuseCase)
	r.Require("gc_reuse_rounds", 1500)
	cold := r.N(24, 48)
	r.CasesProc("cold-start", cold, ev.Opt{Procs: cold, HangViolation: true}, coldCase)

	r.Require("results_compared_with_rune_model", 1000000)
	r.Require("calls_Sub", 1000000)
	r.Require("calls_Mask", 1000000)
	r.Require("calls_SubByDisplay", 100000)
	r.Require("calls_RemoveRunes", 100000)
	r.Require("calls_Rev", 10000)
	r.Require("calls_Len", 10000)
	for _, k := range []string{"sub_start_on_2byte_rune", "sub_start_on_3byte_rune", "sub_start_on_4byte_rune",
		"sub_end_before_2byte_rune", "sub_end_before_3byte_rune", "sub_end_before_4byte_rune",
		"sub_start_at_or_beyond_len", "sub_end_beyond_len", "sub_length_minus1",
		"mask_nothing_to_replace", "mask_whole_string", "mask_single_rune_mask", "mask_multi_rune_mask", "mask_end_zero", "mask_start_zero", "mask_cut_next_to_multibyte_rune",
		"sbd_limit_covers_whole", "sbd_limit_falls_inside_wide_rune", "sbd_exact_fit_cut", "sbd_cut_after_multibyte_rune",
		"removerunes_none_removed", "removerunes_all_removed", "removerunes_first_removed_at_0", "removerunes_first_removed_later", "removerunes_only_last_removed",
		"invalid_utf8_inputs", "sub_cut_at_invalid_byte", "sbd_invalid_byte_before_cut", "invalid_truncated_tail"} {
		r.Require(k, 5000)
	}
	r.Require("calls_on_invalid_utf8", 1000000)
	// clause-coverage floors added by the audit: every sub-case a clause quantifies over
	// (argument classes, rune widths at the cut, the helper called, the generator style)
	// has a counter of its own, so that none of them can silently stop being produced
	for _, k := range []string{"sub_length_zero", "sub_start_on_1byte_rune", "sub_end_before_1byte_rune", "sub_end_exactly_at_len",
		"mask_empty_mask", "mask_start_at_or_beyond_len", "mask_end_at_or_beyond_len", "mask_start_plus_end_equals_len", "mask_start_plus_end_exceeds_len",
		"mask_single_multibyte_rune_mask",
		"mask_first_replaced_rune_1byte", "mask_first_replaced_rune_2byte", "mask_first_replaced_rune_3byte", "mask_first_replaced_rune_4byte",
		"mask_last_replaced_rune_1byte", "mask_last_replaced_rune_2byte", "mask_last_replaced_rune_3byte", "mask_last_replaced_rune_4byte",
		"mask_invalid_mask_on_valid_string_judged", "mask_invalid_mask_on_valid_string_replacing", "mask_cut_at_invalid_byte",
		"sbd_limit_zero",
		"sbd_rune_that_does_not_fit_1byte", "sbd_rune_that_does_not_fit_2byte", "sbd_rune_that_does_not_fit_3byte", "sbd_rune_that_does_not_fit_4byte",
		"sbd_last_rune_that_fits_1byte", "sbd_last_rune_that_fits_2byte", "sbd_last_rune_that_fits_3byte", "sbd_last_rune_that_fits_4byte",
		"removerunes_removed_1byte_rune", "removerunes_removed_2byte_rune", "removerunes_removed_3byte_rune", "removerunes_removed_4byte_rune",
		"removerunes_kept_after_first_removal_1byte_rune", "removerunes_kept_after_first_removal_2byte_rune", "removerunes_kept_after_first_removal_3byte_rune", "removerunes_kept_after_first_removal_4byte_rune",
		"removerunes_invalid_byte_removed", "removerunes_invalid_byte_kept_after_first_removal",
		"empty_string_inputs", "valid_inputs_containing_U+FFFD",
		"casing_first_rune_multibyte", "casing_first_byte_lower_ascii", "casing_first_byte_upper_ascii", "casing_multibyte_rune_in_recased_string",
		"roundtrip_one_segment", "roundtrip_segment_begins_with_a", "roundtrip_segment_begins_with_z",
		"hugearg_cases_invalid_utf8"} {
		r.Require(k, 5000)
	}
	for _, k := range []string{"calls_UcFirst", "calls_LcFirst", "calls_SnakeToCamelCase", "calls_CamelCaseToSnake",
		"invalid_calls_Sub", "invalid_calls_Mask", "invalid_calls_SubByDisplay", "invalid_calls_Rev", "invalid_calls_Len", "invalid_calls_RemoveRunes",
		"invalid_calls_UcFirst", "invalid_calls_LcFirst", "invalid_calls_SnakeToCamelCase", "invalid_calls_CamelCaseToSnake",
		"casing_results_judged_valid_utf8", "roundtrip_first_letter_helpers_judged_valid_utf8", "hugearg_midrange_args"} {
		r.Require(k, 100000)
	}
	r.Require("roundtrips_first_up", 25000)
	for _, st := range []string{"mix", "one-width", "ascii+wide", "wide+ascii", "few-distinct", "pattern", "random-codepoints", "long"} {
		r.Require("valid_style_"+st, 20000)
	}
	for _, st := range []string{"mixed-fragments", "byte-slice", "one-byte-damage", "random-bytes", "wide-then-invalid", "invalid-then-valid", "casing-junk", "long"} {
		r.Require("hostile_style_"+st, 20000)
	}
	r.Require("small_exhaustive_strings", int64(smallCount(4)))
	for _, kd := range []string{"one-wide-rune", "wide-rune-at-each-multiple", "dense", "one-width", "ascii-wide-last", "invalid-at-multiples"} {
		r.Require("big_kind_"+kd, 50)
	}
	r.Require("roundtrips", 50000)
	r.Require("roundtrip_multi_segment", 10000)
	r.Require("roundtrip_with_digits", 5000)
	r.Require("roundtrip_single_letter_segment", 5000)
	r.Require("hugearg_calls", 100000)
	r.Require("hugearg_mask_both_huge", 10000)
	r.Require("kept_cases", 20000)
	r.Require("kept_views_of_one_string_cases", 3000)
	r.Require("kept_same_call_on_two_strings_in_a_row", 100000)
	r.Require("kept_results_rejudged", 500000)
	r.Require("kept_inputs_compared_with_copy", 50000)
	r.Require("kept_camel_forms_converted_later", 20000)
	r.Require("kept_mask_is_input_or_part_of_it", 20000)
	r.Require("kept_arena_cases", 5000)
	r.Require("kept_sibling_cases", 2000)
	r.Require("kept_same_byte_length_cases", 5000)
	r.Require("mask_is_single_U+FFFD", 5000)
	r.Require("mask_multi_with_U+FFFD", 5000)
	r.Require("callback_cases", 20000)
	r.Require("callback_predicate_panics", 20000)
	r.Require("callback_panic_after_first_removal", 3000)
	r.Require("callback_panic_before_first_removal", 3000)
	r.Require("callback_healthy_removerunes_after_panic", 100000)
	r.Require("callback_reentrant_predicates", 20000)
	r.Require("callback_reentrant_calls", 100000)
	r.Require("callback_nested_removerunes", 10000)
	r.Require("big_cases", 1000)
	r.Require("big_cases_4096_bytes_or_more", 300)
	r.Require("big_cases_65536_bytes_or_more", 50)
	r.Require("big_rune_across_multiple_of_256_or_more", 200)
	r.Require("big_rune_across_multiple_of_4096_or_more", 100)
	r.Require("big_sub_start_beyond_first_mark", 5000)
	r.Require("big_cases_invalid_utf8", 50)
	r.Require("long_ident_roundtrips", 2000)
	r.Require("long_ident_across_256_or_more", 500)
	r.Require("cold_start_cases", 24)
	for _, k := range coldKinds {
		r.Require("cold_start_first_call_"+k, 2)
	}
	r.Finish()
}
