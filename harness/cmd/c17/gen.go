package main

import (
	"strings"
	"unicode/utf8"

	"verif/ev"
)

// rune pools by encoded width; the first and last code point of every width,
// U+FFFD itself (a *valid* 3-byte rune), neighbours of the surrogate gap,
// combining / zero-width / full-width characters.
var pools = [5][]rune{
	nil,
	{'a', 'b', 'Z', '0', '9', ' ', '_', '~', 0x00, 0x7f, '\n', 'a', 'a'},
	{0x80, 0xe9, 0xdf, 0x7ff, 0x3a9, 0x301, 0xe9},
	{0x800, '世', '界', '你', 0xfffd, 0xffff, 0xd7ff, 0xe000, 0x20ac, 0x200d, 0xff21, '世'},
	{0x10000, 0x1f600, 0x10ffff, 0x1f468, 0x1f600},
}

func randRuneOfWidth(rng *ev.Rand, w int) rune {
	switch w {
	case 1:
		return rune(rng.Intn(0x80))
	case 2:
		return rune(0x80 + rng.Intn(0x800-0x80))
	case 3:
		for {
			r := rune(0x800 + rng.Intn(0x10000-0x800))
			if r < 0xd800 || r > 0xdfff {
				return r
			}
		}
	default:
		return rune(0x10000 + rng.Intn(0x110000-0x10000))
	}
}

func pickRune(rng *ev.Rand, w int) rune {
	if rng.Chance(1, 5) {
		return randRuneOfWidth(rng, w)
	}
	p := pools[w]
	return p[rng.Intn(len(p))]
}

// genValid builds a valid UTF-8 string; style says which generator was used.
func genValid(rng *ev.Rand) (string, string) {
	var b strings.Builder
	n := rng.Pick(0, 1, 1, 2, 2, 3, 3, 4, 5, 6, 7, 8, 9, 10, 11, 12)
	switch rng.Intn(9) {
	case 0, 1: // uniform mix of widths
		for i := 0; i < n; i++ {
			b.WriteRune(pickRune(rng, rng.Range(1, 4)))
		}
		return b.String(), "mix"
	case 2: // one width only
		w := rng.Range(1, 4)
		for i := 0; i < n; i++ {
			b.WriteRune(pickRune(rng, w))
		}
		return b.String(), "one-width"
	case 3: // ASCII with one or two multi-byte runes at chosen positions (front, inner, back)
		rs := make([]rune, n)
		for i := range rs {
			rs[i] = pickRune(rng, 1)
		}
		if n > 0 {
			for k := 0; k < rng.Range(1, 2); k++ {
				pos := rng.Pick(0, n-1, rng.Intn(n))
				rs[pos] = pickRune(rng, rng.Range(2, 4))
			}
		}
		return string(rs), "ascii+wide"
	case 4: // multi-byte with one or two ASCII
		rs := make([]rune, n)
		for i := range rs {
			rs[i] = pickRune(rng, rng.Range(2, 4))
		}
		if n > 0 {
			for k := 0; k < rng.Range(1, 2); k++ {
				rs[rng.Pick(0, n-1, rng.Intn(n))] = pickRune(rng, 1)
			}
		}
		return string(rs), "wide+ascii"
	case 5: // two or three distinct runes only (duplicates: first == last, runs)
		k := rng.Range(1, 3)
		al := make([]rune, k)
		for i := range al {
			al[i] = pickRune(rng, rng.Range(1, 4))
		}
		for i := 0; i < n; i++ {
			b.WriteRune(al[rng.Intn(k)])
		}
		return b.String(), "few-distinct"
	case 6: // widths in a pattern: ascending, descending, alternating 1/k
		pat := rng.Intn(3)
		for i := 0; i < n; i++ {
			var w int
			switch pat {
			case 0:
				w = 1 + i%4
			case 1:
				w = 4 - i%4
			default:
				w = 1
				if i%2 == 1 {
					w = rng.Range(2, 4)
				}
			}
			b.WriteRune(pickRune(rng, w))
		}
		return b.String(), "pattern"
	case 7: // random code points of the whole range
		for i := 0; i < n; i++ {
			b.WriteRune(randRuneOfWidth(rng, rng.Range(1, 4)))
		}
		return b.String(), "random-codepoints"
	default: // long
		n = rng.Range(13, 90)
		wide := rng.Intn(4)
		for i := 0; i < n; i++ {
			w := 1
			if rng.Intn(4) < wide {
				w = rng.Range(2, 4)
			}
			b.WriteRune(pickRune(rng, w))
		}
		return b.String(), "long"
	}
}

// fragments that are not valid UTF-8 on their own
var badFrags = []string{
	"\x80", "\xbf", "\xc0", "\xc1", "\xf5", "\xfe", "\xff", // never valid
	"\xc3", "\xe4", "\xe4\xb8", "\xf0", "\xf0\x9f", "\xf0\x9f\x98", // truncated sequences
	"\xc0\xaf", "\xe0\x80\xaf", "\xf0\x80\x80\xaf", // overlong
	"\xed\xa0\x80", "\xed\xbf\xbf", // surrogates
	"\xf4\x90\x80\x80", // beyond U+10FFFF
	"\xff\xff", "\xff\xff\xff",
}

var caseToks = []string{"_", "_", "__", "a", "b", "z", "A", "B", "Z", "0", "9", "é", "世", "\xff", "\xe4\xb8", "\U0001F600", "ab", "Ab", "aB", "AB", "a1", "_a", "_A", "a_", "_1"}

// genHostile builds an arbitrary byte string.
func genHostile(rng *ev.Rand) (string, string) {
	var b strings.Builder
	n := rng.Pick(1, 1, 2, 2, 3, 3, 4, 5, 6, 7, 8, 10)
	switch rng.Intn(9) {
	case 0, 1: // valid runes and invalid fragments mixed
		for i := 0; i < n; i++ {
			if rng.Chance(1, 3) {
				b.WriteString(badFrags[rng.Intn(len(badFrags))])
			} else {
				b.WriteRune(pickRune(rng, rng.Range(1, 4)))
			}
		}
		return b.String(), "mixed-fragments"
	case 2: // a valid string cut at an arbitrary byte (truncated sequence at the end and/or continuation bytes at the front)
		s, _ := genValid(rng)
		if len(s) == 0 {
			return "\xe4\xb8", "byte-slice"
		}
		i, j := 0, len(s)
		if rng.Bool() {
			j = rng.Range(1, len(s))
		}
		if rng.Chance(1, 3) {
			i = rng.Intn(j)
		}
		return s[i:j], "byte-slice"
	case 3: // a valid string with one byte overwritten / inserted / deleted
		s, _ := genValid(rng)
		bs := []byte(s)
		if len(bs) == 0 {
			return "\xff", "one-byte-damage"
		}
		p := rng.Intn(len(bs))
		switch rng.Intn(3) {
		case 0:
			bs[p] = byte(rng.Pick(0x80, 0xbf, 0xc0, 0xe4, 0xf0, 0xff, rng.Intn(256)))
		case 1:
			bs = append(bs[:p], append([]byte{byte(rng.Pick(0x80, 0xff, 0xe4, 0xf0, rng.Intn(256)))}, bs[p:]...)...)
		default:
			bs = append(bs[:p], bs[p+1:]...)
		}
		return string(bs), "one-byte-damage"
	case 4: // pure random bytes
		return string(rng.Bytes(rng.Range(1, 14))), "random-bytes"
	case 5: // multi-byte runes first, invalid bytes at the very end (byte length of an invalid byte matters most here)
		for i := 0; i < n; i++ {
			b.WriteRune(pickRune(rng, rng.Range(2, 4)))
		}
		for i := 0; i < rng.Range(1, 3); i++ {
			b.WriteString(badFrags[rng.Intn(len(badFrags))])
		}
		if rng.Chance(1, 3) {
			b.WriteRune(pickRune(rng, rng.Range(1, 4)))
		}
		return b.String(), "wide-then-invalid"
	case 6: // invalid bytes first
		for i := 0; i < rng.Range(1, 3); i++ {
			b.WriteString(badFrags[rng.Intn(len(badFrags))])
		}
		for i := 0; i < n; i++ {
			b.WriteRune(pickRune(rng, rng.Range(1, 4)))
		}
		return b.String(), "invalid-then-valid"
	case 7: // snake / camel shaped junk for the re-casing helpers
		for i := 0; i < n; i++ {
			b.WriteString(caseToks[rng.Intn(len(caseToks))])
		}
		return b.String(), "casing-junk"
	default: // long
		for i := 0; i < rng.Range(13, 60); i++ {
			if rng.Chance(1, 6) {
				b.WriteString(badFrags[rng.Intn(len(badFrags))])
			} else {
				b.WriteRune(pickRune(rng, rng.Range(1, 4)))
			}
		}
		return b.String(), "long"
	}
}

// genSnake builds an identifier of the domain [a-z][a-z0-9]*(_[a-z][a-z0-9]*)*.
func genSnake(rng *ev.Rand) string {
	var b strings.Builder
	segs := rng.Pick(1, 1, 2, 2, 3, 3, 4, 5, 8)
	style := rng.Intn(4)
	for i := 0; i < segs; i++ {
		if i > 0 {
			b.WriteByte('_')
		}
		b.WriteByte(byte('a' + rng.Intn(26)))
		var tail int
		switch style {
		case 0:
			tail = 0 // single-letter segments: a_b_c
		case 1:
			tail = rng.Range(0, 2)
		default:
			tail = rng.Range(0, 7)
		}
		for j := 0; j < tail; j++ {
			if rng.Chance(1, 4) || style == 3 && rng.Bool() {
				b.WriteByte(byte('0' + rng.Intn(10)))
			} else {
				b.WriteByte(byte('a' + rng.Intn(26)))
			}
		}
	}
	return b.String()
}

// inSnakeDomain re-checks the generator against the stated domain.
func inSnakeDomain(x string) bool {
	if x == "" {
		return false
	}
	startSeg := true
	for i := 0; i < len(x); i++ {
		ch := x[i]
		switch {
		case startSeg:
			if ch < 'a' || ch > 'z' {
				return false
			}
			startSeg = false
		case ch == '_':
			startSeg = true
		case (ch >= 'a' && ch <= 'z') || (ch >= '0' && ch <= '9'):
		default:
			return false
		}
	}
	return !startSeg
}

// small exhaustive alphabet: every width, the re-casing characters, an invalid
// byte, a truncated 3-byte sequence and a lone continuation byte.
var smallToks = []string{"a", "_", "B", "é", "世", "\U0001F600", "\xff", "\xe4\xb8", "\x80"}

func smallCount(maxLen int) int {
	n, p := 0, 1
	for l := 0; l <= maxLen; l++ {
		n += p
		p *= len(smallToks)
	}
	return n
}

// smallString maps an index to the idx-th token sequence (shortest first).
func smallString(idx int) string {
	p := 1
	l := 0
	for idx >= p {
		idx -= p
		p *= len(smallToks)
		l++
		if l > 12 {
			break
		}
	}
	var b strings.Builder
	for i := 0; i < l; i++ {
		b.WriteString(smallToks[idx%len(smallToks)])
		idx /= len(smallToks)
	}
	return b.String()
}

func widthsSeen(s string) int {
	m := 0
	for _, r := range s {
		m |= 1 << utf8.RuneLen(r)
	}
	c := 0
	for ; m > 0; m >>= 1 {
		c += m & 1
	}
	return c
}
