package main

import (
	"fmt"
	"strings"
	"unicode/utf8"

	"github.com/welllog/golib/strz"

	"verif/ev"
)

// view is the []rune reading of one input string: the definitions of the
// property are written on v.runes / v.offs, never on byte arithmetic.
type view struct {
	s     string
	valid bool
	runes []rune // decoded runes (U+FFFD for every invalid byte when !valid)
	offs  []int  // offs[i] = byte offset of rune i, offs[n] = len(s)
	cw    []int  // cw[i] = display width of the first i runes (1 per ASCII, 2 per other rune)
	inv   []bool // inv[i]: rune i is an invalid byte (decoded as U+FFFD with width 1)
	ninv  int
}

func newView(s string) *view {
	v := &view{s: s, valid: utf8.ValidString(s)}
	n := 0
	for i := 0; i < len(s); {
		r, size := utf8.DecodeRuneInString(s[i:])
		bad := r == utf8.RuneError && size == 1
		v.runes = append(v.runes, r)
		v.offs = append(v.offs, i)
		v.inv = append(v.inv, bad)
		if bad {
			v.ninv++
		}
		i += size
		n++
		if n > len(s) { // cannot happen; keeps the loop bounded whatever happens
			break
		}
	}
	v.offs = append(v.offs, len(s))
	v.cw = make([]int, len(v.runes)+1)
	for i, r := range v.runes {
		w := 2
		if r < utf8.RuneSelf {
			w = 1
		}
		v.cw[i+1] = v.cw[i] + w
	}
	return v
}

func (v *view) n() int { return len(v.runes) }

// qs prints like %q for strings of ordinary size and abbreviates the middle of
// the big strings of strength.go (their cases are replayed from seed and index).
type qs string

func (s qs) Format(f fmt.State, verb rune) {
	if len(s) <= 400 {
		fmt.Fprintf(f, "%q", string(s))
		return
	}
	fmt.Fprintf(f, "%q...(%d bytes in all)...%q", string(s[:120]), len(s), string(s[len(s)-120:]))
}

// width in bytes of rune i
func (v *view) bw(i int) int { return v.offs[i+1] - v.offs[i] }

// wantSub: runes [start, start+length) of s, to the end for -1 (clamped to the string).
func (v *view) wantSub(start, length int) string {
	l := v.n()
	if start > l {
		start = l
	}
	end := l
	if length >= 0 && length < l-start {
		end = start + length
	}
	return v.s[v.offs[start]:v.offs[end]]
}

// wantSubByDisplay: longest prefix whose display width does not exceed limit.
func (v *view) wantSubByDisplay(limit int) (string, int) {
	k := 0
	for k < v.n() && v.cw[k+1] <= limit {
		k++
	}
	return v.s[:v.offs[k]], k
}

func (v *view) wantRev() string {
	var b strings.Builder
	for i := v.n() - 1; i >= 0; i-- {
		b.WriteRune(v.runes[i])
	}
	return b.String()
}

// rmProfile says which kinds of runes a predicate selected (bit w: a rune of w bytes;
// bit 0: an invalid byte) and which kinds were kept after the first removal, i.e.
// had to be written again by an implementation that copies lazily.
type rmProfile struct {
	removed, keptAfter uint8
}

func (v *view) wantRemove(pred func(rune) bool) (string, int, int, rmProfile) {
	var b strings.Builder
	var pf rmProfile
	removed, first := 0, -1
	for i, r := range v.runes {
		bit := uint8(1) << v.bw(i)
		if v.inv[i] {
			bit = 1
		}
		if pred(r) {
			removed++
			if first < 0 {
				first = i
			}
			pf.removed |= bit
			continue
		}
		if first >= 0 {
			pf.keptAfter |= bit
		}
		b.WriteRune(r)
	}
	return b.String(), removed, first, pf
}

// coverage features
const (
	fSub = iota
	fMask
	fSubByDisplay
	fRev
	fLen
	fRemoveRunes
	fUcFirst
	fLcFirst
	fSnakeToCamel
	fCamelToSnake
	fCompared
	fSubStartW1
	fSubStartW2
	fSubStartW3
	fSubStartW4
	fSubEndW1
	fSubEndW2
	fSubEndW3
	fSubEndW4
	fSubStartBeyond
	fSubEndBeyond
	fSubToEnd
	fSubZeroLen
	fMaskNoop
	fMaskWhole
	fMaskSingle
	fMaskMulti
	fMaskEmpty
	fMaskEndZero
	fMaskStartZero
	fMaskCutMultibyte
	fSbdWhole
	fSbdInsideWide
	fSbdExact
	fSbdZero
	fSbdCutAfterWide
	fRrNone
	fRrAll
	fRrFirstAt0
	fRrFirstLater
	fRrFirstLast
	fInvInputs
	fInvCalls
	fInvAtSubCut
	fInvBeforeSbdCut
	fInvTail
	// clause-coverage counters added by the audit (one per sub-case a clause quantifies over)
	fSubEndExact
	fMaskStartBeyond
	fMaskEndBeyond
	fMaskSumEquals
	fMaskSumExceeds
	fMaskSingleMultibyte
	fMaskFirstW1
	fMaskFirstW2
	fMaskFirstW3
	fMaskFirstW4
	fMaskLastW1
	fMaskLastW2
	fMaskLastW3
	fMaskLastW4
	fMaskInvMaskJudged
	fMaskInvMaskReplaced
	fMaskCutInvalid
	fSbdNextW1
	fSbdNextW2
	fSbdNextW3
	fSbdNextW4
	fSbdLastW1
	fSbdLastW2
	fSbdLastW3
	fSbdLastW4
	fRrRemovedW1
	fRrRemovedW2
	fRrRemovedW3
	fRrRemovedW4
	fRrKeptAfterW1
	fRrKeptAfterW2
	fRrKeptAfterW3
	fRrKeptAfterW4
	fRrInvRemoved
	fRrInvKeptAfter
	fInvCallsSub // + fSub..fCamelToSnake: calls of each helper on strings that are not valid UTF-8
	fInvCallsMask
	fInvCallsSubByDisplay
	fInvCallsRev
	fInvCallsLen
	fInvCallsRemoveRunes
	fInvCallsUcFirst
	fInvCallsLcFirst
	fInvCallsSnakeToCamel
	fInvCallsCamelToSnake
	fEmptyInput
	fValidFFFD
	fCasingValid
	fCasingFirstMultibyte
	fCasingFirstLower
	fCasingFirstUpper
	fCasingWideAndRecased
	nFeat
)

var featName = [nFeat]string{
	"calls_Sub", "calls_Mask", "calls_SubByDisplay", "calls_Rev", "calls_Len", "calls_RemoveRunes",
	"calls_UcFirst", "calls_LcFirst", "calls_SnakeToCamelCase", "calls_CamelCaseToSnake",
	"results_compared_with_rune_model",
	"sub_start_on_1byte_rune", "sub_start_on_2byte_rune", "sub_start_on_3byte_rune", "sub_start_on_4byte_rune",
	"sub_end_before_1byte_rune", "sub_end_before_2byte_rune", "sub_end_before_3byte_rune", "sub_end_before_4byte_rune",
	"sub_start_at_or_beyond_len", "sub_end_beyond_len", "sub_length_minus1", "sub_length_zero",
	"mask_nothing_to_replace", "mask_whole_string", "mask_single_rune_mask", "mask_multi_rune_mask", "mask_empty_mask",
	"mask_end_zero", "mask_start_zero", "mask_cut_next_to_multibyte_rune",
	"sbd_limit_covers_whole", "sbd_limit_falls_inside_wide_rune", "sbd_exact_fit_cut", "sbd_limit_zero", "sbd_cut_after_multibyte_rune",
	"removerunes_none_removed", "removerunes_all_removed", "removerunes_first_removed_at_0", "removerunes_first_removed_later", "removerunes_only_last_removed",
	"invalid_utf8_inputs", "calls_on_invalid_utf8", "sub_cut_at_invalid_byte", "sbd_invalid_byte_before_cut", "invalid_truncated_tail",
	"sub_end_exactly_at_len",
	"mask_start_at_or_beyond_len", "mask_end_at_or_beyond_len", "mask_start_plus_end_equals_len", "mask_start_plus_end_exceeds_len",
	"mask_single_multibyte_rune_mask",
	"mask_first_replaced_rune_1byte", "mask_first_replaced_rune_2byte", "mask_first_replaced_rune_3byte", "mask_first_replaced_rune_4byte",
	"mask_last_replaced_rune_1byte", "mask_last_replaced_rune_2byte", "mask_last_replaced_rune_3byte", "mask_last_replaced_rune_4byte",
	"mask_invalid_mask_on_valid_string_judged", "mask_invalid_mask_on_valid_string_replacing", "mask_cut_at_invalid_byte",
	"sbd_rune_that_does_not_fit_1byte", "sbd_rune_that_does_not_fit_2byte", "sbd_rune_that_does_not_fit_3byte", "sbd_rune_that_does_not_fit_4byte",
	"sbd_last_rune_that_fits_1byte", "sbd_last_rune_that_fits_2byte", "sbd_last_rune_that_fits_3byte", "sbd_last_rune_that_fits_4byte",
	"removerunes_removed_1byte_rune", "removerunes_removed_2byte_rune", "removerunes_removed_3byte_rune", "removerunes_removed_4byte_rune",
	"removerunes_kept_after_first_removal_1byte_rune", "removerunes_kept_after_first_removal_2byte_rune", "removerunes_kept_after_first_removal_3byte_rune", "removerunes_kept_after_first_removal_4byte_rune",
	"removerunes_invalid_byte_removed", "removerunes_invalid_byte_kept_after_first_removal",
	"invalid_calls_Sub", "invalid_calls_Mask", "invalid_calls_SubByDisplay", "invalid_calls_Rev", "invalid_calls_Len", "invalid_calls_RemoveRunes",
	"invalid_calls_UcFirst", "invalid_calls_LcFirst", "invalid_calls_SnakeToCamelCase", "invalid_calls_CamelCaseToSnake",
	"empty_string_inputs", "valid_inputs_containing_U+FFFD",
	"casing_results_judged_valid_utf8", "casing_first_rune_multibyte", "casing_first_byte_lower_ascii", "casing_first_byte_upper_ascii", "casing_multibyte_rune_in_recased_string",
}

// chk applies golib functions to one string and judges every result.
type chk struct {
	c   *ev.Case
	v   *view
	sfx string // signature suffix ("" or "/hugearg")
	f   [nFeat]int64
	// keep, when set, collects every judged result so that it can be judged a
	// second time at the end of the case (strength.go, engine "kept")
	keep *[]keptRes
}

func newChk(c *ev.Case, s string, sfx string) *chk {
	k := &chk{c: c, v: newView(s), sfx: sfx}
	if !k.v.valid {
		k.f[fInvInputs]++
		if n := k.v.n(); n > 0 && k.v.inv[n-1] {
			k.f[fInvTail]++
		}
	} else if strings.ContainsRune(s, utf8.RuneError) {
		k.f[fValidFFFD]++ // U+FFFD as valid text: three bytes, one rune, width 2
	}
	if s == "" {
		k.f[fEmptyInput]++
	}
	return k
}

func (k *chk) flush() {
	for i, n := range k.f {
		if n > 0 {
			k.c.Add(featName[i], n)
		}
	}
	k.f = [nFeat]int64{}
}

func (k *chk) called(f int) {
	k.f[f]++
	if !k.v.valid {
		k.f[fInvCalls]++
		k.f[fInvCallsSub+f]++ // f is one of fSub..fCamelToSnake
	}
}

// mismatch reports a wrong result; a result that is not valid UTF-8 gets its
// own signature (a rune was split).
func (k *chk) mismatch(sig, call, got, want string) bool {
	if !utf8.ValidString(got) {
		k.c.Failf(sig+"-splits-rune"+k.sfx, "%s = %q which is not valid UTF-8 (rune-slice definition gives %q)", call, qs(got), qs(want))
	} else {
		k.c.Failf(sig+k.sfx, "%s = %q, rune-slice definition gives %q", call, qs(got), qs(want))
	}
	return false
}

func (k *chk) sub(start, length int) bool {
	v := k.v
	var got string
	if !k.c.Guard("Sub"+k.sfx, func() { got = strz.Sub(v.s, start, length) }) {
		if k.c.Logging() {
			k.c.Logf("Sub(%q, %d, %d) -> panic", qs(v.s), start, length)
		}
		k.c.Witness = fmt.Sprintf("Sub(%q, %d, %d) panics", qs(v.s), start, length)
		return false
	}
	if k.c.Logging() {
		k.c.Logf("Sub(%q, %d, %d) -> %q", qs(v.s), start, length, qs(got))
	}
	k.called(fSub)
	l := v.n()
	if !v.valid {
		if start < l && v.inv[start] {
			k.f[fInvAtSubCut]++
		} else if length > 0 && length < l-start && v.inv[start+length] {
			k.f[fInvAtSubCut]++
		}
		return true
	}
	switch {
	case length == 0:
		k.f[fSubZeroLen]++
	case start >= l:
		k.f[fSubStartBeyond]++
	default:
		k.f[fSubStartW1+v.bw(start)-1]++
		switch {
		case length == -1:
			k.f[fSubToEnd]++
		case length > l-start:
			k.f[fSubEndBeyond]++
		case length == l-start:
			k.f[fSubEndExact]++
		case length < l-start:
			k.f[fSubEndW1+v.bw(start+length)-1]++
		}
	}
	k.f[fCompared]++
	want := v.wantSub(start, length)
	if got != want {
		return k.mismatch("sub", fmt.Sprintf("Sub(%q, %d, %d)", qs(v.s), start, length), got, want)
	}
	if k.keep != nil {
		k.remember(got, want, fmt.Sprintf("Sub(%q, %d, %d)", qs(v.s), start, length))
	}
	return true
}

// maskSpec is a mask with its rune count and a pre-built repetition.
type maskSpec struct {
	m     string
	runes int
	rep   string // m repeated repN times (single-rune masks)
	repN  int
}

func newMask(m string, maxRunes int) *maskSpec {
	ms := &maskSpec{m: m, runes: utf8.RuneCountInString(m)}
	if ms.runes == 1 {
		ms.repN = maxRunes
		ms.rep = strings.Repeat(m, maxRunes)
	}
	return ms
}

func (k *chk) mask(ms *maskSpec, start, end int) bool {
	v := k.v
	var got string
	if !k.c.Guard("Mask"+k.sfx, func() { got = strz.Mask(v.s, ms.m, start, end) }) {
		if k.c.Logging() {
			k.c.Logf("Mask(%q, %q, %d, %d) -> panic", qs(v.s), qs(ms.m), start, end)
		}
		k.c.Witness = fmt.Sprintf("Mask(%q, %q, %d, %d) panics", qs(v.s), qs(ms.m), start, end)
		return false
	}
	if k.c.Logging() {
		k.c.Logf("Mask(%q, %q, %d, %d) -> %q", qs(v.s), qs(ms.m), start, end, qs(got))
	}
	k.called(fMask)
	l := v.n()
	if !v.valid {
		// only 'no panic' is judged; count the calls that really cut next to an invalid byte
		if start < l && end < l && start+end < l &&
			(v.inv[start] || v.inv[l-end-1] || (start > 0 && v.inv[start-1]) || (end > 0 && v.inv[l-end])) {
			k.f[fMaskCutInvalid]++
		}
		return true
	}
	call := func() string { return fmt.Sprintf("Mask(%q, %q, %d, %d)", qs(v.s), qs(ms.m), start, end) }
	if !utf8.ValidString(ms.m) {
		// A valid string with a mask that is not valid UTF-8: how such a mask is counted
		// (one rune or several) is not fixed by the statement and the result cannot be valid
		// UTF-8, but "keeps exactly the first `start` and last `end` runes" still applies.
		k.f[fMaskInvMaskJudged]++
		if start >= l || end >= l || start+end >= l {
			if got != v.s {
				k.c.Failf("mask-invalid-mask"+k.sfx, "%s = %q: the first %d and last %d runes are the whole string, it must come back unchanged", call(), qs(got), start, end)
				return false
			}
			return true
		}
		k.f[fMaskInvMaskReplaced]++
		prefix, suffix := v.s[:v.offs[start]], v.s[v.offs[l-end]:]
		if len(got) < len(prefix)+len(suffix) || !strings.HasPrefix(got, prefix) || !strings.HasSuffix(got, suffix) {
			k.c.Failf("mask-invalid-mask"+k.sfx, "%s = %q: the first %d runes %q and the last %d runes %q must be kept around the mask", call(), qs(got), start, qs(prefix), end, qs(suffix))
			return false
		}
		return true
	}
	k.f[fCompared]++
	// the first `start` and the last `end` runes cover the whole string: nothing in between
	if start >= l || end >= l || start+end >= l {
		k.f[fMaskNoop]++
		switch {
		case start >= l:
			k.f[fMaskStartBeyond]++
		case end >= l:
			k.f[fMaskEndBeyond]++
		case start+end == l:
			k.f[fMaskSumEquals]++
		default:
			k.f[fMaskSumExceeds]++
		}
		if got != v.s {
			return k.mismatch("mask", call(), got, v.s)
		}
		if k.keep != nil {
			k.remember(got, v.s, call())
		}
		return true
	}
	ml := l - start - end
	prefix, suffix := v.s[:v.offs[start]], v.s[v.offs[l-end]:]
	if start == 0 && end == 0 {
		k.f[fMaskWhole]++
	}
	if end == 0 {
		k.f[fMaskEndZero]++
	}
	if start == 0 {
		k.f[fMaskStartZero]++
	}
	if (start > 0 && v.bw(start-1) > 1) || v.bw(start) > 1 || v.bw(l-end-1) > 1 || (end > 0 && v.bw(l-end) > 1) {
		k.f[fMaskCutMultibyte]++
	}
	k.f[fMaskFirstW1+v.bw(start)-1]++
	k.f[fMaskLastW1+v.bw(l-end-1)-1]++
	if ms.runes == 0 {
		// An empty mask is neither "one mask rune" nor "a multi-rune mask": the statement
		// only fixes that the first `start` and last `end` runes are kept and the result is valid.
		k.f[fMaskEmpty]++
		if !utf8.ValidString(got) || len(got) < len(prefix)+len(suffix) || !strings.HasPrefix(got, prefix) || !strings.HasSuffix(got, suffix) {
			return k.mismatch("mask", call(), got, prefix+suffix)
		}
		return true
	}
	var mid string
	if ms.runes == 1 {
		k.f[fMaskSingle]++
		if len(ms.m) > 1 {
			k.f[fMaskSingleMultibyte]++
		}
		if ml <= ms.repN {
			mid = ms.rep[:ml*len(ms.m)]
		} else {
			mid = strings.Repeat(ms.m, ml)
		}
	} else {
		k.f[fMaskMulti]++
		mid = ms.m
	}
	if len(got) != len(prefix)+len(mid)+len(suffix) || !strings.HasPrefix(got, prefix) || !strings.HasSuffix(got, suffix) || got[len(prefix):len(got)-len(suffix)] != mid {
		return k.mismatch("mask", call(), got, prefix+mid+suffix)
	}
	if k.keep != nil {
		k.remember(got, prefix+mid+suffix, call())
	}
	return true
}

func (k *chk) subByDisplay(limit int) bool {
	v := k.v
	var got string
	if !k.c.Guard("SubByDisplay"+k.sfx, func() { got = strz.SubByDisplay(v.s, limit) }) {
		if k.c.Logging() {
			k.c.Logf("SubByDisplay(%q, %d) -> panic", qs(v.s), limit)
		}
		k.c.Witness = fmt.Sprintf("SubByDisplay(%q, %d) panics", qs(v.s), limit)
		return false
	}
	if k.c.Logging() {
		k.c.Logf("SubByDisplay(%q, %d) -> %q", qs(v.s), limit, qs(got))
	}
	k.called(fSubByDisplay)
	want, cut := v.wantSubByDisplay(limit)
	if !v.valid {
		for i := 0; i < cut; i++ {
			if v.inv[i] {
				k.f[fInvBeforeSbdCut]++
				break
			}
		}
		return true
	}
	switch {
	case limit == 0:
		k.f[fSbdZero]++
	case cut == v.n():
		k.f[fSbdWhole]++
	default:
		if v.cw[cut] == limit {
			k.f[fSbdExact]++
		} else {
			k.f[fSbdInsideWide]++ // one column left, next rune needs two
		}
		if cut > 0 && v.bw(cut-1) > 1 {
			k.f[fSbdCutAfterWide]++
		}
		k.f[fSbdNextW1+v.bw(cut)-1]++
		if cut > 0 {
			k.f[fSbdLastW1+v.bw(cut-1)-1]++
		}
	}
	k.f[fCompared]++
	if got != want {
		return k.mismatch("subbydisplay", fmt.Sprintf("SubByDisplay(%q, %d)", qs(v.s), limit), got, want)
	}
	if k.keep != nil {
		k.remember(got, want, fmt.Sprintf("SubByDisplay(%q, %d)", qs(v.s), limit))
	}
	return true
}

func (k *chk) revLen() bool {
	v := k.v
	var got string
	if !k.c.Guard("Rev", func() { got = strz.Rev(v.s) }) {
		k.c.Witness = fmt.Sprintf("Rev(%q) panics", qs(v.s))
		return false
	}
	if k.c.Logging() {
		k.c.Logf("Rev(%q) -> %q", qs(v.s), qs(got))
	}
	k.called(fRev)
	var n int
	if !k.c.Guard("Len", func() { n = strz.Len(v.s) }) {
		k.c.Witness = fmt.Sprintf("Len(%q) panics", qs(v.s))
		return false
	}
	if k.c.Logging() {
		k.c.Logf("Len(%q) -> %d", qs(v.s), n)
	}
	k.called(fLen)
	if !v.valid {
		return true
	}
	k.f[fCompared] += 2
	want := v.wantRev()
	if got != want {
		return k.mismatch("rev", fmt.Sprintf("Rev(%q)", qs(v.s)), got, want)
	}
	if k.keep != nil {
		k.remember(got, want, fmt.Sprintf("Rev(%q)", qs(v.s)))
	}
	if n != v.n() {
		k.c.Failf("len", "Len(%q) = %d, the string has %d runes", qs(v.s), n, v.n())
		return false
	}
	return true
}

type pred struct {
	name string
	fn   func(rune) bool
	// pure, when set, is the selection fn makes, without fn's side effects
	// (fn may call back into strz); the definition is evaluated with it
	pure func(rune) bool
}

func (k *chk) removeRunes(p pred) bool {
	v := k.v
	var got string
	calls := 0
	limit := len(v.s) + 8
	if !k.c.Guard("RemoveRunes", func() {
		got = strz.RemoveRunes(v.s, func(r rune) bool {
			calls++
			if calls > limit*4 {
				panic("harness: predicate called without end")
			}
			return p.fn(r)
		})
	}) {
		if k.c.Logging() {
			k.c.Logf("RemoveRunes(%q, %s) -> panic", qs(v.s), p.name)
		}
		k.c.Witness = fmt.Sprintf("RemoveRunes(%q, %s) panics", qs(v.s), p.name)
		return false
	}
	if k.c.Logging() {
		k.c.Logf("RemoveRunes(%q, %s) -> %q", qs(v.s), p.name, qs(got))
	}
	k.called(fRemoveRunes)
	sel := p.fn
	if p.pure != nil {
		sel = p.pure
	}
	want, removed, first, pf := v.wantRemove(sel)
	if !v.valid {
		// only 'no panic' is judged; count the calls in which an invalid byte was dropped, and
		// those in which one was kept after the first removal (one byte in, U+FFFD = three bytes out)
		if pf.removed&1 != 0 {
			k.f[fRrInvRemoved]++
		}
		if pf.keptAfter&1 != 0 {
			k.f[fRrInvKeptAfter]++
		}
		return true
	}
	for w := 1; w <= 4; w++ {
		if pf.removed&(1<<w) != 0 {
			k.f[fRrRemovedW1+w-1]++
		}
		if pf.keptAfter&(1<<w) != 0 {
			k.f[fRrKeptAfterW1+w-1]++
		}
	}
	switch {
	case removed == 0:
		k.f[fRrNone]++
	case removed == v.n():
		k.f[fRrAll]++
	}
	if removed > 0 {
		if first == 0 {
			k.f[fRrFirstAt0]++
		} else {
			k.f[fRrFirstLater]++
			if first == v.n()-1 {
				k.f[fRrFirstLast]++
			}
		}
	}
	k.f[fCompared]++
	if got != want {
		return k.mismatch("removerunes", fmt.Sprintf("RemoveRunes(%q, %s)", qs(v.s), p.name), got, want)
	}
	if k.keep != nil {
		k.remember(got, want, fmt.Sprintf("RemoveRunes(%q, %s)", qs(v.s), p.name))
	}
	return true
}

// casing calls the four ASCII re-casing helpers; the statement only promises
// that they do not panic (the round trip is judged by the roundtrip engine).
func (k *chk) casing() bool {
	s := k.v.s
	var o1, o2, o3, o4, o5, o6 string
	k.c.Witness = nil
	defer func() {
		if k.c.Failed() && k.c.Witness == nil {
			k.c.Witness = fmt.Sprintf("UcFirst / LcFirst / SnakeToCamelCase / CamelCaseToSnake on %q: see the signature for the function that panicked", s)
		}
	}()
	if !k.c.Guard("UcFirst", func() { o1 = strz.UcFirst(s) }) {
		return false
	}
	k.called(fUcFirst)
	if !k.c.Guard("LcFirst", func() { o2 = strz.LcFirst(s) }) {
		return false
	}
	k.called(fLcFirst)
	if !k.c.Guard("SnakeToCamelCase", func() { o3 = strz.SnakeToCamelCase(s, false); o4 = strz.SnakeToCamelCase(s, true) }) {
		return false
	}
	k.called(fSnakeToCamel)
	k.called(fSnakeToCamel)
	if !k.c.Guard("CamelCaseToSnake", func() { o5 = strz.CamelCaseToSnake(s); o6 = strz.CamelCaseToSnake(o4) }) {
		return false
	}
	k.called(fCamelToSnake)
	k.called(fCamelToSnake)
	if k.c.Logging() {
		k.c.Logf("UcFirst(%q) -> %q; LcFirst -> %q; SnakeToCamelCase(false) -> %q; (true) -> %q; CamelCaseToSnake -> %q; of the camel form -> %q", s, o1, o2, o3, o4, o5, o6)
	}
	if !k.v.valid {
		return true
	}
	// "never split a rune": what these helpers make of a valid string is valid UTF-8 again
	// (they re-case ASCII letters and drop / insert '_' only; which letters, is not judged).
	k.f[fCasingValid]++
	if len(s) > 0 {
		switch b := s[0]; {
		case b >= utf8.RuneSelf:
			k.f[fCasingFirstMultibyte]++
		case b >= 'a' && b <= 'z':
			k.f[fCasingFirstLower]++
		case b >= 'A' && b <= 'Z':
			k.f[fCasingFirstUpper]++
		}
	}
	if len(s) > k.v.n() && (o3 != s || o4 != s || o5 != s) {
		k.f[fCasingWideAndRecased]++ // a multi-byte rune in a string that the converters rebuilt
	}
	for _, r := range [...]struct{ sig, call, out string }{
		{"ucfirst", "UcFirst(%q)", o1},
		{"lcfirst", "LcFirst(%q)", o2},
		{"snaketocamel", "SnakeToCamelCase(%q, false)", o3},
		{"snaketocamel", "SnakeToCamelCase(%q, true)", o4},
		{"cameltosnake", "CamelCaseToSnake(%q)", o5},
	} {
		if !utf8.ValidString(r.out) {
			k.c.Witness = fmt.Sprintf(r.call, qs(s)) + " is not valid UTF-8"
			k.c.Failf(r.sig+"-splits-rune"+k.sfx, r.call+" = %q which is not valid UTF-8 although the argument is", qs(s), qs(r.out))
			return false
		}
	}
	if utf8.ValidString(o4) && !utf8.ValidString(o6) {
		k.c.Witness = fmt.Sprintf("CamelCaseToSnake(%q) is not valid UTF-8", qs(o4))
		k.c.Failf("cameltosnake-splits-rune"+k.sfx, "CamelCaseToSnake(%q) = %q which is not valid UTF-8 although the argument is", qs(o4), qs(o6))
		return false
	}
	return true
}

// args returns the argument values 0..n+3 (all of them for short strings,
// the boundary values plus a seeded sample for long ones).
func args(rng *ev.Rand, n int) []int {
	if n <= 12 {
		a := make([]int, 0, n+4)
		for i := 0; i <= n+3; i++ {
			a = append(a, i)
		}
		return a
	}
	a := []int{0, 1, 2, n - 2, n - 1, n, n + 1, n + 3}
	for i := 0; i < 6; i++ {
		a = append(a, rng.Intn(n+1))
	}
	return a
}

var singleMasks = []string{"*", "#", "é", "世", "\U0001F600", "\x00"}
var multiMasks = []string{"**", "--", "a世", "世界", "\U0001F600\U0001F600", "xé\U0001F600", "***"}
var hostileMasks = []string{"\xff", "\xe4\xb8", "*\xff", "\x80\x80", "\xf0\x9f\x98"}

// all applies every function over the argument grid to one string.
func (k *chk) all(hostileMask bool) bool {
	defer k.flush()
	c, v, rng := k.c, k.v, k.c.Rng
	n := v.n()
	if !k.revLen() || !k.casing() {
		return false
	}
	// Sub
	as := args(rng, n)
	for _, st := range as {
		if !k.sub(st, -1) {
			return false
		}
		for _, ln := range as {
			if !k.sub(st, ln) {
				return false
			}
		}
	}
	// SubByDisplay: limits 0 .. display width + 3 (and the byte length, which triggers the shortcut)
	maxw := v.cw[n]
	if maxw <= 40 {
		for lim := 0; lim <= maxw+3; lim++ {
			if !k.subByDisplay(lim) {
				return false
			}
		}
	} else {
		for _, lim := range []int{0, 1, 2, 3, maxw - 2, maxw - 1, maxw, maxw + 1} {
			if !k.subByDisplay(lim) {
				return false
			}
		}
		for i := 0; i < 12; i++ {
			if !k.subByDisplay(rng.Intn(maxw + 1)) {
				return false
			}
		}
	}
	for _, lim := range []int{len(v.s) - 1, len(v.s), len(v.s) + 1} {
		if lim >= 0 && !k.subByDisplay(lim) {
			return false
		}
	}
	// Mask
	masks := []*maskSpec{
		newMask(singleMasks[rng.Intn(len(singleMasks))], n+4),
		newMask(multiMasks[rng.Intn(len(multiMasks))], 0),
	}
	if rng.Chance(1, 4) {
		masks = append(masks, newMask("", 0))
	}
	if hostileMask {
		masks = append(masks, newMask(hostileMasks[rng.Intn(len(hostileMasks))], 0))
	}
	ms := as
	if n > 12 {
		ms = as[:10]
	}
	for _, m := range masks {
		for _, st := range ms {
			for _, en := range ms {
				if !k.mask(m, st, en) {
					return false
				}
			}
		}
	}
	// RemoveRunes
	salt := rng.Uint64() | 1
	var first, last rune = -1, -1
	if n > 0 {
		first, last = v.runes[0], v.runes[n-1]
	}
	var mid rune = -1
	if n > 2 {
		mid = v.runes[1+rng.Intn(n-2)]
	}
	preds := []pred{
		{name: "never", fn: func(rune) bool { return false }},
		{name: "always", fn: func(rune) bool { return true }},
		{name: "ascii", fn: func(r rune) bool { return r < utf8.RuneSelf }},
		{name: "non-ascii", fn: func(r rune) bool { return r >= utf8.RuneSelf }},
		{name: "3-byte", fn: func(r rune) bool { return utf8.RuneLen(r) == 3 }},
		{name: fmt.Sprintf("==first(%q)", first), fn: func(r rune) bool { return r == first }},
		{name: fmt.Sprintf("==last(%q)", last), fn: func(r rune) bool { return r == last }},
		{name: fmt.Sprintf("==inner(%q)", mid), fn: func(r rune) bool { return r == mid }},
		{name: "==U+FFFD", fn: func(r rune) bool { return r == utf8.RuneError }},
		{name: fmt.Sprintf("hash(salt %#x)", salt), fn: func(r rune) bool { return (uint64(r)+1)*salt>>62 == 0 }},
		{name: fmt.Sprintf("hash2(salt %#x)", salt), fn: func(r rune) bool { return (uint64(r)+7)*salt>>63 == 0 }},
	}
	for _, p := range preds {
		if !k.removeRunes(p) {
			return false
		}
	}
	c.Max("max_runes_in_input", int64(n))
	c.Max("max_bytes_in_input", int64(len(v.s)))
	return true
}
