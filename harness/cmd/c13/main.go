// C13 — DList and SList keep exact sequence semantics with stable node handles.
//
// DList: differential monitor against container/list on the same operation
// sequence with paired handles (golib node <-> list element), using live,
// removed, never-inserted, foreign and Init-orphaned handles, node-form
// inserts of fresh and previously removed nodes, and copies of other lists and
// of the list itself (dlist.go).
// SList: reference-model monitor against a plain slice, indices -2..len+2 and
// the extreme ints, node forms with fresh and previously removed nodes; after
// every operation Len, Front, Back, the Next-chain, All and Get must describe
// the same sequence (slist.go).
// Both: runs of operations with no observation in between, then one observer
// drawn at random looks first (windows.go); sequences from All() kept and used
// later, twice, re-entrantly, interleaved, with a panicking yield (kept.go);
// lists of 15..65537 nodes (big.go); two SLists that hand removed nodes to each
// other (pair.go).
package main

import (
	"fmt"

	"verif/ev"
)

func main() {
	r := ev.New("C13")
	r.Rule("one case = a seeded operation sequence. dlist/mix, dlist/copy: 8..160 operations (Push*/Insert*/Insert*Node*/Remove/Move*/Push*DList/Init/Value writes) over 1..3 DLists, each a never-initialised zero value or NewDoubly(), node and mark drawn from members, members of another list, removed nodes, never-inserted nodes and nodes orphaned by another list's Init; dlist/small: for one size 0..5 every operation x every node/mark choice on a fresh fixture + 3 random operations; slist/mix: 8..160 operations with indices weighted to -1, 0, len-1, len, len+1, +-2 and Min/MaxInt; slist/ends: for one size 0..6 and one of 5 build recipes every index-based operation at every index (Swap: every pair) + tail-dependent follow-ups; dlist/window, slist/window: 2..16 runs of 2..12 operations during which nothing is observed (only the mutators' own results are compared; SList: at most one Get in front of or inside the run), possibly as the very first thing that happens to a never-initialised zero value, then one observer drawn at random looks first, then everything is compared; dlist/kept, slist/kept: 10..40 operations during which sequences returned by All() are kept and used later in one of 7 ways (twice, re-entered from their own yield, another one run inside the yield, two iter.Pull iterations advanced alternately, abandoned then rerun, yield that panics followed by more operations); dlist/big, slist/big: a list of 2^k-1, 2^k or 2^k+1 nodes (k = 4..10, 12, 16), 8..14 operations at the ends, the middle and next to power-of-two positions, whole-list copies onto another list and onto itself; slist/pair: 10..80 operations over two SLists, the nodes handed out by Remove/RemoveFront of one list are inserted into the other one (and travel back), after every operation both lists are compared. distinct = distinct hash of the (operation, list, handle ids / indices, value) sequence; non-trivial = at least two operations that really changed a list relative to an existing node or index (effective insert/move/remove/copy/swap)")
	r.Assume("container/list of the Go standard library is the specification of DList; a node-form insert (PushFrontNode, PushBackNode, InsertNodeBefore, InsertNodeAfter), which container/list does not have, is modelled as the value-form insert of the node's value with the golib node re-paired to the new element")
	r.Assume("only nodes that are in no list (never inserted, or removed) are handed to the node-form inserts, and a node orphaned by l.Init() is never handed back to l itself (container/list is undefined there); nil nodes are never passed (documented precondition)")
	r.Assume("SList: the specification is a Go slice; Get/Remove/Swap reject out-of-range indices (nil / no change), InsertAt/InsertNodeAt clamp (i<=0 front, i>=len back) as documented; after Swap the two positions may have exchanged either their values or their nodes")
	r.Assume("a sequence returned by All() may be kept: whenever it is run to the end while no operation changes the list, it yields the values the list holds front-to-back at that time (not at the time All() was called), any number of times and re-entrantly; the yield functions of the harness never modify a list")
	opt := ev.Opt{HangViolation: true, MaxCaseSeconds: 120}
	r.Cases("dlist/mix", r.N(30000, 1500000), opt, dlistMix)
	// the same workload on parallel workers under the race detector: package-level state shared
	// between instances that no goroutine shares is reported from the happens-before relation,
	// whether or not the accesses collide in this run (and however loaded the machine is)
	r.CasesProc("dlist/mix/race-parallel", r.N(600, 15000), ev.Opt{Bin: "race", Procs: 2, Workers: 8, AlwaysLog: true, HangViolation: true, MaxCaseSeconds: 120}, dlistMix)
	r.CasesProc("slist/mix/race-parallel", r.N(600, 15000), ev.Opt{Bin: "race", Procs: 2, Workers: 8, AlwaysLog: true, HangViolation: true, MaxCaseSeconds: 120}, slistMix)
	r.Cases("dlist/copy", r.N(6000, 300000), opt, dlistCopy)
	r.Cases("dlist/small", r.N(1200, 40000), opt, dlistSmall)
	r.Cases("slist/mix", r.N(30000, 1500000), opt, slistMix)
	r.Cases("slist/ends", r.N(1200, 40000), opt, slistEnds)
	r.Cases("dlist/window", r.N(12000, 500000), opt, dlistWindow)
	r.Cases("slist/window", r.N(12000, 500000), opt, slistWindow)
	r.Cases("dlist/kept", r.N(8000, 300000), opt, dlistKept)
	r.Cases("slist/kept", r.N(8000, 300000), opt, slistKept)
	r.Cases("slist/pair", r.N(8000, 300000), opt, slistPair)
	r.Cases("dlist/big", r.N(96, 1000), opt, dlistBig)
	r.Cases("slist/big", r.N(96, 1000), opt, slistBig)
	// LESSONS class 14: element types other than int (typed.go)
	r.Cases("elemtypes", r.N(40000, 1000000), opt, typedCase)
	for _, t := range []string{"struct{128 bytes}", "[32]int64", "struct{1024 bytes}", "string", "any", "*int", "struct{}", "[2]string"} {
		r.Require("typed/slist "+t, 1000)
		r.Require("typed/dlist "+t, 500)
	}
	r.Require("typed/slist_swap_neighbours", 20000)
	r.Require("typed/slist_swap_in_range", 40000)
	r.Require("typed/slist_node_reinserted", 5000)
	r.Require("typed/dlist_moves", 20000)
	// anti-vacuity floors (a fraction of what the quick tier observes at every seed)
	for k, v := range map[string]int64{
		"dlist_ops": 500000, "dlist_traversals_compared": 3000000,
		"dlist_move_effective": 50000, "dlist_move_adjacent": 20000, "dlist_move_onto_itself": 10000,
		"dlist_remove_effective": 50000, "dlist_stale_handle_noop": 50000, "dlist_stale_mark_noop": 20000,
		"dlist_handle_foreign": 20000, "dlist_handle_removed": 50000, "dlist_handle_fresh": 50000, "dlist_handle_retired_other_list": 1000,
		"dlist_self_copy_nonempty": 10000, "dlist_other_copy": 5000, "dlist_copied_nodes_paired": 100000,
		"dlist_node_reinserted_after_removal": 15000, "dlist_init": 4000,
		"dlist_zero_value_first_op": 10000, "dlist_zero_value_first_op/PushFrontNode": 300, "dlist_zero_value_first_op/PushBackNode": 300,
		"dlist_zero_value_first_op/PushBackDList": 100, "dlist_zero_value_first_op/PushFrontDList": 100,
		"dlist_all_early_break": 100000, "dlist_detached_nav_checked": 200000, "dlist_small_fixtures": 20000,
		"slist_ops": 500000, "slist_traversals_compared": 1000000, "slist_gets_compared": 5000000,
		"slist_index_negative": 30000, "slist_index_first": 30000, "slist_index_last": 30000, "slist_index_eq_len": 20000,
		"slist_index_gt_len": 30000, "slist_index_only_element": 8000, "slist_index_middle": 30000,
		"slist_remove_effective": 100000, "slist_remove_rejected": 20000, "slist_removefront_last_element": 2000, "slist_removefront_empty": 500,
		"slist_swap_effective": 10000, "slist_swap_rejected": 20000, "slist_node_reinserted_after_removal": 20000,
		"slist_checked_empty": 10000, "slist_drained_to_empty": 500, "slist_all_early_break": 80000, "slist_ends_fixtures": 20000,
		// unobserved-operation windows (windows.go)
		"dlist_windows": 30000, "dlist_window_ops": 200000, "dlist_window_list_emptied_by_removes": 2000, "dlist_window_first_on_empty_list": 5000,
		"dlist_window_first/Len": 3000, "dlist_window_first/Front": 3000, "dlist_window_first/Back": 3000, "dlist_window_first/All": 3000,
		"dlist_window_first/Back-Prev-walk": 3000, "dlist_window_first/Front-Next-walk": 3000, "dlist_window_first/node-Next-Prev": 3000,
		"dlist_unobserved_zero_value_first_op": 1500, "dlist_unobserved_zero_value_first_op/PushFrontNode": 150, "dlist_unobserved_zero_value_first_op/PushBackNode": 150,
		"dlist_unobserved_zero_value_first_op/PushBackDList": 100, "dlist_unobserved_zero_value_first_op/PushFrontDList": 100,
		"slist_windows": 30000, "slist_window_ops": 200000,
		"slist_window_first/Len": 3000, "slist_window_first/Front": 3000, "slist_window_first/Back": 3000, "slist_window_first/All": 3000,
		"slist_window_first/Front-Next-walk": 3000, "slist_window_first/Get": 8000,
		"slist_window_probe_gets": 10000, "slist_window_first_get_at_or_behind_probe": 5000, "slist_window_shift_in_front_of_probe": 20000, "slist_window_remove_last": 10000,
		// kept sequences (kept.go)
		"dlist_kept_uses": 20000, "dlist_kept_run_after_change": 20000, "dlist_kept_run_after_front_changed": 15000,
		"dlist_kept_nested_runs": 5000, "dlist_kept_pull_steps": 50000, "dlist_kept_yield_panics": 2500,
		"dlist_kept_taken_from_untouched_zero_value": 800, "dlist_kept_two_lists_interleaved": 800,
		"slist_kept_uses": 20000, "slist_kept_run_after_change": 20000, "slist_kept_run_after_front_changed": 15000,
		"slist_kept_nested_runs": 5000, "slist_kept_pull_steps": 50000, "slist_kept_yield_panics": 2500, "slist_kept_taken_from_untouched_list": 1000,
		// long lists (big.go)
		"dlist_big_cases": 60, "dlist_big_cases_ge_65535": 1, "dlist_big_copies": 100, "dlist_big_self_copies_ge_64": 15, "dlist_big_copies_ge_4096": 5,
		"slist_big_cases": 60, "slist_big_cases_ge_65535": 1, "slist_big_index_ge_64_in_range": 100,
	} {
		r.Require(k, v)
	}
	for _, m := range keptModeName {
		r.Require("dlist_kept_use/"+m, 2500)
		r.Require("slist_kept_use/"+m, 2500)
	}
	clauseFloors(r)
	r.Finish()
}

// clauseFloors: one floor per (named operation x kind of argument) that the statement and its
// quantifier speak of, so that no operation can silently stop meeting a kind of handle or index
// (each a fraction of what the quick tier observes at seeds 1..3).
func clauseFloors(r *ev.Run) {
	// DList: "operations given a node that is not (or no longer) in the list are no-ops", "all
	// choices of node handles including removed and foreign ones": every node- or mark-taking
	// operation x {member, member of another list, removed, never inserted, orphaned by another list's Init}
	classFloor := [nArgClasses]int64{aLive: 20000, aForeign: 3000, aRemoved: 3000, aFresh: 3000, aRetired: 250}
	for _, o := range []int{oRemove, oMoveFront, oMoveBack, oMoveBefore, oMoveAfter} {
		for a, f := range classFloor {
			r.Require(dargName[o][0][a], f)
		}
	}
	for _, o := range []int{oInsBefore, oInsAfter, oInsNodeBefore, oInsNodeAfter, oMoveBefore, oMoveAfter} {
		for a, f := range classFloor {
			r.Require(dargName[o][1][a], f)
		}
	}
	// node forms: the inserted node is a never-inserted one or one that was removed earlier
	// (from this list or from another one)
	for _, o := range []int{oPushFrontNode, oPushBackNode, oInsNodeBefore, oInsNodeAfter} {
		r.Require(dargName[o][0][aFresh], 15000)
		r.Require(dargName[o][0][aRemoved], 15000)
		r.Require("dlist_node_reinserted_after_removal/"+dopName[o], 10000)
	}
	r.Require("dlist_node_reinserted_into_another_list", 20000)
	r.Require("dlist_detached_nav_checked/fresh", 100000)
	r.Require("dlist_detached_nav_checked/removed", 200000)
	// "lists copied onto themselves", both variants; copies of another list, which may be an untouched zero value
	for _, o := range []int{oPushBackList, oPushFrontList} {
		r.Require("dlist_self_copy_nonempty/"+dopName[o], 20000)
		r.Require("dlist_other_copy/"+dopName[o], 8000)
	}
	r.Require("dlist_copy_source_untouched_zero_value", 400)
	// "Zero-value lists are ready to use": looked at before anything else happened, and every
	// operation as the first thing that ever happens to one (observed before / never looked at before)
	r.Require("dlist_untouched_zero_value_observed", 20000)
	r.Require("slist_untouched_zero_value_observed", 10000)
	r.Require("slist_zero_value_lists", 5000)
	for o := 0; o < nDOps; o++ {
		if o == oSetValue {
			continue
		}
		r.Require("dlist_zero_value_first_op/"+dopName[o], 150)
		r.Require("dlist_unobserved_zero_value_first_op/"+dopName[o], 40)
	}
	for o := 0; o < nSOps; o++ {
		if o == sSetValue {
			continue
		}
		r.Require("slist_zero_value_first_op/"+sopName[o], 400)
		f := int64(100)
		if o == sGet {
			f = 25 // Get is an observer: it is the first thing that happens to a list only in slist/kept
		}
		r.Require("slist_unobserved_zero_value_first_op/"+sopName[o], f)
	}
	// SList: "all indices including out-of-range": every index-taking operation (Swap: each
	// of its two arguments) x {negative, len, beyond len, the only element, first, last, middle, Min/MaxInt}
	for x := 0; x < nIdxOps; x++ {
		for a := 0; a < nIdxClasses; a++ {
			r.Require(sidxName[x][a], 1500)
		}
	}
	for _, k := range []string{"only-first-index-out-of-range", "only-second-index-out-of-range", "both-indices-out-of-range"} {
		r.Require("slist_swap_rejected/"+k, 20000)
	}
	for _, o := range []int{sPushFrontNode, sPushBackNode, sInsertNodeAt} {
		r.Require("slist_node_reinserted_after_removal/"+sopName[o], 15000)
	}
	// every named method is really called (observers are counted by the *_compared floors)
	for o := 0; o < nDOps; o++ {
		r.Require("dlist_op/"+dopName[o], 15000)
	}
	for o := 0; o < nSOps; o++ {
		r.Require("slist_op/"+sopName[o], 30000)
	}
	r.Require("dlist_handles_retired_by_init", 200000) // Init of lists that hold nodes
	r.Require("slist_swap_same_index", 10000)
	r.Require("slist_value_set_through_handle", 20000)
	// "lists of every small size": the exhaustive engines see each size
	for n := 0; n <= 5; n++ {
		r.Require(fmt.Sprintf("dlist_small_size_%d", n), 40)
	}
	for n := 0; n <= 6; n++ {
		r.Require(fmt.Sprintf("slist_ends_size_%d", n), 40)
	}
	// two SLists exchanging nodes (pair.go)
	r.Require("slist_pair_cases", 2000)
	r.Require("slist_pair_node_from_other_list_inserted", 3000)
	r.Require("slist_pair_node_from_other_list_inserted/"+sopName[sInsertNodeAt], 1500)
	r.Require("slist_pair_node_from_other_list_inserted/"+sopName[sPushBackNode], 900)
	r.Require("slist_pair_node_from_other_list_inserted/"+sopName[sPushFrontNode], 600)
	r.Require("slist_pair_node_from_other_list_inserted_in_the_middle", 600)
	r.Require("slist_pair_other_list_rechecked", 70000)
}
