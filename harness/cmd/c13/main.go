// C13 — DList and SList keep exact sequence semantics with stable node handles.
//
// DList: differential monitor against container/list on the same operation
// sequence with paired handles (golib node <-> list element), using live,
// removed, never-inserted, foreign and Init-orphaned handles, node-form
// inserts of fresh and previously removed nodes, and copies of other lists and
// of the list itself (dlist.go).
// SList: reference-model monitor against a plain slice, indices -2..len+2 and
// the extreme ints, node forms with fresh and previously removed nodes; after
// every operation Len, Front, Back, the Next-chain, All and Get must describe
// the same sequence (slist.go).
package main

import "verif/ev"

func main() {
	r := ev.New("C13")
	r.Rule("one case = a seeded operation sequence. dlist/mix, dlist/copy: 8..160 operations (Push*/Insert*/Insert*Node*/Remove/Move*/Push*DList/Init/Value writes) over 1..3 DLists, each a never-initialised zero value or NewDoubly(), node and mark drawn from members, members of another list, removed nodes, never-inserted nodes and nodes orphaned by another list's Init; dlist/small: for one size 0..5 every operation x every node/mark choice on a fresh fixture + 3 random operations; slist/mix: 8..160 operations with indices weighted to -1, 0, len-1, len, len+1, +-2 and Min/MaxInt; slist/ends: for one size 0..6 and one of 5 build recipes every index-based operation at every index (Swap: every pair) + tail-dependent follow-ups. distinct = distinct hash of the (operation, list, handle ids / indices, value) sequence; non-trivial = at least two operations that really changed a list relative to an existing node or index (effective insert/move/remove/copy/swap)")
	r.Assume("container/list of the Go standard library is the specification of DList; a node-form insert (PushFrontNode, PushBackNode, InsertNodeBefore, InsertNodeAfter), which container/list does not have, is modelled as the value-form insert of the node's value with the golib node re-paired to the new element")
	r.Assume("only nodes that are in no list (never inserted, or removed) are handed to the node-form inserts, and a node orphaned by l.Init() is never handed back to l itself (container/list is undefined there); nil nodes are never passed (documented precondition)")
	r.Assume("SList: the specification is a Go slice; Get/Remove/Swap reject out-of-range indices (nil / no change), InsertAt/InsertNodeAt clamp (i<=0 front, i>=len back) as documented; after Swap the two positions may have exchanged either their values or their nodes")
	opt := ev.Opt{HangViolation: true, MaxCaseSeconds: 120}
	r.Cases("dlist/mix", r.N(30000, 1500000), opt, dlistMix)
	r.Cases("dlist/copy", r.N(6000, 300000), opt, dlistCopy)
	r.Cases("dlist/small", r.N(1200, 40000), opt, dlistSmall)
	r.Cases("slist/mix", r.N(30000, 1500000), opt, slistMix)
	r.Cases("slist/ends", r.N(1200, 40000), opt, slistEnds)
	// anti-vacuity floors (a fraction of what the quick tier observes at every seed)
	for k, v := range map[string]int64{
		"dlist_ops": 500000, "dlist_traversals_compared": 3000000,
		"dlist_move_effective": 50000, "dlist_move_adjacent": 20000, "dlist_move_onto_itself": 10000,
		"dlist_remove_effective": 50000, "dlist_stale_handle_noop": 50000, "dlist_stale_mark_noop": 20000,
		"dlist_handle_foreign": 20000, "dlist_handle_removed": 50000, "dlist_handle_fresh": 50000, "dlist_handle_retired_other_list": 1000,
		"dlist_self_copy_nonempty": 10000, "dlist_other_copy": 5000, "dlist_copied_nodes_paired": 100000,
		"dlist_node_reinserted_after_removal": 15000, "dlist_init": 4000,
		"dlist_zero_value_first_op": 10000, "dlist_zero_value_first_op/PushFrontNode": 300, "dlist_zero_value_first_op/PushBackNode": 300,
		"dlist_zero_value_first_op/PushBackDList": 100, "dlist_zero_value_first_op/PushFrontDList": 100,
		"dlist_all_early_break": 100000, "dlist_detached_nav_checked": 200000, "dlist_small_fixtures": 20000,
		"slist_ops": 500000, "slist_traversals_compared": 1000000, "slist_gets_compared": 5000000,
		"slist_index_negative": 30000, "slist_index_first": 30000, "slist_index_last": 30000, "slist_index_eq_len": 20000,
		"slist_index_gt_len": 30000, "slist_index_only_element": 8000, "slist_index_middle": 30000,
		"slist_remove_effective": 100000, "slist_remove_rejected": 20000, "slist_removefront_last_element": 2000, "slist_removefront_empty": 500,
		"slist_swap_effective": 10000, "slist_swap_rejected": 20000, "slist_node_reinserted_after_removal": 20000,
		"slist_checked_empty": 10000, "slist_drained_to_empty": 500, "slist_all_early_break": 80000, "slist_ends_fixtures": 20000,
	} {
		r.Require(k, v)
	}
	r.Finish()
}
