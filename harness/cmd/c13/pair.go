package main

// Two SLists that hand nodes to each other (clause-coverage audit).
//
// The statement quantifies over "all choices of node handles including removed
// and foreign ones". The other SList engines work on one list per case, so the
// only detached nodes the node forms (PushFrontNode, PushBackNode,
// InsertNodeAt) ever receive are fresh ones and nodes removed from the very
// list they go back into. Here two lists live side by side: a node handed out
// by Remove / RemoveFront of one list is inserted into the other one, travels
// back later, and after every operation BOTH lists are compared with their
// models (the list that was not operated on must not have changed, the one
// that was must hold the travelling node at the place the operation names).

import (
	"fmt"
	"strings"

	"github.com/welllog/golib/listz"

	"verif/ev"
)

func slistPair(c *ev.Case) {
	rng := c.Rng
	want := c.Index < 64 && c.WantSample()
	ss := [2]*ssut{newSsut(c, want), newSsut(c, want)}
	// home[e] = the list that handed e out last (by Remove / RemoveFront)
	home := map[*listz.SNode[int]]int{}
	var text []string
	var hash uint64
	foreign, nops := 0, rng.Pick(10, 20, 40, 80)
	if rng.Bool() {
		if !ss[0].check() || !ss[1].check() {
			return
		}
	}
	for i := 0; i < nops; i++ {
		a := rng.Intn(2)
		s, o := ss[a], ss[1-a]
		// the nodes that left the other list are offered to this one (and stay on offer to their own)
		if len(o.spare) > 0 && rng.Chance(2, 3) {
			for n := rng.Range(1, len(o.spare)); n > 0; n-- {
				j := rng.Intn(len(o.spare))
				s.spare = append(s.spare, o.spare[j])
				o.spare = append(o.spare[:j], o.spare[j+1:]...)
			}
		}
		op := s.randomOp()
		if len(s.vals) == 0 && op.code >= sGet && rng.Chance(2, 3) {
			op = sop{code: rng.Pick(sPushBack, sPushFront, sInsertAt), i: s.index(), v: s.val()} // keep both lists populated
		}
		isForeign := false
		if op.e != nil && op.eOld {
			if h, ok := home[op.e]; ok && h != a {
				isForeign = true
			}
			delete(home, op.e)
		}
		c.Logf("-- list %d:", a)
		if s.keepText {
			text = append(text, fmt.Sprintf("S%d.%s", a, s.opText(op)))
		}
		hash = ev.Mix(hash, uint64(a))
		if !s.apply(op) {
			return
		}
		if isForeign {
			foreign++
			c.Add("slist_pair_node_from_other_list_inserted", 1)
			c.Add("slist_pair_node_from_other_list_inserted/"+sopName[op.code], 1)
			if op.code == sInsertNodeAt {
				// where it went: clamped to an end, or in between two nodes of the receiving list
				if op.i > 0 && op.i < len(s.vals)-1 {
					c.Add("slist_pair_node_from_other_list_inserted_in_the_middle", 1)
				}
			}
		}
		for _, e := range s.spare {
			if _, ok := home[e]; !ok {
				home[e] = a
			}
		}
		// the list that was not operated on is the same sequence as before
		c.Logf("-- list %d (not operated on):", 1-a)
		if !o.check() {
			return
		}
		c.Add("slist_pair_other_list_rechecked", 1)
	}
	c.Add("slist_pair_cases", 1)
	if ss[0].nontriv+ss[1].nontriv >= 2 && foreign > 0 {
		c.Distinct(ev.Mix(0x56, hash, ss[0].hash, ss[1].hash))
	}
	if want && c.WantSample() {
		more := ""
		if len(text) > 16 {
			more = fmt.Sprintf(" ... (+%d more operations)", len(text)-16)
			text = text[:16]
		}
		c.Sample(fmt.Sprintf("pair: %s%s; final sequences S0=%v S1=%v (%d nodes went from one list into the other)", strings.Join(text, "; "), more, ss[0].vals, ss[1].vals, foreign))
	}
}
