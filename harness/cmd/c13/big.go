package main

// Long lists (LESSONS class 7: size thresholds).
//
// The other engines keep every list below a few dozen nodes because the splice
// bookkeeping is the same at every size. A walk unrolled in blocks, a slab
// allocated for a long copy, a bulk path for "big" arguments switch on at some
// length instead. A few cases per run build lists whose length sits on both
// sides of every power of two from 16 to 65536 and work on them at the ends,
// in the middle and around the power-of-two positions, with whole-list copies
// (onto another list and onto the list itself) in between.

import (
	"container/list"
	"fmt"
	"math"

	"github.com/welllog/golib/listz"

	"verif/ev"
)

var bigSizes = [...]int{15, 16, 17, 31, 32, 33, 63, 64, 65, 127, 128, 129, 255, 256, 257, 511, 512, 513,
	1023, 1024, 1025, 4095, 4096, 4097, 65535, 65536, 65537}

// bigSize picks a length; the three longest ones together are drawn as often as any other power of two.
func bigSize(rng *ev.Rand) int {
	p := rng.Intn(len(bigSizes) / 3)
	return bigSizes[3*p+rng.Intn(3)]
}

// bigPos: an index into a list of n nodes: an end, the middle, next to a power of two, or anywhere.
func bigPos(rng *ev.Rand, n int) int {
	if n <= 1 {
		return 0
	}
	switch rng.Intn(6) {
	case 0:
		return rng.Pick(0, 1)
	case 1:
		return n - 1 - rng.Pick(0, 1)
	case 2:
		return n/2 - rng.Pick(0, 1)
	case 3, 4:
		p := 1 << rng.Range(3, 16)
		for p >= n {
			p >>= 1
		}
		i := p - 1 + rng.Intn(3) // 2^k-1, 2^k, 2^k+1
		if i >= n {
			i = n - 1
		}
		return i
	}
	return rng.Intn(n)
}

// probeIndex says which indices of a long SList are probed with Get after every operation:
// -2..2, the last three and the two behind the end, the middle, every 2^k-1, 2^k, 2^k+1 and
// a coarse grid.
func probeIndex(i, n int) bool {
	if i <= 2 || i >= n-3 || n <= 64 {
		return true
	}
	if d := i - n/2; d >= -1 && d <= 1 {
		return true
	}
	for _, j := range [...]int{i - 1, i, i + 1} {
		if j > 0 && j&(j-1) == 0 {
			return true
		}
	}
	step := n / 8
	return i%step == 0
}

func (s *dsut) totalNodes() int {
	t := 0
	for _, ml := range s.ml {
		t += ml.Len()
	}
	return t
}

// dlistBig: one long DList L0, one short one L1; copies of the long list and node-relative
// operations at positions spread over it.
func dlistBig(c *ev.Case) {
	rng := c.Rng
	n := bigSize(rng)
	want := c.WantSample()
	s := &dsut{c: c, byElem: map[*list.Element]*handle{}, byNode: map[*listz.DNode[int]]*handle{}, keepText: want || c.Logging(), nextVal: 100}
	s.addList(rng.Bool())
	s.addList(rng.Bool())
	style := rng.Intn(3)
	c.Logf("---- L0 is built with %d nodes (style %d), L1 with 2", n, style)
	s.quiet = true
	for i := 0; i < n; i++ {
		code := oPushBack
		if style == 1 || (style == 2 && i%2 == 1) {
			code = oPushFront
		}
		if !s.apply(dop{code: code, k: 0, v: 1000 + i}) {
			return
		}
	}
	for i := 0; i < 2; i++ {
		if !s.apply(dop{code: oPushBack, k: 1, v: 20 + i}) {
			return
		}
	}
	s.quiet = false
	s.text = s.text[:0]
	if !s.checkAll() {
		return
	}
	budget := 140000 // nodes in all lists together
	if n < 5000 {
		budget = 6*n + 64
	}
	nops := rng.Range(8, 14)
	copies := 0
	for i := 0; i < nops; i++ {
		var op dop
		k := 0
		if s.ml[1].Len() > 8 && rng.Chance(1, 3) {
			k = 1
		}
		live := s.live(k)
		at := func() *handle {
			if len(live) == 0 || rng.Chance(1, 10) {
				return s.pickHandle(k)
			}
			return live[bigPos(rng, len(live))]
		}
		switch p := rng.Intn(20); {
		case p < 5 || i == 1:
			// whole-list copies: the long list onto the short one, onto itself, the short one onto the long one
			op = dop{code: rng.Pick(oPushBackList, oPushFrontList), k: rng.Pick(0, 1, 1), j: rng.Pick(0, 0, 1)}
			if s.totalNodes()+s.ml[op.j].Len() > budget {
				op = dop{code: oRemove, k: k, h: at()}
				break
			}
			copies++
			c.Add("dlist_big_copies", 1)
			c.Max("dlist_big_longest_copy", int64(s.ml[op.j].Len()))
			if op.k == op.j {
				c.Add("dlist_big_self_copies", 1)
				if s.ml[op.j].Len() >= 64 {
					c.Add("dlist_big_self_copies_ge_64", 1)
				}
			}
			if s.ml[op.j].Len() >= 4096 {
				c.Add("dlist_big_copies_ge_4096", 1)
			}
		case p < 9:
			op = dop{code: oRemove, k: k, h: at()}
		case p < 12:
			op = dop{code: rng.Pick(oMoveFront, oMoveBack), k: k, h: at()}
		case p < 15:
			op = dop{code: rng.Pick(oMoveBefore, oMoveAfter), k: k, h: at(), m: at()}
		case p < 17:
			op = dop{code: rng.Pick(oInsBefore, oInsAfter), k: k, m: at(), v: s.val()}
		case p < 19:
			op = dop{code: rng.Pick(oInsNodeBefore, oInsNodeAfter), k: k, h: s.pickInsertable(), m: at()}
		default:
			op = dop{code: rng.Pick(oPushFront, oPushBack, oPushFrontNode, oPushBackNode), k: k, v: s.val()}
			if op.code == oPushFrontNode || op.code == oPushBackNode {
				op.h = s.pickInsertable()
			}
		}
		if !s.apply(op) {
			return
		}
	}
	c.Add("dlist_big_cases", 1)
	c.Add(fmt.Sprintf("dlist_big_size_%d", n), 1)
	if n >= 65535 {
		c.Add("dlist_big_cases_ge_65535", 1)
	}
	c.Max("dlist_big_max_len", int64(max(s.ml[0].Len(), s.ml[1].Len())))
	// the long list is not swept handle by handle at the end: the operands were checked after each operation
	c.Distinct(ev.Mix(0xD5, uint64(n), uint64(style), s.hash))
	s.sample(fmt.Sprintf("big (L0 built with %d nodes, %d whole-list copies)", n, copies))
}

func (s *ssut) bigIndex() int {
	rng := s.c.Rng
	n := len(s.vals)
	switch rng.Intn(10) {
	case 0:
		return rng.Pick(-1, n, n+1, math.MinInt, math.MaxInt)
	case 1:
		return n
	}
	return bigPos(rng, n)
}

// slistBig: one long SList; index-based operations at positions spread over it.
func slistBig(c *ev.Case) {
	rng := c.Rng
	n := bigSize(rng)
	want := c.WantSample()
	s := &ssut{c: c, keepText: want || c.Logging(), nextVal: 100, l: new(listz.SList[int]), sparse: true, untouched: true, unseen: true}
	style := rng.Intn(3)
	c.Logf("---- the list is built with %d nodes (style %d)", n, style)
	s.quiet = true
	for i := 0; i < n; i++ {
		var ok bool
		switch style {
		case 0:
			ok = s.apply(sop{code: sPushBack, v: 1000 + i})
		case 1:
			ok = s.apply(sop{code: sPushFront, v: 1000 + i})
		default:
			ok = s.apply(sop{code: sPushBackNode, e: &listz.SNode[int]{Value: 1000 + i}})
		}
		if !ok {
			return
		}
	}
	s.quiet = false
	s.text = s.text[:0]
	if !s.check() {
		return
	}
	nops := rng.Range(8, 14)
	for i := 0; i < nops; i++ {
		var op sop
		switch p := rng.Intn(20); {
		case p < 5:
			op = sop{code: sRemove, i: s.bigIndex()}
		case p < 8:
			op = sop{code: sGet, i: s.bigIndex()}
		case p < 11:
			op = sop{code: sInsertAt, i: s.bigIndex(), v: s.val()}
		case p < 14:
			op = sop{code: sInsertNodeAt, i: s.bigIndex()}
			op.e, op.eOld = s.node()
		case p < 17:
			op = sop{code: sSwap, i: s.bigIndex(), j: s.bigIndex()}
		case p < 18:
			op = sop{code: sRemoveFront}
		default:
			op = sop{code: rng.Pick(sPushFront, sPushBack, sPushFrontNode, sPushBackNode), v: s.val()}
			if op.code == sPushFrontNode || op.code == sPushBackNode {
				op.e, op.eOld = s.node()
			}
		}
		for _, x := range []int{op.i, op.j} {
			if x >= 64 && x < len(s.vals) && op.code != sRemoveFront && op.code < sSetValue && op.code != sPushFront && op.code != sPushBack && op.code != sPushFrontNode && op.code != sPushBackNode {
				c.Add("slist_big_index_ge_64_in_range", 1)
			}
		}
		if !s.apply(op) {
			return
		}
	}
	c.Add("slist_big_cases", 1)
	c.Add(fmt.Sprintf("slist_big_size_%d", n), 1)
	if n >= 65535 {
		c.Add("slist_big_cases_ge_65535", 1)
	}
	c.Max("slist_big_max_len", int64(len(s.vals)))
	c.Distinct(ev.Mix(0x55, uint64(n), uint64(style), s.hash))
	s.sample(fmt.Sprintf("big (built with %d nodes)", n))
}
