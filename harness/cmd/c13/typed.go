package main

// Engine "elemtypes" (LESSONS class 14): SList[T] and DList[T] over element types other than
// int — structs of 128, 256 and 1024 bytes, strings, nil-able interfaces and pointers,
// zero-size elements. An implementation may choose between exchanging values and relinking
// nodes by element size; the statement is about every T. Model = a slice of ids; after every
// operation Len, Front, Back, the Next chain (and Prev chain for DList) are compared.

import (
	"container/list"
	"fmt"

	"github.com/welllog/golib/listz"

	"verif/ev"
)

type lcodec[T any] struct {
	name string
	mk   func(id int) T
	rd   func(T) int // -1: damaged
}

type w128 struct {
	A  [7]int64
	ID int64
	B  [8]int64
}
type w256 [32]int64
type w1k struct {
	Pad [127]uint64
	ID  int
}

func slistTyped[T any](c *ev.Case, cd lcodec[T]) {
	rng := c.Rng
	c.Add("typed/slist "+cd.name, 1)
	l := listz.NewSingly[T]()
	if rng.Bool() {
		l = new(listz.SList[T])
	}
	var model []int
	next := 0
	hash := ev.HashString("s" + cd.name)
	zeroSize := cd.rd(cd.mk(5)) != 5 // ids are not carried (struct{}): only shape is compared
	check := func(after string) bool {
		if l.Len() != len(model) {
			c.Failf("typed-slist-len", "SList[%s] after %s: Len()=%d, model has %d", cd.name, after, l.Len(), len(model))
			return false
		}
		i := 0
		var last *listz.SNode[T]
		for e := l.Front(); e != nil; e = e.Next() {
			if i >= len(model) {
				c.Failf("typed-slist-chain", "SList[%s] after %s: the Next chain from Front() is longer than Len()=%d (a cycle or a stale link)", cd.name, after, len(model))
				return false
			}
			if got := cd.rd(e.Value); !zeroSize && got != model[i] {
				c.Failf("typed-slist-chain", "SList[%s] after %s: node %d carries id %d, model %v", cd.name, after, i, got, model)
				return false
			}
			last = e
			i++
		}
		if i != len(model) {
			c.Failf("typed-slist-chain", "SList[%s] after %s: the Next chain has %d nodes, Len()=%d", cd.name, after, i, len(model))
			return false
		}
		if l.Back() != last {
			c.Failf("typed-slist-back", "SList[%s] after %s: Back() is not the last node of the Next chain (%d nodes)", cd.name, after, i)
			return false
		}
		c.Add("typed/slist_checks", 1)
		return true
	}
	nops := rng.Range(8, 40)
	for op := 0; op < nops; op++ {
		n := len(model)
		idx := func() int {
			if n > 0 && rng.Chance(4, 5) {
				return rng.Intn(n)
			}
			return rng.Range(-1, n+1)
		}
		var what string
		ok := true
		switch p := rng.Intn(20); {
		case p < 4:
			next++
			v := cd.mk(next)
			model = append(model, cd.rd(v))
			what = "PushBack"
			ok = c.Guard(what, func() { l.PushBack(v) })
		case p < 6:
			next++
			v := cd.mk(next)
			model = append([]int{cd.rd(v)}, model...)
			what = "PushFront"
			ok = c.Guard(what, func() { l.PushFront(v) })
		case p < 9:
			next++
			v := cd.mk(next)
			i := idx()
			at := i
			if at < 0 {
				at = 0
			}
			if at > n {
				at = n
			}
			model = append(model[:at], append([]int{cd.rd(v)}, model[at:]...)...)
			what = fmt.Sprintf("InsertAt(%d)", i)
			ok = c.Guard(what, func() { l.InsertAt(i, v) })
		case p < 12:
			i := idx()
			what = fmt.Sprintf("Remove(%d)", i)
			var e *listz.SNode[T]
			ok = c.Guard(what, func() { e = l.Remove(i) })
			if ok {
				in := i >= 0 && i < n
				if (e != nil) != in {
					c.Failf("typed-slist-remove", "SList[%s].Remove(%d) returned nil=%v with %d nodes", cd.name, i, e == nil, n)
					return
				}
				if in {
					if got := cd.rd(e.Value); !zeroSize && got != model[i] {
						c.Failf("typed-slist-remove", "SList[%s].Remove(%d) returned the node with id %d, model has %d there", cd.name, i, got, model[i])
						return
					}
					model = append(model[:i], model[i+1:]...)
					if rng.Chance(1, 3) { // the removed node goes back in (node forms)
						at := rng.Range(0, len(model))
						id := cd.rd(e.Value)
						if zeroSize {
							id = 0
						}
						model = append(model[:at], append([]int{id}, model[at:]...)...)
						what += fmt.Sprintf("+InsertNodeAt(%d)", at)
						ok = c.Guard("InsertNodeAt", func() { l.InsertNodeAt(at, e) })
						c.Add("typed/slist_node_reinserted", 1)
					}
				}
			}
		case p < 13:
			what = "RemoveFront"
			var e *listz.SNode[T]
			ok = c.Guard(what, func() { e = l.RemoveFront() })
			if ok {
				if (e != nil) != (n > 0) {
					c.Failf("typed-slist-remove", "SList[%s].RemoveFront() returned nil=%v with %d nodes", cd.name, e == nil, n)
					return
				}
				if n > 0 {
					model = model[1:]
				}
			}
		case p < 18:
			i, j := idx(), idx()
			if n >= 2 && rng.Chance(1, 2) { // neighbours, either order
				i = rng.Intn(n - 1)
				j = i + 1
				if rng.Bool() {
					i, j = j, i
				}
				c.Add("typed/slist_swap_neighbours", 1)
			}
			what = fmt.Sprintf("Swap(%d,%d)", i, j)
			if i >= 0 && i < n && j >= 0 && j < n {
				model[i], model[j] = model[j], model[i]
				c.Add("typed/slist_swap_in_range", 1)
			}
			ok = c.Guard(what, func() { l.Swap(i, j) })
		default:
			i := idx()
			what = fmt.Sprintf("Get(%d)", i)
			var e *listz.SNode[T]
			ok = c.Guard(what, func() { e = l.Get(i) })
			if ok {
				in := i >= 0 && i < n
				if (e != nil) != in || (in && !zeroSize && cd.rd(e.Value) != model[i]) {
					c.Failf("typed-slist-get", "SList[%s].Get(%d) with %d nodes: nil=%v", cd.name, i, n, e == nil)
					return
				}
			}
		}
		hash = ev.Mix(hash, ev.HashString(what))
		if !ok || c.Failed() || !check(what) {
			return
		}
	}
	c.Distinct(hash)
	if c.WantSample() {
		c.Sample(fmt.Sprintf("elemtypes: SList[%s], %d operations (PushBack/PushFront/InsertAt/Remove(+node re-inserted)/RemoveFront/Swap incl. neighbours/Get), chain compared after each", cd.name, nops))
	}
}

func dlistTyped[T any](c *ev.Case, cd lcodec[T]) {
	rng := c.Rng
	c.Add("typed/dlist "+cd.name, 1)
	l := listz.NewDoubly[T]()
	ref := list.New()
	pair := map[*list.Element]*listz.DNode[T]{}
	zeroSize := cd.rd(cd.mk(5)) != 5
	next := 0
	hash := ev.HashString("d" + cd.name)
	pick := func() *list.Element {
		if ref.Len() == 0 {
			return nil
		}
		e := ref.Front()
		for k := rng.Intn(ref.Len()); k > 0; k-- {
			e = e.Next()
		}
		return e
	}
	check := func(after string) bool {
		if l.Len() != ref.Len() {
			c.Failf("typed-dlist-len", "DList[%s] after %s: Len()=%d, container/list has %d", cd.name, after, l.Len(), ref.Len())
			return false
		}
		e, r := l.Front(), ref.Front()
		for i := 0; r != nil; i, e, r = i+1, e.Next(), r.Next() {
			if e == nil || e != pair[r] || (!zeroSize && cd.rd(e.Value) != r.Value.(int)) {
				c.Failf("typed-dlist-forward", "DList[%s] after %s: forward traversal differs from container/list at position %d", cd.name, after, i)
				return false
			}
		}
		if e != nil {
			c.Failf("typed-dlist-forward", "DList[%s] after %s: forward traversal is longer than container/list's", cd.name, after)
			return false
		}
		e, r = l.Back(), ref.Back()
		for i := 0; r != nil; i, e, r = i+1, e.Prev(), r.Prev() {
			if e == nil || e != pair[r] {
				c.Failf("typed-dlist-backward", "DList[%s] after %s: backward traversal differs from container/list at position %d from the back", cd.name, after, i)
				return false
			}
		}
		if e != nil {
			c.Failf("typed-dlist-backward", "DList[%s] after %s: backward traversal is longer than container/list's", cd.name, after)
			return false
		}
		c.Add("typed/dlist_checks", 1)
		return true
	}
	nops := rng.Range(8, 40)
	for op := 0; op < nops; op++ {
		var what string
		ok := true
		switch p := rng.Intn(16); {
		case p < 3:
			next++
			v := cd.mk(next)
			id := cd.rd(v)
			what = "PushBack"
			ok = c.Guard(what, func() { pair[ref.PushBack(id)] = l.PushBack(v) })
		case p < 5:
			next++
			v := cd.mk(next)
			id := cd.rd(v)
			what = "PushFront"
			ok = c.Guard(what, func() { pair[ref.PushFront(id)] = l.PushFront(v) })
		case p < 8:
			m := pick()
			if m == nil {
				continue
			}
			next++
			v := cd.mk(next)
			id := cd.rd(v)
			if rng.Bool() {
				what = "InsertBefore"
				ok = c.Guard(what, func() { pair[ref.InsertBefore(id, m)] = l.InsertBefore(v, pair[m]) })
			} else {
				what = "InsertAfter"
				ok = c.Guard(what, func() { pair[ref.InsertAfter(id, m)] = l.InsertAfter(v, pair[m]) })
			}
		case p < 11:
			m := pick()
			if m == nil {
				continue
			}
			what = "Remove"
			var got T
			ok = c.Guard(what, func() { got = l.Remove(pair[m]) })
			if ok && !zeroSize && cd.rd(got) != m.Value.(int) {
				c.Failf("typed-dlist-remove", "DList[%s].Remove returned the value with id %d, the element carried %d", cd.name, cd.rd(got), m.Value.(int))
				return
			}
			ref.Remove(m)
			delete(pair, m)
		default:
			e, m := pick(), pick()
			if e == nil {
				continue
			}
			switch rng.Intn(4) {
			case 0:
				what = "MoveToFront"
				ref.MoveToFront(e)
				ok = c.Guard(what, func() { l.MoveToFront(pair[e]) })
			case 1:
				what = "MoveToBack"
				ref.MoveToBack(e)
				ok = c.Guard(what, func() { l.MoveToBack(pair[e]) })
			case 2:
				what = "MoveBefore"
				ref.MoveBefore(e, m)
				ok = c.Guard(what, func() { l.MoveBefore(pair[e], pair[m]) })
			default:
				what = "MoveAfter"
				ref.MoveAfter(e, m)
				ok = c.Guard(what, func() { l.MoveAfter(pair[e], pair[m]) })
			}
			c.Add("typed/dlist_moves", 1)
		}
		hash = ev.Mix(hash, ev.HashString(what), uint64(ref.Len()))
		if !ok || c.Failed() || !check(what) {
			return
		}
	}
	c.Distinct(hash)
	if c.WantSample() {
		c.Sample(fmt.Sprintf("elemtypes: DList[%s] next to container/list, %d operations (push, insert before/after, remove, the four moves), both traversals compared after each", cd.name, nops))
	}
}

func typedRunBoth[T any](c *ev.Case, cd lcodec[T]) {
	if c.Rng.Chance(3, 5) {
		slistTyped(c, cd)
	} else {
		dlistTyped(c, cd)
	}
}

func typedCase(c *ev.Case) {
	switch c.Rng.Intn(8) {
	case 0:
		typedRunBoth(c, lcodec[w128]{"struct{128 bytes}",
			func(id int) w128 {
				var w w128
				w.ID = int64(id)
				w.A[0], w.B[7] = int64(^id), int64(id*3)
				return w
			},
			func(w w128) int {
				if w.A[0] != ^w.ID || w.B[7] != w.ID*3 {
					return -1
				}
				return int(w.ID)
			}})
	case 1:
		typedRunBoth(c, lcodec[w256]{"[32]int64",
			func(id int) w256 {
				var w w256
				w[0], w[31], w[16] = int64(id), int64(id), int64(^id)
				return w
			},
			func(w w256) int {
				if w[0] != w[31] || w[16] != ^w[0] {
					return -1
				}
				return int(w[0])
			}})
	case 2:
		typedRunBoth(c, lcodec[w1k]{"struct{1024 bytes}",
			func(id int) w1k {
				var w w1k
				w.ID = id
				w.Pad[0], w.Pad[126] = uint64(id), uint64(id)
				return w
			},
			func(w w1k) int {
				if w.Pad[0] != uint64(w.ID) || w.Pad[126] != uint64(w.ID) {
					return -1
				}
				return w.ID
			}})
	case 3:
		typedRunBoth(c, lcodec[string]{"string",
			func(id int) string { return fmt.Sprint("id-", id) },
			func(s string) int {
				var id int
				if n, _ := fmt.Sscanf(s, "id-%d", &id); n != 1 {
					return -1
				}
				return id
			}})
	case 4:
		typedRunBoth(c, lcodec[any]{"any",
			func(id int) any {
				if id%4 == 0 {
					return nil
				}
				return id
			},
			func(v any) int {
				if v == nil {
					return -4
				}
				id, _ := v.(int)
				return id
			}})
	case 5:
		typedRunBoth(c, lcodec[*int]{"*int",
			func(id int) *int { return &id },
			func(p *int) int {
				if p == nil {
					return -1
				}
				return *p
			}})
	case 6:
		typedRunBoth(c, lcodec[struct{}]{"struct{}",
			func(id int) struct{} { return struct{}{} },
			func(struct{}) int { return 0 }})
	default:
		typedRunBoth(c, lcodec[[2]string]{"[2]string",
			func(id int) [2]string { return [2]string{fmt.Sprint(id), fmt.Sprint(-id)} },
			func(t [2]string) int {
				var a, b int
				fmt.Sscan(t[0], &a)
				fmt.Sscan(t[1], &b)
				if a != -b {
					return -1
				}
				return a
			}})
	}
}
